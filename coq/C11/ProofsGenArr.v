(* C11 — second tie (DESIGN.md 4.4) for the array-backed containers: what
   muggle_array_list_insert / _append / _remove / _ensure_capacity and muggle_stack_push / _pop /
   _ensure_capacity compute — the capacity asked from ensure_capacity (the growth formula), the
   index range and direction of every cell-moving loop (or memmove / memcpy), the cell written, the
   new size, the size asked from malloc, the data handed to the free callback — sliced out of the C
   text of this run (gen_ definitions of gen/Params_C11.v, lib/props/c11_slice.py) equals the
   models of C11/Model.v.

   ensure_capacity is opaque inside insert / append / push: the call records its argument (oarg),
   answers ores and replaces capacity and the nodes array by the arguments h_capacity / h_nodes; the
   theorems instantiate these with what the model's al_ensure / st_ensure answers, and
   gen_al_ensure / gen_st_ensure tie the body of ensure_capacity itself.
   muggle_array_list_get_index is called through the definition lib/leaftrans.py generates for it
   (tied by gen_get_index_eq).

   The gen side of every proof is the shape-independent decision procedure arr_decide: unfold,
   decide every conditional, compare the result tuples component by component, integers by lia
   (after removing wraps that provably do not wrap), arrays cell by cell through the laws of
   C11/GenLib.v. *)
From MV Require Import Lib.Leaf C11.Model C11.GenLib C11.ProofsLib C11.ProofsAL C11.ProofsSeq C11.ProofsGen gen.Params_C11.
From Coq Require Import ZifyBool.
Local Open Scope Z_scope.

(* ---------- the model's list operations, cell by cell, in the vocabulary of the generated terms ---------- *)
Lemma zlenZ_zlen : forall l : list Z, zlenZ l = zlen l.
Proof. reflexivity. Qed.

Lemma lget_znth : forall l j, 0 <= j -> lget l j = znth l j.
Proof. intros. symmetry. apply zget_nth_default. assumption. Qed.

Lemma upd_nth_lset_nat : forall (l : list Z) i x, upd_nth i x l = lset_nat l i x.
Proof. induction l; destruct i; intros; cbn; auto. f_equal. apply IHl. Qed.

Lemma zset_lset : forall (l : list Z) i x, 0 <= i -> zset l i x = lset l i x.
Proof. intros. unfold zset, lset. destruct (i <? 0) eqn:E; [lia|]. apply upd_nth_lset_nat. Qed.

Lemma zlenZ_zset : forall (l : list Z) i x, zlenZ (zset l i x) = zlenZ l.
Proof. intros. rewrite !zlenZ_zlen. apply zset_zlen. Qed.
Lemma zlenZ_shift_up : forall n lo a, zlenZ (shift_up n lo a) = zlenZ a.
Proof. intros. rewrite !zlenZ_zlen. apply shift_up_zlen. Qed.
Lemma zlenZ_shift_down : forall n lo a, zlenZ (shift_down n lo a) = zlenZ a.
Proof. intros. rewrite !zlenZ_zlen. apply shift_down_zlen. Qed.
Lemma zlenZ_repeat : forall (x : Z) n, zlenZ (repeat x n) = Z.of_nat n.
Proof. intros. unfold zlenZ. now rewrite repeat_length. Qed.
Lemma zlenZ_grow : forall (l : list Z) sz c, 0 <= sz <= zlenZ l -> sz <= c ->
  zlenZ (firstn (Z.to_nat sz) l ++ repeat 0 (Z.to_nat (c - sz))) = c.
Proof. intros l sz c H1 H2. unfold zlenZ in *. rewrite app_length, firstn_length, repeat_length. lia. Qed.

Lemma lget_zset : forall (l : list Z) i x j, 0 <= i -> 0 <= j < zlenZ l ->
  lget (zset l i x) j = if i =? j then x else lget l j.
Proof. intros. rewrite zset_lset by assumption. now apply lget_lset. Qed.

Lemma lget_shift_up : forall n lo a j, (n = O \/ (0 <= lo /\ lo + Z.of_nat n < zlenZ a)) -> 0 <= j ->
  lget (shift_up n lo a) j = if (lo <? j) && (j <=? lo + Z.of_nat n) then lget a (j - 1) else lget a j.
Proof.
  intros n lo a j [-> | [H1 H2]] Hj.
  - cbn [shift_up]. destruct ((lo <? j) && (j <=? lo + Z.of_nat 0)) eqn:E; [lia | reflexivity].
  - rewrite zlenZ_zlen in H2. rewrite lget_znth by assumption. rewrite shift_up_znth by lia.
    destruct ((lo <? j) && (j <=? lo + Z.of_nat n)) eqn:E; rewrite lget_znth by lia; reflexivity.
Qed.

Lemma lget_shift_down : forall n lo a j, (n = O \/ (0 <= lo /\ lo + Z.of_nat n <= zlenZ a)) -> 0 <= j ->
  lget (shift_down n lo a) j = if (lo <=? j) && (j <? lo + Z.of_nat n) then lget a (j + 1) else lget a j.
Proof.
  intros n lo a j [-> | [H1 H2]] Hj.
  - cbn [shift_down]. destruct ((lo <=? j) && (j <? lo + Z.of_nat 0)) eqn:E; [lia | reflexivity].
  - rewrite zlenZ_zlen in H2. rewrite lget_znth by assumption. rewrite shift_down_znth by lia.
    destruct ((lo <=? j) && (j <? lo + Z.of_nat n)) eqn:E; rewrite lget_znth by lia; reflexivity.
Qed.

Lemma nth_repeat0 : forall n k, nth k (repeat 0 n) 0 = 0.
Proof.
  intros. destruct (Nat.lt_ge_cases k n).
  - apply nth_repeat.
  - apply nth_overflow. now rewrite repeat_length.
Qed.

Lemma lget_repeat0 : forall n j, lget (repeat 0 n) j = 0.
Proof. intros. apply nth_repeat0. Qed.

Lemma lget_grow : forall (l : list Z) sz c j, 0 <= sz <= zlenZ l -> 0 <= j ->
  lget (firstn (Z.to_nat sz) l ++ repeat 0 (Z.to_nat (c - sz))) j = if j <? sz then lget l j else 0.
Proof.
  intros l sz c j H Hj. unfold lget, zlenZ in *. destruct (Z.ltb_spec j sz).
  - rewrite app_nth1 by (rewrite firstn_length; lia). apply nth_firstn_lt. lia.
  - rewrite app_nth2 by (rewrite firstn_length; lia). apply nth_repeat0.
Qed.

(* ---------- decision tactic ---------- *)
Ltac noif t := lazymatch t with context [if _ then _ else _] => fail | _ => idtac end.
Ltac noeqb t := lazymatch t with context [Z.eqb _ _] => fail | _ => idtac end.

Ltac split_eqb :=
  match goal with
  | |- context [Z.eqb ?a ?b] =>
    noeqb a; noeqb b; noif a; noif b;
    destruct (Z.eqb_spec a b); cbn [negb andb orb b2z]; try (exfalso; timeout 20 lia)
  end.

Ltac split_cond :=
  match goal with
  | |- context [if ?c then _ else _] =>
    noif c; noeqb c;
    lazymatch c with true => fail | false => fail | _ => idtac end;
    destruct c eqn:?; try (exfalso; timeout 20 lia)
  end.

Ltac consts := unfold two31, two32, two64 in *.

Ltac wrap_small :=
  repeat match goal with
  | |- context [wrapu 64 ?x] => rewrite (wrapu64_small x) by (consts; timeout 20 lia)
  | |- context [wrapu 32 ?x] => rewrite (wrapu32_small x) by (consts; timeout 20 lia)
  | |- context [cdiv (8 * ?x) 8] => rewrite (cdiv8 x) by (consts; timeout 20 lia)
  end.

Ltac lens :=
  rewrite ?zlen_lset, ?zlen_lshift, ?zlen_lcopy, ?zlen_lblit, ?zlen_lmove, ?zlenZ_zset, ?zlenZ_shift_up,
          ?zlenZ_shift_down, ?zlenZ_repeat.

Ltac side := solve [lens; consts; timeout 30 lia | lens; rewrite zlenZ_grow by (consts; timeout 30 lia); consts; timeout 30 lia].

Ltac cell_step :=
  match goal with
  | |- context [lget (lset ?l ?i ?v) ?j] => rewrite (lget_lset l i v j) by side
  | |- context [lget (lshift ?n ?i (-1) ?d ?s ?a) ?j] => rewrite (lget_lshift_dec n i d s a j) by side
  | |- context [lget (lshift ?n ?i 1 ?d ?s ?a) ?j] => rewrite (lget_lshift_inc n i d s a j) by side
  | |- context [lget (lcopy ?n ?i 1 ?d ?s ?x ?y) ?j] => rewrite (lget_lcopy_inc n i d s x y j) by side
  | |- context [lget (lcopy ?n ?i (-1) ?d ?s ?x ?y) ?j] => rewrite (lget_lcopy_dec n i d s x y j) by side
  | |- context [lget (lmove ?a ?d ?s ?n) ?j] => rewrite (lget_lmove a d s n j) by side
  | |- context [lget (lblit ?x ?d ?y ?s ?n) ?j] => rewrite (lget_lblit x d y s n j) by side
  | |- context [lget (zset ?l ?i ?v) ?j] => rewrite (lget_zset l i v j) by side
  | |- context [lget (shift_up ?n ?lo ?a) ?j] => rewrite (lget_shift_up n lo a j) by side
  | |- context [lget (shift_down ?n ?lo ?a) ?j] => rewrite (lget_shift_down n lo a j) by side
  | |- context [lget (firstn (Z.to_nat ?sz) ?l ++ repeat 0 (Z.to_nat (?c - ?sz))) ?j] => rewrite (lget_grow l sz c j) by side
  | |- context [lget (repeat 0 ?n) ?j] => rewrite (lget_repeat0 n j)
  end.

Ltac leaf_goal :=
  first [ reflexivity
        | solve [consts; timeout 30 lia]
        | solve [wrap_small; first [reflexivity | consts; timeout 30 lia | f_equal; consts; timeout 30 lia]]
        | solve [unfold wrapu, u64 in *; consts; change (2 ^ 64) with 18446744073709551616 in *;
                 timeout 60 (Z.to_euclidean_division_equations; lia)] ].

Ltac cells := wrap_small; repeat first [cell_step | split_eqb | split_cond]; leaf_goal.

Ltac list_decide :=
  first [ reflexivity
        | apply list_ext; [ lens; try rewrite zlenZ_grow by (consts; timeout 30 lia); leaf_goal
                          | let j := fresh "j" in let Hj := fresh "Hj" in
                            intros j Hj; revert Hj; lens; intros Hj; cells ] ].

Ltac component :=
  lazymatch goal with
  | |- @eq (list Z) _ _ => first [ solve [wrap_small; repeat f_equal; leaf_goal] | list_decide ]
  | |- _ => leaf_goal
  end.

Ltac split_tuple := repeat match goal with |- (_, _) = (_, _) => apply f_equal2 end.

(* ---------- result tuples ---------- *)
Definition al_out (ret : Z) (s : alist) (oarg msz : Z) (cb : list Z) := (ret, nodes s, acap s, asize s, oarg, msz, cb).
Definition st_out (ret : Z) (s : stack) (oarg msz : Z) (cb : list Z) := (ret, snodes s, scap s, stop s, oarg, msz, cb).
Definition optz (o : option Z) : Z := match o with Some k => k | None => -1 end.
(* what insert / append / push ask from ensure_capacity: twice the capacity, when the storage is full *)
Definition grow_arg (size cap : Z) : Z := if size =? cap then cap * 2 else -1.

Ltac arr_decide :=
  cbv zeta; cbn [negb andb orb b2z]; repeat first [split_eqb | split_cond];
  cbn [fst snd nodes asize acap snodes stop scap optz]; split_tuple; component.

Lemma get_index_range : forall s index, al_inv s -> int_ok index ->
  al_get_index s index = -1 \/ 0 <= al_get_index s index < asize s.
Proof.
  intros s index I Hi. rewrite al_get_index_spec by auto.
  destruct (norm_index (asize s) index) eqn:N; [right; eapply norm_index_range; eauto | now left].
Qed.

Lemma gen_get_index_any : forall s1 sz index, al_inv s1 -> asize s1 = sz -> int_ok index ->
  gen_muggle_array_list_get_index sz index = al_get_index s1 index.
Proof. intros s1 sz index I <- Hi. now apply gen_get_index_matches_model. Qed.

(* ---------- array list: insert ---------- *)
Theorem gen_al_insert_matches_model : forall s index data ok m1 m1_ok, al_inv s -> int_ok index ->
  gen_al_insert (nodes s) (acap s) (asize s) m1 m1_ok
                (b2z (snd (al_ensure s (acap s * 2) ok))) (acap (fst (al_ensure s (acap s * 2) ok)))
                (nodes (fst (al_ensure s (acap s * 2) ok))) index data =
  al_out (optz (snd (al_insert s index data ok))) (fst (al_insert s index data ok))
         (grow_arg (asize s) (acap s)) (-1) [].
Proof.
  intros s index data ok m1 m1_ok I Hi.
  pose proof (al_grow_spec s ok I) as G. unfold al_insert, grow_arg. unfold al_grow_if_full in *.
  assert (I0 := I). destruct I0 as (H1 & H2 & H3).
  destruct (asize s =? acap s) eqn:Efull.
  - destruct (al_ensure s (acap s * 2) ok) as [s1 b]. cbn [fst snd andb] in *.
    destruct G as (I1 & _ & S1 & R). assert (I2 := I1). destruct I2 as (K1 & K2 & K3).
    destruct b; cbn [negb b2z].
    + destruct (negb ok || (acap s * 2 >=? two31)); [destruct R; discriminate|]. destruct R as (_ & Hlt).
      unfold gen_al_insert, al_out, al_place. rewrite Efull. rewrite (gen_get_index_any s1) by auto.
      pose proof (get_index_range s1 index I1 Hi) as Hgi. rewrite to_int_small by lia.
      generalize dependent (al_get_index s1 index). intros gi Hgi.
      rewrite <- !zlenZ_zlen in *. arr_decide.
    + unfold gen_al_insert, al_out. rewrite Efull. arr_decide.
  - cbn [fst snd andb negb] in *. destruct G as (_ & _ & _ & _ & Hlt).
    unfold gen_al_insert, al_out, al_place. rewrite Efull. rewrite (gen_get_index_any s) by auto.
    pose proof (get_index_range s index I Hi) as Hgi. rewrite to_int_small by lia.
    generalize dependent (al_get_index s index). intros gi Hgi.
    rewrite <- !zlenZ_zlen in *. arr_decide.
Qed.

(* ---------- array list: append ---------- *)
Theorem gen_al_append_matches_model : forall s index data ok m1 m1_ok, al_inv s -> int_ok index ->
  gen_al_append (nodes s) (acap s) (asize s) m1 m1_ok
                (b2z (snd (al_ensure s (acap s * 2) ok))) (acap (fst (al_ensure s (acap s * 2) ok)))
                (nodes (fst (al_ensure s (acap s * 2) ok))) index data =
  al_out (optz (snd (al_append s index data ok))) (fst (al_append s index data ok))
         (grow_arg (asize s) (acap s)) (-1) [].
Proof.
  intros s index data ok m1 m1_ok I Hi.
  pose proof (al_grow_spec s ok I) as G. unfold al_append, grow_arg. unfold al_grow_if_full in *.
  assert (I0 := I). destruct I0 as (H1 & H2 & H3).
  destruct (asize s =? acap s) eqn:Efull.
  - destruct (al_ensure s (acap s * 2) ok) as [s1 b]. cbn [fst snd andb] in *.
    destruct G as (I1 & _ & S1 & R). assert (I2 := I1). destruct I2 as (K1 & K2 & K3).
    destruct b; cbn [negb b2z].
    + destruct (negb ok || (acap s * 2 >=? two31)); [destruct R; discriminate|]. destruct R as (_ & Hlt).
      unfold gen_al_append, al_out, al_place. rewrite Efull. rewrite (gen_get_index_any s1) by auto.
      pose proof (get_index_range s1 index I1 Hi) as Hgi. rewrite to_int_small by lia.
      generalize dependent (al_get_index s1 index). intros gi Hgi.
      rewrite <- !zlenZ_zlen in *. arr_decide.
    + unfold gen_al_append, al_out. rewrite Efull. arr_decide.
  - cbn [fst snd andb negb] in *. destruct G as (_ & _ & _ & _ & Hlt).
    unfold gen_al_append, al_out, al_place. rewrite Efull. rewrite (gen_get_index_any s) by auto.
    pose proof (get_index_range s index I Hi) as Hgi. rewrite to_int_small by lia.
    generalize dependent (al_get_index s index). intros gi Hgi.
    rewrite <- !zlenZ_zlen in *. arr_decide.
Qed.

(* ---------- array list: remove (the datum is handed to the callback, NULL or not) ---------- *)
Theorem gen_al_remove_matches_model : forall s index cb m1 m1_ok ores hc hn p_pool, al_inv s -> int_ok index ->
  gen_al_remove (nodes s) (acap s) (asize s) m1 m1_ok ores hc hn index (b2z cb) p_pool =
  al_out (b2z (snd (fst (al_remove s index cb)))) (fst (fst (al_remove s index cb))) (-1) (-1) (snd (al_remove s index cb)).
Proof.
  intros s index cb m1 m1_ok ores hc hn p_pool I Hi.
  assert (I0 := I). destruct I0 as (H1 & H2 & H3).
  unfold gen_al_remove, al_remove, al_out. rewrite (gen_get_index_any s) by auto.
  pose proof (get_index_range s index I Hi) as Hgi.
  destruct (al_get_index s index <? 0) eqn:Eneg; cbn [fst snd].
  - reflexivity.
  - rewrite to_int_small by lia. rewrite <- lget_znth by lia.
    generalize dependent (al_get_index s index). intros gi Hgi Eneg.
    rewrite <- !zlenZ_zlen in *. destruct cb; cbn [b2z]; arr_decide.
Qed.

(* ---------- array list: ensure_capacity (fresh storage is modelled as zeros) ---------- *)
Theorem gen_al_ensure_matches_model : forall s c ok ores hc hn, al_inv s -> 0 <= c < two64 ->
  gen_al_ensure (nodes s) (acap s) (asize s) (repeat 0 (Z.to_nat c)) (b2z ok) ores hc hn c =
  al_out (b2z (snd (al_ensure s c ok))) (fst (al_ensure s c ok)) (-1)
         (if (acap s >=? c) || negb (cap_is_valid c) then -1 else 8 * c) [].
Proof.
  intros s c ok ores hc hn I Hc. assert (I0 := I). destruct I0 as (H1 & H2 & H3).
  unfold gen_al_ensure, al_ensure, al_out, cap_is_valid. rewrite !(u64_small c) by lia.
  rewrite <- !zlenZ_zlen in *.
  destruct ok; cbn [negb b2z]; arr_decide.
Qed.

(* ---------- stack ---------- *)
Lemma st_inv_fields : forall s, st_inv s -> 1 <= scap s < two31 /\ 0 <= stop s <= scap s /\ zlenZ (snodes s) = scap s.
Proof. intros s I. exact I. Qed.

Theorem gen_st_ensure_matches_model : forall s c ok ores hc hn, st_inv s -> 0 <= c < two64 ->
  gen_st_ensure (snodes s) (scap s) (stop s) (repeat 0 (Z.to_nat c)) (b2z ok) ores hc hn c =
  st_out (b2z (snd (st_ensure s c ok))) (fst (st_ensure s c ok)) (-1)
         (if (scap s >=? c) || negb (cap_is_valid c) then -1 else 8 * c) [].
Proof.
  intros s c ok ores hc hn I Hc. destruct (st_inv_fields s I) as (H1 & H2 & H3).
  unfold gen_st_ensure, st_ensure, st_out, cap_is_valid. rewrite !(u64_small c) by lia.
  destruct ok; cbn [negb b2z]; arr_decide.
Qed.

Theorem gen_st_push_matches_model : forall s data ok m1 m1_ok, st_inv s ->
  gen_st_push (snodes s) (scap s) (stop s) m1 m1_ok
              (b2z (snd (st_ensure s (scap s * 2) ok))) (scap (fst (st_ensure s (scap s * 2) ok)))
              (snodes (fst (st_ensure s (scap s * 2) ok))) data =
  st_out (optz (snd (st_push s data ok))) (fst (st_push s data ok)) (grow_arg (stop s) (scap s)) (-1) [].
Proof.
  intros s data ok m1 m1_ok I. destruct (st_inv_fields s I) as (H1 & H2 & H3).
  unfold st_push, grow_arg, gen_st_push, st_out.
  destruct (stop s =? scap s) eqn:Efull.
  - assert (Hc : 0 <= scap s * 2 < two64) by (unfold two31, two64 in *; lia).
    pose proof (st_ensure_spec s (scap s * 2) ok I Hc) as (I1 & _ & S1 & R).
    destruct (st_inv_fields _ I1) as (K1 & K2 & K3).
    destruct (st_ensure s (scap s * 2) ok) as [s1 b]. cbn [fst snd] in *.
    replace (scap s <? scap s * 2) with true in R by lia. cbn [andb] in R.
    destruct b; cbn [negb b2z].
    + destruct (negb ok || (scap s * 2 >=? two31)); [destruct R; discriminate|]. destruct R as (_ & Hle).
      arr_decide.
    + arr_decide.
  - cbn [negb]. arr_decide.
Qed.

Theorem gen_st_pop_matches_model : forall s cb m1 m1_ok ores hc hn p_pool, st_inv s ->
  gen_st_pop (snodes s) (scap s) (stop s) m1 m1_ok ores hc hn (b2z cb) p_pool =
  st_out 0 (fst (st_pop s cb)) (-1) (-1) (snd (st_pop s cb)).
Proof.
  intros s cb m1 m1_ok ores hc hn p_pool I. destruct (st_inv_fields s I) as (H1 & H2 & H3).
  unfold st_pop, gen_st_pop, st_out.
  destruct (stop s =? 0) eqn:E0; cbn [fst snd].
  - reflexivity.
  - rewrite !wrapu64_small by (unfold two31 in *; lia). rewrite <- lget_znth by lia.
    destruct cb; cbn [b2z]; destruct (lget (snodes s) (stop s - 1) =? 0) eqn:Ed; cbn [negb fst snd]; reflexivity.
Qed.

(* ====================================================================== *)
(* non-vacuity: a full array list / stack (capacity 1, one element), so that the growth path is taken *)
Definition ex_al : alist := {| nodes := [9]; asize := 1; acap := 1 |}.
Definition ex_st : stack := {| snodes := [9]; stop := 1; scap := 1 |}.

Example gen_al_hyps_sat : al_inv ex_al /\ asize ex_al = acap ex_al /\ int_ok (-1) /\ int_ok (- two31) /\ 0 <= 2 < two64.
Proof. unfold al_inv, int_ok, ex_al, two31, two64, zlen. cbn. lia. Qed.

Example gen_st_hyps_sat : st_inv ex_st /\ stop ex_st = scap ex_st.
Proof. unfold st_inv, al_inv, st_as_al, ex_st, two31, zlen. cbn. lia. Qed.
