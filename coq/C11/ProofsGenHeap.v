(* C11 — second tie (DESIGN.md 4.4) for the pointer-splicing code: what
   muggle_linked_list_insert / _append / _remove, muggle_queue_enqueue / _dequeue and
   muggle_pointer_slot_insert / _remove do to the next / prev / data (/ in_used) fields, to
   pp_slots[], to the cursors and to size — sliced out of the C text of this run into the gen_
   definitions of gen/Params_C11.v by lib/props/c11_slice.py — equals what the heap-level models
   of C11/ModelHeap.v (and, for the cursor / slot part, C11/Model.v) do.

   The gen side of every proof is a decision procedure that does not look at the shape of the
   generated term: unfold, decide every conditional (equalities between pointers are split
   innermost first, every other test is destructed), compare the results component by component;
   maps are compared pointwise (forall x, gen_map x = model_map x) by unfolding upd and splitting
   x =? k; pointer goals are closed by congruence, integers by lia.  A behaviour-preserving rewrite
   of the C text (pointer reads hoisted into locals, the four assignments of a splice issued in
   another order, helpers introduced or removed, guard clauses) keeps the obligations; a store
   that reads a pointer after it has been overwritten, a missing or extra store, a changed cursor
   or size update does not. *)
From MV Require Import Lib.Leaf C11.Model C11.ModelHeap C11.GenLib C11.ProofsLib C11.ProofsSeq C11.ProofsPS C11.ProofsHeap
                       gen.Params_C11.
From Coq Require Import ZifyBool.
Local Open Scope Z_scope.

(* ---------- decision tactic ---------- *)
Ltac noif t := lazymatch t with context [if _ then _ else _] => fail | _ => idtac end.
Ltac noeqb t := lazymatch t with context [Z.eqb _ _] => fail | _ => idtac end.

Ltac ptr_consts := unfold HEAD, TAIL, NULLP in *.

(* one pointer / integer equality test, innermost first; contradictory branches are closed at once *)
Ltac split_eqb :=
  match goal with
  | |- context [Z.eqb ?a ?b] =>
    noeqb a; noeqb b; noif a; noif b;
    destruct (Z.eqb_spec a b); cbn [negb andb orb]; try (exfalso; congruence)
  end.

(* any other condition of an if *)
Ltac split_cond :=
  match goal with
  | |- context [if ?c then _ else _] =>
    noif c; noeqb c;
    lazymatch c with true => fail | false => fail | _ => idtac end;
    destruct c eqn:?; try (exfalso; timeout 20 lia)
  end.

Ltac wrap_small :=
  repeat match goal with
  | |- context [wrapu 64 ?x] => rewrite (wrapu64_small x) by (unfold two64, two32, two31 in *; timeout 20 lia)
  | |- context [wrapu 32 ?x] => rewrite (wrapu32_small x) by (unfold two64, two32, two31 in *; timeout 20 lia)
  end.

Ltac leaf_goal :=
  first [ reflexivity
        | congruence
        | solve [wrap_small; first [reflexivity | timeout 20 lia | f_equal; timeout 20 lia]]
        | solve [unfold wrapu, two64, two32, two31, u32, u64 in *;
                 change (2 ^ 64) with 18446744073709551616 in *; change (2 ^ 32) with 4294967296 in *;
                 timeout 40 (Z.to_euclidean_division_equations; lia)] ].

Ltac decide_ifs := cbv zeta; cbn [negb andb orb]; repeat first [split_eqb | split_cond].

Ltac heap_component :=
  lazymatch goal with
  | |- forall x : Z, _ =>
    let x := fresh "x" in
    intro x; unfold set_next, set_prev, set_data, upd; cbn [hnext hprev hdata];
    repeat first [split_eqb | split_cond]; leaf_goal
  | |- _ => leaf_goal
  end.

Ltac heap_decide :=
  decide_ifs; cbv beta iota; cbn [fst snd hh hsize hnextid hpool]; repeat split; heap_component.

(* ---------- linked list / queue: result relation ---------- *)
Definition ll_res_ok (g : Z * (Z -> Z) * (Z -> Z) * (Z -> Z) * Z * list Z * list Z)
                     (ret : Z) (h : dheap) (size : Z) (cb fr : list Z) : Prop :=
  let '(r, nx, pv, dt, sz, c, f) := g in
  r = ret /\ (forall x, nx x = hnext h x) /\ (forall x, pv x = hprev h x) /\ (forall x, dt x = hdata h x) /\
  sz = size /\ c = cb /\ f = fr.

(* a node pointer argument / result: NULL is NULLP *)
Definition optp (o : option Z) : Z := match o with Some n => n | None => NULLP end.

(* the oracle of the generated function: the id the allocator returns (NULLP = no memory) *)
Definition alloc_res (hs : hlist) (ok : bool) : Z :=
  match node_alloc (hpool hs) (hsize hs) ok with Some _ => hnextid hs | None => NULLP end.

(* ---------- linked list ---------- *)
(* insert before [node] (NULL: before head.next).  Local hypotheses: the node pointer given is not
   NULL, the fresh node is none of the two neighbours it is linked between, and size + 1 fits. *)
Lemma gen_ll_insert_local : forall hs node data ok f_pool,
  let h := hh hs in
  let x := match node with Some n => n | None => hnext h HEAD end in
  (forall n, node = Some n -> n <> NULLP) ->
  hnextid hs <> NULLP -> hnextid hs <> x -> hnextid hs <> hprev h x ->
  0 <= hsize hs < two64 - 1 ->
  ll_res_ok (gen_ll_insert (hnext h) (hprev h) (hdata h) f_pool (hsize hs) (alloc_res hs ok) (optp node) data)
            (optp (snd (hl_insert hs node data ok))) (hh (fst (hl_insert hs node data ok)))
            (hsize (fst (hl_insert hs node data ok))) [] [].
Proof.
  intros hs node data ok f_pool h x Hn Hnw Hx Hp Hs. subst h x.
  unfold hl_insert, alloc_res. destruct (node_alloc (hpool hs) (hsize hs) ok) as [p'|]; cbn [fst snd hh hsize optp].
  - destruct node as [n|]; cbn [optp] in *; [specialize (Hn n eq_refl)|];
      unfold gen_ll_insert, ll_res_ok; heap_decide.
  - unfold gen_ll_insert, ll_res_ok; heap_decide.
Qed.

(* append after [node] (NULL: after tail.prev) *)
Lemma gen_ll_append_local : forall hs node data ok f_pool,
  let h := hh hs in
  let x := match node with Some n => n | None => hprev h TAIL end in
  (forall n, node = Some n -> n <> NULLP) ->
  hnextid hs <> NULLP -> hnextid hs <> x -> hnextid hs <> hnext h x ->
  0 <= hsize hs < two64 - 1 ->
  ll_res_ok (gen_ll_append (hnext h) (hprev h) (hdata h) f_pool (hsize hs) (alloc_res hs ok) (optp node) data)
            (optp (snd (hl_append hs node data ok))) (hh (fst (hl_append hs node data ok)))
            (hsize (fst (hl_append hs node data ok))) [] [].
Proof.
  intros hs node data ok f_pool h x Hn Hnw Hx Hp Hs. subst h x.
  unfold hl_append, alloc_res. destruct (node_alloc (hpool hs) (hsize hs) ok) as [p'|]; cbn [fst snd hh hsize optp].
  - destruct node as [n|]; cbn [optp] in *; [specialize (Hn n eq_refl)|];
      unfold gen_ll_append, ll_res_ok; heap_decide.
  - unfold gen_ll_append, ll_res_ok; heap_decide.
Qed.

(* remove [node]: the node after it (NULL at the end), the datum handed to the callback (when one is supplied:
   cb; the data pointer is cleared either way), the node freed *)
Lemma gen_ll_remove_local : forall hs node cb f_pool newp p_pool, 1 <= hsize hs < two64 ->
  ll_res_ok (gen_ll_remove (hnext (hh hs)) (hprev (hh hs)) (hdata (hh hs)) f_pool (hsize hs) newp node (b2z cb) p_pool)
            (optp (snd (fst (hl_remove hs node cb)))) (hh (fst (fst (hl_remove hs node cb))))
            (hsize (fst (fst (hl_remove hs node cb)))) (snd (hl_remove hs node cb)) [node].
Proof.
  intros hs node cb f_pool newp p_pool Hs.
  unfold hl_remove, hl_next, h_free_data, h_unlink, gen_ll_remove, ll_res_ok.
  destruct cb; cbn [b2z]; destruct (hdata (hh hs) node =? 0) eqn:Ed; cbn [fst snd hh hsize optp];
    destruct (hnext (hh hs) node =? TAIL) eqn:En; cbn [optp]; heap_decide.
Qed.

(* ---------- queue ---------- *)
Lemma gen_qu_enqueue_local : forall hs data ok f_pool,
  let h := hh hs in
  hnextid hs <> NULLP -> hnextid hs <> hprev h TAIL -> hnextid hs <> hnext h (hprev h TAIL) ->
  0 <= hsize hs < two64 - 1 ->
  ll_res_ok (gen_qu_enqueue (hnext h) (hprev h) (hdata h) f_pool (hsize hs) (alloc_res hs ok) data)
            (optp (snd (hq_enqueue hs data ok))) (hh (fst (hq_enqueue hs data ok)))
            (hsize (fst (hq_enqueue hs data ok))) [] [].
Proof.
  intros hs data ok f_pool h Hnw Hx Hp Hs. subst h.
  unfold hq_enqueue, alloc_res. destruct (node_alloc (hpool hs) (hsize hs) ok) as [p'|]; cbn [fst snd hh hsize optp];
    unfold gen_qu_enqueue, ll_res_ok; heap_decide.
Qed.

Lemma gen_qu_dequeue_local : forall hs cb f_pool newp p_pool,
  (hl_is_empty hs = false -> 1 <= hsize hs) -> hsize hs < two64 ->
  ll_res_ok (gen_qu_dequeue (hnext (hh hs)) (hprev (hh hs)) (hdata (hh hs)) f_pool (hsize hs) newp (b2z cb) p_pool)
            0 (hh (fst (hq_dequeue hs cb))) (hsize (fst (hq_dequeue hs cb))) (snd (hq_dequeue hs cb))
            (if hl_is_empty hs then [] else [hnext (hh hs) HEAD]).
Proof.
  intros hs cb f_pool newp p_pool Hs Hs2.
  unfold hq_dequeue, hl_is_empty, h_free_data, h_unlink, gen_qu_dequeue, ll_res_ok in *.
  destruct (hnext (hh hs) HEAD =? TAIL) eqn:Ee; cbn [fst snd hh hsize].
  - heap_decide.
  - specialize (Hs eq_refl).
    destruct cb; cbn [b2z]; destruct (hdata (hh hs) (hnext (hh hs) HEAD) =? 0) eqn:Ed; cbn [fst snd hh hsize]; heap_decide.
Qed.

(* ---------- the local hypotheses hold in every state related to the functional model ---------- *)
Lemma links_prev_in : forall h r u x, links h u r -> In x r -> In (hprev h x) (u :: removelast r).
Proof.
  induction r as [|v r IH]; intros u x L Hin; [contradiction|].
  cbn [links] in L. destruct L as (L1 & L2 & L3). destruct Hin as [<- | Hin].
  - left. auto.
  - right. destruct r as [|w r']; [contradiction|].
    change (removelast (v :: w :: r')) with (v :: removelast (w :: r')). apply IH; auto.
Qed.

Lemma links_next_in : forall h r u x, links h u r -> r <> [] -> In x (u :: removelast r) -> In (hnext h x) r.
Proof.
  induction r as [|v r IH]; intros u x L Hne Hin; [congruence|].
  cbn [links] in L. destruct L as (L1 & L2 & L3). destruct Hin as [<- | Hin].
  - left. auto.
  - destruct r as [|w r']; [contradiction|]. right.
    change (removelast (v :: w :: r')) with (v :: removelast (w :: r')) in Hin. apply IH with (u := v); auto. discriminate.
Qed.

Lemma chain_prev_in : forall h l x, links h HEAD (l ++ [TAIL]) -> In x (l ++ [TAIL]) -> In (hprev h x) (HEAD :: l).
Proof. intros h l x L Hin. rewrite <- (removelast_last l TAIL). now apply links_prev_in. Qed.

Lemma chain_next_in : forall h l x, links h HEAD (l ++ [TAIL]) -> In x (HEAD :: l) -> In (hnext h x) (l ++ [TAIL]).
Proof.
  intros h l x L Hin. apply links_next_in with (u := HEAD); auto.
  - destruct l; discriminate.
  - now rewrite removelast_last.
Qed.

Lemma node_at_in : forall s k, pos_ok s k = true -> In (node_at s k) (ids s).
Proof. intros s k H. apply pos_ok_nat in H. unfold node_at. apply nth_In. lia. Qed.

(* what the drivers pass as node argument for a position *)
Definition node_arg (s : llist) (pos : option Z) : option Z :=
  match pos with None => None | Some k => Some (node_at s k) end.

Lemma ll_ids_facts : forall hs s, ll_inv s -> hl_R hs s ->
  hnextid hs = lnext s /\ 0 < lnext s /\ ~ In (lnext s) (HEAD :: ids s ++ [TAIL]) /\
  (forall x, In x (ids s) -> 0 < x < lnext s) /\ links (hh hs) HEAD (ids s ++ [TAIL]) /\ hsize hs = lsize s.
Proof.
  intros hs s I (R1 & R2 & R3 & R4 & R5). destruct (ll_path_nodup s I) as (ND & Fr & Rg).
  destruct I as (_ & _ & _ & I4 & _). repeat split; auto; apply Rg; auto.
Qed.

Theorem gen_ll_insert_matches_model : forall hs s pos data ok f_pool, ll_inv s -> hl_R hs s ->
  match pos with None => True | Some k => pos_ok s k = true end -> lsize s < two64 - 1 ->
  ll_res_ok (gen_ll_insert (hnext (hh hs)) (hprev (hh hs)) (hdata (hh hs)) f_pool (hsize hs) (alloc_res hs ok)
                           (optp (node_arg s pos)) data)
            (optp (snd (hl_insert hs (node_arg s pos) data ok))) (hh (fst (hl_insert hs (node_arg s pos) data ok)))
            (hsize (fst (hl_insert hs (node_arg s pos) data ok))) [] [].
Proof.
  intros hs s pos data ok f_pool I R Hpos Hsz.
  destruct (ll_ids_facts hs s I R) as (E & Hpos0 & Fr & Rg & L & Es).
  assert (Hx : In (match node_arg s pos with Some n => n | None => hnext (hh hs) HEAD end) (ids s ++ [TAIL])).
  { destruct pos as [k|]; cbn [node_arg].
    - apply in_or_app. left. now apply node_at_in.
    - apply chain_next_in; auto. now left. }
  pose proof (chain_prev_in _ _ _ L Hx) as Hp.
  apply gen_ll_insert_local.
  - intros n En. destruct pos as [k|]; [|discriminate]. cbn [node_arg] in En. inversion En; subst n.
    apply node_at_in in Hpos. apply Rg in Hpos. unfold NULLP. lia.
  - rewrite E. unfold NULLP. lia.
  - rewrite E. intro Eq. apply Fr. right. now rewrite Eq.
  - rewrite E. intro Eq. apply Fr. rewrite Eq. destruct Hp as [<- | Hp]; [now left | right; apply in_or_app; now left].
  - destruct I as (I1 & _). rewrite Es, I1 in *. unfold zlen in *. lia.
Qed.

Theorem gen_ll_append_matches_model : forall hs s pos data ok f_pool, ll_inv s -> hl_R hs s ->
  match pos with None => True | Some k => pos_ok s k = true end -> lsize s < two64 - 1 ->
  ll_res_ok (gen_ll_append (hnext (hh hs)) (hprev (hh hs)) (hdata (hh hs)) f_pool (hsize hs) (alloc_res hs ok)
                           (optp (node_arg s pos)) data)
            (optp (snd (hl_append hs (node_arg s pos) data ok))) (hh (fst (hl_append hs (node_arg s pos) data ok)))
            (hsize (fst (hl_append hs (node_arg s pos) data ok))) [] [].
Proof.
  intros hs s pos data ok f_pool I R Hpos Hsz.
  destruct (ll_ids_facts hs s I R) as (E & Hpos0 & Fr & Rg & L & Es).
  assert (Hx : In (match node_arg s pos with Some n => n | None => hprev (hh hs) TAIL end) (HEAD :: ids s)).
  { destruct pos as [k|]; cbn [node_arg].
    - right. now apply node_at_in.
    - apply chain_prev_in; auto. apply in_or_app. right. now left. }
  pose proof (chain_next_in _ _ _ L Hx) as Hp.
  apply gen_ll_append_local.
  - intros n En. destruct pos as [k|]; [|discriminate]. cbn [node_arg] in En. inversion En; subst n.
    apply node_at_in in Hpos. apply Rg in Hpos. unfold NULLP. lia.
  - rewrite E. unfold NULLP. lia.
  - rewrite E. intro Eq. apply Fr. rewrite Eq. destruct Hx as [<- | Hx]; [now left | right; apply in_or_app; now left].
  - rewrite E. intro Eq. apply Fr. right. now rewrite Eq.
  - destruct I as (I1 & _). rewrite Es, I1 in *. unfold zlen in *. lia.
Qed.

Theorem gen_ll_remove_matches_model : forall hs s k cb f_pool newp p_pool, ll_inv s -> hl_R hs s ->
  pos_ok s k = true -> lsize s < two64 ->
  ll_res_ok (gen_ll_remove (hnext (hh hs)) (hprev (hh hs)) (hdata (hh hs)) f_pool (hsize hs) newp (node_at s k) (b2z cb) p_pool)
            (optp (snd (fst (hl_remove hs (node_at s k) cb)))) (hh (fst (fst (hl_remove hs (node_at s k) cb))))
            (hsize (fst (fst (hl_remove hs (node_at s k) cb)))) (snd (hl_remove hs (node_at s k) cb)) [node_at s k].
Proof.
  intros hs s k cb f_pool newp p_pool I R Hpos Hsz. apply gen_ll_remove_local.
  destruct R as (R1 & _). destruct I as (I1 & _). rewrite R1, I1 in *.
  unfold pos_ok in Hpos. lia.
Qed.

Theorem gen_qu_enqueue_matches_model : forall hs q data ok f_pool, qu_inv q -> hq_R hs q -> qsize q < two64 - 1 ->
  ll_res_ok (gen_qu_enqueue (hnext (hh hs)) (hprev (hh hs)) (hdata (hh hs)) f_pool (hsize hs) (alloc_res hs ok) data)
            (optp (snd (hq_enqueue hs data ok))) (hh (fst (hq_enqueue hs data ok)))
            (hsize (fst (hq_enqueue hs data ok))) [] [].
Proof.
  intros hs q data ok f_pool I R Hsz. pose proof (qu_inv_ll q I) as I'. unfold hq_R in R.
  destruct (ll_ids_facts hs _ I' R) as (E & Hpos0 & Fr & Rg & L & Es).
  assert (Hx : In (hprev (hh hs) TAIL) (HEAD :: ids (q_as_ll q))).
  { apply chain_prev_in; auto. apply in_or_app. right. now left. }
  pose proof (chain_next_in _ _ _ L Hx) as Hp.
  apply gen_qu_enqueue_local.
  - rewrite E. unfold NULLP. lia.
  - rewrite E. intro Eq. apply Fr. rewrite Eq. destruct Hx as [<- | Hx]; [now left | right; apply in_or_app; now left].
  - rewrite E. intro Eq. apply Fr. right. now rewrite Eq.
  - destruct I' as (I1 & _). rewrite Es, I1 in *. cbn [q_as_ll lsize] in *. unfold zlen in *. lia.
Qed.

Theorem gen_qu_dequeue_matches_model : forall hs q cb f_pool newp p_pool, qu_inv q -> hq_R hs q -> qsize q < two64 ->
  ll_res_ok (gen_qu_dequeue (hnext (hh hs)) (hprev (hh hs)) (hdata (hh hs)) f_pool (hsize hs) newp (b2z cb) p_pool)
            0 (hh (fst (hq_dequeue hs cb))) (hsize (fst (hq_dequeue hs cb))) (snd (hq_dequeue hs cb))
            (if hl_is_empty hs then [] else [hnext (hh hs) HEAD]).
Proof.
  intros hs q cb f_pool newp p_pool I R Hsz. pose proof (qu_inv_ll q I) as I'. unfold hq_R in R.
  destruct (ll_ids_facts hs _ I' R) as (E & Hpos0 & Fr & Rg & L & Es).
  apply gen_qu_dequeue_local.
  - intro He. unfold hl_is_empty in He. destruct I' as (I1 & _). rewrite Es, I1.
    destruct (ids (q_as_ll q)) as [|y r] eqn:Ei.
    + cbn [app links] in L. destruct L as (L1 & _). rewrite L1, Z.eqb_refl in He. discriminate.
    + unfold ids in Ei. destruct (litems (q_as_ll q)); [discriminate|]. unfold zlen. cbn [length]. lia.
  - rewrite Es. exact Hsz.
Qed.

(* ====================================================================== *)
(* pointer slot: the cursor / pp_slots / in_used part is Model.pslot, the list part ModelHeap *)

(* the in_used field of slot k as the C integer; slot_data (ProofsPS) is its data field *)
Definition iu_of (sl : list slot) : Z -> Z :=
  fun k => match zget sl k with Some x => if in_used x then 1 else 0 | None => 0 end.

Definition ps_res_ok (g : Z * (Z -> Z) * (Z -> Z) * (Z -> Z) * (Z -> Z) * list Z * Z * Z * Z)
                     (ret : Z) (s : hpslot) : Prop :=
  let '(r, nx, pv, dt, iu, ppl, ai, cap, fi) := g in
  r = ret /\ (forall x, nx x = hnext (hlinks s) x) /\ (forall x, pv x = hprev (hlinks s) x) /\
  (forall x, dt x = slot_data (slots (hcore s)) x) /\ (forall x, iu x = iu_of (slots (hcore s)) x) /\
  ppl = pp (hcore s) /\ ai = alloc_index (hcore s) /\ cap = pcap (hcore s) /\ fi = free_index (hcore s).

(* the error codes of this run (gen/Params_C11.v) *)
Definition pres_code (r : pres) : Z :=
  match r with
  | POk => 0
  | PFull => gen_MUGGLE_ERR_MEM_ALLOC
  | PRange => gen_MUGGLE_ERR_BEYOND_RANGE
  | PDup => gen_MUGGLE_ERR_MEM_DUPLICATE_FREE
  end.

Lemma land_mask_mod : forall a c, is_pow2_cap c -> 0 <= a -> Z.land a (wrapu 32 (c - 1)) = a mod c.
Proof. intros a c Hc Ha. rewrite <- (ring_idx_mod a c Hc Ha). reflexivity. Qed.

Lemma crem_mod : forall a c, 0 <= a -> 0 < c -> crem a c = a mod c.
Proof. intros. unfold crem. apply Z.rem_mod_nonneg; lia. Qed.

Lemma zget_lget : forall (l : list Z) i x, zget l i = Some x -> lget l i = x.
Proof.
  intros l i x H. pose proof (zget_range _ _ _ _ H) as R. apply zget_nth in H.
  rewrite zget_nth_default in H by lia. exact H.
Qed.

Lemma upd_nth_lset_nat_h : forall (l : list Z) i x, upd_nth i x l = lset_nat l i x.
Proof. induction l; destruct i; intros; cbn; auto. f_equal. apply IHl. Qed.

Lemma zset_lset_h : forall (l : list Z) i x, 0 <= i -> zset l i x = lset l i x.
Proof.
  intros. unfold zset, lset. destruct (i <? 0) eqn:E; [lia|]. apply upd_nth_lset_nat_h.
Qed.

Lemma iu_of_zset : forall sl sid v x, 0 <= sid < zlen sl ->
  iu_of (zset sl sid v) x = if x =? sid then (if in_used v then 1 else 0) else iu_of sl x.
Proof.
  intros sl sid v x H. unfold iu_of. destruct (Z.eqb_spec x sid).
  - subst. now rewrite zget_zset_eq.
  - now rewrite zget_zset_neq by auto.
Qed.

Lemma slot_data_zset : forall sl sid v x, 0 <= sid < zlen sl ->
  slot_data (zset sl sid v) x = if x =? sid then sdata v else slot_data sl x.
Proof.
  intros sl sid v x H. unfold slot_data. destruct (Z.eqb_spec x sid).
  - subst. now rewrite zget_zset_eq.
  - now rewrite zget_zset_neq by auto.
Qed.

(* ring positions, whatever way the C text reduces the cursor modulo the (power of two) capacity *)
Ltac ring_norm Hcap :=
  repeat match goal with
  | |- context [Z.land ?a (wrapu 32 (?c - 1))] => rewrite (land_mask_mod a c Hcap) by (timeout 20 lia)
  | |- context [Z.land ?a (?c - 1)] => rewrite <- (wrapu32_small (c - 1)) by (unfold two31, two32 in *; timeout 20 lia)
  | |- context [crem ?a ?c] => rewrite (crem_mod a c) by (timeout 20 lia)
  | |- context [wrapu 32 (?a mod ?c)] => rewrite (wrapu32_small (a mod c)) by (unfold two31, two32 in *; timeout 20 lia)
  end.

Ltac ps_component :=
  lazymatch goal with
  | |- forall x : Z, _ =>
    let x := fresh "x" in
    intro x; rewrite ?slot_data_zset, ?iu_of_zset by (timeout 20 lia); cbn [sdata in_used free_slot];
    unfold set_next, set_prev, set_data, upd; cbn [hnext hprev hdata];
    repeat first [split_eqb | split_cond]; leaf_goal
  | |- @eq (list Z) _ _ => first [reflexivity | rewrite ?zset_lset_h by (timeout 20 lia); reflexivity | leaf_goal]
  | |- _ => leaf_goal
  end.

Ltac ps_decide :=
  decide_ifs; cbv beta iota; cbn [fst snd hcore hlinks slots pp pcap alloc_index free_index live pres_code];
  repeat split; ps_component.

Theorem gen_ps_insert_matches_model : forall s data, ps_inv (hcore s) ->
  exists s' r sid, hps_insert s data = Some (s', (r, sid)) /\
    ps_res_ok (fst (gen_ps_insert (hnext (hlinks s)) (hprev (hlinks s)) (slot_data (slots (hcore s)))
                                  (iu_of (slots (hcore s))) (fun k => k) (pp (hcore s))
                                  (alloc_index (hcore s)) (pcap (hcore s)) (free_index (hcore s)) data))
              (pres_code r) s' /\
    snd (gen_ps_insert (hnext (hlinks s)) (hprev (hlinks s)) (slot_data (slots (hcore s)))
                       (iu_of (slots (hcore s))) (fun k => k) (pp (hcore s))
                       (alloc_index (hcore s)) (pcap (hcore s)) (free_index (hcore s)) data) = sid.
Proof.
  intros [c h] data I. cbn [hcore hlinks] in *. destruct I as [inv_cap0 inv_len_slots0 inv_len_pp0 inv_ai0 inv_fi0 inv_nlive0 inv_lnd0 inv_lu0 inv_snd0 inv_sf0 inv_pp_range0].
  pose proof (pow2_cap_pos _ inv_cap0) as Hc.
  unfold hps_insert, ps_insert. cbn [hcore hlinks]. rewrite ring_idx_mod by (auto; lia).
  set (ai := alloc_index c mod pcap c).
  assert (Hai : 0 <= ai < pcap c) by (apply Z.mod_pos_bound; lia).
  destruct (zget_in_range _ (pp c) ai) as [sid Hsid]; [lia|]. rewrite Hsid.
  assert (Rsid : 0 <= sid < pcap c) by (rewrite <- (zget_nth _ _ _ Hsid); now apply inv_pp_range0).
  destruct (zget_in_range _ (slots c) sid) as [sl Hsl]; [lia|]. rewrite Hsl.
  pose proof (zget_lget _ _ _ Hsid) as Hget.
  assert (Hiu : iu_of (slots c) sid = if in_used sl then 1 else 0) by (unfold iu_of; now rewrite Hsl).
  assert (Hfi : 0 <= free_index c < two32) by (rewrite inv_fi0; apply Z.mod_pos_bound; reflexivity).
  destruct (in_used sl) eqn:U.
  - exists {| hcore := c; hlinks := h |}, PFull, (-1).
    split; [reflexivity|]. unfold gen_ps_insert, ps_res_ok. cbv zeta. ring_norm inv_cap0. fold ai. rewrite ?Hget.
    split; [|ps_decide]. ps_decide.
  - eexists _, POk, sid. split; [reflexivity|].
    unfold gen_ps_insert, ps_res_ok. cbv zeta. ring_norm inv_cap0. fold ai. rewrite ?Hget.
    split; [|ps_decide]. ps_decide.
Qed.

Theorem gen_ps_remove_matches_model : forall s idx, ps_inv (hcore s) -> 0 <= idx < two32 ->
  exists s' r, hps_remove s idx = Some (s', r) /\
    ps_res_ok (gen_ps_remove (hnext (hlinks s)) (hprev (hlinks s)) (slot_data (slots (hcore s)))
                             (iu_of (slots (hcore s))) (fun k => k) (pp (hcore s))
                             (alloc_index (hcore s)) (pcap (hcore s)) (free_index (hcore s)) idx)
              (pres_code r) s'.
Proof.
  intros [c h] idx I Hidx. cbn [hcore hlinks] in *. destruct I as [inv_cap0 inv_len_slots0 inv_len_pp0 inv_ai0 inv_fi0 inv_nlive0 inv_lnd0 inv_lu0 inv_snd0 inv_sf0 inv_pp_range0].
  pose proof (pow2_cap_pos _ inv_cap0) as Hc.
  assert (Hfi : 0 <= free_index c < two32) by (rewrite inv_fi0; apply Z.mod_pos_bound; reflexivity).
  unfold hps_remove, ps_remove. cbn [hcore hlinks].
  destruct (idx >=? pcap c) eqn:Er.
  - exists {| hcore := c; hlinks := h |}, PRange. split; [reflexivity|].
    unfold gen_ps_remove, ps_res_ok. cbv zeta. ring_norm inv_cap0. ps_decide.
  - destruct (zget_in_range _ (slots c) idx) as [sl Hsl]; [lia|]. rewrite Hsl.
    assert (Hiu : iu_of (slots c) idx = if in_used sl then 1 else 0) by (unfold iu_of; now rewrite Hsl).
    rewrite ring_idx_mod by (auto; lia).
    set (fi := free_index c mod pcap c).
    assert (Hfr : 0 <= fi < pcap c) by (apply Z.mod_pos_bound; lia).
    destruct (zget_in_range _ (pp c) fi) as [old Hold]; [lia|]. rewrite Hold.
    destruct (in_used sl) eqn:U; cbn [negb].
    + eexists _, POk. split; [reflexivity|].
      unfold gen_ps_remove, ps_res_ok. cbv zeta. ring_norm inv_cap0. fold fi. ps_decide.
    + exists {| hcore := c; hlinks := h |}, PDup. split; [reflexivity|].
      unfold gen_ps_remove, ps_res_ok. cbv zeta. ring_norm inv_cap0. fold fi. ps_decide.
Qed.

(* ====================================================================== *)
(* non-vacuity: the hypotheses of the theorems above are met by non-trivial states *)

(* a list / queue holding one node (id 1, datum 7), as left by one insert on the fresh container *)
Definition ex_ll : llist := {| litems := [(1, 7)]; lnext := 2; lpool := None; lsize := 1 |}.
Definition ex_qu : queue := {| qitems := [(1, 7)]; qnext := 2; qpool := None; qsize := 1 |}.
Definition ex_hl : hlist :=
  fst (hl_insert {| hh := heap_init; hnextid := 1; hpool := None; hsize := 0 |} None 7 true).

Example gen_ll_hyps_sat : ll_inv ex_ll /\ hl_R ex_hl ex_ll /\ pos_ok ex_ll 0 = true /\ lsize ex_ll < two64 - 1.
Proof.
  split; [|split; [|split]].
  - unfold ll_inv, ex_ll. cbn [litems lnext lpool lsize map fst pool_ok].
    split; [reflexivity|]. split; [constructor; [intros []|constructor]|].
    split; [intros id [<- | []]; lia|]. split; [lia | exact I].
  - unfold hl_R. repeat split; try reflexivity.
    intros id d [E | []]. inversion E; subst. reflexivity.
  - reflexivity.
  - unfold two64. cbn. lia.
Qed.

Example gen_qu_hyps_sat : qu_inv ex_qu /\ hq_R ex_hl ex_qu /\ qsize ex_qu < two64 - 1.
Proof.
  split; [|split].
  - unfold qu_inv, ex_qu. cbn [qitems qnext qpool qsize map fst pool_ok].
    split; [reflexivity|]. split; [constructor; [intros []|constructor]|].
    split; [intros id [<- | []]; lia|]. split; [lia | exact I].
  - exact (proj1 (proj2 gen_ll_hyps_sat)).
  - unfold two64. cbn. lia.
Qed.
