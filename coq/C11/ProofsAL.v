(* C11 — array list: the array code refines the reference sequence *)
From MV Require Import C11.Model C11.ProofsLib.
From Coq Require Import ZifyBool.
Local Open Scope Z_scope.

(* ---------------------------------------------------------------------- *)
(* list facts                                                              *)

Lemma nth_firstn_lt : forall (l : list Z) n i d, (i < n)%nat -> nth i (firstn n l) d = nth i l d.
Proof.
  induction l; intros; destruct n, i; simpl; auto; try lia. apply IHl. lia.
Qed.

Lemma nth_skipn : forall (l : list Z) n i d, nth i (skipn n l) d = nth (n + i) l d.
Proof.
  induction l; intros; destruct n; simpl; auto. destruct i; auto.
Qed.

Lemma znth_nat : forall l i, 0 <= i -> znth l i = nth (Z.to_nat i) l 0.
Proof. exact zget_nth_default. Qed.

Lemma list_eq_znth : forall l1 l2 : list Z, zlen l1 = zlen l2 ->
  (forall i, 0 <= i < zlen l1 -> znth l1 i = znth l2 i) -> l1 = l2.
Proof.
  intros l1 l2 HL H. apply list_eq_nth. { unfold zlen in HL. lia. }
  intros i Hi. specialize (H (Z.of_nat i)). rewrite !znth_nat in H by lia.
  rewrite Nat2Z.id in H. apply H. unfold zlen. lia.
Qed.

Lemma zlen_firstn : forall (l : list Z) n, 0 <= n <= zlen l -> zlen (firstn (Z.to_nat n) l) = n.
Proof. unfold zlen; intros. rewrite firstn_length_le; lia. Qed.

Lemma znth_firstn : forall (l : list Z) n i, 0 <= i < n -> znth (firstn (Z.to_nat n) l) i = znth l i.
Proof. intros. rewrite !znth_nat by lia. apply nth_firstn_lt. lia. Qed.

Lemma zlen_ins_at : forall (l : list Z) p x, zlen (ins_at p x l) = zlen l + 1.
Proof.
  unfold zlen, ins_at; intros. rewrite app_length. simpl.
  assert (length l = length (firstn p l) + length (skipn p l))%nat by (rewrite <- app_length; now rewrite firstn_skipn).
  lia.
Qed.

Lemma zlen_del_at : forall (l : list Z) p, (p < length l)%nat -> zlen (del_at p l) = zlen l - 1.
Proof.
  unfold zlen, del_at; intros. rewrite app_length, firstn_length_le, skipn_length by lia. lia.
Qed.

Lemma znth_ins_at : forall (l : list Z) p x i, 0 <= p <= zlen l -> 0 <= i <= zlen l ->
  znth (ins_at (Z.to_nat p) x l) i = if i <? p then znth l i else if i =? p then x else znth l (i - 1).
Proof.
  intros l p x i Hp Hi. unfold zlen in *. rewrite znth_nat by lia. unfold ins_at.
  assert (HL : length (firstn (Z.to_nat p) l) = Z.to_nat p) by (apply firstn_length_le; lia).
  destruct (i <? p) eqn:E1.
  - rewrite app_nth1 by lia. rewrite nth_firstn_lt by lia. now rewrite znth_nat by lia.
  - rewrite app_nth2 by lia. rewrite HL. destruct (i =? p) eqn:E2.
    + replace (Z.to_nat i - Z.to_nat p)%nat with O by lia. reflexivity.
    + replace (Z.to_nat i - Z.to_nat p)%nat with (S (Z.to_nat i - Z.to_nat p - 1)) by lia.
      simpl. rewrite nth_skipn. rewrite znth_nat by lia. f_equal. lia.
Qed.

Lemma znth_del_at : forall (l : list Z) p i, 0 <= p < zlen l -> 0 <= i < zlen l - 1 ->
  znth (del_at (Z.to_nat p) l) i = if i <? p then znth l i else znth l (i + 1).
Proof.
  intros l p i Hp Hi. unfold zlen in *. rewrite znth_nat by lia. unfold del_at.
  assert (HL : length (firstn (Z.to_nat p) l) = Z.to_nat p) by (apply firstn_length_le; lia).
  destruct (i <? p) eqn:E1.
  - rewrite app_nth1 by lia. rewrite nth_firstn_lt by lia. now rewrite znth_nat by lia.
  - rewrite app_nth2 by lia. rewrite HL. rewrite nth_skipn. rewrite znth_nat by lia. f_equal. lia.
Qed.

(* ---------------------------------------------------------------------- *)
(* the two shifting loops                                                  *)

Lemma shift_up_zlen : forall n lo a, zlen (shift_up n lo a) = zlen a.
Proof. induction n; simpl; intros; auto. rewrite IHn. apply zset_zlen. Qed.

Lemma shift_up_znth : forall n lo a j, 0 <= lo -> lo + Z.of_nat n < zlen a ->
  znth (shift_up n lo a) j = if (lo <? j) && (j <=? lo + Z.of_nat n) then znth a (j - 1) else znth a j.
Proof.
  induction n; intros lo a j Hlo Hlen.
  - simpl. destruct ((lo <? j) && (j <=? lo + 0)) eqn:E; auto. lia.
  - cbn [shift_up]. rewrite IHn by (rewrite ?zset_zlen; lia).
    destruct ((lo <? j) && (j <=? lo + Z.of_nat n)) eqn:E.
    + rewrite znth_zset_neq by lia. destruct ((lo <? j) && (j <=? lo + Z.of_nat (S n))) eqn:E'; auto. lia.
    + destruct (Z.eq_dec j (lo + Z.of_nat n + 1)).
      * subst j. rewrite znth_zset_eq by lia.
        destruct ((lo <? lo + Z.of_nat n + 1) && (lo + Z.of_nat n + 1 <=? lo + Z.of_nat (S n))) eqn:E'; [|lia].
        f_equal. lia.
      * rewrite znth_zset_neq by lia.
        destruct ((lo <? j) && (j <=? lo + Z.of_nat (S n))) eqn:E'; auto. lia.
Qed.

Lemma shift_down_zlen : forall n lo a, zlen (shift_down n lo a) = zlen a.
Proof. induction n; simpl; intros; auto. rewrite IHn. apply zset_zlen. Qed.

Lemma shift_down_znth : forall n lo a j, 0 <= lo -> lo + Z.of_nat n <= zlen a ->
  znth (shift_down n lo a) j = if (lo <=? j) && (j <? lo + Z.of_nat n) then znth a (j + 1) else znth a j.
Proof.
  induction n; intros lo a j Hlo Hlen.
  - simpl. destruct ((lo <=? j) && (j <? lo + 0)) eqn:E; auto. lia.
  - cbn [shift_down]. rewrite IHn by (rewrite ?zset_zlen; lia).
    destruct ((lo + 1 <=? j) && (j <? lo + 1 + Z.of_nat n)) eqn:E.
    + rewrite znth_zset_neq by lia. destruct ((lo <=? j) && (j <? lo + Z.of_nat (S n))) eqn:E'; auto. lia.
    + destruct (Z.eq_dec j lo).
      * subst j. rewrite znth_zset_eq by lia.
        destruct ((lo <=? lo) && (lo <? lo + Z.of_nat (S n))) eqn:E'; [reflexivity | lia].
      * rewrite znth_zset_neq by lia.
        destruct ((lo <=? j) && (j <? lo + Z.of_nat (S n))) eqn:E'; auto. lia.
Qed.

(* insertion of [data] at position q of the first [size] cells *)
Lemma contents_insert_at : forall nodes size q data,
  0 <= q <= size -> size + 1 <= zlen nodes ->
  firstn (Z.to_nat (size + 1)) (zset (shift_up (Z.to_nat (size - q)) q nodes) q data)
  = ins_at (Z.to_nat q) data (firstn (Z.to_nat size) nodes).
Proof.
  intros nodes size q data Hq Hlen.
  assert (L1 : zlen (firstn (Z.to_nat size) nodes) = size) by (apply zlen_firstn; lia).
  apply list_eq_znth.
  - rewrite zlen_firstn by (rewrite zset_zlen, shift_up_zlen; lia). rewrite zlen_ins_at. lia.
  - intros i Hi. rewrite zlen_firstn in Hi by (rewrite zset_zlen, shift_up_zlen; lia).
    rewrite znth_firstn by lia. rewrite znth_ins_at by lia.
    destruct (Z.eq_dec i q).
    + subst i. rewrite znth_zset_eq by (rewrite shift_up_zlen; lia).
      destruct (q <? q) eqn:E; [lia|]. now rewrite Z.eqb_refl.
    + rewrite znth_zset_neq by lia. rewrite shift_up_znth by lia. rewrite Z2Nat.id by lia.
      destruct (i <? q) eqn:E1.
      * destruct ((q <? i) && (i <=? q + (size - q))) eqn:E2; [lia|]. now rewrite znth_firstn by lia.
      * destruct (i =? q) eqn:E3; [lia|].
        destruct ((q <? i) && (i <=? q + (size - q))) eqn:E2; [|lia]. now rewrite znth_firstn by lia.
Qed.

Lemma contents_remove_at : forall nodes size p,
  0 <= p < size -> size <= zlen nodes ->
  firstn (Z.to_nat (size - 1)) (shift_down (Z.to_nat (size - 1 - p)) p nodes)
  = del_at (Z.to_nat p) (firstn (Z.to_nat size) nodes).
Proof.
  intros nodes size p Hp Hlen.
  assert (L1 : zlen (firstn (Z.to_nat size) nodes) = size) by (apply zlen_firstn; lia).
  apply list_eq_znth.
  - rewrite zlen_firstn by (rewrite shift_down_zlen; lia).
    rewrite zlen_del_at by (unfold zlen in L1; lia). lia.
  - intros i Hi. rewrite zlen_firstn in Hi by (rewrite shift_down_zlen; lia).
    rewrite znth_firstn by lia. rewrite znth_del_at by lia.
    rewrite shift_down_znth by lia. rewrite Z2Nat.id by lia.
    destruct (i <? p) eqn:E1.
    + destruct ((p <=? i) && (i <? p + (size - 1 - p))) eqn:E2; [lia|]. now rewrite znth_firstn by lia.
    + destruct ((p <=? i) && (i <? p + (size - 1 - p))) eqn:E2; [|lia]. now rewrite znth_firstn by lia.
Qed.

(* ---------------------------------------------------------------------- *)
(* reference sequence semantics                                            *)

(* position denoted by an index into a sequence of length n: 0..n-1 from the
   front, -1..-n from the back *)
Definition norm_index (n index : Z) : option Z :=
  if (0 <=? index) && (index <? n) then Some index
  else if (- n <=? index) && (index <? 0) then Some (n + index)
  else None.

(* insert/append additionally accept 0 and -1 on the empty sequence *)
Definition ref_place (n index : Z) : option Z :=
  match norm_index n index with
  | Some p => Some p
  | None => if (n =? 0) && ((index =? 0) || (index =? -1)) then Some 0 else None
  end.

Definition nonnull (d : Z) : bool := negb (d =? 0).

(* one reference operation: new sequence and (accepted, returned position, data released) *)
Definition ref_step (l : list Z) (o : al_op) : list Z * (bool * Z * list Z) :=
  match o with
  | AIns i d _ =>
    match ref_place (zlen l) i with
    | Some p => (ins_at (Z.to_nat p) d l, (true, p, []))
    | None => (l, (false, -1, []))
    end
  | AApp i d _ =>
    match ref_place (zlen l) i with
    | Some p => let q := if zlen l =? 0 then 0 else p + 1 in (ins_at (Z.to_nat q) d l, (true, q, []))
    | None => (l, (false, -1, []))
    end
  | ARem i cb =>
    match norm_index (zlen l) i with
    | Some p => (del_at (Z.to_nat p) l, (true, -1, if cb then [znth l p] else []))
    | None => (l, (false, -1, []))
    end
  | AClear cb => ([], (true, -1, if cb then filter nonnull l else []))
  | AEns _ _ => (l, (true, -1, []))
  end.

Definition al_inv (s : alist) : Prop :=
  1 <= acap s < two31 /\ 0 <= asize s <= acap s /\ zlen (nodes s) = acap s.

(* every value of type int, INT_MIN included (the index normalisation negates in 64 bits since
   fixes/C11-array-list-int-min-index.patch) *)
Definition int_ok (i : Z) : Prop := - two31 <= i < two31.

Definition al_op_ok (o : al_op) : Prop :=
  match o with
  | AIns i _ _ | AApp i _ _ | ARem i _ => int_ok i
  | AEns c _ => 0 <= c < two64
  | AClear _ => True
  end.

(* the operation needs new storage and cannot get it (malloc fails, or the
   doubled capacity is refused by MUGGLE_DS_CAP_IS_VALID) *)
Definition alloc_fails (s : alist) (o : al_op) : bool :=
  match o with
  | AIns _ _ ok | AApp _ _ ok => (asize s =? acap s) && (negb ok || (acap s * 2 >=? two31))
  | AEns c ok => (acap s <? c) && (negb ok || (c >=? two31))
  | _ => false
  end.

Lemma to_int_small : forall z, 0 <= z < two31 -> to_int z = z.
Proof.
  intros. unfold to_int. rewrite Z.mod_small by (unfold two31, two32 in *; lia).
  destruct (z <? two31) eqn:E; lia.
Qed.

Lemma u64_small : forall z, 0 <= z < two64 -> u64 z = z.
Proof. intros. unfold u64. now apply Z.mod_small. Qed.

Lemma al_contents_zlen : forall s, al_inv s -> zlen (al_contents s) = asize s.
Proof. intros s (H1 & H2 & H3). unfold al_contents. apply zlen_firstn. lia. Qed.

Lemma al_get_index_spec : forall s index, al_inv s -> int_ok index ->
  al_get_index s index = match norm_index (asize s) index with Some p => p | None => -1 end.
Proof.
  intros s index (H1 & H2 & H3) Hi. unfold int_ok in Hi. unfold al_get_index, norm_index.
  destruct (index >=? 0) eqn:E.
  - rewrite u64_small by (unfold two31, two64 in *; lia).
    destruct (index >=? asize s) eqn:E2.
    + destruct ((0 <=? index) && (index <? asize s)) eqn:E3; [lia|].
      destruct ((- asize s <=? index) && (index <? 0)) eqn:E4; [lia | reflexivity].
    + destruct ((0 <=? index) && (index <? asize s)) eqn:E3; [reflexivity | lia].
  - rewrite u64_small by (unfold two31, two64 in *; lia).
    destruct ((0 <=? index) && (index <? asize s)) eqn:E3; [lia|].
    destruct (- index >? asize s) eqn:E2.
    + destruct ((- asize s <=? index) && (index <? 0)) eqn:E4; [lia | reflexivity].
    + destruct ((- asize s <=? index) && (index <? 0)) eqn:E4; [|lia].
      rewrite to_int_small by lia. lia.
Qed.

Lemma norm_index_range : forall n i p, norm_index n i = Some p -> 0 <= p < n.
Proof.
  unfold norm_index; intros n i p H.
  destruct ((0 <=? i) && (i <? n)) eqn:E1; [inversion H; lia|].
  destruct ((- n <=? i) && (i <? 0)) eqn:E2; [inversion H; lia | discriminate].
Qed.

Lemma ref_place_range : forall n i p, 0 <= n -> ref_place n i = Some p -> 0 <= p <= n /\ (n = 0 \/ p < n).
Proof.
  unfold ref_place; intros n i p Hn H. destruct (norm_index n i) eqn:E.
  - inversion H; subst. apply norm_index_range in E. lia.
  - destruct ((n =? 0) && ((i =? 0) || (i =? -1))) eqn:E2; [|discriminate]. inversion H. lia.
Qed.

Lemma al_place_spec : forall s index, al_inv s -> int_ok index ->
  al_place s index = ref_place (asize s) index.
Proof.
  intros s index I Hi. unfold al_place, ref_place. rewrite al_get_index_spec by auto.
  destruct (norm_index (asize s) index) eqn:E.
  - apply norm_index_range in E. destruct (z <? 0) eqn:E2; [lia | reflexivity].
  - cbn. destruct ((index =? 0) || (index =? -1)), (asize s =? 0); reflexivity.
Qed.

(* growth keeps the contents *)
Lemma al_ensure_spec : forall s c ok, al_inv s -> 0 <= c < two64 ->
  let (s', b) := al_ensure s c ok in
  al_inv s' /\ al_contents s' = al_contents s /\ asize s' = asize s /\
  (if (acap s <? c) && (negb ok || (c >=? two31))
   then b = false /\ s' = s
   else b = true /\ c <= acap s' /\ (acap s' = acap s \/ acap s' = c)).
Proof.
  intros s c ok I Hc. assert (I2 := I); destruct I2 as (H1 & H2 & H3). unfold al_ensure.
  destruct (acap s >=? c) eqn:E1.
  { repeat split; auto; try lia. destruct ((acap s <? c) && (negb ok || (c >=? two31))) eqn:E; [lia|].
    repeat split; auto; lia. }
  unfold cap_is_valid. rewrite u64_small by auto.
  destruct (c >=? two31) eqn:E2; cbn [negb].
  { repeat split; auto; try lia. destruct ((acap s <? c) && (negb ok || true)) eqn:E; [auto|].
    rewrite orb_true_r in E. lia. }
  destruct ok; cbn [negb].
  2:{ repeat split; auto; try lia. destruct ((acap s <? c) && (true || false)) eqn:E; [auto | cbn in E; lia]. }
  cbn [asize acap nodes].
  assert (L : zlen (firstn (Z.to_nat (asize s)) (nodes s)) = asize s) by (apply zlen_firstn; lia).
  split; [|split; [|split]].
  - unfold al_inv. cbn [asize acap nodes]. repeat split; try lia.
    unfold zlen in *. rewrite app_length, repeat_length. lia.
  - unfold al_contents. cbn [asize nodes]. rewrite firstn_app.
    unfold zlen in L. replace (Z.to_nat (asize s) - length (firstn (Z.to_nat (asize s)) (nodes s)))%nat with O by lia.
    rewrite firstn_O, app_nil_r. rewrite firstn_firstn. now rewrite Nat.min_id.
  - reflexivity.
  - destruct ((acap s <? c) && (false || false)) eqn:E; [cbn in E; lia|]. repeat split; auto; lia.
Qed.

Lemma al_grow_spec : forall s ok, al_inv s ->
  let (s', b) := al_grow_if_full s ok in
  al_inv s' /\ al_contents s' = al_contents s /\ asize s' = asize s /\
  (if (asize s =? acap s) && (negb ok || (acap s * 2 >=? two31))
   then b = false /\ s' = s
   else b = true /\ asize s' < acap s').
Proof.
  intros s ok I. assert (I2 := I); destruct I2 as (H1 & H2 & H3). unfold al_grow_if_full.
  destruct (asize s =? acap s) eqn:E.
  - pose proof (al_ensure_spec s (acap s * 2) ok I) as P.
    destruct (al_ensure s (acap s * 2) ok) as [s' b].
    destruct P as (I' & C' & S' & R); [unfold two31, two64 in *; lia|].
    replace (acap s <? acap s * 2) with true in R by lia. cbn [andb] in *.
    split; [exact I'|]. split; [exact C'|]. split; [exact S'|].
    destruct (negb ok || (acap s * 2 >=? two31)); [exact R|].
    destruct R as (Rb & R1 & R2). split; [exact Rb | lia].
  - cbn [andb]. repeat split; auto; lia.
Qed.

(* ---------------------------------------------------------------------- *)
(* every operation, on every int index                                     *)

Definition al_rejected : bool * Z * list Z := (false, -1, []).

Definition al_step_ok (s : alist) (o : al_op) (s' : alist) (r : bool * Z * list Z) : Prop :=
  al_inv s' /\
  if alloc_fails s o
  then al_contents s' = al_contents s /\ asize s' = asize s /\ acap s' = acap s /\ r = al_rejected
  else (al_contents s', r) = ref_step (al_contents s) o.

Lemma al_insert_refines : forall s i d ok, al_inv s -> int_ok i ->
  al_step_ok s (AIns i d ok) (fst (al_step s (AIns i d ok))) (snd (al_step s (AIns i d ok))).
Proof.
  intros s i d ok I Hi. unfold al_step_ok, al_step, al_insert. cbn [alloc_fails ref_step].
  pose proof (al_grow_spec s ok I) as G. destruct (al_grow_if_full s ok) as [s1 b].
  destruct G as (I1 & C1 & S1 & R).
  destruct ((asize s =? acap s) && (negb ok || (acap s * 2 >=? two31))).
  { destruct R as (-> & ->). cbn. auto. }
  destruct R as (-> & Hlt). cbn [negb].
  rewrite al_place_spec by auto. rewrite <- C1. rewrite (al_contents_zlen s1 I1).
  destruct (ref_place (asize s1) i) as [p|] eqn:P; cbn [fst snd].
  2:{ split; auto. }
  assert (I2 := I1). destruct I2 as (H1 & H2 & H3).
  apply ref_place_range in P; [|lia].
  rewrite to_int_small by lia.
  replace (asize s1 - 1 - p + 1) with (asize s1 - p) by lia.
  split.
  - unfold al_inv. cbn [asize acap nodes]. rewrite zset_zlen, shift_up_zlen. lia.
  - unfold al_contents. cbn [asize nodes]. rewrite contents_insert_at by lia. reflexivity.
Qed.

Lemma al_append_refines : forall s i d ok, al_inv s -> int_ok i ->
  al_step_ok s (AApp i d ok) (fst (al_step s (AApp i d ok))) (snd (al_step s (AApp i d ok))).
Proof.
  intros s i d ok I Hi. unfold al_step_ok, al_step, al_append. cbn [alloc_fails ref_step].
  pose proof (al_grow_spec s ok I) as G. destruct (al_grow_if_full s ok) as [s1 b].
  destruct G as (I1 & C1 & S1 & R).
  destruct ((asize s =? acap s) && (negb ok || (acap s * 2 >=? two31))).
  { destruct R as (-> & ->). cbn. auto. }
  destruct R as (-> & Hlt). cbn [negb].
  rewrite al_place_spec by auto. rewrite <- C1. rewrite (al_contents_zlen s1 I1).
  destruct (ref_place (asize s1) i) as [p|] eqn:P; cbn [fst snd].
  2:{ split; auto. }
  assert (I2 := I1). destruct I2 as (H1 & H2 & H3).
  apply ref_place_range in P; [|lia].
  rewrite to_int_small by lia.
  set (q := if asize s1 =? 0 then 0 else p + 1).
  assert (Hq : 0 <= q <= asize s1) by (unfold q; destruct (asize s1 =? 0) eqn:E; lia).
  assert (Ek : Z.to_nat (asize s1 - 1 - p) = Z.to_nat (asize s1 - q)) by (unfold q; destruct (asize s1 =? 0) eqn:E; lia).
  rewrite Ek.
  assert (Eq1 : shift_up (Z.to_nat (asize s1 - q)) (p + 1) (nodes s1) = shift_up (Z.to_nat (asize s1 - q)) q (nodes s1)).
  { unfold q. destruct (asize s1 =? 0) eqn:E; [|reflexivity].
    replace (Z.to_nat (asize s1 - 0)) with O by lia. reflexivity. }
  rewrite Eq1.
  split.
  - unfold al_inv. cbn [asize acap nodes]. rewrite zset_zlen, shift_up_zlen. lia.
  - unfold al_contents. cbn [asize nodes]. rewrite contents_insert_at by lia. reflexivity.
Qed.

Lemma al_remove_refines : forall s i cb, al_inv s -> int_ok i ->
  al_step_ok s (ARem i cb) (fst (al_step s (ARem i cb))) (snd (al_step s (ARem i cb))).
Proof.
  intros s i cb I Hi. unfold al_step_ok, al_step, al_remove. cbn [alloc_fails ref_step].
  rewrite al_get_index_spec by auto. rewrite (al_contents_zlen s I).
  assert (I2 := I). destruct I2 as (H1 & H2 & H3).
  destruct (norm_index (asize s) i) as [p|] eqn:P.
  2:{ cbn. auto. }
  apply norm_index_range in P. destruct (p <? 0) eqn:E; [lia|]. cbn [fst snd].
  rewrite to_int_small by lia. split.
  - unfold al_inv. cbn [asize acap nodes]. rewrite shift_down_zlen. lia.
  - unfold al_contents. cbn [asize nodes]. rewrite contents_remove_at by lia.
    rewrite znth_firstn by lia. destruct cb; reflexivity.
Qed.

Theorem al_step_refines : forall s o, al_inv s -> al_op_ok o ->
  al_step_ok s o (fst (al_step s o)) (snd (al_step s o)).
Proof.
  intros s o I Hok. destruct o as [i d ok | i d ok | i cb | cb | c ok]; cbn [al_op_ok] in Hok.
  - now apply al_insert_refines.
  - now apply al_append_refines.
  - now apply al_remove_refines.
  - unfold al_step_ok, al_step, al_clear. cbn [alloc_fails ref_step fst snd].
    assert (I2 := I). destruct I2 as (H1 & H2 & H3). split.
    + unfold al_inv. cbn [asize acap nodes]. lia.
    + unfold al_contents. cbn [asize nodes]. reflexivity.
  - unfold al_step_ok, al_step. cbn [alloc_fails ref_step].
    pose proof (al_ensure_spec s c ok I Hok) as P. destruct (al_ensure s c ok) as [s' b]. cbn [fst snd].
    destruct P as (I' & C' & S' & R). split; auto.
    destruct ((acap s <? c) && (negb ok || (c >=? two31))).
    + destruct R as (-> & ->). auto.
    + destruct R as (-> & _). now rewrite C'.
Qed.

(* read-only operations *)
Lemma al_index_refines : forall s i, al_inv s -> int_ok i ->
  al_index s i = match norm_index (asize s) i with Some p => Some (znth (al_contents s) p) | None => None end.
Proof.
  intros s i I Hi. unfold al_index. rewrite al_get_index_spec by auto.
  destruct (norm_index (asize s) i) as [p|] eqn:P; [|reflexivity].
  apply norm_index_range in P. destruct (p <? 0) eqn:E; [lia|].
  unfold al_contents. now rewrite znth_firstn by lia.
Qed.

Lemma al_find_refines : forall cmp s i d, al_inv s -> int_ok i ->
  al_find cmp s i d = match norm_index (asize s) i with
                      | Some p => to_int (find_from cmp (skipn (Z.to_nat p) (al_contents s)) p d)
                      | None => -1 end.
Proof.
  intros cmp s i d I Hi. unfold al_find. rewrite al_get_index_spec by auto.
  destruct (norm_index (asize s) i) as [p|] eqn:P; [|reflexivity].
  apply norm_index_range in P. destruct (p <? 0) eqn:E; [lia|]. reflexivity.
Qed.

(* find_from returns the first matching position at or after the start, or -1 *)
Lemma find_from_spec : forall cmp l i d, 0 <= i ->
  let r := find_from cmp l i d in
  (r = -1 /\ forall x, In x l -> cmp x d = false) \/
  (i <= r < i + zlen l /\ cmp (znth l (r - i)) d = true /\
   forall j, 0 <= j < r - i -> cmp (znth l j) d = false).
Proof.
  induction l as [|x l IH]; intros i d Hi; cbn [find_from].
  - left. split; auto. intros x [].
  - destruct (cmp x d) eqn:C.
    + right. unfold zlen. simpl length. split; [lia|]. replace (i - i) with 0 by lia. split; auto. intros; lia.
    + destruct (IH (i + 1) d) as [[E H] | (R & Hc & Hn)]; [lia| |].
      * left. split; auto. intros y [->|Hy]; auto.
      * right. unfold zlen in *. simpl length. split; [lia|].
        assert (Ez : forall j, 1 <= j -> znth (x :: l) j = znth l (j - 1)).
        { intros j Hj. rewrite !znth_nat by lia. replace (Z.to_nat j) with (S (Z.to_nat (j - 1))) by lia. reflexivity. }
        split.
        -- rewrite Ez by lia. replace (find_from cmp l (i + 1) d - i - 1) with (find_from cmp l (i + 1) d - (i + 1)) by lia. exact Hc.
        -- intros j Hj. destruct (Z.eq_dec j 0); [subst; exact C|]. rewrite Ez by lia. apply Hn. lia.
Qed.

(* ---------------------------------------------------------------------- *)
(* histories                                                               *)

(* the reference run is told which operations could not get storage *)
Fixpoint ref_run (l : list Z) (ops : list al_op) (fails : list bool) : list Z * list (bool * Z * list Z) :=
  match ops, fails with
  | o :: ops', f :: fails' =>
    let (l1, r) := if f then (l, al_rejected) else ref_step l o in
    let (l2, rs) := ref_run l1 ops' fails' in (l2, r :: rs)
  | _, _ => (l, [])
  end.

Fixpoint fail_flags (s : alist) (ops : list al_op) : list bool :=
  match ops with
  | [] => []
  | o :: ops' => alloc_fails s o :: fail_flags (fst (al_step s o)) ops'
  end.

Theorem al_run_refines : forall ops s, al_inv s -> Forall al_op_ok ops ->
  al_inv (fst (al_run s ops)) /\
  (al_contents (fst (al_run s ops)), snd (al_run s ops)) = ref_run (al_contents s) ops (fail_flags s ops).
Proof.
  induction ops as [|o ops IH]; intros s I F.
  - cbn. auto.
  - inversion F; subst. cbn [al_run fail_flags ref_run].
    pose proof (al_step_refines s o I H1) as [I1 R]. destruct (al_step s o) as [s1 r]. cbn [fst snd] in *.
    specialize (IH s1 I1 H2). destruct (al_run s1 ops) as [s2 rs]. cbn [fst snd] in *.
    destruct IH as [I2 E]. split; auto.
    destruct (alloc_fails s o).
    + destruct R as (C & _ & _ & ->). rewrite <- C. rewrite <- E. reflexivity.
    + rewrite <- R. rewrite <- E. reflexivity.
Qed.

Lemma al_init_inv : forall c ok s, 0 <= c < two64 -> al_init c ok = Some s -> al_inv s /\ al_contents s = [].
Proof.
  intros c ok s Hc H. unfold al_init in H. set (c' := if c =? 0 then 8 else c) in *.
  assert (0 < c' < two64) by (unfold c'; destruct (c =? 0) eqn:E; unfold two64 in *; lia).
  unfold cap_is_valid in H. rewrite u64_small in H by lia.
  destruct (c' >=? two31) eqn:E; cbn [negb] in H; [discriminate|].
  destruct ok; cbn [negb] in H; [|discriminate]. inversion H; subst.
  split; [|reflexivity]. unfold al_inv. cbn [asize acap nodes]. rewrite zlen_repeat. lia.
Qed.

(* non-vacuity: capacity 1, three growths, negative indices, a refused malloc, removals *)
Example al_example :
  exists s, al_init 1 true = Some s /\
    let ops := [AIns 0 11 true; AIns (-1) 12 true; AApp (-2) 13 true; AIns 3 14 true; AApp 0 15 false;
                ARem (-4) true; AApp (-1) 16 true; AIns 1 17 false; AIns 1 17 true; ARem 9 false; ARem 0 false] in
    al_contents (fst (al_run s ops)) = [17; 13; 11; 16] /\
    fail_flags s ops = [false; false; false; false; false; false; false; true; false; false; false] /\
    acap (fst (al_run s ops)) = 8.
Proof. eexists. split; [reflexivity|]. vm_compute. auto. Qed.
