(* C11 — list / array lemmas shared by the proofs *)
From MV Require Import C11.Model.
From Coq Require Import ZifyBool.
Local Open Scope Z_scope.

Lemma upd_nth_length : forall A (l : list A) i x, length (upd_nth i x l) = length l.
Proof. induction l; destruct i; simpl; intros; auto. Qed.

Lemma nth_error_upd_nth_eq : forall A (l : list A) i x, (i < length l)%nat -> nth_error (upd_nth i x l) i = Some x.
Proof. induction l; destruct i; simpl; intros; try lia; auto. apply IHl; lia. Qed.

Lemma nth_error_upd_nth_neq : forall A (l : list A) i j x, i <> j -> nth_error (upd_nth i x l) j = nth_error l j.
Proof. induction l; destruct i, j; simpl; intros; try congruence; auto. Qed.

Lemma zlen_nonneg : forall A (l : list A), 0 <= zlen l.
Proof. unfold zlen; intros; lia. Qed.

Lemma zset_zlen : forall A (l : list A) i x, zlen (zset l i x) = zlen l.
Proof. unfold zlen, zset; intros. destruct (i <? 0); auto. now rewrite upd_nth_length. Qed.

Lemma zset_length : forall A (l : list A) i x, length (zset l i x) = length l.
Proof. unfold zset; intros. destruct (i <? 0); auto. now rewrite upd_nth_length. Qed.

Lemma zget_zset_eq : forall A (l : list A) i x, 0 <= i < zlen l -> zget (zset l i x) i = Some x.
Proof.
  unfold zget, zset, zlen; intros. destruct (i <? 0) eqn:E; [lia|].
  apply nth_error_upd_nth_eq. lia.
Qed.

Lemma zget_zset_neq : forall A (l : list A) i j x, i <> j -> zget (zset l i x) j = zget l j.
Proof.
  unfold zget, zset; intros. destruct (j <? 0) eqn:Ej; auto. destruct (i <? 0) eqn:Ei; auto.
  apply nth_error_upd_nth_neq. lia.
Qed.

Lemma zget_some_iff : forall A (l : list A) i, (exists x, zget l i = Some x) <-> 0 <= i < zlen l.
Proof.
  unfold zget, zlen; intros. destruct (i <? 0) eqn:E.
  - split; [intros [x H]; discriminate | lia].
  - split.
    + intros [x H]. assert (nth_error l (Z.to_nat i) <> None) by congruence.
      apply nth_error_Some in H0. lia.
    + intros. destruct (nth_error l (Z.to_nat i)) eqn:N; eauto.
      apply nth_error_None in N. lia.
Qed.

Lemma zget_range : forall A (l : list A) i x, zget l i = Some x -> 0 <= i < zlen l.
Proof. intros. apply zget_some_iff; eauto. Qed.

Lemma zget_in_range : forall A (l : list A) i, 0 <= i < zlen l -> exists x, zget l i = Some x.
Proof. intros. apply zget_some_iff; auto. Qed.

Lemma zget_none : forall A (l : list A) i, ~ (0 <= i < zlen l) -> zget l i = None.
Proof.
  intros. destruct (zget l i) eqn:E; auto. apply zget_range in E. contradiction.
Qed.

Lemma zget_nth : forall (l : list Z) i x, zget l i = Some x -> znth l i = x.
Proof. unfold znth; intros. now rewrite H. Qed.

Lemma znth_zset_eq : forall (l : list Z) i x, 0 <= i < zlen l -> znth (zset l i x) i = x.
Proof. intros. unfold znth. now rewrite zget_zset_eq. Qed.

Lemma znth_zset_neq : forall (l : list Z) i j x, i <> j -> znth (zset l i x) j = znth l j.
Proof. intros. unfold znth. now rewrite zget_zset_neq. Qed.

Lemma zget_nth_default : forall (l : list Z) i, 0 <= i -> znth l i = nth (Z.to_nat i) l 0.
Proof.
  unfold znth, zget; intros. destruct (i <? 0) eqn:E; [lia|].
  destruct (nth_error l (Z.to_nat i)) eqn:N.
  - symmetry. now apply nth_error_nth.
  - apply nth_error_None in N. now rewrite nth_overflow.
Qed.

Lemma zget_repeat : forall A (x : A) n i, 0 <= i < Z.of_nat n -> zget (repeat x n) i = Some x.
Proof.
  unfold zget; intros. destruct (i <? 0) eqn:E; [lia|].
  rewrite nth_error_repeat; auto. lia.
Qed.

Lemma zlen_repeat : forall A (x : A) n, zlen (repeat x n) = Z.of_nat n.
Proof. unfold zlen; intros. now rewrite repeat_length. Qed.

Lemma zget_map_seq : forall n i, 0 <= i < Z.of_nat n -> zget (map Z.of_nat (seq 0 n)) i = Some i.
Proof.
  unfold zget; intros. destruct (i <? 0) eqn:E; [lia|].
  rewrite nth_error_map. rewrite nth_error_nth' with (d := O) by (rewrite seq_length; lia).
  rewrite seq_nth by lia. simpl. f_equal. lia.
Qed.

(* extensional equality of lists by nth *)
Lemma list_eq_nth : forall (l1 l2 : list Z), length l1 = length l2 ->
  (forall i, (i < length l1)%nat -> nth i l1 0 = nth i l2 0) -> l1 = l2.
Proof. intros. apply nth_ext with (d := 0) (d' := 0); auto. Qed.

Lemma remove_z_in : forall x y l, In y (remove_z x l) <-> In y l /\ y <> x.
Proof.
  unfold remove_z; intros. rewrite filter_In. split; intros [H1 H2]; split; auto; lia.
Qed.

Lemma remove_z_nodup : forall x l, NoDup l -> NoDup (remove_z x l).
Proof. intros. now apply NoDup_filter. Qed.

Lemma remove_z_notin : forall x l, ~ In x l -> remove_z x l = l.
Proof.
  induction l; simpl; intros; auto. destruct (a =? x) eqn:E; simpl.
  - exfalso. apply H. left. lia.
  - f_equal. apply IHl. tauto.
Qed.

Lemma remove_z_length : forall x l, NoDup l -> In x l -> (length (remove_z x l) + 1 = length l)%nat.
Proof.
  induction l; simpl; intros; [contradiction|]. inversion H; subst.
  destruct (a =? x) eqn:E; simpl.
  - assert (a = x) by lia. subst. rewrite remove_z_notin; auto. lia.
  - destruct H0; [lia|]. specialize (IHl H4 H0). lia.
Qed.

Lemma NoDup_snoc : forall A (l : list A) x, NoDup l -> ~ In x l -> NoDup (l ++ [x]).
Proof.
  induction l; simpl; intros.
  - constructor; [auto | constructor].
  - inversion H; subst. constructor.
    + rewrite in_app_iff. simpl. intros [H1 | [H1 | []]]; [contradiction | subst; tauto].
    + apply IHl; auto.
Qed.
