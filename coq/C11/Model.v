(* C11 — sequence containers and pointer slot: executable models transcribing
   muggle/c/dsaa/{array_list,stack,linked_list,queue}.c and
   muggle/c/memory/pointer_slot.c (definitions only, no proofs).

   Conventions (DESIGN.md 4.1): machine integers are Z with the casts written
   where the code has them; node/slot pointers are small integer ids; data
   pointers are integers (0 = NULL); [malloc] is an oracle argument
   [alloc_ok].  Every operation that takes a free-data callback has the flag
   [cb] (true = a callback is supplied, false = NULL: the documented way to hold
   borrowed data); it returns the list of data handed to the callback. *)
From Coq Require Export List ZArith Lia Bool.
Export ListNotations.
Local Open Scope Z_scope.

Definition two31 : Z := 2147483648.
Definition two32 : Z := 4294967296.
Definition two64 : Z := 18446744073709551616.

(* (uint64_t)x, (unsigned int)x and (int)x for an integer x *)
Definition u64 (z : Z) : Z := z mod two64.
Definition u32 (z : Z) : Z := z mod two32.
Definition to_int (z : Z) : Z := let m := z mod two32 in if m <? two31 then m else m - two32.

(* arrays: a[i] read (None = outside the object), a[i] = x *)
Definition zget {A} (l : list A) (i : Z) : option A :=
  if i <? 0 then None else nth_error l (Z.to_nat i).
Fixpoint upd_nth {A} (i : nat) (x : A) (l : list A) : list A :=
  match l, i with
  | [], _ => []
  | _ :: r, O => x :: r
  | a :: r, S j => a :: upd_nth j x r
  end.
Definition zset {A} (l : list A) (i : Z) (x : A) : list A :=
  if i <? 0 then l else upd_nth (Z.to_nat i) x l.
Definition zlen {A} (l : list A) : Z := Z.of_nat (length l).
Definition znth (l : list Z) (i : Z) : Z := match zget l i with Some x => x | None => 0 end.

(* MUGGLE_DS_CAP_IS_VALID *)
Definition cap_is_valid (capacity : Z) : bool := negb (u64 capacity >=? two31).

(* ====================================================================== *)
(* array list                                                              *)

Record alist := { nodes : list Z; asize : Z; acap : Z }.

(* muggle_array_list_get_index: [index] is an int, size a uint64_t *)
Definition al_get_index (s : alist) (index : Z) : Z :=
  if index >=? 0 then
    if u64 index >=? asize s then -1 else index
  else
    if u64 (- index) >? asize s then -1 else to_int (asize s - u64 (- index)).

Definition al_init (capacity : Z) (alloc_ok : bool) : option alist :=
  let capacity := if capacity =? 0 then 8 else capacity in
  if negb (cap_is_valid capacity) then None
  else if negb alloc_ok then None
  else Some {| nodes := repeat 0 (Z.to_nat capacity); asize := 0; acap := capacity |}.

(* muggle_array_list_ensure_capacity; fresh storage is modelled as zeros *)
Definition al_ensure (s : alist) (capacity : Z) (alloc_ok : bool) : alist * bool :=
  if acap s >=? capacity then (s, true)
  else if negb (cap_is_valid capacity) then (s, false)
  else if negb alloc_ok then (s, false)
  else ({| nodes := firstn (Z.to_nat (asize s)) (nodes s) ++ repeat 0 (Z.to_nat (capacity - asize s));
           asize := asize s; acap := capacity |}, true).

(* for (i = lo+n-1; i >= lo; i--) a[i+1] = a[i];   n iterations *)
Fixpoint shift_up (n : nat) (lo : Z) (a : list Z) : list Z :=
  match n with
  | O => a
  | S m => let i := lo + Z.of_nat m in shift_up m lo (zset a (i + 1) (znth a i))
  end.

(* for (i = lo; i < lo+n; i++) a[i] = a[i+1];   n iterations *)
Fixpoint shift_down (n : nat) (lo : Z) (a : list Z) : list Z :=
  match n with
  | O => a
  | S m => shift_down m (lo + 1) (zset a lo (znth a (lo + 1)))
  end.

Definition al_grow_if_full (s : alist) (alloc_ok : bool) : alist * bool :=
  if asize s =? acap s then al_ensure s (acap s * 2) alloc_ok else (s, true).

(* the index resolution shared by insert and append *)
Definition al_place (s : alist) (index : Z) : option Z :=
  let idx := al_get_index s index in
  if idx <? 0 then
    if ((index =? 0) || (index =? -1)) && (asize s =? 0) then Some 0 else None
  else Some idx.

(* muggle_array_list_insert: result = offset of the returned node, None = NULL *)
Definition al_insert (s0 : alist) (index data : Z) (alloc_ok : bool) : alist * option Z :=
  let (s, ok) := al_grow_if_full s0 alloc_ok in
  if negb ok then (s, None) else
  match al_place s index with
  | None => (s, None)
  | Some idx =>
    let hi := to_int (asize s) - 1 in
    let a := shift_up (Z.to_nat (hi - idx + 1)) idx (nodes s) in
    ({| nodes := zset a idx data; asize := asize s + 1; acap := acap s |}, Some idx)
  end.

(* muggle_array_list_append *)
Definition al_append (s0 : alist) (index data : Z) (alloc_ok : bool) : alist * option Z :=
  let (s, ok) := al_grow_if_full s0 alloc_ok in
  if negb ok then (s, None) else
  match al_place s index with
  | None => (s, None)
  | Some idx =>
    let hi := to_int (asize s) - 1 in
    let a := shift_up (Z.to_nat (hi - idx)) (idx + 1) (nodes s) in
    let idx' := if asize s =? 0 then 0 else idx + 1 in
    ({| nodes := zset a idx' data; asize := asize s + 1; acap := acap s |}, Some idx')
  end.

(* muggle_array_list_remove: result, data given to func_free (when supplied: the datum, NULL or not) *)
Definition al_remove (s : alist) (index : Z) (cb : bool) : alist * bool * list Z :=
  let idx := al_get_index s index in
  if idx <? 0 then (s, false, [])
  else
    let freed := if cb then [znth (nodes s) idx] else [] in
    let a := shift_down (Z.to_nat (to_int (asize s) - 1 - idx)) idx (nodes s) in
    ({| nodes := a; asize := asize s - 1; acap := acap s |}, true, freed).

(* muggle_array_list_clear (with func_free: every non-NULL datum; without: nothing is released) *)
Definition al_clear (s : alist) (cb : bool) : alist * list Z :=
  ({| nodes := nodes s; asize := 0; acap := acap s |},
   if cb then filter (fun d => negb (d =? 0)) (firstn (Z.to_nat (asize s)) (nodes s)) else []).

(* muggle_array_list_index: Some data of the node, None = NULL *)
Definition al_index (s : alist) (index : Z) : option Z :=
  let idx := al_get_index s index in
  if idx <? 0 then None else Some (znth (nodes s) idx).

Fixpoint find_from (cmp : Z -> Z -> bool) (l : list Z) (i : Z) (data : Z) : Z :=
  match l with
  | [] => -1
  | x :: r => if cmp x data then i else find_from cmp r (i + 1) data
  end.

(* muggle_array_list_find; cmp x y = true iff the C comparator returns 0 *)
Definition al_find (cmp : Z -> Z -> bool) (s : alist) (index data : Z) : Z :=
  let idx := al_get_index s index in
  if idx <? 0 then -1
  else to_int (find_from cmp (skipn (Z.to_nat idx) (firstn (Z.to_nat (asize s)) (nodes s))) idx data).

Definition al_contents (s : alist) : list Z := firstn (Z.to_nat (asize s)) (nodes s).

Inductive al_op :=
| AIns (index data : Z) (alloc_ok : bool)
| AApp (index data : Z) (alloc_ok : bool)
| ARem (index : Z) (cb : bool)
| AClear (cb : bool)
| AEns (capacity : Z) (alloc_ok : bool).

(* result: accepted?, returned offset (or -1), data freed *)
Definition al_step (s : alist) (o : al_op) : alist * (bool * Z * list Z) :=
  match o with
  | AIns i d ok => let (s', r) := al_insert s i d ok in
                   (s', match r with Some k => (true, k, []) | None => (false, -1, []) end)
  | AApp i d ok => let (s', r) := al_append s i d ok in
                   (s', match r with Some k => (true, k, []) | None => (false, -1, []) end)
  | ARem i cb => let '(s', b, f) := al_remove s i cb in (s', (b, -1, f))
  | AClear cb => let (s', f) := al_clear s cb in (s', (true, -1, f))
  | AEns c ok => let (s', b) := al_ensure s c ok in (s', (b, -1, []))
  end.

Fixpoint al_run (s : alist) (ops : list al_op) : alist * list (bool * Z * list Z) :=
  match ops with
  | [] => (s, [])
  | o :: r => let (s1, x) := al_step s o in let (s2, xs) := al_run s1 r in (s2, x :: xs)
  end.

(* ====================================================================== *)
(* stack                                                                   *)

Record stack := { snodes : list Z; stop : Z; scap : Z }.

Definition st_init (capacity : Z) (alloc_ok : bool) : option stack :=
  let capacity := if capacity =? 0 then 8 else capacity in
  if negb (cap_is_valid capacity) then None
  else if negb alloc_ok then None
  else Some {| snodes := repeat 0 (Z.to_nat capacity); stop := 0; scap := capacity |}.

Definition st_ensure (s : stack) (capacity : Z) (alloc_ok : bool) : stack * bool :=
  if scap s >=? capacity then (s, true)
  else if negb (cap_is_valid capacity) then (s, false)
  else if negb alloc_ok then (s, false)
  else ({| snodes := firstn (Z.to_nat (stop s)) (snodes s) ++ repeat 0 (Z.to_nat (capacity - stop s));
           stop := stop s; scap := capacity |}, true).

(* muggle_stack_push: Some offset of the node, None = NULL *)
Definition st_push (s0 : stack) (data : Z) (alloc_ok : bool) : stack * option Z :=
  let (s, ok) := if stop s0 =? scap s0 then st_ensure s0 (scap s0 * 2) alloc_ok else (s0, true) in
  if negb ok then (s, None)
  else ({| snodes := zset (snodes s) (stop s) data; stop := stop s + 1; scap := scap s |}, Some (stop s)).

(* muggle_stack_top: data of the top node *)
Definition st_top (s : stack) : option Z :=
  if stop s =? 0 then None else Some (znth (snodes s) (stop s - 1)).

(* muggle_stack_pop (with func_free: the datum when it is not NULL) *)
Definition st_pop (s : stack) (cb : bool) : stack * list Z :=
  if stop s =? 0 then (s, [])
  else
    let t := stop s - 1 in
    let d := znth (snodes s) t in
    ({| snodes := snodes s; stop := t; scap := scap s |}, if cb then (if d =? 0 then [] else [d]) else []).

Definition st_clear (s : stack) (cb : bool) : stack * list Z :=
  ({| snodes := snodes s; stop := 0; scap := scap s |},
   if cb then filter (fun d => negb (d =? 0)) (firstn (Z.to_nat (stop s)) (snodes s)) else []).

Definition st_contents (s : stack) : list Z := firstn (Z.to_nat (stop s)) (snodes s).

Inductive st_op := SPush (data : Z) (alloc_ok : bool) | SPop (cb : bool) | SClear (cb : bool) | SEns (capacity : Z) (alloc_ok : bool).

Definition st_step (s : stack) (o : st_op) : stack * (bool * list Z) :=
  match o with
  | SPush d ok => let (s', r) := st_push s d ok in (s', (match r with Some _ => true | None => false end, []))
  | SPop cb => let (s', f) := st_pop s cb in (s', (true, f))
  | SClear cb => let (s', f) := st_clear s cb in (s', (true, f))
  | SEns c ok => let (s', b) := st_ensure s c ok in (s', (b, []))
  end.

Fixpoint st_run (s : stack) (ops : list st_op) : stack * list (bool * list Z) :=
  match ops with
  | [] => (s, [])
  | o :: r => let (s1, x) := st_step s o in let (s2, xs) := st_run s1 r in (s2, x :: xs)
  end.

(* ====================================================================== *)
(* node pool of linked list / queue (memory_pool.c, as used for nodes):
   only its capacity matters here; block_size = 24 <= 8K so
   max_delta_cap = 512*1024 *)

Definition pool_max_delta : Z := 524288.

(* allocate one node when [used] nodes are out: None = NULL *)
Definition node_alloc (pool : option Z) (used : Z) (alloc_ok : bool) : option (option Z) :=
  match pool with
  | None => if alloc_ok then Some None else None
  | Some cap =>
    if used =? cap then
      (if alloc_ok then Some (Some (cap + Z.min cap pool_max_delta)) else None)
    else Some pool
  end.

Definition pool_init (capacity : Z) (alloc_ok : bool) : option (option Z) :=
  if capacity >? 0 then
    if negb (cap_is_valid capacity) then None
    else if negb alloc_ok then None
    else Some (Some capacity)
  else Some None.

(* ====================================================================== *)
(* linked list: functional sequence of (node id, data); node ids are handed
   out by a counter (the driver numbers node pointers the same way) *)

Record llist := { litems : list (Z * Z); lnext : Z; lpool : option Z; lsize : Z }.

Definition ll_init (capacity : Z) (alloc_ok : bool) : option llist :=
  match pool_init capacity alloc_ok with
  | None => None
  | Some p => Some {| litems := []; lnext := 1; lpool := p; lsize := 0 |}
  end.

Definition ins_at {A} (p : nat) (x : A) (l : list A) : list A := firstn p l ++ x :: skipn p l.
Definition del_at {A} (p : nat) (l : list A) : list A := firstn p l ++ skipn (S p) l.

Definition pos_ok (l : llist) (k : Z) : bool := (0 <=? k) && (k <? zlen (litems l)).

(* muggle_linked_list_insert(list, node, data): node = None is NULL (front),
   Some k = the k-th node *)
Definition ll_insert (s : llist) (pos : option Z) (data : Z) (alloc_ok : bool) : llist * option Z :=
  match node_alloc (lpool s) (lsize s) alloc_ok with
  | None => (s, None)
  | Some p' =>
    let p := match pos with None => 0 | Some k => k end in
    ({| litems := ins_at (Z.to_nat p) (lnext s, data) (litems s); lnext := lnext s + 1;
        lpool := p'; lsize := lsize s + 1 |}, Some (lnext s))
  end.

(* muggle_linked_list_append: NULL = after the last node *)
Definition ll_append (s : llist) (pos : option Z) (data : Z) (alloc_ok : bool) : llist * option Z :=
  match node_alloc (lpool s) (lsize s) alloc_ok with
  | None => (s, None)
  | Some p' =>
    let p := match pos with None => zlen (litems s) | Some k => k + 1 end in
    ({| litems := ins_at (Z.to_nat p) (lnext s, data) (litems s); lnext := lnext s + 1;
        lpool := p'; lsize := lsize s + 1 |}, Some (lnext s))
  end.

(* muggle_linked_list_remove: returns the id of the next node (None = NULL), freed data *)
Definition ll_remove (s : llist) (k : Z) (cb : bool) : llist * option Z * list Z :=
  match zget (litems s) k with
  | None => (s, None, [])
  | Some (_, d) =>
    ({| litems := del_at (Z.to_nat k) (litems s); lnext := lnext s; lpool := lpool s; lsize := lsize s - 1 |},
     match zget (litems s) (k + 1) with Some (id, _) => Some id | None => None end,
     if cb then (if d =? 0 then [] else [d]) else [])
  end.

Definition ll_clear (s : llist) (cb : bool) : llist * list Z :=
  ({| litems := []; lnext := lnext s; lpool := lpool s; lsize := 0 |},
   if cb then filter (fun d => negb (d =? 0)) (map snd (litems s)) else []).

Fixpoint find_node (cmp : Z -> Z -> bool) (l : list (Z * Z)) (data : Z) : option Z :=
  match l with
  | [] => None
  | (id, x) :: r => if cmp x data then Some id else find_node cmp r data
  end.

(* muggle_linked_list_find from node pos (NULL = first) *)
Definition ll_find (cmp : Z -> Z -> bool) (s : llist) (pos : option Z) (data : Z) : option Z :=
  let p := match pos with None => 0 | Some k => k end in
  find_node cmp (skipn (Z.to_nat p) (litems s)) data.

Inductive ll_op :=
| LIns (pos : option Z) (data : Z) (alloc_ok : bool)
| LApp (pos : option Z) (data : Z) (alloc_ok : bool)
| LRem (k : Z) (cb : bool)
| LClear (cb : bool).

Definition ll_op_ok (s : llist) (o : ll_op) : bool :=
  match o with
  | LIns (Some k) _ _ | LApp (Some k) _ _ | LRem k _ => pos_ok s k
  | _ => true
  end.

Definition ll_step (s : llist) (o : ll_op) : llist * (bool * list Z) :=
  match o with
  | LIns p d ok => let (s', r) := ll_insert s p d ok in (s', (match r with Some _ => true | None => false end, []))
  | LApp p d ok => let (s', r) := ll_append s p d ok in (s', (match r with Some _ => true | None => false end, []))
  | LRem k cb => let '(s', _, f) := ll_remove s k cb in (s', (true, f))
  | LClear cb => let (s', f) := ll_clear s cb in (s', (true, f))
  end.

(* ====================================================================== *)
(* queue                                                                   *)

Record queue := { qitems : list (Z * Z); qnext : Z; qpool : option Z; qsize : Z }.

Definition qu_init (capacity : Z) (alloc_ok : bool) : option queue :=
  match pool_init capacity alloc_ok with
  | None => None
  | Some p => Some {| qitems := []; qnext := 1; qpool := p; qsize := 0 |}
  end.

Definition qu_enqueue (s : queue) (data : Z) (alloc_ok : bool) : queue * option Z :=
  match node_alloc (qpool s) (qsize s) alloc_ok with
  | None => (s, None)
  | Some p' =>
    ({| qitems := qitems s ++ [(qnext s, data)]; qnext := qnext s + 1; qpool := p'; qsize := qsize s + 1 |},
     Some (qnext s))
  end.

Definition qu_dequeue (s : queue) (cb : bool) : queue * list Z :=
  match qitems s with
  | [] => (s, [])
  | (_, d) :: r =>
    ({| qitems := r; qnext := qnext s; qpool := qpool s; qsize := qsize s - 1 |},
     if cb then (if d =? 0 then [] else [d]) else [])
  end.

Definition qu_front (s : queue) : option (Z * Z) :=
  match qitems s with [] => None | x :: _ => Some x end.

Definition qu_clear (s : queue) (cb : bool) : queue * list Z :=
  ({| qitems := []; qnext := qnext s; qpool := qpool s; qsize := 0 |},
   if cb then filter (fun d => negb (d =? 0)) (map snd (qitems s)) else []).

Inductive qu_op := QEnq (data : Z) (alloc_ok : bool) | QDeq (cb : bool) | QClear (cb : bool).

Definition qu_step (s : queue) (o : qu_op) : queue * (bool * list Z) :=
  match o with
  | QEnq d ok => let (s', r) := qu_enqueue s d ok in (s', (match r with Some _ => true | None => false end, []))
  | QDeq cb => let (s', f) := qu_dequeue s cb in (s', (true, f))
  | QClear cb => let (s', f) := qu_clear s cb in (s', (true, f))
  end.

(* ====================================================================== *)
(* pointer slot                                                            *)

Record slot := { in_used : bool; sdata : Z }.

(* slots[], pp_slots[] (entries are slot indices: pp_slots[i] == &slots[k]),
   capacity / alloc_index / free_index (unsigned int), and the head..tail
   list as the sequence of slot indices in list order *)
Record pslot := { slots : list slot; pp : list Z; pcap : Z; alloc_index : Z; free_index : Z; live : list Z }.

(* muggle_next_pow_of_2 (base/utils.c) on uint64_t *)
Definition is_pow2 (x : Z) : bool := Z.land x (u64 (x - 1)) =? 0.
Definition next_pow_of_2 (x : Z) : Z :=
  if is_pow2 x then x else
  let x := Z.lor x (Z.shiftr x 1) in
  let x := Z.lor x (Z.shiftr x 2) in
  let x := Z.lor x (Z.shiftr x 4) in
  let x := Z.lor x (Z.shiftr x 8) in
  let x := Z.lor x (Z.shiftr x 16) in
  u64 (x + 1).

(* MUGGLE_IDX_IN_POW_OF_2_RING on unsigned int *)
Definition ring_idx (idx capacity : Z) : Z := Z.land idx (u32 (capacity - 1)).

Definition free_slot : slot := {| in_used := false; sdata := 0 |}.

(* start, start + 1, ..., k entries: pp_slots[i] = &slots[i] at init *)
Fixpoint zfrom (k : nat) (start : Z) : list Z :=
  match k with O => [] | S k' => start :: zfrom k' (start + 1) end.

(* muggle_pointer_slot_init.  [rounded = true]: the code with
   fixes/C11-pointer-slot-alloc-rounded.patch (arrays sized by the rounded
   capacity; before it they were sized by the requested one).  [checked = true]:
   the code with fixes/C11-pointer-slot-capacity-overflow.patch (a request above
   2^31, whose power of two does not fit an unsigned int, is refused with
   MUGGLE_ERR_INVALID_PARAM; before it the rounded capacity was truncated to 32
   bits, i.e. to 0).  The code of /repo is [ps_init] (both); the other two
   instances are kept for the refutation examples only.  None = init returned an
   error. *)
Definition ps_init_gen (rounded checked : bool) (requested : Z) (alloc_ok : bool) : option pslot :=
  let c := if requested >? 0 then requested else 1 in
  if checked && (c >? two31) then None else
  let cap := u32 (next_pow_of_2 (u64 c)) in
  let n := if rounded then cap else c in
  if negb alloc_ok then None
  else Some {| slots := repeat free_slot (Z.to_nat n);
               pp := zfrom (Z.to_nat n) 0;
               pcap := cap; alloc_index := 0; free_index := 0; live := [] |}.
Definition ps_init := ps_init_gen true true.
Definition ps_init_unrepaired := ps_init_gen false false.
Definition ps_init_unchecked := ps_init_gen true false.

(* the unit test's and the driver's way of starting the counters elsewhere:
   both cursor fields are overwritten on a fresh (empty) slot *)
Definition ps_preset (s : pslot) (a : Z) : pslot :=
  {| slots := slots s; pp := pp s; pcap := pcap s; alloc_index := u32 a; free_index := u32 a; live := live s |}.

Inductive pres := POk | PFull | PRange | PDup.

(* All three operations return None when the code would touch memory outside
   slots[] / pp_slots[]. *)

(* muggle_pointer_slot_insert: status and the slot index written to *slot_idx *)
Definition ps_insert (s : pslot) (data : Z) : option (pslot * (pres * Z)) :=
  let ai := ring_idx (alloc_index s) (pcap s) in
  match zget (pp s) ai with
  | None => None
  | Some sid =>
    match zget (slots s) sid with
    | None => None
    | Some sl =>
      if in_used sl then Some (s, (PFull, -1))
      else Some ({| slots := zset (slots s) sid {| in_used := true; sdata := data |};
                    pp := pp s; pcap := pcap s;
                    alloc_index := u32 (alloc_index s + 1); free_index := free_index s;
                    live := live s ++ [sid] |}, (POk, sid))
    end
  end.

Definition remove_z (x : Z) (l : list Z) : list Z := filter (fun y => negb (y =? x)) l.

(* muggle_pointer_slot_remove *)
Definition ps_remove (s : pslot) (idx : Z) : option (pslot * pres) :=
  if idx >=? pcap s then Some (s, PRange)
  else
    match zget (slots s) idx with
    | None => None
    | Some sl =>
      if negb (in_used sl) then Some (s, PDup)
      else
        let fi := ring_idx (free_index s) (pcap s) in
        match zget (pp s) fi with
        | None => None
        | Some _ =>
          Some ({| slots := zset (slots s) idx free_slot;
                   pp := zset (pp s) fi idx; pcap := pcap s;
                   alloc_index := alloc_index s; free_index := u32 (free_index s + 1);
                   live := remove_z idx (live s) |}, POk)
        end
    end.

(* muggle_pointer_slot_get: Some 0 = NULL *)
Definition ps_get (s : pslot) (idx : Z) : option Z :=
  if idx >=? pcap s then Some 0
  else
    match zget (slots s) idx with
    | None => None
    | Some sl => if negb (in_used sl) then Some 0 else Some (sdata sl)
    end.

(* iteration begin..end: (slot index, data) in list order *)
Definition ps_iter (s : pslot) : list (Z * Z) :=
  map (fun sid => (sid, match zget (slots s) sid with Some sl => sdata sl | None => 0 end)) (live s).

Inductive ps_op := PIns (data : Z) | PRem (idx : Z) | PGet (idx : Z).

Inductive ps_res := RIns (r : pres) (idx : Z) | RRem (r : pres) | RGet (data : Z).

Definition ps_step (s : pslot) (o : ps_op) : option (pslot * ps_res) :=
  match o with
  | PIns d => match ps_insert s d with Some (s', (r, i)) => Some (s', RIns r i) | None => None end
  | PRem i => match ps_remove s i with Some (s', r) => Some (s', RRem r) | None => None end
  | PGet i => match ps_get s i with Some d => Some (s, RGet d) | None => None end
  end.

Fixpoint ps_run (s : pslot) (ops : list ps_op) : option (pslot * list ps_res) :=
  match ops with
  | [] => Some (s, [])
  | o :: r =>
    match ps_step s o with
    | None => None
    | Some (s1, x) =>
      match ps_run s1 r with
      | None => None
      | Some (s2, xs) => Some (s2, x :: xs)
      end
    end
  end.
