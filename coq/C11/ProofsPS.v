(* C11 — pointer slot: ring invariant and its consequences *)
From MV Require Import C11.Model C11.ProofsLib.
From Coq Require Import ZifyBool Znumtheory.
Local Open Scope Z_scope.

(* ---------------------------------------------------------------------- *)
(* powers of two, masks                                                    *)

Definition is_pow2_cap (c : Z) : Prop := exists k, 0 <= k <= 31 /\ c = 2 ^ k.

Lemma pow2_cap_pos : forall c, is_pow2_cap c -> 0 < c <= two31.
Proof.
  intros c (k & Hk & ->). split. { apply Z.pow_pos_nonneg; lia. }
  unfold two31. change 2147483648 with (2 ^ 31). apply Z.pow_le_mono_r; lia.
Qed.

Lemma pow2_cap_divides : forall c, is_pow2_cap c -> (c | two32).
Proof.
  intros c (k & Hk & ->). exists (2 ^ (32 - k)).
  rewrite <- Z.pow_add_r by lia. replace (32 - k + k) with 32 by lia. reflexivity.
Qed.

Lemma ring_idx_mod : forall i c, is_pow2_cap c -> 0 <= i -> ring_idx i c = i mod c.
Proof.
  intros i c Hc Hi. pose proof (pow2_cap_pos _ Hc) as Hp. destruct Hc as (k & Hk & ->).
  unfold ring_idx, u32. rewrite Z.mod_small by (unfold two31, two32 in *; lia).
  replace (2 ^ k - 1) with (Z.ones k) by (rewrite Z.ones_equiv; lia).
  apply Z.land_ones. lia.
Qed.

Lemma mod_u32_mod : forall a c, is_pow2_cap c -> (u32 a) mod c = a mod c.
Proof.
  intros. unfold u32. symmetry. apply Zmod_div_mod.
  - apply pow2_cap_pos in H. lia.
  - unfold two32; lia.
  - now apply pow2_cap_divides.
Qed.

Lemma u32_range : forall a, 0 <= u32 a < two32.
Proof. intros. unfold u32. apply Z.mod_pos_bound. unfold two32; lia. Qed.

Lemma u32_add_idem : forall a b, u32 (u32 a + b) = u32 (a + b).
Proof. intros. unfold u32. now rewrite Zplus_mod_idemp_l. Qed.

Lemma u32_sub_idem : forall a b, u32 (u32 a - b) = u32 (a - b).
Proof. intros. unfold u32. now rewrite Zminus_mod_idemp_l. Qed.

(* distinct offsets below c give distinct ring positions *)
Lemma ring_pos_inj : forall a c i j, 0 < c -> 0 <= i < c -> 0 <= j < c ->
  (a + i) mod c = (a + j) mod c -> i = j.
Proof.
  intros a c i j Hc Hi Hj H.
  assert (E : (i - j) mod c = 0).
  { replace (i - j) with ((a + i) - (a + j)) by lia. rewrite Zminus_mod, H, Z.sub_diag. apply Z.mod_0_l. lia. }
  apply Z.mod_divide in E; [|lia]. destruct E as [q E].
  assert (q = 0) by nia. lia.
Qed.

(* ---------------------------------------------------------------------- *)
(* muggle_next_pow_of_2 rounds up to a power of two (arguments <= 2^31)    *)

Lemma is_pow2_true : forall x, 1 <= x < two64 -> is_pow2 x = true -> exists k, 0 <= k /\ x = 2 ^ k.
Proof.
  intros x Hx H. unfold is_pow2 in H. apply Z.eqb_eq in H.
  unfold u64 in H. rewrite Z.mod_small in H by (unfold two64 in *; lia).
  set (k := Z.log2 x). exists k. split; [apply Z.log2_nonneg|].
  destruct (Z.log2_spec x) as [Hlo Hhi]; [lia|]. fold k in Hlo, Hhi.
  destruct (Z.eq_dec x (2 ^ k)); auto. exfalso.
  assert (Hr : 2 ^ k <= x - 1 < 2 ^ (Z.succ k)) by lia.
  assert (Hl : Z.log2 (x - 1) = k) by (apply Z.log2_unique; [apply Z.log2_nonneg | lia]).
  assert (Hb : Z.testbit (Z.land x (x - 1)) k = true).
  { rewrite Z.land_spec. apply andb_true_iff. split.
    - unfold k. apply Z.bit_log2. lia.
    - rewrite <- Hl. apply Z.bit_log2. assert (0 < 2 ^ k) by (apply Z.pow_pos_nonneg; [lia | apply Z.log2_nonneg]). lia. }
  rewrite H in Hb. rewrite Z.bits_0 in Hb. discriminate.
Qed.

Definition top_ones (k m y : Z) : Prop :=
  (forall i, 0 <= i -> k - m < i <= k -> Z.testbit y i = true) /\
  (forall i, k < i -> Z.testbit y i = false).

Lemma smear_step : forall k m s y, 0 <= k -> 0 <= s <= m -> top_ones k m y ->
  top_ones k (m + s) (Z.lor y (Z.shiftr y s)).
Proof.
  intros k m s y Hk Hs [H1 H2]. split; intros i; intros.
  - rewrite Z.lor_spec. destruct (Z_lt_le_dec (k - m) i).
    + rewrite H1 by lia. reflexivity.
    + rewrite Z.shiftr_spec by lia. rewrite (H1 (i + s)) by lia. apply orb_true_r.
  - rewrite Z.lor_spec, Z.shiftr_spec by lia. rewrite H2 by lia. rewrite H2 by lia. reflexivity.
Qed.

Lemma smear_all : forall x, 1 <= x < two32 ->
  let k := Z.log2 x in
  let x1 := Z.lor x (Z.shiftr x 1) in
  let x2 := Z.lor x1 (Z.shiftr x1 2) in
  let x3 := Z.lor x2 (Z.shiftr x2 4) in
  let x4 := Z.lor x3 (Z.shiftr x3 8) in
  let x5 := Z.lor x4 (Z.shiftr x4 16) in
  x5 = Z.ones (k + 1).
Proof.
  intros x Hx k x1 x2 x3 x4 x5.
  assert (Hk0 : 0 <= k) by apply Z.log2_nonneg.
  assert (Hk : k < 32).
  { apply Z.log2_lt_pow2; [lia|]. unfold two32 in Hx. change (2 ^ 32) with 4294967296. lia. }
  assert (T0 : top_ones k 1 x).
  { split; intros.
    - replace i with k by lia. apply Z.bit_log2. lia.
    - apply Z.bits_above_log2; lia. }
  assert (T1 : top_ones k 2 x1) by (apply (smear_step k 1 1); auto; lia).
  assert (T2 : top_ones k 4 x2) by (apply (smear_step k 2 2); auto; lia).
  assert (T3 : top_ones k 8 x3) by (apply (smear_step k 4 4); auto; lia).
  assert (T4 : top_ones k 16 x4) by (apply (smear_step k 8 8); auto; lia).
  assert (T5 : top_ones k 32 x5) by (apply (smear_step k 16 16); auto; lia).
  destruct T5 as [A B]. apply Z.bits_inj'. intros n Hn.
  destruct (Z_lt_le_dec k n).
  - rewrite B by lia. rewrite Z.ones_spec_high by lia. reflexivity.
  - rewrite A by lia. rewrite Z.ones_spec_low by lia. reflexivity.
Qed.

Lemma next_pow_of_2_spec : forall c, 1 <= c <= two31 ->
  is_pow2_cap (u32 (next_pow_of_2 (u64 c))) /\ c <= u32 (next_pow_of_2 (u64 c)).
Proof.
  intros c Hc. replace (u64 c) with c by (unfold u64; rewrite Z.mod_small; unfold two31, two64 in *; lia).
  unfold next_pow_of_2. destruct (is_pow2 c) eqn:P.
  - destruct (is_pow2_true c) as (k & Hk & E); auto. { unfold two31, two64 in *; lia. }
    unfold u32. rewrite Z.mod_small by (unfold two31, two32 in *; lia). split; [|lia].
    exists k. split; auto. split; auto.
    destruct (Z_le_gt_dec k 31); auto. exfalso.
    assert (2 ^ 32 <= 2 ^ k) by (apply Z.pow_le_mono_r; lia).
    change (2 ^ 32) with 4294967296 in H. unfold two31 in Hc. lia.
  - assert (c <> two31) by (intro; subst; vm_compute in P; discriminate).
    pose proof (smear_all c) as S. cbv zeta in S. rewrite S by (unfold two31, two32 in *; lia).
    set (k := Z.log2 c).
    assert (Hk0 : 0 <= k) by apply Z.log2_nonneg.
    assert (Hk : k < 31).
    { apply Z.log2_lt_pow2; [lia|]. change (2 ^ 31) with 2147483648. unfold two31 in *. lia. }
    rewrite Z.ones_equiv. replace (Z.pred (2 ^ (k + 1)) + 1) with (2 ^ (k + 1)) by lia.
    assert (Hb : 2 ^ (k + 1) <= 2 ^ 31) by (apply Z.pow_le_mono_r; lia).
    change (2 ^ 31) with 2147483648 in Hb.
    assert (0 < 2 ^ (k + 1)) by (apply Z.pow_pos_nonneg; lia).
    unfold u64, u32. rewrite (Z.mod_small (2 ^ (k + 1)) two64) by (unfold two64; lia).
    rewrite (Z.mod_small (2 ^ (k + 1)) two32) by (unfold two32; lia).
    split. { exists (k + 1). split; [lia | reflexivity]. }
    destruct (Z.log2_spec c) as [_ Hhi]; [lia|]. fold k in Hhi. replace (Z.succ k) with (k + 1) in Hhi by lia. lia.
Qed.
