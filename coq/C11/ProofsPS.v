(* C11 — pointer slot: ring invariant and its consequences *)
From MV Require Import C11.Model C11.ProofsLib.
From Coq Require Import ZifyBool Znumtheory.
Local Open Scope Z_scope.

(* ---------------------------------------------------------------------- *)
(* powers of two, masks                                                    *)

Definition is_pow2_cap (c : Z) : Prop := exists k, 0 <= k <= 31 /\ c = 2 ^ k.

Lemma pow2_cap_pos : forall c, is_pow2_cap c -> 0 < c <= two31.
Proof.
  intros c (k & Hk & ->). split. { apply Z.pow_pos_nonneg; lia. }
  unfold two31. change 2147483648 with (2 ^ 31). apply Z.pow_le_mono_r; lia.
Qed.

Lemma pow2_cap_divides : forall c, is_pow2_cap c -> (c | two32).
Proof.
  intros c (k & Hk & ->). exists (2 ^ (32 - k)).
  rewrite <- Z.pow_add_r by lia. replace (32 - k + k) with 32 by lia. reflexivity.
Qed.

Lemma ring_idx_mod : forall i c, is_pow2_cap c -> 0 <= i -> ring_idx i c = i mod c.
Proof.
  intros i c Hc Hi. pose proof (pow2_cap_pos _ Hc) as Hp. destruct Hc as (k & Hk & ->).
  unfold ring_idx, u32. rewrite Z.mod_small by (unfold two31, two32 in *; lia).
  replace (2 ^ k - 1) with (Z.ones k) by (rewrite Z.ones_equiv; lia).
  apply Z.land_ones. lia.
Qed.

Lemma mod_u32_mod : forall a c, is_pow2_cap c -> (u32 a) mod c = a mod c.
Proof.
  intros. unfold u32. symmetry. apply Zmod_div_mod.
  - apply pow2_cap_pos in H. lia.
  - unfold two32; lia.
  - now apply pow2_cap_divides.
Qed.

Lemma u32_range : forall a, 0 <= u32 a < two32.
Proof. intros. unfold u32. apply Z.mod_pos_bound. unfold two32; lia. Qed.

Lemma u32_add_idem : forall a b, u32 (u32 a + b) = u32 (a + b).
Proof. intros. unfold u32. now rewrite Zplus_mod_idemp_l. Qed.

Lemma u32_sub_idem : forall a b, u32 (u32 a - b) = u32 (a - b).
Proof. intros. unfold u32. now rewrite Zminus_mod_idemp_l. Qed.

(* distinct offsets below c give distinct ring positions *)
Lemma ring_pos_inj : forall a c i j, 0 < c -> 0 <= i < c -> 0 <= j < c ->
  (a + i) mod c = (a + j) mod c -> i = j.
Proof.
  intros a c i j Hc Hi Hj H.
  assert (E : (i - j) mod c = 0).
  { replace (i - j) with ((a + i) - (a + j)) by lia. rewrite Zminus_mod, H, Z.sub_diag. apply Z.mod_0_l. lia. }
  apply Z.mod_divide in E; [|lia]. destruct E as [q E].
  assert (q = 0) by nia. lia.
Qed.

(* ---------------------------------------------------------------------- *)
(* muggle_next_pow_of_2 rounds up to a power of two (arguments <= 2^31)    *)

Lemma is_pow2_true : forall x, 1 <= x < two64 -> is_pow2 x = true -> exists k, 0 <= k /\ x = 2 ^ k.
Proof.
  intros x Hx H. unfold is_pow2 in H. apply Z.eqb_eq in H.
  unfold u64 in H. rewrite Z.mod_small in H by (unfold two64 in *; lia).
  set (k := Z.log2 x). exists k. split; [apply Z.log2_nonneg|].
  destruct (Z.log2_spec x) as [Hlo Hhi]; [lia|]. fold k in Hlo, Hhi.
  destruct (Z.eq_dec x (2 ^ k)); auto. exfalso.
  assert (Hr : 2 ^ k <= x - 1 < 2 ^ (Z.succ k)) by lia.
  assert (Hl : Z.log2 (x - 1) = k) by (apply Z.log2_unique; [apply Z.log2_nonneg | lia]).
  assert (Hb : Z.testbit (Z.land x (x - 1)) k = true).
  { rewrite Z.land_spec. apply andb_true_iff. split.
    - unfold k. apply Z.bit_log2. lia.
    - rewrite <- Hl. apply Z.bit_log2. assert (0 < 2 ^ k) by (apply Z.pow_pos_nonneg; [lia | apply Z.log2_nonneg]). lia. }
  rewrite H in Hb. rewrite Z.bits_0 in Hb. discriminate.
Qed.

Definition top_ones (k m y : Z) : Prop :=
  (forall i, 0 <= i -> k - m < i <= k -> Z.testbit y i = true) /\
  (forall i, k < i -> Z.testbit y i = false).

Lemma smear_step : forall k m s y, 0 <= k -> 0 <= s <= m -> top_ones k m y ->
  top_ones k (m + s) (Z.lor y (Z.shiftr y s)).
Proof.
  intros k m s y Hk Hs [H1 H2]. split; intros i; intros.
  - rewrite Z.lor_spec. destruct (Z_lt_le_dec (k - m) i).
    + rewrite H1 by lia. reflexivity.
    + rewrite Z.shiftr_spec by lia. rewrite (H1 (i + s)) by lia. apply orb_true_r.
  - rewrite Z.lor_spec, Z.shiftr_spec by lia. rewrite H2 by lia. rewrite H2 by lia. reflexivity.
Qed.

Lemma smear_all : forall x, 1 <= x < two32 ->
  let k := Z.log2 x in
  let x1 := Z.lor x (Z.shiftr x 1) in
  let x2 := Z.lor x1 (Z.shiftr x1 2) in
  let x3 := Z.lor x2 (Z.shiftr x2 4) in
  let x4 := Z.lor x3 (Z.shiftr x3 8) in
  let x5 := Z.lor x4 (Z.shiftr x4 16) in
  x5 = Z.ones (k + 1).
Proof.
  intros x Hx k x1 x2 x3 x4 x5.
  assert (Hk0 : 0 <= k) by apply Z.log2_nonneg.
  assert (Hk : k < 32).
  { apply Z.log2_lt_pow2; [lia|]. unfold two32 in Hx. change (2 ^ 32) with 4294967296. lia. }
  assert (T0 : top_ones k 1 x).
  { split; intros.
    - replace i with k by lia. apply Z.bit_log2. lia.
    - apply Z.bits_above_log2; lia. }
  assert (T1 : top_ones k 2 x1) by (apply (smear_step k 1 1); auto; lia).
  assert (T2 : top_ones k 4 x2) by (apply (smear_step k 2 2); auto; lia).
  assert (T3 : top_ones k 8 x3) by (apply (smear_step k 4 4); auto; lia).
  assert (T4 : top_ones k 16 x4) by (apply (smear_step k 8 8); auto; lia).
  assert (T5 : top_ones k 32 x5) by (apply (smear_step k 16 16); auto; lia).
  destruct T5 as [A B]. apply Z.bits_inj'. intros n Hn.
  destruct (Z_lt_le_dec k n).
  - rewrite B by lia. rewrite Z.ones_spec_high by lia. reflexivity.
  - rewrite A by lia. rewrite Z.ones_spec_low by lia. reflexivity.
Qed.

Lemma next_pow_of_2_spec : forall c, 1 <= c <= two31 ->
  is_pow2_cap (u32 (next_pow_of_2 (u64 c))) /\ c <= u32 (next_pow_of_2 (u64 c)).
Proof.
  intros c Hc. replace (u64 c) with c by (unfold u64; rewrite Z.mod_small; unfold two31, two64 in *; lia).
  unfold next_pow_of_2. destruct (is_pow2 c) eqn:P.
  - destruct (is_pow2_true c) as (k & Hk & E); auto. { unfold two31, two64 in *; lia. }
    unfold u32. rewrite Z.mod_small by (unfold two31, two32 in *; lia). split; [|lia].
    exists k. split; auto. split; auto.
    destruct (Z_le_gt_dec k 31); auto. exfalso.
    assert (2 ^ 32 <= 2 ^ k) by (apply Z.pow_le_mono_r; lia).
    change (2 ^ 32) with 4294967296 in H. unfold two31 in Hc. lia.
  - assert (c <> two31) by (intro; subst; vm_compute in P; discriminate).
    pose proof (smear_all c) as S. cbv zeta in S. rewrite S by (unfold two31, two32 in *; lia).
    set (k := Z.log2 c).
    assert (Hk0 : 0 <= k) by apply Z.log2_nonneg.
    assert (Hk : k < 31).
    { apply Z.log2_lt_pow2; [lia|]. change (2 ^ 31) with 2147483648. unfold two31 in *. lia. }
    rewrite Z.ones_equiv. replace (Z.pred (2 ^ (k + 1)) + 1) with (2 ^ (k + 1)) by lia.
    assert (Hb : 2 ^ (k + 1) <= 2 ^ 31) by (apply Z.pow_le_mono_r; lia).
    change (2 ^ 31) with 2147483648 in Hb.
    assert (0 < 2 ^ (k + 1)) by (apply Z.pow_pos_nonneg; lia).
    unfold u64, u32. rewrite (Z.mod_small (2 ^ (k + 1)) two64) by (unfold two64; lia).
    rewrite (Z.mod_small (2 ^ (k + 1)) two32) by (unfold two32; lia).
    split. { exists (k + 1). split; [lia | reflexivity]. }
    destruct (Z.log2_spec c) as [_ Hhi]; [lia|]. fold k in Hhi. replace (Z.succ k) with (k + 1) in Hhi by lia. lia.
Qed.

(* ---------------------------------------------------------------------- *)
(* the invariant (DESIGN.md Appendix A.3, with the relation between the     *)
(* two cursors corrected: free_index = alloc_index - |live|  (mod 2^32))    *)

Definition slot_used (sl : list slot) (sid : Z) (b : bool) : Prop :=
  exists x, zget sl sid = Some x /\ in_used x = b.

Definition nfree (s : pslot) : Z := pcap s - zlen (live s).

(* the ring segment [alloc_index, alloc_index + nfree) of pp_slots *)
Definition seg_of (ppl : list Z) (a c : Z) (n : nat) : list Z :=
  map (fun j => znth ppl ((a + Z.of_nat j) mod c)) (seq 0 n).
Definition seg (s : pslot) : list Z := seg_of (pp s) (alloc_index s) (pcap s) (Z.to_nat (nfree s)).

Record ps_inv (s : pslot) : Prop := {
  inv_cap : is_pow2_cap (pcap s);
  inv_len_slots : zlen (slots s) = pcap s;
  inv_len_pp : zlen (pp s) = pcap s;
  inv_ai : 0 <= alloc_index s < two32;
  inv_fi : free_index s = u32 (alloc_index s - zlen (live s));
  inv_nlive : zlen (live s) <= pcap s;
  inv_live_nodup : NoDup (live s);
  inv_live_used : forall sid, In sid (live s) <-> slot_used (slots s) sid true;
  inv_seg_nodup : NoDup (seg s);
  inv_seg_free : forall sid, In sid (seg s) <-> slot_used (slots s) sid false;
  inv_pp_range : forall i, 0 <= i < pcap s -> 0 <= znth (pp s) i < pcap s
}.

Lemma slot_used_zset_eq : forall sl sid x b, 0 <= sid < zlen sl ->
  (slot_used (zset sl sid x) sid b <-> in_used x = b).
Proof.
  intros. unfold slot_used. rewrite zget_zset_eq by auto. split.
  - intros (y & E & U). now inversion E; subst.
  - intros. eauto.
Qed.

Lemma slot_used_zset_neq : forall sl sid j x b, sid <> j ->
  (slot_used (zset sl sid x) j b <-> slot_used sl j b).
Proof. intros. unfold slot_used. now rewrite zget_zset_neq by auto. Qed.

Lemma slot_used_excl : forall sl sid, slot_used sl sid true -> slot_used sl sid false -> False.
Proof. intros sl sid (x & E & U) (y & E' & U'). rewrite E in E'. inversion E'; subst. congruence. Qed.

Lemma slot_used_range : forall sl sid b, slot_used sl sid b -> 0 <= sid < zlen sl.
Proof. intros sl sid b (x & E & _). eapply zget_range; eauto. Qed.

Lemma ring_u32_add : forall c x j, is_pow2_cap c -> (u32 x + j) mod c = (x + j) mod c.
Proof.
  intros. rewrite Zplus_mod. rewrite mod_u32_mod by auto. now rewrite <- Zplus_mod.
Qed.

Lemma seg_of_S : forall ppl a c n,
  seg_of ppl a c (S n) = znth ppl (a mod c) :: seg_of ppl (a + 1) c n.
Proof.
  intros. unfold seg_of. simpl seq. simpl map. f_equal.
  - f_equal. f_equal. lia.
  - rewrite <- seq_shift. rewrite map_map. apply map_ext. intros j. f_equal. f_equal. lia.
Qed.

Lemma seg_of_snoc : forall ppl a c n,
  seg_of ppl a c (S n) = seg_of ppl a c n ++ [znth ppl ((a + Z.of_nat n) mod c)].
Proof. intros. unfold seg_of. rewrite seq_S. rewrite map_app. reflexivity. Qed.

Lemma seg_of_u32 : forall ppl a c n, is_pow2_cap c -> seg_of ppl (u32 a) c n = seg_of ppl a c n.
Proof. intros. unfold seg_of. apply map_ext. intros. now rewrite ring_u32_add. Qed.

Lemma seg_of_zset_other : forall ppl a c n p x, 0 < c -> Z.of_nat n < c -> 0 <= p ->
  p = (a + Z.of_nat n) mod c ->
  seg_of (zset ppl p x) a c n = seg_of ppl a c n.
Proof.
  intros. unfold seg_of. apply map_ext_in. intros j Hj. apply in_seq in Hj.
  apply znth_zset_neq. subst p. intro E.
  apply ring_pos_inj in E; lia.
Qed.

Lemma zlen_app1 : forall A (l : list A) x, zlen (l ++ [x]) = zlen l + 1.
Proof. unfold zlen; intros. rewrite app_length. simpl. lia. Qed.

(* ---------------------------------------------------------------------- *)
(* insert                                                                  *)

Lemma seg_head : forall s, ps_inv s -> zlen (live s) < pcap s ->
  seg s = znth (pp s) (alloc_index s mod pcap s) ::
          seg_of (pp s) (alloc_index s + 1) (pcap s) (Z.to_nat (nfree s - 1)).
Proof.
  intros s I Hlt. unfold seg. pose proof (zlen_nonneg _ (live s)).
  replace (Z.to_nat (nfree s)) with (S (Z.to_nat (nfree s - 1))) by (unfold nfree; lia).
  apply seg_of_S.
Qed.

Lemma ps_insert_spec : forall s d, ps_inv s ->
  (zlen (live s) = pcap s /\ ps_insert s d = Some (s, (PFull, -1))) \/
  (zlen (live s) < pcap s /\ exists s' sid,
      ps_insert s d = Some (s', (POk, sid)) /\ ps_inv s' /\
      0 <= sid < pcap s /\ ~ In sid (live s) /\ live s' = live s ++ [sid] /\
      slots s' = zset (slots s) sid {| in_used := true; sdata := d |} /\ pcap s' = pcap s).
Proof.
  intros s d I. pose proof I as I0. destruct I.
  pose proof (pow2_cap_pos _ inv_cap0) as Hc.
  pose proof (zlen_nonneg _ (live s)) as Hl0.
  unfold ps_insert. rewrite ring_idx_mod by (auto; lia).
  set (ai := alloc_index s mod pcap s).
  assert (Hai : 0 <= ai < pcap s) by (apply Z.mod_pos_bound; lia).
  destruct (zget_in_range _ (pp s) ai) as [sid Hsid]; [lia|]. rewrite Hsid.
  assert (Esid : sid = znth (pp s) ai) by (symmetry; now apply zget_nth).
  assert (Rsid : 0 <= sid < pcap s) by (rewrite Esid; now apply inv_pp_range0).
  destruct (zget_in_range _ (slots s) sid) as [sl Hsl]; [lia|]. rewrite Hsl.
  destruct (in_used sl) eqn:U.
  - (* refused: then every slot is in use *)
    left. split; auto.
    destruct (Z_lt_le_dec (zlen (live s)) (pcap s)); [|lia]. exfalso.
    pose proof (seg_head s I0 l) as SH. fold ai in SH. rewrite <- Esid in SH.
    assert (In sid (seg s)) by (rewrite SH; now left).
    apply inv_seg_free0 in H. eapply slot_used_excl; eauto. exists sl; auto.
  - right.
    assert (Hlt : zlen (live s) < pcap s).
    { destruct (Z_lt_le_dec (zlen (live s)) (pcap s)); auto. exfalso.
      assert (In sid (seg s)) by (apply inv_seg_free0; exists sl; auto).
      unfold seg in H. replace (Z.to_nat (nfree s)) with O in H by (unfold nfree; lia). exact H. }
    split; auto. eexists. exists sid. split; [reflexivity|].
    pose proof (seg_head s I0 Hlt) as SH. fold ai in SH. rewrite <- Esid in SH.
    assert (Hnl : ~ In sid (live s)).
    { intro. apply inv_live_used0 in H. eapply slot_used_excl; eauto. exists sl; auto. }
    rewrite SH in inv_seg_nodup0. apply NoDup_cons_iff in inv_seg_nodup0 as [Hnot Hnd].
    split; [|split; [lia|split; [auto|split; [reflexivity|split; reflexivity]]]].
    constructor; cbn [slots pp pcap alloc_index free_index live]; auto.
    + now rewrite zset_zlen.
    + apply u32_range.
    + rewrite zlen_app1. rewrite u32_sub_idem. rewrite inv_fi0. f_equal. lia.
    + rewrite zlen_app1. lia.
    + apply NoDup_snoc; auto.
    + intros x. rewrite in_app_iff. simpl. destruct (Z.eq_dec sid x).
      * subst x. rewrite slot_used_zset_eq by lia. simpl. tauto.
      * rewrite slot_used_zset_neq by auto. rewrite <- inv_live_used0. tauto.
    + unfold seg, nfree. cbn [slots pp pcap alloc_index free_index live].
      rewrite zlen_app1. rewrite seg_of_u32 by auto.
      replace (pcap s - (zlen (live s) + 1)) with (nfree s - 1) by (unfold nfree; lia). exact Hnd.
    + intros x. unfold seg, nfree. cbn [slots pp pcap alloc_index free_index live].
      rewrite zlen_app1. rewrite seg_of_u32 by auto.
      replace (pcap s - (zlen (live s) + 1)) with (nfree s - 1) by (unfold nfree; lia).
      destruct (Z.eq_dec sid x).
      * subst x. rewrite slot_used_zset_eq by lia. simpl. split; [contradiction | discriminate].
      * rewrite slot_used_zset_neq by auto. rewrite <- inv_seg_free0. rewrite SH. simpl. tauto.
Qed.

(* ---------------------------------------------------------------------- *)
(* remove                                                                  *)

Lemma ps_remove_spec : forall s idx, ps_inv s -> 0 <= idx ->
  (pcap s <= idx /\ ps_remove s idx = Some (s, PRange)) \/
  (idx < pcap s /\ ~ In idx (live s) /\ ps_remove s idx = Some (s, PDup)) \/
  (idx < pcap s /\ In idx (live s) /\ exists s',
      ps_remove s idx = Some (s', POk) /\ ps_inv s' /\
      live s' = remove_z idx (live s) /\ slots s' = zset (slots s) idx free_slot /\ pcap s' = pcap s).
Proof.
  intros s idx I Hidx. pose proof I as I0. destruct I.
  pose proof (pow2_cap_pos _ inv_cap0) as Hc.
  pose proof (zlen_nonneg _ (live s)) as Hl0.
  unfold ps_remove. destruct (idx >=? pcap s) eqn:R.
  { left. split; [lia | reflexivity]. }
  right.
  destruct (zget_in_range _ (slots s) idx) as [sl Hsl]; [lia|]. rewrite Hsl.
  destruct (in_used sl) eqn:U; cbn [negb].
  2:{ left. split; [lia|]. split; [|reflexivity]. intro H. apply inv_live_used0 in H.
      eapply slot_used_excl; eauto. exists sl; auto. }
  right. assert (Hin : In idx (live s)) by (apply inv_live_used0; exists sl; auto).
  split; [lia|]. split; auto.
  assert (Hn1 : 1 <= zlen (live s)).
  { unfold zlen. destruct (live s); [contradiction | simpl; lia]. }
  pose proof (u32_range (alloc_index s - zlen (live s))) as Hfr. rewrite <- inv_fi0 in Hfr.
  rewrite ring_idx_mod by (auto; lia).
  set (F := nfree s). assert (HF : 0 <= F < pcap s) by (unfold F, nfree; lia).
  assert (Efi : free_index s mod pcap s = (alloc_index s + F) mod pcap s).
  { rewrite inv_fi0. rewrite mod_u32_mod by auto. unfold F, nfree.
    replace (alloc_index s + (pcap s - zlen (live s))) with (alloc_index s - zlen (live s) + 1 * pcap s) by lia.
    now rewrite Z_mod_plus_full. }
  set (fi := free_index s mod pcap s) in *.
  assert (Hfi : 0 <= fi < pcap s) by (apply Z.mod_pos_bound; lia).
  destruct (zget_in_range _ (pp s) fi) as [old Hold]; [lia|]. rewrite Hold.
  eexists. split; [reflexivity|].
  split; [|split; [reflexivity | split; reflexivity]].
  assert (Hlen : zlen (remove_z idx (live s)) = zlen (live s) - 1).
  { unfold zlen. pose proof (remove_z_length idx (live s) inv_live_nodup0 Hin). lia. }
  assert (Hseg : seg_of (zset (pp s) fi idx) (alloc_index s) (pcap s) (Z.to_nat (pcap s - (zlen (live s) - 1)))
                 = seg s ++ [idx]).
  { replace (Z.to_nat (pcap s - (zlen (live s) - 1))) with (S (Z.to_nat F)) by (unfold F, nfree; lia).
    rewrite seg_of_snoc. rewrite Z2Nat.id by lia. rewrite <- Efi.
    rewrite znth_zset_eq by lia. f_equal.
    unfold seg. fold F. apply seg_of_zset_other; try lia. rewrite Z2Nat.id by lia. exact Efi. }
  assert (Hnotseg : ~ In idx (seg s)).
  { intro H. apply inv_seg_free0 in H. eapply slot_used_excl; eauto. exists sl; auto. }
  constructor; cbn [slots pp pcap alloc_index free_index live]; auto.
  - now rewrite zset_zlen.
  - now rewrite zset_zlen.
  - rewrite Hlen. rewrite inv_fi0. rewrite u32_add_idem. f_equal. lia.
  - lia.
  - now apply remove_z_nodup.
  - intros x. rewrite remove_z_in. destruct (Z.eq_dec idx x).
    + subst x. rewrite slot_used_zset_eq by lia. simpl. split; [intros [_ H]; congruence | discriminate].
    + rewrite slot_used_zset_neq by auto. rewrite <- inv_live_used0. split; [tauto | intros; split; auto].
  - unfold seg, nfree. cbn [slots pp pcap alloc_index free_index live]. rewrite Hlen, Hseg.
    apply NoDup_snoc; auto.
  - intros x. unfold seg, nfree. cbn [slots pp pcap alloc_index free_index live]. rewrite Hlen, Hseg.
    rewrite in_app_iff. simpl. destruct (Z.eq_dec idx x).
    + subst x. rewrite slot_used_zset_eq by lia. simpl. tauto.
    + rewrite slot_used_zset_neq by auto. rewrite <- inv_seg_free0. tauto.
  - intros i Hi. destruct (Z.eq_dec fi i).
    + subst i. rewrite znth_zset_eq by lia. lia.
    + rewrite znth_zset_neq by auto. now apply inv_pp_range0.
Qed.

(* ---------------------------------------------------------------------- *)
(* init (repaired code) and cursor preset                                  *)

Lemma NoDup_map_inj_in : forall A B (f : A -> B) l,
  (forall x y, In x l -> In y l -> f x = f y -> x = y) -> NoDup l -> NoDup (map f l).
Proof.
  induction l; simpl; intros; [constructor|]. inversion H0; subst. constructor.
  - rewrite in_map_iff. intros (y & E & Hy). assert (a = y) by (apply H; auto). subst. contradiction.
  - apply IHl; auto.
Qed.

Lemma zfrom_map_seq : forall k a, zfrom k (Z.of_nat a) = map Z.of_nat (seq a k).
Proof.
  induction k; intros a; cbn [zfrom seq map]; [reflexivity|]. f_equal.
  replace (Z.of_nat a + 1) with (Z.of_nat (S a)) by lia. apply IHk.
Qed.

(* a request whose power of two does not fit an unsigned int (> 2^31) is refused, malloc or not;
   every other request is accepted when malloc succeeds *)
Lemma ps_init_refuses : forall req ok, two31 < req -> ps_init req ok = None.
Proof.
  intros req ok H. unfold ps_init, ps_init_gen.
  replace (req >? 0) with true by (unfold two31 in *; lia). replace (req >? two31) with true by lia. reflexivity.
Qed.

Lemma ps_init_some_range : forall req ok s, ps_init req ok = Some s -> req <= two31.
Proof.
  intros req ok s H. destruct (Z_le_gt_dec req two31) as [L | G]; [exact L|].
  rewrite ps_init_refuses in H by lia. discriminate.
Qed.

Lemma ps_init_accepts : forall req, req <= two31 -> exists s, ps_init req true = Some s.
Proof.
  intros req H. unfold ps_init, ps_init_gen.
  replace ((if req >? 0 then req else 1) >? two31) with false
    by (destruct (req >? 0) eqn:E; unfold two31 in *; lia).
  cbn [andb negb]. eauto.
Qed.

Lemma ps_init_shape : forall req s, 0 <= req < two32 -> ps_init req true = Some s ->
  is_pow2_cap (pcap s) /\ (if req >? 0 then req else 1) <= pcap s /\
  slots s = repeat free_slot (Z.to_nat (pcap s)) /\ pp s = map Z.of_nat (seq 0 (Z.to_nat (pcap s))) /\
  alloc_index s = 0 /\ free_index s = 0 /\ live s = [].
Proof.
  intros req s Hr0 H. pose proof (ps_init_some_range _ _ _ H) as Hle.
  assert (Hr : 0 <= req <= two31) by lia.
  unfold ps_init, ps_init_gen in H.
  replace ((if req >? 0 then req else 1) >? two31) with false in H
    by (destruct (req >? 0) eqn:E; unfold two31 in *; lia).
  cbn [andb negb] in H. inversion H; subst; clear H.
  cbn [slots pp pcap alloc_index free_index live]. rewrite (zfrom_map_seq _ 0).
  set (c := if req >? 0 then req else 1).
  assert (Hc : 1 <= c <= two31) by (unfold c; destruct (req >? 0) eqn:E; unfold two31 in *; lia).
  destruct (next_pow_of_2_spec c Hc). repeat split; auto; lia.
Qed.

Lemma ps_preset_inv : forall s a, is_pow2_cap (pcap s) ->
  slots s = repeat free_slot (Z.to_nat (pcap s)) -> pp s = map Z.of_nat (seq 0 (Z.to_nat (pcap s))) ->
  live s = [] -> ps_inv (ps_preset s a).
Proof.
  intros s a Hcap Hs Hp Hl. pose proof (pow2_cap_pos _ Hcap) as Hc.
  assert (Hzs : forall x b, slot_used (slots s) x b <-> (0 <= x < pcap s /\ b = false)).
  { intros x b. rewrite Hs. split.
    - intros (y & E & U). pose proof (zget_range _ _ _ _ E) as R. rewrite zlen_repeat in R.
      rewrite zget_repeat in E by lia. inversion E; subst. simpl. split; [lia | reflexivity].
    - intros [R ->]. exists free_slot. rewrite zget_repeat by lia. auto. }
  assert (Hzp : forall i, 0 <= i < pcap s -> znth (pp s) i = i).
  { intros. rewrite Hp. apply zget_nth. apply zget_map_seq. lia. }
  assert (Hseg : seg (ps_preset s a) = map (fun j => (u32 a + Z.of_nat j) mod pcap s) (seq 0 (Z.to_nat (pcap s)))).
  { unfold seg, nfree, seg_of, ps_preset. cbn [slots pp pcap alloc_index free_index live].
    rewrite Hl. unfold zlen. simpl length. rewrite Z.sub_0_r. apply map_ext. intros j.
    apply Hzp. apply Z.mod_pos_bound. lia. }
  assert (N : NoDup (seg (ps_preset s a))).
  { rewrite Hseg. apply NoDup_map_inj_in; [|apply seq_NoDup].
    intros x y Hx Hy E. apply in_seq in Hx. apply in_seq in Hy.
    apply ring_pos_inj in E; lia. }
  assert (Fr : forall x, In x (seg (ps_preset s a)) <-> slot_used (slots s) x false).
  { intros x. rewrite Hseg. rewrite Hzs. rewrite in_map_iff. split.
    + intros (j & E & _). subst x. split; auto. apply Z.mod_pos_bound. lia.
    + intros [R _]. exists (Z.to_nat ((x - u32 a) mod pcap s)).
      pose proof (Z.mod_pos_bound (x - u32 a) (pcap s)) as B. split.
      * rewrite Z2Nat.id by lia. rewrite Zplus_mod_idemp_r.
        replace (u32 a + (x - u32 a)) with x by lia. apply Z.mod_small. lia.
      * apply in_seq. lia. }
  constructor; try exact N; try exact Fr; unfold ps_preset; cbn [slots pp pcap alloc_index free_index live]; auto.
  - rewrite Hs. rewrite zlen_repeat. lia.
  - rewrite Hp. unfold zlen. rewrite map_length, seq_length. lia.
  - apply u32_range.
  - rewrite Hl. unfold zlen. simpl length. rewrite Z.sub_0_r. unfold u32. now rewrite Zmod_mod.
  - rewrite Hl. unfold zlen. simpl. lia.
  - rewrite Hl. constructor.
  - intros x. rewrite Hl. rewrite Hzs. simpl. split; [contradiction | intros [_ H]; discriminate].
  - intros i Hi. rewrite Hzp by auto. lia.
Qed.

Lemma ps_init_inv : forall req s a, 0 <= req < two32 -> ps_init req true = Some s ->
  ps_inv s /\ ps_inv (ps_preset s a).
Proof.
  intros req s a Hr H. destruct (ps_init_shape req s Hr H) as (Hc & _ & Hs & Hp & Ha & Hf & Hl).
  split; [|now apply ps_preset_inv].
  assert (E : s = ps_preset s 0).
  { destruct s as [x1 x2 x3 x4 x5 x6]. unfold ps_preset. simpl in Ha, Hf. subst. reflexivity. }
  rewrite E. now apply ps_preset_inv.
Qed.

(* ---------------------------------------------------------------------- *)
(* the pointer slot refines its sequential reference: an association list   *)
(* (index, pointer) in insertion order                                      *)

Fixpoint lookup (i : Z) (m : list (Z * Z)) : option Z :=
  match m with
  | [] => None
  | (k, d) :: r => if k =? i then Some d else lookup i r
  end.

Definition del_key (i : Z) (m : list (Z * Z)) : list (Z * Z) := filter (fun p => negb (fst p =? i)) m.

(* what the reference allows as the outcome of one operation on a slot of capacity C *)
Definition spec_ok (C : Z) (m : list (Z * Z)) (o : ps_op) (r : ps_res) (m' : list (Z * Z)) : Prop :=
  match o, r with
  | PIns d, RIns PFull _ => zlen m = C /\ m' = m
  | PIns d, RIns POk i => zlen m < C /\ 0 <= i < C /\ ~ In i (map fst m) /\ m' = m ++ [(i, d)]
  | PRem i, RRem PRange => C <= i /\ m' = m
  | PRem i, RRem PDup => i < C /\ ~ In i (map fst m) /\ m' = m
  | PRem i, RRem POk => i < C /\ In i (map fst m) /\ m' = del_key i m
  | PGet i, RGet d => m' = m /\ d = match lookup i m with Some x => x | None => 0 end
  | _, _ => False
  end.

Definition op_ok (o : ps_op) : Prop :=
  match o with PIns _ => True | PRem i | PGet i => 0 <= i < two32 end.

Definition slot_data (sl : list slot) (sid : Z) : Z :=
  match zget sl sid with Some x => sdata x | None => 0 end.

Lemma ps_iter_eq : forall s, ps_iter s = map (fun sid => (sid, slot_data (slots s) sid)) (live s).
Proof. reflexivity. Qed.

Lemma ps_iter_keys : forall s, map fst (ps_iter s) = live s.
Proof. intros. rewrite ps_iter_eq, map_map. simpl. apply map_id. Qed.

Lemma ps_iter_zlen : forall s, zlen (ps_iter s) = zlen (live s).
Proof. intros. unfold zlen. rewrite ps_iter_eq, map_length. reflexivity. Qed.

Lemma lookup_map : forall (f : Z -> Z) l i, lookup i (map (fun x => (x, f x)) l) = if in_dec Z.eq_dec i l then Some (f i) else None.
Proof.
  induction l; simpl; intros; auto. destruct (a =? i) eqn:E.
  - assert (a = i) by lia. subst. destruct (Z.eq_dec i i); [reflexivity | congruence].
  - rewrite IHl. destruct (Z.eq_dec a i); [lia|]. destruct (in_dec Z.eq_dec i l); reflexivity.
Qed.

Lemma map_ext_zset : forall sl sid x l, ~ In sid l ->
  map (fun k => (k, slot_data (zset sl sid x) k)) l = map (fun k => (k, slot_data sl k)) l.
Proof.
  intros. apply map_ext_in. intros k Hk. unfold slot_data. rewrite zget_zset_neq; auto.
  intro; subst; contradiction.
Qed.

Lemma del_key_map : forall (f : Z -> Z) i l,
  del_key i (map (fun k => (k, f k)) l) = map (fun k => (k, f k)) (remove_z i l).
Proof.
  induction l; simpl; auto. destruct (a =? i); simpl; [auto | now rewrite IHl].
Qed.

Theorem ps_step_refines : forall s o, ps_inv s -> op_ok o ->
  exists s' r, ps_step s o = Some (s', r) /\ ps_inv s' /\ pcap s' = pcap s /\
               spec_ok (pcap s) (ps_iter s) o r (ps_iter s').
Proof.
  intros s o I Hok. destruct o as [d | i | i]; cbn [ps_step op_ok] in *.
  - destruct (ps_insert_spec s d I) as [[Hfull E] | (Hlt & s' & sid & E & I' & R & Hn & Hl & Hs & Hc)]; rewrite E.
    + exists s. eexists. split; [reflexivity|]. split; auto. split; auto.
      cbn [spec_ok]. now rewrite ps_iter_zlen.
    + exists s'. eexists. split; [reflexivity|]. split; auto. split; auto.
      cbn [spec_ok]. rewrite ps_iter_zlen, ps_iter_keys. split; [lia|]. split; [lia|]. split; auto.
      rewrite !ps_iter_eq. rewrite Hl, Hs, map_app. simpl. f_equal.
      * now apply map_ext_zset.
      * unfold slot_data. destruct I. rewrite zget_zset_eq by lia. reflexivity.
  - destruct (ps_remove_spec s i I) as [[R E] | [(R & Hn & E) | (R & Hin & s' & E & I' & Hl & Hs & Hc)]]; try lia; rewrite E.
    + exists s. eexists. split; [reflexivity|]. split; auto. split; auto. cbn [spec_ok]. auto.
    + exists s. eexists. split; [reflexivity|]. split; auto. split; auto. cbn [spec_ok]. now rewrite ps_iter_keys.
    + exists s'. eexists. split; [reflexivity|]. split; auto. split; auto.
      cbn [spec_ok]. rewrite ps_iter_keys. split; auto. split; auto.
      rewrite !ps_iter_eq. rewrite Hl, Hs. rewrite del_key_map.
      apply map_ext_zset. rewrite remove_z_in. tauto.
  - exists s. unfold ps_get. pose proof I as I0. destruct I.
    destruct (i >=? pcap s) eqn:R.
    + eexists. split; [reflexivity|]. split; auto. split; auto. cbn [spec_ok]. split; auto.
      rewrite ps_iter_eq, lookup_map. destruct (in_dec Z.eq_dec i (live s)) as [Hin | Hnin]; auto.
      apply inv_live_used0 in Hin. apply slot_used_range in Hin. lia.
    + destruct (zget_in_range _ (slots s) i) as [sl Hsl]; [lia|]. rewrite Hsl.
      destruct (in_used sl) eqn:U; cbn [negb].
      * eexists. split; [reflexivity|]. split; auto. split; auto.
        cbn [spec_ok]. split; auto. rewrite ps_iter_eq, lookup_map.
        destruct (in_dec Z.eq_dec i (live s)) as [Hin | Hnin].
        -- unfold slot_data. now rewrite Hsl.
        -- exfalso. apply Hnin. apply inv_live_used0. exists sl; auto.
      * eexists. split; [reflexivity|]. split; auto. split; auto.
        cbn [spec_ok]. split; auto. rewrite ps_iter_eq, lookup_map.
        destruct (in_dec Z.eq_dec i (live s)) as [Hin | Hnin]; auto.
        exfalso. apply inv_live_used0 in Hin. eapply slot_used_excl; eauto. exists sl; auto.
Qed.

(* ---------------------------------------------------------------------- *)
(* histories                                                               *)

Definition ref_next (m : list (Z * Z)) (o : ps_op) (r : ps_res) : list (Z * Z) :=
  match o, r with
  | PIns d, RIns POk i => m ++ [(i, d)]
  | PRem i, RRem POk => del_key i m
  | _, _ => m
  end.

Fixpoint ref_run (m : list (Z * Z)) (ops : list ps_op) (rs : list ps_res) : list (Z * Z) :=
  match ops, rs with
  | o :: ops', r :: rs' => ref_run (ref_next m o r) ops' rs'
  | _, _ => m
  end.

Fixpoint spec_run_ok (C : Z) (m : list (Z * Z)) (ops : list ps_op) (rs : list ps_res) : Prop :=
  match ops, rs with
  | [], [] => True
  | o :: ops', r :: rs' => spec_ok C m o r (ref_next m o r) /\ spec_run_ok C (ref_next m o r) ops' rs'
  | _, _ => False
  end.

Lemma spec_ok_next : forall C m o r m', spec_ok C m o r m' -> m' = ref_next m o r.
Proof.
  intros C m o r m' H. destruct o, r; cbn in *; try contradiction; try destruct r; try tauto.
Qed.

Theorem ps_run_refines : forall ops s, ps_inv s -> Forall op_ok ops ->
  exists s' rs, ps_run s ops = Some (s', rs) /\ ps_inv s' /\ pcap s' = pcap s /\
                spec_run_ok (pcap s) (ps_iter s) ops rs /\ ps_iter s' = ref_run (ps_iter s) ops rs.
Proof.
  induction ops as [|o ops IH]; intros s I F.
  - exists s, []. cbn. auto.
  - inversion F; subst.
    destruct (ps_step_refines s o I H1) as (s1 & r & E & I1 & C1 & S1).
    destruct (IH s1 I1 H2) as (s2 & rs & E2 & I2 & C2 & S2 & R2).
    exists s2, (r :: rs). cbn [ps_run]. rewrite E, E2.
    pose proof (spec_ok_next _ _ _ _ _ S1) as N.
    split; auto. split; auto. split; [congruence|]. cbn [spec_run_ok ref_run].
    rewrite <- N. rewrite C1 in S2. auto.
Qed.

Lemma lookup_app_some : forall i m1 m2 d, lookup i m1 = Some d -> lookup i (m1 ++ m2) = Some d.
Proof.
  induction m1 as [|[k x] m1 IH]; simpl; intros; [discriminate|].
  destruct (k =? i); auto.
Qed.

Lemma lookup_app_notin : forall i m1 m2, ~ In i (map fst m1) -> lookup i (m1 ++ m2) = lookup i m2.
Proof.
  induction m1 as [|[k x] m1 IH]; simpl; intros; auto.
  destruct (k =? i) eqn:E; [exfalso; apply H; left; lia|]. apply IH. tauto.
Qed.

Lemma lookup_del_key_neq : forall i j m, i <> j -> lookup i (del_key j m) = lookup i m.
Proof.
  induction m as [|[k x] m IH]; simpl; intros; auto.
  destruct (k =? j) eqn:E; simpl.
  - destruct (k =? i) eqn:E2; [lia|]. auto.
  - destruct (k =? i); auto.
Qed.

Lemma lookup_del_key_eq : forall i m, lookup i (del_key i m) = None.
Proof.
  induction m as [|[k x] m IH]; simpl; auto.
  destruct (k =? i) eqn:E; simpl; auto. now rewrite E.
Qed.

Lemma lookup_some_in : forall i m d, lookup i m = Some d -> In i (map fst m).
Proof.
  induction m as [|[k x] m IH]; simpl; intros; [discriminate|].
  destruct (k =? i) eqn:E; [left; lia | right; eauto].
Qed.

(* ps_get agrees with the reference map in every invariant state *)
Lemma ps_get_lookup : forall s i, ps_inv s -> 0 <= i < two32 ->
  ps_get s i = Some (match lookup i (ps_iter s) with Some x => x | None => 0 end).
Proof.
  intros s i I Hi. destruct (ps_step_refines s (PGet i) I Hi) as (s' & r & E & _ & _ & S).
  cbn [ps_step] in E. destruct (ps_get s i) eqn:G; [|discriminate]. inversion E; subst.
  cbn [spec_ok] in S. destruct S as [_ ->]. reflexivity.
Qed.

Lemma live_index_range : forall s i, ps_inv s -> In i (live s) -> 0 <= i < pcap s /\ 0 <= i < two32.
Proof.
  intros s i I H. pose proof (pow2_cap_pos _ (inv_cap s I)).
  apply (inv_live_used s I) in H. apply slot_used_range in H. rewrite (inv_len_slots s I) in H.
  unfold two31, two32 in *. lia.
Qed.

(* an index resolves to its pointer until it is removed *)
Theorem ps_get_until_removed_run : forall ops s i d, ps_inv s -> Forall op_ok ops ->
  lookup i (ps_iter s) = Some d -> ~ In (PRem i) ops ->
  exists s' rs, ps_run s ops = Some (s', rs) /\ lookup i (ps_iter s') = Some d /\ ps_get s' i = Some d.
Proof.
  induction ops as [|o ops IH]; intros s i d I F L N.
  - exists s, []. cbn [ps_run]. split; auto. split; auto.
    assert (R : 0 <= i < two32).
    { apply lookup_some_in in L. rewrite ps_iter_keys in L. now apply live_index_range in L. }
    rewrite ps_get_lookup by auto. now rewrite L.
  - inversion F; subst.
    destruct (ps_step_refines s o I H1) as (s1 & r & E & I1 & C1 & S1).
    assert (L1 : lookup i (ps_iter s1) = Some d).
    { pose proof (spec_ok_next _ _ _ _ _ S1) as N1. rewrite N1.
      destruct o as [d' | j | j], r as [p k | p | x]; cbn [ref_next]; auto; destruct p; auto.
      - now apply lookup_app_some.
      - rewrite lookup_del_key_neq; auto. intro; subst. apply N. now left. }
    destruct (IH s1 i d I1 H2 L1) as (s2 & rs & E2 & L2 & G2). { intro. apply N. now right. }
    exists s2, (r :: rs). cbn [ps_run]. rewrite E, E2. auto.
Qed.

Lemma ps_insert_then_get : forall s d s' i, ps_inv s -> ps_insert s d = Some (s', (POk, i)) ->
  ~ In i (live s) /\ NoDup (live s') /\ 0 <= i < pcap s /\ lookup i (ps_iter s') = Some d /\ ps_get s' i = Some d.
Proof.
  intros s d s' i I E.
  destruct (ps_step_refines s (PIns d) I) as (s1 & r & E1 & I1 & C1 & S1); [exact Logic.I|].
  cbn [ps_step] in E1. rewrite E in E1. inversion E1; subst. cbn [spec_ok] in S1.
  destruct S1 as (Hlt & R & Hn & Hm). rewrite ps_iter_keys in Hn.
  assert (L : lookup i (ps_iter s1) = Some d).
  { rewrite Hm. rewrite lookup_app_notin by (now rewrite ps_iter_keys). simpl. now rewrite Z.eqb_refl. }
  split; auto. split; [apply (inv_live_nodup _ I1)|]. split; auto. split; auto.
  pose proof (pow2_cap_pos _ (inv_cap s I)).
  rewrite ps_get_lookup; auto. { now rewrite L. } unfold two31, two32 in *. lia.
Qed.

Lemma ps_remove_then_get : forall s i s', ps_inv s -> 0 <= i < two32 -> ps_remove s i = Some (s', POk) ->
  ps_get s' i = Some 0 /\ ps_remove s' i = Some (s', PDup).
Proof.
  intros s i s' I Hi E.
  destruct (ps_remove_spec s i I) as [[R E'] | [(R & Hn & E') | (R & Hin & s1 & E' & I1 & Hl & Hs & Hc)]];
    try lia; rewrite E in E'; inversion E'; subst.
  assert (Hn : ~ In i (live s1)) by (rewrite Hl, remove_z_in; tauto).
  split.
  - rewrite ps_get_lookup by auto. destruct (lookup i (ps_iter s1)) eqn:L; auto.
    apply lookup_some_in in L. rewrite ps_iter_keys in L. contradiction.
  - destruct (ps_remove_spec s1 i I1) as [[R1 E1] | [(R1 & Hn1 & E1) | (R1 & Hin1 & _)]]; try lia; auto.
    contradiction.
Qed.

Lemma ps_full_refuses_lem : forall s d, ps_inv s ->
  (zlen (live s) = pcap s -> ps_insert s d = Some (s, (PFull, -1))) /\
  (zlen (live s) < pcap s -> exists s' i, ps_insert s d = Some (s', (POk, i))).
Proof.
  intros s d I. destruct (ps_insert_spec s d I) as [[Hf E] | (Hlt & s' & sid & E & _)]; split; intros; try lia; eauto.
Qed.

(* the invariant holds in every state reachable from init (+ optional cursor preset),
   for every requested capacity; in particular no operation touches memory
   outside slots[] / pp_slots[] (ps_run never yields None) *)
Theorem ps_reachable : forall req a s0 ops, 0 <= req < two32 -> ps_init req true = Some s0 ->
  Forall op_ok ops ->
  exists s' rs, ps_run (ps_preset s0 a) ops = Some (s', rs) /\ ps_inv s' /\
                ps_iter s' = ref_run [] ops rs /\ spec_run_ok (pcap s0) [] ops rs.
Proof.
  intros req a s0 ops Hr H F. destruct (ps_init_inv req s0 a Hr H) as [_ I].
  destruct (ps_run_refines ops _ I F) as (s' & rs & E & I' & C & S & R).
  exists s', rs. split; auto. split; auto.
  destruct (ps_init_shape req s0 Hr H) as (_ & _ & _ & _ & _ & _ & Hl).
  assert (Em : ps_iter (ps_preset s0 a) = []) by (rewrite ps_iter_eq; unfold ps_preset; cbn [live]; now rewrite Hl).
  rewrite Em in *. auto.
Qed.

Lemma ps_inv_ring : forall s, ps_inv s ->
  NoDup (seg s) /\ (forall sid, In sid (seg s) <-> slot_used (slots s) sid false) /\
  zlen (seg s) + zlen (live s) = pcap s /\
  free_index s = u32 (alloc_index s - zlen (live s)) /\
  free_index s mod pcap s = (alloc_index s + zlen (seg s)) mod pcap s /\
  NoDup (live s) /\ (forall sid, In sid (live s) <-> slot_used (slots s) sid true) /\
  zlen (slots s) = pcap s /\ zlen (pp s) = pcap s.
Proof.
  intros s I. pose proof (zlen_nonneg _ (live s)).
  assert (L : zlen (seg s) = pcap s - zlen (live s)).
  { unfold seg, seg_of, zlen. rewrite map_length, seq_length. unfold nfree. fold (zlen (live s)).
    pose proof (inv_nlive s I). lia. }
  destruct I.
  split; auto. split; auto. split; [lia|]. split; auto. split; [|auto].
  rewrite inv_fi0, L. rewrite mod_u32_mod by auto.
  replace (alloc_index s + (pcap s - zlen (live s))) with (alloc_index s - zlen (live s) + 1 * pcap s) by lia.
  now rewrite Z_mod_plus_full.
Qed.
