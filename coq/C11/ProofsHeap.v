(* C11 — the heap-level models (prev/next maps, pointer assignments in the
   order of the C text) refine the functional sequence models. *)
From MV Require Import C11.Model C11.ModelHeap C11.ProofsLib C11.ProofsAL C11.ProofsSeq C11.ProofsPS.
From Coq Require Import ZifyBool.
Local Open Scope Z_scope.

(* ---------------------------------------------------------------------- *)
(* well-formed doubly linked chain                                          *)

(* from node u the next pointers run through r, and every prev pointer
   points back: for consecutive a, b on the path  a->next = b /\ b->prev = a *)
Fixpoint links (h : dheap) (u : Z) (r : list Z) : Prop :=
  match r with
  | [] => True
  | v :: r' => hnext h u = v /\ hprev h v = u /\ links h v r'
  end.

(* the whole structure: head -> l -> tail, all nodes distinct (hence acyclic) *)
Definition wf_chain (h : dheap) (l : list Z) : Prop :=
  links h HEAD (l ++ [TAIL]) /\ NoDup (HEAD :: l ++ [TAIL]).

Lemma links_frame : forall h h' r u, links h u r ->
  (forall z, In z (u :: r) -> hnext h' z = hnext h z) ->
  (forall z, In z r -> hprev h' z = hprev h z) -> links h' u r.
Proof.
  induction r as [|v r IH]; intros u L Hn Hp; cbn [links] in *; auto.
  destruct L as (L1 & L2 & L3). split; [|split].
  - rewrite Hn by (now left). exact L1.
  - rewrite Hp by (now left). exact L2.
  - apply IH; auto.
    + intros z Hz. apply Hn. now right.
    + intros z Hz. apply Hp. now right.
Qed.

Lemma links_prev_split : forall h A u x B, links h u (A ++ x :: B) -> In (hprev h x) (u :: A).
Proof.
  induction A as [|a A IH]; intros u x B L; cbn [app links] in L.
  - destruct L as (_ & L2 & _). left. now rewrite L2.
  - destruct L as (_ & _ & L3). right. eapply IH; eauto.
Qed.

Lemma links_adjacent : forall h A u p x B, links h u (A ++ p :: x :: B) -> hnext h p = x /\ hprev h x = p.
Proof.
  induction A as [|a A IH]; intros u p x B L; cbn [app links] in L.
  - destruct L as (_ & _ & L1 & L2 & _). auto.
  - destruct L as (_ & _ & L3). eapply IH; eauto.
Qed.

Lemma links_first : forall h u x B, links h u (x :: B) -> hnext h u = x /\ hprev h x = u.
Proof. intros h u x B (L1 & L2 & _). auto. Qed.

Lemma links_suffix : forall h A u x B, links h u (A ++ x :: B) -> links h x B.
Proof.
  induction A as [|a A IH]; intros u x B L; cbn [app links] in L.
  - tauto.
  - destruct L as (_ & _ & L3). eapply IH; eauto.
Qed.

(* insertion of a fresh node nw between the adjacent nodes p and x, given
   pointwise as the net effect of the four assignments *)
Definition ins_spec (h h' : dheap) (p x nw : Z) : Prop :=
  hnext h' p = nw /\ hnext h' nw = x /\ (forall z, z <> p -> z <> nw -> hnext h' z = hnext h z) /\
  hprev h' nw = p /\ hprev h' x = nw /\ (forall z, z <> nw -> z <> x -> hprev h' z = hprev h z).

Lemma links_insert_split : forall h h' nw x B A u p,
  links h u (A ++ x :: B) -> NoDup (u :: A ++ x :: B) -> ~ In nw (u :: A ++ x :: B) ->
  p = hprev h x -> ins_spec h h' p x nw -> links h' u (A ++ nw :: x :: B).
Proof.
  intros h h' nw x B. induction A as [|a A IH]; intros u p L ND Fr Hp S.
  - cbn [app links] in *. destruct L as (L1 & L2 & L3). subst p. rewrite L2 in S.
    destruct S as (S1 & S2 & S3 & S4 & S5 & S6).
    apply NoDup_cons_iff in ND as [ND1 ND2]. pose proof ND2 as ND2'. apply NoDup_cons_iff in ND2' as [ND3 ND4].
    repeat split; auto.
    apply links_frame with (h := h); auto.
    + intros z Hz. apply S3.
      * intro; subst. apply ND1. exact Hz.
      * intro; subst. apply Fr. right. exact Hz.
    + intros z Hz. apply S6.
      * intro; subst. apply Fr. right. now right.
      * intro; subst. contradiction.
  - cbn [app links] in *. destruct L as (L1 & L2 & L3). subst p.
    apply NoDup_cons_iff in ND as [ND1 ND2].
    assert (Pin : In (hprev h x) (a :: A)) by (eapply links_prev_split; eauto).
    pose proof S as (S1 & S2 & S3 & S4 & S5 & S6).
    split; [|split].
    + rewrite S3; auto.
      * intro E. apply ND1. rewrite E. destruct Pin as [Pin | Pin]; [left; exact Pin | right; apply in_or_app; left; exact Pin].
      * intro; subst. apply Fr. now left.
    + rewrite S6; auto.
      * intro; subst. apply Fr. right. now left.
      * intro; subst a. apply NoDup_cons_iff in ND2 as [N1 _]. apply N1. apply in_or_app. right. now left.
    + apply IH with (p := hprev h x); auto.
      intro F. apply Fr. right. exact F.
Qed.

(* removal of node x between p and n *)
Definition rem_spec (h h' : dheap) (p x n : Z) : Prop :=
  hnext h' p = n /\ (forall z, z <> p -> z <> x -> hnext h' z = hnext h z) /\
  hprev h' n = p /\ (forall z, z <> n -> z <> x -> hprev h' z = hprev h z).

Lemma links_remove_split : forall h h' x n B A u p,
  links h u (A ++ x :: n :: B) -> NoDup (u :: A ++ x :: n :: B) ->
  p = hprev h x -> rem_spec h h' p x n -> links h' u (A ++ n :: B).
Proof.
  intros h h' x n B. induction A as [|a A IH]; intros u p L ND Hp S.
  - cbn [app links] in *. destruct L as (L1 & L2 & L3 & L4 & L5). subst p. rewrite L2 in S.
    destruct S as (S1 & S2 & S3 & S4).
    apply NoDup_cons_iff in ND as [ND1 ND2]. pose proof ND2 as ND2'. apply NoDup_cons_iff in ND2' as [ND3 ND4].
    pose proof ND4 as ND4'. apply NoDup_cons_iff in ND4' as [ND5 ND6].
    repeat split; auto.
    apply links_frame with (h := h); auto.
    + intros z Hz. apply S2.
      * intro; subst. apply ND1. now right.
      * intro; subst. apply ND3. exact Hz.
    + intros z Hz. apply S4.
      * intro; subst. contradiction.
      * intro; subst. apply ND3. now right.
  - cbn [app links] in *. destruct L as (L1 & L2 & L3). subst p.
    apply NoDup_cons_iff in ND as [ND1 ND2].
    assert (Pin : In (hprev h x) (a :: A)) by (eapply links_prev_split; eauto).
    pose proof S as (S1 & S2 & S3 & S4).
    pose proof ND2 as ND2'. apply NoDup_cons_iff in ND2' as [N1 N2].
    split; [|split].
    + rewrite S2; auto.
      * intro E. apply ND1. rewrite E. destruct Pin as [Pin | Pin]; [left; exact Pin | right; apply in_or_app; left; exact Pin].
      * intro; subst. apply ND1. right. apply in_or_app. right. now left.
    + rewrite S4; auto.
      * intro; subst. apply N1. apply in_or_app. right. right. now left.
      * intro; subst. apply N1. apply in_or_app. right. now left.
    + apply IH with (p := hprev h x); auto.
Qed.

(* ---------------------------------------------------------------------- *)
(* consequences of a well-formed chain: the walks                           *)

Lemma walk_fw_links : forall h l u fuel, links h u (l ++ [TAIL]) -> ~ In TAIL l -> (length l < fuel)%nat ->
  h_walk_fw fuel h (hnext h u) = l.
Proof.
  induction l as [|y r IH]; intros u fuel L NT F; destruct fuel; try (simpl in F; lia); cbn [app links h_walk_fw] in *.
  - destruct L as (L1 & _). rewrite L1. reflexivity.
  - destruct L as (L1 & L2 & L3). rewrite L1.
    destruct (Z.eqb_spec y TAIL); [exfalso; apply NT; now left|].
    f_equal. apply IH; [exact L3 | intro H; apply NT; now right | simpl in F; lia].
Qed.

Lemma links_snoc : forall h l u z b, links h u (l ++ [z; b]) -> links h u (l ++ [z]) /\ hprev h b = z.
Proof.
  induction l as [|y r IH]; intros u z b L; cbn [app links] in *.
  - destruct L as (L1 & L2 & L3 & L4 & _). auto.
  - destruct L as (L1 & L2 & L3). destruct (IH _ _ _ L3). auto.
Qed.

Lemma walk_bw_links : forall h l u b fuel, links h u (l ++ [b]) -> ~ In u l -> (length l < fuel)%nat ->
  (forall f x, h_walk_bw (S f) h x = if x =? u then [] else x :: h_walk_bw f h (hprev h x)) ->
  h_walk_bw fuel h (hprev h b) = rev l.
Proof.
  intros h l. induction l as [|z l IH] using rev_ind; intros u b fuel L NU F W.
  - destruct fuel; [simpl in F; lia|]. cbn [app links] in L. destruct L as (_ & L2 & _).
    rewrite W, L2, Z.eqb_refl. reflexivity.
  - rewrite <- app_assoc in L. cbn [app] in L. apply links_snoc in L. destruct L as [L Hb].
    rewrite app_length in F. simpl in F. destruct fuel; [lia|].
    rewrite W, Hb. destruct (Z.eqb_spec z u); [exfalso; apply NU; apply in_or_app; right; now left|].
    rewrite rev_app_distr. cbn [rev app]. f_equal.
    apply IH with (u := u); auto; try lia.
    intro. apply NU. apply in_or_app. now left.
Qed.

(* forward walk = the sequence, backward walk = its reverse; next and prev
   are mutually inverse along the chain *)
Lemma wf_chain_walks : forall h l fuel, wf_chain h l -> (length l < fuel)%nat ->
  h_walk_fw fuel h (hnext h HEAD) = l /\ h_walk_bw fuel h (hprev h TAIL) = rev l.
Proof.
  intros h l fuel [L ND] F. inversion ND as [|? ? N1 N2]; subst. split.
  - apply walk_fw_links; auto. intro H. apply NoDup_remove_2 in N2. apply N2. now rewrite app_nil_r.
  - apply walk_bw_links with (u := HEAD); auto.
    intro H. apply N1. apply in_or_app. now left.
Qed.

Lemma links_inverse : forall h r u, links h u r ->
  (forall x, In x r -> hnext h (hprev h x) = x) /\
  (forall x, In x (u :: removelast r) -> r <> [] -> hprev h (hnext h x) = x).
Proof.
  induction r as [|v r IH]; intros u L; cbn [links] in L.
  - split; [intros x []|]. intros x _ H. congruence.
  - destruct L as (L1 & L2 & L3). destruct (IH v L3) as [I1 I2]. split.
    + intros x [<- | Hx]; [now rewrite L2 | auto].
    + intros x Hx _. destruct Hx as [<- | Hx]; [now rewrite L1|].
      destruct r as [|w r]; [contradiction|]. apply I2; [exact Hx | discriminate].
Qed.

Theorem wf_chain_inverse : forall h l, wf_chain h l ->
  (forall x, In x (l ++ [TAIL]) -> hnext h (hprev h x) = x) /\
  (forall x, In x (HEAD :: l) -> hprev h (hnext h x) = x).
Proof.
  intros h l [L _]. destruct (links_inverse h _ _ L) as [I1 I2]. split; auto.
  intros x Hx. apply I2.
  - rewrite removelast_app by discriminate. cbn [removelast]. now rewrite app_nil_r.
  - destruct l; discriminate.
Qed.

(* ---------------------------------------------------------------------- *)
(* the C assignment sequences have the pointwise effect required above      *)

Ltac eqb_free t := match t with context [Z.eqb _ _] => fail 1 | _ => idtac end.
Ltac upd_tac :=
  unfold set_next, set_prev, set_data, upd; cbn [hnext hprev hdata];
  repeat match goal with |- context [?a =? ?b] => eqb_free a; eqb_free b; destruct (Z.eqb_spec a b) end;
  try congruence; try lia.

(* linked_list insert: node->prev->next = nw; nw->prev = node->prev; nw->next = node; node->prev = nw *)
Definition heap_insert_before (h : dheap) (node nw : Z) : dheap :=
  let h := set_next h (hprev h node) nw in
  let h := set_prev h nw (hprev h node) in
  let h := set_next h nw node in
  set_prev h node nw.

(* linked_list append / queue enqueue: node->next->prev = nw; nw->next = node->next; nw->prev = node; node->next = nw *)
Definition heap_insert_after (h : dheap) (node nw : Z) : dheap :=
  let h := set_prev h (hnext h node) nw in
  let h := set_next h nw (hnext h node) in
  let h := set_prev h nw node in
  set_next h node nw.

(* pointer slot: p->prev = tail.prev; p->next = &tail; tail.prev->next = p; tail.prev = p *)
Definition heap_push_back (h : dheap) (nw : Z) : dheap :=
  let h := set_prev h nw (hprev h TAIL) in
  let h := set_next h nw TAIL in
  let h := set_next h (hprev h TAIL) nw in
  set_prev h TAIL nw.

Lemma heap_insert_before_spec : forall h x nw, hprev h x <> nw -> x <> nw ->
  ins_spec h (heap_insert_before h x nw) (hprev h x) x nw.
Proof. intros h x nw H1 H2. unfold ins_spec, heap_insert_before. repeat split; intros; upd_tac. Qed.

Lemma heap_insert_after_spec : forall h p nw, p <> nw -> hnext h p <> nw ->
  ins_spec h (heap_insert_after h p nw) p (hnext h p) nw.
Proof. intros h p nw H1 H2. unfold ins_spec, heap_insert_after. repeat split; intros; upd_tac. Qed.

Lemma heap_push_back_spec : forall h nw, hprev h TAIL <> nw -> TAIL <> nw ->
  ins_spec h (heap_push_back h nw) (hprev h TAIL) TAIL nw.
Proof. intros h nw H1 H2. unfold ins_spec, heap_push_back. repeat split; intros; upd_tac. Qed.

Lemma h_unlink_spec : forall h x, rem_spec h (h_unlink h x) (hprev h x) x (hnext h x).
Proof. intros h x. unfold rem_spec, h_unlink. repeat split; intros; upd_tac. Qed.

Lemma heap_insert_before_data : forall h x nw z, hdata (heap_insert_before h x nw) z = hdata h z.
Proof. reflexivity. Qed.
Lemma heap_insert_after_data : forall h x nw z, hdata (heap_insert_after h x nw) z = hdata h z.
Proof. reflexivity. Qed.
Lemma h_unlink_data : forall h x z, hdata (h_unlink h x) z = hdata h z.
Proof. reflexivity. Qed.

(* ---------------------------------------------------------------------- *)
(* list facts about positions                                              *)

Lemma skipn_nth_cons : forall A (l : list A) k d, (k < length l)%nat -> skipn k l = nth k l d :: skipn (S k) l.
Proof.
  induction l as [|a l IH]; intros k d H; simpl in H; [lia|]. destruct k; [reflexivity|].
  cbn [skipn nth]. apply IH. lia.
Qed.

Lemma nth_map_fst : forall (l : list (Z * Z)) k id d, nth_error l k = Some (id, d) -> nth k (map fst l) 0 = id.
Proof.
  induction l as [|a l IH]; intros k id d H; destruct k; simpl in *; try discriminate.
  - inversion H; subst. reflexivity.
  - eapply IH; eauto.
Qed.

Lemma links_nth_next : forall h b l u i, links h u (l ++ [b]) -> (i < length l)%nat ->
  hnext h (nth i l 0) = nth (S i) (l ++ [b]) 0.
Proof.
  induction l as [|y r IH]; intros u i L Hi; simpl in Hi; [lia|].
  cbn [app links] in L. destruct L as (L1 & L2 & L3). destruct i.
  - cbn [nth]. destruct r; cbn [app links] in L3; destruct L3 as (L4 & _); exact L4.
  - cbn [nth app]. apply IH with (u := y); auto. lia.
Qed.

(* ---------------------------------------------------------------------- *)
(* linked list: refinement relation and operations                          *)

Definition ids (s : llist) : list Z := map fst (litems s).

Definition hl_R (hs : hlist) (s : llist) : Prop :=
  hsize hs = lsize s /\ hpool hs = lpool s /\ hnextid hs = lnext s /\
  links (hh hs) HEAD (ids s ++ [TAIL]) /\
  (forall id d, In (id, d) (litems s) -> hdata (hh hs) id = d).

Lemma ll_path_nodup : forall s, ll_inv s ->
  NoDup (HEAD :: ids s ++ [TAIL]) /\ ~ In (lnext s) (HEAD :: ids s ++ [TAIL]) /\
  (forall x, In x (ids s) -> 0 < x < lnext s).
Proof.
  intros s (H1 & H2 & H3 & H4 & H5). fold (ids s) in *. split; [|split]; auto.
  - constructor.
    + rewrite in_app_iff. intros [H | [H | []]]; [apply H3 in H; unfold HEAD in *; lia | unfold HEAD, TAIL in *; lia].
    + apply NoDup_snoc; auto. intro H. apply H3 in H. unfold TAIL in *. lia.
  - intros [H | H]; [unfold HEAD in *; lia|]. rewrite in_app_iff in H.
    destruct H as [H | [H | []]]; [apply H3 in H; lia | unfold TAIL in *; lia].
Qed.

Lemma hl_R_wf : forall hs s, ll_inv s -> hl_R hs s -> wf_chain (hh hs) (ids s).
Proof. intros hs s I (_ & _ & _ & L & _). split; auto. now apply ll_path_nodup. Qed.

(* common part of insert / append: a new node at position k, before node x *)
Lemma hl_R_insert : forall hs s k x B d h' hs' s',
  ll_inv s -> hl_R hs s -> (k <= length (ids s))%nat -> skipn k (ids s) ++ [TAIL] = x :: B ->
  ins_spec (hh hs) h' (hprev (hh hs) x) x (hnextid hs) ->
  (forall z, hdata h' z = if z =? hnextid hs then d else hdata (hh hs) z) ->
  hh hs' = h' -> hnextid hs' = hnextid hs + 1 -> hpool hs' = lpool s' -> hsize hs' = lsize s' ->
  litems s' = ins_at k (lnext s, d) (litems s) -> lnext s' = lnext s + 1 ->
  hl_R hs' s'.
Proof.
  intros hs s k x B d h' hs' s' I (R1 & R2 & R3 & R4 & R5) Hk Hx S D E1 E2 E3 E4 E5 E6.
  destruct (ll_path_nodup s I) as (ND & Fr & Rg).
  unfold hl_R, ids. rewrite E1, E2, E5, E6.
  split; [exact E4|]. split; [exact E3|]. split; [lia|]. split.
  - rewrite map_ins_at. cbn [fst]. fold (ids s). unfold ins_at. rewrite <- app_assoc. cbn [app].
    rewrite Hx. rewrite <- R3.
    assert (E : ids s ++ [TAIL] = firstn k (ids s) ++ x :: B).
    { rewrite <- Hx, app_assoc, firstn_skipn. reflexivity. }
    apply links_insert_split with (h := hh hs) (p := hprev (hh hs) x); auto.
    + now rewrite <- E.
    + now rewrite <- E.
    + rewrite <- E. now rewrite R3.
  - intros id d' Hin. apply in_ins_at in Hin. rewrite D. destruct Hin as [E | Hin].
    + inversion E; subst. rewrite R3, Z.eqb_refl. reflexivity.
    + assert (In id (ids s)) by (unfold ids; apply in_map_iff; exists (id, d'); auto).
      apply Rg in H. destruct (Z.eqb_spec id (hnextid hs)); [lia|]. now apply R5.
Qed.

(* which node pointer a position denotes *)
Definition node_at (s : llist) (k : Z) : Z := nth (Z.to_nat k) (ids s) 0.

Lemma pos_ok_nat : forall s k, pos_ok s k = true -> 0 <= k /\ (Z.to_nat k < length (ids s))%nat.
Proof. unfold pos_ok, zlen, ids; intros. rewrite map_length. lia. Qed.

Theorem hl_insert_refines : forall hs s pos d ok, ll_inv s -> hl_R hs s ->
  match pos with None => True | Some k => pos_ok s k = true end ->
  let node := match pos with None => None | Some k => Some (node_at s k) end in
  snd (hl_insert hs node d ok) = snd (ll_insert s pos d ok) /\
  hl_R (fst (hl_insert hs node d ok)) (fst (ll_insert s pos d ok)).
Proof.
  intros hs s pos d ok I R Hpos node. pose proof R as (R1 & R2 & R3 & R4 & R5).
  destruct (ll_path_nodup s I) as (ND & Fr & Rg).
  unfold hl_insert, ll_insert. rewrite R1, R2.
  destruct (node_alloc (lpool s) (lsize s) ok) as [p'|]; cbn [fst snd]; [|auto].
  split; [now rewrite R3|].
  set (h0 := set_data (hh hs) (hnextid hs) d).
  set (x := match node with None => hnext h0 HEAD | Some n => n end).
  set (k := Z.to_nat (match pos with None => 0 | Some k => k end)).
  assert (Hk : (k <= length (ids s))%nat /\ exists B, skipn k (ids s) ++ [TAIL] = x :: B).
  { unfold k, x, node. destruct pos as [k0|].
    - apply pos_ok_nat in Hpos. split; [lia|]. unfold node_at.
      rewrite (skipn_nth_cons _ _ _ 0) by lia. cbn [app]. eauto.
    - split; [lia|]. cbn [Z.to_nat skipn]. change (hnext h0 HEAD) with (hnext (hh hs) HEAD).
      destruct (ids s ++ [TAIL]) as [|y r] eqn:E; [destruct (ids s); discriminate|].
      cbn [links] in R4. destruct R4 as (L1 & _). rewrite L1. eauto. }
  destruct Hk as [Hk [B HB]].
  assert (Hxin : In x (ids s ++ [TAIL])).
  { rewrite <- (firstn_skipn k (ids s)), <- app_assoc, HB. apply in_or_app. right. now left. }
  assert (Hpin : In (hprev (hh hs) x) (HEAD :: firstn k (ids s))).
  { apply links_prev_split with (B := B). rewrite <- HB, app_assoc, firstn_skipn. exact R4. }
  assert (Hx : x <> hnextid hs) by (rewrite R3; intro E; apply Fr; right; now rewrite <- E).
  assert (Hp : hprev (hh hs) x <> hnextid hs).
  { rewrite R3. intro E. apply Fr. rewrite <- E. destruct Hpin as [<- | Hpin]; [now left|].
    right. apply in_or_app. left. rewrite <- (firstn_skipn k (ids s)). apply in_or_app. now left. }
  apply hl_R_insert with (s := s) (hs := hs) (k := k) (x := x) (B := B) (d := d)
                        (h' := heap_insert_before h0 x (hnextid hs)); auto; try reflexivity.
  - change (ins_spec h0 (heap_insert_before h0 x (hnextid hs)) (hprev h0 x) x (hnextid hs)).
    now apply heap_insert_before_spec.
Qed.

Lemma ids_length : forall s, length (ids s) = length (litems s).
Proof. intros. unfold ids. apply map_length. Qed.

Lemma links_last_next : forall h l u b, links h u (l ++ [b]) -> hnext h (hprev h b) = b.
Proof.
  intros h l u b L. destruct (links_inverse h _ _ L) as [I1 _]. apply I1. apply in_or_app. right. now left.
Qed.

Theorem hl_append_refines : forall hs s pos d ok, ll_inv s -> hl_R hs s ->
  match pos with None => True | Some k => pos_ok s k = true end ->
  let node := match pos with None => None | Some k => Some (node_at s k) end in
  snd (hl_append hs node d ok) = snd (ll_append s pos d ok) /\
  hl_R (fst (hl_append hs node d ok)) (fst (ll_append s pos d ok)).
Proof.
  intros hs s pos d ok I R Hpos node. pose proof R as (R1 & R2 & R3 & R4 & R5).
  destruct (ll_path_nodup s I) as (ND & Fr & Rg).
  unfold hl_append, ll_append. rewrite R1, R2.
  destruct (node_alloc (lpool s) (lsize s) ok) as [p'|]; cbn [fst snd]; [|auto].
  split; [now rewrite R3|].
  set (h0 := set_data (hh hs) (hnextid hs) d).
  set (p := match node with None => hprev h0 TAIL | Some n => n end).
  set (k := Z.to_nat (match pos with None => zlen (litems s) | Some k => k + 1 end)).
  assert (Hk : (k <= length (ids s))%nat /\
               exists x B, skipn k (ids s) ++ [TAIL] = x :: B /\ hprev (hh hs) x = p).
  { unfold k, p, node. destruct pos as [k0|].
    - apply pos_ok_nat in Hpos. destruct Hpos as [Hk0 Hlt]. split; [lia|].
      replace (Z.to_nat (k0 + 1)) with (S (Z.to_nat k0)) by lia.
      assert (E : ids s ++ [TAIL] = firstn (Z.to_nat k0) (ids s) ++ node_at s k0 :: (skipn (S (Z.to_nat k0)) (ids s) ++ [TAIL])).
      { rewrite <- (firstn_skipn (Z.to_nat k0) (ids s)) at 1. rewrite <- app_assoc. f_equal.
        unfold node_at. now rewrite (skipn_nth_cons _ _ _ 0) by lia. }
      destruct (skipn (S (Z.to_nat k0)) (ids s) ++ [TAIL]) as [|y B] eqn:E2.
      { destruct (skipn (S (Z.to_nat k0)) (ids s)); discriminate. }
      rewrite E in R4. destruct (links_adjacent _ _ _ _ _ _ R4) as [_ Hp].
      exists y, B. auto.
    - split; [unfold zlen; rewrite ids_length; lia|].
      replace (Z.to_nat (zlen (litems s))) with (length (ids s)) by (unfold zlen; rewrite ids_length; lia).
      rewrite skipn_all. cbn [app]. exists TAIL, []. auto. }
  destruct Hk as (Hk & x & B & HB & Hpx).
  assert (Hxin : In x (ids s ++ [TAIL])).
  { rewrite <- (firstn_skipn k (ids s)), <- app_assoc, HB. apply in_or_app. right. now left. }
  assert (Hnx : hnext (hh hs) p = x).
  { rewrite <- Hpx. destruct (links_inverse _ _ _ R4) as [I1 _]. now apply I1. }
  assert (Hpin : In p (HEAD :: firstn k (ids s))).
  { rewrite <- Hpx. apply links_prev_split with (B := B). rewrite <- HB, app_assoc, firstn_skipn. exact R4. }
  assert (Hx : x <> hnextid hs) by (rewrite R3; intro E; apply Fr; right; now rewrite <- E).
  assert (Hp : p <> hnextid hs).
  { rewrite R3. intro E. apply Fr. rewrite <- E. destruct Hpin as [<- | Hpin]; [now left|].
    right. apply in_or_app. left. rewrite <- (firstn_skipn k (ids s)). apply in_or_app. now left. }
  apply hl_R_insert with (s := s) (hs := hs) (k := k) (x := x) (B := B) (d := d)
                        (h' := heap_insert_after h0 p (hnextid hs)); auto; try reflexivity.
  rewrite Hpx. rewrite <- Hnx.
  change (ins_spec h0 (heap_insert_after h0 p (hnextid hs)) p (hnext h0 p) (hnextid hs)).
  apply heap_insert_after_spec; auto. change (hnext h0 p) with (hnext (hh hs) p). now rewrite Hnx.
Qed.

Lemma zget_nth_error : forall A (l : list A) k, 0 <= k -> zget l k = nth_error l (Z.to_nat k).
Proof. unfold zget; intros. destruct (k <? 0) eqn:E; [lia | reflexivity]. Qed.

Lemma del_at_split : forall A (l : list A) k d, (k < length l)%nat ->
  l = firstn k l ++ nth k l d :: skipn (S k) l.
Proof.
  intros. rewrite <- (firstn_skipn k l) at 1. f_equal. now apply skipn_nth_cons.
Qed.

Theorem hl_remove_refines : forall hs s k cb, ll_inv s -> hl_R hs s -> pos_ok s k = true ->
  snd (fst (hl_remove hs (node_at s k) cb)) = snd (fst (ll_remove s k cb)) /\
  snd (hl_remove hs (node_at s k) cb) = snd (ll_remove s k cb) /\
  hl_R (fst (fst (hl_remove hs (node_at s k) cb))) (fst (fst (ll_remove s k cb))).
Proof.
  intros hs s k cb I R Hpos. pose proof R as (R1 & R2 & R3 & R4 & R5).
  destruct (ll_path_nodup s I) as (ND & Fr & Rg).
  pose proof (pos_ok_nat s k Hpos) as [Hk0 Hlt].
  set (n := Z.to_nat k) in *. set (x := node_at s k).
  assert (Hlt' : (n < length (litems s))%nat) by (rewrite <- ids_length; exact Hlt).
  destruct (nth_error (litems s) n) as [[id d]|] eqn:Enth; [|apply nth_error_None in Enth; lia].
  assert (Eid : id = x) by (symmetry; unfold x, node_at; fold n; eapply nth_map_fst; eauto).
  subst id.
  assert (Hin : In (x, d) (litems s)) by (eapply nth_error_In; eauto).
  assert (Hd : hdata (hh hs) x = d) by (now apply R5).
  (* the path around x *)
  assert (E : ids s ++ [TAIL] = firstn n (ids s) ++ x :: (skipn (S n) (ids s) ++ [TAIL])).
  { rewrite (del_at_split _ (ids s) n 0 Hlt) at 1. rewrite <- app_assoc. reflexivity. }
  destruct (skipn (S n) (ids s) ++ [TAIL]) as [|y B] eqn:E2.
  { destruct (skipn (S n) (ids s)); discriminate. }
  assert (L : links (hh hs) HEAD (firstn n (ids s) ++ x :: y :: B)) by (rewrite <- E; exact R4).
  assert (Hnx : hnext (hh hs) x = y).
  { apply links_suffix in L. cbn [links] in L. tauto. }
  (* functional side *)
  unfold ll_remove. rewrite zget_nth_error by lia. fold n. rewrite Enth. cbn [fst snd].
  (* heap side *)
  unfold hl_remove, hl_next. rewrite Hnx. unfold h_free_data. rewrite Hd.
  assert (Hy : (if y =? TAIL then None else Some y) =
               match zget (litems s) (k + 1) with Some (id, _) => Some id | None => None end).
  { rewrite zget_nth_error by lia. replace (Z.to_nat (k + 1)) with (S n) by lia.
    destruct (Nat.lt_ge_cases (S n) (length (ids s))) as [Hs | Hs].
    - rewrite (skipn_nth_cons _ _ _ 0) in E2 by exact Hs. cbn [app] in E2. injection E2 as Ey EB.
      destruct (nth_error (litems s) (S n)) as [[id2 d2]|] eqn:E3; [|apply nth_error_None in E3; rewrite ids_length in Hs; lia].
      assert (Ey' : y = id2) by (rewrite <- Ey; unfold ids; eapply nth_map_fst; eauto).
      assert (Hr : In id2 (ids s)).
      { unfold ids. apply in_map_iff. exists (id2, d2). split; auto. eapply nth_error_In; eauto. }
      apply Rg in Hr. rewrite Ey'. destruct (Z.eqb_spec id2 TAIL); [unfold TAIL in *; lia | reflexivity].
    - rewrite skipn_all2 in E2 by lia. cbn [app] in E2. injection E2 as Ey EB. rewrite <- Ey.
      rewrite Z.eqb_refl. destruct (nth_error (litems s) (S n)) eqn:E3; [|reflexivity].
      assert (nth_error (litems s) (S n) <> None) by congruence. apply nth_error_Some in H. rewrite ids_length in Hs. lia. }
  assert (Hfinal : forall h1, (forall z, hnext h1 z = hnext (hh hs) z) -> (forall z, hprev h1 z = hprev (hh hs) z) ->
            (forall z, z <> x -> hdata h1 z = hdata (hh hs) z) ->
            hl_R {| hh := h_unlink h1 x; hnextid := hnextid hs; hpool := hpool hs; hsize := hsize hs - 1 |}
                 {| litems := del_at n (litems s); lnext := lnext s; lpool := lpool s; lsize := lsize s - 1 |}).
  { intros h1 Hn1 Hp1 Hd1. unfold hl_R, ids. cbn [hh hnextid hpool hsize litems lnext lpool lsize].
    split; [lia|]. split; [auto|]. split; [auto|]. split.
    - rewrite map_del_at. fold (ids s). unfold del_at. rewrite <- app_assoc. rewrite E2.
      apply links_remove_split with (h := hh hs) (x := x) (p := hprev (hh hs) x); auto.
      + now rewrite <- E.
      + pose proof (h_unlink_spec h1 x) as (S1 & S2 & S3 & S4). rewrite Hn1, Hp1 in *. rewrite Hnx in *.
        unfold rem_spec. repeat split; auto.
        * intros z Hz1 Hz2. rewrite S2 by auto. apply Hn1.
        * intros z Hz1 Hz2. rewrite S4 by auto. apply Hp1.
    - intros id' d' Hin'. rewrite h_unlink_data.
      assert (Hin2 : In (id', d') (litems s)) by (eapply in_del_at; eauto).
      rewrite Hd1; [now apply R5|].
      intro; subst id'.
      assert (In x (map fst (del_at n (litems s)))) by (apply in_map_iff; exists (x, d'); auto).
      rewrite map_del_at in H. fold (ids s) in H. unfold del_at in H.
      apply NoDup_cons_iff in ND as [_ ND]. rewrite E in ND. apply NoDup_remove_2 in ND.
      apply ND. rewrite in_app_iff in *. destruct H as [H | H]; [now left | right].
      rewrite <- E2. apply in_or_app. now left. }
  rewrite Hy. destruct (d =? 0) eqn:Ed; cbn [fst snd].
  - split; [reflexivity|]. split; [destruct cb; reflexivity|]. apply Hfinal; auto.
  - split; [reflexivity|]. split; [destruct cb; reflexivity|]. apply Hfinal; auto.
    intros z Hz. upd_tac.
Qed.

(* ---- clear: the loop terminates within [size] iterations, empties the chain, frees every non-NULL datum in order ---- *)

Lemma links_data_irrel : forall h h' u r, links h u r ->
  (forall z, hnext h' z = hnext h z) -> (forall z, hprev h' z = hprev h z) -> links h' u r.
Proof. intros. apply links_frame with (h := h); auto. Qed.

Lemma h_clear_loop_spec : forall cb l h fuel,
  links h HEAD (l ++ [TAIL]) -> NoDup (HEAD :: l ++ [TAIL]) -> (length l <= fuel)%nat ->
  exists h', h_clear_loop fuel cb h (hnext h HEAD) =
             (h', (if cb then filter nonnull (map (hdata h) l) else []), TAIL) /\
             links h' HEAD [TAIL].
Proof.
  intros cb. induction l as [|y r IH]; intros h fuel L ND F.
  - cbn [app links] in L. destruct L as (L1 & L2 & _). rewrite L1. exists h.
    split; [|cbn [links]; auto]. destruct fuel; cbn [h_clear_loop map filter]; [destruct cb; reflexivity|].
    rewrite Z.eqb_refl. destruct cb; reflexivity.
  - destruct fuel; [simpl in F; lia|]. cbn [app] in L, ND.
    pose proof L as (L1 & L2 & L3). cbn [h_clear_loop]. rewrite L1.
    assert (Hy : y <> TAIL).
    { intro; subst. apply NoDup_cons_iff in ND as [_ ND]. apply NoDup_cons_iff in ND as [N _].
      apply N. apply in_or_app. right. now left. }
    destruct (Z.eqb_spec y TAIL) as [Ety|Nty]; [contradiction|].
    assert (Hyr : ~ In y r).
    { intro Hin. apply NoDup_cons_iff in ND as [_ N2]. apply NoDup_cons_iff in N2 as [N3 _]. apply N3. apply in_or_app. now left. }
    destruct (r ++ [TAIL]) as [|n B] eqn:E; [destruct r; discriminate|].
    assert (Hn : hnext h y = n) by (cbn [links] in L3; tauto).
    set (h1 := fst (h_free_data h y cb)).
    assert (Hh1 : (forall z, hnext h1 z = hnext h z) /\ (forall z, hprev h1 z = hprev h z) /\
                  (forall z, z <> y -> hdata h1 z = hdata h z)).
    { unfold h1, h_free_data. destruct (hdata h y =? 0); cbn [fst]; repeat split; auto. intros z Hz. upd_tac. }
    destruct Hh1 as (Hn1 & Hp1 & Hd1).
    assert (L' : links (h_unlink h1 y) HEAD (n :: B)).
    { apply (links_remove_split h (h_unlink h1 y) y n B [] HEAD (hprev h y)); auto.
      pose proof (h_unlink_spec h1 y) as (S1 & S2 & S3 & S4). rewrite Hn1, Hp1 in *. rewrite Hn in *.
      unfold rem_spec. repeat split; auto.
      - intros z Hz1 Hz2. rewrite S2 by auto. apply Hn1.
      - intros z Hz1 Hz2. rewrite S4 by auto. apply Hp1. }
    assert (ND' : NoDup (HEAD :: n :: B)).
    { apply NoDup_cons_iff in ND as [N1 N2]. apply NoDup_cons_iff in N2 as [N3 N4]. constructor; auto.
      intro H. apply N1. now right. }
    destruct (IH (h_unlink h1 y) fuel L' ND') as (h' & E' & L''); [simpl in F; lia|].
    assert (Hhd : hnext (h_unlink h1 y) HEAD = n).
    { cbn [links] in L'. tauto. }
    rewrite Hhd in E'.
    exists h'. split; auto.
    replace (h_free_data h y cb) with (h1, if hdata h y =? 0 then [] else (if cb then [hdata h y] else []))
      by (unfold h1, h_free_data; destruct (hdata h y =? 0); reflexivity).
    rewrite Hn, E'. f_equal. f_equal.
    destruct cb; [|destruct (hdata h y =? 0); reflexivity].
    cbn [map filter].
    assert (Em : map (hdata (h_unlink h1 y)) r = map (hdata h) r).
    { apply map_ext_in. intros z Hz. rewrite h_unlink_data. apply Hd1. intro Ezy. subst z. contradiction. }
    rewrite Em. unfold nonnull. destruct (hdata h y =? 0); reflexivity.
Qed.

Lemma map_hdata_ids : forall hs s, hl_R hs s -> map (hdata (hh hs)) (ids s) = map snd (litems s).
Proof.
  intros hs s (_ & _ & _ & _ & R5). unfold ids. rewrite map_map. apply map_ext_in.
  intros [id d] Hin. cbn [fst snd]. now apply R5.
Qed.

Theorem hl_clear_refines : forall hs s cb, ll_inv s -> hl_R hs s ->
  exists hs', hl_clear hs cb = Some (hs', snd (ll_clear s cb)) /\ hl_R hs' (fst (ll_clear s cb)).
Proof.
  intros hs s cb I R. pose proof R as (R1 & R2 & R3 & R4 & R5).
  destruct (ll_path_nodup s I) as (ND & _ & _). destruct I as (I1 & _).
  destruct (h_clear_loop_spec cb (ids s) (hh hs) (Z.to_nat (hsize hs)) R4 ND) as (h' & E & L).
  { rewrite R1, I1. unfold zlen. rewrite ids_length. lia. }
  unfold hl_clear. rewrite E, Z.eqb_refl. eexists. split.
  - unfold ll_clear. cbn [snd]. rewrite (map_hdata_ids hs s R). reflexivity.
  - unfold ll_clear, hl_R, ids. cbn [fst hh hnextid hpool hsize litems lnext lpool lsize map app].
    split; [reflexivity|]. split; [exact R2|]. split; [exact R3|]. split; [exact L|]. intros id d [].
Qed.

(* ---- find ---- *)

Lemma h_find_loop_spec : forall cmp h data rest x dx fuel,
  links h x (map fst rest ++ [TAIL]) -> x <> TAIL -> ~ In TAIL (map fst rest) ->
  hdata h x = dx -> (forall id d, In (id, d) rest -> hdata h id = d) -> (S (length rest) < fuel)%nat ->
  h_find_loop fuel cmp h x data = find_node cmp ((x, dx) :: rest) data.
Proof.
  intros cmp h data. induction rest as [|[y dy] rest IH]; intros x dx fuel L Hx NT Hd Hr F;
    (destruct fuel as [|fuel]; [lia|]); cbn [h_find_loop find_node].
  - destruct (Z.eqb_spec x TAIL); [contradiction|]. rewrite Hd. destruct (cmp dx data); auto.
    cbn [map app links] in L. destruct L as (L1 & _). rewrite L1.
    destruct fuel; [simpl in F; lia|]. cbn [h_find_loop]. now rewrite Z.eqb_refl.
  - destruct (Z.eqb_spec x TAIL); [contradiction|]. rewrite Hd. destruct (cmp dx data); auto.
    cbn [map fst app links] in L. destruct L as (L1 & L2 & L3). rewrite L1.
    apply IH; auto.
    + intro; subst. apply NT. now left.
    + intro H. apply NT. now right.
    + apply Hr. now left.
    + intros id d H. apply Hr. now right.
    + simpl in F. lia.
Qed.

Theorem hl_find_refines : forall cmp hs s pos data, ll_inv s -> hl_R hs s ->
  match pos with None => True | Some k => pos_ok s k = true end ->
  let node := match pos with None => None | Some k => Some (node_at s k) end in
  hl_find cmp hs node data = ll_find cmp s pos data.
Proof.
  intros cmp hs s pos data I R Hpos node. pose proof R as (R1 & R2 & R3 & R4 & R5).
  destruct (ll_path_nodup s I) as (ND & _ & Rg). pose proof I as (I1 & _).
  assert (NT : forall l, incl l (ids s) -> ~ In TAIL l).
  { intros l Hl H. apply Hl in H. apply Rg in H. unfold TAIL in H. lia. }
  assert (Hfuel : Z.to_nat (hsize hs) = length (litems s)) by (rewrite R1, I1; unfold zlen; lia).
  unfold hl_find, ll_find. rewrite Hfuel.
  set (n := Z.to_nat (match pos with None => 0 | Some k => k end)).
  assert (Hcase : (n = length (litems s) /\ (match node with None => hnext (hh hs) HEAD | Some m => m end) = TAIL /\ pos = None)
                  \/ (n < length (litems s))%nat /\ (match node with None => hnext (hh hs) HEAD | Some m => m end) = nth n (ids s) 0).
  { unfold n, node. destruct pos as [k|].
    - right. apply pos_ok_nat in Hpos. rewrite <- ids_length. split; [lia | reflexivity].
    - cbn [Z.to_nat]. destruct (litems s) as [|[y dy] r] eqn:El.
      + left. unfold ids in R4. rewrite El in R4. cbn [map app links] in R4. cbn [length]. tauto.
      + right. unfold ids in *. rewrite El in *. cbn [map fst app links length nth] in *. split; [lia | tauto]. }
  destruct Hcase as [(Hn & Hs & Hp) | (Hn & Hs)]; rewrite Hs.
  - rewrite skipn_all2 by lia. cbn [h_find_loop find_node]. now rewrite Z.eqb_refl.
  - destruct (nth_error (litems s) n) as [[x dx]|] eqn:Enth; [|apply nth_error_None in Enth; lia].
    rewrite (nth_map_fst _ _ _ _ Enth : nth n (ids s) 0 = x).
    rewrite (skipn_nth_cons _ (litems s) n (x, dx)) by lia.
    rewrite (nth_error_nth _ _ _ Enth).
    assert (Ex : x = nth n (ids s) 0) by (symmetry; eapply nth_map_fst; eauto).
    assert (E : ids s ++ [TAIL] = firstn n (ids s) ++ x :: (map fst (skipn (S n) (litems s)) ++ [TAIL])).
    { rewrite (del_at_split _ (ids s) n 0) at 1 by (rewrite ids_length; lia). rewrite <- app_assoc, <- Ex.
      unfold ids. now rewrite skipn_map. }
    rewrite E in R4. apply links_suffix in R4.
    assert (Hinx : In (x, dx) (litems s)) by (eapply nth_error_In; eauto).
    assert (Hsub : incl (skipn (S n) (litems s)) (litems s)).
    { intros z Hz. rewrite <- (firstn_skipn (S n) (litems s)). apply in_or_app. now right. }
    apply h_find_loop_spec.
    + exact R4.
    + assert (In x (ids s)) by (unfold ids; apply in_map_iff; exists (x, dx); auto).
      apply Rg in H. unfold TAIL. lia.
    + apply NT. intros z Hz. apply in_map_iff in Hz. destruct Hz as (it & <- & Hit).
      unfold ids. apply in_map. now apply Hsub.
    + now apply R5.
    + intros id d H. apply R5. now apply Hsub.
    + rewrite skipn_length. lia.
Qed.

(* ---- naming nodes by position (first, then next k times), first / last / emptiness, walks ---- *)

Lemma hl_next_nth : forall hs s i, ll_inv s -> hl_R hs s -> (S i < length (ids s))%nat ->
  hl_next hs (nth i (ids s) 0) = Some (nth (S i) (ids s) 0).
Proof.
  intros hs s i I (_ & _ & _ & R4 & _) Hi. destruct (ll_path_nodup s I) as (_ & _ & Rg).
  unfold hl_next. rewrite (links_nth_next _ _ _ _ _ R4) by lia. rewrite app_nth1 by lia.
  assert (In (nth (S i) (ids s) 0) (ids s)) by (apply nth_In; lia). apply Rg in H.
  destruct (Z.eqb_spec (nth (S i) (ids s) 0) TAIL); [unfold TAIL in *; lia | reflexivity].
Qed.

Theorem hl_at_refines : forall hs s k, ll_inv s -> hl_R hs s -> pos_ok s k = true ->
  hl_at hs k = Some (node_at s k).
Proof.
  intros hs s k I R Hpos. apply pos_ok_nat in Hpos. destruct Hpos as [Hk Hlt].
  unfold hl_at, node_at. destruct (k <? 0) eqn:E; [lia|]. clear E.
  assert (Hfirst : hl_first hs = Some (nth 0 (ids s) 0)).
  { destruct R as (_ & _ & _ & R4 & _). destruct (ll_path_nodup s I) as (_ & _ & Rg).
    unfold hl_first. destruct (ids s) as [|y r] eqn:El; [simpl in Hlt; lia|].
    cbn [app links nth] in *. destruct R4 as (L1 & _). rewrite L1.
    assert (In y (y :: r)) by now left. apply Rg in H.
    destruct (Z.eqb_spec y TAIL); [unfold TAIL in *; lia | reflexivity]. }
  rewrite Hfirst.
  assert (G : forall j i, (i + j < length (ids s))%nat ->
              hl_at_from j hs (Some (nth i (ids s) 0)) = Some (nth (i + j) (ids s) 0)).
  { induction j; intros i Hij; cbn [hl_at_from].
    - now rewrite Nat.add_0_r.
    - rewrite hl_next_nth by (auto; lia). rewrite IHj by lia. f_equal. f_equal. lia. }
  apply (G (Z.to_nat k) O). lia.
Qed.

Theorem hl_walks_refine : forall hs s, ll_inv s -> hl_R hs s ->
  hl_forward hs = litems s /\ hl_backward hs = rev (ids s) /\
  hl_is_empty hs = (match litems s with [] => true | _ => false end) /\
  hl_first hs = match ids s with [] => None | x :: _ => Some x end /\
  hl_last hs = match rev (ids s) with [] => None | x :: _ => Some x end.
Proof.
  intros hs s I R. pose proof (hl_R_wf hs s I R) as W. pose proof R as (R1 & R2 & R3 & R4 & R5).
  destruct (ll_path_nodup s I) as (ND & _ & Rg). pose proof I as (I1 & _).
  assert (Hf : (length (ids s) < S (Z.to_nat (hsize hs)))%nat).
  { rewrite R1, I1. unfold zlen. rewrite ids_length. lia. }
  destruct (wf_chain_walks _ _ _ W Hf) as [Wf Wb].
  unfold hl_forward, hl_backward. rewrite Wf, Wb. split; [|split; [reflexivity|]].
  - unfold ids. rewrite map_map. rewrite <- (map_id (litems s)) at 2. apply map_ext_in.
    intros [id d] Hin. cbn [fst]. f_equal. now apply R5.
  - assert (Hhd : forall y r, ids s = y :: r -> y <> TAIL).
    { intros y r E. assert (In y (ids s)) by (rewrite E; now left). apply Rg in H. unfold TAIL. lia. }
    split; [|split].
    + unfold hl_is_empty. unfold ids in *. destruct (litems s) as [|[y dy] r]; cbn [map app links] in *.
      * destruct R4 as (L1 & _). rewrite L1. apply Z.eqb_refl.
      * destruct R4 as (L1 & _). rewrite L1. specialize (Hhd y (map fst r) eq_refl). cbn [fst]. lia.
    + unfold hl_first. destruct (ids s) as [|y r] eqn:El; cbn [app links] in R4; destruct R4 as (L1 & _); rewrite L1.
      * now rewrite Z.eqb_refl.
      * specialize (Hhd y r eq_refl). destruct (Z.eqb_spec y TAIL); [contradiction | reflexivity].
    + unfold hl_last. destruct (rev (ids s)) as [|y r'] eqn:Er.
      * assert (El : ids s = []) by (rewrite <- (rev_involutive (ids s)), Er; reflexivity).
        rewrite El in R4. cbn [app links] in R4. destruct R4 as (_ & L2 & _). rewrite L2. now rewrite Z.eqb_refl.
      * assert (El : ids s = rev r' ++ [y]) by (rewrite <- (rev_involutive (ids s)), Er; reflexivity).
        rewrite El in R4. rewrite <- app_assoc in R4. cbn [app] in R4. apply links_snoc in R4. destruct R4 as [_ Hb].
        rewrite Hb.
        assert (In y (ids s)) by (rewrite El; apply in_or_app; right; now left). apply Rg in H.
        destruct (Z.eqb_spec y HEAD); [unfold HEAD in *; lia | reflexivity].
Qed.

(* ---- every linked-list operation / history at heap level ---- *)

Theorem hl_pstep_refines : forall hs s o, ll_inv s -> hl_R hs s -> ll_op_ok s o = true ->
  exists hs', hl_pstep hs o = Some (hs', snd (ll_step s o)) /\ hl_R hs' (fst (ll_step s o)).
Proof.
  intros hs s o I R Hok. destruct o as [pos d ok | pos d ok | k cb | cb]; cbn [hl_pstep ll_step].
  - assert (Hpos : match pos with None => True | Some k => pos_ok s k = true end) by (destruct pos; auto).
    assert (Hn : hl_node_of hs pos = Some (match pos with None => None | Some k => Some (node_at s k) end)).
    { destruct pos as [k|]; cbn [hl_node_of]; auto. now rewrite (hl_at_refines hs s k I R Hpos). }
    rewrite Hn. destruct (hl_insert_refines hs s pos d ok I R Hpos) as [E1 E2].
    destruct (hl_insert hs _ d ok) as [hs' r]. destruct (ll_insert s pos d ok) as [s' r'].
    cbn [fst snd] in *. subst r'. eexists. split; [|exact E2]. destruct r; reflexivity.
  - assert (Hpos : match pos with None => True | Some k => pos_ok s k = true end) by (destruct pos; auto).
    assert (Hn : hl_node_of hs pos = Some (match pos with None => None | Some k => Some (node_at s k) end)).
    { destruct pos as [k|]; cbn [hl_node_of]; auto. now rewrite (hl_at_refines hs s k I R Hpos). }
    rewrite Hn. destruct (hl_append_refines hs s pos d ok I R Hpos) as [E1 E2].
    destruct (hl_append hs _ d ok) as [hs' r]. destruct (ll_append s pos d ok) as [s' r'].
    cbn [fst snd] in *. subst r'. eexists. split; [|exact E2]. destruct r; reflexivity.
  - cbn [ll_op_ok] in Hok. rewrite (hl_at_refines hs s k I R Hok).
    destruct (hl_remove_refines hs s k cb I R Hok) as (E1 & E2 & E3).
    destruct (hl_remove hs (node_at s k) cb) as [[hs' nx] f]. destruct (ll_remove s k cb) as [[s' nx'] f'].
    cbn [fst snd] in *. subst f'. eexists. split; [reflexivity | exact E3].
  - destruct (hl_clear_refines hs s cb I R) as (hs' & E & R'). rewrite E.
    destruct (ll_clear s cb) as [s' f]. cbn [fst snd] in *. eexists. split; [reflexivity | exact R'].
Qed.

Theorem hl_prun_refines : forall ops hs s, ll_inv s -> hl_R hs s -> ll_ops_ok s ops ->
  exists hs', hl_prun hs ops = Some (hs', snd (ll_run s ops)) /\ hl_R hs' (fst (ll_run s ops)) /\
              ll_inv (fst (ll_run s ops)).
Proof.
  induction ops as [|o ops IH]; intros hs s I R F.
  - exists hs. cbn. auto.
  - destruct F as [F1 F2]. cbn [hl_prun ll_run].
    destruct (hl_pstep_refines hs s o I R F1) as (hs1 & E1 & R1).
    pose proof (ll_step_refines s o I F1) as [I1 _].
    destruct (ll_step s o) as [s1 r]. cbn [fst snd] in *.
    destruct (IH hs1 s1 I1 R1 F2) as (hs2 & E2 & R2 & I2).
    destruct (ll_run s1 ops) as [s2 rs]. cbn [fst snd] in *.
    exists hs2. rewrite E1, E2. auto.
Qed.

Lemma hl_init_R : forall c ok, match hl_init c ok, ll_init c ok with
  | Some hs, Some s => hl_R hs s
  | None, None => True
  | _, _ => False end.
Proof.
  intros. unfold hl_init, ll_init. destruct (pool_init c ok); auto.
  unfold hl_R, ids. cbn [hh hnextid hpool hsize litems lnext lpool lsize map app links].
  repeat split; auto. intros id d [].
Qed.

(* ====================================================================== *)
(* queue                                                                   *)

Definition q_as_ll (q : queue) : llist :=
  {| litems := qitems q; lnext := qnext q; lpool := qpool q; lsize := qsize q |}.

Definition hq_R (hs : hlist) (q : queue) : Prop := hl_R hs (q_as_ll q).

Lemma qu_inv_ll : forall q, qu_inv q -> ll_inv (q_as_ll q).
Proof. intros q H. exact H. Qed.

Lemma ins_at_len : forall A (l : list A) x, ins_at (length l) x l = l ++ [x].
Proof. intros. unfold ins_at. now rewrite firstn_all, skipn_all. Qed.

Lemma qu_enqueue_as_ll : forall q d ok,
  q_as_ll (fst (qu_enqueue q d ok)) = fst (ll_append (q_as_ll q) None d ok) /\
  snd (qu_enqueue q d ok) = snd (ll_append (q_as_ll q) None d ok).
Proof.
  intros. unfold qu_enqueue, ll_append, q_as_ll. cbn [litems lnext lpool lsize].
  destruct (node_alloc (qpool q) (qsize q) ok); cbn [fst snd qitems qnext qpool qsize]; auto.
  split; auto. f_equal. unfold zlen. rewrite Nat2Z.id. now rewrite ins_at_len.
Qed.

Lemma qu_dequeue_as_ll : forall q id d r cb, qitems q = (id, d) :: r ->
  q_as_ll (fst (qu_dequeue q cb)) = fst (fst (ll_remove (q_as_ll q) 0 cb)) /\
  snd (qu_dequeue q cb) = snd (ll_remove (q_as_ll q) 0 cb).
Proof.
  intros q id d r cb E. unfold qu_dequeue, ll_remove, q_as_ll. cbn [litems lnext lpool lsize]. rewrite E.
  cbn. auto.
Qed.

Theorem hq_step_refines : forall hs q o, qu_inv q -> hq_R hs q ->
  exists hs', hq_step hs o = Some (hs', snd (qu_step q o)) /\ hq_R hs' (fst (qu_step q o)).
Proof.
  intros hs q o I R. pose proof (qu_inv_ll q I) as I'. unfold hq_R in *.
  destruct o as [d ok | cb | cb]; cbn [hq_step qu_step].
  - destruct (qu_enqueue_as_ll q d ok) as [E1 E2].
    destruct (hl_append_refines hs (q_as_ll q) None d ok I' R Logic.I) as [A1 A2].
    change (hq_enqueue hs d ok) with (hl_append hs None d ok).
    destruct (hl_append hs None d ok) as [hs' r]. destruct (qu_enqueue q d ok) as [q' r'].
    cbn [fst snd] in *. rewrite E1. eexists. split; [|exact A2].
    rewrite A1, <- E2. destruct r'; reflexivity.
  - destruct (hl_walks_refine hs _ I' R) as (_ & _ & Hemp & Hfirst & _).
    unfold hq_dequeue. rewrite Hemp. cbn [q_as_ll litems].
    destruct (qitems q) as [|[id d] r] eqn:Eq.
    + unfold qu_dequeue. rewrite Eq. cbn [fst snd]. eexists. split; [reflexivity | exact R].
    + destruct (qu_dequeue_as_ll q id d r cb Eq) as [E1 E2].
      assert (Hpos : pos_ok (q_as_ll q) 0 = true) by (unfold pos_ok, zlen; cbn [q_as_ll litems]; rewrite Eq; reflexivity).
      destruct (hl_remove_refines hs (q_as_ll q) 0 cb I' R Hpos) as (_ & A2 & A3).
      assert (Hnode : hnext (hh hs) HEAD = node_at (q_as_ll q) 0).
      { unfold hl_first, ids in Hfirst. cbn [q_as_ll litems] in Hfirst. rewrite Eq in Hfirst. cbn [map fst] in Hfirst.
        unfold node_at, ids. cbn [q_as_ll litems Z.to_nat]. rewrite Eq. cbn [map fst nth].
        destruct (hnext (hh hs) HEAD =? TAIL); [discriminate | now inversion Hfirst]. }
      rewrite Hnode. unfold hl_remove in A2, A3.
      destruct (h_free_data (hh hs) (node_at (q_as_ll q) 0) cb) as [h1 f]. cbn [fst snd] in *.
      destruct (qu_dequeue q cb) as [q' f']. cbn [fst snd] in *. rewrite E1. subst f'.
      eexists. split; [rewrite A2; reflexivity | exact A3].
  - change (hq_clear hs cb) with (hl_clear hs cb).
    destruct (hl_clear_refines hs (q_as_ll q) cb I' R) as (hs' & E & R'). rewrite E.
    unfold qu_clear, ll_clear in *. cbn [fst snd q_as_ll litems lnext lpool lsize] in *.
    eexists. split; [reflexivity | exact R'].
Qed.

Theorem hq_run_refines : forall ops hs q, qu_inv q -> hq_R hs q ->
  exists hs', hq_run hs ops = Some (hs', snd (qu_run q ops)) /\ hq_R hs' (fst (qu_run q ops)) /\
              qu_inv (fst (qu_run q ops)).
Proof.
  induction ops as [|o ops IH]; intros hs q I R.
  - exists hs. cbn. auto.
  - cbn [hq_run qu_run].
    destruct (hq_step_refines hs q o I R) as (hs1 & E1 & R1).
    pose proof (qu_step_refines q o I) as [I1 _].
    destruct (qu_step q o) as [q1 r]. cbn [fst snd] in *.
    destruct (IH hs1 q1 I1 R1) as (hs2 & E2 & R2 & I2).
    destruct (qu_run q1 ops) as [q2 rs]. cbn [fst snd] in *.
    exists hs2. rewrite E1, E2. auto.
Qed.

Lemma hq_front_refines : forall hs q, qu_inv q -> hq_R hs q -> hq_front hs = qu_front q.
Proof.
  intros hs q I R. pose proof (qu_inv_ll q I) as I'.
  destruct (hl_walks_refine hs _ I' R) as (_ & _ & Hemp & Hfirst & _).
  pose proof R as (_ & _ & _ & _ & R5).
  unfold hq_front, qu_front. rewrite Hemp. cbn [q_as_ll litems] in *.
  destruct (qitems q) as [|[id d] r] eqn:Eq; auto.
  unfold hl_first, ids in Hfirst. cbn [q_as_ll litems] in Hfirst. rewrite ?Eq in Hfirst. cbn [map fst] in Hfirst.
  destruct (hnext (hh hs) HEAD =? TAIL); [discriminate|]. inversion Hfirst as [E]. rewrite E.
  rewrite (R5 id d); auto. cbn [q_as_ll litems]. rewrite ?Eq. now left.
Qed.

Lemma hq_init_R : forall c ok, match hq_init c ok, qu_init c ok with
  | Some hs, Some q => hq_R hs q
  | None, None => True
  | _, _ => False end.
Proof.
  intros. unfold hq_init, hl_init, qu_init. destruct (pool_init c ok); auto.
  unfold hq_R, hl_R, ids. cbn [hh hnextid hpool hsize q_as_ll qitems qnext qpool qsize litems lnext lpool lsize map app links].
  repeat split; auto. intros id d [].
Qed.

(* ====================================================================== *)
(* pointer slot: the head..tail list threaded through slots[] is the live    *)
(* sequence of the functional model                                         *)

Definition hps_R (hs : hpslot) : Prop := links (hlinks hs) HEAD (live (hcore hs) ++ [TAIL]).

Lemma ps_live_path : forall c, ps_inv c ->
  NoDup (HEAD :: live c ++ [TAIL]) /\ (forall x, In x (live c) -> 0 <= x < pcap c).
Proof.
  intros c I. assert (Rg : forall x, In x (live c) -> 0 <= x < pcap c).
  { intros x H. now apply (live_index_range c x I) in H. }
  split; auto. constructor.
  - rewrite in_app_iff. intros [H | [H | []]]; [apply Rg in H; unfold HEAD in *; lia | unfold HEAD, TAIL in *; lia].
  - apply NoDup_snoc; [apply (inv_live_nodup c I)|]. intro H. apply Rg in H. unfold TAIL in *. lia.
Qed.

Lemma remove_z_split : forall A x B, NoDup (A ++ x :: B) -> remove_z x (A ++ x :: B) = A ++ B.
Proof.
  intros A x B ND. unfold remove_z. rewrite filter_app. cbn [filter]. rewrite Z.eqb_refl. cbn [negb].
  apply NoDup_remove_2 in ND. rewrite in_app_iff in ND.
  f_equal; apply (remove_z_notin x); tauto.
Qed.

Theorem hps_insert_refines : forall hs d, ps_inv (hcore hs) -> hps_R hs ->
  match ps_insert (hcore hs) d with
  | None => hps_insert hs d = None
  | Some (c', r) => exists hs', hps_insert hs d = Some (hs', r) /\ hcore hs' = c' /\ hps_R hs'
  end.
Proof.
  intros hs d I R. destruct (ps_live_path _ I) as [ND Rg].
  destruct (ps_insert_spec (hcore hs) d I) as [[Hf E] | (Hlt & c' & sid & E & I' & Rs & Hn & Hl & _)];
    unfold hps_insert; rewrite E.
  - eexists. split; [reflexivity|]. split; [reflexivity | exact R].
  - eexists. split; [reflexivity|]. split; [reflexivity|].
    unfold hps_R. cbn [hcore hlinks]. rewrite Hl. rewrite <- app_assoc. cbn [app].
    set (h := hlinks hs).
    assert (Hpin : In (hprev h TAIL) (HEAD :: live (hcore hs))) by (eapply links_prev_split; exact R).
    assert (Hfresh : ~ In sid (HEAD :: live (hcore hs) ++ [TAIL])).
    { intros [H | H]; [unfold HEAD in *; lia|]. rewrite in_app_iff in H.
      destruct H as [H | [H | []]]; [contradiction | unfold TAIL in *; lia]. }
    apply links_insert_split with (h := h) (p := hprev h TAIL); auto.
    change (ins_spec h (heap_push_back h sid) (hprev h TAIL) TAIL sid).
    apply heap_push_back_spec.
    + intro E'. apply Hfresh. rewrite <- E'. destruct Hpin as [<- | Hpin]; [now left | right; apply in_or_app; now left].
    + unfold TAIL. lia.
Qed.

Theorem hps_remove_refines : forall hs idx, ps_inv (hcore hs) -> hps_R hs -> 0 <= idx ->
  match ps_remove (hcore hs) idx with
  | None => hps_remove hs idx = None
  | Some (c', r) => exists hs', hps_remove hs idx = Some (hs', r) /\ hcore hs' = c' /\ hps_R hs'
  end.
Proof.
  intros hs idx I R Hidx. destruct (ps_live_path _ I) as [ND Rg].
  destruct (ps_remove_spec (hcore hs) idx I Hidx) as [[Rr E] | [(Rr & Hn & E) | (Rr & Hin & c' & E & I' & Hl & _)]];
    unfold hps_remove; rewrite E.
  - eexists. split; [reflexivity|]. split; [reflexivity | exact R].
  - eexists. split; [reflexivity|]. split; [reflexivity | exact R].
  - eexists. split; [reflexivity|]. split; [reflexivity|].
    unfold hps_R. cbn [hcore hlinks]. rewrite Hl.
    destruct (in_split _ _ Hin) as (A & B & EL). unfold hps_R in R. rewrite EL in *.
    apply NoDup_cons_iff in ND as [ND1 ND2].
    assert (NDl : NoDup (A ++ idx :: B)).
    { pose proof (inv_live_nodup _ I) as NL. now rewrite EL in NL. }
    rewrite remove_z_split by exact NDl.
    rewrite <- app_assoc in R. cbn [app] in R.
    set (h := hlinks hs) in *.
    destruct (B ++ [TAIL]) as [|n B'] eqn:EB; [destruct B; discriminate|].
    assert (Hnx : hnext h idx = n) by (apply links_suffix in R; cbn [links] in R; tauto).
    assert (Hpin : In (hprev h idx) (HEAD :: A)) by (eapply links_prev_split; exact R).
    assert (NDp : NoDup (HEAD :: A ++ idx :: n :: B')).
    { constructor.
      - intro H. apply ND1. rewrite <- app_assoc. cbn [app]. rewrite EB. exact H.
      - rewrite <- app_assoc in ND2. cbn [app] in ND2. now rewrite EB in ND2. }
    rewrite <- app_assoc. rewrite EB.
    apply links_remove_split with (h := h) (x := idx) (p := hprev h idx); auto.
    assert (Hp : hprev h idx <> idx).
    { intro E'. apply NoDup_cons_iff in NDp as [N1 N2]. destruct Hpin as [Hh | Ha].
      - apply N1. rewrite Hh, E'. apply in_or_app. right. now left.
      - apply NoDup_remove_2 in N2. apply N2. apply in_or_app. left. now rewrite <- E'. }
    assert (Hn' : n <> idx).
    { intro; subst n. apply NoDup_cons_iff in NDp as [_ N2]. apply NoDup_remove_2 in N2. apply N2.
      apply in_or_app. right. now left. }
    unfold rem_spec. rewrite <- Hnx in *. repeat split; intros; upd_tac.
Qed.

Theorem hps_walks_refine : forall hs, ps_inv (hcore hs) -> hps_R hs ->
  hps_iter hs = ps_iter (hcore hs) /\ hps_backward hs = rev (live (hcore hs)) /\
  wf_chain (hlinks hs) (live (hcore hs)).
Proof.
  intros hs I R. destruct (ps_live_path _ I) as [ND Rg].
  assert (W : wf_chain (hlinks hs) (live (hcore hs))) by (split; auto).
  assert (Hf : (length (live (hcore hs)) < S (Z.to_nat (pcap (hcore hs))))%nat).
  { pose proof (inv_nlive _ I). unfold zlen in *. lia. }
  destruct (wf_chain_walks _ _ _ W Hf) as [Wf Wb].
  unfold hps_iter, hps_backward. rewrite Wf, Wb. auto.
Qed.

Lemma hps_init_R : forall req ok hs a, hps_init req ok = Some hs -> hps_R hs /\ hps_R (hps_preset hs a) /\
  ps_init req ok = Some (hcore hs).
Proof.
  intros req ok hs a H. unfold hps_init in H. destruct (ps_init req ok) as [c|] eqn:E; [|discriminate].
  inversion H; subst. cbn [hcore].
  assert (L : live c = []).
  { unfold ps_init, ps_init_gen in E.
    destruct (true && ((if req >? 0 then req else 1) >? two31)); [discriminate|].
    destruct (negb ok); [discriminate|]. inversion E. reflexivity. }
  unfold hps_R, hps_preset, ps_preset. cbn [hcore hlinks live]. rewrite L. cbn. auto.
Qed.

Theorem hps_step_refines : forall hs o, ps_inv (hcore hs) -> hps_R hs -> op_ok o ->
  exists hs' r, hps_step hs o = Some (hs', r) /\ ps_step (hcore hs) o = Some (hcore hs', r) /\
                ps_inv (hcore hs') /\ hps_R hs'.
Proof.
  intros hs o I R Hok. destruct (ps_step_refines (hcore hs) o I Hok) as (c' & r & E & I' & _).
  destruct o as [d | i | i]; cbn [hps_step ps_step op_ok] in *.
  - pose proof (hps_insert_refines hs d I R) as P.
    destruct (ps_insert (hcore hs) d) as [[c1 [r1 i1]]|]; [|discriminate]. inversion E; subst.
    destruct P as (hs' & E' & Ec & R'). rewrite E'. exists hs', (RIns r1 i1). rewrite Ec. split; [reflexivity|]. split; [reflexivity|]. split; [exact I' | exact R'].
  - pose proof (hps_remove_refines hs i I R (proj1 Hok)) as P.
    destruct (ps_remove (hcore hs) i) as [[c1 r1]|]; [|discriminate]. inversion E; subst.
    destruct P as (hs' & E' & Ec & R'). rewrite E'. exists hs', (RRem r1). rewrite Ec. split; [reflexivity|]. split; [reflexivity|]. split; [exact I' | exact R'].
  - unfold hps_get. destruct (ps_get (hcore hs) i) as [dv|]; [|discriminate]. inversion E; subst.
    exists hs, (RGet dv). split; [reflexivity|]. split; [reflexivity|]. split; [exact I | exact R].
Qed.

Theorem hps_run_refines : forall ops hs, ps_inv (hcore hs) -> hps_R hs -> Forall op_ok ops ->
  exists hs' rs, hps_run hs ops = Some (hs', rs) /\ ps_run (hcore hs) ops = Some (hcore hs', rs) /\
                 ps_inv (hcore hs') /\ hps_R hs' /\
                 hps_iter hs' = ps_iter (hcore hs') /\ hps_backward hs' = rev (live (hcore hs')).
Proof.
  induction ops as [|o ops IH]; intros hs I R F.
  - exists hs, []. destruct (hps_walks_refine hs I R) as (W1 & W2 & _). cbn [hps_run ps_run].
    split; [reflexivity|]. split; [reflexivity|]. split; [exact I|]. split; [exact R|]. split; [exact W1 | exact W2].
  - inversion F; subst. destruct (hps_step_refines hs o I R H1) as (hs1 & r & E1 & E1' & I1 & R1).
    destruct (IH hs1 I1 R1 H2) as (hs2 & rs & E2 & E2' & I2 & R2 & W).
    exists hs2, (r :: rs). cbn [hps_run ps_run]. rewrite E1, E1', E2, E2'.
    split; [reflexivity|]. split; [reflexivity|]. split; [exact I2|]. split; [exact R2 | exact W].
Qed.

(* heap-level pointer slot from init (+ cursor preset), any requested capacity *)
Theorem hps_reachable : forall req a hs0 ops, 0 <= req < two32 -> hps_init req true = Some hs0 ->
  Forall op_ok ops ->
  exists hs' rs, hps_run (hps_preset hs0 a) ops = Some (hs', rs) /\
                 ps_run (ps_preset (hcore hs0) a) ops = Some (hcore hs', rs) /\
                 wf_chain (hlinks hs') (live (hcore hs')) /\
                 hps_iter hs' = ps_iter (hcore hs') /\ hps_backward hs' = rev (map fst (hps_iter hs')).
Proof.
  intros req a hs0 ops Hr H F. destruct (hps_init_R req true hs0 a H) as (_ & R & E).
  destruct (ps_init_inv req (hcore hs0) a Hr E) as [_ I].
  destruct (hps_run_refines ops (hps_preset hs0 a) I R F) as (hs' & rs & E1 & E2 & I' & R' & W1 & W2).
  exists hs', rs. split; auto. split; auto.
  destruct (hps_walks_refine hs' I' R') as (_ & _ & W). split; auto. split; auto.
  rewrite W1, ps_iter_keys. exact W2.
Qed.

(* non-vacuity *)
Example hl_example :
  exists hs, hl_init 1 true = Some hs /\
    let ops := [LIns None 11 true; LApp None 12 true; LIns (Some 1) 13 true; LApp (Some 0) 14 false; LRem 0 true; LApp None 0 true; LRem 3 false] in
    exists hs' rs, hl_prun hs ops = Some (hs', rs) /\ hl_forward hs' = [(4, 14); (3, 13); (2, 12)] /\
                   hl_backward hs' = [2; 3; 4].
Proof. eexists. split; [reflexivity|]. cbv zeta. do 2 eexists. split; [vm_compute; reflexivity|]. vm_compute. auto. Qed.

Example hps_example :
  exists hs0 hs' rs, hps_init 5 true = Some hs0 /\
    hps_run (hps_preset hs0 4294967294) [PIns 11; PIns 12; PIns 13; PRem 7; PRem 7; PIns 14] = Some (hs', rs) /\
    hps_iter hs' = [(6, 11); (0, 13); (1, 14)] /\ hps_backward hs' = [1; 0; 6].
Proof. do 3 eexists. split; [reflexivity|]. split; [vm_compute; reflexivity|]. vm_compute. auto. Qed.
