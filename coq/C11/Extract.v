From MV Require Import Lib.ExtractBase C11.Model C11.ModelHeap.
From Coq Require Import ExtrOcamlBasic.
Extraction Language OCaml.
Extraction "c11_model" force_types
  al_init al_ensure al_insert al_append al_remove al_clear al_index al_find al_contents al_run
  st_init st_ensure st_push st_top st_pop st_clear st_contents st_run
  ll_init ll_insert ll_append ll_remove ll_clear ll_find pos_ok ll_step
  qu_init qu_enqueue qu_dequeue qu_front qu_clear qu_step
  ps_init ps_init_unrepaired ps_preset ps_insert ps_remove ps_get ps_iter ps_run
  hl_init hl_at hl_insert hl_append hl_remove hl_clear hl_find hl_forward hl_backward hl_first hl_last hl_is_empty hl_prun
  hq_init hq_enqueue hq_dequeue hq_front hq_clear hq_run
  hps_init hps_preset hps_insert hps_remove hps_get hps_iter hps_backward hps_run.
