(* C11 — proofs (being extended) *)
From MV Require Import C11.Model.
Local Open Scope Z_scope.

(* The code before the repair touches memory outside pp_slots[] for a
   requested capacity that is not a power of two (3 -> ring modulus 4). *)
Lemma ps_unrepaired_oob_witness :
  exists s, ps_init_unrepaired 3 true = Some s /\
            ps_run s [PIns 1; PIns 2; PIns 3; PIns 4] = None.
Proof. eexists; split; [reflexivity|]. vm_compute. reflexivity. Qed.
