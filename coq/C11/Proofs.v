(* C11 — assembly of the statements exported to Properties_C11.v, with the
   non-vacuity examples.  The proofs proper are in ProofsLib (arrays),
   ProofsAL (array list), ProofsSeq (stack, linked list, queue), ProofsPS
   (pointer slot), ProofsHeap (heap-level prev/next models of the linked
   structures refine the functional ones), ProofsGen (leaf translator tie), ProofsGenHeap / ProofsGenArr (slicer tie: pointer splicing, cursors, index
   ranges, growth). *)
From MV Require Export C11.Model C11.ModelHeap C11.ProofsLib C11.ProofsAL C11.ProofsSeq C11.ProofsPS C11.ProofsHeap C11.ProofsGen
                       C11.GenLib C11.ProofsGenHeap C11.ProofsGenArr.
Local Open Scope Z_scope.

(* ---------------------------------------------------------------------- *)
(* array list / stack / list / queue: histories from init                   *)

Lemma al_history_refines : forall c ok s ops, 0 <= c < two64 -> al_init c ok = Some s -> Forall al_op_ok ops ->
  (al_contents (fst (al_run s ops)), snd (al_run s ops)) = ProofsAL.ref_run [] ops (fail_flags s ops) /\
  asize (fst (al_run s ops)) = zlen (al_contents (fst (al_run s ops))).
Proof.
  intros c ok s ops Hc H F. destruct (al_init_inv c ok s Hc H) as [I E].
  destruct (al_run_refines ops s I F) as [I' R]. rewrite E in R. split; auto.
  symmetry. now apply al_contents_zlen.
Qed.

Lemma st_history_refines : forall c ok s ops, 0 <= c < two64 -> st_init c ok = Some s -> Forall st_op_ok ops ->
  (st_contents (fst (st_run s ops)), snd (st_run s ops)) = ref_st_run [] ops (st_fail_flags s ops).
Proof.
  intros c ok s ops Hc H F. destruct (st_init_inv c ok s Hc H) as [I E].
  destruct (st_run_refines ops s I F) as [_ R]. now rewrite E in R.
Qed.

Lemma ll_history_refines : forall c ok s ops, ll_init c ok = Some s -> ll_ops_ok s ops ->
  (ll_data (fst (ll_run s ops)), snd (ll_run s ops)) = ref_ll_run [] ops (ll_fail_flags s ops) /\
  NoDup (map fst (litems (fst (ll_run s ops)))) /\
  lsize (fst (ll_run s ops)) = zlen (ll_data (fst (ll_run s ops))).
Proof.
  intros c ok s ops H F. destruct (ll_init_inv c ok s H) as [I E].
  destruct (ll_run_refines ops s I F) as [I' R]. rewrite E in R. split; auto.
  destruct I' as (H1 & H2 & _). split; auto. rewrite H1. unfold ll_data, zlen. now rewrite map_length.
Qed.

Lemma qu_history_refines : forall c ok s ops, qu_init c ok = Some s ->
  (qu_data (fst (qu_run s ops)), snd (qu_run s ops)) = ref_qu_run [] ops (qu_fail_flags s ops) /\
  NoDup (map fst (qitems (fst (qu_run s ops)))) /\
  qsize (fst (qu_run s ops)) = zlen (qu_data (fst (qu_run s ops))).
Proof.
  intros c ok s ops H. destruct (qu_init_inv c ok s H) as [I E].
  destruct (qu_run_refines ops s I) as [I' R]. rewrite E in R. split; auto.
  destruct I' as (H1 & H2 & _). split; auto. rewrite H1. unfold qu_data, zlen. now rewrite map_length.
Qed.

(* ---------------------------------------------------------------------- *)
(* pointer slot                                                            *)

(* ring statement of DESIGN.md A.3 in every reachable state, for every
   requested capacity and every cursor preset (so also across the 2^32 wrap) *)
Lemma ps_inv_reachable_lem : forall req a s0 ops, 0 <= req < two32 -> ps_init req true = Some s0 ->
  Forall op_ok ops ->
  exists s' rs, ps_run (ps_preset s0 a) ops = Some (s', rs) /\
    NoDup (seg s') /\ (forall sid, In sid (seg s') <-> slot_used (slots s') sid false) /\
    zlen (seg s') + zlen (live s') = pcap s' /\
    free_index s' = u32 (alloc_index s' - zlen (live s')) /\
    free_index s' mod pcap s' = (alloc_index s' + zlen (seg s')) mod pcap s' /\
    NoDup (live s') /\ (forall sid, In sid (live s') <-> slot_used (slots s') sid true) /\
    zlen (slots s') = pcap s' /\ zlen (pp s') = pcap s'.
Proof.
  intros req a s0 ops Hr H F. destruct (ps_reachable req a s0 ops Hr H F) as (s' & rs & E & I & _).
  exists s', rs. split; auto. now apply ps_inv_ring.
Qed.

Lemma ps_iter_insertion_order_lem : forall req a s0 ops, 0 <= req < two32 -> ps_init req true = Some s0 ->
  Forall op_ok ops ->
  exists s' rs, ps_run (ps_preset s0 a) ops = Some (s', rs) /\
    ps_iter s' = ProofsPS.ref_run [] ops rs /\ spec_run_ok (pcap s0) [] ops rs.
Proof.
  intros req a s0 ops Hr H F. destruct (ps_reachable req a s0 ops Hr H F) as (s' & rs & E & I & R & S).
  exists s', rs. auto.
Qed.

Lemma ps_all_capacities_lem : forall req a s0 ops, 0 <= req < two32 -> ps_init req true = Some s0 ->
  Forall op_ok ops ->
  ps_run (ps_preset s0 a) ops <> None /\ ps_run s0 ops <> None /\
  zlen (slots s0) = pcap s0 /\ zlen (pp s0) = pcap s0 /\ req <= pcap s0 /\ 1 <= pcap s0.
Proof.
  intros req a s0 ops Hr H F.
  destruct (ps_reachable req a s0 ops Hr H F) as (s' & rs & E & _).
  destruct (ps_init_inv req s0 a Hr H) as [I0 _].
  destruct (ps_run_refines ops s0 I0 F) as (s1 & rs1 & E1 & _).
  destruct (ps_init_shape req s0 Hr H) as (Hc & Hle & _).
  split; [congruence|]. split; [congruence|].
  split; [apply (inv_len_slots _ I0)|]. split; [apply (inv_len_pp _ I0)|].
  pose proof (pow2_cap_pos _ Hc). destruct (req >? 0) eqn:G; lia.
Qed.

Lemma ps_reachable_inv : forall req a s0 ops s' rs, 0 <= req < two32 -> ps_init req true = Some s0 ->
  Forall op_ok ops -> ps_run (ps_preset s0 a) ops = Some (s', rs) -> ps_inv s'.
Proof.
  intros req a s0 ops s' rs Hr H F E. destruct (ps_reachable req a s0 ops Hr H F) as (s1 & rs1 & E1 & I & _).
  rewrite E in E1. inversion E1; subst. exact I.
Qed.

(* The code before the repair touches memory outside pp_slots[] for a
   requested capacity that is not a power of two (3 -> ring modulus 4). *)
Lemma ps_unrepaired_oob_witness :
  exists s, ps_init_unrepaired 3 true = Some s /\
            ps_run s [PIns 1; PIns 2; PIns 3; PIns 4] = None /\
            ps_run s [PGet 3] = None.
Proof. eexists; split; [reflexivity|]. vm_compute. auto. Qed.

(* The code before fixes/C11-pointer-slot-capacity-overflow.patch accepts a request above 2^31
   (2^31 + 1 -> 2^32 truncated to capacity 0, empty arrays) and the first insert touches
   memory outside pp_slots[]. *)
Lemma ps_unchecked_overflow_witness :
  exists s, ps_init_unchecked 2147483649 true = Some s /\ pcap s = 0 /\ ps_run s [PIns 1] = None.
Proof. eexists; split; [reflexivity|]. vm_compute. auto. Qed.

(* every requested capacity of type unsigned int: init succeeds (given memory) exactly up to 2^31 *)
Lemma ps_init_every_request : forall req, 0 <= req < two32 ->
  (req <= two31 -> exists s, ps_init req true = Some s /\ ps_inv s /\ req <= pcap s /\ 1 <= pcap s) /\
  (two31 < req -> forall ok, ps_init req ok = None).
Proof.
  intros req Hr. split.
  - intros Hle. destruct (ps_init_accepts req Hle) as [s E]. exists s. split; [exact E|].
    destruct (ps_init_inv req s 0 Hr E) as [I _]. destruct (ps_init_shape req s Hr E) as (Hc & Hq & _).
    pose proof (pow2_cap_pos _ Hc). split; [exact I|]. destruct (req >? 0) eqn:Eq; lia.
  - intros Hgt ok. now apply ps_init_refuses.
Qed.

(* non-vacuity: requested 5 (rounded 8), cursors preset to 2^32-2; 9 inserts
   wrap alloc_index to 7; refusal when full, double removal, range error *)
Example ps_example :
  exists s0 s' rs, ps_init 5 true = Some s0 /\
    ps_run (ps_preset s0 4294967294)
      [PIns 11; PIns 12; PIns 13; PRem 7; PRem 7; PGet 6; PIns 14; PIns 15; PIns 16; PIns 17; PIns 18; PIns 19;
       PIns 20; PRem 9; PGet 0] = Some (s', rs) /\
    ps_iter s' = [(6, 11); (0, 13); (1, 14); (2, 15); (3, 16); (4, 17); (5, 18); (7, 19)] /\
    rs = [RIns POk 6; RIns POk 7; RIns POk 0; RRem POk; RRem PDup; RGet 11; RIns POk 1; RIns POk 2; RIns POk 3;
          RIns POk 4; RIns POk 5; RIns POk 7; RIns PFull (-1); RRem PRange; RGet 13] /\
    alloc_index s' = 7 /\ free_index s' = 4294967295.
Proof. do 3 eexists. split; [reflexivity|]. vm_compute. repeat split. Qed.

(* ---------------------------------------------------------------------- *)
(* heap level (explicit prev/next maps, pointer assignments as in the C text) *)

Lemma hl_history : forall c ok hs ops, hl_init c ok = Some hs ->
  exists s, ll_init c ok = Some s /\
    (ll_ops_ok s ops ->
     exists hs', hl_prun hs ops = Some (hs', snd (ll_run s ops)) /\
       hl_forward hs' = litems (fst (ll_run s ops)) /\
       hl_backward hs' = rev (map fst (hl_forward hs')) /\
       wf_chain (hh hs') (map fst (hl_forward hs')) /\
       (map snd (hl_forward hs'), snd (ll_run s ops)) = ref_ll_run [] ops (ll_fail_flags s ops)).
Proof.
  intros c ok hs ops H. pose proof (hl_init_R c ok) as R. rewrite H in R.
  destruct (ll_init c ok) as [s|] eqn:E; [|contradiction]. exists s. split; auto. intros F.
  destruct (ll_init_inv c ok s E) as [I _].
  destruct (hl_prun_refines ops hs s I R F) as (hs' & E' & R' & I').
  destruct (hl_walks_refine hs' _ I' R') as (W1 & W2 & _).
  exists hs'. split; auto. split; auto. rewrite W1. fold (ids (fst (ll_run s ops))).
  split; auto. split; [now apply hl_R_wf|].
  destruct (ll_history_refines c ok s ops E F) as (Hr & _). exact Hr.
Qed.

Lemma hq_history : forall c ok hs ops, hq_init c ok = Some hs ->
  exists q, qu_init c ok = Some q /\
    exists hs', hq_run hs ops = Some (hs', snd (qu_run q ops)) /\
      hl_forward hs' = qitems (fst (qu_run q ops)) /\
      hl_backward hs' = rev (map fst (hl_forward hs')) /\
      wf_chain (hh hs') (map fst (hl_forward hs')) /\
      hq_front hs' = qu_front (fst (qu_run q ops)) /\
      (map snd (hl_forward hs'), snd (qu_run q ops)) = ref_qu_run [] ops (qu_fail_flags q ops).
Proof.
  intros c ok hs ops H. pose proof (hq_init_R c ok) as R. rewrite H in R.
  destruct (qu_init c ok) as [q|] eqn:E; [|contradiction]. exists q. split; auto.
  destruct (qu_init_inv c ok q E) as [I _].
  destruct (hq_run_refines ops hs q I R) as (hs' & E' & R' & I').
  pose proof (qu_inv_ll _ I') as I''.
  destruct (hl_walks_refine hs' _ I'' R') as (W1 & W2 & _).
  exists hs'. split; auto. split; [exact W1|]. rewrite W1.
  split; [exact W2|]. split; [exact (hl_R_wf hs' _ I'' R')|]. split; [now apply hq_front_refines|].
  destruct (qu_history_refines c ok q ops E) as (Hr & _). exact Hr.
Qed.

(* ---------------------------------------------------------------------- *)
(* slicer tie, pointer slot (ProofsGenHeap.gen_ps_insert_matches_model / gen_ps_remove_matches_model): the
   hypothesis ps_inv is met by a non-trivial state *)

(* a pointer slot asked for 3 entries (capacity 4), cursors started at UINT_MAX, one entry live *)
Definition ex_ps0 : pslot :=
  match ps_init 3 true with
  | Some c => c
  | None => {| slots := []; pp := []; pcap := 0; alloc_index := 0; free_index := 0; live := [] |}
  end.
Definition ex_ps1 : pslot :=
  match ps_run (ps_preset ex_ps0 4294967295) [PIns 5] with Some (c, _) => c | None => ex_ps0 end.

Example gen_ps_hyps_sat : ps_inv (hcore {| hcore := ex_ps1; hlinks := heap_init |}) /\
  pcap ex_ps1 = 4 /\ live ex_ps1 = [3] /\ alloc_index ex_ps1 = 0 /\ free_index ex_ps1 = 4294967295.
Proof.
  split; [|vm_compute; auto]. cbn [hcore].
  eapply (ps_reachable_inv 3 4294967295 ex_ps0 [PIns 5] ex_ps1).
  - unfold two32. lia.
  - reflexivity.
  - repeat constructor.
  - vm_compute. reflexivity.
Qed.
