(* C11 — stack, linked list, queue *)
From MV Require Import C11.Model C11.ProofsLib C11.ProofsAL.
From Coq Require Import ZifyBool.
Local Open Scope Z_scope.

(* ====================================================================== *)
(* stack: same storage discipline as the array list                         *)

Definition st_as_al (s : stack) : alist := {| nodes := snodes s; asize := stop s; acap := scap s |}.

Definition st_inv (s : stack) : Prop := al_inv (st_as_al s).

Lemma st_ensure_as_al : forall s c ok,
  al_ensure (st_as_al s) c ok = (st_as_al (fst (st_ensure s c ok)), snd (st_ensure s c ok)).
Proof.
  intros. unfold al_ensure, st_ensure, st_as_al. cbn [nodes asize acap].
  destruct (scap s >=? c); [reflexivity|].
  destruct (negb (cap_is_valid c)); [reflexivity|].
  destruct (negb ok); reflexivity.
Qed.

(* reference stack: a sequence whose last element is the top *)
Definition ref_st_step (l : list Z) (o : st_op) : list Z * (bool * list Z) :=
  match o with
  | SPush d _ => (l ++ [d], (true, []))
  | SPop cb => (firstn (length l - 1) l, (true, if cb then filter nonnull (skipn (length l - 1) l) else []))
  | SClear cb => ([], (true, if cb then filter nonnull l else []))
  | SEns _ _ => (l, (true, []))
  end.

Definition st_alloc_fails (s : stack) (o : st_op) : bool :=
  match o with
  | SPush _ ok => (stop s =? scap s) && (negb ok || (scap s * 2 >=? two31))
  | SEns c ok => (scap s <? c) && (negb ok || (c >=? two31))
  | _ => false
  end.

Definition st_op_ok (o : st_op) : Prop := match o with SEns c _ => 0 <= c < two64 | _ => True end.

Definition st_step_ok (s : stack) (o : st_op) (s' : stack) (r : bool * list Z) : Prop :=
  st_inv s' /\
  if st_alloc_fails s o
  then st_contents s' = st_contents s /\ stop s' = stop s /\ scap s' = scap s /\ r = (false, [])
  else (st_contents s', r) = ref_st_step (st_contents s) o.

Lemma st_contents_al : forall s, st_contents s = al_contents (st_as_al s).
Proof. reflexivity. Qed.

Lemma ins_at_end : forall (l : list Z) x, ins_at (length l) x l = l ++ [x].
Proof. intros. unfold ins_at. now rewrite firstn_all, skipn_all. Qed.

Lemma st_ensure_spec : forall s c ok, st_inv s -> 0 <= c < two64 ->
  st_inv (fst (st_ensure s c ok)) /\ st_contents (fst (st_ensure s c ok)) = st_contents s /\
  stop (fst (st_ensure s c ok)) = stop s /\
  (if (scap s <? c) && (negb ok || (c >=? two31))
   then snd (st_ensure s c ok) = false /\ fst (st_ensure s c ok) = s
   else snd (st_ensure s c ok) = true /\ c <= scap (fst (st_ensure s c ok))).
Proof.
  intros s c ok I Hc. pose proof (al_ensure_spec (st_as_al s) c ok I Hc) as P.
  rewrite st_ensure_as_al in P. destruct P as (I' & C' & S' & R).
  split; [exact I'|]. split; [exact C'|]. split; [exact S'|].
  cbn [acap st_as_al] in R. destruct ((scap s <? c) && (negb ok || (c >=? two31))) eqn:E.
  - destruct R as [Rb Rs]. split; auto.
    unfold st_ensure in *. destruct (scap s >=? c); auto.
    destruct (negb (cap_is_valid c)); auto. destruct (negb ok); auto. cbn in Rb. discriminate.
  - destruct R as (Rb & R1 & _). auto.
Qed.

Theorem st_step_refines : forall s o, st_inv s -> st_op_ok o ->
  st_step_ok s o (fst (st_step s o)) (snd (st_step s o)).
Proof.
  intros s o I Hok. assert (I2 := I). destruct I2 as (H1 & H2 & H3). cbn [st_as_al acap asize nodes] in *.
  assert (L : zlen (st_contents s) = stop s) by (apply (al_contents_zlen (st_as_al s) I)).
  destruct o as [d ok | cb | cb | c ok]; unfold st_step_ok, st_step; cbn [st_alloc_fails ref_st_step].
  - (* push *)
    unfold st_push.
    destruct (stop s =? scap s) eqn:E; cbn [andb].
    + pose proof (st_ensure_spec s (scap s * 2) ok I) as P.
      destruct (st_ensure s (scap s * 2) ok) as [s1 b]. cbn [fst snd] in P.
      destruct P as (I1 & C1 & S1 & R); [unfold two31, two64 in *; lia|].
      replace (scap s <? scap s * 2) with true in R by lia. cbn [andb] in R.
      destruct (negb ok || (scap s * 2 >=? two31)).
      * destruct R as (-> & ->). cbn. auto.
      * destruct R as (-> & R1). cbn [negb fst snd].
        assert (I3 := I1). destruct I3 as (G1 & G2 & G3). cbn [st_as_al acap asize nodes] in *.
        split.
        -- unfold st_inv, al_inv. cbn [st_as_al acap asize nodes snodes stop scap]. rewrite zset_zlen. lia.
        -- rewrite <- C1. unfold st_contents at 1 2. cbn [snodes stop].
           pose proof (contents_insert_at (snodes s1) (stop s1) (stop s1) d) as K.
           replace (stop s1 - stop s1) with 0 in K by lia. cbn [Z.to_nat shift_up] in K.
           rewrite K by lia. f_equal.
           assert (L1 : length (firstn (Z.to_nat (stop s1)) (snodes s1)) = Z.to_nat (stop s1)).
           { apply firstn_length_le. unfold zlen in G3. lia. }
           rewrite <- L1 at 1. apply ins_at_end.
    + cbn [negb fst snd]. split.
      * unfold st_inv, al_inv. cbn [st_as_al acap asize nodes snodes stop scap]. rewrite zset_zlen. lia.
      * unfold st_contents at 1 2. cbn [snodes stop].
        pose proof (contents_insert_at (snodes s) (stop s) (stop s) d) as K.
        replace (stop s - stop s) with 0 in K by lia. cbn [Z.to_nat shift_up] in K.
        rewrite K by lia. f_equal.
        assert (L1 : length (firstn (Z.to_nat (stop s)) (snodes s)) = Z.to_nat (stop s)).
        { apply firstn_length_le. unfold zlen in H3. lia. }
        rewrite <- L1 at 1. apply ins_at_end.
  - (* pop *)
    unfold st_pop. assert (LL : length (st_contents s) = Z.to_nat (stop s)) by (unfold zlen in L; lia).
    destruct (stop s =? 0) eqn:E; cbn [fst snd].
    + split; auto. rewrite LL. replace (Z.to_nat (stop s) - 1)%nat with O by lia.
      assert (st_contents s = []) by (destruct (st_contents s); [auto | simpl in LL; lia]).
      rewrite H. destruct cb; reflexivity.
    + split.
      * unfold st_inv, al_inv. cbn [st_as_al acap asize nodes snodes stop scap]. lia.
      * rewrite LL. unfold st_contents. cbn [snodes stop].
        rewrite firstn_firstn. replace (Init.Nat.min (Z.to_nat (stop s) - 1) (Z.to_nat (stop s))) with (Z.to_nat (stop s - 1)) by lia.
        f_equal. f_equal. destruct cb; [|reflexivity].
        rewrite skipn_firstn_comm.
        replace (Z.to_nat (stop s) - (Z.to_nat (stop s) - 1))%nat with 1%nat by lia.
        rewrite znth_nat by lia.
        replace (Z.to_nat (stop s) - 1)%nat with (Z.to_nat (stop s - 1)) by lia.
        assert (Hlen : (Z.to_nat (stop s - 1) < length (snodes s))%nat) by (unfold zlen in H3; lia).
        clear - Hlen. revert Hlen. generalize (Z.to_nat (stop s - 1)). generalize (snodes s).
        induction l; intros n Hn; simpl in *; [lia|]. destruct n; simpl.
        -- unfold nonnull. destruct (a =? 0); reflexivity.
        -- apply IHl. lia.
  - (* clear *)
    cbn [st_clear fst snd]. unfold st_clear. cbn [fst snd]. split.
    + unfold st_inv, al_inv. cbn [st_as_al acap asize nodes snodes stop scap]. lia.
    + reflexivity.
  - (* ensure *)
    cbn [st_op_ok] in Hok. pose proof (st_ensure_spec s c ok I Hok) as P.
    destruct (st_ensure s c ok) as [s' b]. cbn [fst snd] in *.
    destruct P as (I' & C' & S' & R). split; auto.
    destruct ((scap s <? c) && (negb ok || (c >=? two31))).
    + destruct R as (-> & ->). auto.
    + destruct R as (-> & _). now rewrite C'.
Qed.

Lemma st_top_refines : forall s, st_inv s ->
  st_top s = if stop s =? 0 then None else Some (znth (st_contents s) (stop s - 1)).
Proof.
  intros s (H1 & H2 & H3). cbn [st_as_al acap asize nodes] in *. unfold st_top.
  destruct (stop s =? 0) eqn:E; auto. unfold st_contents. now rewrite znth_firstn by lia.
Qed.

Fixpoint ref_st_run (l : list Z) (ops : list st_op) (fails : list bool) : list Z * list (bool * list Z) :=
  match ops, fails with
  | o :: ops', f :: fails' =>
    let (l1, r) := if f then (l, (false, [])) else ref_st_step l o in
    let (l2, rs) := ref_st_run l1 ops' fails' in (l2, r :: rs)
  | _, _ => (l, [])
  end.

Fixpoint st_fail_flags (s : stack) (ops : list st_op) : list bool :=
  match ops with
  | [] => []
  | o :: ops' => st_alloc_fails s o :: st_fail_flags (fst (st_step s o)) ops'
  end.

Theorem st_run_refines : forall ops s, st_inv s -> Forall st_op_ok ops ->
  st_inv (fst (st_run s ops)) /\
  (st_contents (fst (st_run s ops)), snd (st_run s ops)) = ref_st_run (st_contents s) ops (st_fail_flags s ops).
Proof.
  induction ops as [|o ops IH]; intros s I F.
  - cbn. auto.
  - inversion F; subst. cbn [st_run st_fail_flags ref_st_run].
    pose proof (st_step_refines s o I H1) as [I1 R]. destruct (st_step s o) as [s1 r]. cbn [fst snd] in *.
    specialize (IH s1 I1 H2). destruct (st_run s1 ops) as [s2 rs]. cbn [fst snd] in *.
    destruct IH as [I2 E]. split; auto.
    destruct (st_alloc_fails s o).
    + destruct R as (C & _ & _ & ->). rewrite <- C. rewrite <- E. reflexivity.
    + rewrite <- R. rewrite <- E. reflexivity.
Qed.

Lemma st_init_inv : forall c ok s, 0 <= c < two64 -> st_init c ok = Some s -> st_inv s /\ st_contents s = [].
Proof.
  intros c ok s Hc H. unfold st_init in H. set (c' := if c =? 0 then 8 else c) in *.
  assert (0 < c' < two64) by (unfold c'; destruct (c =? 0) eqn:E; unfold two64 in *; lia).
  unfold cap_is_valid in H. rewrite u64_small in H by lia.
  destruct (c' >=? two31) eqn:E; cbn [negb] in H; [discriminate|].
  destruct ok; cbn [negb] in H; [|discriminate]. inversion H; subst.
  split; [|reflexivity]. unfold st_inv, al_inv. cbn [st_as_al asize acap nodes snodes stop scap]. rewrite zlen_repeat. lia.
Qed.

Example st_example :
  exists s, st_init 1 true = Some s /\
    let ops := [SPush 11 true; SPush 12 true; SPush 13 false; SPush 14 true; SPop true; SPush 0 true; SPop true; SPop false] in
    st_contents (fst (st_run s ops)) = [11] /\
    snd (st_run s ops) = [(true, []); (true, []); (false, []); (true, []); (true, [14]); (true, []); (true, []); (true, [])].
Proof. eexists. split; [reflexivity|]. vm_compute. repeat split. Qed.

(* ====================================================================== *)
(* linked list: the model keeps (node id, data) in list order; it refines   *)
(* the reference sequence of data, and node ids stay unique                 *)

Section ListFacts.
Context {A B : Type}.

Lemma map_ins_at : forall (f : A -> B) p x l, map f (ins_at p x l) = ins_at p (f x) (map f l).
Proof. intros. unfold ins_at. rewrite map_app. simpl. now rewrite firstn_map, skipn_map. Qed.

Lemma map_del_at : forall (f : A -> B) p l, map f (del_at p l) = del_at p (map f l).
Proof. intros. unfold del_at. rewrite map_app. now rewrite firstn_map, skipn_map. Qed.

Lemma length_ins_at : forall p (x : A) l, length (ins_at p x l) = S (length l).
Proof.
  intros. unfold ins_at. rewrite app_length. simpl.
  assert (length l = length (firstn p l) + length (skipn p l))%nat by (rewrite <- app_length; now rewrite firstn_skipn).
  lia.
Qed.

Lemma length_del_at : forall p (l : list A), (p < length l)%nat -> length (del_at p l) = (length l - 1)%nat.
Proof. intros. unfold del_at. rewrite app_length, firstn_length_le, skipn_length by lia. lia. Qed.

Lemma in_ins_at : forall p (x y : A) l, In y (ins_at p x l) <-> y = x \/ In y l.
Proof.
  intros. unfold ins_at. rewrite in_app_iff. simpl.
  assert (E := in_app_iff (firstn p l) (skipn p l) y). rewrite firstn_skipn in E. rewrite E.
  split; intros; intuition auto.
Qed.

Lemma NoDup_ins_at : forall p (x : A) l, NoDup l -> ~ In x l -> NoDup (ins_at p x l).
Proof.
  intros. unfold ins_at. apply (NoDup_Add (Add_app x (firstn p l) (skipn p l))).
  now rewrite firstn_skipn.
Qed.

Lemma del_at_cons : forall p (a : A) l, del_at (S p) (a :: l) = a :: del_at p l.
Proof. reflexivity. Qed.

Lemma in_del_at : forall p (y : A) l, In y (del_at p l) -> In y l.
Proof.
  induction p; intros y l H; destruct l; auto.
  - unfold del_at in H. simpl in H. now right.
  - rewrite del_at_cons in H. destruct H; [now left | right; auto].
Qed.

Lemma NoDup_del_at : forall p (l : list A), NoDup l -> NoDup (del_at p l).
Proof.
  induction p; intros l H; destruct l; auto.
  - unfold del_at. simpl. now inversion H.
  - rewrite del_at_cons. inversion H; subst. constructor; auto. intro. apply H2. eapply in_del_at; eauto.
Qed.
End ListFacts.

Definition pool_ok (p : option Z) (used : Z) : Prop :=
  match p with None => True | Some cap => 1 <= cap /\ used <= cap end.

Lemma node_alloc_ok : forall p used ok p', pool_ok p used -> node_alloc p used ok = Some p' -> pool_ok p' (used + 1).
Proof.
  unfold node_alloc, pool_ok; intros p used ok p' H E. destruct p as [cap|].
  - destruct (used =? cap) eqn:U.
    + destruct ok; [|discriminate]. inversion E; subst. unfold pool_max_delta. lia.
    + inversion E; subst. lia.
  - destruct ok; [|discriminate]. inversion E. exact I.
Qed.

Definition ll_inv (s : llist) : Prop :=
  lsize s = zlen (litems s) /\ NoDup (map fst (litems s)) /\
  (forall id, In id (map fst (litems s)) -> 0 < id < lnext s) /\ 0 < lnext s /\ pool_ok (lpool s) (lsize s).

Definition ll_data (s : llist) : list Z := map snd (litems s).

Definition ref_ll_step (l : list Z) (o : ll_op) : list Z * (bool * list Z) :=
  match o with
  | LIns pos d _ => (ins_at (Z.to_nat (match pos with None => 0 | Some k => k end)) d l, (true, []))
  | LApp pos d _ => (ins_at (Z.to_nat (match pos with None => zlen l | Some k => k + 1 end)) d l, (true, []))
  | LRem k cb => (del_at (Z.to_nat k) l, (true, if cb then filter nonnull [znth l k] else []))
  | LClear cb => ([], (true, if cb then filter nonnull l else []))
  end.

Definition ll_alloc_fails (s : llist) (o : ll_op) : bool :=
  match o with
  | LIns _ _ ok | LApp _ _ ok => match node_alloc (lpool s) (lsize s) ok with None => true | Some _ => false end
  | _ => false
  end.

Definition ll_step_ok (s : llist) (o : ll_op) (s' : llist) (r : bool * list Z) : Prop :=
  ll_inv s' /\
  if ll_alloc_fails s o then s' = s /\ r = (false, [])
  else (ll_data s', r) = ref_ll_step (ll_data s) o.

Lemma zget_map_snd : forall (l : list (Z * Z)) k x, zget l k = Some x -> znth (map snd l) k = snd x.
Proof.
  unfold znth, zget; intros. destruct (k <? 0); [discriminate|].
  rewrite nth_error_map, H. reflexivity.
Qed.

Lemma ll_insert_at : forall s p d p', ll_inv s -> pool_ok p' (lsize s + 1) ->
  ll_inv {| litems := ins_at p (lnext s, d) (litems s); lnext := lnext s + 1; lpool := p'; lsize := lsize s + 1 |}.
Proof.
  intros s p d p' (H1 & H2 & H3 & H4 & H5) Hp. unfold ll_inv. cbn [litems lnext lpool lsize].
  split; [|split; [|split; [|split]]]; auto; try lia.
  - unfold zlen in *. rewrite length_ins_at. lia.
  - rewrite map_ins_at. cbn [fst]. apply NoDup_ins_at; auto. intro H. apply H3 in H. lia.
  - intros id H. rewrite map_ins_at in H. apply in_ins_at in H. cbn [fst] in H.
    destruct H as [-> | H]; [lia | apply H3 in H; lia].
Qed.

Theorem ll_step_refines : forall s o, ll_inv s -> ll_op_ok s o = true ->
  ll_step_ok s o (fst (ll_step s o)) (snd (ll_step s o)).
Proof.
  intros s o I Hok. assert (I2 := I). destruct I2 as (H1 & H2 & H3 & H4 & H5).
  unfold ll_step_ok. destruct o as [pos d ok | pos d ok | k cb | cb]; cbn [ll_alloc_fails ref_ll_step ll_step].
  - unfold ll_insert. destruct (node_alloc (lpool s) (lsize s) ok) as [p'|] eqn:E; cbn [fst snd].
    + split. { apply ll_insert_at; auto. eapply node_alloc_ok; eauto. }
      unfold ll_data. cbn [litems]. now rewrite map_ins_at.
    + auto.
  - unfold ll_append. destruct (node_alloc (lpool s) (lsize s) ok) as [p'|] eqn:E; cbn [fst snd].
    + split. { apply ll_insert_at; auto. eapply node_alloc_ok; eauto. }
      unfold ll_data. cbn [litems]. rewrite map_ins_at. cbn [snd].
      replace (zlen (map snd (litems s))) with (zlen (litems s)) by (unfold zlen; now rewrite map_length).
      reflexivity.
  + auto.
  - cbn [ll_op_ok] in Hok. unfold pos_ok in Hok. unfold ll_remove.
    destruct (zget_in_range _ (litems s) k) as [[id d] Hx]; [lia|]. rewrite Hx. cbn [fst snd].
    split.
    + unfold ll_inv. cbn [litems lnext lpool lsize]. split; [|split; [|split; [|split]]]; auto.
      * unfold zlen in *. rewrite length_del_at by lia. lia.
      * rewrite map_del_at. now apply NoDup_del_at.
      * intros i Hi. rewrite map_del_at in Hi. apply in_del_at in Hi. auto.
      * unfold pool_ok in *. destruct (lpool s); auto. lia.
    + unfold ll_data. cbn [litems]. rewrite map_del_at. f_equal. f_equal. destruct cb; [|reflexivity].
      rewrite (zget_map_snd _ _ _ Hx). cbn [snd filter]. unfold nonnull.
      destruct (d =? 0); reflexivity.
  - cbn [ll_clear fst snd]. unfold ll_clear. cbn [fst snd]. split; [|reflexivity].
    unfold ll_inv. cbn [litems lnext lpool lsize]. split; [reflexivity|]. split; [constructor|].
    split; [intros id []|]. split; auto. unfold pool_ok in *. destruct (lpool s); auto. lia.
Qed.

Lemma ll_init_inv : forall c ok s, ll_init c ok = Some s -> ll_inv s /\ ll_data s = [].
Proof.
  intros c ok s H. unfold ll_init, pool_init in H.
  assert (P : forall p, (if c >? 0 then if negb (cap_is_valid c) then None else if negb ok then None else Some (Some c) else Some None) = Some p -> pool_ok p 0).
  { intros p E. destruct (c >? 0) eqn:C.
    - destruct (negb (cap_is_valid c)); [discriminate|]. destruct (negb ok); [discriminate|]. inversion E. cbn. lia.
    - inversion E. exact I. }
  destruct (if c >? 0 then _ else _) as [p|] eqn:E; [|discriminate]. inversion H; subst.
  split; [|reflexivity]. unfold ll_inv. cbn [litems lnext lpool lsize].
  split; [reflexivity|]. split; [constructor|]. split; [intros id []|]. split; [lia|]. now apply P.
Qed.

(* returned node ids: a successful insert hands out an id not used by any node in the list *)
Lemma ll_insert_fresh : forall s pos d ok s' id, ll_inv s -> ll_insert s pos d ok = (s', Some id) ->
  ~ In id (map fst (litems s)) /\ In (id, d) (litems s').
Proof.
  intros s pos d ok s' id (H1 & H2 & H3 & H4 & H5) E. unfold ll_insert in E.
  destruct (node_alloc (lpool s) (lsize s) ok); [|discriminate]. inversion E; subst. cbn [litems]. split.
  - intro H. apply H3 in H. lia.
  - apply in_ins_at. now left.
Qed.

(* ====================================================================== *)
(* queue                                                                   *)

Definition qu_inv (s : queue) : Prop :=
  qsize s = zlen (qitems s) /\ NoDup (map fst (qitems s)) /\
  (forall id, In id (map fst (qitems s)) -> 0 < id < qnext s) /\ 0 < qnext s /\ pool_ok (qpool s) (qsize s).

Definition qu_data (s : queue) : list Z := map snd (qitems s).

(* reference FIFO *)
Definition ref_qu_step (l : list Z) (o : qu_op) : list Z * (bool * list Z) :=
  match o with
  | QEnq d _ => (l ++ [d], (true, []))
  | QDeq cb => (tl l, (true, if cb then filter nonnull (firstn 1 l) else []))
  | QClear cb => ([], (true, if cb then filter nonnull l else []))
  end.

Definition qu_alloc_fails (s : queue) (o : qu_op) : bool :=
  match o with
  | QEnq _ ok => match node_alloc (qpool s) (qsize s) ok with None => true | Some _ => false end
  | _ => false
  end.

Definition qu_step_ok (s : queue) (o : qu_op) (s' : queue) (r : bool * list Z) : Prop :=
  qu_inv s' /\
  if qu_alloc_fails s o then s' = s /\ r = (false, [])
  else (qu_data s', r) = ref_qu_step (qu_data s) o.

Theorem qu_step_refines : forall s o, qu_inv s -> qu_step_ok s o (fst (qu_step s o)) (snd (qu_step s o)).
Proof.
  intros s o I. assert (I2 := I). destruct I2 as (H1 & H2 & H3 & H4 & H5).
  unfold qu_step_ok. destruct o as [d ok | cb | cb]; cbn [qu_alloc_fails ref_qu_step qu_step].
  - unfold qu_enqueue. destruct (node_alloc (qpool s) (qsize s) ok) as [p'|] eqn:E; cbn [fst snd]; [|auto].
    split.
    + unfold qu_inv. cbn [qitems qnext qpool qsize]. split; [|split; [|split; [|split]]].
      * unfold zlen in *. rewrite app_length. simpl. lia.
      * rewrite map_app. cbn [map fst]. apply NoDup_snoc; auto. intro H. apply H3 in H. lia.
      * intros id H. rewrite map_app, in_app_iff in H. cbn in H. destruct H as [H | [<- | []]]; [apply H3 in H|]; lia.
      * lia.
      * eapply node_alloc_ok; eauto.
    + unfold qu_data. cbn [qitems]. now rewrite map_app.
  - unfold qu_dequeue. destruct (qitems s) as [|[id d] r] eqn:Q; cbn [fst snd].
    + split; auto. unfold qu_data. rewrite Q. destruct cb; reflexivity.
    + split.
      * unfold qu_inv. cbn [qitems qnext qpool qsize]. try rewrite Q in H1. try rewrite Q in H2. try rewrite Q in H3. cbn [map fst] in *.
        split; [|split; [|split; [|split]]]; auto.
        -- unfold zlen in *. simpl length in *. lia.
        -- now inversion H2.
        -- intros i Hi. apply H3. now right.
        -- unfold pool_ok in *. destruct (qpool s); auto. lia.
      * unfold qu_data. rewrite Q. cbn [qitems map snd tl firstn filter]. unfold nonnull.
        destruct cb; [|reflexivity]. destruct (d =? 0); reflexivity.
  - unfold qu_clear. cbn [fst snd]. split; [|reflexivity].
    unfold qu_inv. cbn [qitems qnext qpool qsize]. split; [reflexivity|]. split; [constructor|].
    split; [intros id []|]. split; auto. unfold pool_ok in *. destruct (qpool s); auto. lia.
Qed.

Lemma qu_front_refines : forall s, qu_front s = match qitems s with [] => None | x :: _ => Some x end.
Proof. reflexivity. Qed.

Lemma qu_init_inv : forall c ok s, qu_init c ok = Some s -> qu_inv s /\ qu_data s = [].
Proof.
  intros c ok s H. unfold qu_init, pool_init in H.
  assert (P : forall p, (if c >? 0 then if negb (cap_is_valid c) then None else if negb ok then None else Some (Some c) else Some None) = Some p -> pool_ok p 0).
  { intros p E. destruct (c >? 0) eqn:C.
    - destruct (negb (cap_is_valid c)); [discriminate|]. destruct (negb ok); [discriminate|]. inversion E. cbn. lia.
    - inversion E. exact I. }
  destruct (if c >? 0 then _ else _) as [p|] eqn:E; [|discriminate]. inversion H; subst.
  split; [|reflexivity]. unfold qu_inv. cbn [qitems qnext qpool qsize].
  split; [reflexivity|]. split; [constructor|]. split; [intros id []|]. split; [lia|]. now apply P.
Qed.

(* histories of linked list and queue *)
Fixpoint ll_run (s : llist) (ops : list ll_op) : llist * list (bool * list Z) :=
  match ops with
  | [] => (s, [])
  | o :: r => let (s1, x) := ll_step s o in let (s2, xs) := ll_run s1 r in (s2, x :: xs)
  end.

Fixpoint ll_ops_ok (s : llist) (ops : list ll_op) : Prop :=
  match ops with
  | [] => True
  | o :: r => ll_op_ok s o = true /\ ll_ops_ok (fst (ll_step s o)) r
  end.

Fixpoint ll_fail_flags (s : llist) (ops : list ll_op) : list bool :=
  match ops with
  | [] => []
  | o :: r => ll_alloc_fails s o :: ll_fail_flags (fst (ll_step s o)) r
  end.

Fixpoint ref_ll_run (l : list Z) (ops : list ll_op) (fails : list bool) : list Z * list (bool * list Z) :=
  match ops, fails with
  | o :: ops', f :: fails' =>
    let (l1, r) := if f then (l, (false, [])) else ref_ll_step l o in
    let (l2, rs) := ref_ll_run l1 ops' fails' in (l2, r :: rs)
  | _, _ => (l, [])
  end.

Theorem ll_run_refines : forall ops s, ll_inv s -> ll_ops_ok s ops ->
  ll_inv (fst (ll_run s ops)) /\
  (ll_data (fst (ll_run s ops)), snd (ll_run s ops)) = ref_ll_run (ll_data s) ops (ll_fail_flags s ops).
Proof.
  induction ops as [|o ops IH]; intros s I F.
  - cbn. auto.
  - destruct F as [F1 F2]. cbn [ll_run ll_fail_flags ref_ll_run].
    pose proof (ll_step_refines s o I F1) as [I1 R]. destruct (ll_step s o) as [s1 r]. cbn [fst snd] in *.
    specialize (IH s1 I1 F2). destruct (ll_run s1 ops) as [s2 rs]. cbn [fst snd] in *.
    destruct IH as [I2 E]. split; auto.
    destruct (ll_alloc_fails s o).
    + destruct R as (-> & ->). rewrite <- E. reflexivity.
    + rewrite <- R. rewrite <- E. reflexivity.
Qed.

Fixpoint qu_run (s : queue) (ops : list qu_op) : queue * list (bool * list Z) :=
  match ops with
  | [] => (s, [])
  | o :: r => let (s1, x) := qu_step s o in let (s2, xs) := qu_run s1 r in (s2, x :: xs)
  end.

Fixpoint qu_fail_flags (s : queue) (ops : list qu_op) : list bool :=
  match ops with
  | [] => []
  | o :: r => qu_alloc_fails s o :: qu_fail_flags (fst (qu_step s o)) r
  end.

Fixpoint ref_qu_run (l : list Z) (ops : list qu_op) (fails : list bool) : list Z * list (bool * list Z) :=
  match ops, fails with
  | o :: ops', f :: fails' =>
    let (l1, r) := if f then (l, (false, [])) else ref_qu_step l o in
    let (l2, rs) := ref_qu_run l1 ops' fails' in (l2, r :: rs)
  | _, _ => (l, [])
  end.

Theorem qu_run_refines : forall ops s, qu_inv s ->
  qu_inv (fst (qu_run s ops)) /\
  (qu_data (fst (qu_run s ops)), snd (qu_run s ops)) = ref_qu_run (qu_data s) ops (qu_fail_flags s ops).
Proof.
  induction ops as [|o ops IH]; intros s I.
  - cbn. auto.
  - cbn [qu_run qu_fail_flags ref_qu_run].
    pose proof (qu_step_refines s o I) as [I1 R]. destruct (qu_step s o) as [s1 r]. cbn [fst snd] in *.
    specialize (IH s1 I1). destruct (qu_run s1 ops) as [s2 rs]. cbn [fst snd] in *.
    destruct IH as [I2 E]. split; auto.
    destruct (qu_alloc_fails s o).
    + destruct R as (-> & ->). rewrite <- E. reflexivity.
    + rewrite <- R. rewrite <- E. reflexivity.
Qed.

Example ll_example :
  exists s, ll_init 1 true = Some s /\
    let ops := [LIns None 11 true; LApp None 12 true; LIns (Some 1) 13 true; LApp (Some 0) 14 false; LRem 0 true; LApp None 0 true; LRem 3 false] in
    ll_ops_ok s ops /\ ll_data (fst (ll_run s ops)) = [14; 13; 12] /\
    map fst (litems (fst (ll_run s ops))) = [4; 3; 2].
Proof. eexists. split; [reflexivity|]. vm_compute. repeat split. Qed.

Example qu_example :
  exists s, qu_init 0 true = Some s /\
    let ops := [QEnq 11 true; QEnq 12 false; QEnq 13 true; QDeq true; QEnq 14 true; QDeq false] in
    qu_data (fst (qu_run s ops)) = [14] /\
    snd (qu_run s ops) = [(true, []); (false, []); (true, []); (true, [11]); (true, []); (true, [])].
Proof. eexists. split; [reflexivity|]. vm_compute. repeat split. Qed.
