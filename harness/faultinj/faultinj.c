/* C18 fault injection (see faultinj.h).  Every reference to malloc / calloc /
 * realloc / aligned_alloc / posix_memalign / free / eventfd / epoll_create /
 * epoll_create1 / pipe / pipe2 / socket / socketpair / accept / accept4 / close / fopen / fclose / fwrite / fflush in the objects linked into the
 * driver (the repository's .c files and the driver itself) is redirected here
 * by the linker; __real_X is the sanitizer's / libc's X. */
#include "faultinj.h"
#include <errno.h>
#include <stdint.h>
#include <stdlib.h>
#include <string.h>
#include <unistd.h>
#include <stdio.h>

void *__real_malloc(size_t);
void *__real_calloc(size_t, size_t);
void *__real_realloc(void *, size_t);
void *__real_aligned_alloc(size_t, size_t);
int __real_posix_memalign(void **, size_t, size_t);
void __real_free(void *);
int __real_eventfd(unsigned int, int);
int __real_epoll_create(int);
int __real_epoll_create1(int);
int __real_pipe(int[2]);
int __real_pipe2(int[2], int);
int __real_socket(int, int, int);
int __real_socketpair(int, int, int, int[2]);
int __real_close(int);
FILE *__real_fopen(const char *, const char *);
int __real_fclose(FILE *);
size_t __real_fwrite(const void *, size_t, size_t, FILE *);
int __real_fflush(FILE *);
int __real_accept(int, void *, void *);
int __real_accept4(int, void *, void *, int);

#define TAB_BITS 14
#define TAB_SIZE (1u << TAB_BITS)
#define TOMB ((void *)1)

static volatile int g_lock;
static int g_track, g_armed;
static int g_calls;
static int g_faults[FI_MAX_FAULTS], g_nfaults;
static void *g_ptr[TAB_SIZE];
static size_t g_sz[TAB_SIZE];
static int g_nblocks;
static size_t g_nbytes;
#define MAX_FD 4096
static unsigned char g_fd[MAX_FD];
static int g_nfds;
/* FILE* handles: a third resource class.  Open handles obtained while tracking are live until
 * fclose; handles closed while tracking are remembered, so that a later fwrite/fflush/fclose on
 * one of them (use after close, double close) is reported and the process stopped. */
#define MAX_FILES 64
static FILE *g_open[MAX_FILES];
static FILE *g_closed[MAX_FILES];
static int g_nfiles, g_nclosed;

static void lock(void) { while (__atomic_exchange_n(&g_lock, 1, __ATOMIC_ACQUIRE)) { } }
static void unlock(void) { __atomic_store_n(&g_lock, 0, __ATOMIC_RELEASE); }

static unsigned slot_of(void *p) { return (unsigned)(((uintptr_t)p >> 4) * 2654435761u) & (TAB_SIZE - 1); }

static void tab_add(void *p, size_t n)
{
	unsigned i = slot_of(p);
	for (unsigned k = 0; k < TAB_SIZE; k++, i = (i + 1) & (TAB_SIZE - 1)) {
		if (g_ptr[i] == NULL || g_ptr[i] == TOMB) {
			g_ptr[i] = p; g_sz[i] = n; g_nblocks++; g_nbytes += n;
			return;
		}
	}
	abort();
}
static int tab_del(void *p)
{
	unsigned i = slot_of(p);
	for (unsigned k = 0; k < TAB_SIZE; k++, i = (i + 1) & (TAB_SIZE - 1)) {
		if (g_ptr[i] == NULL) return 0;
		if (g_ptr[i] == p) {
			g_ptr[i] = TOMB; g_nblocks--; g_nbytes -= g_sz[i];
			return 1;
		}
	}
	return 0;
}

/* returns 1 when this acquisition attempt must fail */
static int attempt(void)
{
	int fail = 0;
	if (g_armed) {
		g_calls++;
		for (int i = 0; i < g_nfaults; i++) if (g_faults[i] == g_calls) fail = 1;
	}
	return fail;
}

void fi_begin(void)
{
	lock();
	memset(g_ptr, 0, sizeof(g_ptr)); memset(g_fd, 0, sizeof(g_fd));
	memset(g_open, 0, sizeof(g_open)); memset(g_closed, 0, sizeof(g_closed)); g_nfiles = 0; g_nclosed = 0;
	g_nblocks = 0; g_nbytes = 0; g_nfds = 0; g_calls = 0; g_nfaults = 0; g_armed = 0; g_track = 1;
	unlock();
}
void fi_end(void) { lock(); g_track = 0; g_armed = 0; g_nfaults = 0; unlock(); }
void fi_arm(const int *ks, int n)
{
	lock();
	g_nfaults = n > FI_MAX_FAULTS ? FI_MAX_FAULTS : n;
	for (int i = 0; i < g_nfaults; i++) g_faults[i] = ks[i];
	g_calls = 0; g_armed = 1;
	unlock();
}
void fi_disarm(void) { lock(); g_armed = 0; g_nfaults = 0; unlock(); }
int fi_calls(void) { lock(); int v = g_calls; unlock(); return v; }
int fi_live_blocks(void) { lock(); int v = g_nblocks; unlock(); return v; }
size_t fi_live_bytes(void) { lock(); size_t v = g_nbytes; unlock(); return v; }
int fi_live_fds(void) { lock(); int v = g_nfds; unlock(); return v; }
int fi_live_files(void) { lock(); int v = g_nfiles; unlock(); return v; }
void fi_settle(void)
{
	int stable = 0, last = -1;
	for (int i = 0; i < 400 && stable < 3; i++) {
		int v = fi_live_blocks() * 65536 + fi_live_fds() * 256 + fi_live_files();
		if (v == last) stable++; else stable = 0;
		last = v;
		usleep(2000);
	}
}

static void *got(void *p, size_t n) { if (p) { lock(); if (g_track) tab_add(p, n); unlock(); } return p; }

void *__wrap_malloc(size_t n)
{
	lock(); int track = g_track, fail = track ? attempt() : 0; unlock();
	if (fail) { errno = ENOMEM; return NULL; }
	void *p = __real_malloc(n);
	return track ? got(p, n) : p;
}
void *__wrap_calloc(size_t a, size_t b)
{
	lock(); int track = g_track, fail = track ? attempt() : 0; unlock();
	if (fail) { errno = ENOMEM; return NULL; }
	void *p = __real_calloc(a, b);
	return track ? got(p, a * b) : p;
}
void *__wrap_aligned_alloc(size_t al, size_t n)
{
	lock(); int track = g_track, fail = track ? attempt() : 0; unlock();
	if (fail) { errno = ENOMEM; return NULL; }
	void *p = __real_aligned_alloc(al, n);
	return track ? got(p, n) : p;
}
int __wrap_posix_memalign(void **out, size_t al, size_t n)
{
	lock(); int track = g_track, fail = track ? attempt() : 0; unlock();
	if (fail) return ENOMEM;
	int r = __real_posix_memalign(out, al, n);
	if (r == 0 && track) got(*out, n);
	return r;
}
void *__wrap_realloc(void *old, size_t n)
{
	lock(); int track = g_track, fail = track ? attempt() : 0; unlock();
	if (fail) { errno = ENOMEM; return NULL; }     /* the old block stays valid */
	int was = 0;
	if (old) { lock(); was = tab_del(old); unlock(); }
	void *p = __real_realloc(old, n);
	if (p == NULL) { if (was) got(old, 0); return NULL; }
	return (track || was) ? got(p, n) : p;
}
void __wrap_free(void *p)
{
	if (p) { lock(); tab_del(p); unlock(); }
	__real_free(p);
}

static int got_fd(int fd)
{
	if (fd >= 0 && fd < MAX_FD) { lock(); if (g_track && !g_fd[fd]) { g_fd[fd] = 1; g_nfds++; } unlock(); }
	return fd;
}
static int fd_attempt(void) { lock(); int fail = g_track ? attempt() : 0; unlock(); if (fail) errno = EMFILE; return fail; }

int __wrap_eventfd(unsigned int v, int fl) { if (fd_attempt()) return -1; return got_fd(__real_eventfd(v, fl)); }
int __wrap_epoll_create(int n) { if (fd_attempt()) return -1; return got_fd(__real_epoll_create(n)); }
int __wrap_epoll_create1(int fl) { if (fd_attempt()) return -1; return got_fd(__real_epoll_create1(fl)); }
int __wrap_socket(int d, int t, int p) { if (fd_attempt()) return -1; return got_fd(__real_socket(d, t, p)); }
int __wrap_pipe(int fds[2])
{
	if (fd_attempt()) return -1;
	int r = __real_pipe(fds);
	if (r == 0) { got_fd(fds[0]); got_fd(fds[1]); }
	return r;
}
int __wrap_socketpair(int d, int t, int p, int fds[2])     /* ONE attempt that yields two descriptors (or none) */
{
	if (fd_attempt()) return -1;
	int r = __real_socketpair(d, t, p, fds);
	if (r == 0) { got_fd(fds[0]); got_fd(fds[1]); }
	return r;
}
int __wrap_pipe2(int fds[2], int fl)
{
	if (fd_attempt()) return -1;
	int r = __real_pipe2(fds, fl);
	if (r == 0) { got_fd(fds[0]); got_fd(fds[1]); }
	return r;
}
/* accept / accept4: the descriptor is tracked, the call is never failed and not counted
 * (not in the property's fault class) - a leaked accepted descriptor still shows up */
int __wrap_accept(int fd, void *a, void *l) { return got_fd(__real_accept(fd, a, l)); }
int __wrap_accept4(int fd, void *a, void *l, int fl) { return got_fd(__real_accept4(fd, a, l, fl)); }
int __wrap_close(int fd)
{
	if (fd >= 0 && fd < MAX_FD) { lock(); if (g_fd[fd]) { g_fd[fd] = 0; g_nfds--; } unlock(); }
	return __real_close(fd);
}

/* ---------------------------------------------------------------- FILE* handles */
static void file_violation(const char *what, FILE *fp)
{
	char msg[160];
	int n = snprintf(msg, sizeof(msg), "\nfaultinj: FILE* VIOLATION: %s on a handle that was already closed (%p)\n", what, (void *)fp);
	if (write(2, msg, (size_t)n)) { }
	_exit(9);
}
static int was_closed(FILE *fp)
{
	int r = 0;
	lock();
	if (g_track) for (int i = 0; i < MAX_FILES; i++) if (g_closed[i] == fp) r = 1;
	unlock();
	return r;
}
FILE *__wrap_fopen(const char *path, const char *mode)
{
	if (fd_attempt()) return NULL;
	FILE *fp = __real_fopen(path, mode);
	if (fp) {
		lock();
		if (g_track) {
			for (int i = 0; i < MAX_FILES; i++) if (g_closed[i] == fp) g_closed[i] = NULL;   /* address reused */
			for (int i = 0; i < MAX_FILES; i++) if (g_open[i] == NULL) { g_open[i] = fp; g_nfiles++; break; }
		}
		unlock();
	}
	return fp;
}
int __wrap_fclose(FILE *fp)
{
	if (was_closed(fp)) file_violation("fclose (double close)", fp);
	lock();
	for (int i = 0; i < MAX_FILES; i++) if (g_open[i] == fp && fp) {
		g_open[i] = NULL; g_nfiles--;
		g_closed[g_nclosed++ % MAX_FILES] = fp;
		break;
	}
	unlock();
	return __real_fclose(fp);
}
size_t __wrap_fwrite(const void *p, size_t a, size_t b, FILE *fp)
{
	if (was_closed(fp)) file_violation("fwrite (use after close)", fp);
	return __real_fwrite(p, a, b, fp);
}
int __wrap_fflush(FILE *fp)
{
	if (fp && was_closed(fp)) file_violation("fflush (use after close)", fp);
	return __real_fflush(fp);
}
