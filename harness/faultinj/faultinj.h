/* C18 fault injection: -Wl,--wrap interposition of the allocator and of the
 * descriptor-creating calls, "fail the k-th call" switch, live accounting.
 * Link flags: see FI_WRAP_FLAGS in lib/props/c18.py. */
#ifndef FAULTINJ_H_
#define FAULTINJ_H_
#include <stddef.h>

#define FI_MAX_FAULTS 32

/* start accounting: every block / descriptor obtained through the wrapped
 * calls from now on is tracked until it is released; no faults, no counting */
void fi_begin(void);
/* stop accounting and forget everything tracked */
void fi_end(void);
/* arm: call counter := 0; the calls whose 1-based index is listed fail */
void fi_arm(const int *ks, int n);
/* disarm: no faults, calls are no longer counted (tracking continues) */
void fi_disarm(void);
/* number of wrapped acquisition calls attempted since fi_arm */
int fi_calls(void);
/* tracked and not yet released */
int fi_live_blocks(void);
size_t fi_live_bytes(void);
int fi_live_fds(void);
int fi_live_files(void);     /* FILE* handles opened through fopen and not yet fclosed */
/* wait until the live counts stop changing (other threads releasing) */
void fi_settle(void);
#endif
