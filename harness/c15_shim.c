/* C15 shim: -Wl,--wrap interposers (muggle_evloop_add_ctx, close, accept, read, write,
 * malloc family), the event log, the context / descriptor tables, fault switches and
 * leak accounting.  Owned by property C15. */
#define _GNU_SOURCE
#include "c15_shim.h"
#include <stdarg.h>
#include <stdint.h>
#include <stdlib.h>
#include <string.h>
#include <errno.h>
#include <dirent.h>
#include <pthread.h>
#include <unistd.h>
#include <sys/socket.h>
#include "muggle/c/event/event_loop.h"

/* ------------------------------------------------------------------ log */
#define SH_LOGCAP (48u << 20)
static char *g_log;
static size_t g_loglen;
static int g_logover;
static pthread_mutex_t g_mtx = PTHREAD_MUTEX_INITIALIZER;

void *__real_malloc(size_t);
void __real_free(void *);
void *__real_calloc(size_t, size_t);
void *__real_realloc(void *, size_t);
int __real_close(int);
int __real_accept(int, struct sockaddr *, socklen_t *);
ssize_t __real_read(int, void *, size_t);
ssize_t __real_write(int, const void *, size_t);
int __real_muggle_evloop_add_ctx(muggle_event_loop_t *, muggle_event_context_t *);

void sh_lock(void) { pthread_mutex_lock(&g_mtx); }
void sh_unlock(void) { pthread_mutex_unlock(&g_mtx); }

static void log_append(const char *s, size_t n)
{
	if (g_loglen + n + 2 > SH_LOGCAP) { g_logover = 1; return; }
	memcpy(g_log + g_loglen, s, n);
	g_loglen += n;
	g_log[g_loglen++] = '\n';
}
void sh_logf_locked(const char *fmt, ...)
{
	char buf[256];
	va_list ap;
	va_start(ap, fmt);
	int n = vsnprintf(buf, sizeof(buf), fmt, ap);
	va_end(ap);
	if (n < 0) return;
	if (n >= (int)sizeof(buf)) n = sizeof(buf) - 1;
	log_append(buf, (size_t)n);
}
void sh_logf(const char *fmt, ...)
{
	char buf[256];
	va_list ap;
	va_start(ap, fmt);
	int n = vsnprintf(buf, sizeof(buf), fmt, ap);
	va_end(ap);
	if (n < 0) return;
	if (n >= (int)sizeof(buf)) n = sizeof(buf) - 1;
	sh_lock();
	log_append(buf, (size_t)n);
	sh_unlock();
}
static void log_hex_locked(const char *prefix, const unsigned char *p, size_t n)
{
	static const char hx[] = "0123456789abcdef";
	size_t pl = strlen(prefix);
	if (g_loglen + pl + 2 * n + 2 > SH_LOGCAP) { g_logover = 1; return; }
	memcpy(g_log + g_loglen, prefix, pl);
	g_loglen += pl;
	for (size_t i = 0; i < n; i++) {
		g_log[g_loglen++] = hx[p[i] >> 4];
		g_log[g_loglen++] = hx[p[i] & 15];
	}
	g_log[g_loglen++] = '\n';
}
void sh_log_hex(const char *prefix, const unsigned char *p, size_t n)
{
	sh_lock();
	log_hex_locked(prefix, p, n);
	sh_unlock();
}
void sh_dump(FILE *fp)
{
	fwrite(g_log, 1, g_loglen, fp);
	if (g_logover) fprintf(fp, "LOGOVERFLOW\n");
}

/* ------------------------------------------------------------------ tables */
static struct { void *ptr; int live; } g_ctx[SH_MAXCTX];
static int g_nctx, g_nfree;
static int g_fdmap[SH_MAXFD];
static int g_badclose;

int sh_ctx_new_locked(void *ctx)
{
	if (g_nctx >= SH_MAXCTX) return -1;
	g_ctx[g_nctx].ptr = ctx;
	g_ctx[g_nctx].live = 1;
	return g_nctx++;
}
int sh_ctx_id(void *ctx)
{
	for (int i = g_nctx - 1; i >= 0; i--)
		if (g_ctx[i].live && g_ctx[i].ptr == ctx) return i;
	return -1;
}
void sh_ctx_dead_locked(int id)
{
	if (id >= 0 && id < g_nctx && g_ctx[id].live) { g_ctx[id].live = 0; g_nfree++; }
}
int sh_ctx_allocs(void) { return g_nctx; }
int sh_ctx_frees(void) { return g_nfree; }
void sh_map_fd(int fd, int id) { if (fd >= 0 && fd < SH_MAXFD) g_fdmap[fd] = id; }
int sh_fd_owner(int fd) { return (fd >= 0 && fd < SH_MAXFD) ? g_fdmap[fd] : SH_FD_NONE; }
int sh_badclose(void) { return g_badclose; }

/* ------------------------------------------------------------------ faults */
#define SH_MAXFAULT 64
static int g_add_fault[SH_MAXFAULT], g_add_mode[SH_MAXFAULT], g_nadd_fault;
static int g_acc_fault[SH_MAXFAULT], g_nacc_fault;
static int g_add_calls, g_acc_calls;
__thread int sh_fail_next_malloc;

void sh_fault_add(int index, int mode)
{
	if (g_nadd_fault < SH_MAXFAULT) { g_add_fault[g_nadd_fault] = index; g_add_mode[g_nadd_fault++] = mode; }
}
void sh_fault_accept(int index)
{
	if (g_nacc_fault < SH_MAXFAULT) g_acc_fault[g_nacc_fault++] = index;
}
int sh_add_calls(void) { return g_add_calls; }

/* ------------------------------------------------------------------ pipe */
static int g_prfd = -1, g_pwfd = -1, g_rfrag, g_wfrag;
static uint64_t g_prng;
static unsigned g_rpart;              /* bytes of the current pointer already read (mod pointer size) */
static __thread int t_writer = -1;
static uint64_t prng(void)
{
	g_prng += 0x9E3779B97F4A7C15ULL;
	uint64_t z = g_prng;
	z = (z ^ (z >> 30)) * 0xBF58476D1CE4E5B9ULL;
	z = (z ^ (z >> 27)) * 0x94D049BB133111EBULL;
	return z ^ (z >> 31);
}
void sh_pipe_fds(int rfd, int wfd, unsigned long long seed, int rfrag, int wfrag)
{
	g_prfd = rfd; g_pwfd = wfd; g_prng = seed; g_rfrag = rfrag; g_wfrag = wfrag; g_rpart = 0;
}
void sh_pipe_writer_id(int w) { t_writer = w; }

/* ------------------------------------------------------------------ reset */
static long g_heap_live;
void sh_reset(void)
{
	if (!g_log) g_log = (char *)__real_malloc(SH_LOGCAP);
	g_loglen = 0; g_logover = 0;
	g_nctx = 0; g_nfree = 0; g_badclose = 0;
	for (int i = 0; i < SH_MAXFD; i++) g_fdmap[i] = SH_FD_NONE;
	g_nadd_fault = g_nacc_fault = 0;
	g_add_calls = g_acc_calls = 0;
	g_prfd = g_pwfd = -1;
	sh_fail_next_malloc = 0;
}

/* ------------------------------------------------------------------ wrappers */
int __wrap_muggle_evloop_add_ctx(muggle_event_loop_t *evloop, muggle_event_context_t *ctx)
{
	sh_lock();
	int k = ++g_add_calls, mode = 0;
	for (int i = 0; i < g_nadd_fault; i++) if (g_add_fault[i] == k) mode = g_add_mode[i];
	int id = sh_ctx_id(ctx);
	if (id >= 0 && ctx->fd >= 0) sh_map_fd(ctx->fd, id);
	sh_unlock();
	int ret;
	if (mode == SH_ADD_WRAP) {
		ret = -1;
	} else {
		if (mode == SH_ADD_MALLOC) sh_fail_next_malloc = 1;
		ret = __real_muggle_evloop_add_ctx(evloop, ctx);
		sh_fail_next_malloc = 0;
	}
	sh_logf("reg %d %d", id, ret);
	drv_on_reg(id, ret);
	return ret;
}

int __wrap_close(int fd)
{
	int owner = sh_fd_owner(fd);
	if (owner != SH_FD_NONE) {
		sh_lock();
		if (owner == SH_FD_NEW) sh_logf_locked("fdclose new");
		else sh_logf_locked("fdclose %d", owner);
		sh_map_fd(fd, SH_FD_NONE);
		sh_unlock();
	}
	int r = __real_close(fd);
	if (r != 0) {
		sh_lock();
		g_badclose++;
		sh_logf_locked("badclose");
		sh_unlock();
	}
	return r;
}

int __wrap_accept(int fd, struct sockaddr *addr, socklen_t *len)
{
	sh_lock();
	int k = ++g_acc_calls, fail = 0;
	for (int i = 0; i < g_nacc_fault; i++) if (g_acc_fault[i] == k) fail = 1;
	sh_unlock();
	if (fail) {
		sh_logf("accepterr %d", sh_fd_owner(fd));
		errno = EMFILE;
		return -1;
	}
	int nfd = __real_accept(fd, addr, len);
	if (nfd >= 0) {
		sh_lock();
		sh_map_fd(nfd, SH_FD_NEW);
		sh_logf_locked("accepted");
		sh_unlock();
	}
	return nfd;
}

ssize_t __wrap_read(int fd, void *buf, size_t len)
{
	if (fd != g_prfd || fd < 0) return __real_read(fd, buf, len);
	sh_lock();
	ssize_t r;
	if (g_rfrag && len > 0) {
		uint64_t x = prng();
		if (x % 100 < (uint64_t)(g_rfrag >= 2 ? 35 : 15)) {
			if (g_rpart) sh_logf_locked("R again");
			sh_unlock();
			errno = EAGAIN;
			return -1;
		}
		size_t want = 1 + (size_t)((x >> 8) % len);
		r = __real_read(fd, buf, want);
	} else {
		r = __real_read(fd, buf, len);
	}
	int e = errno;
	if (r > 0) { log_hex_locked("R ", (const unsigned char *)buf, (size_t)r); g_rpart = (g_rpart + (unsigned)r) % (unsigned)sizeof(void *); }
	else if (r == 0) sh_logf_locked("R eof");
	else if (e == EAGAIN || e == EWOULDBLOCK) { if (g_rpart) sh_logf_locked("R again"); }
	else sh_logf_locked("R err");
	sh_unlock();
	errno = e;
	return r;
}

ssize_t __wrap_write(int fd, const void *buf, size_t len)
{
	if (fd != g_pwfd || fd < 0) return __real_write(fd, buf, len);
	sh_lock();
	ssize_t r;
	if (g_wfrag && len > 0) {
		uint64_t x = prng();
		if (x % 100 < 15) {
			sh_logf_locked("W %d again", t_writer);
			sh_unlock();
			errno = EAGAIN;
			return -1;
		}
		size_t want = 1 + (size_t)((x >> 8) % len);
		r = __real_write(fd, buf, want);
	} else {
		r = __real_write(fd, buf, len);
	}
	int e = errno;
	if (r > 0) {
		char pre[32];
		snprintf(pre, sizeof(pre), "W %d ", t_writer);
		log_hex_locked(pre, (const unsigned char *)buf, (size_t)r);
	} else if (r < 0 && (e == EAGAIN || e == EWOULDBLOCK)) {
		sh_logf_locked("W %d again", t_writer);
	} else {
		sh_logf_locked("W %d err", t_writer);
	}
	sh_unlock();
	errno = e;
	return r;
}

void *__wrap_malloc(size_t n)
{
	if (sh_fail_next_malloc) { sh_fail_next_malloc = 0; return NULL; }
	void *p = __real_malloc(n);
	if (p) __atomic_fetch_add(&g_heap_live, 1, __ATOMIC_RELAXED);
	return p;
}
void *__wrap_calloc(size_t a, size_t b)
{
	void *p = __real_calloc(a, b);
	if (p) __atomic_fetch_add(&g_heap_live, 1, __ATOMIC_RELAXED);
	return p;
}
void *__wrap_realloc(void *q, size_t n)
{
	void *p = __real_realloc(q, n);
	if (!q && p) __atomic_fetch_add(&g_heap_live, 1, __ATOMIC_RELAXED);
	if (q && n == 0 && !p) __atomic_fetch_sub(&g_heap_live, 1, __ATOMIC_RELAXED);
	return p;
}
void __wrap_free(void *p)
{
	if (p) __atomic_fetch_sub(&g_heap_live, 1, __ATOMIC_RELAXED);
	__real_free(p);
}
long sh_heap_live(void) { return __atomic_load_n(&g_heap_live, __ATOMIC_RELAXED); }

int sh_open_fds(void)
{
	int n = 0;
	DIR *d = opendir("/proc/self/fd");
	if (!d) return -1;
	while (readdir(d)) n++;
	closedir(d);
	return n;
}
