/* C15 shim: -Wl,--wrap interposers (muggle_evloop_add_ctx, close, accept, read, write,
 * poll, select, epoll_wait, malloc family), the event log, the context / descriptor tables,
 * fault switches and leak accounting.  Owned by property C15.
 *
 * The event signal of the loop (eventfd) and the back-end's wait are part of the log:
 *   sigw <ctx|x>   write to the signal (muggle_evloop_wakeup): by the hand-over of context <ctx>
 *                  (thread-local tag set by the driver) or by anyone else (x: exit, plain wake-up)
 *   sigr           read of the signal (muggle_ev_signal_clearup)
 *   idle           the loop thread's poll / select / epoll_wait found NOTHING ready: it blocks
 * Each of these lines is appended under the log lock together with the (non-blocking) system
 * call it stands for, so the order of the lines is the order of the calls: the wait is first
 * executed with timeout 0 under the lock ("idle" iff it returns 0), and only an empty result is
 * followed by the real blocking call.  A non-empty zero-timeout result is returned as it is
 * (epoll is edge-triggered: the report must not be asked for twice).
 *
 * The same object serves the scenarios run under the deterministic scheduler (harness/vsched;
 * the driver is always linked with it): when the calling thread is a scheduled thread
 * (vs_active()), exactly one thread runs at a time, so the log lock is not taken (it would only
 * add scheduling points), signal read / write and every attempt of the wait are scheduling points,
 * and a wait that finds nothing is repeated when the thread is scheduled again (as in
 * harness/vsched/vs_io.c); "idle" is logged for the first empty attempt of each wait. */
#define _GNU_SOURCE
#include "c15_shim.h"
#include <stdarg.h>
#include <stdint.h>
#include <stdlib.h>
#include <string.h>
#include <errno.h>
#include <dirent.h>
#include <pthread.h>
#include <unistd.h>
#include <sys/socket.h>
#include <poll.h>
#include <sys/epoll.h>
#include <sys/select.h>
#include "muggle/c/event/event_loop.h"

/* harness/vsched/vsched.c */
int vs_active(void);
void vs_point(void);
void vs_after(void);
int vs_others_runnable(void);
void vs_io_deadlock(const char *what);

/* ------------------------------------------------------------------ log */
#define SH_LOGCAP (48u << 20)
static char *g_log;
static size_t g_loglen;
static int g_logover;
static pthread_mutex_t g_mtx = PTHREAD_MUTEX_INITIALIZER;

void *__real_malloc(size_t);
void __real_free(void *);
void *__real_calloc(size_t, size_t);
void *__real_realloc(void *, size_t);
int __real_close(int);
int __real_accept(int, struct sockaddr *, socklen_t *);
ssize_t __real_read(int, void *, size_t);
ssize_t __real_write(int, const void *, size_t);
int __real_muggle_evloop_add_ctx(muggle_event_loop_t *, muggle_event_context_t *);

int __real_poll(struct pollfd *fds, nfds_t n, int timeout);
int __real_select(int nfds, fd_set *r, fd_set *w, fd_set *e, struct timeval *tv);
int __real_epoll_wait(int epfd, struct epoll_event *ev, int maxev, int timeout);
#include <sys/time.h>

/* a scheduled thread never runs concurrently with another one: no lock (and no scheduling point) */
void sh_lock(void) { if (!vs_active()) pthread_mutex_lock(&g_mtx); }
void sh_unlock(void) { if (!vs_active()) pthread_mutex_unlock(&g_mtx); }

static void log_append(const char *s, size_t n)
{
	if (g_loglen + n + 2 > SH_LOGCAP) { g_logover = 1; return; }
	memcpy(g_log + g_loglen, s, n);
	g_loglen += n;
	g_log[g_loglen++] = '\n';
}
void sh_logf_locked(const char *fmt, ...)
{
	char buf[256];
	va_list ap;
	va_start(ap, fmt);
	int n = vsnprintf(buf, sizeof(buf), fmt, ap);
	va_end(ap);
	if (n < 0) return;
	if (n >= (int)sizeof(buf)) n = sizeof(buf) - 1;
	log_append(buf, (size_t)n);
}
void sh_logf(const char *fmt, ...)
{
	char buf[256];
	va_list ap;
	va_start(ap, fmt);
	int n = vsnprintf(buf, sizeof(buf), fmt, ap);
	va_end(ap);
	if (n < 0) return;
	if (n >= (int)sizeof(buf)) n = sizeof(buf) - 1;
	sh_lock();
	log_append(buf, (size_t)n);
	sh_unlock();
}
static void log_hex_locked(const char *prefix, const unsigned char *p, size_t n)
{
	static const char hx[] = "0123456789abcdef";
	size_t pl = strlen(prefix);
	if (g_loglen + pl + 2 * n + 2 > SH_LOGCAP) { g_logover = 1; return; }
	memcpy(g_log + g_loglen, prefix, pl);
	g_loglen += pl;
	for (size_t i = 0; i < n; i++) {
		g_log[g_loglen++] = hx[p[i] >> 4];
		g_log[g_loglen++] = hx[p[i] & 15];
	}
	g_log[g_loglen++] = '\n';
}
void sh_log_hex(const char *prefix, const unsigned char *p, size_t n)
{
	sh_lock();
	log_hex_locked(prefix, p, n);
	sh_unlock();
}
void sh_dump(FILE *fp)
{
	fwrite(g_log, 1, g_loglen, fp);
	if (g_logover) fprintf(fp, "LOGOVERFLOW\n");
}

/* ------------------------------------------------------------------ tables */
static struct { void *ptr; int live; } g_ctx[SH_MAXCTX];
static int g_nctx, g_nfree;
static int g_fdmap[SH_MAXFD];
static int g_badclose;

int sh_ctx_new_locked(void *ctx)
{
	if (g_nctx >= SH_MAXCTX) return -1;
	g_ctx[g_nctx].ptr = ctx;
	g_ctx[g_nctx].live = 1;
	return g_nctx++;
}
int sh_ctx_id(void *ctx)
{
	for (int i = g_nctx - 1; i >= 0; i--)
		if (g_ctx[i].live && g_ctx[i].ptr == ctx) return i;
	return -1;
}
void sh_ctx_dead_locked(int id)
{
	if (id >= 0 && id < g_nctx && g_ctx[id].live) { g_ctx[id].live = 0; g_nfree++; }
}
/* taken back by its owner after run() returned: not one of the frees the loop side owes */
void sh_ctx_late_locked(int id)
{
	if (id >= 0 && id < g_nctx && g_ctx[id].live) g_ctx[id].live = 0;
}
int sh_ctx_allocs(void) { return g_nctx; }
int sh_ctx_frees(void) { return g_nfree; }
void sh_map_fd(int fd, int id) { if (fd >= 0 && fd < SH_MAXFD) g_fdmap[fd] = id; }
int sh_fd_owner(int fd) { return (fd >= 0 && fd < SH_MAXFD) ? g_fdmap[fd] : SH_FD_NONE; }
int sh_badclose(void) { return g_badclose; }

/* ------------------------------------------------------------------ faults */
#define SH_MAXFAULT 64
static int g_add_fault[SH_MAXFAULT], g_add_mode[SH_MAXFAULT], g_nadd_fault;
static int g_acc_fault[SH_MAXFAULT], g_nacc_fault;
static int g_add_calls, g_acc_calls;
__thread int sh_fail_next_malloc;

void sh_fault_add(int index, int mode)
{
	if (g_nadd_fault < SH_MAXFAULT) { g_add_fault[g_nadd_fault] = index; g_add_mode[g_nadd_fault++] = mode; }
}
void sh_fault_accept(int index)
{
	if (g_nacc_fault < SH_MAXFAULT) g_acc_fault[g_nacc_fault++] = index;
}
int sh_add_calls(void) { return g_add_calls; }

/* ------------------------------------------------------------------ pipe */
static int g_prfd = -1, g_pwfd = -1, g_rfrag, g_wfrag;
static uint64_t g_prng;
static unsigned g_rpart;              /* bytes of the current pointer already read (mod pointer size) */
static __thread int t_writer = -1;
static uint64_t prng(void)
{
	g_prng += 0x9E3779B97F4A7C15ULL;
	uint64_t z = g_prng;
	z = (z ^ (z >> 30)) * 0xBF58476D1CE4E5B9ULL;
	z = (z ^ (z >> 27)) * 0x94D049BB133111EBULL;
	return z ^ (z >> 31);
}
void sh_pipe_fds(int rfd, int wfd, unsigned long long seed, int rfrag, int wfrag)
{
	g_prfd = rfd; g_pwfd = wfd; g_prng = seed; g_rfrag = rfrag; g_wfrag = wfrag; g_rpart = 0;
}
void sh_pipe_writer_id(int w) { t_writer = w; }

/* ------------------------------------------------------------------ configurations without user callbacks */
/* default allocator (the application did not call set_alloc_free): accepted contexts come from the library's
 * own malloc and go to its own free; they are named when they first reach muggle_evloop_add_ctx ("alloc <id>")
 * and their free is seen by the interposed free ("free <id>").  No cb_msg: on_read's default loop reads and
 * discards; the reads of the loop thread on context descriptors are logged ("rd <id> <hex|eof|err>"). */
static int g_default_alloc, g_log_reads;
void sh_default_alloc(int on) { g_default_alloc = on; }
void sh_log_reads(int on) { g_log_reads = on; }

/* ------------------------------------------------------------------ event signal / back-end wait */
static int g_sigfd = -1;
__thread int sh_sig_tag = -1;          /* context id whose hand-over is in progress in this thread */
static __thread int t_loop_thread;     /* this thread runs muggle_evloop_run */
static long g_idle_count;              /* empty wait attempts of the loop thread */
static int g_loop_blocked;             /* the loop thread found nothing ready and has not returned from its wait */
void sh_signal_fd(int fd) { g_sigfd = fd; }
void sh_loop_thread(int on) { t_loop_thread = on; }
long sh_idle_count(void) { return __atomic_load_n(&g_idle_count, __ATOMIC_SEQ_CST); }
int sh_loop_blocked(void) { return __atomic_load_n(&g_loop_blocked, __ATOMIC_SEQ_CST); }
/* What the loop thread is waiting on, saved (under the log lock) when an attempt of its wait found
 * nothing: the pollfd array / the read set / the epoll descriptor.  sh_loop_quiet() asks the kernel again
 * about exactly that set, from another thread, with timeout 0 and WITHOUT consuming anything (poll and
 * select are level-triggered; an epoll descriptor is itself pollable): the loop thread is quiet iff it is
 * still inside that wait and nothing in the set is ready, i.e. nothing will end the wait.  This is a
 * state test, not a time-out. */
enum { WK_NONE = 0, WK_POLL, WK_SELECT, WK_EPOLL };
#define SH_MAXWAIT 4096
static int g_wait_kind;
static struct pollfd g_wait_pfd[SH_MAXWAIT];
static int g_wait_n;
static fd_set g_wait_rset; static int g_wait_nfds;
static int g_wait_epfd = -1;
static long g_wait_epoch;
long sh_wait_epoch(void) { return __atomic_load_n(&g_wait_epoch, __ATOMIC_SEQ_CST); }
int sh_loop_quiet(void)
{
	if (!sh_loop_blocked()) return 0;
	int quiet = 0;
	sh_lock();
	if (__atomic_load_n(&g_loop_blocked, __ATOMIC_SEQ_CST)) {
		if (g_wait_kind == WK_POLL) {
			static struct pollfd tmp[SH_MAXWAIT];
			memcpy(tmp, g_wait_pfd, sizeof(struct pollfd) * (size_t)g_wait_n);
			for (int i = 0; i < g_wait_n; i++) tmp[i].revents = 0;
			int r = __real_poll(tmp, (nfds_t)g_wait_n, 0), ready = 0;
			for (int i = 0; r > 0 && i < g_wait_n; i++) if (tmp[i].revents & ~POLLNVAL) ready = 1;
			quiet = !ready && r >= 0;
		} else if (g_wait_kind == WK_SELECT) {
			fd_set rs = g_wait_rset; struct timeval z = { 0, 0 };
			quiet = __real_select(g_wait_nfds, &rs, NULL, NULL, &z) == 0;
		} else if (g_wait_kind == WK_EPOLL) {
			struct pollfd p; p.fd = g_wait_epfd; p.events = POLLIN; p.revents = 0;
			quiet = __real_poll(&p, 1, 0) == 0;
		}
	}
	sh_unlock();
	return quiet && sh_loop_blocked();
}

/* ------------------------------------------------------------------ reset */
static long g_heap_live;
void sh_reset(void)
{
	g_default_alloc = 0; g_log_reads = 0;
	g_sigfd = -1; g_idle_count = 0; g_loop_blocked = 0; g_wait_kind = WK_NONE; g_wait_epfd = -1;
	if (!g_log) g_log = (char *)__real_malloc(SH_LOGCAP);
	g_loglen = 0; g_logover = 0;
	g_nctx = 0; g_nfree = 0; g_badclose = 0;
	for (int i = 0; i < SH_MAXFD; i++) g_fdmap[i] = SH_FD_NONE;
	g_nadd_fault = g_nacc_fault = 0;
	g_add_calls = g_acc_calls = 0;
	g_prfd = g_pwfd = -1;
	sh_fail_next_malloc = 0;
}

/* ------------------------------------------------------------------ wrappers */
int __wrap_muggle_evloop_add_ctx(muggle_event_loop_t *evloop, muggle_event_context_t *ctx)
{
	sh_lock();
	int k = ++g_add_calls, mode = 0;
	for (int i = 0; i < g_nadd_fault; i++) if (g_add_fault[i] == k) mode = g_add_mode[i];
	int id = sh_ctx_id(ctx);
	if (id < 0 && g_default_alloc) {
		/* allocated by the library's default allocator on the accept path: first sight of it */
		id = sh_ctx_new_locked(ctx);
		sh_logf_locked("alloc %d", id);
		drv_on_alloc(id, ctx);
	}
	if (id >= 0 && ctx->fd >= 0) sh_map_fd(ctx->fd, id);
	sh_unlock();
	int ret;
	if (mode == SH_ADD_WRAP) {
		ret = -1;
	} else {
		if (mode == SH_ADD_MALLOC) sh_fail_next_malloc = 1;
		ret = __real_muggle_evloop_add_ctx(evloop, ctx);
		sh_fail_next_malloc = 0;
	}
	sh_logf("reg %d %d", id, ret);
	drv_on_reg(id, ret);
	return ret;
}

int __wrap_close(int fd)
{
	int owner = sh_fd_owner(fd);
	if (owner != SH_FD_NONE) {
		sh_lock();
		if (owner == SH_FD_NEW) sh_logf_locked("fdclose new");
		else sh_logf_locked("fdclose %d", owner);
		sh_map_fd(fd, SH_FD_NONE);
		sh_unlock();
	}
	int r = __real_close(fd);
	if (r != 0) {
		sh_lock();
		g_badclose++;
		sh_logf_locked("badclose");
		sh_unlock();
	}
	return r;
}

int __wrap_accept(int fd, struct sockaddr *addr, socklen_t *len)
{
	sh_lock();
	int k = ++g_acc_calls, fail = 0;
	for (int i = 0; i < g_nacc_fault; i++) if (g_acc_fault[i] == k) fail = 1;
	sh_unlock();
	if (fail) {
		sh_logf("accepterr %d", sh_fd_owner(fd));
		errno = EMFILE;
		return -1;
	}
	int nfd = __real_accept(fd, addr, len);
	if (nfd >= 0) {
		sh_lock();
		sh_map_fd(nfd, SH_FD_NEW);
		sh_logf_locked("accepted");
		sh_unlock();
	}
	return nfd;
}

ssize_t __wrap_read(int fd, void *buf, size_t len)
{
	if (fd >= 0 && fd == g_sigfd) {
		/* muggle_ev_signal_clearup */
		int vs = vs_active();
		if (vs) vs_point();
		sh_lock();
		ssize_t r = __real_read(fd, buf, len);
		int e = errno;
		sh_logf_locked("sigr");
		sh_unlock();
		if (vs) vs_after();
		errno = e;
		return r;
	}
	if (g_log_reads && t_loop_thread && fd >= 0 && sh_fd_owner(fd) >= 0) {
		/* on_read's default loop (no cb_msg installed) */
		ssize_t r = __real_read(fd, buf, len);
		int e = errno, id = sh_fd_owner(fd);
		if (r > 0) {
			char pre[32];
			snprintf(pre, sizeof(pre), "rd %d ", id);
			sh_log_hex(pre, (const unsigned char *)buf, (size_t)r);
			drv_on_read(id, (long)r);
		} else if (r == 0) sh_logf("rd %d eof", id);
		else if (e != EAGAIN && e != EWOULDBLOCK && e != EINTR) sh_logf("rd %d err", id);
		errno = e;
		return r;
	}
	if (fd != g_prfd || fd < 0) return __real_read(fd, buf, len);
	sh_lock();
	ssize_t r;
	if (g_rfrag && len > 0) {
		uint64_t x = prng();
		if (x % 100 < (uint64_t)(g_rfrag >= 2 ? 35 : 15)) {
			/* nothing transferred: EAGAIN, or (every third time) EINTR - a signal interrupted the call */
			int intr = ((x >> 40) % 3) == 0;
			if (g_rpart) sh_logf_locked(intr ? "R intr" : "R again");
			sh_unlock();
			errno = intr ? EINTR : EAGAIN;
			return -1;
		}
		size_t want = 1 + (size_t)((x >> 8) % len);
		r = __real_read(fd, buf, want);
	} else {
		r = __real_read(fd, buf, len);
	}
	int e = errno;
	if (r > 0) { log_hex_locked("R ", (const unsigned char *)buf, (size_t)r); g_rpart = (g_rpart + (unsigned)r) % (unsigned)sizeof(void *); }
	else if (r == 0) sh_logf_locked("R eof");
	else if (e == EAGAIN || e == EWOULDBLOCK) { if (g_rpart) sh_logf_locked("R again"); }
	else sh_logf_locked("R err");
	sh_unlock();
	errno = e;
	return r;
}

ssize_t __wrap_write(int fd, const void *buf, size_t len)
{
	if (fd >= 0 && fd == g_sigfd) {
		/* muggle_ev_signal_wakeup */
		int vs = vs_active();
		if (vs) vs_point();
		sh_lock();
		ssize_t r = __real_write(fd, buf, len);
		int e = errno;
		if (r != (ssize_t)len) sh_logf_locked("sigwfail");
		else if (sh_sig_tag >= 0) sh_logf_locked("sigw %d", sh_sig_tag);
		else sh_logf_locked("sigw x");
		sh_unlock();
		if (vs) vs_after();
		errno = e;
		return r;
	}
	if (fd != g_pwfd || fd < 0) return __real_write(fd, buf, len);
	sh_lock();
	ssize_t r;
	if (g_wfrag && len > 0) {
		uint64_t x = prng();
		if (x % 100 < 15) {
			int intr = ((x >> 40) % 3) == 0;
			sh_logf_locked(intr ? "W %d intr" : "W %d again", t_writer);
			sh_unlock();
			errno = intr ? EINTR : EAGAIN;
			return -1;
		}
		size_t want = 1 + (size_t)((x >> 8) % len);
		r = __real_write(fd, buf, want);
	} else {
		r = __real_write(fd, buf, len);
	}
	int e = errno;
	if (r > 0) {
		char pre[32];
		snprintf(pre, sizeof(pre), "W %d ", t_writer);
		log_hex_locked(pre, (const unsigned char *)buf, (size_t)r);
	} else if (r < 0 && (e == EAGAIN || e == EWOULDBLOCK)) {
		sh_logf_locked("W %d again", t_writer);
	} else {
		sh_logf_locked("W %d err", t_writer);
	}
	sh_unlock();
	errno = e;
	return r;
}

/* the back-end's wait of the loop thread: see the head of this file */
static void wait_result(int r, int *first)
{
	if (r == 0) {
		__atomic_fetch_add(&g_idle_count, 1, __ATOMIC_SEQ_CST);
		if (*first) { sh_logf_locked("idle"); *first = 0; }
		__atomic_fetch_add(&g_wait_epoch, 1, __ATOMIC_SEQ_CST);
		__atomic_store_n(&g_loop_blocked, 1, __ATOMIC_SEQ_CST);
	}
}
int __wrap_poll(struct pollfd *fds, nfds_t n, int timeout)
{
	if (!t_loop_thread) return __real_poll(fds, n, timeout);
	int first = 1, r, e;
	if (vs_active()) {
		for (;;) {
			vs_point();
			r = __real_poll(fds, n, 0); e = errno;
			wait_result(r, &first);
			if (r == 0 && timeout != 0 && !vs_others_runnable()) vs_io_deadlock("io");
			vs_after();
			if (r != 0 || timeout == 0) break;
		}
	} else {
		sh_lock();
		r = __real_poll(fds, n, 0); e = errno;
		if (r == 0) {
			g_wait_kind = WK_POLL; g_wait_n = n > SH_MAXWAIT ? SH_MAXWAIT : (int)n;
			memcpy(g_wait_pfd, fds, sizeof(struct pollfd) * (size_t)g_wait_n);
		}
		wait_result(r, &first);
		sh_unlock();
		if (r == 0 && timeout != 0) { r = __real_poll(fds, n, timeout); e = errno; }
	}
	__atomic_store_n(&g_loop_blocked, 0, __ATOMIC_SEQ_CST);
	errno = e;
	return r;
}
int __wrap_select(int nfds, fd_set *rs, fd_set *ws, fd_set *es, struct timeval *tv)
{
	if (!t_loop_thread) return __real_select(nfds, rs, ws, es, tv);
	fd_set r0, w0, e0;
	if (rs) r0 = *rs;
	if (ws) w0 = *ws;
	if (es) e0 = *es;
	int nonblocking = tv && tv->tv_sec == 0 && tv->tv_usec == 0;
	int first = 1, r, e;
	struct timeval z;
	if (vs_active()) {
		for (;;) {
			vs_point();
			if (rs) *rs = r0;
			if (ws) *ws = w0;
			if (es) *es = e0;
			z.tv_sec = 0; z.tv_usec = 0;
			r = __real_select(nfds, rs, ws, es, &z); e = errno;
			wait_result(r, &first);
			if (r == 0 && !nonblocking && !vs_others_runnable()) vs_io_deadlock("io");
			vs_after();
			if (r != 0 || nonblocking) break;
		}
	} else {
		sh_lock();
		z.tv_sec = 0; z.tv_usec = 0;
		r = __real_select(nfds, rs, ws, es, &z); e = errno;
		if (r == 0) {
			g_wait_kind = WK_SELECT; g_wait_nfds = nfds;
			if (rs) g_wait_rset = r0; else FD_ZERO(&g_wait_rset);
		}
		wait_result(r, &first);
		sh_unlock();
		if (r == 0 && !nonblocking) {
			if (rs) *rs = r0;
			if (ws) *ws = w0;
			if (es) *es = e0;
			r = __real_select(nfds, rs, ws, es, tv); e = errno;
		}
	}
	__atomic_store_n(&g_loop_blocked, 0, __ATOMIC_SEQ_CST);
	errno = e;
	return r;
}
int __wrap_epoll_wait(int epfd, struct epoll_event *ev, int maxev, int timeout)
{
	if (!t_loop_thread) return __real_epoll_wait(epfd, ev, maxev, timeout);
	int first = 1, r, e;
	if (vs_active()) {
		for (;;) {
			vs_point();
			r = __real_epoll_wait(epfd, ev, maxev, 0); e = errno;
			wait_result(r, &first);
			if (r == 0 && timeout != 0 && !vs_others_runnable()) vs_io_deadlock("io");
			vs_after();
			if (r != 0 || timeout == 0) break;
		}
	} else {
		sh_lock();
		r = __real_epoll_wait(epfd, ev, maxev, 0); e = errno;
		if (r == 0) { g_wait_kind = WK_EPOLL; g_wait_epfd = epfd; }
		wait_result(r, &first);
		sh_unlock();
		if (r == 0 && timeout != 0) { r = __real_epoll_wait(epfd, ev, maxev, timeout); e = errno; }
	}
	__atomic_store_n(&g_loop_blocked, 0, __ATOMIC_SEQ_CST);
	errno = e;
	return r;
}

void *__wrap_malloc(size_t n)
{
	if (sh_fail_next_malloc) { sh_fail_next_malloc = 0; return NULL; }
	void *p = __real_malloc(n);
	if (p) __atomic_fetch_add(&g_heap_live, 1, __ATOMIC_RELAXED);
	return p;
}
void *__wrap_calloc(size_t a, size_t b)
{
	void *p = __real_calloc(a, b);
	if (p) __atomic_fetch_add(&g_heap_live, 1, __ATOMIC_RELAXED);
	return p;
}
void *__wrap_realloc(void *q, size_t n)
{
	void *p = __real_realloc(q, n);
	if (!q && p) __atomic_fetch_add(&g_heap_live, 1, __ATOMIC_RELAXED);
	if (q && n == 0 && !p) __atomic_fetch_sub(&g_heap_live, 1, __ATOMIC_RELAXED);
	return p;
}
void __wrap_free(void *p)
{
	if (p && g_default_alloc) {
		/* the library's default free of a context it allocated itself */
		sh_lock();
		int id = sh_ctx_id(p);
		if (id >= 0) { sh_logf_locked("free %d", id); sh_ctx_dead_locked(id); }
		sh_unlock();
	}
	if (p) __atomic_fetch_sub(&g_heap_live, 1, __ATOMIC_RELAXED);
	__real_free(p);
}
long sh_heap_live(void) { return __atomic_load_n(&g_heap_live, __ATOMIC_RELAXED); }

int sh_open_fds(void)
{
	int n = 0;
	DIR *d = opendir("/proc/self/fd");
	if (!d) return -1;
	while (readdir(d)) n++;
	closedir(d);
	return n;
}
