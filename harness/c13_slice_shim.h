/* C13 slicer shim: force-included (-include) when lib/props/c13_slice.py asks clang for the AST of the
 * event-loop back-ends.  The libc fd_set macros expand to word/bit arithmetic (and inline assembly);
 * here they become calls of four marker functions, whose meaning (set zero / insert / delete /
 * membership) is libc's and is supplied by the slicer.  Never compiled into a driver. */
#ifndef C13_SLICE_SHIM_H
#define C13_SLICE_SHIM_H
#include <sys/select.h>
void c13_fd_zero(fd_set *s);
void c13_fd_set(int fd, fd_set *s);
void c13_fd_clr(int fd, fd_set *s);
int c13_fd_isset(int fd, fd_set *s);
#undef FD_ZERO
#undef FD_SET
#undef FD_CLR
#undef FD_ISSET
#define FD_ZERO(s) c13_fd_zero(s)
#define FD_SET(fd, s) c13_fd_set((fd), (s))
#define FD_CLR(fd, s) c13_fd_clr((fd), (s))
#define FD_ISSET(fd, s) c13_fd_isset((fd), (s))
#endif
