/* Virtual clock for scheduled threads (addition to harness/vsched): with
 *   -Wl,--wrap=time -Wl,--wrap=clock_gettime -Wl,--wrap=gettimeofday
 * every call of time() / clock_gettime() / gettimeofday() made by a thread that runs under the
 * deterministic scheduler while the virtual clock is on (vs_clock_enable) reads the scheduler's
 * virtual time; everything else (main thread, clock off) goes to the real function.  Linked only
 * into drivers that ask for it (extra_c / extra_wraps of build_vsched_driver). */
#define _GNU_SOURCE
#include <time.h>
#include <sys/time.h>
#include "vsched.h"

time_t __real_time(time_t *t);
int __real_clock_gettime(clockid_t id, struct timespec *ts);
int __real_gettimeofday(struct timeval *tv, void *tz);

time_t __wrap_time(time_t *t)
{
	if (!vs_active() || !vs_clock_on()) return __real_time(t);
	time_t v = (time_t)(vs_clock_now_ns() / 1000000000LL);
	if (t) *t = v;
	return v;
}
int __wrap_clock_gettime(clockid_t id, struct timespec *ts)
{
	if (!vs_active() || !vs_clock_on()) return __real_clock_gettime(id, ts);
	long long n = vs_clock_now_ns();
	if (ts) { ts->tv_sec = (time_t)(n / 1000000000LL); ts->tv_nsec = (long)(n % 1000000000LL); }
	return 0;
}
int __wrap_gettimeofday(struct timeval *tv, void *tz)
{
	if (!vs_active() || !vs_clock_on()) return __real_gettimeofday(tv, tz);
	long long n = vs_clock_now_ns();
	if (tv) { tv->tv_sec = (time_t)(n / 1000000000LL); tv->tv_usec = (long)((n % 1000000000LL) / 1000); }
	return 0;
}
