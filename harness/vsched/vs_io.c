/* vsched extension for code that blocks in the kernel (C14, usable by C13/C15):
 *   poll / select / epoll_wait  are wrapped (-Wl,--wrap) to call the REAL syscall with
 *   timeout 0.  Each attempt is one operation of the scheduled thread:
 *       P <tid>
 *       E <tid> poll sig none <signal-fd-ready 0|1> <n-ready> 0
 *   If nothing is ready the thread is "waiting for I/O": it stays runnable and re-polls
 *   every time the schedule picks it (one scheduling point per attempt).  It counts as
 *   blocked only when no other thread is runnable AND this re-poll found nothing: then the
 *   event "DEADLOCK ... T<tid>:io" is printed (vs_others_runnable / vs_io_deadlock, two pure
 *   additions at the end of vsched.c); the step budget (LIVELOCK) remains as a guard.
 *   read / write on the registered signal descriptor (eventfd) are scheduling points
 *   executing the real syscall:
 *       E <tid> eread  efd none <value read, 0 when EAGAIN> <1 ok|0 EAGAIN/short> 0
 *       E <tid> ewrite efd none <value written> <1 ok|0 failed> 0
 *   Every other descriptor passes through untouched.
 * Trusted: the kernel's eventfd / poll / select / epoll semantics are those of the running
 * kernel (nothing is emulated); only the blocking is replaced by re-polling. */
#define _GNU_SOURCE
#include <errno.h>
#include <poll.h>
#include <stdint.h>
#include <stdio.h>
#include <string.h>
#include <sys/epoll.h>
#include <sys/select.h>
#include <unistd.h>
#include "vsched.h"
#include "vs_io.h"

void vs_point(void);
void vs_after(void);
/* additions at the end of vsched.c: is any other thread runnable / report DEADLOCK and park */
int vs_others_runnable(void);
void vs_io_deadlock(const char *what);

static int sig_fd = -1;      /* the descriptor whose read/write/readiness is logged */

void vs_io_reset(void) { sig_fd = -1; }
void vs_io_set_signal_fd(int fd) { sig_fd = fd; }
/* epoll reports user data, not descriptors: a report counts as "signal ready" when a
 * zero-timeout poll() of the signal descriptor agrees that it is readable */
static int sig_readable_now(void);

int __real_poll(struct pollfd *fds, nfds_t n, int timeout);
int __real_select(int nfds, fd_set *r, fd_set *w, fd_set *e, struct timeval *tv);
int __real_epoll_wait(int epfd, struct epoll_event *ev, int maxev, int timeout);
ssize_t __real_read(int fd, void *buf, size_t n);
ssize_t __real_write(int fd, const void *buf, size_t n);

static int sig_readable_now(void)
{
	if (sig_fd < 0) return 0;
	struct pollfd p; p.fd = sig_fd; p.events = POLLIN; p.revents = 0;
	return __real_poll(&p, 1, 0) > 0 && (p.revents & POLLIN);
}

static void io_event(int sig, int n)
{
	printf("E %d poll sig none %d %d 0\n", vs_tid(), sig, n);
	/* nothing ready and nobody else can run: this (final) re-poll found nothing and nothing
	 * can ever make a descriptor ready -> the sleep would last for ever */
	if (n == 0 && !vs_others_runnable()) vs_io_deadlock("io");
}

int __wrap_poll(struct pollfd *fds, nfds_t n, int timeout)
{
	if (!vs_active()) return __real_poll(fds, n, timeout);
	for (;;) {
		vs_point();
		int r = __real_poll(fds, n, 0);
		int e = errno, sig = 0;
		if (r > 0)
			for (nfds_t i = 0; i < n; i++)
				if (fds[i].fd == sig_fd && (fds[i].revents & POLLIN)) sig = 1;
		io_event(sig, r);
		vs_after();
		errno = e;
		if (r != 0) return r;
		if (timeout == 0) return 0;
		/* nothing ready: waiting for I/O, re-poll when scheduled again */
	}
}

int __wrap_select(int nfds, fd_set *rs, fd_set *ws, fd_set *es, struct timeval *tv)
{
	if (!vs_active()) return __real_select(nfds, rs, ws, es, tv);
	fd_set r0, w0, e0;
	if (rs) r0 = *rs;
	if (ws) w0 = *ws;
	if (es) e0 = *es;
	int nonblocking = tv && tv->tv_sec == 0 && tv->tv_usec == 0;
	for (;;) {
		vs_point();
		if (rs) *rs = r0;
		if (ws) *ws = w0;
		if (es) *es = e0;
		struct timeval z; z.tv_sec = 0; z.tv_usec = 0;
		int r = __real_select(nfds, rs, ws, es, &z);
		int e = errno, sig = 0;
		if (r > 0 && rs && sig_fd >= 0 && sig_fd < nfds && FD_ISSET(sig_fd, rs)) sig = 1;
		io_event(sig, r);
		vs_after();
		errno = e;
		if (r != 0) return r;
		if (nonblocking) return 0;
	}
}

int __wrap_epoll_wait(int epfd, struct epoll_event *ev, int maxev, int timeout)
{
	if (!vs_active()) return __real_epoll_wait(epfd, ev, maxev, timeout);
	for (;;) {
		vs_point();
		/* readiness of the signal descriptor BEFORE the call: an edge-triggered report
		 * says nothing about which descriptor it is (user data is opaque here) */
		int sig_before = sig_readable_now();
		int r = __real_epoll_wait(epfd, ev, maxev, 0);
		int e = errno, sig = 0;
		if (r > 0) sig = sig_before;
		io_event(sig, r);
		vs_after();
		errno = e;
		if (r != 0) return r;
		if (timeout == 0) return 0;
	}
}

ssize_t __wrap_read(int fd, void *buf, size_t n)
{
	if (!vs_active() || fd != sig_fd || sig_fd < 0) return __real_read(fd, buf, n);
	vs_point();
	ssize_t r = __real_read(fd, buf, n);
	int e = errno;
	unsigned long long v = 0;
	if (r == (ssize_t)sizeof(uint64_t)) { uint64_t x; memcpy(&x, buf, sizeof(x)); v = x; }
	printf("E %d eread efd none %llu %d 0\n", vs_tid(), v, r == (ssize_t)sizeof(uint64_t) ? 1 : 0);
	vs_after();
	errno = e;
	return r;
}

ssize_t __wrap_write(int fd, const void *buf, size_t n)
{
	if (!vs_active() || fd != sig_fd || sig_fd < 0) return __real_write(fd, buf, n);
	vs_point();
	ssize_t r = __real_write(fd, buf, n);
	int e = errno;
	unsigned long long v = 0;
	if (n == sizeof(uint64_t)) { uint64_t x; memcpy(&x, buf, sizeof(x)); v = x; }
	printf("E %d ewrite efd none %llu %d 0\n", vs_tid(), v, r == (ssize_t)n ? 1 : 0);
	vs_after();
	errno = e;
	return r;
}
