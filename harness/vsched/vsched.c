/* Deterministic scheduler: real pthreads, exactly one runs at a time (baton passing on
 * per-thread semaphores).  Scheduling points are placed by vs_hooks.h around every
 * muggle_atomic_* operation and by the wrappers below around futex / pthread mutex /
 * condvar / sched_yield / nanosleep.  Events are printed to stdout in execution order:
 *   E <tid> <op> <cell> <mo> <a> <b> <c>     operation on a shared cell
 *   P <tid>                                   the thread's plain segment up to here is done
 *   R <tid> <text>                            note from the driver (results, cs enter/exit)
 *   X <tid>                                   thread finished
 *   DEADLOCK / LIVELOCK
 * Semantics interposed (trusted base): futex = atomic compare-and-block / wake;
 * mutex = exclusive ownership; condvar = Mesa, spurious wake-ups allowed.
 * The mutex honours the type given to pthread_mutex_init when that call is wrapped too
 * (-Wl,--wrap=pthread_mutex_init, opt-in per driver; otherwise and for a NULL attribute: default type):
 *   NORMAL/DEFAULT  a lock by the owner blocks for ever (shows as DEADLOCK), unlock releases
 *   ERRORCHECK      a lock by the owner returns EDEADLK, an unlock by a non-owner returns EPERM
 *   RECURSIVE       a lock / trylock by the owner counts, unlock releases at depth 0
 * Refused operations are logged with the error number in the last field
 * ("E t mlock cell none 0 0 35", "E t munlock cell none 0 0 1"), a recursive acquisition with the depth in b. */
#define _GNU_SOURCE
#include <pthread.h>
#include <semaphore.h>
#include <stdarg.h>
#include <stdio.h>
#include <stdlib.h>
#include <string.h>
#include <time.h>
#include <errno.h>
#include "vsched.h"
#include "muggle/c/sync/sync_obj.h"

enum { ST_NONE = 0, ST_RUN = 1, ST_BLOCKED = 2, ST_DONE = 3 };
enum { W_NONE = 0, W_FUTEX, W_MUTEX, W_CV, W_HOLD, W_SLEEP };

typedef struct {
	pthread_t th;
	sem_t sem;
	int state;
	int wkind;
	const void *wobj;
	void (*fn)(void *);
	void *arg;
	int started;
} vt_t;

static vt_t T[VS_MAXT];
static int NT;
static __thread int me = -1;
static sem_t main_sem;
static int run_status;
static long steps, budget = 20000;
static int cur_running = -1;

/* names */
#define MAXNAMES 4096
static const void *nm_addr[MAXNAMES];
static char nm_name[MAXNAMES][24];
static int nn;
static struct { const void *base; unsigned long stride, count; char prefix[16]; } nm_rng[16];
static int nrng;

/* mutex table */
#define MAXM 64
static const void *mtx_addr[MAXM];
static int mtx_owner[MAXM];
static int mtx_type[MAXM], mtx_depth[MAXM];
static int nmtx;
/* types recorded by the wrapped pthread_mutex_init; survives vs_reset (a driver may create its mutexes first) */
#define MAXMT 256
static const void *mt_addr[MAXMT];
static int mt_type[MAXMT];
static int nmt;

/* schedule */
static int mode; /* 0 rand, 1 list */
static uint64_t rs;
static int stick = 50, spur = 0, cvspur = 0;
static int *slist, slist_n, slist_i;
static long *spur_idx;
static int spur_n;
static long weak_cas_count;
/* futex-wait choices (optional, default off): a muggle_sync_wait that WOULD block may instead
 * return -1/EINTR (interrupted, logged with c = 2) or 0 (spurious wake-up, c = 3) without
 * blocking.  rand mode: 5th / 6th optional numbers <fspur%> <fwake%>; list mode: entries
 * "f<k>" / "w<k>" in the spur-indices token name the k-th would-block futex wait. */
static int fspur = 0, fwake = 0;
static long fwait_count;
static long *fint_idx, *fwk_idx;
static int fint_n, fwk_n;
static int rr_next;

/* ---------------- virtual clock (pure addition; inert unless vs_clock_enable() was called after
 * vs_reset()).  Virtual time advances by tick_ns at every scheduling step; when every runnable thread
 * has performed >= 3 consecutive operations that cannot change shared state (loads, failed test_and_set /
 * CAS, yields, harness yield points) since the last state-changing operation, it additionally jumps
 * forward by jump_ns ("everybody is spinning"); when no thread is runnable but some are held / asleep it
 * jumps to the earliest wake time.  A thread is made quiet by vs_hold_self(ns): it is suspended at its
 * next scheduling point until the clock has advanced by ns - no event is logged (to the program and to
 * the model this is just a schedule in which the thread is not chosen for a while).  With the clock on,
 * nanosleep blocks for the requested virtual time (same logged event as before).  harness/vsched/vs_clock.c
 * maps time() / clock_gettime() / gettimeofday() of scheduled threads to this clock (-Wl,--wrap). */
static int vclk_on;
static long long vnow_ns, vtick_ns, vjump_ns;
static long long hold_req[VS_MAXT], wake_ns[VS_MAXT];
static long since_prog[VS_MAXT];
static int cur_nonprog, force_prog;

static uint64_t rnd(void)
{
	rs += 0x9E3779B97F4A7C15ULL;
	uint64_t z = rs;
	z = (z ^ (z >> 30)) * 0xBF58476D1CE4E5B9ULL;
	z = (z ^ (z >> 27)) * 0x94D049BB133111EBULL;
	return z ^ (z >> 31);
}

int vs_tid(void) { return me; }
int vs_active(void) { return me >= 0; }
long vs_steps(void) { return steps; }

void vs_reset(void)
{
	NT = 0; nn = 0; nrng = 0; nmtx = 0; steps = 0; run_status = 0; cur_running = -1;
	weak_cas_count = 0; slist_i = 0; rr_next = 0; fwait_count = 0;
	memset(T, 0, sizeof(T));
	vclk_on = 0; vnow_ns = 0; vtick_ns = 0; vjump_ns = 0; cur_nonprog = 0; force_prog = 0;
	memset(hold_req, 0, sizeof(hold_req)); memset(wake_ns, 0, sizeof(wake_ns));
	memset(since_prog, 0, sizeof(since_prog));
}
void vs_set_budget(long b) { budget = b; }

void vs_name(const void *addr, const char *fmt, ...)
{
	if (nn >= MAXNAMES) return;
	va_list ap; va_start(ap, fmt);
	vsnprintf(nm_name[nn], sizeof(nm_name[nn]), fmt, ap);
	va_end(ap);
	nm_addr[nn++] = addr;
}
void vs_name_range(const void *base, unsigned long stride, unsigned long count, const char *prefix)
{
	if (nrng >= 16) return;
	nm_rng[nrng].base = base; nm_rng[nrng].stride = stride; nm_rng[nrng].count = count;
	snprintf(nm_rng[nrng].prefix, sizeof(nm_rng[nrng].prefix), "%s", prefix);
	nrng++;
}
static const char *nm(const void *a, char *buf)
{
	if (!a) return "-";
	for (int i = 0; i < nn; i++) if (nm_addr[i] == a) return nm_name[i];
	for (int i = 0; i < nrng; i++) {
		const char *b = (const char *)nm_rng[i].base, *p = (const char *)a;
		if (p >= b && p < b + nm_rng[i].stride * nm_rng[i].count) {
			unsigned long off = (unsigned long)(p - b);
			snprintf(buf, 40, "%s%lu+%lu", nm_rng[i].prefix, off / nm_rng[i].stride, off % nm_rng[i].stride);
			return buf;
		}
	}
	return "?";
}
static const char *mo_name(int mo)
{
	switch (mo) {
	case __ATOMIC_RELAXED: return "rlx";
	case __ATOMIC_CONSUME: return "con";
	case __ATOMIC_ACQUIRE: return "acq";
	case __ATOMIC_RELEASE: return "rel";
	case __ATOMIC_ACQ_REL: return "acqrel";
	case __ATOMIC_SEQ_CST: return "sc";
	}
	return "none";
}

void vs_set_schedule(const char *spec)
{
	char kind[16];
	free(slist); slist = NULL; slist_n = 0; slist_i = 0;
	free(spur_idx); spur_idx = NULL; spur_n = 0;
	free(fint_idx); fint_idx = NULL; fint_n = 0;
	free(fwk_idx); fwk_idx = NULL; fwk_n = 0;
	fspur = 0; fwake = 0;
	if (sscanf(spec, "%15s", kind) != 1) { mode = 0; rs = 1; return; }
	if (strcmp(kind, "rand") == 0) {
		unsigned long long sd = 1; int a = 50, b = 0, c = 0, d = 0, e = 0;
		sscanf(spec, "%*s %llu %d %d %d %d %d", &sd, &a, &b, &c, &d, &e);
		mode = 0; rs = sd * 0x9E3779B97F4A7C15ULL + 12345; stick = a; spur = b; cvspur = c;
		fspur = d; fwake = e;
	} else {
		mode = 1; rs = 99; spur = 0; cvspur = 0;
		const char *p = spec + strlen(kind);
		while (*p == ' ') p++;
		/* spur indices "3,7," or "-" */
		char tok[256]; int k = 0;
		while (*p && *p != ' ' && k < 255) tok[k++] = *p++;
		tok[k] = 0;
		spur_idx = (long *)malloc(sizeof(long) * 64);
		if (strcmp(tok, "-") != 0) {
			char *q = tok;
			fint_idx = (long *)malloc(sizeof(long) * 64);
			fwk_idx = (long *)malloc(sizeof(long) * 64);
			while (*q) {
				if (*q == 'f') { q++; if (fint_n < 64) fint_idx[fint_n++] = strtol(q, &q, 10); else strtol(q, &q, 10); }
				else if (*q == 'w') { q++; if (fwk_n < 64) fwk_idx[fwk_n++] = strtol(q, &q, 10); else strtol(q, &q, 10); }
				else if (spur_n < 64) spur_idx[spur_n++] = strtol(q, &q, 10);
				else break;
				if (*q == ',') q++; else break;
			}
		}
		slist = (int *)malloc(sizeof(int) * (strlen(p) / 2 + 2));
		while (*p) {
			while (*p == ' ') p++;
			if (!*p) break;
			slist[slist_n++] = (int)strtol(p, (char **)&p, 10);
		}
	}
}

int vs_spurious(const void *addr)
{
	(void)addr;
	if (me < 0) return 0;
	long k = weak_cas_count++;
	if (mode == 0) return spur > 0 && (int)(rnd() % 100) < spur;
	for (int i = 0; i < spur_n; i++) if (spur_idx[i] == k) return 1;
	return 0;
}

static int pick(void)
{
	int r[VS_MAXT], k = 0;
	for (int i = 0; i < NT; i++) if (T[i].state == ST_RUN) r[k++] = i;
	if (!k) return -1;
	if (mode == 0) {
		if (me >= 0 && T[me].state == ST_RUN && (int)(rnd() % 100) < stick) return me;
		return r[rnd() % k];
	}
	if (slist_i < slist_n) {
		int t = slist[slist_i++];
		if (t >= 0 && t < NT && T[t].state == ST_RUN) return t;
		return r[0];
	}
	/* list exhausted: round robin so that spinning threads cannot starve the others */
	for (int j = 0; j < NT; j++) {
		int t = (rr_next + j) % NT;
		if (T[t].state == ST_RUN) { rr_next = t + 1; return t; }
	}
	return r[0];
}

static void finish_run(int status)
{
	run_status = status;
	sem_post(&main_sem);
}

static void park_forever(void)
{
	for (;;) sem_wait(&T[me].sem);
}

static void maybe_cv_spurious(void)
{
	if (mode != 0 || cvspur <= 0) return;
	if ((int)(rnd() % 100) >= cvspur) return;
	for (int i = 0; i < NT; i++)
		if (T[i].state == ST_BLOCKED && T[i].wkind == W_CV) {
			T[i].state = ST_RUN; T[i].wkind = W_NONE;
			printf("W %d cvspur\n", i);
			return;
		}
}

static void vclk_release(void)
{
	for (int i = 0; i < NT; i++)
		if (T[i].state == ST_BLOCKED && (T[i].wkind == W_HOLD || T[i].wkind == W_SLEEP) && wake_ns[i] <= vnow_ns) {
			T[i].state = ST_RUN; T[i].wkind = W_NONE;
		}
}
/* kind 0: plain scheduling point before an operation; 1: after an operation (cur_nonprog says whether it
 * could change shared state); 2: a blocking / finishing step (progress) */
static void vclk_step(int kind)
{
	vnow_ns += vtick_ns;
	if (kind == 1 && me >= 0) {
		if (cur_nonprog && !force_prog) since_prog[me]++;
		else memset(since_prog, 0, sizeof(since_prog));
		cur_nonprog = 0; force_prog = 0;
	} else if (kind == 2) {
		memset(since_prog, 0, sizeof(since_prog));
		cur_nonprog = 0; force_prog = 0;
	}
	if (me >= 0 && hold_req[me] > 0 && T[me].state == ST_RUN) {
		T[me].state = ST_BLOCKED; T[me].wkind = W_HOLD; wake_ns[me] = vnow_ns + hold_req[me];
		hold_req[me] = 0;
	}
	if (vjump_ns > 0) {
		int any = 0, all = 1;
		for (int i = 0; i < NT; i++)
			if (T[i].state == ST_RUN) { any = 1; if (since_prog[i] < 3) all = 0; }
		if (any && all) { vnow_ns += vjump_ns; memset(since_prog, 0, sizeof(since_prog)); }
	}
	vclk_release();
}

/* hand the baton to the next thread chosen by the schedule; returns when this thread is
 * scheduled again */
static void resched_k(int kind)
{
	steps++;
	if (steps > budget) {
		printf("LIVELOCK steps=%ld\n", steps);
		finish_run(2);
		park_forever();
	}
	maybe_cv_spurious();
	if (vclk_on) vclk_step(kind);
	int nxt = pick();
	if (nxt < 0 && vclk_on) {
		/* nobody runnable: let virtual time pass until the first held / sleeping thread is due */
		long long first = -1;
		for (int i = 0; i < NT; i++)
			if (T[i].state == ST_BLOCKED && (T[i].wkind == W_HOLD || T[i].wkind == W_SLEEP) &&
				(first < 0 || wake_ns[i] < first)) first = wake_ns[i];
		if (first >= 0) {
			if (first > vnow_ns) vnow_ns = first;
			vclk_release();
			nxt = pick();
		}
	}
	if (nxt < 0) {
		int all_done = 1;
		for (int i = 0; i < NT; i++) if (T[i].state != ST_DONE) all_done = 0;
		if (all_done) { finish_run(0); return; }
		printf("DEADLOCK");
		for (int i = 0; i < NT; i++) if (T[i].state == ST_BLOCKED) printf(" T%d:%s", i,
			T[i].wkind == W_FUTEX ? "futex" : T[i].wkind == W_MUTEX ? "mutex" : T[i].wkind == W_CV ? "cv" : "sleep");
		printf("\n");
		finish_run(1);
		if (me >= 0) park_forever();
		return;
	}
	if (nxt == me) return;
	cur_running = nxt;
	sem_post(&T[nxt].sem);
	if (me >= 0 && T[me].state != ST_DONE) sem_wait(&T[me].sem);
}
static void resched(void) { resched_k(2); }

void vs_point(void)
{
	if (me < 0) return;
	printf("P %d\n", me);
	resched_k(0);
}
void vs_after(void)
{
	if (me < 0) return;
	resched_k(1);
}

void vs_log(const char *op, const void *addr, int mo, long long a, long long b, long long c, const char *fn)
{
	(void)fn;
	if (me < 0) return;
	char buf[48];
	printf("E %d %s %s %s %lld %lld %lld\n", me, op, nm(addr, buf), mo_name(mo), a, b, c);
	if (vclk_on)   /* operations that leave shared state as it was: a thread repeating them is spinning */
		cur_nonprog = strcmp(op, "load") == 0 || strcmp(op, "fence") == 0 || (strcmp(op, "tas") == 0 && a == 1) ||
			((strcmp(op, "casw") == 0 || strcmp(op, "cass") == 0) && c != 1);
}

void vs_note(const char *fmt, ...)
{
	char buf[512];
	va_list ap; va_start(ap, fmt);
	vsnprintf(buf, sizeof(buf), fmt, ap);
	va_end(ap);
	printf("R %d %s\n", me, buf);
	force_prog = 1;
}

void vs_yield_point(const char *what)
{
	if (me < 0) return;
	vs_point();
	printf("E %d plain %s none 0 0 0\n", me, what);
	cur_nonprog = 1;
	vs_after();
}

static void *tramp(void *p)
{
	int id = (int)(long)p;
	me = id;
	sem_wait(&T[id].sem);
	T[id].fn(T[id].arg);
	printf("P %d\nX %d\n", id, id);
	T[id].state = ST_DONE;
	resched();
	return NULL;
}

int vs_spawn(void (*fn)(void *), void *arg)
{
	int id = NT++;
	T[id].fn = fn; T[id].arg = arg; T[id].state = ST_RUN;
	sem_init(&T[id].sem, 0, 0);
	pthread_attr_t at; pthread_attr_init(&at); pthread_attr_setstacksize(&at, 1 << 20);
	pthread_create(&T[id].th, &at, tramp, (void *)(long)id);
	pthread_attr_destroy(&at);
	return id;
}

int vs_run(void)
{
	sem_init(&main_sem, 0, 0);
	me = -1;
	resched();                 /* picks the first thread */
	sem_wait(&main_sem);
	if (run_status == 0)
		for (int i = 0; i < NT; i++) pthread_join(T[i].th, NULL);
	fflush(stdout);
	return run_status;
}

/* ---------------- futex (replaces sync_obj_futex.c) ---------------- */

int muggle_sync_wait(muggle_sync_t *addr, muggle_sync_t val, const struct timespec *timeout)
{
	(void)timeout;
	if (me < 0) return 0;
	char buf[48];
	vs_point();
	muggle_sync_t curv = __atomic_load_n(addr, __ATOMIC_SEQ_CST);
	if (curv != val) {
		printf("E %d fwait %s none %lld %lld 0\n", me, nm(addr, buf), (long long)val, (long long)curv);
		vs_after();
		errno = EAGAIN;
		return -1;
	}
	{
		/* schedule choice for a wait that would block (never taken unless asked for) */
		long k = fwait_count++;
		int how = 0;
		if (mode == 0) {
			if (fspur > 0 || fwake > 0) {
				int r = (int)(rnd() % 100);
				if (r < fspur) how = 2; else if (r < fspur + fwake) how = 3;
			}
		} else {
			for (int i = 0; i < fint_n; i++) if (fint_idx[i] == k) how = 2;
			for (int i = 0; i < fwk_n; i++) if (fwk_idx[i] == k) how = 3;
		}
		if (how) {
			printf("E %d fwait %s none %lld %lld %d\n", me, nm(addr, buf), (long long)val, (long long)curv, how);
			vs_after();
			if (how == 2) { errno = EINTR; return -1; }
			return 0;
		}
	}
	printf("E %d fwait %s none %lld %lld 1\n", me, nm(addr, buf), (long long)val, (long long)curv);
	T[me].state = ST_BLOCKED; T[me].wkind = W_FUTEX; T[me].wobj = addr;
	resched();
	return 0;
}
static int do_wake(muggle_sync_t *addr, int n)
{
	if (me < 0) return 0;
	char buf[48];
	vs_point();
	int w = 0;
	for (int i = 0; i < NT && w < n; i++)
		if (T[i].state == ST_BLOCKED && T[i].wkind == W_FUTEX && T[i].wobj == addr) {
			T[i].state = ST_RUN; T[i].wkind = W_NONE; w++;
		}
	printf("E %d fwake %s none %d %d 0\n", me, nm(addr, buf), n > 1 ? 0 : 1, w);
	vs_after();
	return w;
}
int muggle_sync_wake_one(muggle_sync_t *addr) { return do_wake(addr, 1); }
int muggle_sync_wake_all(muggle_sync_t *addr) { return do_wake(addr, 1 << 30); }

/* ---------------- pthread mutex / condvar / yield (-Wl,--wrap) ---------------- */

int __real_pthread_mutex_lock(pthread_mutex_t *m);
int __real_pthread_mutex_unlock(pthread_mutex_t *m);
int __real_pthread_mutex_trylock(pthread_mutex_t *m);
int __real_pthread_cond_wait(pthread_cond_t *c, pthread_mutex_t *m);
int __real_pthread_cond_timedwait(pthread_cond_t *c, pthread_mutex_t *m, const struct timespec *t);
int __real_pthread_cond_signal(pthread_cond_t *c);
int __real_pthread_cond_broadcast(pthread_cond_t *c);
int __real_sched_yield(void);
int __real_nanosleep(const struct timespec *a, struct timespec *b);

int __real_pthread_mutex_init(pthread_mutex_t *m, const pthread_mutexattr_t *a) __attribute__((weak));

static int recorded_type(const void *m)
{
	for (int i = nmt - 1; i >= 0; i--) if (mt_addr[i % MAXMT] == m) return mt_type[i % MAXMT];
	return PTHREAD_MUTEX_DEFAULT;
}
static int midx(const void *m)
{
	for (int i = 0; i < nmtx; i++) if (mtx_addr[i] == m) return i;
	if (nmtx >= MAXM) abort();
	mtx_addr[nmtx] = m; mtx_owner[nmtx] = -1; mtx_depth[nmtx] = 0; mtx_type[nmtx] = recorded_type(m);
	return nmtx++;
}
/* type of a mutex as the scheduler understands it (PTHREAD_MUTEX_*) */
int vs_mutex_type(const void *m) { return recorded_type(m); }

/* only linked in when the driver asks for -Wl,--wrap=pthread_mutex_init */
int __wrap_pthread_mutex_init(pthread_mutex_t *m, const pthread_mutexattr_t *a)
{
	int ty = PTHREAD_MUTEX_DEFAULT;
	if (a && pthread_mutexattr_gettype(a, &ty) != 0) ty = PTHREAD_MUTEX_DEFAULT;
	int slot = -1;
	for (int i = 0; i < nmt && i < MAXMT; i++) if (mt_addr[i] == m) slot = i;
	if (slot < 0) { slot = nmt % MAXMT; if (nmt < MAXMT) nmt++; }
	mt_addr[slot] = m; mt_type[slot] = ty;
	for (int i = 0; i < nmtx; i++) if (mtx_addr[i] == m) { mtx_owner[i] = -1; mtx_depth[i] = 0; mtx_type[i] = ty; }
	return __real_pthread_mutex_init ? __real_pthread_mutex_init(m, a) : 0;
}
static void wake_mutex_waiters(const void *m)
{
	for (int i = 0; i < NT; i++)
		if (T[i].state == ST_BLOCKED && T[i].wkind == W_MUTEX && T[i].wobj == m) {
			T[i].state = ST_RUN; T[i].wkind = W_NONE;
		}
}
static void acquire_mutex(const void *m)
{
	int k = midx(m);
	while (mtx_owner[k] != -1) {
		T[me].state = ST_BLOCKED; T[me].wkind = W_MUTEX; T[me].wobj = m;
		resched();
	}
	mtx_owner[k] = me;
}

int __wrap_pthread_mutex_lock(pthread_mutex_t *m)
{
	if (me < 0) return __real_pthread_mutex_lock(m);
	char buf[48];
	vs_point();
	{
		int k = midx(m);
		if (mtx_owner[k] == me && mtx_type[k] == PTHREAD_MUTEX_ERRORCHECK) {
			printf("E %d mlock %s none 0 0 %d\n", me, nm(m, buf), EDEADLK);
			vs_after();
			return EDEADLK;
		}
		if (mtx_owner[k] == me && mtx_type[k] == PTHREAD_MUTEX_RECURSIVE) {
			mtx_depth[k]++;
			printf("E %d mlock %s none 0 %d 0\n", me, nm(m, buf), mtx_depth[k]);
			vs_after();
			return 0;
		}
		/* default type: a lock by the owner waits for an unlock that cannot come */
	}
	acquire_mutex(m);
	printf("E %d mlock %s none 0 0 0\n", me, nm(m, buf));
	vs_after();
	return 0;
}
int __wrap_pthread_mutex_trylock(pthread_mutex_t *m)
{
	if (me < 0) return __real_pthread_mutex_trylock(m);
	char buf[48];
	vs_point();
	int k = midx(m), ok = mtx_owner[k] == -1;
	if (ok) mtx_owner[k] = me;
	else if (mtx_owner[k] == me && mtx_type[k] == PTHREAD_MUTEX_RECURSIVE) {
		mtx_depth[k]++;
		printf("E %d mtry %s none 1 %d 0\n", me, nm(m, buf), mtx_depth[k]);
		vs_after();
		return 0;
	}
	printf("E %d mtry %s none %d 0 0\n", me, nm(m, buf), ok);
	vs_after();
	return ok ? 0 : EBUSY;
}
int __wrap_pthread_mutex_unlock(pthread_mutex_t *m)
{
	if (me < 0) return __real_pthread_mutex_unlock(m);
	char buf[48];
	vs_point();
	int k = midx(m);
	if (mtx_type[k] == PTHREAD_MUTEX_ERRORCHECK && mtx_owner[k] != me) {
		printf("E %d munlock %s none 0 0 %d\n", me, nm(m, buf), EPERM);
		vs_after();
		return EPERM;
	}
	if (mtx_type[k] == PTHREAD_MUTEX_RECURSIVE && mtx_owner[k] == me && mtx_depth[k] > 0) {
		mtx_depth[k]--;
		printf("E %d munlock %s none 0 %d 0\n", me, nm(m, buf), mtx_depth[k] + 1);
		vs_after();
		return 0;
	}
	mtx_owner[k] = -1;
	wake_mutex_waiters(m);
	printf("E %d munlock %s none 0 0 0\n", me, nm(m, buf));
	vs_after();
	return 0;
}
static int cv_wait_common(pthread_cond_t *c, pthread_mutex_t *m)
{
	char buf[48], buf2[48];
	vs_point();
	int k = midx(m);
	mtx_owner[k] = -1;
	wake_mutex_waiters(m);
	printf("E %d cvwait %s none 0 0 0\n", me, nm(c, buf));
	T[me].state = ST_BLOCKED; T[me].wkind = W_CV; T[me].wobj = c;
	resched();
	acquire_mutex(m);
	printf("E %d cvwoke %s none 0 0 0\n", me, nm(c, buf2));
	vs_after();
	return 0;
}
int __wrap_pthread_cond_wait(pthread_cond_t *c, pthread_mutex_t *m)
{
	if (me < 0) return __real_pthread_cond_wait(c, m);
	return cv_wait_common(c, m);
}
int __wrap_pthread_cond_timedwait(pthread_cond_t *c, pthread_mutex_t *m, const struct timespec *t)
{
	if (me < 0) return __real_pthread_cond_timedwait(c, m, t);
	return cv_wait_common(c, m);
}
static int cv_wake(pthread_cond_t *c, int all)
{
	char buf[48];
	vs_point();
	int w = 0, cand[VS_MAXT], nc = 0;
	for (int i = 0; i < NT; i++)
		if (T[i].state == ST_BLOCKED && T[i].wkind == W_CV && T[i].wobj == c) cand[nc++] = i;
	int first = -1;
	if (nc > 0) {
		if (all) {
			for (int i = 0; i < nc; i++) { T[cand[i]].state = ST_RUN; T[cand[i]].wkind = W_NONE; w++; }
			first = cand[0];
		} else {
			int j = (mode == 0) ? (int)(rnd() % nc) : 0;
			T[cand[j]].state = ST_RUN; T[cand[j]].wkind = W_NONE; w = 1; first = cand[j];
		}
	}
	printf("E %d %s %s none %d %d 0\n", me, all ? "cvall" : "cvsig", nm(c, buf), w, first);
	vs_after();
	return 0;
}
int __wrap_pthread_cond_signal(pthread_cond_t *c)
{
	if (me < 0) return __real_pthread_cond_signal(c);
	return cv_wake(c, 0);
}
int __wrap_pthread_cond_broadcast(pthread_cond_t *c)
{
	if (me < 0) return __real_pthread_cond_broadcast(c);
	return cv_wake(c, 1);
}
int __wrap_sched_yield(void)
{
	if (me < 0) return __real_sched_yield();
	vs_point();
	printf("E %d yield - none 0 0 0\n", me);
	cur_nonprog = 1;
	vs_after();
	return 0;
}
int __wrap_nanosleep(const struct timespec *a, struct timespec *b)
{
	if (me < 0) return __real_nanosleep(a, b);
	vs_point();
	printf("E %d yield - none 1 0 0\n", me);
	if (vclk_on && a) {
		/* virtual clock on: the thread really is away for the requested (virtual) time */
		long long d = (long long)a->tv_sec * 1000000000LL + a->tv_nsec;
		if (d > 0) {
			T[me].state = ST_BLOCKED; T[me].wkind = W_SLEEP; wake_ns[me] = vnow_ns + d;
			resched();
			if (b) { b->tv_sec = 0; b->tv_nsec = 0; }
			return 0;
		}
	}
	vs_after();
	return 0;
}

/* ---------------- virtual clock API ---------------- */
void vs_clock_enable(long long start_ns, long long tick_ns, long long jump_ns)
{
	vclk_on = 1; vnow_ns = start_ns; vtick_ns = tick_ns < 0 ? 0 : tick_ns; vjump_ns = jump_ns < 0 ? 0 : jump_ns;
}
int vs_clock_on(void) { return vclk_on; }
long long vs_clock_now_ns(void) { return vnow_ns; }
void vs_hold_self(long long ns)
{
	if (me < 0 || !vclk_on || ns <= 0) return;
	hold_req[me] += ns;
}

/* ---------------- additions for blocking I/O (harness/vsched/vs_io.c) ----------------
 * A thread that waits for I/O stays ST_RUN and re-polls when scheduled.  When its re-poll
 * finds nothing and no other thread is runnable, nothing can ever make the descriptor ready:
 * vs_io reports that as a deadlock.  Pure additions; nothing above uses them. */
int vs_others_runnable(void)
{
	for (int i = 0; i < NT; i++) if (i != me && T[i].state == ST_RUN) return 1;
	return 0;
}
void vs_io_deadlock(const char *what)
{
	printf("DEADLOCK");
	for (int i = 0; i < NT; i++) {
		if (i == me) printf(" T%d:%s", i, what);
		else if (T[i].state == ST_BLOCKED) printf(" T%d:%s", i,
			T[i].wkind == W_FUTEX ? "futex" : T[i].wkind == W_MUTEX ? "mutex" : "cv");
	}
	printf("\n");
	finish_run(1);
	if (me >= 0) park_forever();
}
