/* vsched extension: poll/select/epoll_wait as re-polled scheduling points, eventfd
 * read/write as logged scheduling points (see vs_io.c).  Link with
 * -Wl,--wrap=poll,--wrap=select,--wrap=epoll_wait,--wrap=read,--wrap=write
 * (lib/vcommon.build_vsched_driver: extra_c=["harness/vsched/vs_io.c"], extra_wraps=VS_IO_WRAPS). */
#ifndef VS_IO_H_
#define VS_IO_H_
#ifdef __cplusplus
extern "C" {
#endif
void vs_io_reset(void);
void vs_io_set_signal_fd(int fd);   /* the descriptor (eventfd) whose traffic is logged as efd/sig */
#ifdef __cplusplus
}
#endif
#endif
