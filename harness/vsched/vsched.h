/* Deterministic scheduler for co-simulation of the real library (DESIGN.md 4.3). */
#ifndef VSCHED_H_
#define VSCHED_H_
#include <stdint.h>
#ifdef __cplusplus
extern "C" {
#endif
#define VS_MAXT 12

void vs_reset(void);                                  /* new scenario */
void vs_name(const void *addr, const char *fmt, ...); /* symbolic cell name for the log */
void vs_name_range(const void *base, unsigned long stride, unsigned long count, const char *prefix);
int vs_spawn(void (*fn)(void *), void *arg);          /* returns tid (0,1,..) */
/* schedule spec: "rand <seed> <stick%> <spur%> <cvspur%> [<fspur%> [<fwake%>]]"  or
 * "list <spur-indices,>|- t0 t1 t2 ...".  Optional futex-wait choices (default off): a
 * muggle_sync_wait that would block returns -1/EINTR instead (logged "E t fwait cell none val cur 2")
 * with probability fspur%, or 0 as a spurious wake-up (c = 3) with probability fwake%; in list mode the
 * spur-indices token may contain "f<k>" / "w<k>" = the k-th would-block futex wait is interrupted / woken. */
void vs_set_schedule(const char *spec);
void vs_set_budget(long steps);
/* runs all spawned threads to completion; returns 0 ok, 1 deadlock, 2 livelock (the event
 * DEADLOCK/LIVELOCK has been printed; the caller must finish the case and exit(77)) */
int vs_run(void);
void vs_note(const char *fmt, ...);                   /* "R <tid> text" in trace order */
void vs_yield_point(const char *what);                /* harness-owned scheduling point (plain work) */
int vs_tid(void);
int vs_active(void);
/* PTHREAD_MUTEX_* type the scheduler's mutex honours for this address: the one given to pthread_mutex_init when
 * the driver links with -Wl,--wrap=pthread_mutex_init, PTHREAD_MUTEX_DEFAULT otherwise */
int vs_mutex_type(const void *m);
long vs_steps(void);
/* virtual clock (optional; off after vs_reset()).  vs_clock_enable: virtual time starts at start_ns, advances by
 * tick_ns per scheduling step, jumps by jump_ns whenever every runnable thread is spinning, and jumps to the
 * earliest wake time when nobody is runnable.  vs_hold_self(ns): the calling scheduled thread is suspended at its
 * next scheduling point for ns of virtual time (no event is logged).  With the clock on nanosleep() blocks for
 * the requested virtual time; harness/vsched/vs_clock.c (link with -Wl,--wrap=time,--wrap=clock_gettime,
 * --wrap=gettimeofday) makes time()/clock_gettime()/gettimeofday() of scheduled threads read this clock. */
void vs_clock_enable(long long start_ns, long long tick_ns, long long jump_ns);
int vs_clock_on(void);
long long vs_clock_now_ns(void);
void vs_hold_self(long long ns);
#ifdef __cplusplus
}
#endif
#endif
