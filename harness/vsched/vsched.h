/* Deterministic scheduler for co-simulation of the real library (DESIGN.md 4.3). */
#ifndef VSCHED_H_
#define VSCHED_H_
#include <stdint.h>
#ifdef __cplusplus
extern "C" {
#endif
#define VS_MAXT 12

void vs_reset(void);                                  /* new scenario */
void vs_name(const void *addr, const char *fmt, ...); /* symbolic cell name for the log */
void vs_name_range(const void *base, unsigned long stride, unsigned long count, const char *prefix);
int vs_spawn(void (*fn)(void *), void *arg);          /* returns tid (0,1,..) */
/* schedule spec: "rand <seed> <stick%> <spur%> <cvspur%> [<fspur%> [<fwake%>]]"  or
 * "list <spur-indices,>|- t0 t1 t2 ...".  Optional futex-wait choices (default off): a
 * muggle_sync_wait that would block returns -1/EINTR instead (logged "E t fwait cell none val cur 2")
 * with probability fspur%, or 0 as a spurious wake-up (c = 3) with probability fwake%; in list mode the
 * spur-indices token may contain "f<k>" / "w<k>" = the k-th would-block futex wait is interrupted / woken. */
void vs_set_schedule(const char *spec);
void vs_set_budget(long steps);
/* runs all spawned threads to completion; returns 0 ok, 1 deadlock, 2 livelock (the event
 * DEADLOCK/LIVELOCK has been printed; the caller must finish the case and exit(77)) */
int vs_run(void);
void vs_note(const char *fmt, ...);                   /* "R <tid> text" in trace order */
void vs_yield_point(const char *what);                /* harness-owned scheduling point (plain work) */
int vs_tid(void);
int vs_active(void);
long vs_steps(void);
#ifdef __cplusplus
}
#endif
#endif
