/* Forced include (-include) when compiling repository sources for the concurrent
 * properties: every muggle_atomic_* operation becomes
 *   scheduling point ; the real __atomic builtin ; event log ; scheduling point
 * No repository file is modified.  Outside a scheduled thread the hooks are
 * transparent (vs_active() == 0). */
#ifndef VS_HOOKS_H_
#define VS_HOOKS_H_
#include "muggle/c/base/atomic.h"

#ifdef __cplusplus
extern "C" {
#endif
void vs_point(void);   /* scheduling point (before an operation: closes the plain segment) */
void vs_after(void);   /* scheduling point after an operation */
void vs_log(const char *op, const void *addr, int mo, long long a, long long b, long long c, const char *fn);
int vs_spurious(const void *addr);   /* schedule choice: weak CAS fails spuriously */
#ifdef __cplusplus
}
#endif

#undef muggle_atomic_load
#define muggle_atomic_load(ptr, mo) __extension__({ \
	vs_point(); __typeof__(*(ptr)) _vs_v = __atomic_load_n((ptr), (mo)); \
	vs_log("load", (const void *)(ptr), (mo), (long long)_vs_v, 0, 0, __func__); vs_after(); _vs_v; })

#undef muggle_atomic_store
#define muggle_atomic_store(ptr, val, mo) __extension__({ \
	vs_point(); __typeof__(*(ptr)) _vs_v = (val); __atomic_store_n((ptr), _vs_v, (mo)); \
	vs_log("store", (const void *)(ptr), (mo), (long long)_vs_v, 0, 0, __func__); vs_after(); })

#define VS_XCHG(ptr, val, mo) __extension__({ \
	vs_point(); __typeof__(*(ptr)) _vs_n = (val); __typeof__(*(ptr)) _vs_o = __atomic_exchange_n((ptr), _vs_n, (mo)); \
	vs_log("xchg", (const void *)(ptr), (mo), (long long)_vs_o, (long long)_vs_n, 0, __func__); vs_after(); _vs_o; })
#undef muggle_atomic_exchange
#define muggle_atomic_exchange(ptr, val, mo) VS_XCHG(ptr, val, mo)
#undef muggle_atomic_exchange32
#define muggle_atomic_exchange32(ptr, val, mo) VS_XCHG(ptr, val, mo)
#undef muggle_atomic_exchange64
#define muggle_atomic_exchange64(ptr, val, mo) VS_XCHG(ptr, val, mo)

/* log: a = value observed, b = desired, c = result (1 success, 0 failure, 2 spurious failure).
 * C11: a weak CAS may fail spuriously, leaving *expected equal to the observed value. */
#define VS_CAS(ptr, exp, des, mo, weak) __extension__({ \
	vs_point(); int _vs_r; __typeof__(*(ptr)) _vs_d = (des); long long _vs_obs; \
	if ((weak) && __atomic_load_n((ptr), __ATOMIC_RELAXED) == *(exp) && vs_spurious((const void *)(ptr))) { \
		_vs_obs = (long long)*(exp); _vs_r = 2; \
	} else { \
		_vs_r = __atomic_compare_exchange_n((ptr), (exp), _vs_d, 0, (mo), __ATOMIC_RELAXED) ? 1 : 0; \
		_vs_obs = _vs_r ? (long long)*(exp) : (long long)*(exp); \
	} \
	vs_log((weak) ? "casw" : "cass", (const void *)(ptr), (mo), _vs_obs, (long long)_vs_d, _vs_r, __func__); \
	vs_after(); _vs_r == 1; })
#undef muggle_atomic_cmp_exch_weak
#define muggle_atomic_cmp_exch_weak(ptr, exp, des, mo) VS_CAS(ptr, exp, des, mo, 1)
#undef muggle_atomic_cmp_exch_weak32
#define muggle_atomic_cmp_exch_weak32(ptr, exp, des, mo) VS_CAS(ptr, exp, des, mo, 1)
#undef muggle_atomic_cmp_exch_weak64
#define muggle_atomic_cmp_exch_weak64(ptr, exp, des, mo) VS_CAS(ptr, exp, des, mo, 1)
#undef muggle_atomic_cmp_exch_strong
#define muggle_atomic_cmp_exch_strong(ptr, exp, des, mo) VS_CAS(ptr, exp, des, mo, 0)
#undef muggle_atomic_cmp_exch_strong32
#define muggle_atomic_cmp_exch_strong32(ptr, exp, des, mo) VS_CAS(ptr, exp, des, mo, 0)
#undef muggle_atomic_cmp_exch_strong64
#define muggle_atomic_cmp_exch_strong64(ptr, exp, des, mo) VS_CAS(ptr, exp, des, mo, 0)

#define VS_FADD(ptr, val, mo, name, builtin) __extension__({ \
	vs_point(); __typeof__(*(ptr)) _vs_a = (val); __typeof__(*(ptr)) _vs_o = builtin((ptr), _vs_a, (mo)); \
	vs_log(name, (const void *)(ptr), (mo), (long long)_vs_o, (long long)_vs_a, 0, __func__); vs_after(); _vs_o; })
#undef muggle_atomic_fetch_add
#define muggle_atomic_fetch_add(ptr, val, mo) VS_FADD(ptr, val, mo, "fadd", __atomic_fetch_add)
#undef muggle_atomic_fetch_add32
#define muggle_atomic_fetch_add32(ptr, val, mo) VS_FADD(ptr, val, mo, "fadd", __atomic_fetch_add)
#undef muggle_atomic_fetch_add64
#define muggle_atomic_fetch_add64(ptr, val, mo) VS_FADD(ptr, val, mo, "fadd", __atomic_fetch_add)
#undef muggle_atomic_fetch_sub
#define muggle_atomic_fetch_sub(ptr, val, mo) VS_FADD(ptr, val, mo, "fsub", __atomic_fetch_sub)
#undef muggle_atomic_fetch_sub32
#define muggle_atomic_fetch_sub32(ptr, val, mo) VS_FADD(ptr, val, mo, "fsub", __atomic_fetch_sub)
#undef muggle_atomic_fetch_sub64
#define muggle_atomic_fetch_sub64(ptr, val, mo) VS_FADD(ptr, val, mo, "fsub", __atomic_fetch_sub)

/* the library's macro returns !previous : true = acquired.  log a = previous value */
#undef muggle_atomic_test_and_set
#define muggle_atomic_test_and_set(ptr, mo) __extension__({ \
	vs_point(); int _vs_o = __atomic_test_and_set((ptr), (mo)) ? 1 : 0; \
	vs_log("tas", (const void *)(ptr), (mo), _vs_o, 0, 0, __func__); vs_after(); !_vs_o; })
#undef muggle_atomic_clear
#define muggle_atomic_clear(ptr, mo) __extension__({ \
	vs_point(); __atomic_clear((ptr), (mo)); \
	vs_log("clear", (const void *)(ptr), (mo), 0, 0, 0, __func__); vs_after(); })
#undef muggle_atomic_thread_fence
#define muggle_atomic_thread_fence(mo) __extension__({ \
	vs_point(); __atomic_thread_fence(mo); vs_log("fence", (const void *)0, (mo), 0, 0, 0, __func__); vs_after(); })

#endif /* VS_HOOKS_H_ */
