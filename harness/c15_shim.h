/* C15 shim: event log, context/fd tables, fault switches and accounting shared by
 * harness/c15_shim.c (the -Wl,--wrap interposers) and harness/drivers/c15_driver.c.
 * Wrapped with -Wl,--wrap: muggle_evloop_add_ctx close accept read write poll select epoll_wait
 * malloc free calloc realloc */
#ifndef C15_SHIM_H_
#define C15_SHIM_H_
#include <stddef.h>
#include <stdio.h>

#define SH_MAXCTX 512
#define SH_MAXFD 4096
#define SH_FD_NONE (-1)
#define SH_FD_NEW (-2)      /* accepted descriptor that has no context yet */

/* ---- log (one total order, appended under one mutex) ---- */
void sh_reset(void);
void sh_lock(void);
void sh_unlock(void);
void sh_logf_locked(const char *fmt, ...);          /* caller holds the lock */
void sh_logf(const char *fmt, ...);                 /* takes the lock */
void sh_log_hex(const char *prefix, const unsigned char *p, size_t n); /* takes the lock */
void sh_dump(FILE *fp);

/* ---- context table: ids in allocation order ---- */
int sh_ctx_new_locked(void *ctx);       /* caller holds the lock; returns id */
int sh_ctx_id(void *ctx);               /* live contexts only; -1 = unknown pointer */
void sh_ctx_dead_locked(int id);        /* pointer no longer valid */
void sh_ctx_late_locked(int id);        /* ... taken back by its owner (late hand-over): not counted as freed */
int sh_ctx_allocs(void);
int sh_ctx_frees(void);
void sh_map_fd(int fd, int id);
int sh_fd_owner(int fd);

/* ---- faults: 1-based call indices ---- */
#define SH_ADD_WRAP 1       /* muggle_evloop_add_ctx returns -1 without running */
#define SH_ADD_MALLOC 2     /* the next malloc inside the real call fails */
void sh_fault_add(int index, int mode);
void sh_fault_accept(int index);
int sh_add_calls(void);
extern __thread int sh_fail_next_malloc;

/* ---- pipe byte-level interposition ---- */
void sh_pipe_fds(int rfd, int wfd, unsigned long long seed, int rfrag, int wfrag);
void sh_pipe_writer_id(int w);          /* thread-local writer id for the W lines */

/* ---- event signal and back-end wait of the loop thread (lines sigw / sigr / idle) ---- */
void sh_signal_fd(int fd);              /* the loop's event signal descriptor (eventfd); -1 none */
extern __thread int sh_sig_tag;         /* >= 0: this thread is inside the hand-over of that context id */
void sh_loop_thread(int on);            /* the calling thread runs muggle_evloop_run: its waits are logged */
long sh_idle_count(void);               /* empty wait attempts of the loop thread so far */
int sh_loop_blocked(void);              /* the loop thread found nothing ready and is still in its wait */
int sh_loop_quiet(void);                /* ... and nothing in the set it waits on is ready (asked again, timeout 0,
                                           nothing consumed): nothing will end that wait */
long sh_wait_epoch(void);               /* number of waits of the loop thread that found nothing so far */

/* ---- accounting ---- */
long sh_heap_live(void);
int sh_open_fds(void);
int sh_badclose(void);

/* ---- configurations without user callbacks ---- */
void sh_default_alloc(int on);          /* the handle keeps the library's default allocator: name contexts at their
                                           first muggle_evloop_add_ctx ("alloc <id>"), log their free ("free <id>") */
void sh_log_reads(int on);              /* no cb_msg: log the loop thread's reads on context descriptors ("rd ..") */

/* hooks implemented by the driver */
void drv_on_reg(int id, int ret);       /* muggle_evloop_add_ctx(ctx id) returned ret */
void drv_on_alloc(int id, void *ctx);   /* default allocator: context first seen (log lock held) */
void drv_on_read(int id, long n);       /* no cb_msg: the default loop read n bytes of context id */
#endif
