/* C16 allocation accounting shim (linked with -Wl,--wrap=malloc,free,calloc,realloc,aligned_alloc).
 * Counts only allocations made by objects of this link (repository code + driver) while the
 * window is open; libc-internal allocations (stdio buffers) do not pass through --wrap.
 *   c16_acct_begin()            open the window, forget everything
 *   c16_acct_live()             tracked blocks still allocated
 *   c16_acct_fail_at(k)         the k-th (1-based) tracked malloc from now returns NULL (0 = never)
 *   c16_acct_fill(on, v)        while on, every tracked malloc'ed block is filled with the repeating 64-bit word v
 *                               (malloc promises nothing about fresh memory: a field the code never writes then
 *                               reads as v instead of whatever the allocator happened to leave there)
 * Under the deterministic scheduler each tracked malloc/free made by a scheduled thread is
 * also written to the trace as a note ("R <tid> malloc <id>" / "R <tid> free <id>"). */
#include <stddef.h>
#include <stdint.h>
#include <string.h>
#include "vsched/vsched.h"

void *__real_malloc(size_t n);
void __real_free(void *p);
void *__real_calloc(size_t a, size_t b);
void *__real_realloc(void *p, size_t n);
void *__real_aligned_alloc(size_t al, size_t n);

#define TBL (1u << 14)
static void *tbl_ptr[TBL];
static int tbl_id[TBL];
static volatile int lock_word;
static int window, live, next_id, fail_at, malloc_count;
static long total_mallocs, total_frees;
int c16_acct_notes = 1;
static int fill_on;
static uint64_t fill_val;
void c16_acct_fill(int on, uint64_t v) { fill_on = on; fill_val = v; }

static void lk(void) { while (__atomic_exchange_n(&lock_word, 1, __ATOMIC_ACQUIRE)) { } }
static void ul(void) { __atomic_store_n(&lock_word, 0, __ATOMIC_RELEASE); }

void c16_acct_begin(void)
{
	lk();
	memset(tbl_ptr, 0, sizeof(tbl_ptr));
	window = 1; live = 0; next_id = 0; fail_at = 0; malloc_count = 0; total_mallocs = total_frees = 0;
	ul();
}
void c16_acct_end(void) { lk(); window = 0; ul(); }
int c16_acct_live(void) { return live; }
long c16_acct_mallocs(void) { return total_mallocs; }
long c16_acct_frees(void) { return total_frees; }
void c16_acct_fail_at(int k) { lk(); fail_at = k; malloc_count = 0; ul(); }

static unsigned hsh(void *p) { return (unsigned)(((uintptr_t)p >> 4) * 2654435761u) & (TBL - 1); }

static int track(void *p)
{
	unsigned h = hsh(p);
	for (unsigned k = 0; k < TBL; k++, h = (h + 1) & (TBL - 1))
		if (tbl_ptr[h] == NULL || tbl_ptr[h] == (void *)1) {
			tbl_ptr[h] = p; tbl_id[h] = next_id++; live++; total_mallocs++;
			return tbl_id[h];
		}
	return -1;
}
static int untrack(void *p)
{
	unsigned h = hsh(p);
	for (unsigned k = 0; k < TBL; k++, h = (h + 1) & (TBL - 1)) {
		if (tbl_ptr[h] == p) { tbl_ptr[h] = (void *)1; live--; total_frees++; return tbl_id[h]; }
		if (tbl_ptr[h] == NULL) return -1;
	}
	return -1;
}

/* returns 1 when this allocation must fail (fault injection) */
static int should_fail(void)
{
	if (!window || fail_at <= 0) return 0;
	malloc_count++;
	if (malloc_count == fail_at) { fail_at = 0; return 1; }
	return 0;
}

static void note(const char *what, int id)
{
	if (c16_acct_notes && vs_active() && id >= 0) vs_note("%s %d", what, id);
}

void *__wrap_malloc(size_t n)
{
	int id = -1;
	lk();
	int f = should_fail();
	ul();
	if (f) { if (c16_acct_notes && vs_active()) vs_note("mallocfail"); return NULL; }
	void *p = __real_malloc(n);
	lk();
	if (window && p) id = track(p);
	ul();
	if (window && p && fill_on) {
		size_t k = 0;
		for (; k + 8 <= n; k += 8) memcpy((char *)p + k, &fill_val, 8);
		if (k < n) memcpy((char *)p + k, &fill_val, n - k);
	}
	note("malloc", id);
	return p;
}
void *__wrap_calloc(size_t a, size_t b)
{
	int id = -1;
	void *p = __real_calloc(a, b);
	lk();
	if (window && p) id = track(p);
	ul();
	note("malloc", id);
	return p;
}
void *__wrap_aligned_alloc(size_t al, size_t n)
{
	int id = -1;
	void *p = __real_aligned_alloc(al, n);
	lk();
	if (window && p) id = track(p);
	ul();
	note("malloc", id);
	return p;
}
void *__wrap_realloc(void *p, size_t n)
{
	int id = -1, id2 = -1;
	lk();
	if (p) id = untrack(p);
	ul();
	void *q = __real_realloc(p, n);
	lk();
	if (q && (id >= 0 || (window && !p))) id2 = track(q);
	ul();
	(void)id2;
	return q;
}
void __wrap_free(void *p)
{
	int id = -1;
	if (p) { lk(); id = untrack(p); ul(); }
	note("free", id);
	__real_free(p);
}
