/* C16: prints the constants the Coq development depends on, from the repository headers. */
#include <stdio.h>
#include "muggle/c/log/log_msg.h"
#include "muggle/c/log/log_level.h"
#include "muggle/c/log/log_logger.h"
int main(void)
{
	printf("limit %d\n", (int)MUGGLE_LOG_MSG_MAX_LEN);
	printf("offset %d\n", (int)MUGGLE_LOG_LEVEL_OFFSET);
	printf("trace %d\n", (int)MUGGLE_LOG_LEVEL_TRACE);
	printf("debug %d\n", (int)MUGGLE_LOG_LEVEL_DEBUG);
	printf("info %d\n", (int)MUGGLE_LOG_LEVEL_INFO);
	printf("warning %d\n", (int)MUGGLE_LOG_LEVEL_WARNING);
	printf("error %d\n", (int)MUGGLE_LOG_LEVEL_ERROR);
	printf("fatal %d\n", (int)MUGGLE_LOG_LEVEL_FATAL);
	printf("max_handler %d\n", (int)MUGGLE_LOGGER_MAX_HANDLER);
	return 0;
}
