/* C18 implementation driver.  One case = one (instance, fault set):
 *     inst <name> <id>
 *     fill <hex byte>           (optional: byte the object storage is filled with before the constructor; default 00)
 *     mode retry                (optional: after a reported failure the operation is RETRIED without faults and the
 *                                object is used further before destroy runs; default: destroy follows the failure)
 *     faults k1 k2 ...          (1-based indexes of the acquisition calls that fail; may be empty)
 * The object is pre-built without faults where the instance says so, the
 * operation runs with the faults armed, then the matching destroy runs.
 * Output (compared with the model, judged by the monitor):
 *     pre live=<blocks+fds held by the pre-built object>
 *     op rc=<ok|fail> att=<calls attempted> live=<blocks+fds still held>
 *     unchanged <yes|NO ..>    (after a reported failure: the object's struct, its arrays and its contents are
 *                               byte-for-byte / element-for-element what they were before the call)
 *     retry rc=<ok|fail>       (mode retry, after a reported failure)
 *     cont rc=<ok|fail> live=<..>   (instances with continued use, once the operation or its retry succeeded:
 *                               more pushes / inserts / allocs up to and beyond the old capacity, contents compared
 *                               with the reference)
 *     destroy live=<..>     |  destroy skipped live=<..>
 * Caller-provided object storage is filled with the `fill` byte (00 or A5) before the constructor runs.
 * A crash (sanitizer report, signal) or a hang (watchdog) ends the process
 * without END and is reported by the batch runner. */
#include "vdrv.h"
#include "faultinj/faultinj.h"
#include <signal.h>
#include <unistd.h>
#include <fcntl.h>
#include <sys/socket.h>
#include <netinet/in.h>
#include <arpa/inet.h>

#include "muggle/c/muggle_c.h"

/* ---------------------------------------------------------------- objects */
static muggle_channel_t g_chan;
static muggle_ring_buffer_t g_rb;
static muggle_double_buffer_t g_db;
static muggle_array_blocking_queue_t g_abq;
static muggle_memory_pool_t g_mp;
static muggle_sowr_memory_pool_t g_sowr;
static muggle_ts_memory_pool_t g_ts;
static muggle_ring_memory_pool_t g_rp;
static muggle_pointer_slot_t g_ps;
static muggle_bytes_buffer_t g_bb;
static muggle_flow_controller_t g_fc;
static muggle_array_list_t g_al;
static muggle_heap_t g_heap;
static muggle_stack_t g_stack;
static muggle_avl_tree_t g_avl;
static muggle_hash_table_t g_ht;
static muggle_linked_list_t g_ll;
static muggle_queue_t g_q;
static muggle_trie_t g_trie;
static muggle_event_signal_t g_sig;
static muggle_event_loop_t *g_ev;
static muggle_event_context_t g_ctx, g_ctx2;
static muggle_socket_evloop_pipe_t g_evpipe;
static muggle_socket_context_t g_lctx, *g_hctx;
static int g_lfd = -1, g_cfd = -1, g_ufd = -1;
static int g_pipe[2] = { -1, -1 };
static muggle_socket_evloop_handle_t g_seh;
static muggle_socket_context_t g_sctx;
static muggle_async_logger_t g_alog;
static muggle_log_file_handler_t g_lfh;
static muggle_log_file_rotate_handler_t g_lrh;
static char g_logpath[600];
static int g_keys[8] = { 10, 20, 30, 40, 50, 60, 70, 80 };
static int g_more[32];                 /* extra keys 1000.. used by the continued-use phase */
static const char *g_mkeys[4] = { "x", "y", "xa", "yb" };
#if MUGGLE_SUPPORT_FAST_FLOW_CONTROLLER
static muggle_fast_flow_controller_t g_ffc;
#endif
static muggle_log_file_time_rot_handler_t g_ltr;
static muggle_log_console_handler_t g_lch;
static FILE *g_fp;
static char g_scratch[560];            /* scratch directory of this process (also its working directory) */
static muggle_socket_t g_sock = MUGGLE_INVALID_SOCKET, g_sp[2] = { MUGGLE_INVALID_SOCKET, MUGGLE_INVALID_SOCKET };
static char g_port[16];

/* ---------------------------------------------------------------- "the failed call changed nothing"
 * snapshot of the object (its struct and the arrays it points to) taken right before the operation runs; after a
 * reported failure every registered region must be byte-for-byte what it was (struct first: when a pointer field
 * changed the old arrays are not touched any more) */
static unsigned char g_snapbuf[32768];
static struct { const void *p; size_t n, off; } g_reg[40];
static int g_nreg;
static size_t g_snapoff;
static void snap_reset(void) { g_nreg = 0; g_snapoff = 0; }
static void snap_add(const void *p, size_t n)
{
	if (!p || !n || g_nreg >= 40 || g_snapoff + n > sizeof(g_snapbuf)) return;
	memcpy(g_snapbuf + g_snapoff, p, n);
	g_reg[g_nreg].p = p; g_reg[g_nreg].n = n; g_reg[g_nreg].off = g_snapoff;
	g_nreg++; g_snapoff += n;
}
static int snap_same(void)
{
	for (int i = 0; i < g_nreg; i++) if (memcmp(g_reg[i].p, g_snapbuf + g_reg[i].off, g_reg[i].n) != 0) return i + 1;
	return 0;
}
/* reference contents: what the container must hold (data pointers, in order where the container has an order) */
#define MAX_REF 16
static const void *g_ref[MAX_REF];
static int g_nref;
static int g_stored0;                  /* the operation stored its value (content instances) */
static void ref_add(const void *p) { if (g_nref < MAX_REF) g_ref[g_nref++] = p; }
static void ref_add_front(const void *p)
{
	if (g_nref >= MAX_REF) return;
	for (int i = g_nref; i > 0; i--) g_ref[i] = g_ref[i - 1];
	g_ref[0] = p; g_nref++;
}
static void *g_sortarr[5];

static int g_fill;      /* byte the object storage is filled with before the constructor: 0x00 or 0xA5 */
#define memset0(p, z, n) memset((p), g_fill, (n))
static void zero_all(void)
{
	memset0(&g_chan, 0, sizeof g_chan); memset0(&g_rb, 0, sizeof g_rb); memset0(&g_db, 0, sizeof g_db);
	memset0(&g_abq, 0, sizeof g_abq); memset0(&g_mp, 0, sizeof g_mp); memset0(&g_sowr, 0, sizeof g_sowr);
	memset0(&g_ts, 0, sizeof g_ts); memset0(&g_rp, 0, sizeof g_rp); memset0(&g_ps, 0, sizeof g_ps);
	memset0(&g_bb, 0, sizeof g_bb); memset0(&g_fc, 0, sizeof g_fc); memset0(&g_al, 0, sizeof g_al);
	memset0(&g_heap, 0, sizeof g_heap); memset0(&g_stack, 0, sizeof g_stack); memset0(&g_avl, 0, sizeof g_avl);
	memset0(&g_ht, 0, sizeof g_ht); memset0(&g_ll, 0, sizeof g_ll); memset0(&g_q, 0, sizeof g_q);
	memset0(&g_trie, 0, sizeof g_trie); memset0(&g_sig, 0, sizeof g_sig); g_ev = NULL;
	memset(&g_ctx, 0, sizeof g_ctx); memset0(&g_seh, 0, sizeof g_seh); memset(&g_sctx, 0, sizeof g_sctx);
	memset0(&g_alog, 0, sizeof g_alog); memset(&g_ctx2, 0, sizeof g_ctx2); memset0(&g_evpipe, 0, sizeof g_evpipe);
	memset0(&g_lfh, 0, sizeof g_lfh); memset0(&g_lrh, 0, sizeof g_lrh);
	memset(&g_lctx, 0, sizeof g_lctx); g_hctx = NULL; g_lfd = g_cfd = g_ufd = -1;
#if MUGGLE_SUPPORT_FAST_FLOW_CONTROLLER
	memset0(&g_ffc, 0, sizeof g_ffc);
#endif
	memset0(&g_ltr, 0, sizeof g_ltr); memset0(&g_lch, 0, sizeof g_lch); g_fp = NULL;
	g_sock = g_sp[0] = g_sp[1] = MUGGLE_INVALID_SOCKET;
	snap_reset(); g_nref = 0; g_stored0 = 0;
	for (int i = 0; i < 32; i++) g_more[i] = 1000 + i;
}

/* caller-owned values stored in containers; the destroy callback releases them and is counted */
#define MAX_VALS 8
static void *g_vals[MAX_VALS];
static int g_cb_count;
static void cb_free_val(void *pool, void *data) { (void)pool; g_cb_count++; free(data); }
static int make_vals(int n)
{
	for (int i = 0; i < n; i++) { g_vals[i] = malloc(24); if (!g_vals[i]) return 0; memset(g_vals[i], i, 24); }
	return 1;
}

static int cmp_int(const void *a, const void *b)
{
	int x = *(const int *)a, y = *(const int *)b;
	return x < y ? -1 : (x > y ? 1 : 0);
}
static int cmp_str(const void *a, const void *b) { return strcmp((const char *)a, (const char *)b); }

/* ---------------------------------------------------------------- sync */
static int op_chan_mutex(void)
{
	return muggle_channel_init(&g_chan, 8, MUGGLE_CHANNEL_FLAG_WRITE_MUTEX | MUGGLE_CHANNEL_FLAG_READ_MUTEX) == 0;
}
static int op_chan_default(void) { return muggle_channel_init(&g_chan, 8, 0) == 0; } /* WRITE_MUTEX | READ_SYNC */
static int op_chan_nolock(void)
{
	return muggle_channel_init(&g_chan, 8, MUGGLE_CHANNEL_FLAG_WRITE_SINGLE | MUGGLE_CHANNEL_FLAG_READ_BUSY) == 0;
}
static int op_chan_rmutex(void)
{
	return muggle_channel_init(&g_chan, 8, MUGGLE_CHANNEL_FLAG_WRITE_SPIN | MUGGLE_CHANNEL_FLAG_READ_MUTEX) == 0;
}
static void d_chan(void) { muggle_channel_destroy(&g_chan); }
static int op_rb(void) { return muggle_ring_buffer_init(&g_rb, 8, 0) == 0; }
static void d_rb(void) { muggle_ring_buffer_destroy(&g_rb); }
static int op_mar(void) { return muggle_ma_ring_thread_ctx_init() != NULL; }
static void d_mar(void) { muggle_ma_ring_thread_ctx_cleanup(); }
static int op_db(void) { return muggle_double_buffer_init(&g_db, 8, 0) == 0; }
static void d_db(void) { muggle_double_buffer_destroy(&g_db); }
static int op_abq(void) { return muggle_array_blocking_queue_init(&g_abq, 8) == 0; }
static void d_abq(void) { muggle_array_blocking_queue_destroy(&g_abq); }

/* ---------------------------------------------------------------- memory */
static int op_mp_init(void) { return muggle_memory_pool_init(&g_mp, 4, 16) ? 1 : 0; }
static int op_mp_ensure(void) { return muggle_memory_pool_ensure_space(&g_mp, 8) ? 1 : 0; }
/* blocks handed out by the pool: block i is filled with the byte 0x40 + i */
static void *g_blk[40];
static int g_nblk;
static int mp_take(void)
{
	void *b = muggle_memory_pool_alloc(&g_mp);
	if (!b || g_nblk >= 40) return 0;
	memset(b, 0x40 + g_nblk, 16);
	g_blk[g_nblk++] = b;
	return 1;
}
static int pre_mp_full(void)
{
	g_nblk = 0;
	if (!muggle_memory_pool_init(&g_mp, 4, 16)) return 0;
	for (int i = 0; i < 4; i++) if (!mp_take()) return 0;
	return 1;
}
static int pre_mp_empty(void) { g_nblk = 0; return muggle_memory_pool_init(&g_mp, 4, 16) ? 1 : 0; }
static int pre_mp_capped(void)
{
	g_nblk = 0;
	if (!muggle_memory_pool_init(&g_mp, 4, 16)) return 0;
	muggle_memory_pool_set_max_delta_cap(&g_mp, 2);
	for (int i = 0; i < 4; i++) if (!mp_take()) return 0;
	return 1;
}
static int op_mp_alloc(void) { return mp_take(); }
static void snap_mpool(const muggle_memory_pool_t *mp)
{
	if (!mp) return;
	snap_add(mp, sizeof(*mp));
	snap_add(mp->memory_pool_data_bufs, sizeof(void *) * mp->num_buf);
	snap_add(mp->memory_pool_ptr_buf, sizeof(void *) * mp->capacity);
}
static void snap_mp(void) { snap_mpool(&g_mp); }
/* every block handed out so far is distinct, inside the pool and still holds its own pattern */
static int chk_mp(void)
{
	if ((int)g_mp.used != g_nblk) return 0;
	for (int i = 0; i < g_nblk; i++) {
		const unsigned char *b = (const unsigned char *)g_blk[i];
		for (int k = 0; k < 16; k++) if (b[k] != (unsigned char)(0x40 + i)) return 0;
		for (int j = 0; j < i; j++) if (g_blk[j] == g_blk[i]) return 0;
	}
	return 1;
}
/* continued use: blocks are taken until the (grown) pool is exactly full - beyond the old capacity -, checked,
 * then the blocks taken here are given back */
static int cont_mp(void)
{
	int n0 = g_nblk;
	uint32_t cap = g_mp.capacity;
	while (g_mp.used < cap) if (!mp_take()) return 0;
	if (g_mp.capacity != cap || !chk_mp()) return 0;
	while (g_nblk > n0) muggle_memory_pool_free(&g_mp, g_blk[--g_nblk]);
	return chk_mp();
}
static void d_mp(void) { muggle_memory_pool_destroy(&g_mp); }
static int op_sowr(void) { return muggle_sowr_memory_pool_init(&g_sowr, 8, 16) == 0; }
static void d_sowr(void) { muggle_sowr_memory_pool_destroy(&g_sowr); }
static int op_ts(void) { return muggle_ts_memory_pool_init(&g_ts, 8, 16) == 0; }
static void d_ts(void) { muggle_ts_memory_pool_destroy(&g_ts); }
static int op_rp(void) { return muggle_ring_memory_pool_init(&g_rp, 8, 16) == 0; }
static void d_rp(void) { muggle_ring_memory_pool_destroy(&g_rp); }
static int op_ps(void) { return muggle_pointer_slot_init(&g_ps, 8) == 0; }
static void d_ps(void) { muggle_pointer_slot_destroy(&g_ps); }
static int op_bb(void) { return muggle_bytes_buffer_init(&g_bb, 64) ? 1 : 0; }
static void d_bb(void) { muggle_bytes_buffer_destroy(&g_bb); }
static int op_fc(void) { return muggle_flow_ctl_init(&g_fc, 1, 4, 0) ? 1 : 0; }
static void d_fc(void) { muggle_flow_ctl_destroy(&g_fc); }

/* ---------------------------------------------------------------- dsaa */
static int op_al_init(void) { return muggle_array_list_init(&g_al, 4) ? 1 : 0; }
static int op_al_ensure(void) { return muggle_array_list_ensure_capacity(&g_al, 16) ? 1 : 0; }
static int pre_al_full(void)
{
	if (!muggle_array_list_init(&g_al, 4)) return 0;
	for (int i = 0; i < 4; i++) { if (!muggle_array_list_append(&g_al, -1, &g_keys[i])) return 0; ref_add(&g_keys[i]); }
	return 1;
}
static int op_al_append(void) { if (!muggle_array_list_append(&g_al, -1, &g_keys[4])) return 0; ref_add(&g_keys[4]); return 1; }
static int op_al_insert(void) { if (!muggle_array_list_insert(&g_al, 0, &g_keys[4])) return 0; ref_add_front(&g_keys[4]); return 1; }
static void snap_al(void) { snap_add(&g_al, sizeof g_al); snap_add(g_al.nodes, sizeof(g_al.nodes[0]) * g_al.capacity); }
static int chk_al(void)
{
	if ((int)muggle_array_list_size(&g_al) != g_nref) return 0;
	for (int i = 0; i < g_nref; i++) {
		muggle_array_list_node_t *n = muggle_array_list_index(&g_al, i);
		if (!n || n->data != g_ref[i]) return 0;
	}
	return 1;
}
/* continued use: 20 more elements are appended (up to and beyond the old capacity), all are read back by index,
 * the 20 are removed again and the reference contents compared */
static int cont_al(void)
{
	int n0 = (int)muggle_array_list_size(&g_al);
	for (int i = 0; i < 20; i++) if (!muggle_array_list_append(&g_al, -1, &g_more[i])) return 0;
	if ((int)muggle_array_list_size(&g_al) != n0 + 20) return 0;
	for (int i = 0; i < 20; i++) {
		muggle_array_list_node_t *n = muggle_array_list_index(&g_al, n0 + i);
		if (!n || n->data != &g_more[i]) return 0;
	}
	for (int i = 19; i >= 0; i--) if (!muggle_array_list_remove(&g_al, n0 + i, NULL, NULL)) return 0;
	return chk_al();
}
static void d_al(void) { muggle_array_list_destroy(&g_al, NULL, NULL); }

static int op_heap_init(void) { return muggle_heap_init(&g_heap, cmp_int, 4) ? 1 : 0; }
static int op_heap_ensure(void) { return muggle_heap_ensure_capacity(&g_heap, 16) ? 1 : 0; }
static int pre_heap_full(void)
{
	if (!muggle_heap_init(&g_heap, cmp_int, 4)) return 0;
	for (int i = 0; i < 4; i++) { if (!muggle_heap_insert(&g_heap, &g_keys[i], NULL)) return 0; ref_add(&g_keys[i]); }
	return 1;
}
static int op_heap_insert(void) { if (!muggle_heap_insert(&g_heap, &g_keys[4], NULL)) return 0; ref_add(&g_keys[4]); return 1; }
static void snap_heap(void) { snap_add(&g_heap, sizeof g_heap); snap_add(g_heap.nodes, sizeof(g_heap.nodes[0]) * (g_heap.capacity + 1)); }
static int g_heap_ref_is_value;        /* the reference holds the stored VALUES (content instance), not the keys */
static int chk_heap(void)
{
	if ((int)g_heap.size != g_nref) return 0;
	for (int i = 0; i < g_nref; i++) {
		int found = 0;
		for (uint64_t k = 1; k <= g_heap.size; k++)
			if ((g_heap_ref_is_value ? g_heap.nodes[k].value : g_heap.nodes[k].key) == g_ref[i]) found++;
		if (found != 1) return 0;
	}
	return 1;
}
/* continued use: 20 smaller keys are inserted (beyond the old capacity); being a min-heap (by cmp) they come out
 * first, in ascending order; afterwards the reference contents are compared */
static int g_less[20];
static int cont_heap(void)
{
	muggle_heap_node_t nd;
	for (int i = 0; i < 20; i++) g_less[i] = -100 + i;
	for (int i = 0; i < 20; i++) if (!muggle_heap_insert(&g_heap, &g_less[(i * 7) % 20], NULL)) return 0;
	if ((int)g_heap.size != g_nref + 20) return 0;
	for (int i = 0; i < 20; i++) { if (!muggle_heap_extract(&g_heap, &nd) || nd.key != &g_less[i]) return 0; }
	return chk_heap();
}

static void d_heap(void) { muggle_heap_destroy(&g_heap, NULL, NULL, NULL, NULL); }

static int op_stack_init(void) { return muggle_stack_init(&g_stack, 4) ? 1 : 0; }
static int op_stack_ensure(void) { return muggle_stack_ensure_capacity(&g_stack, 16) ? 1 : 0; }
static int pre_stack_full(void)
{
	if (!muggle_stack_init(&g_stack, 4)) return 0;
	for (int i = 0; i < 4; i++) { if (!muggle_stack_push(&g_stack, &g_keys[i])) return 0; ref_add(&g_keys[i]); }
	return 1;
}
static int op_stack_push(void) { if (!muggle_stack_push(&g_stack, &g_keys[4])) return 0; ref_add(&g_keys[4]); return 1; }
static void snap_stack(void) { snap_add(&g_stack, sizeof g_stack); snap_add(g_stack.nodes, sizeof(g_stack.nodes[0]) * g_stack.capacity); }
static int chk_stack(void)
{
	if ((int)muggle_stack_size(&g_stack) != g_nref) return 0;
	for (int i = 0; i < g_nref; i++) if (g_stack.nodes[i].data != g_ref[i]) return 0;
	if (g_nref && muggle_stack_top(&g_stack)->data != g_ref[g_nref - 1]) return 0;
	return 1;
}
/* continued use: 20 more pushes (up to and beyond the old capacity), popped again in LIFO order, then the reference
 * contents are compared */
static int cont_stack(void)
{
	int n0 = (int)muggle_stack_size(&g_stack);
	for (int i = 0; i < 20; i++) if (!muggle_stack_push(&g_stack, &g_more[i])) return 0;
	if ((int)muggle_stack_size(&g_stack) != n0 + 20) return 0;
	for (int i = 19; i >= 0; i--) {
		muggle_stack_node_t *t = muggle_stack_top(&g_stack);
		if (!t || t->data != &g_more[i]) return 0;
		muggle_stack_pop(&g_stack, NULL, NULL);
	}
	return chk_stack();
}
static void d_stack(void) { muggle_stack_destroy(&g_stack, NULL, NULL); }

static int op_avl_init(void) { return muggle_avl_tree_init(&g_avl, cmp_int, 8) ? 1 : 0; }
static int pre_avl0(void)
{
	ref_add(&g_keys[0]);
	return muggle_avl_tree_init(&g_avl, cmp_int, 0) && muggle_avl_tree_insert(&g_avl, &g_keys[0], NULL);
}
static int pre_avl1(void)     /* pool of exactly one node, used up */
{
	ref_add(&g_keys[0]);
	return muggle_avl_tree_init(&g_avl, cmp_int, 1) && muggle_avl_tree_insert(&g_avl, &g_keys[0], NULL);
}
static int op_avl_insert(void) { if (!muggle_avl_tree_insert(&g_avl, &g_keys[1], NULL)) return 0; ref_add(&g_keys[1]); return 1; }
static void snap_avl_nodes(const muggle_avl_tree_node_t *n) { if (n) { snap_add(n, sizeof(*n)); snap_avl_nodes(n->left); snap_avl_nodes(n->right); } }
static void snap_avl(void) { snap_add(&g_avl, sizeof g_avl); snap_mpool(g_avl.pool); snap_avl_nodes(g_avl.root); }
static int avl_count(const muggle_avl_tree_node_t *n) { return n ? 1 + avl_count(n->left) + avl_count(n->right) : 0; }
/* the reference holds the KEYS: each is found, nothing else is in the tree */
static int chk_avl(void)
{
	if (avl_count(g_avl.root) != g_nref) return 0;
	for (int i = 0; i < g_nref; i++) {
		muggle_avl_tree_node_t *n = muggle_avl_tree_find(&g_avl, (void *)g_ref[i]);
		if (!n || n->key != g_ref[i]) return 0;
	}
	return 1;
}
/* continued use: two more keys are inserted and found (a node each; kept until destroy) */
static int cont_avl(void)
{
	for (int i = 0; i < 2; i++) { if (!muggle_avl_tree_insert(&g_avl, &g_more[i], NULL)) return 0; ref_add(&g_more[i]); }
	return chk_avl();
}
/* ... the two extra keys are removed again (trees whose stored values are counted) */
static int cont_avl_rm(void)
{
	int n0 = g_nref;
	if (!cont_avl()) return 0;
	for (int i = 0; i < 2; i++) {
		muggle_avl_tree_node_t *n = muggle_avl_tree_find(&g_avl, &g_more[i]);
		if (!n) return 0;
		muggle_avl_tree_remove(&g_avl, n, NULL, NULL, NULL, NULL);
	}
	g_nref = n0;
	return chk_avl();
}
/* ... of a tree whose nodes come from its (just grown) pool: one key is removed and inserted again */
static int cont_avl_pool(void)
{
	muggle_avl_tree_node_t *n = muggle_avl_tree_find(&g_avl, &g_keys[0]);
	if (!n) return 0;
	muggle_avl_tree_remove(&g_avl, n, NULL, NULL, NULL, NULL);
	if (!muggle_avl_tree_insert(&g_avl, &g_keys[0], NULL)) return 0;
	return chk_avl();
}
static void d_avl(void) { muggle_avl_tree_destroy(&g_avl, NULL, NULL, NULL, NULL); }

static int op_ht_init(void) { return muggle_hash_table_init(&g_ht, 16, NULL, cmp_str, 8) ? 1 : 0; }
static const char g_ka[] = "a", g_kb[] = "b", g_kc[] = "c";
static int pre_ht0(void)
{
	ref_add(g_ka);
	return muggle_hash_table_init(&g_ht, 16, NULL, cmp_str, 0) && muggle_hash_table_put(&g_ht, (void *)g_ka, NULL);
}
static int op_ht_put(void) { if (!muggle_hash_table_put(&g_ht, (void *)g_kb, NULL)) return 0; ref_add(g_kb); return 1; }
static int pre_ht1(void)      /* node pool of exactly one node, used up */
{
	ref_add(g_ka);
	return muggle_hash_table_init(&g_ht, 16, NULL, cmp_str, 1) && muggle_hash_table_put(&g_ht, (void *)g_ka, NULL);
}
static void snap_ht(void)
{
	snap_add(&g_ht, sizeof g_ht); snap_mpool(g_ht.pool);
	snap_add(g_ht.nodes, sizeof(g_ht.nodes[0]) * g_ht.table_size);
	for (uint64_t i = 0; i < g_ht.table_size; i++)
		for (muggle_hash_table_node_t *n = g_ht.nodes[i].next; n; n = n->next) snap_add(n, sizeof(*n));
}
static int chk_ht(void)      /* the reference holds the KEYS */
{
	int cnt = 0;
	for (uint64_t i = 0; i < g_ht.table_size; i++)
		for (muggle_hash_table_node_t *n = g_ht.nodes[i].next; n; n = n->next) cnt++;
	if (cnt != g_nref) return 0;
	for (int i = 0; i < g_nref; i++) {
		muggle_hash_table_node_t *n = muggle_hash_table_find(&g_ht, (void *)g_ref[i]);
		if (!n || n->key != g_ref[i]) return 0;
	}
	return 1;
}
static int cont_ht(void)
{
	for (int i = 0; i < 2; i++) { if (!muggle_hash_table_put(&g_ht, (void *)g_mkeys[i], NULL)) return 0; ref_add(g_mkeys[i]); }
	return chk_ht();
}
static int cont_ht_rm(void)
{
	int n0 = g_nref;
	if (!cont_ht()) return 0;
	for (int i = 0; i < 2; i++) {
		muggle_hash_table_node_t *n = muggle_hash_table_find(&g_ht, (void *)g_mkeys[i]);
		if (!n) return 0;
		muggle_hash_table_remove(&g_ht, n, NULL, NULL, NULL, NULL);
	}
	g_nref = n0;
	return chk_ht();
}
static int cont_ht_pool(void)
{
	muggle_hash_table_node_t *n = muggle_hash_table_find(&g_ht, (void *)g_ka);
	if (!n) return 0;
	muggle_hash_table_remove(&g_ht, n, NULL, NULL, NULL, NULL);
	if (!muggle_hash_table_put(&g_ht, (void *)g_ka, NULL)) return 0;
	return chk_ht();
}
static void d_ht(void) { muggle_hash_table_destroy(&g_ht, NULL, NULL, NULL, NULL); }

static int op_ll_init(void) { return muggle_linked_list_init(&g_ll, 8) ? 1 : 0; }
static int pre_ll0(void)
{
	ref_add(&g_keys[0]);
	return muggle_linked_list_init(&g_ll, 0) && muggle_linked_list_append(&g_ll, NULL, &g_keys[0]);
}
static int op_ll_append(void) { if (!muggle_linked_list_append(&g_ll, NULL, &g_keys[1])) return 0; ref_add(&g_keys[1]); return 1; }
static int op_ll_insert(void) { if (!muggle_linked_list_insert(&g_ll, NULL, &g_keys[1])) return 0; ref_add_front(&g_keys[1]); return 1; }
static int pre_ll1(void)
{
	ref_add(&g_keys[0]);
	return muggle_linked_list_init(&g_ll, 1) && muggle_linked_list_append(&g_ll, NULL, &g_keys[0]);
}
static void snap_llist(muggle_linked_list_t *l)
{
	snap_add(l, sizeof(*l)); snap_mpool(l->pool);
	for (muggle_linked_list_node_t *n = muggle_linked_list_first(l); n; n = muggle_linked_list_next(l, n)) snap_add(n, sizeof(*n));
}
static void snap_ll(void) { snap_llist(&g_ll); }
static int chk_ll(void)      /* the reference holds the data pointers, in list order */
{
	int i = 0;
	if ((int)muggle_linked_list_size(&g_ll) != g_nref) return 0;
	for (muggle_linked_list_node_t *n = muggle_linked_list_first(&g_ll); n; n = muggle_linked_list_next(&g_ll, n), i++)
		if (i >= g_nref || n->data != g_ref[i]) return 0;
	if (i != g_nref) return 0;
	for (muggle_linked_list_node_t *n = muggle_linked_list_last(&g_ll); n; n = muggle_linked_list_prev(&g_ll, n)) i--;
	return i == 0;
}
static int cont_ll(void)
{
	for (int i = 0; i < 2; i++) { if (!muggle_linked_list_append(&g_ll, NULL, &g_more[i])) return 0; ref_add(&g_more[i]); }
	return chk_ll();
}
static int cont_ll_rm(void)
{
	int n0 = g_nref;
	if (!cont_ll()) return 0;
	for (int i = 0; i < 2; i++) {
		muggle_linked_list_node_t *n = muggle_linked_list_last(&g_ll);
		if (!n || n->data != &g_more[1 - i]) return 0;
		muggle_linked_list_remove(&g_ll, n, NULL, NULL);
	}
	g_nref = n0;
	return chk_ll();
}
static int cont_ll_pool(void)    /* the last element is removed and appended again (node from the pool, no growth) */
{
	muggle_linked_list_node_t *n = muggle_linked_list_last(&g_ll);
	if (!n) return 0;
	void *d = n->data;
	muggle_linked_list_remove(&g_ll, n, NULL, NULL);
	if (!muggle_linked_list_append(&g_ll, NULL, d)) return 0;
	return chk_ll();
}
static void d_ll(void) { muggle_linked_list_destroy(&g_ll, NULL, NULL); }

static int op_q_init(void) { return muggle_queue_init(&g_q, 8) ? 1 : 0; }
static int pre_q0(void) { ref_add(&g_keys[0]); return muggle_queue_init(&g_q, 0) && muggle_queue_enqueue(&g_q, &g_keys[0]); }
static int op_q_enqueue(void) { if (!muggle_queue_enqueue(&g_q, &g_keys[1])) return 0; ref_add(&g_keys[1]); return 1; }
static int pre_q1(void) { ref_add(&g_keys[0]); return muggle_queue_init(&g_q, 1) && muggle_queue_enqueue(&g_q, &g_keys[0]); }
static void snap_queue(muggle_queue_t *q)
{
	snap_add(q, sizeof(*q)); snap_mpool(q->pool);
	for (muggle_queue_node_t *n = q->head.next; n && n != &q->tail; n = n->next) snap_add(n, sizeof(*n));
}
static void snap_q(void) { snap_queue(&g_q); }
static int chk_q(void)       /* the reference holds the data pointers, front first */
{
	int i = 0;
	if ((int)muggle_queue_size(&g_q) != g_nref) return 0;
	for (muggle_queue_node_t *n = g_q.head.next; n && n != &g_q.tail; n = n->next, i++)
		if (i >= g_nref || n->data != g_ref[i]) return 0;
	if (i != g_nref) return 0;
	return g_nref == 0 || muggle_queue_front(&g_q)->data == g_ref[0];
}
static int cont_q(void)
{
	for (int i = 0; i < 2; i++) { if (!muggle_queue_enqueue(&g_q, &g_more[i])) return 0; ref_add(&g_more[i]); }
	return chk_q();
}
/* two more are enqueued, then the queue is cycled: every old element is dequeued and enqueued again until the two
 * extra ones are at the front, which are dequeued for good */
static int cont_q_rm(void)
{
	int n0 = g_nref;
	if (!cont_q()) return 0;
	for (int i = 0; i < n0; i++) {
		void *d = muggle_queue_front(&g_q)->data;
		muggle_queue_dequeue(&g_q, NULL, NULL);
		if (!muggle_queue_enqueue(&g_q, d)) return 0;
	}
	for (int i = 0; i < 2; i++) {
		if (muggle_queue_front(&g_q)->data != &g_more[i]) return 0;
		muggle_queue_dequeue(&g_q, NULL, NULL);
	}
	g_nref = n0;
	return chk_q();
}
static int cont_q_pool(void)     /* the front element is dequeued and enqueued again (node from the pool, no growth) */
{
	void *d = muggle_queue_front(&g_q)->data;
	muggle_queue_dequeue(&g_q, NULL, NULL);
	if (!muggle_queue_enqueue(&g_q, d)) return 0;
	for (int i = 0; i + 1 < g_nref; i++) g_ref[i] = g_ref[i + 1];
	g_ref[g_nref - 1] = d;
	return chk_q();
}
static void d_q(void) { muggle_queue_destroy(&g_q, NULL, NULL); }

static int op_trie_init(void) { return muggle_trie_init(&g_trie, 8) ? 1 : 0; }
static int pre_trie0(void) { return muggle_trie_init(&g_trie, 0) ? 1 : 0; }
/* the reference holds the KEY strings; g_tval[i] is the data stored under g_ref[i] */
static const void *g_tval[MAX_REF];
static void tref_add(const char *k, const void *v) { if (g_nref < MAX_REF) { g_tval[g_nref] = v; g_ref[g_nref++] = k; } }
static int op_trie_insert1(void) { if (!muggle_trie_insert(&g_trie, "a", &g_keys[0])) return 0; tref_add("a", &g_keys[0]); return 1; }
static int op_trie_insert3(void) { if (!muggle_trie_insert(&g_trie, "abc", &g_keys[0])) return 0; tref_add("abc", &g_keys[0]); return 1; }
static int pre_trie1(void) { tref_add("a", &g_keys[0]); return muggle_trie_init(&g_trie, 1) && muggle_trie_insert(&g_trie, "a", &g_keys[0]); }
static int op_trie_insert_b(void) { if (!muggle_trie_insert(&g_trie, "b", &g_keys[1])) return 0; tref_add("b", &g_keys[1]); return 1; }
static void snap_trie_nodes(const muggle_trie_node_t *n, int depth)
{
	for (int c = 0; c < MUGGLE_TRIE_CHILDREN_SIZE && depth < 4; c++)
		if (n->children[c]) { snap_add(n->children[c], sizeof(*n)); snap_trie_nodes(n->children[c], depth + 1); }
}
static void snap_trie(void) { snap_add(&g_trie, sizeof g_trie); snap_mpool(g_trie.pool); snap_trie_nodes(&g_trie.root, 0); }
static int trie_count(const muggle_trie_node_t *n, int depth)     /* nodes that carry data */
{
	int k = n->data ? 1 : 0;
	for (int c = 0; c < MUGGLE_TRIE_CHILDREN_SIZE && depth < 6; c++) if (n->children[c]) k += trie_count(n->children[c], depth + 1);
	return k;
}
static int chk_trie(void)
{
	int k = 0;
	for (int c = 0; c < MUGGLE_TRIE_CHILDREN_SIZE; c++) if (g_trie.root.children[c]) k += trie_count(g_trie.root.children[c], 0);
	if (k != g_nref) return 0;
	for (int i = 0; i < g_nref; i++) {
		muggle_trie_node_t *n = muggle_trie_find(&g_trie, (const char *)g_ref[i]);
		if (!n || n->data != g_tval[i]) return 0;
	}
	return 1;
}
static int cont_trie(void)
{
	for (int i = 0; i < 2; i++) { if (!muggle_trie_insert(&g_trie, g_mkeys[i], &g_more[i])) return 0; tref_add(g_mkeys[i], &g_more[i]); }
	return chk_trie();
}
static int cont_trie_rm(void)
{
	int n0 = g_nref;
	if (!cont_trie()) return 0;
	for (int i = 0; i < 2; i++) if (!muggle_trie_remove(&g_trie, g_mkeys[i], NULL, NULL)) return 0;
	g_nref = n0;
	return chk_trie();
}
static int cont_trie_pool(void) { return chk_trie() && muggle_trie_find(&g_trie, "zz") == NULL; }
static void d_trie(void) { muggle_trie_destroy(&g_trie, NULL, NULL); }

static int op_merge_sort(void)
{
	for (int i = 0; i < 5; i++) g_sortarr[i] = &g_keys[4 - i];
	return muggle_merge_sort(g_sortarr, 5, cmp_int) ? 1 : 0;
}
static void d_none(void) { }

/* ---------------------------------------------------------------- boundary contents (values + free callback) */
/* the value that a FAILED operation did not store still belongs to the caller, who releases it after destroy
 * (counted like a release through the callback: every value is released exactly once by someone) */
static void release_unstored(void) { if (!g_stored0 && g_vals[0]) { g_cb_count++; free(g_vals[0]); g_vals[0] = NULL; } }
static int pre_trie_c_a(void)
{
	tref_add("a", NULL);
	if (!(make_vals(2) && muggle_trie_init(&g_trie, 0) && muggle_trie_insert(&g_trie, "a", g_vals[1]))) return 0;
	g_tval[0] = g_vals[1];
	return 1;
}
static int op_trie_c_empty(void)
{
	if (!muggle_trie_insert(&g_trie, "", g_vals[0])) return 0;
	g_stored0 = 1; tref_add("", g_vals[0]);
	return 1;
}
static int pre_trie_c_pool(void)
{
	if (!(make_vals(3) && muggle_trie_init(&g_trie, 8) && muggle_trie_insert(&g_trie, "a", g_vals[1]) &&
		muggle_trie_insert(&g_trie, "ab", g_vals[2]))) return 0;
	tref_add("a", g_vals[1]); tref_add("ab", g_vals[2]);
	return 1;
}
static int pre_trie_c_single(void) { return make_vals(1) && muggle_trie_init(&g_trie, 0); }
static void d_trie_c(void) { muggle_trie_destroy(&g_trie, cb_free_val, NULL); release_unstored(); }
/* the empty key lives in root.children[0], which the generic count (children of the root) includes */

static int pre_avl_c(void)
{
	if (!make_vals(4) || !muggle_avl_tree_init(&g_avl, cmp_int, 0)) return 0;
	if (!muggle_avl_tree_insert(&g_avl, &g_keys[1], g_vals[1])) return 0;   /* 20 */
	if (!muggle_avl_tree_insert(&g_avl, &g_keys[0], g_vals[2])) return 0;   /* 10 */
	if (!muggle_avl_tree_insert(&g_avl, &g_keys[2], g_vals[3])) return 0;   /* 30 */
	ref_add(&g_keys[1]); ref_add(&g_keys[0]); ref_add(&g_keys[2]);
	return muggle_avl_tree_insert(&g_avl, &g_keys[0], NULL) == NULL;          /* duplicate 10: rejected */
}
static int g_five = 5;
static int op_avl_c(void)
{
	if (!muggle_avl_tree_insert(&g_avl, &g_five, g_vals[0])) return 0;
	g_stored0 = 1; ref_add(&g_five);
	return 1;
}
static int pre_avl_c_single(void) { return make_vals(1) && muggle_avl_tree_init(&g_avl, cmp_int, 0); }
static void d_avl_c(void) { muggle_avl_tree_destroy(&g_avl, NULL, NULL, cb_free_val, NULL); release_unstored(); }

static int pre_ht_c(void)
{
	if (!make_vals(3) || !muggle_hash_table_init(&g_ht, 16, NULL, cmp_str, 0)) return 0;
	if (!muggle_hash_table_put(&g_ht, (void *)g_ka, g_vals[1]) || !muggle_hash_table_put(&g_ht, (void *)g_kb, g_vals[2])) return 0;
	ref_add(g_ka); ref_add(g_kb);
	return muggle_hash_table_put(&g_ht, (void *)g_ka, NULL) == NULL;           /* duplicate: rejected */
}
static int op_ht_c(void)
{
	if (!muggle_hash_table_put(&g_ht, (void *)g_kc, g_vals[0])) return 0;
	g_stored0 = 1; ref_add(g_kc);
	return 1;
}
static int pre_ht_c_single(void) { return make_vals(1) && muggle_hash_table_init(&g_ht, 16, NULL, cmp_str, 0); }
static void d_ht_c(void) { muggle_hash_table_destroy(&g_ht, NULL, NULL, cb_free_val, NULL); release_unstored(); }

static int pre_ll_c(void)
{
	if (!(make_vals(3) && muggle_linked_list_init(&g_ll, 0) && muggle_linked_list_append(&g_ll, NULL, g_vals[1]) &&
		muggle_linked_list_append(&g_ll, NULL, g_vals[2]))) return 0;
	ref_add(g_vals[1]); ref_add(g_vals[2]);
	return 1;
}
static int op_ll_c_head(void)
{
	if (!muggle_linked_list_insert(&g_ll, NULL, g_vals[0])) return 0;
	g_stored0 = 1; ref_add_front(g_vals[0]);
	return 1;
}
static int pre_ll_c_pool(void)
{
	if (!(make_vals(2) && muggle_linked_list_init(&g_ll, 2) && muggle_linked_list_append(&g_ll, NULL, g_vals[1]))) return 0;
	ref_add(g_vals[1]);
	return 1;
}
static int op_ll_c_append(void)
{
	if (!muggle_linked_list_append(&g_ll, NULL, g_vals[0])) return 0;
	g_stored0 = 1; ref_add(g_vals[0]);
	return 1;
}
static void d_ll_c(void) { muggle_linked_list_destroy(&g_ll, cb_free_val, NULL); release_unstored(); }

static int pre_q_c(void)
{
	if (!(make_vals(3) && muggle_queue_init(&g_q, 0) && muggle_queue_enqueue(&g_q, g_vals[1]) &&
		muggle_queue_enqueue(&g_q, g_vals[2]))) return 0;
	ref_add(g_vals[1]); ref_add(g_vals[2]);
	return 1;
}
static int pre_q_c_pool(void)
{
	if (!(make_vals(2) && muggle_queue_init(&g_q, 2) && muggle_queue_enqueue(&g_q, g_vals[1]))) return 0;
	ref_add(g_vals[1]);
	return 1;
}
static int op_q_c(void)
{
	if (!muggle_queue_enqueue(&g_q, g_vals[0])) return 0;
	g_stored0 = 1; ref_add(g_vals[0]);
	return 1;
}
static void d_q_c(void) { muggle_queue_destroy(&g_q, cb_free_val, NULL); release_unstored(); }

static int pre_al_c(int n)
{
	if (!make_vals(n + 1) || !muggle_array_list_init(&g_al, 4)) return 0;
	for (int i = 1; i <= n; i++) { if (!muggle_array_list_append(&g_al, -1, g_vals[i])) return 0; ref_add(g_vals[i]); }
	return 1;
}
static int pre_al_c3(void) { return pre_al_c(3); }
static int pre_al_c4(void) { return pre_al_c(4); }
static int op_al_c_index0(void)
{
	if (!muggle_array_list_insert(&g_al, 0, g_vals[0])) return 0;
	g_stored0 = 1; ref_add_front(g_vals[0]);
	return 1;
}
static void d_al_c(void) { muggle_array_list_destroy(&g_al, cb_free_val, NULL); release_unstored(); }

static int pre_heap_c4(void)
{
	if (!make_vals(5) || !muggle_heap_init(&g_heap, cmp_int, 4)) return 0;
	g_heap_ref_is_value = 1;
	for (int i = 1; i <= 4; i++) { if (!muggle_heap_insert(&g_heap, &g_keys[i], g_vals[i])) return 0; ref_add(g_vals[i]); }
	return 1;
}
static int op_heap_c(void)
{
	if (!muggle_heap_insert(&g_heap, &g_keys[0], g_vals[0])) return 0;
	g_stored0 = 1; ref_add(g_vals[0]);
	return 1;
}
static void d_heap_c(void) { muggle_heap_destroy(&g_heap, NULL, NULL, cb_free_val, NULL); release_unstored(); }

static int pre_stack_c3(void)
{
	if (!make_vals(4) || !muggle_stack_init(&g_stack, 4)) return 0;
	for (int i = 1; i <= 3; i++) { if (!muggle_stack_push(&g_stack, g_vals[i])) return 0; ref_add(g_vals[i]); }
	return 1;
}
static int op_stack_c(void)
{
	if (!muggle_stack_push(&g_stack, g_vals[0])) return 0;
	g_stored0 = 1; ref_add(g_vals[0]);
	return 1;
}
static void d_stack_c(void) { muggle_stack_destroy(&g_stack, cb_free_val, NULL); release_unstored(); }

/* ---------------------------------------------------------------- event / net / log */
static int op_sig(void) { return muggle_ev_signal_init(&g_sig) == 0; }
static void d_sig(void) { muggle_ev_signal_destroy(&g_sig); }

static int evloop_new_hints(int type, int pool, int hints)
{
	muggle_event_loop_init_args_t args;
	memset(&args, 0, sizeof(args));
	args.evloop_type = type;
	args.hints_max_fd = hints;
	args.use_mem_pool = pool;
	g_ev = muggle_evloop_new(&args);
	return g_ev != NULL;
}
static int evloop_new_of(int type, int pool) { return evloop_new_hints(type, pool, 8); }
static int op_ev_epoll(void) { return evloop_new_of(MUGGLE_EVLOOP_TYPE_EPOLL, 0); }
static int op_ev_poll(void) { return evloop_new_of(MUGGLE_EVLOOP_TYPE_POLL, 0); }
static int op_ev_select(void) { return evloop_new_of(MUGGLE_EVLOOP_TYPE_SELECT, 0); }
static int op_ev_epoll_pool(void) { return evloop_new_of(MUGGLE_EVLOOP_TYPE_EPOLL, 1); }
static void d_ev(void) { muggle_evloop_delete(g_ev); g_ev = NULL; }
static int op_ev_add_ctx(void)
{
	muggle_ev_ctx_init(&g_ctx, g_pipe[0], NULL);
	return muggle_evloop_add_ctx(g_ev, &g_ctx) == 0;
}

static int pre_ev_pool1(void)     /* ctx_list node pool of exactly one node, used up */
{
	return evloop_new_hints(MUGGLE_EVLOOP_TYPE_EPOLL, 1, 1) && op_ev_add_ctx();
}
static int op_ev_add_ctx2(void)
{
	muggle_ev_ctx_init(&g_ctx2, g_pipe[1], NULL);
	return muggle_evloop_add_ctx(g_ev, &g_ctx2) == 0;
}

static int op_evpipe(void) { return muggle_socket_evloop_pipe_init(&g_evpipe) == 0; }
static void d_evpipe(void) { muggle_socket_evloop_pipe_destroy(&g_evpipe); }

static int op_seh_init(void) { return muggle_socket_evloop_handle_init(&g_seh) == 0; }
static void d_seh(void) { muggle_socket_evloop_handle_destroy(&g_seh); }
static int pre_seh_ev(void)
{
	if (muggle_socket_evloop_handle_init(&g_seh) != 0) return 0;
	if (!op_ev_epoll()) return 0;
	muggle_socket_evloop_handle_attach(&g_seh, g_ev);
	return 1;
}
static int op_seh_add_ctx(void) { muggle_socket_evloop_add_ctx(g_ev, &g_sctx); return 1; /* void API */ }
static void d_seh_ev(void) { d_seh(); d_ev(); }

/* what muggle_evloop_run does when the loop exits: cb_clear for every registered context */
static void clear_ctxs(void)
{
	muggle_linked_list_node_t *n = muggle_linked_list_first(g_ev->ctx_list);
	for (; n; n = muggle_linked_list_next(g_ev->ctx_list, n)) g_ev->cb_clear(g_ev, (muggle_event_context_t *)n->data);
}
/* accept path of the evloop's cb_read: loopback listener with one pending connection */
static int pre_accept(void)
{
	struct sockaddr_in a;
	socklen_t al = sizeof(a);
	if (!pre_seh_ev()) return 0;
	g_lfd = socket(AF_INET, SOCK_STREAM, 0);
	if (g_lfd < 0) return 0;
	memset(&a, 0, sizeof(a));
	a.sin_family = AF_INET;
	a.sin_addr.s_addr = htonl(INADDR_LOOPBACK);
	a.sin_port = 0;
	if (bind(g_lfd, (struct sockaddr *)&a, sizeof(a)) != 0 || listen(g_lfd, 4) != 0) return 0;
	if (getsockname(g_lfd, (struct sockaddr *)&a, &al) != 0) return 0;
	fcntl(g_lfd, F_SETFL, fcntl(g_lfd, F_GETFL, 0) | O_NONBLOCK);
	g_cfd = socket(AF_INET, SOCK_STREAM, 0);
	if (g_cfd < 0 || connect(g_cfd, (struct sockaddr *)&a, sizeof(a)) != 0) return 0;
	muggle_socket_ctx_init(&g_lctx, g_lfd, NULL, MUGGLE_SOCKET_CTX_TYPE_TCP_LISTEN);
	return 1;
}
static int op_accept(void) { g_ev->cb_read(g_ev, (muggle_event_context_t *)&g_lctx); return 1; /* callback: void */ }
static void d_accept(void) { clear_ctxs(); d_seh(); d_ev(); close(g_lfd); close(g_cfd); }
/* cb_wake with one context handed over through muggle_socket_evloop_add_ctx */
static int pre_wake(void)
{
	if (!pre_seh_ev()) return 0;
	g_ufd = socket(AF_INET, SOCK_DGRAM, 0);
	if (g_ufd < 0) return 0;
	g_hctx = (muggle_socket_context_t *)malloc(sizeof(*g_hctx));
	if (!g_hctx) return 0;
	muggle_socket_ctx_init(g_hctx, g_ufd, NULL, MUGGLE_SOCKET_CTX_TYPE_UDP);
	muggle_socket_evloop_add_ctx(g_ev, g_hctx);
	return muggle_queue_size(g_seh.ctx_queue) == 1;
}
static int op_wake(void) { g_ev->cb_wake(g_ev); return 1; /* callback: void */ }
static void d_wake(void) { clear_ctxs(); d_seh(); d_ev(); }

static int op_alog_init(void) { return muggle_async_logger_init(&g_alog, 8) == 0; }
/* a handler that accepts messages from `level` on and does nothing with them (no acquisition): since the
 * logger's pre-filter asks the ATTACHED handlers, the message allocation + queue push of
 * muggle_async_logger_log only runs when some handler accepts the level */
static muggle_log_handler_t g_sink;
static int g_sink_writes;
static int sink_write(struct muggle_log_handler *h, const muggle_log_msg_t *msg) { (void)h; (void)msg; g_sink_writes++; return 0; }
static int attach_sink(int level)
{
	if (muggle_log_handler_init_default(&g_sink) != 0) return 0;
	g_sink.write = sink_write;
	g_sink.destroy = muggle_log_handler_destroy_default;
	muggle_log_handler_set_level(&g_sink, level);
	muggle_logger_t *lg = (muggle_logger_t *)&g_alog;
	return lg->add_handler(lg, &g_sink) == 0;
}
static int pre_alog(void)
{
	if (muggle_async_logger_init(&g_alog, 8) != 0) return 0;
	return attach_sink(MUGGLE_LOG_LEVEL_TRACE);        /* accepts the INFO message logged by the operation */
}
static int pre_alog_filtered(void)
{
	if (muggle_async_logger_init(&g_alog, 8) != 0) return 0;
	return attach_sink(MUGGLE_LOG_LEVEL_FATAL);        /* no attached handler accepts INFO: early-out, no acquisition */
}
static int op_alog_log(void)
{
	muggle_log_src_loc_t loc = { "c18_driver.c", 1, "op_alog_log" };
	muggle_logger_t *lg = (muggle_logger_t *)&g_alog;
	if (lg->log != muggle_async_logger_log) return 0;      /* the logger's log entry IS this function */
	muggle_async_logger_log(lg, MUGGLE_LOG_LEVEL_INFO, &loc, "message %d", 18);
	return 1; /* void API */
}
static void d_alog(void) { muggle_async_logger_destroy((muggle_logger_t *)&g_alog); }
static void d_alog_sink(void) { d_alog(); g_sink.destroy(&g_sink); }

/* ---------------------------------------------------------------- log handlers that own a FILE* */
static void fresh_logfile(void)
{
	char p[640];
	unlink(g_logpath);
	for (int i = 1; i <= 3; i++) { snprintf(p, sizeof(p), "%s.%d", g_logpath, i); unlink(p); }
}
static int op_lfh(void) { fresh_logfile(); return muggle_log_file_handler_init(&g_lfh, g_logpath, "w") == 0; }
static void d_lfh(void) { g_lfh.handler.destroy((muggle_log_handler_t *)&g_lfh); }
static int op_lrh(void) { fresh_logfile(); return muggle_log_file_rotate_handler_init(&g_lrh, g_logpath, 64, 2) == 0; }
static void d_lrh(void) { g_lrh.handler.destroy((muggle_log_handler_t *)&g_lrh); fresh_logfile(); }
/* two writes of ~100 bytes with max_bytes = 64: each write is followed by a rotation (fclose, rename,
 * fopen); when the re-open fails the handler must drop the closed handle, so the second write is skipped */
static int op_lrh_write2(void)
{
	muggle_log_msg_t msg;
	memset(&msg, 0, sizeof(msg));
	msg.level = MUGGLE_LOG_LEVEL_INFO;
	msg.src_loc.file = "c18_driver.c";
	msg.src_loc.line = 1;
	msg.src_loc.func = "op_lrh_write2";
	msg.payload = "0123456789012345678901234567890123456789012345678901234567890123456789012345678901234567890123456789";
	g_lrh.handler.write((muggle_log_handler_t *)&g_lrh, &msg);
	g_lrh.handler.write((muggle_log_handler_t *)&g_lrh, &msg);
	return 1; /* failure of the rotation is not reported to the caller of write */
}


/* ---------------------------------------------------------------- entry points added by the coverage obligation */
static void snap_ev(void) { snap_add(g_ev, sizeof(*g_ev)); snap_llist(g_ev->ctx_list); }
static int ev_ctx_count(void) { return (int)muggle_linked_list_size(g_ev->ctx_list); }
static int g_ev_n0;                    /* contexts that must be registered */
static void snap_ev_n(void) { snap_ev(); g_ev_n0 = ev_ctx_count(); }
static int chk_ev(void) { return ev_ctx_count() == g_ev_n0; }
static int op_ev_add_ctx_n(void) { if (!op_ev_add_ctx()) return 0; g_ev_n0++; return 1; }
static int op_ev_add_ctx2_n(void) { if (!op_ev_add_ctx2()) return 0; g_ev_n0++; return 1; }
static int cont_ev_add2(void) { return op_ev_add_ctx2_n() && chk_ev(); }
static int cont_ev_pool(void) { return chk_ev() && muggle_linked_list_last(g_ev->ctx_list)->data == &g_ctx2; }

#if MUGGLE_SUPPORT_FAST_FLOW_CONTROLLER
static int op_ffc(void) { return muggle_fast_flow_ctl_init(&g_ffc, 1, 4, 0, 1000000000.0) ? 1 : 0; }
static void d_ffc(void) { muggle_fast_flow_ctl_destroy(&g_ffc); }
#else
static int op_ffc(void) { return 0; }
static void d_ffc(void) { }
#endif

/* removes every entry below the scratch directory (rotated files carry time stamps in their names) */
#include <dirent.h>
#include <sys/stat.h>
static void rm_below(const char *dir, int depth)
{
	DIR *d = opendir(dir);
	struct dirent *e;
	char p[900];
	if (!d) return;
	while ((e = readdir(d)) != NULL) {
		if (!strcmp(e->d_name, ".") || !strcmp(e->d_name, "..")) continue;
		snprintf(p, sizeof(p), "%s/%s", dir, e->d_name);
		struct stat st;
		if (lstat(p, &st) == 0 && S_ISDIR(st.st_mode)) { if (depth < 3) rm_below(p, depth + 1); rmdir(p); }
		else unlink(p);
	}
	closedir(d);
}
static void fresh_scratch(void) { rm_below(g_scratch, 0); }
static char g_trpath[640];
static int op_ltr(void)
{
	fresh_scratch();
	snprintf(g_trpath, sizeof(g_trpath), "%s/trot.log", g_scratch);
	return muggle_log_file_time_rot_handler_init(&g_ltr, g_trpath, MUGGLE_LOG_TIME_ROTATE_UNIT_SEC, 1, false) == 0;
}
static void d_ltr(void) { g_ltr.handler.destroy((muggle_log_handler_t *)&g_ltr); fresh_scratch(); }
/* two messages stamped 5 and 10 seconds after the handler's period: each write detects the new period and rotates
 * (fclose, fopen of the file named after the period); a failed re-open leaves the handler without a file */
static int op_ltr_write2(void)
{
	muggle_log_msg_t msg;
	memset(&msg, 0, sizeof(msg));
	msg.level = MUGGLE_LOG_LEVEL_INFO;
	msg.src_loc.file = "c18_driver.c";
	msg.src_loc.line = 1;
	msg.src_loc.func = "op_ltr_write2";
	msg.payload = "time rotating line";
	msg.ts.tv_sec = g_ltr.last_sec + 5;
	g_ltr.handler.write((muggle_log_handler_t *)&g_ltr, &msg);
	msg.ts.tv_sec += 5;
	g_ltr.handler.write((muggle_log_handler_t *)&g_ltr, &msg);
	return 1; /* failure of the rotation is not reported to the caller of write */
}
static int op_lch(void) { return muggle_log_console_handler_init(&g_lch, 1) == 0; }
static void d_lch(void) { g_lch.handler.destroy((muggle_log_handler_t *)&g_lch); }
/* muggle_log_simple_init / muggle_log_complicated_init attach function-local static handlers to the DEFAULT logger;
 * the library has no call that detaches them again, so "destroy" is: every attached handler's destroy, then the
 * default logger is emptied (it is a static object of the library) */
static void d_deflog(void)
{
	muggle_logger_t *lg = muggle_logger_default();
	for (int i = 0; i < lg->cnt; i++) if (lg->handlers[i] && lg->handlers[i]->destroy) lg->handlers[i]->destroy(lg->handlers[i]);
	lg->cnt = 0; lg->fmt_hint = 0; lg->lowest_log_level = MUGGLE_LOG_LEVEL_FATAL;
	fresh_scratch();
}
static int g_deflog_handlers;          /* handlers attached to the default logger when the operation returned */
static int op_log_simple(void)
{
	fresh_scratch();
	int r = muggle_log_simple_init(MUGGLE_LOG_LEVEL_FATAL, MUGGLE_LOG_LEVEL_INFO);
	g_deflog_handlers = muggle_logger_default()->cnt;
	return r == 0;
}
static int op_log_complicated(void)
{
	fresh_scratch();
	int r = muggle_log_complicated_init(MUGGLE_LOG_LEVEL_FATAL, MUGGLE_LOG_LEVEL_INFO, NULL);
	g_deflog_handlers = muggle_logger_default()->cnt;
	return r == 0;
}
static int op_os_fopen(void)
{
	char p[700];
	fresh_scratch();
	snprintf(p, sizeof(p), "%s/sub/dir/file.txt", g_scratch);
	g_fp = muggle_os_fopen(p, "w");
	return g_fp != NULL;
}
static void d_os_fopen(void) { if (g_fp) { fclose(g_fp); g_fp = NULL; } fresh_scratch(); }

/* sockets: loopback only.  g_lfd = a listener made without faults (through muggle_tcp_listen itself) */
static int pre_listener(void)
{
	struct sockaddr_in a;
	socklen_t al = sizeof(a);
	g_lfd = muggle_tcp_listen("127.0.0.1", "0", 4);
	if (g_lfd == MUGGLE_INVALID_SOCKET) return 0;
	if (getsockname(g_lfd, (struct sockaddr *)&a, &al) != 0) return 0;
	snprintf(g_port, sizeof(g_port), "%d", (int)ntohs(a.sin_port));
	return 1;
}
static int sock_ok(void) { return g_sock != MUGGLE_INVALID_SOCKET; }
static int op_socket_create(void) { g_sock = muggle_socket_create(AF_INET, SOCK_STREAM, 0); return sock_ok(); }
static int op_tcp_listen(void) { g_sock = muggle_tcp_listen("127.0.0.1", "0", 4); return sock_ok(); }
static int op_tcp_connect(void) { g_sock = muggle_tcp_connect("127.0.0.1", g_port, 2); return sock_ok(); }
static int op_tcp_bind(void) { g_sock = muggle_tcp_bind("127.0.0.1", "0"); return sock_ok(); }
static int op_tcp_bind_connect(void) { g_sock = muggle_tcp_bind_connect("127.0.0.1", "0", "127.0.0.1", g_port, 2); return sock_ok(); }
static int op_udp_bind(void) { g_sock = muggle_udp_bind("127.0.0.1", "0"); return sock_ok(); }
static int op_udp_connect(void) { g_sock = muggle_udp_connect("127.0.0.1", "9"); return sock_ok(); }
static int op_mcast_join(void) { g_sock = muggle_mcast_join("239.18.18.18", "23418", NULL, NULL); return sock_ok(); }
static int op_socketpair(void) { return muggle_socketpair(AF_UNIX, SOCK_STREAM, 0, g_sp) == 0; }
static void d_sock(void)
{
	if (g_sock != MUGGLE_INVALID_SOCKET) { muggle_socket_close(g_sock); g_sock = MUGGLE_INVALID_SOCKET; }
	if (g_lfd >= 0) { muggle_socket_close(g_lfd); g_lfd = -1; }
	for (int i = 0; i < 2; i++) if (g_sp[i] != MUGGLE_INVALID_SOCKET) { muggle_socket_close(g_sp[i]); g_sp[i] = MUGGLE_INVALID_SOCKET; }
}
static int op_heap_sort(void)
{
	for (int i = 0; i < 5; i++) g_sortarr[i] = &g_keys[(i * 3) % 5];
	if (!muggle_heap_sort(g_sortarr, 5, cmp_int)) return 0;
	for (int i = 0; i + 1 < 5; i++) if (cmp_int(g_sortarr[i], g_sortarr[i + 1]) == 0) return 0;   /* five distinct keys, all kept */
	return 1;
}
static int op_mar_get(void) { return muggle_ma_ring_thread_ctx_get() != NULL; }

/* ---------------------------------------------------------------- table */
struct inst {
	const char *name;
	int (*pre)(void);      /* object pre-built without faults (may be NULL) */
	int (*op)(void);       /* 1 = success reported, 0 = failure reported */
	void (*destroy)(void);
	int dfail;             /* destroy also after a reported failure */
	int settle;            /* another thread releases: wait until the counts are stable */
	int nvals;             /* > 0: values stored in the container, released through the counted callback */
	void (*snap)(void);    /* registers the object's struct / arrays / nodes right before the operation runs */
	int (*chk)(void);      /* the container holds exactly the reference contents */
	int (*cont)(void);     /* continued use after the operation (or its retry) succeeded */
};
static const struct inst g_inst[] = {
	{ "channel_init_mutex", NULL, op_chan_mutex, d_chan, 1, 0 },
	{ "channel_init_nolock", NULL, op_chan_nolock, d_chan, 1, 0 },
	{ "ring_buffer_init", NULL, op_rb, d_rb, 1, 0 },
	{ "ma_ring_thread_ctx_init", NULL, op_mar, d_mar, 1, 1 },
	{ "double_buffer_init", NULL, op_db, d_db, 1, 0 },
	{ "array_blocking_queue_init", NULL, op_abq, d_abq, 1, 0 },
	{ "memory_pool_init", NULL, op_mp_init, d_mp, 1, 0 },
	{ "memory_pool_ensure_space", pre_mp_empty, op_mp_ensure, d_mp, 1, 0, .snap = snap_mp, .chk = chk_mp, .cont = cont_mp },
	{ "memory_pool_alloc_grow", pre_mp_full, op_mp_alloc, d_mp, 1, 0, .snap = snap_mp, .chk = chk_mp, .cont = cont_mp },
	{ "sowr_memory_pool_init", NULL, op_sowr, d_sowr, 1, 0 },
	{ "ts_memory_pool_init", NULL, op_ts, d_ts, 1, 0 },
	{ "ring_memory_pool_init", NULL, op_rp, d_rp, 1, 0 },
	{ "pointer_slot_init", NULL, op_ps, d_ps, 1, 0 },
	{ "bytes_buffer_init", NULL, op_bb, d_bb, 1, 0 },
	{ "flow_ctl_init", NULL, op_fc, d_fc, 1, 0 },
	{ "array_list_init", NULL, op_al_init, d_al, 1, 0 },
	{ "array_list_ensure_capacity", op_al_init, op_al_ensure, d_al, 1, 0, .snap = snap_al, .chk = chk_al, .cont = cont_al },
	{ "array_list_append_grow", pre_al_full, op_al_append, d_al, 1, 0, .snap = snap_al, .chk = chk_al, .cont = cont_al },
	{ "avl_tree_init_pool", NULL, op_avl_init, d_avl, 1, 0 },
	{ "avl_tree_insert", pre_avl0, op_avl_insert, d_avl, 1, 0, .snap = snap_avl, .chk = chk_avl, .cont = cont_avl },
	{ "avl_tree_insert_pool_grow", pre_avl1, op_avl_insert, d_avl, 1, 0, .snap = snap_avl, .chk = chk_avl, .cont = cont_avl_pool },
	{ "hash_table_init_pool", NULL, op_ht_init, d_ht, 1, 0 },
	{ "hash_table_put", pre_ht0, op_ht_put, d_ht, 1, 0, .snap = snap_ht, .chk = chk_ht, .cont = cont_ht },
	{ "heap_init", NULL, op_heap_init, d_heap, 1, 0 },
	{ "heap_ensure_capacity", op_heap_init, op_heap_ensure, d_heap, 1, 0, .snap = snap_heap, .chk = chk_heap, .cont = cont_heap },
	{ "heap_insert_grow", pre_heap_full, op_heap_insert, d_heap, 1, 0, .snap = snap_heap, .chk = chk_heap, .cont = cont_heap },
	{ "linked_list_init_pool", NULL, op_ll_init, d_ll, 1, 0 },
	{ "linked_list_append", pre_ll0, op_ll_append, d_ll, 1, 0, .snap = snap_ll, .chk = chk_ll, .cont = cont_ll },
	{ "queue_init_pool", NULL, op_q_init, d_q, 1, 0 },
	{ "queue_enqueue", pre_q0, op_q_enqueue, d_q, 1, 0, .snap = snap_q, .chk = chk_q, .cont = cont_q },
	{ "stack_init", NULL, op_stack_init, d_stack, 1, 0 },
	{ "stack_ensure_capacity", op_stack_init, op_stack_ensure, d_stack, 1, 0, .snap = snap_stack, .chk = chk_stack, .cont = cont_stack },
	{ "stack_push_grow", pre_stack_full, op_stack_push, d_stack, 1, 0, .snap = snap_stack, .chk = chk_stack, .cont = cont_stack },
	{ "trie_init_pool", NULL, op_trie_init, d_trie, 1, 0 },
	{ "trie_insert_1", pre_trie0, op_trie_insert1, d_trie, 1, 0, .snap = snap_trie, .chk = chk_trie, .cont = cont_trie },
	/* a failed multi-byte insert keeps the prefix nodes it created: no byte-for-byte snapshot, contents only */
	{ "trie_insert_3", pre_trie0, op_trie_insert3, d_trie, 1, 0, .chk = chk_trie, .cont = cont_trie },
	{ "merge_sort", NULL, op_merge_sort, d_none, 1, 0 },
	{ "ev_signal_init", NULL, op_sig, d_sig, 1, 0 },
	{ "evloop_new_epoll", NULL, op_ev_epoll, d_ev, 1, 0 },
	{ "evloop_new_poll", NULL, op_ev_poll, d_ev, 1, 0 },
	{ "evloop_new_select", NULL, op_ev_select, d_ev, 1, 0 },
	{ "evloop_new_epoll_mempool", NULL, op_ev_epoll_pool, d_ev, 1, 0 },
	{ "evloop_add_ctx", op_ev_epoll, op_ev_add_ctx_n, d_ev, 1, 0, .snap = snap_ev_n, .chk = chk_ev, .cont = cont_ev_add2 },
	{ "socket_evloop_handle_init", NULL, op_seh_init, d_seh, 1, 0 },
	{ "socket_evloop_add_ctx", pre_seh_ev, op_seh_add_ctx, d_seh_ev, 1, 0 },
	{ "async_logger_init", NULL, op_alog_init, d_alog, 0, 1 },
	{ "async_logger_log", pre_alog, op_alog_log, d_alog_sink, 1, 1 },
	{ "async_logger_log_filtered", pre_alog_filtered, op_alog_log, d_alog_sink, 1, 1 },
	{ "channel_init_default", NULL, op_chan_default, d_chan, 1, 0 },
	{ "array_list_insert_grow", pre_al_full, op_al_insert, d_al, 1, 0, .snap = snap_al, .chk = chk_al, .cont = cont_al },
	{ "linked_list_insert", pre_ll0, op_ll_insert, d_ll, 1, 0, .snap = snap_ll, .chk = chk_ll, .cont = cont_ll },
	{ "linked_list_append_pool_grow", pre_ll1, op_ll_append, d_ll, 1, 0, .snap = snap_ll, .chk = chk_ll, .cont = cont_ll_pool },
	{ "hash_table_put_pool_grow", pre_ht1, op_ht_put, d_ht, 1, 0, .snap = snap_ht, .chk = chk_ht, .cont = cont_ht_pool },
	{ "queue_enqueue_pool_grow", pre_q1, op_q_enqueue, d_q, 1, 0, .snap = snap_q, .chk = chk_q, .cont = cont_q_pool },
	{ "trie_insert_pool_grow", pre_trie1, op_trie_insert_b, d_trie, 1, 0, .snap = snap_trie, .chk = chk_trie, .cont = cont_trie_pool },
	{ "memory_pool_alloc_grow_capped", pre_mp_capped, op_mp_alloc, d_mp, 1, 0, .snap = snap_mp, .chk = chk_mp, .cont = cont_mp },
	{ "evloop_add_ctx_poll", op_ev_poll, op_ev_add_ctx_n, d_ev, 1, 0, .snap = snap_ev_n, .chk = chk_ev, .cont = cont_ev_add2 },
	{ "evloop_add_ctx_select", op_ev_select, op_ev_add_ctx_n, d_ev, 1, 0, .snap = snap_ev_n, .chk = chk_ev, .cont = cont_ev_add2 },
	{ "evloop_add_ctx_mempool_grow", pre_ev_pool1, op_ev_add_ctx2_n, d_ev, 1, 0, .snap = snap_ev_n, .chk = chk_ev, .cont = cont_ev_pool },
	{ "socket_evloop_pipe_init", NULL, op_evpipe, d_evpipe, 1, 0 },
	{ "socket_evloop_on_read_accept", pre_accept, op_accept, d_accept, 1, 0 },
	{ "socket_evloop_on_wake", pre_wake, op_wake, d_wake, 1, 0 },
	{ "channel_init_rmutex", NULL, op_chan_rmutex, d_chan, 1, 0 },
	{ "trie_content_empty_key", pre_trie_c_a, op_trie_c_empty, d_trie_c, 1, 0, 2, .snap = snap_trie, .chk = chk_trie, .cont = cont_trie_rm },
	{ "trie_content_empty_key_pool", pre_trie_c_pool, op_trie_c_empty, d_trie_c, 1, 0, 3, .snap = snap_trie, .chk = chk_trie, .cont = cont_trie_pool },
	{ "trie_content_single_empty", pre_trie_c_single, op_trie_c_empty, d_trie_c, 1, 0, 1, .snap = snap_trie, .chk = chk_trie, .cont = cont_trie_rm },
	{ "avl_tree_content", pre_avl_c, op_avl_c, d_avl_c, 1, 0, 4, .snap = snap_avl, .chk = chk_avl, .cont = cont_avl_rm },
	{ "avl_tree_content_single", pre_avl_c_single, op_avl_c, d_avl_c, 1, 0, 1, .snap = snap_avl, .chk = chk_avl, .cont = cont_avl_rm },
	{ "hash_table_content", pre_ht_c, op_ht_c, d_ht_c, 1, 0, 3, .snap = snap_ht, .chk = chk_ht, .cont = cont_ht_rm },
	{ "hash_table_content_single", pre_ht_c_single, op_ht_c, d_ht_c, 1, 0, 1, .snap = snap_ht, .chk = chk_ht, .cont = cont_ht_rm },
	{ "linked_list_content_head", pre_ll_c, op_ll_c_head, d_ll_c, 1, 0, 3, .snap = snap_ll, .chk = chk_ll, .cont = cont_ll_rm },
	{ "linked_list_content_pool_full", pre_ll_c_pool, op_ll_c_append, d_ll_c, 1, 0, 2, .snap = snap_ll, .chk = chk_ll, .cont = cont_ll_pool },
	{ "queue_content", pre_q_c, op_q_c, d_q_c, 1, 0, 3, .snap = snap_q, .chk = chk_q, .cont = cont_q_rm },
	{ "queue_content_pool_full", pre_q_c_pool, op_q_c, d_q_c, 1, 0, 2, .snap = snap_q, .chk = chk_q, .cont = cont_q_pool },
	{ "array_list_content_index0_full", pre_al_c3, op_al_c_index0, d_al_c, 1, 0, 4, .snap = snap_al, .chk = chk_al, .cont = cont_al },
	{ "array_list_content_index0_grow", pre_al_c4, op_al_c_index0, d_al_c, 1, 0, 5, .snap = snap_al, .chk = chk_al, .cont = cont_al },
	{ "heap_content_grow", pre_heap_c4, op_heap_c, d_heap_c, 1, 0, 5, .snap = snap_heap, .chk = chk_heap, .cont = cont_heap },
	{ "stack_content_full", pre_stack_c3, op_stack_c, d_stack_c, 1, 0, 4, .snap = snap_stack, .chk = chk_stack, .cont = cont_stack },
	{ "log_file_handler_init", NULL, op_lfh, d_lfh, 1, 0 },
	{ "log_file_rotate_handler_init", NULL, op_lrh, d_lrh, 1, 0 },
	{ "log_file_rotate_handler_write_rotate", op_lrh, op_lrh_write2, d_lrh, 1, 0 },
	/* entry points added by the coverage obligation */
	{ "fast_flow_ctl_init", NULL, op_ffc, d_ffc, 1, 0 },
	{ "log_file_time_rot_handler_init", NULL, op_ltr, d_ltr, 1, 0 },
	{ "log_file_time_rot_handler_write_rotate", op_ltr, op_ltr_write2, d_ltr, 1, 0 },
	{ "log_console_handler_init", NULL, op_lch, d_lch, 1, 0 },
	{ "log_simple_init", NULL, op_log_simple, d_deflog, 1, 0 },
	{ "log_complicated_init", NULL, op_log_complicated, d_deflog, 1, 0 },
	{ "socket_create", NULL, op_socket_create, d_sock, 1, 0 },
	{ "tcp_listen", NULL, op_tcp_listen, d_sock, 1, 0 },
	{ "tcp_connect", pre_listener, op_tcp_connect, d_sock, 1, 0 },
	{ "tcp_bind", NULL, op_tcp_bind, d_sock, 1, 0 },
	{ "tcp_bind_connect", pre_listener, op_tcp_bind_connect, d_sock, 1, 0 },
	{ "udp_bind", NULL, op_udp_bind, d_sock, 1, 0 },
	{ "udp_connect", NULL, op_udp_connect, d_sock, 1, 0 },
	{ "mcast_join", NULL, op_mcast_join, d_sock, 1, 0 },
	{ "socketpair", NULL, op_socketpair, d_sock, 1, 0 },
	{ "heap_sort", NULL, op_heap_sort, d_none, 1, 0 },
	{ "ma_ring_thread_ctx_get", NULL, op_mar_get, d_mar, 1, 1 },
	{ "os_fopen", NULL, op_os_fopen, d_os_fopen, 1, 0 },
};
#define N_INST ((int)(sizeof(g_inst) / sizeof(g_inst[0])))

/* ---------------------------------------------------------------- protocol */
static const struct inst *cur;
static int ks[FI_MAX_FAULTS], nks;
static int have_faults;

static void on_alarm(int sig)
{
	(void)sig;
	static const char msg[] = "\nwatchdog: HANG (case did not finish within 4 s)\n";
	if (write(2, msg, sizeof(msg) - 1)) { }
	_exit(7);
}

static int g_mode_retry;
static void case_begin(void) { cur = NULL; nks = 0; have_faults = 0; g_fill = 0; g_mode_retry = 0; alarm(4); }

static void case_line(char *line)
{
	char w[64], name[128];
	int id = 0, off = 0;
	if (sscanf(line, "%63s%n", w, &off) != 1) return;
	if (strcmp(w, "inst") == 0) {
		if (sscanf(line + off, "%127s %d", name, &id) < 1) return;
		for (int i = 0; i < N_INST; i++) if (strcmp(g_inst[i].name, name) == 0) cur = &g_inst[i];
	} else if (strcmp(w, "mode") == 0) {
		if (sscanf(line + off, "%63s", w) == 1 && strcmp(w, "retry") == 0) g_mode_retry = 1;
	} else if (strcmp(w, "fill") == 0) {
		unsigned v = 0;
		if (sscanf(line + off, "%x", &v) == 1) g_fill = (int)(v & 0xff);
	} else if (strcmp(w, "faults") == 0) {
		char *p = line + off;
		int v, n;
		have_faults = 1;
		while (nks < FI_MAX_FAULTS && sscanf(p, "%d%n", &v, &n) == 1) { ks[nks++] = v; p += n; }
	}
}

static int live_now(void) { return fi_live_blocks() + fi_live_fds() + fi_live_files(); }
static void case_end(void)
{
	if (!cur || !have_faults) { printf("?\n"); alarm(0); return; }
	zero_all();
	g_cb_count = 0; g_heap_ref_is_value = 0; g_nblk = 0; memset(g_vals, 0, sizeof g_vals);
	fi_begin();
	if (cur->pre && !cur->pre()) { printf("pre FAILED\n"); fi_end(); alarm(0); return; }
	if (cur->settle) fi_settle();
	int base = live_now();
	printf("pre live=%d\n", base);
	if (cur->snap) cur->snap();
	if (cur->chk && !cur->chk()) { printf("pre FAILED (reference contents)\n"); fi_end(); alarm(0); return; }
	fi_arm(ks, nks);
	int ok = cur->op();
	int att = fi_calls();
	fi_disarm();
	if (cur->settle) fi_settle();
	printf("op rc=%s att=%d live=%d\n", ok ? "ok" : "fail", att, live_now());
	fflush(stdout);
	if (!ok) {
		/* "the failed call changed nothing": struct, arrays, nodes byte for byte; contents element for element */
		int reg = snap_same();
		if (reg) printf("unchanged NO (region %d of the object differs from its snapshot)\n", reg);
		else if (cur->chk && !cur->chk()) printf("unchanged NO (contents differ from the reference)\n");
		else printf("unchanged yes\n");
		fflush(stdout);
		if (g_mode_retry) {
			ok = cur->op();
			printf("retry rc=%s\n", ok ? "ok" : "fail");
			fflush(stdout);
		}
	}
	if (ok && cur->cont) {
		if (cur->chk && !cur->chk()) printf("cont rc=fail (contents differ from the reference before the continued use)\n");
		else {
			int c = cur->cont();
			printf("cont rc=%s live=%d\n", c ? "ok" : "fail", live_now());
		}
		fflush(stdout);
	}
	if (ok || cur->dfail) {
		cur->destroy();
		if (cur->settle) fi_settle();
		if (cur->nvals > 0)
			printf("destroy live=%d freed=%d\n", live_now(), g_cb_count);
		else
			printf("destroy live=%d\n", live_now());
	} else {
		printf("destroy skipped live=%d\n", live_now());
	}
	fi_end();
	alarm(0);
}

static void bye(void) { if (chdir("/") == 0) { rm_below(g_scratch, 0); rmdir(g_scratch); } }
int main(void)
{
	signal(SIGALRM, on_alarm);
	{	/* scratch log file next to the executable (build/C18/), one per process */
		char exe[512];
		ssize_t n = readlink("/proc/self/exe", exe, sizeof(exe) - 1);
		if (n <= 0) return 3;
		exe[n] = 0;
		char *sl = strrchr(exe, '/');
		if (sl) *sl = 0;
		snprintf(g_logpath, sizeof(g_logpath), "%s/c18_scratch_%d.log", exe, (int)getpid());
		/* scratch directory = working directory (muggle_log_simple_init writes below "log/" of the cwd) */
		snprintf(g_scratch, sizeof(g_scratch), "%s/c18_scratch_%d.d", exe, (int)getpid());
		mkdir(g_scratch, 0700);
		if (chdir(g_scratch) != 0) return 3;
		atexit(bye);
	}
	if (pipe(g_pipe) != 0) return 3;
	/* ma_ring: small rings, consumer thread running for the whole process */
	muggle_ma_ring_ctx_set_capacity(8);
	muggle_ma_ring_ctx_set_data_size(64);
	muggle_ma_ring_backend_run();
	return vdrv_main();
}
