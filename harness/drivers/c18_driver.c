/* C18 implementation driver.  One case = one (instance, fault set):
 *     inst <name> <id>
 *     fill <hex byte>           (optional: byte the object storage is filled with before the constructor; default 00)
 *     faults k1 k2 ...          (1-based indexes of the acquisition calls that fail; may be empty)
 * The object is pre-built without faults where the instance says so, the
 * operation runs with the faults armed, then the matching destroy runs.
 * Output (compared with the model, judged by the monitor):
 *     pre live=<blocks+fds held by the pre-built object>
 *     op rc=<ok|fail> att=<calls attempted> live=<blocks+fds still held>
 *     destroy live=<..>     |  destroy skipped live=<..>
 * Caller-provided object storage is filled with the `fill` byte (00 or A5) before the constructor runs.
 * A crash (sanitizer report, signal) or a hang (watchdog) ends the process
 * without END and is reported by the batch runner. */
#include "vdrv.h"
#include "faultinj/faultinj.h"
#include <signal.h>
#include <unistd.h>
#include <fcntl.h>
#include <sys/socket.h>
#include <netinet/in.h>
#include <arpa/inet.h>

#include "muggle/c/muggle_c.h"

/* ---------------------------------------------------------------- objects */
static muggle_channel_t g_chan;
static muggle_ring_buffer_t g_rb;
static muggle_double_buffer_t g_db;
static muggle_array_blocking_queue_t g_abq;
static muggle_memory_pool_t g_mp;
static muggle_sowr_memory_pool_t g_sowr;
static muggle_ts_memory_pool_t g_ts;
static muggle_ring_memory_pool_t g_rp;
static muggle_pointer_slot_t g_ps;
static muggle_bytes_buffer_t g_bb;
static muggle_flow_controller_t g_fc;
static muggle_array_list_t g_al;
static muggle_heap_t g_heap;
static muggle_stack_t g_stack;
static muggle_avl_tree_t g_avl;
static muggle_hash_table_t g_ht;
static muggle_linked_list_t g_ll;
static muggle_queue_t g_q;
static muggle_trie_t g_trie;
static muggle_event_signal_t g_sig;
static muggle_event_loop_t *g_ev;
static muggle_event_context_t g_ctx, g_ctx2;
static muggle_socket_evloop_pipe_t g_evpipe;
static muggle_socket_context_t g_lctx, *g_hctx;
static int g_lfd = -1, g_cfd = -1, g_ufd = -1;
static int g_pipe[2] = { -1, -1 };
static muggle_socket_evloop_handle_t g_seh;
static muggle_socket_context_t g_sctx;
static muggle_async_logger_t g_alog;
static muggle_log_file_handler_t g_lfh;
static muggle_log_file_rotate_handler_t g_lrh;
static char g_logpath[600];
static int g_keys[8] = { 10, 20, 30, 40, 50, 60, 70, 80 };
static void *g_sortarr[5];

static int g_fill;      /* byte the object storage is filled with before the constructor: 0x00 or 0xA5 */
#define memset0(p, z, n) memset((p), g_fill, (n))
static void zero_all(void)
{
	memset0(&g_chan, 0, sizeof g_chan); memset0(&g_rb, 0, sizeof g_rb); memset0(&g_db, 0, sizeof g_db);
	memset0(&g_abq, 0, sizeof g_abq); memset0(&g_mp, 0, sizeof g_mp); memset0(&g_sowr, 0, sizeof g_sowr);
	memset0(&g_ts, 0, sizeof g_ts); memset0(&g_rp, 0, sizeof g_rp); memset0(&g_ps, 0, sizeof g_ps);
	memset0(&g_bb, 0, sizeof g_bb); memset0(&g_fc, 0, sizeof g_fc); memset0(&g_al, 0, sizeof g_al);
	memset0(&g_heap, 0, sizeof g_heap); memset0(&g_stack, 0, sizeof g_stack); memset0(&g_avl, 0, sizeof g_avl);
	memset0(&g_ht, 0, sizeof g_ht); memset0(&g_ll, 0, sizeof g_ll); memset0(&g_q, 0, sizeof g_q);
	memset0(&g_trie, 0, sizeof g_trie); memset0(&g_sig, 0, sizeof g_sig); g_ev = NULL;
	memset(&g_ctx, 0, sizeof g_ctx); memset0(&g_seh, 0, sizeof g_seh); memset(&g_sctx, 0, sizeof g_sctx);
	memset0(&g_alog, 0, sizeof g_alog); memset(&g_ctx2, 0, sizeof g_ctx2); memset0(&g_evpipe, 0, sizeof g_evpipe);
	memset0(&g_lfh, 0, sizeof g_lfh); memset0(&g_lrh, 0, sizeof g_lrh);
	memset(&g_lctx, 0, sizeof g_lctx); g_hctx = NULL; g_lfd = g_cfd = g_ufd = -1;
}

/* caller-owned values stored in containers; the destroy callback releases them and is counted */
#define MAX_VALS 8
static void *g_vals[MAX_VALS];
static int g_cb_count;
static void cb_free_val(void *pool, void *data) { (void)pool; g_cb_count++; free(data); }
static int make_vals(int n)
{
	for (int i = 0; i < n; i++) { g_vals[i] = malloc(24); if (!g_vals[i]) return 0; memset(g_vals[i], i, 24); }
	return 1;
}

static int cmp_int(const void *a, const void *b)
{
	int x = *(const int *)a, y = *(const int *)b;
	return x < y ? -1 : (x > y ? 1 : 0);
}
static int cmp_str(const void *a, const void *b) { return strcmp((const char *)a, (const char *)b); }

/* ---------------------------------------------------------------- sync */
static int op_chan_mutex(void)
{
	return muggle_channel_init(&g_chan, 8, MUGGLE_CHANNEL_FLAG_WRITE_MUTEX | MUGGLE_CHANNEL_FLAG_READ_MUTEX) == 0;
}
static int op_chan_default(void) { return muggle_channel_init(&g_chan, 8, 0) == 0; } /* WRITE_MUTEX | READ_SYNC */
static int op_chan_nolock(void)
{
	return muggle_channel_init(&g_chan, 8, MUGGLE_CHANNEL_FLAG_WRITE_SINGLE | MUGGLE_CHANNEL_FLAG_READ_BUSY) == 0;
}
static int op_chan_rmutex(void)
{
	return muggle_channel_init(&g_chan, 8, MUGGLE_CHANNEL_FLAG_WRITE_SPIN | MUGGLE_CHANNEL_FLAG_READ_MUTEX) == 0;
}
static void d_chan(void) { muggle_channel_destroy(&g_chan); }
static int op_rb(void) { return muggle_ring_buffer_init(&g_rb, 8, 0) == 0; }
static void d_rb(void) { muggle_ring_buffer_destroy(&g_rb); }
static int op_mar(void) { return muggle_ma_ring_thread_ctx_init() != NULL; }
static void d_mar(void) { muggle_ma_ring_thread_ctx_cleanup(); }
static int op_db(void) { return muggle_double_buffer_init(&g_db, 8, 0) == 0; }
static void d_db(void) { muggle_double_buffer_destroy(&g_db); }
static int op_abq(void) { return muggle_array_blocking_queue_init(&g_abq, 8) == 0; }
static void d_abq(void) { muggle_array_blocking_queue_destroy(&g_abq); }

/* ---------------------------------------------------------------- memory */
static int op_mp_init(void) { return muggle_memory_pool_init(&g_mp, 4, 16) ? 1 : 0; }
static int op_mp_ensure(void) { return muggle_memory_pool_ensure_space(&g_mp, 8) ? 1 : 0; }
static int pre_mp_full(void)
{
	if (!muggle_memory_pool_init(&g_mp, 4, 16)) return 0;
	for (int i = 0; i < 4; i++) if (!muggle_memory_pool_alloc(&g_mp)) return 0;
	return 1;
}
static int pre_mp_capped(void)
{
	if (!muggle_memory_pool_init(&g_mp, 4, 16)) return 0;
	muggle_memory_pool_set_max_delta_cap(&g_mp, 2);
	for (int i = 0; i < 4; i++) if (!muggle_memory_pool_alloc(&g_mp)) return 0;
	return 1;
}
static int op_mp_alloc(void) { return muggle_memory_pool_alloc(&g_mp) != NULL; }
static void d_mp(void) { muggle_memory_pool_destroy(&g_mp); }
static int op_sowr(void) { return muggle_sowr_memory_pool_init(&g_sowr, 8, 16) == 0; }
static void d_sowr(void) { muggle_sowr_memory_pool_destroy(&g_sowr); }
static int op_ts(void) { return muggle_ts_memory_pool_init(&g_ts, 8, 16) == 0; }
static void d_ts(void) { muggle_ts_memory_pool_destroy(&g_ts); }
static int op_rp(void) { return muggle_ring_memory_pool_init(&g_rp, 8, 16) == 0; }
static void d_rp(void) { muggle_ring_memory_pool_destroy(&g_rp); }
static int op_ps(void) { return muggle_pointer_slot_init(&g_ps, 8) == 0; }
static void d_ps(void) { muggle_pointer_slot_destroy(&g_ps); }
static int op_bb(void) { return muggle_bytes_buffer_init(&g_bb, 64) ? 1 : 0; }
static void d_bb(void) { muggle_bytes_buffer_destroy(&g_bb); }
static int op_fc(void) { return muggle_flow_ctl_init(&g_fc, 1, 4, 0) ? 1 : 0; }
static void d_fc(void) { muggle_flow_ctl_destroy(&g_fc); }

/* ---------------------------------------------------------------- dsaa */
static int op_al_init(void) { return muggle_array_list_init(&g_al, 4) ? 1 : 0; }
static int op_al_ensure(void) { return muggle_array_list_ensure_capacity(&g_al, 16) ? 1 : 0; }
static int pre_al_full(void)
{
	if (!muggle_array_list_init(&g_al, 4)) return 0;
	for (int i = 0; i < 4; i++) if (!muggle_array_list_append(&g_al, -1, &g_keys[i])) return 0;
	return 1;
}
static int op_al_append(void) { return muggle_array_list_append(&g_al, -1, &g_keys[4]) != NULL; }
static int op_al_insert(void) { return muggle_array_list_insert(&g_al, 0, &g_keys[4]) != NULL; }
static void d_al(void) { muggle_array_list_destroy(&g_al, NULL, NULL); }

static int op_heap_init(void) { return muggle_heap_init(&g_heap, cmp_int, 4) ? 1 : 0; }
static int op_heap_ensure(void) { return muggle_heap_ensure_capacity(&g_heap, 16) ? 1 : 0; }
static int pre_heap_full(void)
{
	if (!muggle_heap_init(&g_heap, cmp_int, 4)) return 0;
	for (int i = 0; i < 4; i++) if (!muggle_heap_insert(&g_heap, &g_keys[i], NULL)) return 0;
	return 1;
}
static int op_heap_insert(void) { return muggle_heap_insert(&g_heap, &g_keys[4], NULL) ? 1 : 0; }
static void d_heap(void) { muggle_heap_destroy(&g_heap, NULL, NULL, NULL, NULL); }

static int op_stack_init(void) { return muggle_stack_init(&g_stack, 4) ? 1 : 0; }
static int op_stack_ensure(void) { return muggle_stack_ensure_capacity(&g_stack, 16) ? 1 : 0; }
static int pre_stack_full(void)
{
	if (!muggle_stack_init(&g_stack, 4)) return 0;
	for (int i = 0; i < 4; i++) if (!muggle_stack_push(&g_stack, &g_keys[i])) return 0;
	return 1;
}
static int op_stack_push(void) { return muggle_stack_push(&g_stack, &g_keys[4]) != NULL; }
static void d_stack(void) { muggle_stack_destroy(&g_stack, NULL, NULL); }

static int op_avl_init(void) { return muggle_avl_tree_init(&g_avl, cmp_int, 8) ? 1 : 0; }
static int pre_avl0(void)
{
	return muggle_avl_tree_init(&g_avl, cmp_int, 0) && muggle_avl_tree_insert(&g_avl, &g_keys[0], NULL);
}
static int pre_avl1(void)     /* pool of exactly one node, used up */
{
	return muggle_avl_tree_init(&g_avl, cmp_int, 1) && muggle_avl_tree_insert(&g_avl, &g_keys[0], NULL);
}
static int op_avl_insert(void) { return muggle_avl_tree_insert(&g_avl, &g_keys[1], NULL) != NULL; }
static void d_avl(void) { muggle_avl_tree_destroy(&g_avl, NULL, NULL, NULL, NULL); }

static int op_ht_init(void) { return muggle_hash_table_init(&g_ht, 16, NULL, cmp_str, 8) ? 1 : 0; }
static int pre_ht0(void)
{
	return muggle_hash_table_init(&g_ht, 16, NULL, cmp_str, 0) && muggle_hash_table_put(&g_ht, "a", NULL);
}
static int op_ht_put(void) { return muggle_hash_table_put(&g_ht, "b", NULL) != NULL; }
static int pre_ht1(void)      /* node pool of exactly one node, used up */
{
	return muggle_hash_table_init(&g_ht, 16, NULL, cmp_str, 1) && muggle_hash_table_put(&g_ht, "a", NULL);
}
static void d_ht(void) { muggle_hash_table_destroy(&g_ht, NULL, NULL, NULL, NULL); }

static int op_ll_init(void) { return muggle_linked_list_init(&g_ll, 8) ? 1 : 0; }
static int pre_ll0(void)
{
	return muggle_linked_list_init(&g_ll, 0) && muggle_linked_list_append(&g_ll, NULL, &g_keys[0]);
}
static int op_ll_append(void) { return muggle_linked_list_append(&g_ll, NULL, &g_keys[1]) != NULL; }
static int op_ll_insert(void) { return muggle_linked_list_insert(&g_ll, NULL, &g_keys[1]) != NULL; }
static int pre_ll1(void)
{
	return muggle_linked_list_init(&g_ll, 1) && muggle_linked_list_append(&g_ll, NULL, &g_keys[0]);
}
static void d_ll(void) { muggle_linked_list_destroy(&g_ll, NULL, NULL); }

static int op_q_init(void) { return muggle_queue_init(&g_q, 8) ? 1 : 0; }
static int pre_q0(void) { return muggle_queue_init(&g_q, 0) && muggle_queue_enqueue(&g_q, &g_keys[0]); }
static int op_q_enqueue(void) { return muggle_queue_enqueue(&g_q, &g_keys[1]) != NULL; }
static int pre_q1(void) { return muggle_queue_init(&g_q, 1) && muggle_queue_enqueue(&g_q, &g_keys[0]); }
static void d_q(void) { muggle_queue_destroy(&g_q, NULL, NULL); }

static int op_trie_init(void) { return muggle_trie_init(&g_trie, 8) ? 1 : 0; }
static int pre_trie0(void) { return muggle_trie_init(&g_trie, 0) ? 1 : 0; }
static int op_trie_insert1(void) { return muggle_trie_insert(&g_trie, "a", &g_keys[0]) != NULL; }
static int op_trie_insert3(void) { return muggle_trie_insert(&g_trie, "abc", &g_keys[0]) != NULL; }
static int pre_trie1(void) { return muggle_trie_init(&g_trie, 1) && muggle_trie_insert(&g_trie, "a", &g_keys[0]); }
static int op_trie_insert_b(void) { return muggle_trie_insert(&g_trie, "b", &g_keys[1]) != NULL; }
static void d_trie(void) { muggle_trie_destroy(&g_trie, NULL, NULL); }

static int op_merge_sort(void)
{
	for (int i = 0; i < 5; i++) g_sortarr[i] = &g_keys[4 - i];
	return muggle_merge_sort(g_sortarr, 5, cmp_int) ? 1 : 0;
}
static void d_none(void) { }

/* ---------------------------------------------------------------- boundary contents (values + free callback) */
static int pre_trie_c_a(void)
{
	return make_vals(2) && muggle_trie_init(&g_trie, 0) && muggle_trie_insert(&g_trie, "a", g_vals[1]);
}
static int op_trie_c_empty(void) { return muggle_trie_insert(&g_trie, "", g_vals[0]) != NULL; }
static int pre_trie_c_pool(void)
{
	return make_vals(3) && muggle_trie_init(&g_trie, 8) && muggle_trie_insert(&g_trie, "a", g_vals[1]) &&
		muggle_trie_insert(&g_trie, "ab", g_vals[2]);
}
static int pre_trie_c_single(void) { return make_vals(1) && muggle_trie_init(&g_trie, 0); }
static void d_trie_c(void) { muggle_trie_destroy(&g_trie, cb_free_val, NULL); }

static int pre_avl_c(void)
{
	if (!make_vals(4) || !muggle_avl_tree_init(&g_avl, cmp_int, 0)) return 0;
	if (!muggle_avl_tree_insert(&g_avl, &g_keys[1], g_vals[1])) return 0;   /* 20 */
	if (!muggle_avl_tree_insert(&g_avl, &g_keys[0], g_vals[2])) return 0;   /* 10 */
	if (!muggle_avl_tree_insert(&g_avl, &g_keys[2], g_vals[3])) return 0;   /* 30 */
	return muggle_avl_tree_insert(&g_avl, &g_keys[0], NULL) == NULL;          /* duplicate 10: rejected */
}
static int g_five = 5;
static int op_avl_c(void) { return muggle_avl_tree_insert(&g_avl, &g_five, g_vals[0]) != NULL; }
static int pre_avl_c_single(void) { return make_vals(1) && muggle_avl_tree_init(&g_avl, cmp_int, 0); }
static void d_avl_c(void) { muggle_avl_tree_destroy(&g_avl, NULL, NULL, cb_free_val, NULL); }

static int pre_ht_c(void)
{
	if (!make_vals(3) || !muggle_hash_table_init(&g_ht, 16, NULL, cmp_str, 0)) return 0;
	if (!muggle_hash_table_put(&g_ht, "a", g_vals[1]) || !muggle_hash_table_put(&g_ht, "b", g_vals[2])) return 0;
	return muggle_hash_table_put(&g_ht, "a", NULL) == NULL;                    /* duplicate: rejected */
}
static int op_ht_c(void) { return muggle_hash_table_put(&g_ht, "c", g_vals[0]) != NULL; }
static int pre_ht_c_single(void) { return make_vals(1) && muggle_hash_table_init(&g_ht, 16, NULL, cmp_str, 0); }
static void d_ht_c(void) { muggle_hash_table_destroy(&g_ht, NULL, NULL, cb_free_val, NULL); }

static int pre_ll_c(void)
{
	return make_vals(3) && muggle_linked_list_init(&g_ll, 0) && muggle_linked_list_append(&g_ll, NULL, g_vals[1]) &&
		muggle_linked_list_append(&g_ll, NULL, g_vals[2]);
}
static int op_ll_c_head(void) { return muggle_linked_list_insert(&g_ll, NULL, g_vals[0]) != NULL; }
static int pre_ll_c_pool(void)
{
	return make_vals(2) && muggle_linked_list_init(&g_ll, 2) && muggle_linked_list_append(&g_ll, NULL, g_vals[1]);
}
static int op_ll_c_append(void) { return muggle_linked_list_append(&g_ll, NULL, g_vals[0]) != NULL; }
static void d_ll_c(void) { muggle_linked_list_destroy(&g_ll, cb_free_val, NULL); }

static int pre_q_c(void)
{
	return make_vals(3) && muggle_queue_init(&g_q, 0) && muggle_queue_enqueue(&g_q, g_vals[1]) &&
		muggle_queue_enqueue(&g_q, g_vals[2]);
}
static int pre_q_c_pool(void) { return make_vals(2) && muggle_queue_init(&g_q, 2) && muggle_queue_enqueue(&g_q, g_vals[1]); }
static int op_q_c(void) { return muggle_queue_enqueue(&g_q, g_vals[0]) != NULL; }
static void d_q_c(void) { muggle_queue_destroy(&g_q, cb_free_val, NULL); }

static int pre_al_c(int n)
{
	if (!make_vals(n + 1) || !muggle_array_list_init(&g_al, 4)) return 0;
	for (int i = 1; i <= n; i++) if (!muggle_array_list_append(&g_al, -1, g_vals[i])) return 0;
	return 1;
}
static int pre_al_c3(void) { return pre_al_c(3); }
static int pre_al_c4(void) { return pre_al_c(4); }
static int op_al_c_index0(void) { return muggle_array_list_insert(&g_al, 0, g_vals[0]) != NULL; }
static void d_al_c(void) { muggle_array_list_destroy(&g_al, cb_free_val, NULL); }

static int pre_heap_c4(void)
{
	if (!make_vals(5) || !muggle_heap_init(&g_heap, cmp_int, 4)) return 0;
	for (int i = 1; i <= 4; i++) if (!muggle_heap_insert(&g_heap, &g_keys[i], g_vals[i])) return 0;
	return 1;
}
static int op_heap_c(void) { return muggle_heap_insert(&g_heap, &g_keys[0], g_vals[0]) ? 1 : 0; }
static void d_heap_c(void) { muggle_heap_destroy(&g_heap, NULL, NULL, cb_free_val, NULL); }

static int pre_stack_c3(void)
{
	if (!make_vals(4) || !muggle_stack_init(&g_stack, 4)) return 0;
	for (int i = 1; i <= 3; i++) if (!muggle_stack_push(&g_stack, g_vals[i])) return 0;
	return 1;
}
static int op_stack_c(void) { return muggle_stack_push(&g_stack, g_vals[0]) != NULL; }
static void d_stack_c(void) { muggle_stack_destroy(&g_stack, cb_free_val, NULL); }

/* ---------------------------------------------------------------- event / net / log */
static int op_sig(void) { return muggle_ev_signal_init(&g_sig) == 0; }
static void d_sig(void) { muggle_ev_signal_destroy(&g_sig); }

static int evloop_new_hints(int type, int pool, int hints)
{
	muggle_event_loop_init_args_t args;
	memset(&args, 0, sizeof(args));
	args.evloop_type = type;
	args.hints_max_fd = hints;
	args.use_mem_pool = pool;
	g_ev = muggle_evloop_new(&args);
	return g_ev != NULL;
}
static int evloop_new_of(int type, int pool) { return evloop_new_hints(type, pool, 8); }
static int op_ev_epoll(void) { return evloop_new_of(MUGGLE_EVLOOP_TYPE_EPOLL, 0); }
static int op_ev_poll(void) { return evloop_new_of(MUGGLE_EVLOOP_TYPE_POLL, 0); }
static int op_ev_select(void) { return evloop_new_of(MUGGLE_EVLOOP_TYPE_SELECT, 0); }
static int op_ev_epoll_pool(void) { return evloop_new_of(MUGGLE_EVLOOP_TYPE_EPOLL, 1); }
static void d_ev(void) { muggle_evloop_delete(g_ev); g_ev = NULL; }
static int op_ev_add_ctx(void)
{
	muggle_ev_ctx_init(&g_ctx, g_pipe[0], NULL);
	return muggle_evloop_add_ctx(g_ev, &g_ctx) == 0;
}

static int pre_ev_pool1(void)     /* ctx_list node pool of exactly one node, used up */
{
	return evloop_new_hints(MUGGLE_EVLOOP_TYPE_EPOLL, 1, 1) && op_ev_add_ctx();
}
static int op_ev_add_ctx2(void)
{
	muggle_ev_ctx_init(&g_ctx2, g_pipe[1], NULL);
	return muggle_evloop_add_ctx(g_ev, &g_ctx2) == 0;
}

static int op_evpipe(void) { return muggle_socket_evloop_pipe_init(&g_evpipe) == 0; }
static void d_evpipe(void) { muggle_socket_evloop_pipe_destroy(&g_evpipe); }

static int op_seh_init(void) { return muggle_socket_evloop_handle_init(&g_seh) == 0; }
static void d_seh(void) { muggle_socket_evloop_handle_destroy(&g_seh); }
static int pre_seh_ev(void)
{
	if (muggle_socket_evloop_handle_init(&g_seh) != 0) return 0;
	if (!op_ev_epoll()) return 0;
	muggle_socket_evloop_handle_attach(&g_seh, g_ev);
	return 1;
}
static int op_seh_add_ctx(void) { muggle_socket_evloop_add_ctx(g_ev, &g_sctx); return 1; /* void API */ }
static void d_seh_ev(void) { d_seh(); d_ev(); }

/* what muggle_evloop_run does when the loop exits: cb_clear for every registered context */
static void clear_ctxs(void)
{
	muggle_linked_list_node_t *n = muggle_linked_list_first(g_ev->ctx_list);
	for (; n; n = muggle_linked_list_next(g_ev->ctx_list, n)) g_ev->cb_clear(g_ev, (muggle_event_context_t *)n->data);
}
/* accept path of the evloop's cb_read: loopback listener with one pending connection */
static int pre_accept(void)
{
	struct sockaddr_in a;
	socklen_t al = sizeof(a);
	if (!pre_seh_ev()) return 0;
	g_lfd = socket(AF_INET, SOCK_STREAM, 0);
	if (g_lfd < 0) return 0;
	memset(&a, 0, sizeof(a));
	a.sin_family = AF_INET;
	a.sin_addr.s_addr = htonl(INADDR_LOOPBACK);
	a.sin_port = 0;
	if (bind(g_lfd, (struct sockaddr *)&a, sizeof(a)) != 0 || listen(g_lfd, 4) != 0) return 0;
	if (getsockname(g_lfd, (struct sockaddr *)&a, &al) != 0) return 0;
	fcntl(g_lfd, F_SETFL, fcntl(g_lfd, F_GETFL, 0) | O_NONBLOCK);
	g_cfd = socket(AF_INET, SOCK_STREAM, 0);
	if (g_cfd < 0 || connect(g_cfd, (struct sockaddr *)&a, sizeof(a)) != 0) return 0;
	muggle_socket_ctx_init(&g_lctx, g_lfd, NULL, MUGGLE_SOCKET_CTX_TYPE_TCP_LISTEN);
	return 1;
}
static int op_accept(void) { g_ev->cb_read(g_ev, (muggle_event_context_t *)&g_lctx); return 1; /* callback: void */ }
static void d_accept(void) { clear_ctxs(); d_seh(); d_ev(); close(g_lfd); close(g_cfd); }
/* cb_wake with one context handed over through muggle_socket_evloop_add_ctx */
static int pre_wake(void)
{
	if (!pre_seh_ev()) return 0;
	g_ufd = socket(AF_INET, SOCK_DGRAM, 0);
	if (g_ufd < 0) return 0;
	g_hctx = (muggle_socket_context_t *)malloc(sizeof(*g_hctx));
	if (!g_hctx) return 0;
	muggle_socket_ctx_init(g_hctx, g_ufd, NULL, MUGGLE_SOCKET_CTX_TYPE_UDP);
	muggle_socket_evloop_add_ctx(g_ev, g_hctx);
	return muggle_queue_size(g_seh.ctx_queue) == 1;
}
static int op_wake(void) { g_ev->cb_wake(g_ev); return 1; /* callback: void */ }
static void d_wake(void) { clear_ctxs(); d_seh(); d_ev(); }

static int op_alog_init(void) { return muggle_async_logger_init(&g_alog, 8) == 0; }
/* a handler that accepts messages from `level` on and does nothing with them (no acquisition): since the
 * logger's pre-filter asks the ATTACHED handlers, the message allocation + queue push of
 * muggle_async_logger_log only runs when some handler accepts the level */
static muggle_log_handler_t g_sink;
static int g_sink_writes;
static int sink_write(struct muggle_log_handler *h, const muggle_log_msg_t *msg) { (void)h; (void)msg; g_sink_writes++; return 0; }
static int attach_sink(int level)
{
	if (muggle_log_handler_init_default(&g_sink) != 0) return 0;
	g_sink.write = sink_write;
	g_sink.destroy = muggle_log_handler_destroy_default;
	muggle_log_handler_set_level(&g_sink, level);
	muggle_logger_t *lg = (muggle_logger_t *)&g_alog;
	return lg->add_handler(lg, &g_sink) == 0;
}
static int pre_alog(void)
{
	if (muggle_async_logger_init(&g_alog, 8) != 0) return 0;
	return attach_sink(MUGGLE_LOG_LEVEL_TRACE);        /* accepts the INFO message logged by the operation */
}
static int pre_alog_filtered(void)
{
	if (muggle_async_logger_init(&g_alog, 8) != 0) return 0;
	return attach_sink(MUGGLE_LOG_LEVEL_FATAL);        /* no attached handler accepts INFO: early-out, no acquisition */
}
static int op_alog_log(void)
{
	muggle_log_src_loc_t loc = { "c18_driver.c", 1, "op_alog_log" };
	muggle_logger_t *lg = (muggle_logger_t *)&g_alog;
	lg->log(lg, MUGGLE_LOG_LEVEL_INFO, &loc, "message %d", 18);
	return 1; /* void API */
}
static void d_alog(void) { muggle_async_logger_destroy((muggle_logger_t *)&g_alog); }
static void d_alog_sink(void) { d_alog(); g_sink.destroy(&g_sink); }

/* ---------------------------------------------------------------- log handlers that own a FILE* */
static void fresh_logfile(void)
{
	char p[640];
	unlink(g_logpath);
	for (int i = 1; i <= 3; i++) { snprintf(p, sizeof(p), "%s.%d", g_logpath, i); unlink(p); }
}
static int op_lfh(void) { fresh_logfile(); return muggle_log_file_handler_init(&g_lfh, g_logpath, "w") == 0; }
static void d_lfh(void) { g_lfh.handler.destroy((muggle_log_handler_t *)&g_lfh); }
static int op_lrh(void) { fresh_logfile(); return muggle_log_file_rotate_handler_init(&g_lrh, g_logpath, 64, 2) == 0; }
static void d_lrh(void) { g_lrh.handler.destroy((muggle_log_handler_t *)&g_lrh); fresh_logfile(); }
/* two writes of ~100 bytes with max_bytes = 64: each write is followed by a rotation (fclose, rename,
 * fopen); when the re-open fails the handler must drop the closed handle, so the second write is skipped */
static int op_lrh_write2(void)
{
	muggle_log_msg_t msg;
	memset(&msg, 0, sizeof(msg));
	msg.level = MUGGLE_LOG_LEVEL_INFO;
	msg.src_loc.file = "c18_driver.c";
	msg.src_loc.line = 1;
	msg.src_loc.func = "op_lrh_write2";
	msg.payload = "0123456789012345678901234567890123456789012345678901234567890123456789012345678901234567890123456789";
	g_lrh.handler.write((muggle_log_handler_t *)&g_lrh, &msg);
	g_lrh.handler.write((muggle_log_handler_t *)&g_lrh, &msg);
	return 1; /* failure of the rotation is not reported to the caller of write */
}

/* ---------------------------------------------------------------- table */
struct inst {
	const char *name;
	int (*pre)(void);      /* object pre-built without faults (may be NULL) */
	int (*op)(void);       /* 1 = success reported, 0 = failure reported */
	void (*destroy)(void);
	int dfail;             /* destroy also after a reported failure */
	int settle;            /* another thread releases: wait until the counts are stable */
	int nvals;             /* > 0: values stored in the container, released through the counted callback */
	int retry;             /* a reported failure is followed by a retry without faults ("safe to retry") */
};
static const struct inst g_inst[] = {
	{ "channel_init_mutex", NULL, op_chan_mutex, d_chan, 1, 0 },
	{ "channel_init_nolock", NULL, op_chan_nolock, d_chan, 1, 0 },
	{ "ring_buffer_init", NULL, op_rb, d_rb, 1, 0 },
	{ "ma_ring_thread_ctx_init", NULL, op_mar, d_mar, 1, 1 },
	{ "double_buffer_init", NULL, op_db, d_db, 1, 0 },
	{ "array_blocking_queue_init", NULL, op_abq, d_abq, 1, 0 },
	{ "memory_pool_init", NULL, op_mp_init, d_mp, 1, 0 },
	{ "memory_pool_ensure_space", op_mp_init, op_mp_ensure, d_mp, 1, 0 },
	{ "memory_pool_alloc_grow", pre_mp_full, op_mp_alloc, d_mp, 1, 0 },
	{ "sowr_memory_pool_init", NULL, op_sowr, d_sowr, 1, 0 },
	{ "ts_memory_pool_init", NULL, op_ts, d_ts, 1, 0 },
	{ "ring_memory_pool_init", NULL, op_rp, d_rp, 1, 0 },
	{ "pointer_slot_init", NULL, op_ps, d_ps, 1, 0 },
	{ "bytes_buffer_init", NULL, op_bb, d_bb, 1, 0 },
	{ "flow_ctl_init", NULL, op_fc, d_fc, 1, 0 },
	{ "array_list_init", NULL, op_al_init, d_al, 1, 0 },
	{ "array_list_ensure_capacity", op_al_init, op_al_ensure, d_al, 1, 0 },
	{ "array_list_append_grow", pre_al_full, op_al_append, d_al, 1, 0 },
	{ "avl_tree_init_pool", NULL, op_avl_init, d_avl, 1, 0 },
	{ "avl_tree_insert", pre_avl0, op_avl_insert, d_avl, 1, 0 },
	{ "avl_tree_insert_pool_grow", pre_avl1, op_avl_insert, d_avl, 1, 0 },
	{ "hash_table_init_pool", NULL, op_ht_init, d_ht, 1, 0 },
	{ "hash_table_put", pre_ht0, op_ht_put, d_ht, 1, 0 },
	{ "heap_init", NULL, op_heap_init, d_heap, 1, 0 },
	{ "heap_ensure_capacity", op_heap_init, op_heap_ensure, d_heap, 1, 0 },
	{ "heap_insert_grow", pre_heap_full, op_heap_insert, d_heap, 1, 0 },
	{ "linked_list_init_pool", NULL, op_ll_init, d_ll, 1, 0 },
	{ "linked_list_append", pre_ll0, op_ll_append, d_ll, 1, 0 },
	{ "queue_init_pool", NULL, op_q_init, d_q, 1, 0 },
	{ "queue_enqueue", pre_q0, op_q_enqueue, d_q, 1, 0 },
	{ "stack_init", NULL, op_stack_init, d_stack, 1, 0 },
	{ "stack_ensure_capacity", op_stack_init, op_stack_ensure, d_stack, 1, 0 },
	{ "stack_push_grow", pre_stack_full, op_stack_push, d_stack, 1, 0 },
	{ "trie_init_pool", NULL, op_trie_init, d_trie, 1, 0 },
	{ "trie_insert_1", pre_trie0, op_trie_insert1, d_trie, 1, 0 },
	{ "trie_insert_3", pre_trie0, op_trie_insert3, d_trie, 1, 0 },
	{ "merge_sort", NULL, op_merge_sort, d_none, 1, 0 },
	{ "ev_signal_init", NULL, op_sig, d_sig, 1, 0 },
	{ "evloop_new_epoll", NULL, op_ev_epoll, d_ev, 1, 0 },
	{ "evloop_new_poll", NULL, op_ev_poll, d_ev, 1, 0 },
	{ "evloop_new_select", NULL, op_ev_select, d_ev, 1, 0 },
	{ "evloop_new_epoll_mempool", NULL, op_ev_epoll_pool, d_ev, 1, 0 },
	{ "evloop_add_ctx", op_ev_epoll, op_ev_add_ctx, d_ev, 1, 0 },
	{ "socket_evloop_handle_init", NULL, op_seh_init, d_seh, 1, 0 },
	{ "socket_evloop_add_ctx", pre_seh_ev, op_seh_add_ctx, d_seh_ev, 1, 0 },
	{ "async_logger_init", NULL, op_alog_init, d_alog, 0, 1 },
	{ "async_logger_log", pre_alog, op_alog_log, d_alog_sink, 1, 1 },
	{ "async_logger_log_filtered", pre_alog_filtered, op_alog_log, d_alog_sink, 1, 1 },
	{ "channel_init_default", NULL, op_chan_default, d_chan, 1, 0 },
	{ "array_list_insert_grow", pre_al_full, op_al_insert, d_al, 1, 0 },
	{ "linked_list_insert", pre_ll0, op_ll_insert, d_ll, 1, 0 },
	{ "linked_list_append_pool_grow", pre_ll1, op_ll_append, d_ll, 1, 0 },
	{ "hash_table_put_pool_grow", pre_ht1, op_ht_put, d_ht, 1, 0 },
	{ "queue_enqueue_pool_grow", pre_q1, op_q_enqueue, d_q, 1, 0 },
	{ "trie_insert_pool_grow", pre_trie1, op_trie_insert_b, d_trie, 1, 0 },
	{ "memory_pool_alloc_grow_capped", pre_mp_capped, op_mp_alloc, d_mp, 1, 0 },
	{ "evloop_add_ctx_poll", op_ev_poll, op_ev_add_ctx, d_ev, 1, 0 },
	{ "evloop_add_ctx_select", op_ev_select, op_ev_add_ctx, d_ev, 1, 0 },
	{ "evloop_add_ctx_mempool_grow", pre_ev_pool1, op_ev_add_ctx2, d_ev, 1, 0 },
	{ "socket_evloop_pipe_init", NULL, op_evpipe, d_evpipe, 1, 0 },
	{ "socket_evloop_on_read_accept", pre_accept, op_accept, d_accept, 1, 0 },
	{ "socket_evloop_on_wake", pre_wake, op_wake, d_wake, 1, 0 },
	{ "channel_init_rmutex", NULL, op_chan_rmutex, d_chan, 1, 0 },
	{ "trie_content_empty_key", pre_trie_c_a, op_trie_c_empty, d_trie_c, 1, 0, 2, 1 },
	{ "trie_content_empty_key_pool", pre_trie_c_pool, op_trie_c_empty, d_trie_c, 1, 0, 3, 1 },
	{ "trie_content_single_empty", pre_trie_c_single, op_trie_c_empty, d_trie_c, 1, 0, 1, 1 },
	{ "avl_tree_content", pre_avl_c, op_avl_c, d_avl_c, 1, 0, 4, 1 },
	{ "avl_tree_content_single", pre_avl_c_single, op_avl_c, d_avl_c, 1, 0, 1, 1 },
	{ "hash_table_content", pre_ht_c, op_ht_c, d_ht_c, 1, 0, 3, 1 },
	{ "hash_table_content_single", pre_ht_c_single, op_ht_c, d_ht_c, 1, 0, 1, 1 },
	{ "linked_list_content_head", pre_ll_c, op_ll_c_head, d_ll_c, 1, 0, 3, 1 },
	{ "linked_list_content_pool_full", pre_ll_c_pool, op_ll_c_append, d_ll_c, 1, 0, 2, 1 },
	{ "queue_content", pre_q_c, op_q_c, d_q_c, 1, 0, 3, 1 },
	{ "queue_content_pool_full", pre_q_c_pool, op_q_c, d_q_c, 1, 0, 2, 1 },
	{ "array_list_content_index0_full", pre_al_c3, op_al_c_index0, d_al_c, 1, 0, 4, 1 },
	{ "array_list_content_index0_grow", pre_al_c4, op_al_c_index0, d_al_c, 1, 0, 5, 1 },
	{ "heap_content_grow", pre_heap_c4, op_heap_c, d_heap_c, 1, 0, 5, 1 },
	{ "stack_content_full", pre_stack_c3, op_stack_c, d_stack_c, 1, 0, 4, 1 },
	{ "log_file_handler_init", NULL, op_lfh, d_lfh, 1, 0 },
	{ "log_file_rotate_handler_init", NULL, op_lrh, d_lrh, 1, 0 },
	{ "log_file_rotate_handler_write_rotate", op_lrh, op_lrh_write2, d_lrh, 1, 0 },
};
#define N_INST ((int)(sizeof(g_inst) / sizeof(g_inst[0])))

/* ---------------------------------------------------------------- protocol */
static const struct inst *cur;
static int ks[FI_MAX_FAULTS], nks;
static int have_faults;

static void on_alarm(int sig)
{
	(void)sig;
	static const char msg[] = "\nwatchdog: HANG (case did not finish within 4 s)\n";
	if (write(2, msg, sizeof(msg) - 1)) { }
	_exit(7);
}

static void case_begin(void) { cur = NULL; nks = 0; have_faults = 0; g_fill = 0; alarm(4); }

static void case_line(char *line)
{
	char w[64], name[128];
	int id = 0, off = 0;
	if (sscanf(line, "%63s%n", w, &off) != 1) return;
	if (strcmp(w, "inst") == 0) {
		if (sscanf(line + off, "%127s %d", name, &id) < 1) return;
		for (int i = 0; i < N_INST; i++) if (strcmp(g_inst[i].name, name) == 0) cur = &g_inst[i];
	} else if (strcmp(w, "fill") == 0) {
		unsigned v = 0;
		if (sscanf(line + off, "%x", &v) == 1) g_fill = (int)(v & 0xff);
	} else if (strcmp(w, "faults") == 0) {
		char *p = line + off;
		int v, n;
		have_faults = 1;
		while (nks < FI_MAX_FAULTS && sscanf(p, "%d%n", &v, &n) == 1) { ks[nks++] = v; p += n; }
	}
}

static void case_end(void)
{
	if (!cur || !have_faults) { printf("?\n"); alarm(0); return; }
	zero_all();
	g_cb_count = 0;
	fi_begin();
	if (cur->pre && !cur->pre()) { printf("pre FAILED\n"); fi_end(); alarm(0); return; }
	if (cur->settle) fi_settle();
	printf("pre live=%d\n", fi_live_blocks() + fi_live_fds() + fi_live_files());
	fi_arm(ks, nks);
	int ok = cur->op();
	int att = fi_calls();
	fi_disarm();
	if (cur->settle) fi_settle();
	printf("op rc=%s att=%d live=%d\n", ok ? "ok" : "fail", att, fi_live_blocks() + fi_live_fds() + fi_live_files());
	fflush(stdout);
	if (!ok && cur->retry) {
		ok = cur->op();
		printf("retry rc=%s\n", ok ? "ok" : "fail");
		fflush(stdout);
	}
	if (ok || cur->dfail) {
		cur->destroy();
		if (cur->settle) fi_settle();
		if (cur->nvals > 0)
			printf("destroy live=%d freed=%d\n", fi_live_blocks() + fi_live_fds() + fi_live_files(), g_cb_count);
		else
			printf("destroy live=%d\n", fi_live_blocks() + fi_live_fds() + fi_live_files());
	} else {
		printf("destroy skipped live=%d\n", fi_live_blocks() + fi_live_fds() + fi_live_files());
	}
	fi_end();
	alarm(0);
}

int main(void)
{
	signal(SIGALRM, on_alarm);
	{	/* scratch log file next to the executable (build/C18/), one per process */
		char exe[512];
		ssize_t n = readlink("/proc/self/exe", exe, sizeof(exe) - 1);
		if (n <= 0) return 3;
		exe[n] = 0;
		char *sl = strrchr(exe, '/');
		if (sl) *sl = 0;
		snprintf(g_logpath, sizeof(g_logpath), "%s/c18_scratch_%d.log", exe, (int)getpid());
	}
	if (pipe(g_pipe) != 0) return 3;
	/* ma_ring: small rings, consumer thread running for the whole process */
	muggle_ma_ring_ctx_set_capacity(8);
	muggle_ma_ring_ctx_set_data_size(64);
	muggle_ma_ring_backend_run();
	return vdrv_main();
}
