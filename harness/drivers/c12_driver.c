/* C12 implementation driver: the PUBLIC muggle_aes_* / muggle_des_* / muggle_tdes_* API
 * under ASan, hex in / hex out.
 *
 *   setkey <alg> <op> <mode> <bits> <keyhex|-> [nulls]     -> setkey <ERR> ks=<hex|untouched|TOUCHED>
 *        (on success: the key schedule the call left in the public context
 *         structure - AES rd_key, DES sk, 3DES ctx1..3 - compared with the implementation-layer model;
 *         on refusal: whether the key-schedule area of the context, pre-filled with a pattern, was left alone -
 *         a refused set_key must not leave a half-made schedule behind)
 *        alg aes|des|tdes; op enc|dec|<int>; mode ecb|cbc|cfb|ofb|ctr|<int>;
 *        nulls: letters k (key / key1) 2 (key2) 3 (key3) c (ctx) or '-'.
 *        Starts a new phase: the outputs accumulated so far become "the previous phase".
 *   use <slot>                                             -> (no output)
 *        switches to context slot 0..3 (slot 0 at the start of a case).  Every slot has its own context, caller-held
 *        chaining state and output accumulators, so two or more streams - of the same or of different algorithms -
 *        can be fed alternately (a static scratch block or a "last key" cache in the library would mix them up).
 *   share <slot>                                           -> (no output)
 *        the current slot uses the SAME context object as <slot> (two streams with separate caller-held state on one
 *        context); the context stays owned by <slot>.
 *   state <ivhex> <off> <sbhex>                            -> (no output)
 *        caller-held chaining state: iv (or the nonce's memory image), *offset, stream_block
 *   crypt <fn> <align> <nulls> <hex | - | @start:len>      -> <ERR> out=<hex|untouched> iv=<hex> off=<n> sb=<hex>
 *        fn ecb|cbc|cfb|ofb|ctr; input/output/iv buffers are exact-size heap blocks starting
 *        <align> bytes past an aligned address; nulls: letters c i o v f s (ctx, input, output,
 *        iv/nonce, offset pointer, stream block) or '-'; @start:len = slice of the previous
 *        phase's concatenated output; #<seed>:<len> = <len> bytes of the xorshift64* stream started at <seed> (decimal;
 *        messages too long for a hex line: more than 65536 blocks in ONE call).  The output buffer is pre-filled so
 *        that "nothing written" is observable.
 */
#include "vdrv.h"
#include "muggle/c/base/err.h"
#include "muggle/c/crypt/aes.h"
#include "muggle/c/crypt/des.h"
#include "muggle/c/crypt/tdes.h"

enum { ALG_NONE = 0, ALG_AES, ALG_DES, ALG_TDES };
#define NSLOTS 4
struct slot {
	int alg_, have_ctx_, bs_, owner;          /* owner: slot index that allocated the context (-1: none) */
	muggle_aes_context_t *actx_;
	muggle_des_context_t *dctx_;
	muggle_tdes_context_t *tctx_;
	unsigned char st_iv_[16], st_sb_[16];
	unsigned int st_off_;
	unsigned char *prev_acc_, *cur_acc_;
	size_t prev_len_, cur_len_, cur_cap_;
};
static struct slot slots[NSLOTS];
static int cur_slot;
#define S (&slots[cur_slot])
#define alg (S->alg_)
#define have_ctx (S->have_ctx_)
#define bs (S->bs_)
#define actx (S->actx_)
#define dctx (S->dctx_)
#define tctx (S->tctx_)
#define st_iv (S->st_iv_)
#define st_sb (S->st_sb_)
#define st_off (S->st_off_)
#define prev_acc (S->prev_acc_)
#define cur_acc (S->cur_acc_)
#define prev_len (S->prev_len_)
#define cur_len (S->cur_len_)
#define cur_cap (S->cur_cap_)

#define FILL 0xA5

static const char *errname(int rc)
{
	static char buf[32];
	switch (rc) {
	case MUGGLE_OK: return "OK";
	case MUGGLE_ERR_NULL_PARAM: return "NULL_PARAM";
	case MUGGLE_ERR_INVALID_PARAM: return "INVALID_PARAM";
	case MUGGLE_ERR_CRYPT_KEY_SIZE: return "CRYPT_KEY_SIZE";
	default: snprintf(buf, sizeof(buf), "E%d", rc); return buf;
	}
}

static int hexval(int c)
{
	if (c >= '0' && c <= '9') return c - '0';
	if (c >= 'a' && c <= 'f') return c - 'a' + 10;
	if (c >= 'A' && c <= 'F') return c - 'A' + 10;
	return -1;
}
/* decodes into a fresh exact-size malloc block; "-" = empty */
static unsigned char *unhex(const char *s, size_t *len)
{
	size_t n = (strcmp(s, "-") == 0) ? 0 : strlen(s) / 2;
	unsigned char *p = (unsigned char *)malloc(n ? n : 1);
	for (size_t i = 0; i < n; i++) p[i] = (unsigned char)((hexval(s[2 * i]) << 4) | hexval(s[2 * i + 1]));
	*len = n;
	return p;
}
static void puthex(const unsigned char *p, size_t n)
{
	static const char d[] = "0123456789abcdef";
	for (size_t i = 0; i < n; i++) { putchar(d[p[i] >> 4]); putchar(d[p[i] & 15]); }
}

static int parse_op(const char *s)
{
	if (strcmp(s, "enc") == 0) return MUGGLE_ENCRYPT;
	if (strcmp(s, "dec") == 0) return MUGGLE_DECRYPT;
	return atoi(s);
}
static int parse_mode(const char *s)
{
	if (strcmp(s, "ecb") == 0) return MUGGLE_BLOCK_CIPHER_MODE_ECB;
	if (strcmp(s, "cbc") == 0) return MUGGLE_BLOCK_CIPHER_MODE_CBC;
	if (strcmp(s, "cfb") == 0) return MUGGLE_BLOCK_CIPHER_MODE_CFB;
	if (strcmp(s, "ofb") == 0) return MUGGLE_BLOCK_CIPHER_MODE_OFB;
	if (strcmp(s, "ctr") == 0) return MUGGLE_BLOCK_CIPHER_MODE_CTR;
	return atoi(s);
}

/* drops the context of the current slot; a context owned by this slot is freed and every slot sharing it loses it */
static void free_ctx(void)
{
	if (S->owner == cur_slot) {
		for (int i = 0; i < NSLOTS; i++)
			if (i != cur_slot && slots[i].owner == cur_slot) {
				slots[i].actx_ = NULL; slots[i].dctx_ = NULL; slots[i].tctx_ = NULL;
				slots[i].have_ctx_ = 0; slots[i].alg_ = ALG_NONE; slots[i].owner = -1;
			}
		free(actx); free(dctx); free(tctx);
	}
	actx = NULL; dctx = NULL; tctx = NULL;
	have_ctx = 0; alg = ALG_NONE; S->owner = -1;
}
static void case_begin(void)
{
	for (cur_slot = 0; cur_slot < NSLOTS; cur_slot++) {
		free_ctx();
		free(prev_acc); free(cur_acc);
		prev_acc = cur_acc = NULL;
		prev_len = cur_len = cur_cap = 0;
		memset(st_iv, 0, sizeof(st_iv)); memset(st_sb, 0, sizeof(st_sb)); st_off = 0;
		bs = 16;
	}
	cur_slot = 0;
}
static void case_end(void) { case_begin(); }

static void do_use(char *line)
{
	int k = -1;
	if (sscanf(line, "%*s %d", &k) == 1 && k >= 0 && k < NSLOTS) cur_slot = k;
}
static void do_share(char *line)
{
	int k = -1;
	if (sscanf(line, "%*s %d", &k) != 1 || k < 0 || k >= NSLOTS || k == cur_slot) return;
	/* new phase in this slot, on the other slot's context object */
	free(prev_acc);
	prev_acc = cur_acc; prev_len = cur_len;
	cur_acc = NULL; cur_len = cur_cap = 0;
	free_ctx();
	if (!slots[k].have_ctx_ || slots[k].owner != k) return;
	alg = slots[k].alg_; bs = slots[k].bs_; have_ctx = 1; S->owner = k;
	actx = slots[k].actx_; dctx = slots[k].dctx_; tctx = slots[k].tctx_;
}

/* xorshift64* byte stream (same in the model driver and in the monitor) */
static void prng_fill(unsigned char *p, size_t n, uint64_t seed)
{
	uint64_t x = seed ? seed : 0x9E3779B97F4A7C15ULL;
	size_t i = 0;
	while (i < n) {
		x ^= x >> 12; x ^= x << 25; x ^= x >> 27;
		uint64_t v = x * 2685821657736338717ULL;
		for (int b = 0; b < 8 && i < n; b++, i++) p[i] = (unsigned char)(v >> (8 * b));
	}
}

static void acc_append(const unsigned char *p, size_t n)
{
	if (n == 0) return;
	if (cur_len + n > cur_cap) {
		cur_cap = (cur_len + n) * 2 + 64;
		cur_acc = (unsigned char *)realloc(cur_acc, cur_cap);
	}
	memcpy(cur_acc + cur_len, p, n);
	cur_len += n;
}

static int all_fill(const void *p, size_t n)
{
	const unsigned char *b = (const unsigned char *)p;
	for (size_t i = 0; i < n; i++) if (b[i] != FILL) return 0;
	return 1;
}

static void do_setkey(char *line)
{
	static char a[16], o[32], m[32], nulls[16];
	char *khex = (char *)malloc(strlen(line) + 2);
	int bits = 0;
	nulls[0] = '-'; nulls[1] = 0;
	int nf = sscanf(line, "%*s %15s %31s %31s %d %s %15s", a, o, m, &bits, khex, nulls);
	if (nf < 5) { printf("badline\n"); free(khex); return; }
	/* new phase */
	free(prev_acc);
	prev_acc = cur_acc; prev_len = cur_len;
	cur_acc = NULL; cur_len = cur_cap = 0;
	free_ctx();
	size_t klen;
	unsigned char *key = unhex(khex, &klen);
	int op = parse_op(o), mode = parse_mode(m), rc;
	int nk = strchr(nulls, 'k') != NULL, n2 = strchr(nulls, '2') != NULL, n3 = strchr(nulls, '3') != NULL,
	    nc = strchr(nulls, 'c') != NULL;
	if (strcmp(a, "aes") == 0) {
		alg = ALG_AES; bs = 16;
		actx = (muggle_aes_context_t *)malloc(sizeof(*actx));
		memset(actx, FILL, sizeof(*actx));
		rc = muggle_aes_set_key(op, mode, nk ? NULL : key, bits, nc ? NULL : actx);
	} else if (strcmp(a, "des") == 0) {
		alg = ALG_DES; bs = 8;
		dctx = (muggle_des_context_t *)malloc(sizeof(*dctx));
		memset(dctx, FILL, sizeof(*dctx));
		rc = muggle_des_set_key(op, mode, nk ? NULL : key, nc ? NULL : dctx);
	} else {
		alg = ALG_TDES; bs = 8;
		tctx = (muggle_tdes_context_t *)malloc(sizeof(*tctx));
		memset(tctx, FILL, sizeof(*tctx));
		/* three separate exact-size key blocks */
		unsigned char *k1 = (unsigned char *)malloc(8), *k2 = (unsigned char *)malloc(8), *k3 = (unsigned char *)malloc(8);
		memset(k1, 0, 8); memset(k2, 0, 8); memset(k3, 0, 8);
		if (klen >= 8) memcpy(k1, key, 8);
		if (klen >= 16) memcpy(k2, key + 8, 8);
		if (klen >= 24) memcpy(k3, key + 16, 8);
		rc = muggle_tdes_set_key(op, mode, nk ? NULL : k1, n2 ? NULL : k2, n3 ? NULL : k3, nc ? NULL : tctx);
		free(k1); free(k2); free(k3);
	}
	have_ctx = (rc == 0);
	S->owner = cur_slot;
	printf("setkey %s", errname(rc));
	if (rc == 0 && alg == ALG_AES) { printf(" ks="); puthex((const unsigned char *)actx->sk.rd_key, (size_t)(actx->sk.rounds + 1) * 16); }
	if (rc == 0 && alg == ALG_DES) { printf(" ks="); puthex((const unsigned char *)&dctx->sk, sizeof(dctx->sk)); }
	if (rc == 0 && alg == ALG_TDES) {
		printf(" ks="); puthex((const unsigned char *)&tctx->ctx1.sk, sizeof(tctx->ctx1.sk));
		puthex((const unsigned char *)&tctx->ctx2.sk, sizeof(tctx->ctx2.sk));
		puthex((const unsigned char *)&tctx->ctx3.sk, sizeof(tctx->ctx3.sk));
	}
	if (rc != 0) {
		int touched = 0;
		if (alg == ALG_AES) touched = !all_fill(&actx->sk, sizeof(actx->sk));
		if (alg == ALG_DES) touched = !all_fill(&dctx->sk, sizeof(dctx->sk));
		if (alg == ALG_TDES) touched = !all_fill(&tctx->ctx1.sk, sizeof(tctx->ctx1.sk)) ||
			!all_fill(&tctx->ctx2.sk, sizeof(tctx->ctx2.sk)) || !all_fill(&tctx->ctx3.sk, sizeof(tctx->ctx3.sk));
		printf(touched ? " ks=TOUCHED" : " ks=untouched");
	}
	printf("\n");
	free(key); free(khex);
}

static void do_state(char *line)
{
	char *ivh = (char *)malloc(strlen(line) + 2), *sbh = (char *)malloc(strlen(line) + 2);
	unsigned int off = 0;
	if (sscanf(line, "%*s %s %u %s", ivh, &off, sbh) == 3) {
		size_t n;
		unsigned char *p = unhex(ivh, &n);
		memset(st_iv, 0, 16); memcpy(st_iv, p, n > 16 ? 16 : n); free(p);
		p = unhex(sbh, &n);
		memset(st_sb, 0, 16); memcpy(st_sb, p, n > 16 ? 16 : n); free(p);
		st_off = off;
	}
	free(ivh); free(sbh);
}

static void do_crypt(char *line)
{
	static char fn[16], nulls[16];
	int align = 0;
	char *dh = (char *)malloc(strlen(line) + 2);
	if (sscanf(line, "%*s %15s %d %15s %s", fn, &align, nulls, dh) != 4) { printf("badline\n"); free(dh); return; }
	if (!have_ctx) { printf("noctx\n"); free(dh); return; }
	if (align < 0 || align > 15) align = 0;
	size_t len;
	unsigned char *data;
	if (dh[0] == '@') {
		unsigned long s = 0, l = 0;
		if (sscanf(dh + 1, "%lu:%lu", &s, &l) != 2 || s + l > prev_len) { printf("badslice\n"); free(dh); return; }
		data = (unsigned char *)malloc(l ? l : 1);
		if (l) memcpy(data, prev_acc + s, l);
		len = l;
	} else if (dh[0] == '#') {
		unsigned long long seed = 0; unsigned long l = 0;
		if (sscanf(dh + 1, "%llu:%lu", &seed, &l) != 2 || l > (1ul << 26)) { printf("badslice\n"); free(dh); return; }
		data = (unsigned char *)malloc(l ? l : 1);
		prng_fill(data, l, (uint64_t)seed);
		len = l;
	} else {
		data = unhex(dh, &len);
	}
	free(dh);
	int nc = strchr(nulls, 'c') != NULL, ni = strchr(nulls, 'i') != NULL, no = strchr(nulls, 'o') != NULL,
	    nv = strchr(nulls, 'v') != NULL, nf = strchr(nulls, 'f') != NULL, ns = strchr(nulls, 's') != NULL;
	int is_ctr = strcmp(fn, "ctr") == 0;
	/* exact-size heap buffers, start deliberately misaligned by <align> */
	unsigned char *in_raw = (unsigned char *)malloc(len + align + 1 - (len + align > 0));
	unsigned char *out_raw = (unsigned char *)malloc(len + align + 1 - (len + align > 0));
	unsigned char *in = in_raw + align, *out = out_raw + align;
	memcpy(in, data, len);
	memset(out, FILL, len);
	int ivalign = is_ctr ? 0 : align;      /* the nonce is uint64_t[]: the caller owes its alignment */
	unsigned char *iv_raw = (unsigned char *)malloc(bs + ivalign), *sb_raw = (unsigned char *)malloc(bs + align);
	unsigned char *iv = iv_raw + ivalign, *sb = sb_raw + align;
	memcpy(iv, st_iv, bs); memcpy(sb, st_sb, bs);
	unsigned int *poff = (unsigned int *)malloc(sizeof(unsigned int));
	*poff = st_off;
	int rc = -1000;
	const unsigned char *a_in = ni ? NULL : in;
	unsigned char *a_out = no ? NULL : out, *a_iv = nv ? NULL : iv, *a_sb = ns ? NULL : sb;
	unsigned int *a_off = nf ? NULL : poff;
	unsigned int n = (unsigned int)len;
	if (alg == ALG_AES) {
		muggle_aes_context_t *c = nc ? NULL : actx;
		if (strcmp(fn, "ecb") == 0) rc = muggle_aes_ecb(c, a_in, n, a_out);
		else if (strcmp(fn, "cbc") == 0) rc = muggle_aes_cbc(c, a_in, n, a_iv, a_out);
		else if (strcmp(fn, "cfb") == 0) rc = muggle_aes_cfb128(c, a_in, n, a_iv, a_off, a_out);
		else if (strcmp(fn, "ofb") == 0) rc = muggle_aes_ofb128(c, a_in, n, a_iv, a_off, a_out);
		else if (is_ctr) rc = muggle_aes_ctr(c, a_in, n, (uint64_t *)a_iv, a_off, a_sb, a_out);
	} else if (alg == ALG_DES) {
		muggle_des_context_t *c = nc ? NULL : dctx;
		if (strcmp(fn, "ecb") == 0) rc = muggle_des_ecb(c, a_in, n, a_out);
		else if (strcmp(fn, "cbc") == 0) rc = muggle_des_cbc(c, a_in, n, a_iv, a_out);
		else if (strcmp(fn, "cfb") == 0) rc = muggle_des_cfb64(c, a_in, n, a_iv, a_off, a_out);
		else if (strcmp(fn, "ofb") == 0) rc = muggle_des_ofb64(c, a_in, n, a_iv, a_off, a_out);
		else if (is_ctr) rc = muggle_des_ctr(c, a_in, n, (uint64_t *)a_iv, a_off, a_sb, a_out);
	} else {
		muggle_tdes_context_t *c = nc ? NULL : tctx;
		if (strcmp(fn, "ecb") == 0) rc = muggle_tdes_ecb(c, a_in, n, a_out);
		else if (strcmp(fn, "cbc") == 0) rc = muggle_tdes_cbc(c, a_in, n, a_iv, a_out);
		else if (strcmp(fn, "cfb") == 0) rc = muggle_tdes_cfb64(c, a_in, n, a_iv, a_off, a_out);
		else if (strcmp(fn, "ofb") == 0) rc = muggle_tdes_ofb64(c, a_in, n, a_iv, a_off, a_out);
		else if (is_ctr) rc = muggle_tdes_ctr(c, a_in, n, (uint64_t *)a_iv, a_off, a_sb, a_out);
	}
	if (rc == -1000) { printf("badfn\n"); goto done; }
	printf("%s out=", errname(rc));
	if (rc == 0) {
		puthex(out, len);
		acc_append(out, len);
	} else {
		int touched = 0;
		for (size_t i = 0; i < len; i++) if (out[i] != FILL) touched = 1;
		if (touched) puthex(out, len); else printf("untouched");
	}
	memcpy(st_iv, iv, bs); memcpy(st_sb, sb, bs); st_off = *poff;
	printf(" iv="); puthex(st_iv, bs);
	printf(" off=%u sb=", st_off); puthex(st_sb, bs);
	if (memcmp(in, data, len) != 0) printf(" INPUT-MODIFIED");   /* the input buffer is const */
	printf("\n");
done:
	free(data);
	free(in_raw); free(out_raw); free(iv_raw); free(sb_raw); free(poff);
}

static void case_line(char *line)
{
	if (strncmp(line, "use ", 4) == 0) do_use(line);
	else if (strncmp(line, "share ", 6) == 0) do_share(line);
	else if (strncmp(line, "setkey ", 7) == 0) do_setkey(line);
	else if (strncmp(line, "state ", 6) == 0) do_state(line);
	else if (strncmp(line, "crypt ", 6) == 0) do_crypt(line);
}

int main(void) { return vdrv_main(); }
