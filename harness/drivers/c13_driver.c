/* C13 implementation driver: the real muggle event loop (select / poll / epoll back-ends,
 * chosen at run time through muggle_event_loop_init_args_t.evloop_type) driven single-threaded
 * by a script whose actions are executed from inside the loop's callbacks, on real pipes, unix
 * socket pairs and loopback TCP connections.
 *
 * Script (one case):
 *   cfg hints=<h> pool=<0|1> cls=<tag>
 *   ctx <id> <pipe|unix|tcp>            declare a context (fd pair created at the start of each run)
 *   do <action>                          action of the current phase (phase 0 runs before muggle_evloop_run)
 *   phase                                start the next phase (phase k>0 runs from the wake callback when the
 *                                        loop is idle for the k-th time; after the last phase: exit)
 *   on <ctx> <bytes> <action>            trigger: fired once, from <ctx>'s read callback, when <ctx> has been
 *                                        offered >= <bytes> bytes in total; order = (bytes, line order)
 *   action := write Y K | hclose Y | pclose Y | add Y | shut Y | wake | exit | reset Y
 *   cfg ... timer=1                       install a timer of interval 0 (muggle_evloop_set_timer_interval(0) and a
 *                                        timer callback): a tick after every pass; the kernel calls are then not
 *                                        turned into idle wake-ups (n = 0 returns reach the loop)
 *   tphase / tdo <action>                timer phases: the k-th tick runs the k-th one, the tick after the last exits
 *   reset Y: the peer of a socket context resets the connection (TCP: close with SO_LINGER 0; unix: close while a
 *   byte written by the context is unread): the context's read fails with ECONNRESET behind the pending data
 *
 * poll / select / epoll_wait / epoll_ctl are wrapped (-Wl,--wrap) to LOG what the loop handed to the
 * kernel and what the kernel reported ("K" lines).  The only thing the wrapper adds is idleness
 * detection: when the kernel has nothing to report the wrapper calls muggle_evloop_wakeup (public API)
 * and marks the next wake callback as the "idle" one, which runs the next phase.  Output is canonical:
 * context ids, event kinds, byte counts; no fds, no addresses. */
#define _GNU_SOURCE
#include "vdrv.h"
#include <unistd.h>
#include <fcntl.h>
#include <errno.h>
#include <signal.h>
#include <poll.h>
#include <sys/select.h>
#include <sys/epoll.h>
#include <sys/socket.h>
#include <sys/ioctl.h>
#include <netinet/in.h>
#include <netinet/tcp.h>
#include <arpa/inet.h>
#include <pthread.h>
#include <stdlib.h>
#include "muggle/c/event/event_loop.h"
#include "muggle/c/dsaa/linked_list.h"

int __real_poll(struct pollfd *fds, nfds_t nfds, int timeout);
int __real_select(int nfds, fd_set *r, fd_set *w, fd_set *e, struct timeval *tv);
int __real_epoll_wait(int epfd, struct epoll_event *events, int maxevents, int timeout);
int __real_epoll_ctl(int epfd, int op, int fd, struct epoll_event *event);

#define MAXC 40
#define MAXT 256
#define MAXFD 1024
enum { K_PIPE, K_UNIX, K_TCP };
enum { A_WRITE, A_HCLOSE, A_PCLOSE, A_ADD, A_SHUT, A_WAKE, A_EXIT, A_RESET, A_BAD };
typedef struct { int kind, y, k; } Act;
typedef struct { int ctx, bytes, fired, ord; Act a; } Trig;
typedef struct { Act a; int phase; } PAct;

typedef struct {
	muggle_event_context_t ctx; /* must stay first: callbacks cast back */
	int id, kind, declared;
	int fd, peer;
	int peer_open, eof, added, reg_ok, shut, closed_cb, clear_cb, read_after_close, rst;
	long offered, qexp;
} C;

static C cs[MAXC];
static Trig trigs[MAXT]; static int ntrig;
static PAct pacts[MAXT]; static int npact; static int nphase; /* phases 0..nphase-1 */
static PAct tacts[MAXT]; static int ntact; static int ntphase; /* timer phases 1..ntphase */
static int cfg_hints, cfg_pool, cfg_timer, g_tphase;
static int fd2id[MAXFD];
static muggle_event_loop_t *g_ev;
static int g_loop_active, g_idle, g_phase, g_be, g_stuck;
static int ep_reg[MAXC];

static const char *act_name[] = { "write", "hclose", "pclose", "add", "shut", "wake", "exit", "reset", "?" };

/* ------------------------------------------------------------------ parsing */
static int parse_action(char *s, Act *a)
{
	char w[32]; int y = 0, k = 0;
	a->kind = A_BAD; a->y = 0; a->k = 0;
	int n = sscanf(s, "%31s %d %d", w, &y, &k);
	if (n < 1) return 0;
	if (!strcmp(w, "wake")) { a->kind = A_WAKE; return 1; }
	if (!strcmp(w, "exit")) { a->kind = A_EXIT; return 1; }
	if (n < 2 || y < 1 || y >= MAXC) return 0;
	a->y = y;
	if (!strcmp(w, "write")) { if (n < 3 || k < 0 || k > 4096) return 0; a->kind = A_WRITE; a->k = k; return 1; }
	if (!strcmp(w, "hclose")) { a->kind = A_HCLOSE; return 1; }
	if (!strcmp(w, "pclose")) { a->kind = A_PCLOSE; return 1; }
	if (!strcmp(w, "add")) { a->kind = A_ADD; return 1; }
	if (!strcmp(w, "shut")) { a->kind = A_SHUT; return 1; }
	if (!strcmp(w, "reset")) { a->kind = A_RESET; return 1; }
	return 0;
}

/* edge scenarios (one-line cases "edge key=value ..."): NULL-callback matrix and refused registrations, no model */
static int is_edge, e_n, e_closed, e_data, e_ticks, e_file, e_dup, e_foreign, e_tick_seen;
static char e_nocb[16];
static int e_has(char c) { return strchr(e_nocb, c) == NULL; }     /* callback c is installed */
static int e_int(const char *line, const char *key, int dflt)
{
	const char *p = strstr(line, key);
	return p ? atoi(p + strlen(key)) : dflt;
}

static void case_begin(void)
{
	is_edge = 0;
	memset(cs, 0, sizeof cs);
	ntrig = npact = 0; nphase = 1; ntact = 0; ntphase = 0;
	cfg_hints = 8; cfg_pool = 0; cfg_timer = 0;
	alarm(8);
}

static void case_line(char *line)
{
	char w[32];
	if (sscanf(line, "%31s", w) != 1) return;
	if (!strcmp(w, "edge")) {
		is_edge = 1;
		e_n = e_int(line, " n=", 1); if (e_n < 1) e_n = 1; if (e_n > 8) e_n = 8;
		e_closed = e_int(line, "closed=", 0); e_data = e_int(line, "data=", 0);
		e_ticks = e_int(line, "ticks=", 4); if (e_ticks < 1) e_ticks = 1; if (e_ticks > 64) e_ticks = 64;
		e_file = e_int(line, "file=", 0) == 1; e_dup = e_int(line, "dup=", 0) == 1; e_foreign = e_int(line, "foreign=", 0) == 1;
		cfg_hints = e_int(line, "hints=", 16); cfg_pool = e_int(line, "pool=", 0) == 1;
		const char *p = strstr(line, "nocb=");
		e_nocb[0] = 0;
		if (p) { int k = 0; for (p += 5; *p && *p != ' ' && k < 15; p++) e_nocb[k++] = *p; e_nocb[k] = 0; }
		return;
	}
	if (is_edge) return;
	if (!strcmp(w, "cfg")) {
		char *p;
		if ((p = strstr(line, "hints="))) cfg_hints = atoi(p + 6);
		if ((p = strstr(line, "pool="))) cfg_pool = atoi(p + 5);
		if ((p = strstr(line, "timer="))) cfg_timer = atoi(p + 6) == 1;
	} else if (!strcmp(w, "ctx")) {
		int id; char k[32];
		if (sscanf(line, "%*s %d %31s", &id, k) == 2 && id >= 1 && id < MAXC) {
			cs[id].declared = 1; cs[id].id = id;
			cs[id].kind = !strcmp(k, "pipe") ? K_PIPE : !strcmp(k, "unix") ? K_UNIX : K_TCP;
		}
	} else if (!strcmp(w, "phase")) {
		nphase++;
	} else if (!strcmp(w, "tphase")) {
		ntphase++;
	} else if (!strcmp(w, "tdo")) {
		if (ntphase == 0) ntphase = 1;
		if (ntact < MAXT && parse_action(line + 3, &tacts[ntact].a)) { tacts[ntact].phase = ntphase; ntact++; }
	} else if (!strcmp(w, "do")) {
		if (npact < MAXT && parse_action(line + 2, &pacts[npact].a)) { pacts[npact].phase = nphase - 1; npact++; }
	} else if (!strcmp(w, "on")) {
		int c, b, off = 0;
		if (ntrig < MAXT && sscanf(line, "%*s %d %d %n", &c, &b, &off) >= 2 && off > 0 && c >= 1 && c < MAXC && b >= 0 &&
			parse_action(line + off, &trigs[ntrig].a)) {
			trigs[ntrig].ctx = c; trigs[ntrig].bytes = b; trigs[ntrig].ord = ntrig; ntrig++;
		}
	}
}

static int act_valid(Act *a) { return a->kind == A_WAKE || a->kind == A_EXIT || cs[a->y].declared; }
static int trig_cmp(const void *x, const void *y)
{
	const Trig *a = x, *b = y;
	if (a->bytes != b->bytes) return a->bytes < b->bytes ? -1 : 1;
	return a->ord - b->ord;
}

/* ------------------------------------------------------------------ fds */
static void die(const char *m) { printf("HARNESS-ERROR %s errno=%d\n", m, errno); printf("END\n"); fflush(stdout); _exit(3); }

static void mkpair(C *c)
{
	int p[2];
	if (c->kind == K_PIPE) { if (pipe(p)) die("pipe"); c->fd = p[0]; c->peer = p[1]; }
	else if (c->kind == K_UNIX) { if (socketpair(AF_UNIX, SOCK_STREAM, 0, p)) die("socketpair"); c->fd = p[0]; c->peer = p[1]; }
	else {
		int ls = socket(AF_INET, SOCK_STREAM, 0); if (ls < 0) die("socket");
		struct sockaddr_in sa; memset(&sa, 0, sizeof sa); sa.sin_family = AF_INET;
		sa.sin_addr.s_addr = htonl(INADDR_LOOPBACK); sa.sin_port = 0;
		socklen_t sl = sizeof sa;
		if (bind(ls, (struct sockaddr *)&sa, sizeof sa) || listen(ls, 1) || getsockname(ls, (struct sockaddr *)&sa, &sl)) die("listen");
		int cl = socket(AF_INET, SOCK_STREAM, 0); if (cl < 0) die("socket2");
		if (connect(cl, (struct sockaddr *)&sa, sizeof sa)) die("connect");
		int ac = accept(ls, NULL, NULL); if (ac < 0) die("accept");
		close(ls);
		int one = 1; setsockopt(cl, IPPROTO_TCP, TCP_NODELAY, &one, sizeof one);
		c->fd = ac; c->peer = cl;
	}
	if (c->fd >= MAXFD || c->peer >= MAXFD) die("fd too large");
	fd2id[c->fd] = c->id;
}

/* wait until what was sent over loopback TCP is visible at the receiving socket (harness-side
 * determinism only: the loop is not involved) */
static void settle_bytes(C *c)
{
	if (c->kind != K_TCP || c->fd < 0) return;
	for (int i = 0; i < 200000; i++) {
		int av = 0;
		if (ioctl(c->fd, FIONREAD, &av) == 0 && av >= c->qexp) return;
		sched_yield();
	}
	die("tcp bytes did not arrive");
}
static void settle_fin(C *c)
{
	if (c->kind != K_TCP || c->fd < 0 || c->shut) return;
	for (int i = 0; i < 200000; i++) {
		struct pollfd p; p.fd = c->fd; p.events = POLLRDHUP; p.revents = 0;
		if (__real_poll(&p, 1, 0) > 0 && (p.revents & (POLLRDHUP | POLLHUP | POLLERR))) return;
		sched_yield();
	}
	die("tcp fin did not arrive");
}

static void settle_rst(C *c)
{
	if (c->fd < 0) return;
	for (int i = 0; i < 200000; i++) {
		struct pollfd p; p.fd = c->fd; p.events = POLLIN; p.revents = 0;
		if (__real_poll(&p, 1, 0) > 0 && (p.revents & POLLERR)) return;
		sched_yield();
	}
	die("reset did not arrive");
}

/* ------------------------------------------------------------------ actions */
static void doact(Act *a)
{
	C *c = &cs[a->y];
	const char *res = "ok";
	switch (a->kind) {
	case A_WRITE:
		if (c->peer_open && !c->eof && !c->shut && !c->closed_cb) {
			char buf[4096]; memset(buf, 'a' + (a->y % 26), sizeof buf);
			ssize_t r = a->k > 0 ? write(c->peer, buf, (size_t)a->k) : 0;
			if (r != a->k) res = "short";
			if (r > 0) c->qexp += r;
			settle_bytes(c);
		} else res = "skip";
		printf("a write %d %d %s\n", a->y, a->k, res);
		return;
	case A_HCLOSE:
		if (c->peer_open && !c->eof) {
			if (c->kind == K_PIPE) { close(c->peer); c->peer_open = 0; }
			else shutdown(c->peer, SHUT_WR);
			c->eof = 1;
			settle_fin(c);
		} else res = "skip";
		break;
	case A_PCLOSE:
		if (c->peer_open) {
			int had_eof = c->eof;
			close(c->peer); c->peer_open = 0; c->eof = 1;
			if (!had_eof) settle_fin(c);
		} else res = "skip";
		break;
	case A_ADD:
		if (!c->added) {
			c->added = 1;
			int r = muggle_evloop_add_ctx(g_ev, &c->ctx);
			c->reg_ok = (r == 0);
			if (r != 0) res = "rej";
		} else res = "skip";
		break;
	case A_SHUT:
		if (!c->closed_cb) {
			muggle_ev_ctx_shutdown(&c->ctx);
			if (c->kind != K_PIPE) c->shut = 1;
		} else res = "skip";
		break;
	case A_RESET:
		/* sockets only, peer still open, context neither shut down nor closed (harness rule, as in the model) */
		if (c->peer_open && c->kind != K_PIPE && !c->shut && !c->closed_cb) {
			if (c->kind == K_TCP) {
				struct linger lg = { 1, 0 };
				setsockopt(c->peer, SOL_SOCKET, SO_LINGER, &lg, sizeof lg);
			} else {
				/* unix: a byte written BY THE CONTEXT stays unread in the peer's queue when the peer closes */
				char one = 'r';
				ssize_t r = write(c->fd, &one, 1); (void)r;
			}
			close(c->peer); c->peer_open = 0; c->eof = 1; c->rst = 1;
			settle_rst(c);
		} else res = "skip";
		break;
	case A_WAKE:
		muggle_evloop_wakeup(g_ev);
		printf("a wake ok\n");
		return;
	case A_EXIT:
		muggle_evloop_exit(g_ev);
		printf("a exit ok\n");
		return;
	default: return;
	}
	printf("a %s %d %s\n", act_name[a->kind], a->y, res);
}

static void run_phase(int ph)
{
	for (int i = 0; i < npact; i++) if (pacts[i].phase == ph && act_valid(&pacts[i].a)) doact(&pacts[i].a);
}

/* ------------------------------------------------------------------ callbacks */
static void on_read(muggle_event_loop_t *ev, muggle_event_context_t *ctx)
{
	C *x = (C *)ctx;
	if (x->closed_cb) { x->read_after_close++; printf("r %d afterclose\n", x->id); return; }
	char buf[1024]; long got = 0; int n;
	while ((n = muggle_ev_ctx_read(ctx, buf, sizeof buf)) > 0) got += n;
	x->offered += got; x->qexp = 0;
	printf("r %d %ld\n", x->id, got);
	for (int i = 0; i < ntrig; i++)
		if (trigs[i].ctx == x->id && !trigs[i].fired && x->offered >= trigs[i].bytes) {
			trigs[i].fired = 1;
			if (act_valid(&trigs[i].a)) doact(&trigs[i].a);
		}
}
static void on_close(muggle_event_loop_t *ev, muggle_event_context_t *ctx)
{
	C *x = (C *)ctx;
	printf("c %d\n", x->id);
	if (!x->closed_cb && x->fd >= 0) { fd2id[x->fd] = -1; muggle_ev_ctx_close(ctx); x->fd = -1; }
	x->closed_cb++;
}
static void on_clear(muggle_event_loop_t *ev, muggle_event_context_t *ctx) { C *x = (C *)ctx; x->clear_cb++; printf("x %d\n", x->id); }
static void on_exit_cb(muggle_event_loop_t *ev) { printf("e\n"); }
static void on_timer(muggle_event_loop_t *ev)
{
	printf("t\n");
	g_tphase++;
	if (g_tphase <= ntphase) {
		for (int i = 0; i < ntact; i++) if (tacts[i].phase == g_tphase && act_valid(&tacts[i].a)) doact(&tacts[i].a);
	} else { Act a = { A_EXIT, 0, 0 }; doact(&a); }
}
static void on_wake(muggle_event_loop_t *ev)
{
	printf("w\n");
	if (g_idle) {
		g_idle = 0;
		g_phase++;
		if (g_phase < nphase) run_phase(g_phase);
		else { Act a = { A_EXIT, 0, 0 }; doact(&a); }
	}
}

/* ------------------------------------------------------------------ kernel log */
static int evflags_poll(int re)
{
	int f = 0;
	if (re & POLLIN) f |= 1;
	if (re & POLLHUP) f |= 2;
	if (re & POLLERR) f |= 4;
	if (re & POLLNVAL) f |= 8;
	if (re & ~(POLLIN | POLLHUP | POLLERR | POLLNVAL)) f |= 16;
	return f;
}
static int idof(int fd) { return (fd >= 0 && fd < MAXFD) ? fd2id[fd] : -1; }
static void stuck(void) { g_stuck = 1; printf("K stuck\n"); muggle_evloop_exit(g_ev); }
/* a loop that keeps calling the kernel without ever exiting (e.g. a readable fd nobody reads) */
static int g_kcalls;
static void kcall(void)
{
	if (++g_kcalls > 3000) { printf("K runaway\n"); printf("END\n"); fflush(stdout); _exit(77); /* 77: the batch runner restarts with the next case */ }
}

int __wrap_poll(struct pollfd *fds, nfds_t nfds, int timeout)
{
	if (!g_loop_active) return __real_poll(fds, nfds, timeout);
	kcall();
	int idle = 0;
	int r = __real_poll(fds, nfds, 0);
	if (r == 0 && !cfg_timer) { idle = 1; g_idle = 1; muggle_evloop_wakeup(g_ev); r = __real_poll(fds, nfds, 2000); }
	printf("K idle=%d in=", idle);
	for (nfds_t i = 0; i < nfds; i++) printf("%s%d", i ? "," : "", idof(fds[i].fd));
	printf(" out=");
	int first = 1;
	if (r > 0) for (nfds_t i = 0; i < nfds; i++) if (fds[i].revents) { printf("%s%d:%d", first ? "" : ",", idof(fds[i].fd), evflags_poll(fds[i].revents)); first = 0; }
	printf(" n=%d\n", r);
	printf("Q idle=%d out=", idle);
	first = 1;
	if (r > 0) for (nfds_t i = 0; i < nfds; i++) if (fds[i].revents) { printf("%s%d:%d", first ? "" : ",", idof(fds[i].fd), evflags_poll(fds[i].revents)); first = 0; }
	printf(" n=%d\n", r);
	if (r == 0 && !cfg_timer) stuck();
	return r;
}

static void print_set(int nfds, fd_set *s, int flag)
{
	int first = 1;
	for (int id = 0; id < MAXC; id++)
		for (int fd = 0; fd < nfds && fd < MAXFD; fd++)
			if (fd2id[fd] == id && FD_ISSET(fd, s)) { if (flag) printf("%s%d:1", first ? "" : ",", id); else printf("%s%d", first ? "" : ",", id); first = 0; }
	for (int fd = 0; fd < nfds && fd < MAXFD; fd++) if (FD_ISSET(fd, s) && fd2id[fd] < 0) { printf("%s-1%s", first ? "" : ",", flag ? ":1" : ""); first = 0; }
}
int __wrap_select(int nfds, fd_set *rs, fd_set *ws, fd_set *es, struct timeval *tv)
{
	if (!g_loop_active) return __real_select(nfds, rs, ws, es, tv);
	kcall();
	fd_set in = *rs;
	struct timeval z = { 0, 0 };
	int idle = 0;
	int r = __real_select(nfds, rs, ws, es, &z);
	if (r == 0 && !cfg_timer) {
		idle = 1; g_idle = 1; muggle_evloop_wakeup(g_ev);
		*rs = in; z.tv_sec = 2; z.tv_usec = 0;
		r = __real_select(nfds, rs, ws, es, &z);
	}
	printf("K idle=%d in=", idle); print_set(nfds, &in, 0);
	printf(" out="); if (r > 0) print_set(nfds, rs, 1);
	printf(" n=%d\n", r);
	printf("Q idle=%d out=", idle); if (r > 0) print_set(nfds, rs, 1);
	printf(" n=%d\n", r);
	if (r == 0 && !cfg_timer) stuck();
	return r;
}

int __wrap_epoll_ctl(int epfd, int op, int fd, struct epoll_event *event)
{
	int r = __real_epoll_ctl(epfd, op, fd, event);
	if (g_loop_active || g_ev) {
		int id = idof(fd);
		if (r == 0 && id >= 0 && id < MAXC) { if (op == EPOLL_CTL_ADD) ep_reg[id] = 1; else if (op == EPOLL_CTL_DEL) ep_reg[id] = 0; }
	}
	return r;
}
int __wrap_epoll_wait(int epfd, struct epoll_event *events, int maxevents, int timeout)
{
	if (!g_loop_active) return __real_epoll_wait(epfd, events, maxevents, timeout);
	kcall();
	int idle = 0;
	int r = __real_epoll_wait(epfd, events, maxevents, 0);
	if (r == 0 && !cfg_timer) { idle = 1; g_idle = 1; muggle_evloop_wakeup(g_ev); r = __real_epoll_wait(epfd, events, maxevents, 2000); }
	printf("K idle=%d in=", idle);
	int first = 1;
	for (int id = 0; id < MAXC; id++) if (ep_reg[id]) { printf("%s%d", first ? "" : ",", id); first = 0; }
	for (int pass = 0; pass < 2; pass++) {
		if (pass) printf("Q idle=%d", idle);
		printf(" out=");
		for (int i = 0; i < r; i++) {
			muggle_linked_list_node_t *node = (muggle_linked_list_node_t *)events[i].data.ptr;
			muggle_event_context_t *c = (muggle_event_context_t *)node->data;
			int f = 0, e = events[i].events;
			if (e & EPOLLIN) f |= 1;
			if (e & EPOLLHUP) f |= 2;
			if (e & EPOLLERR) f |= 4;
			if (e & ~(EPOLLIN | EPOLLHUP | EPOLLERR)) f |= 16;
			printf("%s%d:%d", i ? "," : "", idof(c->fd), f);
		}
		printf(" n=%d\n", r);
	}
	if (r == 0 && !cfg_timer) stuck();
	return r;
}

/* ------------------------------------------------------------------ one run */
static const char *be_name[] = { "?", "select", "poll", "epoll" };

static void run_one(int be)
{
	printf("B %s\n", be_name[be]);
	for (int i = 0; i < MAXFD; i++) fd2id[i] = -1;
	memset(ep_reg, 0, sizeof ep_reg);
	for (int i = 0; i < ntrig; i++) trigs[i].fired = 0;
	for (int i = 1; i < MAXC; i++) if (cs[i].declared) {
		C *c = &cs[i];
		int id = c->id, kind = c->kind;
		memset(c, 0, sizeof *c);
		c->declared = 1; c->id = id; c->kind = kind; c->peer_open = 1;
		mkpair(c);
		muggle_ev_ctx_init(&c->ctx, c->fd, c);
	}
	muggle_event_loop_init_args_t args; memset(&args, 0, sizeof args);
	args.evloop_type = be; args.hints_max_fd = cfg_hints; args.use_mem_pool = cfg_pool;
	g_ev = muggle_evloop_new(&args);
	if (!g_ev) { printf("new fail\n"); goto cleanup; }
	fd2id[muggle_ev_signal_rfd(g_ev->ev_signal)] = 0;
	muggle_evloop_set_cb_read(g_ev, on_read);
	muggle_evloop_set_cb_close(g_ev, on_close);
	muggle_evloop_set_cb_wake(g_ev, on_wake);
	muggle_evloop_set_cb_clear(g_ev, on_clear);
	muggle_evloop_set_cb_exit(g_ev, on_exit_cb);
	if (cfg_timer) { muggle_evloop_set_timer_interval(g_ev, 0); muggle_evloop_set_cb_timer(g_ev, on_timer); }
	g_idle = 0; g_phase = 0; g_be = be; g_stuck = 0; g_kcalls = 0; g_tphase = 0;
	run_phase(0);
	g_loop_active = 1;
	muggle_evloop_run(g_ev);
	g_loop_active = 0;
	for (int i = 1; i < MAXC; i++) if (cs[i].declared) {
		C *c = &cs[i];
		const char *end = c->closed_cb ? "closed" : c->clear_cb ? "cleared" : !c->added ? "unreg" : !c->reg_ok ? "rej" : "lost";
		printf("F %d off=%ld end=%s cc=%d xc=%d\n", c->id, c->offered, end, c->closed_cb, c->clear_cb);
	}
	muggle_evloop_delete(g_ev);
cleanup:
	g_ev = NULL;
	for (int i = 1; i < MAXC; i++) if (cs[i].declared) {
		if (cs[i].fd >= 0) close(cs[i].fd);
		if (cs[i].peer_open) close(cs[i].peer);
		cs[i].fd = -1; cs[i].peer_open = 0;
	}
}

/* ------------------------------------------------------------------ edge scenarios
 * n unix-socket contexts 1..n (peer closed for the ids in `closed`, 5 bytes pending for the ids in `data`), all
 * registered before run; optionally a regular (empty) file as context n+1 (epoll refuses it: EPERM), a second context
 * n+2 on the descriptor of context 1 (epoll only: EEXIST), a registration attempted from a foreign thread (n+3).
 * Every subset of the callbacks {r,c,w,x,e,t} may be left NULL (nocb=).  A timer of interval 0 is set; with a timer
 * callback it requests exit at tick `ticks`, without one the exit is requested before run (one pass).  After run the
 * loop's ctx_list is printed ("L id"): what the loop still holds, independent of any callback. */
static void e_read(muggle_event_loop_t *ev, muggle_event_context_t *ctx)
{
	C *x = (C *)ctx; char buf[256]; long got = 0; int n;
	while ((n = muggle_ev_ctx_read(ctx, buf, sizeof buf)) > 0) got += n;
	x->offered += got;
	printf("r %d %ld\n", x->id, got);
}
static void e_close(muggle_event_loop_t *ev, muggle_event_context_t *ctx) { C *x = (C *)ctx; x->closed_cb++; printf("c %d\n", x->id); }
static void e_clear(muggle_event_loop_t *ev, muggle_event_context_t *ctx) { C *x = (C *)ctx; x->clear_cb++; printf("x %d\n", x->id); }
static void e_exit(muggle_event_loop_t *ev) { printf("e\n"); }
static void e_wake(muggle_event_loop_t *ev) { printf("w\n"); }
static void e_timer(muggle_event_loop_t *ev)
{
	printf("t\n");
	if (++e_tick_seen == e_ticks) { muggle_evloop_exit(ev); printf("a exit ok\n"); }
}
static int e_foreign_rc;
static void *e_foreign_thread(void *arg) { e_foreign_rc = muggle_evloop_add_ctx(g_ev, (muggle_event_context_t *)arg); return NULL; }

static void run_edge(int be)
{
	printf("B %s\n", be_name[be]);
	for (int i = 0; i < MAXFD; i++) fd2id[i] = -1;
	memset(ep_reg, 0, sizeof ep_reg);
	memset(cs, 0, sizeof cs);
	int nall = e_n + 3;
	for (int i = 1; i <= nall; i++) { cs[i].id = i; cs[i].fd = -1; cs[i].kind = K_UNIX; }
	for (int i = 1; i <= e_n; i++) { cs[i].declared = 1; cs[i].peer_open = 1; mkpair(&cs[i]); muggle_ev_ctx_init(&cs[i].ctx, cs[i].fd, &cs[i]); }
	muggle_event_loop_init_args_t args; memset(&args, 0, sizeof args);
	args.evloop_type = be; args.hints_max_fd = cfg_hints; args.use_mem_pool = cfg_pool;
	g_ev = muggle_evloop_new(&args);
	if (!g_ev) { printf("new fail\n"); goto cleanup; }
	fd2id[muggle_ev_signal_rfd(g_ev->ev_signal)] = 0;
	if (e_has('r')) muggle_evloop_set_cb_read(g_ev, e_read);
	if (e_has('c')) muggle_evloop_set_cb_close(g_ev, e_close);
	if (e_has('w')) muggle_evloop_set_cb_wake(g_ev, e_wake);
	if (e_has('x')) muggle_evloop_set_cb_clear(g_ev, e_clear);
	if (e_has('e')) muggle_evloop_set_cb_exit(g_ev, e_exit);
	if (e_has('t')) muggle_evloop_set_cb_timer(g_ev, e_timer);
	muggle_evloop_set_timer_interval(g_ev, 0);
	cfg_timer = 1; g_be = be; g_kcalls = 0; g_stuck = 0; g_idle = 0; e_tick_seen = 0;
	for (int i = 1; i <= e_n; i++) {
		int rc = muggle_evloop_add_ctx(g_ev, &cs[i].ctx);
		cs[i].added = 1; cs[i].reg_ok = rc == 0;
		printf("A %d rc=%d\n", i, rc);
	}
	for (int i = 1; i <= e_n; i++) {
		if (e_data & (1 << (i - 1))) { ssize_t r = write(cs[i].peer, "12345", 5); (void)r; }
		if (e_closed & (1 << (i - 1))) { close(cs[i].peer); cs[i].peer_open = 0; }
	}
	if (e_file) {
		C *c = &cs[e_n + 1];
		char path[] = "/tmp/c13edgeXXXXXX";
		c->fd = mkstemp(path); if (c->fd < 0 || c->fd >= MAXFD) die("mkstemp");
		unlink(path);
		c->declared = 1; fd2id[c->fd] = c->id;
		muggle_ev_ctx_init(&c->ctx, c->fd, c);
		int rc = muggle_evloop_add_ctx(g_ev, &c->ctx);
		c->added = 1; c->reg_ok = rc == 0;
		printf("A %d rc=%d file\n", c->id, rc);
	}
	if (e_dup && be == 3) {
		C *c = &cs[e_n + 2];
		c->declared = 1;
		muggle_ev_ctx_init(&c->ctx, cs[1].fd, c);
		int rc = muggle_evloop_add_ctx(g_ev, &c->ctx);
		c->added = 1; c->reg_ok = rc == 0;
		printf("A %d rc=%d dup\n", c->id, rc);
	}
	if (e_foreign) {
		C *c = &cs[e_n + 3];
		c->declared = 1; c->peer_open = 1; mkpair(c); muggle_ev_ctx_init(&c->ctx, c->fd, c);
		pthread_t th; e_foreign_rc = 99;
		if (pthread_create(&th, NULL, e_foreign_thread, &c->ctx)) die("pthread_create");
		pthread_join(th, NULL);
		c->added = 1; c->reg_ok = e_foreign_rc == 0;
		printf("A %d rc=%d foreign\n", c->id, e_foreign_rc);
	}
	if (!e_has('t')) { muggle_evloop_exit(g_ev); printf("a exit ok\n"); }
	g_loop_active = 1;
	muggle_evloop_run(g_ev);
	g_loop_active = 0;
	for (muggle_linked_list_node_t *nd = muggle_linked_list_first(g_ev->ctx_list); nd; nd = muggle_linked_list_next(g_ev->ctx_list, nd))
		printf("L %d\n", ((C *)nd->data)->id);
	for (int i = 1; i <= nall; i++) if (cs[i].declared)
		printf("F %d off=%ld cc=%d xc=%d\n", cs[i].id, cs[i].offered, cs[i].closed_cb, cs[i].clear_cb);
	muggle_evloop_delete(g_ev);
cleanup:
	g_ev = NULL; cfg_timer = 0;
	for (int i = 1; i <= nall; i++) {
		if (i != e_n + 2 && cs[i].fd >= 0) close(cs[i].fd);
		if (cs[i].peer_open) close(cs[i].peer);
		cs[i].fd = -1; cs[i].peer_open = 0;
	}
}

static void case_end(void)
{
	if (is_edge) {
		printf("EDGE\n");
		for (int be = 1; be <= 3; be++) run_edge(be);
		alarm(0);
		return;
	}
	qsort(trigs, (size_t)ntrig, sizeof(Trig), trig_cmp);
	for (int be = 1; be <= 3; be++) run_one(be);
	alarm(0);
}

static void on_alarm(int s) { (void)s; static const char m[] = "\nALARM\n"; ssize_t r = write(1, m, sizeof m - 1); (void)r; _exit(4); }

int main(void)
{
	signal(SIGPIPE, SIG_IGN);
	signal(SIGALRM, on_alarm);
	return vdrv_main();
}
