/* C17 parameters re-extracted from the headers on every run: the size of the
 * format buffer of the log handlers (char buf[MUGGLE_LOG_MSG_MAX_LEN]). */
#include <stdio.h>
#include "muggle/c/log/log_msg.h"
int main(void)
{
	char buf[MUGGLE_LOG_MSG_MAX_LEN];
	printf("limit %ld\n", (long)sizeof(buf));
	return 0;
}
