/* C17 parameters re-extracted from the headers on every run: the size of the
 * format buffer of the log handlers (char buf[MUGGLE_LOG_MSG_MAX_LEN]), the
 * rotate unit codes and the two error codes the handler functions return. */
#include <stdio.h>
#include "muggle/c/log/log_msg.h"
#include "muggle/c/log/log_file_time_rot_handler.h"
#include "muggle/c/base/err.h"
#include "muggle/c/base/macro.h"
int main(void)
{
	char buf[MUGGLE_LOG_MSG_MAX_LEN];
	printf("limit %ld\n", (long)sizeof(buf));
	printf("unit_sec %d\n", (int)MUGGLE_LOG_TIME_ROTATE_UNIT_SEC);
	printf("unit_min %d\n", (int)MUGGLE_LOG_TIME_ROTATE_UNIT_MIN);
	printf("unit_hour %d\n", (int)MUGGLE_LOG_TIME_ROTATE_UNIT_HOUR);
	printf("unit_day %d\n", (int)MUGGLE_LOG_TIME_ROTATE_UNIT_DAY);
	printf("max_path %d\n", (int)MUGGLE_MAX_PATH);
	printf("ok %d\n", (int)MUGGLE_OK);
	printf("err_sys_call %d\n", (int)MUGGLE_ERR_SYS_CALL);
	return 0;
}
