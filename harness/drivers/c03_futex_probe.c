/* C03 source obligation for muggle/c/sync/sync_obj_futex.c (which harness/vsched replaces in every
 * scheduled run): lib/props/c03.py gen_params compiles the UNMODIFIED repository file with the token
 * `syscall` renamed to c03_probe_syscall (-Dsyscall=c03_probe_syscall, that translation unit only) and
 * links it with this probe.  Each of muggle_sync_wait / wake_one / wake_all is called with sample
 * arguments; the stub records what would have been handed to the kernel.  Output: one line per
 * sample + the platform constants as the compiler sees them; gen_params turns it into
 * coq/gen/Params_C03.v (code_futex), compared with the futex semantics in coq/C03/Futex.v. */
#include <stdarg.h>
#include <stdint.h>
#include <stdio.h>
#include <limits.h>
#include <time.h>
#include <linux/futex.h>
#include <sys/syscall.h>
#include "muggle/c/sync/sync_obj.h"

static long rec[7];
static int ncalls;

long c03_probe_syscall(long nr, ...)
{
	va_list ap;
	va_start(ap, nr);
	rec[0] = nr;
	for (int i = 1; i < 7; i++) rec[i] = va_arg(ap, long);
	va_end(ap);
	ncalls++;
	return 0;
}

static void report(const char *fn, unsigned long in_val, const void *addr, const void *tmo)
{
	const char *t = (void *)rec[4] == NULL ? "null" : ((const void *)rec[4] == tmo ? "passed" : "other");
	/* exactly one kernel call per library call; anything else is reported as call count and fails */
	printf("%s calls=%d in_val=%lu in_tmo_null=%d nr=%ld addr_ok=%d op=%ld val=%lu tmo=%s uaddr2_null=%d val3=%lu\n",
		fn, ncalls, in_val, tmo == NULL, rec[0], (const void *)rec[1] == addr,
		(long)(int)(rec[2] & 0xffffffffL), (unsigned long)(uint32_t)rec[3], t,
		(void *)rec[5] == NULL, (unsigned long)(uint32_t)rec[6]);
}

int main(void)
{
	static muggle_sync_t w1 = 5, w2 = 9;
	struct timespec ts = { 1, 0 };
	unsigned long vals[3] = { 7UL, 0xfffffff0UL, 0UL };
	for (int i = 0; i < 3; i++) {
		const struct timespec *tmo = (i == 0) ? &ts : NULL;
		ncalls = 0; for (int k = 0; k < 7; k++) rec[k] = -77;
		muggle_sync_wait(i == 1 ? &w2 : &w1, (muggle_sync_t)vals[i], tmo);
		report("wait", vals[i], i == 1 ? &w2 : &w1, tmo);
	}
	for (int i = 0; i < 2; i++) {
		ncalls = 0; for (int k = 0; k < 7; k++) rec[k] = -77;
		muggle_sync_wake_one(i ? &w2 : &w1);
		report("wake_one", 0, i ? &w2 : &w1, NULL);
	}
	for (int i = 0; i < 2; i++) {
		ncalls = 0; for (int k = 0; k < 7; k++) rec[k] = -77;
		muggle_sync_wake_all(i ? &w2 : &w1);
		report("wake_all", 0, i ? &w2 : &w1, NULL);
	}
	printf("hdr SYS_futex=%ld FUTEX_WAIT=%d FUTEX_WAKE=%d FUTEX_PRIVATE_FLAG=%d INT_MAX=%d\n",
		(long)SYS_futex, FUTEX_WAIT, FUTEX_WAKE, FUTEX_PRIVATE_FLAG, INT_MAX);
	return 0;
}
