/* C11 implementation driver: array list, stack, linked list, queue, pointer slot.
 *
 * case header : al <cap> [F] | st <cap> [F] | ll <cap> [F] | qu <cap> [F] | ps <req> <preset|-> [F]
 * every op line gives exactly one output line:  r=<result> | <dump of the whole container> | freed=[...]
 * A trailing token F makes every malloc called by that operation fail; a malloc of more than
 * MALLOC_LIMIT bytes always fails (so that huge but valid capacities are refused cleanly).
 * Data pointers are small integers (0 = NULL); node pointers are numbered in
 * creation order; nothing address-dependent is printed.
 * Every operation that takes a free-data callback (rem, clear, pop, deq, destroy) passes the recording
 * callback, or NULL when the line ends in the token B (borrowed data: the documented use).
 * `destroy [B]` destroys the container explicitly (last line of a case); without it the container is
 * destroyed with the callback at the end of the case (line `end freed=[..]`). */
#include "vdrv.h"
#include "muggle/c/dsaa/array_list.h"
#include "muggle/c/dsaa/stack.h"
#include "muggle/c/dsaa/linked_list.h"
#include "muggle/c/dsaa/queue.h"
#include "muggle/c/memory/pointer_slot.h"
#include "muggle/c/base/err.h"

/* ---- malloc failure switch (-Wl,--wrap=malloc) ---- */
#define MALLOC_LIMIT ((size_t)16 << 20)
static int g_fail_malloc;
void *__real_malloc(size_t n);
void *__wrap_malloc(size_t n)
{
	if (g_fail_malloc || n > MALLOC_LIMIT) return NULL;
	return __real_malloc(n);
}

/* ---- free callback log ---- */
#define MAXFREED 8192
static uintptr_t g_freed[MAXFREED];
static int g_nfreed;
static int g_badpool;
static int g_cookie;
static void on_free(void *pool, void *data)
{
	if (pool != (void *)&g_cookie) g_badpool = 1;
	if (g_nfreed < MAXFREED) g_freed[g_nfreed++] = (uintptr_t)data;
}
static void print_freed(void)
{
	printf("freed=[");
	for (int i = 0; i < g_nfreed; i++) printf("%s%lu", i ? "," : "", (unsigned long)g_freed[i]);
	printf("]%s", g_badpool ? " BADPOOL" : "");
	g_nfreed = 0;
}
static int cmp_key(const void *a, const void *b)
{
	uintptr_t x = (uintptr_t)a % 8, y = (uintptr_t)b % 8;
	return x < y ? -1 : (x > y ? 1 : 0);
}
#define D(x) ((void *)(uintptr_t)(x))
/* the callback of this line: NULL when the line ends in B */
static int g_borrow;
#define CB (g_borrow ? (muggle_dsaa_data_free)NULL : on_free)

static int kind; /* 0 none 1 al 2 st 3 ll 4 qu 5 ps */
static muggle_array_list_t al;
static muggle_stack_t st;
static muggle_linked_list_t ll;
static muggle_queue_t qu;
static muggle_pointer_slot_t ps;

/* ---- node numbering ---- */
#define MAXNODES 65536
static void *g_nptr[MAXNODES];
static long g_nid[MAXNODES];
static int g_nn;
static long g_next_id;
static long node_new(void *p)
{
	if (g_nn < MAXNODES) { g_nptr[g_nn] = p; g_nid[g_nn] = g_next_id; g_nn++; }
	return g_next_id++;
}
static long node_id(void *p)
{
	for (int i = g_nn - 1; i >= 0; i--) if (g_nptr[i] == p) return g_nid[i];
	return -1;
}
static void node_del(void *p)
{
	for (int i = 0; i < g_nn; i++) if (g_nptr[i] == p) {
		memmove(&g_nptr[i], &g_nptr[i + 1], sizeof(void *) * (g_nn - i - 1));
		memmove(&g_nid[i], &g_nid[i + 1], sizeof(long) * (g_nn - i - 1));
		g_nn--;
		return;
	}
}
static void print_id(void *p)
{
	if (!p) { printf("X"); return; }
	long id = node_id(p);
	if (id < 0) printf("?"); else printf("%ld", id);
}

/* ---------------------------------------------------------------- array list */
static void al_dump(void)
{
	long n = (long)muggle_array_list_size(&al);
	printf("sz=%ld cap=%lu empty=%d c=[", n, (unsigned long)al.capacity, muggle_array_list_is_empty(&al) ? 1 : 0);
	for (long i = 0; i < (long)al.size; i++) printf("%s%lu", i ? "," : "", (unsigned long)(uintptr_t)al.nodes[i].data);
	printf("] ix=[");
	for (long i = -n - 2; i <= n + 1; i++) {
		muggle_array_list_node_t *p = muggle_array_list_index(&al, (int)i);
		if (i != -n - 2) printf(",");
		if (!p) printf("X");
		else {
			long off = (long)(p - al.nodes);
			long want = i >= 0 ? i : n + i;
			if (off != want) printf("@%ld:", off);
			printf("%lu", (unsigned long)(uintptr_t)p->data);
		}
	}
	printf("]");
}

static void al_line(char *op, long long a, long long b, int fail)
{
	if (strcmp(op, "ins") == 0 || strcmp(op, "app") == 0) {
		g_fail_malloc = fail;
		muggle_array_list_node_t *p = op[0] == 'i' ? muggle_array_list_insert(&al, (int)a, D(b))
		                                             : muggle_array_list_append(&al, (int)a, D(b));
		g_fail_malloc = 0;
		if (p) printf("r=%ld", (long)(p - al.nodes)); else printf("r=X");
	} else if (strcmp(op, "rem") == 0) {
		bool r = muggle_array_list_remove(&al, (int)a, CB, &g_cookie);
		printf("r=%d", r ? 1 : 0);
	} else if (strcmp(op, "find") == 0) {
		int r = muggle_array_list_find(&al, (int)a, D(b), cmp_key);
		printf("r=%d", r);
	} else if (strcmp(op, "clear") == 0) {
		muggle_array_list_clear(&al, CB, &g_cookie);
		printf("r=-");
	} else if (strcmp(op, "ens") == 0) {
		g_fail_malloc = fail;
		bool r = muggle_array_list_ensure_capacity(&al, (size_t)a);
		g_fail_malloc = 0;
		printf("r=%d", r ? 1 : 0);
	} else {
		printf("r=?");
	}
	printf(" | ");
	al_dump();
}

/* ---------------------------------------------------------------- stack */
static void st_dump(void)
{
	printf("sz=%lu cap=%lu empty=%d c=[", (unsigned long)muggle_stack_size(&st), (unsigned long)st.capacity,
	       muggle_stack_is_empty(&st) ? 1 : 0);
	for (uint64_t i = 0; i < st.top; i++) printf("%s%lu", i ? "," : "", (unsigned long)(uintptr_t)st.nodes[i].data);
	printf("] top=");
	muggle_stack_node_t *t = muggle_stack_top(&st);
	if (!t) printf("X");
	else {
		if (t != &st.nodes[st.top - 1]) printf("@%ld:", (long)(t - st.nodes));
		printf("%lu", (unsigned long)(uintptr_t)t->data);
	}
}

static void st_line(char *op, long long a, int fail)
{
	if (strcmp(op, "push") == 0) {
		g_fail_malloc = fail;
		muggle_stack_node_t *p = muggle_stack_push(&st, D(a));
		g_fail_malloc = 0;
		if (p) printf("r=%ld", (long)(p - st.nodes)); else printf("r=X");
	} else if (strcmp(op, "pop") == 0) {
		muggle_stack_pop(&st, CB, &g_cookie);
		printf("r=-");
	} else if (strcmp(op, "clear") == 0) {
		muggle_stack_clear(&st, CB, &g_cookie);
		printf("r=-");
	} else if (strcmp(op, "ens") == 0) {
		g_fail_malloc = fail;
		bool r = muggle_stack_ensure_capacity(&st, (size_t)a);
		g_fail_malloc = 0;
		printf("r=%d", r ? 1 : 0);
	} else {
		printf("r=?");
	}
	printf(" | ");
	st_dump();
}

/* ---------------------------------------------------------------- linked list */
static muggle_linked_list_node_t *ll_at(long k)
{
	if (k < 0) return NULL;
	muggle_linked_list_node_t *n = muggle_linked_list_first(&ll);
	while (n && k > 0) { n = muggle_linked_list_next(&ll, n); k--; }
	return n;
}

static void ll_dump(void)
{
	long n = (long)muggle_linked_list_size(&ll);
	printf("sz=%ld empty=%d fw=[", n, muggle_linked_list_is_empty(&ll) ? 1 : 0);
	/* forward walk through the public iteration API, bounded */
	static void *fw[MAXNODES];
	long cnt = 0;
	int bad = 0;
	for (muggle_linked_list_node_t *p = muggle_linked_list_first(&ll); p; p = muggle_linked_list_next(&ll, p)) {
		if (cnt > n + 2 || cnt >= MAXNODES) { bad = 1; break; }
		if (cnt) printf(",");
		print_id(p);
		printf(":%lu", (unsigned long)(uintptr_t)p->data);
		/* raw link consistency */
		if (p->next->prev != p || p->prev->next != p) bad = 1;
		fw[cnt++] = p;
	}
	printf("]");
	/* backward walk must give the reverse */
	long k = cnt;
	for (muggle_linked_list_node_t *p = muggle_linked_list_last(&ll); p; p = muggle_linked_list_prev(&ll, p)) {
		if (k <= 0) { bad = 1; break; }
		k--;
		if (fw[k] != (void *)p) { bad = 1; break; }
	}
	if (k != 0) bad = 1;
	if (ll.head.next->prev != &ll.head || ll.tail.prev->next != &ll.tail) bad = 1;
	printf(" bw=%s first=", bad ? "BAD" : "ok");
	print_id(muggle_linked_list_first(&ll));
	printf(" last=");
	print_id(muggle_linked_list_last(&ll));
}

static void ll_line(char *op, int isnull, long long a, long long b, int fail)
{
	long n = (long)muggle_linked_list_size(&ll);
	muggle_linked_list_node_t *at = NULL;
	if (strcmp(op, "clear") != 0 && !isnull) {
		if (a < 0 || a >= n) { printf("badpos | "); ll_dump(); return; }
		at = ll_at((long)a);
	}
	if (strcmp(op, "ins") == 0 || strcmp(op, "app") == 0) {
		g_fail_malloc = fail;
		muggle_linked_list_node_t *p = op[0] == 'i' ? muggle_linked_list_insert(&ll, at, D(b))
		                                             : muggle_linked_list_append(&ll, at, D(b));
		g_fail_malloc = 0;
		if (p) printf("r=%ld", node_new(p)); else printf("r=X");
	} else if (strcmp(op, "rem") == 0) {
		if (isnull) { printf("badpos | "); ll_dump(); return; }
		node_del(at);
		muggle_linked_list_node_t *p = muggle_linked_list_remove(&ll, at, CB, &g_cookie);
		printf("r=");
		print_id(p);
	} else if (strcmp(op, "find") == 0) {
		muggle_linked_list_node_t *p = muggle_linked_list_find(&ll, at, D(b), cmp_key);
		printf("r=");
		print_id(p);
	} else if (strcmp(op, "clear") == 0) {
		muggle_linked_list_clear(&ll, CB, &g_cookie);
		g_nn = 0;
		printf("r=-");
	} else {
		printf("r=?");
	}
	printf(" | ");
	ll_dump();
}

/* ---------------------------------------------------------------- queue */
static void qu_dump(void)
{
	long n = (long)muggle_queue_size(&qu);
	printf("sz=%ld empty=%d fw=[", n, muggle_queue_is_empty(&qu) ? 1 : 0);
	static void *fw[MAXNODES];
	long cnt = 0;
	int bad = 0;
	for (muggle_queue_node_t *p = qu.head.next; p != &qu.tail; p = p->next) {
		if (p == NULL || cnt > n + 2 || cnt >= MAXNODES) { bad = 1; break; }
		if (cnt) printf(",");
		print_id(p);
		printf(":%lu", (unsigned long)(uintptr_t)p->data);
		if (p->next->prev != p || p->prev->next != p) bad = 1;
		fw[cnt++] = p;
	}
	printf("]");
	long k = cnt;
	for (muggle_queue_node_t *p = qu.tail.prev; p != &qu.head; p = p->prev) {
		if (p == NULL || k <= 0) { bad = 1; break; }
		k--;
		if (fw[k] != (void *)p) { bad = 1; break; }
	}
	if (k != 0) bad = 1;
	printf(" bw=%s front=", bad ? "BAD" : "ok");
	muggle_queue_node_t *f = muggle_queue_front(&qu);
	if (!f) printf("X");
	else { print_id(f); printf(":%lu", (unsigned long)(uintptr_t)f->data); }
}

static void qu_line(char *op, long long a, int fail)
{
	if (strcmp(op, "enq") == 0) {
		g_fail_malloc = fail;
		muggle_queue_node_t *p = muggle_queue_enqueue(&qu, D(a));
		g_fail_malloc = 0;
		if (p) printf("r=%ld", node_new(p)); else printf("r=X");
	} else if (strcmp(op, "deq") == 0) {
		muggle_queue_node_t *f = muggle_queue_front(&qu);
		if (f) node_del(f);
		muggle_queue_dequeue(&qu, CB, &g_cookie);
		printf("r=-");
	} else if (strcmp(op, "clear") == 0) {
		muggle_queue_clear(&qu, CB, &g_cookie);
		g_nn = 0;
		printf("r=-");
	} else {
		printf("r=?");
	}
	printf(" | ");
	qu_dump();
}

/* ---------------------------------------------------------------- pointer slot */
#define PS_DENSE 4096
static void ps_probe(unsigned int i, int *first)
{
	void *d = muggle_pointer_slot_get(&ps, i);
	if (!*first) printf(",");
	*first = 0;
	if (d) printf("%u=%lu", i, (unsigned long)(uintptr_t)d); else printf("%u=X", i);
}

static void ps_dump(void)
{
	unsigned int cap = ps.capacity;
	printf("cap=%u it=[", cap);
	static muggle_pointer_slot_item_t *fw[MAXNODES];
	long cnt = 0;
	int bad = 0;
	muggle_pointer_slot_item_t *end = muggle_pointer_slot_iter_end(&ps);
	for (muggle_pointer_slot_item_t *it = muggle_pointer_slot_iter_begin(&ps); it != end; it = it->next) {
		if (it == NULL || cnt > (long)cap + 2 || cnt >= MAXNODES) { bad = 1; break; }
		if (cnt) printf(",");
		printf("%u:%lu", it->slot_idx, (unsigned long)(uintptr_t)muggle_pointer_slot_iter_data(&ps, it));
		if (it->next->prev != it || it->prev->next != it) bad = 1;
		fw[cnt++] = it;
	}
	printf("]");
	long k = cnt;
	for (muggle_pointer_slot_item_t *it = ps.tail.prev; it != &ps.head; it = it->prev) {
		if (it == NULL || k <= 0) { bad = 1; break; }
		k--;
		if (fw[k] != it) { bad = 1; break; }
	}
	if (k != 0) bad = 1;
	printf(" bw=%s get=[", bad ? "BAD" : "ok");
	if (cap <= PS_DENSE) {
		for (unsigned int i = 0; i < cap + 2; i++) {
			void *d = muggle_pointer_slot_get(&ps, i);
			if (i) printf(",");
			if (d) printf("%lu", (unsigned long)(uintptr_t)d); else printf("X");
		}
	} else {
		/* big slot: indices 0..15, every live index (iteration order), capacity-2 .. capacity+1, as i=value */
		int first = 1;
		for (unsigned int i = 0; i < 16; i++) ps_probe(i, &first);
		for (long j = 0; j < cnt; j++) ps_probe(fw[j]->slot_idx, &first);
		for (unsigned int i = cap - 2; i != cap + 2; i++) ps_probe(i, &first);
	}
	printf("]");
}

static const char *ps_err(int r)
{
	static char buf[32];
	if (r == 0) return "ok";
	if (r == MUGGLE_ERR_MEM_ALLOC) return "full";
	if (r == MUGGLE_ERR_BEYOND_RANGE) return "range";
	if (r == MUGGLE_ERR_MEM_DUPLICATE_FREE) return "dup";
	snprintf(buf, sizeof(buf), "err%d", r);
	return buf;
}

static void ps_line(char *op, long long a)
{
	if (strcmp(op, "ins") == 0) {
		unsigned int idx = 0xdeadbeefu;
		int r = muggle_pointer_slot_insert(&ps, D(a), &idx);
		if (r == 0) printf("r=ok:%u", idx); else printf("r=%s", ps_err(r));
	} else if (strcmp(op, "rem") == 0) {
		int r = muggle_pointer_slot_remove(&ps, (unsigned int)a);
		printf("r=%s", ps_err(r));
	} else if (strcmp(op, "get") == 0) {
		void *d = muggle_pointer_slot_get(&ps, (unsigned int)a);
		if (d) printf("r=%lu", (unsigned long)(uintptr_t)d); else printf("r=X");
	} else {
		printf("r=?");
	}
	printf(" | ");
	ps_dump();
}

/* ---------------------------------------------------------------- protocol */
static int g_first;

static void case_begin(void)
{
	kind = 0; g_first = 1; g_nfreed = 0; g_badpool = 0; g_nn = 0; g_next_id = 1; g_fail_malloc = 0; g_borrow = 0;
}

static void destroy_now(void)
{
	switch (kind) {
	case 1: muggle_array_list_destroy(&al, CB, &g_cookie); break;
	case 2: muggle_stack_destroy(&st, CB, &g_cookie); break;
	case 3: muggle_linked_list_destroy(&ll, CB, &g_cookie); break;
	case 4: muggle_queue_destroy(&qu, CB, &g_cookie); break;
	case 5: muggle_pointer_slot_destroy(&ps); break;
	default: break;
	}
}

static void case_end(void)
{
	g_borrow = 0;
	destroy_now();
	if (kind >= 1 && kind <= 4) { printf("end "); print_freed(); printf("\n"); }
	kind = 0;
}

static int has_flag(char *line, char f)
{
	size_t n = strlen(line);
	return n >= 2 && line[n - 1] == f && line[n - 2] == ' ';
}
static int has_fail(char *line) { return has_flag(line, 'F'); }

static void header(char *line)
{
	char k[16], pre[32];
	long long cap = 0;
	int fail = has_fail(line);
	pre[0] = 0;
	if (sscanf(line, "%15s %lld %31s", k, &cap, pre) < 2) { printf("init ?\n"); return; }
	g_fail_malloc = fail;
	int ok = 0;
	if (strcmp(k, "al") == 0) { ok = muggle_array_list_init(&al, (size_t)cap); if (ok) kind = 1; }
	else if (strcmp(k, "st") == 0) { ok = muggle_stack_init(&st, (size_t)cap); if (ok) kind = 2; }
	else if (strcmp(k, "ll") == 0) { ok = muggle_linked_list_init(&ll, (size_t)cap); if (ok) kind = 3; }
	else if (strcmp(k, "qu") == 0) { ok = muggle_queue_init(&qu, (size_t)cap); if (ok) kind = 4; }
	else if (strcmp(k, "ps") == 0) {
		ok = muggle_pointer_slot_init(&ps, (unsigned int)cap) == 0;
		if (ok) {
			kind = 5;
			if (pre[0] && strcmp(pre, "-") != 0 && strcmp(pre, "F") != 0) {
				/* start the cursors elsewhere, as test/pointer_slot idx_truncate does */
				unsigned int a = (unsigned int)strtoull(pre, NULL, 10);
				ps.alloc_index = a;
				ps.free_index = a;
			}
		}
	}
	g_fail_malloc = 0;
	if (!ok) { printf("init fail\n"); return; }
	printf("init ok | ");
	switch (kind) {
	case 1: al_dump(); break;
	case 2: st_dump(); break;
	case 3: ll_dump(); break;
	case 4: qu_dump(); break;
	case 5: ps_dump(); break;
	}
	printf("\n");
}

static void case_line(char *line)
{
	if (g_first) { g_first = 0; header(line); return; }
	if (kind == 0) { printf("nocontainer\n"); return; }
	char op[16], s1[32], s2[32];
	s1[0] = s2[0] = 0;
	int nf = sscanf(line, "%15s %31s %31s", op, s1, s2);
	if (nf < 1) { printf("r=?\n"); return; }
	int fail = has_fail(line);
	g_borrow = has_flag(line, 'B');
	int isnull = (strcmp(s1, "N") == 0);
	long long a = (nf >= 2 && !isnull && strcmp(s1, "F") != 0 && strcmp(s1, "B") != 0) ? strtoll(s1, NULL, 10) : 0;
	long long b = (nf >= 3 && strcmp(s2, "F") != 0 && strcmp(s2, "B") != 0) ? strtoll(s2, NULL, 10) : 0;
	if (strcmp(op, "destroy") == 0 && kind >= 1 && kind <= 4) {
		/* explicit destroy (with or without callback): the container is gone afterwards */
		destroy_now();
		kind = 0;
		printf("r=- | destroyed | ");
		print_freed();
		printf("\n");
		g_borrow = 0;
		return;
	}
	switch (kind) {
	case 1: al_line(op, a, b, fail); break;
	case 2: st_line(op, a, fail); break;
	case 3: ll_line(op, isnull, a, b, fail); break;
	case 4: qu_line(op, a, fail); break;
	case 5: ps_line(op, a); break;
	}
	if (kind != 5) { printf(" | "); print_freed(); }
	printf("\n");
	g_borrow = 0;
}

int main(void) { return vdrv_main(); }
