/* C16 implementation driver: the repository's loggers and handlers.
 *
 * One binary, three modes (first case line):
 *   mode seq   sequential calls on a sync or async logger; custom capture handler + the
 *              built-in file / console / rotating handlers writing into the scratch directory;
 *              prints the formatter oracle per call and every handler's bytes (hex)
 *   mode thr   1..16 real producer threads with tagged payloads (monitor checks integrity
 *              and per-thread order from the tags)
 *   mode vs    the same code under the deterministic scheduler (harness/vsched): prints the
 *              event trace; used for handler-mutex atomicity and for the async logger's
 *              queue-full / shutdown paths (DEADLOCK / LIVELOCK are events)
 *
 * Case lines:
 *   mode <seq|thr|vs>
 *   logger sync | logger async <capacity>
 *   logger inits <console level> <file level> | logger initc <console level> <file level>
 *       the library's own entry points: muggle_log_simple_init / muggle_log_complicated_init on the default
 *       logger, calls through the MUGGLE_LOG_DEFAULT macro; the h lines name the handlers these create
 *       (console; rotating file "log/<process>.log" relative to the working directory / time-rotating file)
 *   clock <sec> <nsec>
 *   h <cap|file|filea|filerel|filenm|console|conplain|rot|rotrel|trot|rots|trots> <level> <simple|complicated|raw|initsimple>
 *       filea   = plain file handler opened with mode "ab" on a file that already has a line
 *       filerel = plain file handler given a path relative to the working directory
 *       filenm  = plain file handler with muggle_log_handler_set_mutex(false) (single-threaded use)
 *       console / conplain in modes thr / vs: what the handler hands to fwrite on stdout / stderr is captured
 *                 (same two-part writes as the file streams), no file descriptor is redirected
 *       rots  = size-rotating handler with a small max_bytes (many rotations during the run)
 *       trots = time-rotating handler, unit SEC mod 2 (rotates as the per-call clock advances)
 *       their stream = all backup / period files in chronological order + the live file
 *   tick <sec>                                  (thr, vs: call k of every thread happens at clock + k*tick)
 *   setlevel <handler index> <level>            (muggle_log_handler_set_level between two calls; any level)
 *   failmalloc <k>                              (seq: k-th tracked malloc of the next log fails)
 *   fill64 <v>                                  (seq: blocks malloc'ed by the log calls are pre-filled with the repeating
 *                                                 64-bit word v: what the code does not initialise reads as v)
 *   log <level> <srcline> <s|ds|lit> <hex text> (seq)
 *   hold <level> <srcline> <s|ds|lit> <hex>     (seq, async: like log; the writer thread stops inside
 *                                                 handler 0's write of this message until "release")
 *   release
 *   threads <n> <msgs> <paylen>                 (thr, vs)
 *   sched <spec>                                (vs)
 * Clock (timespec_get, time), thread id (syscall gettid), malloc family, fwrite,
 * pthread_create/join are interposed with -Wl,--wrap (see lib/props/c16.py). */
#define _GNU_SOURCE
#include "vdrv.h"
#include <stdarg.h>
#include <time.h>
#include <unistd.h>
#include <fcntl.h>
#include <pthread.h>
#include <sched.h>
#include <sys/syscall.h>
#include <sys/stat.h>
#include "vsched/vsched.h"
#include "muggle/c/log/log.h"
#include "muggle/c/log/log_sync_logger.h"
#include "muggle/c/log/log_async_logger.h"
#include "muggle/c/log/log_file_handler.h"
#include "muggle/c/log/log_console_handler.h"
#include "muggle/c/log/log_file_rotate_handler.h"
#include "muggle/c/log/log_file_time_rot_handler.h"
#include "muggle/c/sync/sync_obj.h"
#include "muggle/c/os/os.h"
#include "muggle/c/os/path.h"

#define LIMIT MUGGLE_LOG_MSG_MAX_LEN
#define SRC_FILE "/verif/harness/drivers/c16_src.c"
#define SRC_FUNC "c16_case"
#define MAXH 10
#define MAXOPS 256
#define BIG (LIMIT * 4 + 1024)

void c16_acct_begin(void);
void c16_acct_end(void);
int c16_acct_live(void);
void c16_acct_fail_at(int k);
void c16_acct_fill(int on, unsigned long long v);

/* ---------------- interposed environment ---------------- */
static long long g_sec = 1700000000LL;
static long g_nsec = 123456789L;
static __thread long g_ltid = 4242;
static __thread long long g_tls_sec = -1;      /* per-call clock of a producer thread (thr / vs) */
static int g_tick;

int __real_timespec_get(struct timespec *ts, int base);
int __wrap_timespec_get(struct timespec *ts, int base)
{
	(void)base;
	ts->tv_sec = (time_t)(g_tls_sec >= 0 ? g_tls_sec : g_sec); ts->tv_nsec = g_nsec;
	return TIME_UTC;
}
time_t __wrap_time(time_t *t)
{
	time_t v = (time_t)(g_tls_sec >= 0 ? g_tls_sec : g_sec);
	if (t) *t = v;
	return v;
}
long __real_syscall(long n, ...);
long __wrap_syscall(long n, ...)
{
	va_list ap;
	va_start(ap, n);
	long a = va_arg(ap, long), b = va_arg(ap, long), c = va_arg(ap, long),
	     d = va_arg(ap, long), e = va_arg(ap, long), f = va_arg(ap, long);
	va_end(ap);
	if (n == SYS_gettid) return g_ltid;
	return __real_syscall(n, a, b, c, d, e, f);
}

/* mode of the running case */
enum { M_SEQ = 0, M_THR = 1, M_VS = 2 };
static int g_mode;

/* FILE* owned by handlers: fwrite on them is performed as two partial writes separated by a
 * scheduling point (vs) / a yield (thr): the C standard promises no atomicity of concurrent
 * fwrite; the property's guarantee has to come from the handler mutex. */
static FILE *g_fp[MAXH * 2 + 2];
static int g_fp_h[MAXH * 2 + 2];
static int g_nfp;
static int g_chunk_fwrite;
static FILE *g_closed[64];
static int g_closed_h[64];
static int g_nclosed;
static int handler_of_fp(FILE *fp);    /* current stream of a handler (rotating handlers reopen) */
static int closed_handler_of_fp(FILE *fp)
{
	for (int i = 0; i < g_nclosed; i++) if (g_closed[i] == fp) return g_closed_h[i];
	return -1;
}
/* console handlers in the threaded modes: bytes handed to fwrite on stdout / stderr are captured here */
static int g_con_capture;
static unsigned char *g_con_buf[2];
static size_t g_con_len[2];
#define CON_CAP (8u << 20)
static void con_put(int st, const void *p, size_t k)
{
	size_t at = __atomic_fetch_add(&g_con_len[st], k, __ATOMIC_SEQ_CST);
	if (at + k <= CON_CAP) memcpy(g_con_buf[st] + at, p, k);
}
size_t __real_fwrite(const void *p, size_t sz, size_t n, FILE *fp);
size_t __wrap_fwrite(const void *p, size_t sz, size_t n, FILE *fp)
{
	if (g_con_capture && (fp == stdout || fp == stderr)) {
		int st = fp == stderr, h = handler_of_fp(fp);
		size_t total = sz * n;
		/* the escape sequences of a coloured line are short single writes; the line itself goes out in two parts */
		if (g_chunk_fwrite && total >= 12 && h >= 0) {
			size_t a = total / 2;
			if (vs_active()) vs_note("fw1 %d", h);
			con_put(st, p, a);
			if (vs_active()) vs_yield_point("fwrite"); else sched_yield();
			if (vs_active()) vs_note("fw2 %d", h);
			con_put(st, (const char *)p + a, total - a);
		} else con_put(st, p, total);
		return n;
	}
	if (g_chunk_fwrite && sz == 1 && n >= 2) {
		int hc = vs_active() ? closed_handler_of_fp(fp) : -1;
		if (hc >= 0) {
			/* a stale stream: the handler closed it during a rotation */
			vs_note("fwclosed %d", hc);
			return n;
		}
		int h = handler_of_fp(fp);
		if (h >= 0) {
			size_t a = n / 2;
			if (vs_active()) vs_note("fw1 %d", h);
			size_t r1 = __real_fwrite(p, 1, a, fp);
			fflush(fp);
			if (vs_active()) vs_yield_point("fwrite"); else sched_yield();
			if (vs_active()) {
				/* the stream may have been closed while this thread was descheduled */
				if (closed_handler_of_fp(fp) >= 0) { vs_note("fwclosed %d", h); return n; }
				vs_note("fw2 %d", h);
			}
			size_t r2 = __real_fwrite((const char *)p + a, 1, n - a, fp);
			return r1 + r2;
		}
	}
	return __real_fwrite(p, sz, n, fp);
}
/* rotation window: fclose ... fopen of a handler stream are scheduling points under the
 * scheduler (the handler's fp is NULL in between).  Under the scheduler the closed stream is
 * flushed but not released until the end of the case, so that a stale use shows up as a note
 * in the trace instead of a crash. */
int __real_fclose(FILE *fp);
int __wrap_fclose(FILE *fp)
{
	int h = (g_chunk_fwrite && vs_active()) ? handler_of_fp(fp) : -1;
	if (h >= 0) {
		fflush(fp);
		if (g_nclosed < 64) { g_closed[g_nclosed] = fp; g_closed_h[g_nclosed] = h; g_nclosed++; }
		vs_note("rotop %d fclose", h);
		vs_yield_point("fclose");
		return 0;
	}
	return __real_fclose(fp);
}
FILE *__real_fopen(const char *path, const char *mode);
FILE *__wrap_fopen(const char *path, const char *mode)
{
	if (vs_active() && g_chunk_fwrite) {
		vs_note("rotop - fopen");
		vs_yield_point("fopen");
	}
	return __real_fopen(path, mode);
}

/* the async logger's writer thread becomes a scheduled thread in vs mode */
static int g_capture_create;
static void *(*g_cons_fn)(void *);
static void *g_cons_arg;
static muggle_sync_t g_join_word;
#define FAKE_THREAD ((pthread_t)0x1)
int __real_pthread_create(pthread_t *th, const pthread_attr_t *at, void *(*fn)(void *), void *arg);
int __real_pthread_join(pthread_t th, void **ret);
static void cons_tramp(void *u)
{
	(void)u;
	g_ltid = 99;
	g_cons_fn(g_cons_arg);
	vs_note("consdone");
	__atomic_store_n(&g_join_word, 1, __ATOMIC_SEQ_CST);
	muggle_sync_wake_all(&g_join_word);
}
int __wrap_pthread_create(pthread_t *th, const pthread_attr_t *at, void *(*fn)(void *), void *arg)
{
	if (g_capture_create) {
		g_capture_create = 0;
		g_cons_fn = fn; g_cons_arg = arg;
		vs_spawn(cons_tramp, NULL);
		*th = FAKE_THREAD;
		return 0;
	}
	return __real_pthread_create(th, at, fn, arg);
}
int __wrap_pthread_join(pthread_t th, void **ret)
{
	if (th == FAKE_THREAD) {
		for (;;) {
			int v = (int)__atomic_load_n(&g_join_word, __ATOMIC_SEQ_CST);
			vs_note("joincheck %d", v);
			if (v) break;
			muggle_sync_wait(&g_join_word, 0, NULL);
		}
		return 0;
	}
	return __real_pthread_join(th, ret);
}

/* custom formatter: the payload alone (makes the payload's own truncation observable) */
static int raw_fmt(const muggle_log_msg_t *msg, char *buf, size_t bufsize)
{
	return snprintf(buf, bufsize, "%s", msg->payload ? msg->payload : "");
}
static muggle_log_fmt_t raw_formatter = { 0, raw_fmt };

/* ---------------- custom capture handler (a well-behaved user handler) ---------------- */
typedef struct {
	muggle_log_handler_t handler;
	int idx;
	unsigned char *buf;
	size_t len, cap;
	int rets[MAXOPS], nret;
} cap_handler_t;

void *__real_malloc(size_t n);
void __real_free(void *p);

static void gate_in_cap_write(int idx);
static int cap_write(struct muggle_log_handler *base, const muggle_log_msg_t *msg)
{
	cap_handler_t *h = (cap_handler_t *)base;
	char buf[LIMIT];
	gate_in_cap_write(h->idx);
	muggle_log_fmt_t *fmt = muggle_log_handler_get_fmt(base);
	if (fmt == NULL) return -1;
	int ret = fmt->fmt_func(msg, buf, sizeof(buf));
	if (ret < 0) return -2;
	if (ret >= (int)sizeof(buf)) { ret = (int)sizeof(buf) - 1; buf[ret - 1] = '\n'; }
	if (base->need_mutex) muggle_mutex_lock(&base->mtx);
	if (h->len + (size_t)ret <= h->cap) {
		int a = (g_mode == M_SEQ) ? ret : ret / 2;
		if (vs_active()) vs_note("emit1 %d", h->idx);
		memcpy(h->buf + h->len, buf, (size_t)a);
		h->len += (size_t)a;
		if (g_mode != M_SEQ) {
			if (vs_active()) vs_yield_point("cap"); else sched_yield();
			if (vs_active()) vs_note("emit2 %d", h->idx);
			memcpy(h->buf + h->len, buf + a, (size_t)(ret - a));
			h->len += (size_t)(ret - a);
		}
	}
	if (g_mode == M_SEQ && h->nret < MAXOPS) h->rets[h->nret++] = ret;
	if (base->need_mutex) muggle_mutex_unlock(&base->mtx);
	return ret;
}
static int cap_destroy(muggle_log_handler_t *base) { return muggle_log_handler_destroy_default(base); }

/* ---------------- case state ---------------- */
typedef struct { char kind[12]; int level; int fmt; } hspec_t;
typedef struct { int kind; int a, b; char tmpl[8]; unsigned char *text; size_t tlen; } op_t;
enum { OP_LOG = 1, OP_FAIL = 2, OP_SETLEVEL = 3, OP_HOLD = 4, OP_RELEASE = 5 };

static int is_async, capacity;
static int g_init_logger, g_init_lc, g_init_lf;     /* 0 none, 1 muggle_log_simple_init, 2 muggle_log_complicated_init */
#define PRE_EXISTING "PRE-EXISTING LINE\n"
static hspec_t hs[MAXH];
static int nh;
static op_t ops[MAXOPS];
static int nops;
static int th_n, th_msgs, th_paylen, lossy;
static int g_fill_on;
static unsigned long long g_fill;
static char sched_spec[8192];
static char scratch[512];

static union {
	muggle_log_handler_t base;
	cap_handler_t cap;
	muggle_log_file_handler_t file;
	muggle_log_console_handler_t con;
	muggle_log_file_rotate_handler_t rot;
	muggle_log_file_time_rot_handler_t trot;
} H[MAXH];
static int h_ok[MAXH], h_added[MAXH];
static long g_rot_max[MAXH], g_rot_backups[MAXH];
static char h_path[MAXH][600];
static muggle_sync_logger_t sync_logger;
static muggle_async_logger_t async_logger;
static muggle_logger_t *logger;

static int handler_of_fp(FILE *fp)
{
	if (!fp) return -1;
	for (int i = 0; i < nh; i++) {
		if (!h_ok[i]) continue;
		if (strncmp(hs[i].kind, "file", 4) == 0 && !g_init_logger && H[i].file.fp == fp) return i;
		if (strncmp(hs[i].kind, "rot", 3) == 0 && !g_init_logger && H[i].rot.fp == fp) return i;
		if (strncmp(hs[i].kind, "trot", 4) == 0 && !g_init_logger && H[i].trot.fp == fp) return i;
	}
	for (int i = 0; i < g_nfp; i++) if (g_fp[i] == fp) return g_fp_h[i];   /* stdout / stderr of a console handler */
	return -1;
}

static void hexout(const unsigned char *p, size_t n)
{
	static const char *d = "0123456789abcdef";
	printf("%zu:", n);
	for (size_t i = 0; i < n; i++) { putchar(d[p[i] >> 4]); putchar(d[p[i] & 15]); }
}
static size_t unhex(const char *s, unsigned char *out, size_t cap)
{
	size_t n = 0;
	while (s[0] && s[1] && n < cap) {
		unsigned v;
		if (sscanf(s, "%2x", &v) != 1) break;
		out[n++] = (unsigned char)v;
		s += 2;
	}
	return n;
}

static void case_begin(void)
{
	const char *e = getenv("C16_SCRATCH");
	snprintf(scratch, sizeof(scratch), "%s/p%d", e ? e : "/verif/build/C16/scratch", (int)getpid());
	mkdir(e ? e : "/verif/build/C16/scratch", 0777);
	mkdir(scratch, 0777);
	g_mode = M_SEQ; is_async = 0; capacity = 0; nh = 0; g_init_logger = 0; g_con_capture = 0;
	if (chdir(scratch) != 0) { }
	for (int i = 0; i < nops; i++) { if (ops[i].text) __real_free(ops[i].text); ops[i].text = NULL; }
	nops = 0; th_n = 0; th_msgs = 0; th_paylen = 0; lossy = 0; g_tick = 0; g_nclosed = 0; g_fill_on = 0; g_fill = 0;
	{	/* empty the scratch directory of this process */
		char cmd[700];
		snprintf(cmd, sizeof(cmd), "rm -f %s/*", scratch);
		if (system(cmd) != 0) { }
	}
	g_sec = 1700000000LL; g_nsec = 123456789L;
	strcpy(sched_spec, "rand 1 50 0 0");
}

static void case_line(char *line)
{
	char op[32], a[64];
	if (sscanf(line, "%31s", op) != 1) return;
	if (strcmp(op, "mode") == 0) {
		if (sscanf(line, "%*s %63s", a) == 1)
			g_mode = strcmp(a, "thr") == 0 ? M_THR : strcmp(a, "vs") == 0 ? M_VS : M_SEQ;
	} else if (strcmp(op, "logger") == 0) {
		a[0] = 0; capacity = 0; g_init_lf = -1;
		sscanf(line, "%*s %63s %d %d", a, &capacity, &g_init_lf);
		is_async = strcmp(a, "async") == 0;
		g_init_logger = strcmp(a, "inits") == 0 ? 1 : strcmp(a, "initc") == 0 ? 2 : 0;
		g_init_lc = capacity;
	} else if (strcmp(op, "clock") == 0) {
		sscanf(line, "%*s %lld %ld", &g_sec, &g_nsec);
	} else if (strcmp(op, "h") == 0) {
		char k[16], f[32];
		int lv;
		if (nh < MAXH && sscanf(line, "%*s %11s %d %31s", k, &lv, f) == 3) {
			snprintf(hs[nh].kind, sizeof(hs[nh].kind), "%s", k);
			hs[nh].level = lv; hs[nh].fmt = strcmp(f, "complicated") == 0 ? 1 : strcmp(f, "raw") == 0 ? 2 :
				strcmp(f, "initsimple") == 0 ? 3 : 0;
			nh++;
		}
	} else if (strcmp(op, "setlevel") == 0 && nops < MAXOPS) {
		if (sscanf(line, "%*s %d %d", &ops[nops].a, &ops[nops].b) == 2) { ops[nops].kind = OP_SETLEVEL; ops[nops].text = NULL; nops++; }
	} else if (strcmp(op, "failmalloc") == 0 && nops < MAXOPS) {
		if (sscanf(line, "%*s %d", &ops[nops].a) == 1) { ops[nops].kind = OP_FAIL; ops[nops].text = NULL; nops++; }
	} else if (strcmp(op, "release") == 0 && nops < MAXOPS) {
		ops[nops].kind = OP_RELEASE; ops[nops].text = NULL; nops++;
	} else if ((strcmp(op, "log") == 0 || strcmp(op, "hold") == 0) && nops < MAXOPS) {
		int used = 0;
		op_t *o = &ops[nops];
		if (sscanf(line, "%*s %d %d %7s %n", &o->a, &o->b, o->tmpl, &used) >= 3) {
			const char *hx = line + used;
			size_t hl = strlen(hx);
			o->text = (unsigned char *)__real_malloc(hl / 2 + 1);
			o->tlen = unhex(hx, o->text, hl / 2);
			o->text[o->tlen] = 0;
			o->kind = strcmp(op, "hold") == 0 ? OP_HOLD : OP_LOG;
			nops++;
		}
	} else if (strcmp(op, "threads") == 0) {
		sscanf(line, "%*s %d %d %d", &th_n, &th_msgs, &th_paylen);
	} else if (strcmp(op, "tick") == 0) {
		sscanf(line, "%*s %d", &g_tick);
	} else if (strcmp(op, "lossy") == 0) {
		lossy = 1;
	} else if (strcmp(op, "fill64") == 0) {
		if (sscanf(line, "%*s %llu", &g_fill) == 1) g_fill_on = 1;
	} else if (strcmp(op, "sched") == 0) {
		snprintf(sched_spec, sizeof(sched_spec), "%s", line + 6);
	}
}

static void reg_fp(FILE *fp, int h)
{
	if (fp && g_nfp < (int)(sizeof(g_fp) / sizeof(g_fp[0]))) { g_fp[g_nfp] = fp; g_fp_h[g_nfp] = h; g_nfp++; }
}

/* console redirection: fd 1 / fd 2 go to scratch files while handlers may write */
static int saved_out = -1, saved_err = -1, con_active;
static char con_out_path[600], con_err_path[600];
void __sanitizer_set_report_fd(void *fd);
static void con_begin(void)
{
	snprintf(con_out_path, sizeof(con_out_path), "%s/con_out.log", scratch);
	snprintf(con_err_path, sizeof(con_err_path), "%s/con_err.log", scratch);
	fflush(stdout); fflush(stderr);
	saved_out = dup(1); saved_err = dup(2);
	int fo = open(con_out_path, O_WRONLY | O_CREAT | O_TRUNC, 0666);
	int fe = open(con_err_path, O_WRONLY | O_CREAT | O_TRUNC, 0666);
	dup2(fo, 1); dup2(fe, 2); close(fo); close(fe);
	__sanitizer_set_report_fd((void *)(long)saved_err);   /* sanitizer reports stay visible */
	con_active = 1;
}
static void con_end(void)
{
	if (!con_active) return;
	fflush(stdout); fflush(stderr);
	dup2(saved_out, 1); dup2(saved_err, 2); close(saved_out); close(saved_err);
	__sanitizer_set_report_fd((void *)2L);
	con_active = 0;
}

static char g_init_path[600];
static void init_oracles(muggle_log_fmt_t *f);
static int setup(void)
{
	int have_console = 0;
	g_nfp = 0;
	memset(H, 0, sizeof(H));
	memset(h_ok, 0, sizeof(h_ok));
	memset(h_added, 0, sizeof(h_added));
	for (int i = 0; i < nh; i++) if (strncmp(hs[i].kind, "con", 3) == 0) have_console = 1;
	c16_acct_begin();
	if (g_init_logger) {
		/* the default logger is a static object of the library: start every case from its initial state */
		char exe[600], base[300], p2[700];
		struct tm t; time_t s0 = (time_t)g_sec;
		logger = muggle_logger_default();
		muggle_sync_logger_init((muggle_sync_logger_t *)logger);
		for (int i = 0; i < nh; i++) {
			snprintf(h_path[i], sizeof(h_path[i]), "%s/h%d.log", scratch, i);
			if (strcmp(hs[i].kind, "rotrel") == 0) {
				/* muggle_log_simple_init: "log/<process name>.log" relative to the working directory */
				exe[0] = 0; base[0] = 0;
				muggle_os_process_path(exe, sizeof(exe));
				muggle_path_basename(exe, base, sizeof(base));
				snprintf(h_path[i], sizeof(h_path[i]), "%s/log/%s.log", scratch, base);
				remove(h_path[i]);
			} else if (strcmp(hs[i].kind, "trot") == 0) {
				gmtime_r(&s0, &t);
				snprintf(p2, sizeof(p2), "%s.%d%02d%02d", h_path[i], t.tm_year + 1900, t.tm_mon + 1, t.tm_mday);
				remove(p2);
				snprintf(g_init_path, sizeof(g_init_path), "%s", h_path[i]);
				snprintf(h_path[i], sizeof(h_path[i]), "%s", p2);
			}
		}
		int rc = g_init_logger == 1 ? muggle_log_simple_init(g_init_lc, g_init_lf)
		                            : muggle_log_complicated_init(g_init_lc, g_init_lf, g_init_path);
		if (rc != 0) { printf("init fail\n"); return -1; }
		for (int i = 0; i < nh; i++) {
			h_ok[i] = 1; h_added[i] = i < logger->cnt;
			if (strncmp(hs[i].kind, "con", 3) == 0) { reg_fp(stdout, i); reg_fp(stderr, i); }
			printf("add %d %s\n", i, h_added[i] ? "ok" : "refused");
		}
		printf("initcnt %d\n", logger->cnt);
		/* the formatter these entry points install (private to log.c): its unbounded output per call */
		if (logger->cnt > 0) init_oracles(muggle_log_handler_get_fmt(logger->handlers[0]));
		fflush(stdout);
		if (have_console) con_begin();
		return 0;
	}
	if (is_async) {
		g_join_word = 0;
		if (g_mode == M_VS) g_capture_create = 1;
		int rc = muggle_async_logger_init(&async_logger, capacity);
		g_capture_create = 0;
		if (rc != 0) { printf("init fail\n"); return -1; }
		logger = (muggle_logger_t *)&async_logger;
	} else {
		muggle_sync_logger_init(&sync_logger);
		logger = (muggle_logger_t *)&sync_logger;
	}
	for (int i = 0; i < nh; i++) {
		int rc = -1;
		snprintf(h_path[i], sizeof(h_path[i]), "%s/h%d.log", scratch, i);
		remove(h_path[i]);
		if (strcmp(hs[i].kind, "cap") == 0) {
			rc = muggle_log_handler_init_default(&H[i].base);
			H[i].base.write = cap_write; H[i].base.destroy = cap_destroy;
			H[i].cap.idx = i; H[i].cap.cap = 8u << 20;
			H[i].cap.buf = (unsigned char *)__real_malloc(H[i].cap.cap);
			H[i].cap.len = 0; H[i].cap.nret = 0;
		} else if (strcmp(hs[i].kind, "file") == 0) {
			rc = muggle_log_file_handler_init(&H[i].file, h_path[i], "wb");
		} else if (strcmp(hs[i].kind, "filea") == 0) {
			/* append mode: what the file already holds stays */
			FILE *pf = __real_fopen(h_path[i], "wb");
			if (pf) { fputs(PRE_EXISTING, pf); __real_fclose(pf); }
			rc = muggle_log_file_handler_init(&H[i].file, h_path[i], "ab");
		} else if (strcmp(hs[i].kind, "filerel") == 0) {
			/* relative path: resolved against the working directory (= the scratch directory) */
			char rel[64];
			snprintf(rel, sizeof(rel), "h%d.log", i);
			rc = muggle_log_file_handler_init(&H[i].file, rel, "wb");
		} else if (strcmp(hs[i].kind, "filenm") == 0) {
			rc = muggle_log_file_handler_init(&H[i].file, h_path[i], "wb");
			if (rc == 0) muggle_log_handler_set_mutex(&H[i].base, false);
		} else if (strcmp(hs[i].kind, "console") == 0 || strcmp(hs[i].kind, "conplain") == 0) {
			rc = muggle_log_console_handler_init(&H[i].con, strcmp(hs[i].kind, "console") == 0);
			reg_fp(stdout, i); reg_fp(stderr, i);
		} else if (strcmp(hs[i].kind, "rot") == 0) {
			rc = muggle_log_file_rotate_handler_init(&H[i].rot, h_path[i], 1u << 30, 2);
		} else if (strcmp(hs[i].kind, "rots") == 0) {
			/* many rotations during the run; enough backups that none is discarded */
			/* sized from the scenario: every line of every thread fits in the retained backups with a margin */
			g_rot_max[i] = g_mode == M_VS ? 64 : 400;
			g_rot_backups[i] = (long)th_n * th_msgs * (th_paylen + 120) / g_rot_max[i] + 32;
			rc = muggle_log_file_rotate_handler_init(&H[i].rot, h_path[i], (unsigned)g_rot_max[i], (unsigned)g_rot_backups[i]);
		} else if (strcmp(hs[i].kind, "trots") == 0) {
			rc = muggle_log_file_time_rot_handler_init(&H[i].trot, h_path[i], MUGGLE_LOG_TIME_ROTATE_UNIT_SEC, 2, false);
		} else if (strcmp(hs[i].kind, "trot") == 0) {
			struct tm t; time_t s = (time_t)g_sec; char p2[700];
			gmtime_r(&s, &t);
			snprintf(p2, sizeof(p2), "%s.%d%02d%02d", h_path[i], t.tm_year + 1900, t.tm_mon + 1, t.tm_mday);
			remove(p2);
			rc = muggle_log_file_time_rot_handler_init(&H[i].trot, h_path[i], MUGGLE_LOG_TIME_ROTATE_UNIT_DAY, 1, false);
			snprintf(h_path[i], sizeof(h_path[i]), "%s", p2);
		}
		h_ok[i] = rc == 0;
		if (rc != 0) { printf("hinit %d fail\n", i); continue; }
		muggle_log_handler_set_level(&H[i].base, hs[i].level);
		muggle_log_handler_set_fmt(&H[i].base, hs[i].fmt == 2 ? &raw_formatter :
			hs[i].fmt ? muggle_log_fmt_get_complicated() : muggle_log_fmt_get_simple());
		int ar = logger->add_handler(logger, &H[i].base);
		h_added[i] = ar == 0;
		printf("add %d %s\n", i, ar == 0 ? "ok" : "refused");
	}
	fflush(stdout);
	if (have_console && g_mode == M_SEQ) con_begin();
	if (have_console && g_mode != M_SEQ) {
		for (int k = 0; k < 2; k++) {
			if (!g_con_buf[k]) g_con_buf[k] = (unsigned char *)__real_malloc(CON_CAP);
			g_con_len[k] = 0;
		}
		g_con_capture = 1;
	}
	return 0;
}

static int destroyed;
static void teardown_handlers(void)
{
	con_end();
	g_con_capture = 0;
	if (g_init_logger) {
		for (int k = 0; k < logger->cnt; k++) logger->handlers[k]->destroy(logger->handlers[k]);
		muggle_sync_logger_init((muggle_sync_logger_t *)logger);
		return;
	}
	for (int i = 0; i < nh; i++)
		if (h_ok[i]) H[i].base.destroy(&H[i].base);
}

static void dump_file(const char *tag, int i, const char *path)
{
	FILE *f = fopen(path, "rb");
	static unsigned char *buf;
	size_t cap = 16u << 20, n = 0;
	if (!buf) buf = (unsigned char *)__real_malloc(cap);
	if (f) { n = fread(buf, 1, cap, f); fclose(f); }
	printf("%s %d ", tag, i);
	hexout(buf, n);
	printf("\n");
}

#include <dirent.h>
static int cmp_name(const void *a, const void *b) { return strcmp((const char *)a, (const char *)b); }
/* rotating handlers: every backup / period file in chronological order, then the live file */
static void dump_concat(int i, int by_number)
{
	static unsigned char *buf;
	static char names[8192][80];
	size_t cap = 16u << 20, n = 0;
	int nn = 0;
	char prefix[64], path[700];
	if (!buf) buf = (unsigned char *)__real_malloc(cap);
	snprintf(prefix, sizeof(prefix), "h%d.log.", i);
	DIR *d = opendir(scratch);
	struct dirent *e;
	while (d && (e = readdir(d)) != NULL)
		if (strncmp(e->d_name, prefix, strlen(prefix)) == 0 && nn < 8192) {
			if (by_number) snprintf(names[nn], 80, "%09ld", 999999999L - atol(e->d_name + strlen(prefix)));   /* oldest = highest number */
			else snprintf(names[nn], 80, "%s", e->d_name + strlen(prefix));
			nn++;
		}
	if (d) closedir(d);
	qsort(names, (size_t)nn, 80, cmp_name);
	for (int k = 0; k <= nn; k++) {
		if (k < nn) {
			if (by_number) snprintf(path, sizeof(path), "%s/%s%ld", scratch, prefix, 999999999L - atol(names[k]));
			else snprintf(path, sizeof(path), "%s/%s%s", scratch, prefix, names[k]);
		} else {
			if (!by_number) break;                      /* time rotation: the live file is one of the period files */
			snprintf(path, sizeof(path), "%s/h%d.log", scratch, i);
		}
		FILE *f = fopen(path, "rb");
		if (f) { n += fread(buf + n, 1, cap - n, f); fclose(f); }
	}
	/* retention: a size-rotating handler keeps backup_count backups; more rotations than that discard the oldest */
	if (by_number) printf("retention %d files=%d max=%ld\n", i, nn, g_rot_backups[i]);
	printf("file %d ", i);
	hexout(buf, n);
	printf("\n");
}

static void dump_outputs(void)
{
	for (int i = 0; i < nh; i++) {
		if (!h_ok[i]) continue;
		if (strcmp(hs[i].kind, "cap") == 0) {
			printf("file %d ", i);
			hexout(H[i].cap.buf, H[i].cap.len);
			printf("\n");
			if (g_mode == M_SEQ) {
				printf("rets %d", i);
				for (int k = 0; k < H[i].cap.nret; k++) printf(" %d", H[i].cap.rets[k]);
				printf("\n");
			}
			__real_free(H[i].cap.buf);
			H[i].cap.buf = NULL;
		} else if (strncmp(hs[i].kind, "con", 3) == 0 && g_mode != M_SEQ) {
			printf("out %d ", i); hexout(g_con_buf[0], g_con_len[0] < CON_CAP ? g_con_len[0] : CON_CAP); printf("\n");
			printf("err %d ", i); hexout(g_con_buf[1], g_con_len[1] < CON_CAP ? g_con_len[1] : CON_CAP); printf("\n");
		} else if (strncmp(hs[i].kind, "con", 3) == 0) {
			dump_file("out", i, con_out_path);
			dump_file("err", i, con_err_path);
		} else if (strcmp(hs[i].kind, "rots") == 0) {
			dump_concat(i, 1);
		} else if (strcmp(hs[i].kind, "trots") == 0) {
			dump_concat(i, 0);
		} else {
			dump_file("file", i, h_path[i]);
		}
	}
}

/* the formatter oracle: the formatted line as snprintf would produce it without a limit */
static void oracle(int idx, int level, int srcline, const unsigned char *text, size_t tlen)
{
	static char big[BIG + 4096];
	static char payload[LIMIT];
	size_t pl = tlen < LIMIT - 1 ? tlen : LIMIT - 1;
	memcpy(payload, text, pl);
	payload[pl] = 0;
	muggle_log_msg_t m;
	memset(&m, 0, sizeof(m));
	m.level = level;
	m.ts.tv_sec = (time_t)g_sec; m.ts.tv_nsec = g_nsec;
	m.tid = (muggle_thread_readable_id)g_ltid;
	m.src_loc.file = SRC_FILE; m.src_loc.line = (unsigned)srcline; m.src_loc.func = SRC_FUNC;
	m.payload = payload;
	printf("call %d %d text=", idx, level);
	hexout(text, tlen);
	for (int k = 0; k < 3; k++) {
		muggle_log_fmt_t *f = k == 2 ? &raw_formatter : k ? muggle_log_fmt_get_complicated() : muggle_log_fmt_get_simple();
		int n = f->fmt_func(&m, big, sizeof(big));
		printf(" %s=", k == 2 ? "raw" : k ? "complicated" : "simple");
		hexout((unsigned char *)big, n < 0 ? 0 : (size_t)n);
	}
	printf("\n");
}

/* the library's logging macro, at the canonical source location of the drivers */
static void c16_case(int level, const unsigned char *text)
{
#line 77 "/verif/harness/drivers/c16_src.c"
	MUGGLE_LOG_DEFAULT(level, "%s", (const char *)text);
#line 640 "c16_driver.c"
}

/* init loggers: the formatter installed by muggle_log_*_init, on every call of the case */
static void init_oracles(muggle_log_fmt_t *f)
{
	static char big[BIG + 4096];
	static char payload[LIMIT];
	int idx = 0;
	for (int i = 0; i < nops; i++) {
		op_t *o = &ops[i];
		if (o->kind != OP_LOG) continue;
		size_t pl = o->tlen < LIMIT - 1 ? o->tlen : LIMIT - 1;
		memcpy(payload, o->text, pl); payload[pl] = 0;
		muggle_log_msg_t m;
		memset(&m, 0, sizeof(m));
		m.level = o->a;
		m.ts.tv_sec = (time_t)g_sec; m.ts.tv_nsec = g_nsec;
		m.tid = (muggle_thread_readable_id)g_ltid;
		m.src_loc.file = SRC_FILE; m.src_loc.line = 77; m.src_loc.func = SRC_FUNC;
		m.payload = payload;
		int n = f ? f->fmt_func(&m, big, sizeof(big)) : -1;
		printf("icall %d %d init=", idx++, o->a);
		hexout((unsigned char *)big, n < 0 ? 0 : (size_t)n);
		printf("\n");
	}
}

static void do_log(int level, int srcline, const char *tmpl, const unsigned char *text)
{
	if (g_init_logger) { (void)srcline; (void)tmpl; c16_case(level, text); return; }
	muggle_log_src_loc_t loc = { SRC_FILE, (unsigned)srcline, SRC_FUNC };
	if (strcmp(tmpl, "ds") == 0) logger->log(logger, level, &loc, "%d|%s", srcline, (const char *)text);
	else if (strcmp(tmpl, "lit") == 0) logger->log(logger, level, &loc, (const char *)text);
	else logger->log(logger, level, &loc, "%s", (const char *)text);
}

/* the text vsnprintf would produce without a limit, then the oracle line of every call;
 * printed before the logger exists (does not depend on it) */
static void print_oracles(void)
{
	static unsigned char full[BIG];
	int idx = 0;
	for (int i = 0; i < nops; i++) {
		op_t *o = &ops[i];
		size_t fl;
		if (o->kind != OP_LOG && o->kind != OP_HOLD) continue;
		if (strcmp(o->tmpl, "ds") == 0) fl = (size_t)snprintf((char *)full, sizeof(full), "%d|%s", o->b, (char *)o->text);
		else { fl = o->tlen < sizeof(full) - 1 ? o->tlen : sizeof(full) - 1; memcpy(full, o->text, fl); full[fl] = 0; }
		if (fl >= sizeof(full)) fl = sizeof(full) - 1;
		oracle(idx++, o->a, o->b, full, fl);
	}
	fflush(stdout);
}

/* async logger: the writer thread tests a handler's level when it PROCESSES a message.  To make
 * "the level at the time of the call" well defined for a level change between two calls, the
 * driver first waits until the writer thread has finished every message logged so far (all
 * message blocks released: the allocation count is back to what it was after setup). */
static int g_base_live;
static double mono_now(void)
{
	struct timespec ts;
	clock_gettime(CLOCK_MONOTONIC, &ts);
	return (double)ts.tv_sec + (double)ts.tv_nsec * 1e-9;
}
static void async_fence(void)
{
	if (!is_async) return;
	double t0 = mono_now();
	while (c16_acct_live() != g_base_live && mono_now() - t0 < 20.0) sched_yield();
	if (c16_acct_live() != g_base_live) printf("fence timeout\n");
}

/* hold / release: the writer thread is stopped inside handler 0's write (a capture handler) of
 * the "hold" message; calls made meanwhile stay queued; "release" lets it go on.  This makes
 * "the handler's level at the time the writer thread PROCESSES a message" observable: a level
 * changed while a message is queued applies to that message. */
static volatile int g_gate_armed, g_gate_entered, g_gate_open, g_held;
static void gate_in_cap_write(int idx)
{
	if (idx != 0 || !__atomic_load_n(&g_gate_armed, __ATOMIC_SEQ_CST)) return;
	__atomic_store_n(&g_gate_armed, 0, __ATOMIC_SEQ_CST);
	__atomic_store_n(&g_gate_entered, 1, __ATOMIC_SEQ_CST);
	double t0 = mono_now();
	while (!__atomic_load_n(&g_gate_open, __ATOMIC_SEQ_CST) && mono_now() - t0 < 30.0) sched_yield();
}
static void do_release(void)
{
	if (!g_held) return;
	__atomic_store_n(&g_gate_open, 1, __ATOMIC_SEQ_CST);
	g_held = 0;
	async_fence();
}

static void run_seq(void)
{
	g_base_live = c16_acct_live();
	g_gate_armed = g_gate_entered = g_gate_open = g_held = 0;
	c16_acct_fill(g_fill_on, g_fill);
	for (int i = 0; i < nops; i++) {
		op_t *o = &ops[i];
		if (o->kind == OP_SETLEVEL) {
			if (!g_held) async_fence();
			if (o->a >= 0 && o->a < nh && h_ok[o->a]) muggle_log_handler_set_level(&H[o->a].base, o->b);
		} else if (o->kind == OP_FAIL) {
			c16_acct_fail_at(o->a);
		} else if (o->kind == OP_RELEASE) {
			do_release();
		} else if (o->kind == OP_HOLD && is_async && !g_held) {
			/* only when handler 0 (a capture handler) accepts the message: it then stops inside its write */
			int stops = nh > 0 && h_ok[0] && h_added[0] && strcmp(hs[0].kind, "cap") == 0 &&
				muggle_log_handler_should_write(&H[0].base, o->a);
			if (stops) {
				async_fence();
				g_gate_entered = 0; g_gate_open = 0;
				__atomic_store_n(&g_gate_armed, 1, __ATOMIC_SEQ_CST);
			}
			do_log(o->a, o->b, o->tmpl, o->text);
			if (stops) {
				double t0 = mono_now();
				while (!__atomic_load_n(&g_gate_entered, __ATOMIC_SEQ_CST) && mono_now() - t0 < 20.0) sched_yield();
				if (g_gate_entered) g_held = 1; else { g_gate_armed = 0; printf("hold timeout\n"); }
			}
		} else {
			do_log(o->a, o->b, o->tmpl, o->text);
			c16_acct_fail_at(0);
		}
	}
	do_release();
	c16_acct_fill(0, 0);
	logger->destroy(logger);
	destroyed = 1;
}

/* ---------------- threads (thr and vs) ---------------- */
static const int LEVELS[6] = { 0, 1 << 8, 2 << 8, 3 << 8, 4 << 8, 5 << 8 };
static int remaining;
static pthread_mutex_t rem_mtx = PTHREAD_MUTEX_INITIALIZER;

static void make_payload(int t, int k, char *out)
{
	int len = th_paylen + (k * 7 + t * 3) % 11;
	int n = snprintf(out, 64, "T%02d-%06d-", t, k);
	for (; n < len; n++) out[n] = (char)('a' + (t * 5 + k + n) % 26);
	out[n < len ? len : n] = 0;
}
static int thr_level(int t, int k) { return LEVELS[(t + k) % 6]; }

static void producer_body(int t)
{
	char payload[LIMIT + 64];
	g_ltid = 100 + t;
	for (int k = 0; k < th_msgs; k++) {
		make_payload(t, k, payload);
		g_tls_sec = g_sec + (long long)k * g_tick;
		if (vs_active()) vs_note("call %d %d", k, thr_level(t, k));
		muggle_log_src_loc_t loc = { SRC_FILE, (unsigned)(1000 + t), SRC_FUNC };
		logger->log(logger, thr_level(t, k), &loc, "%s", payload);
	}
}
static void vs_producer(void *arg)
{
	int t = (int)(long)arg;
	producer_body(t);
	vs_note("done");
	/* the last producer to finish shuts the logger down (documented use: no logging
	 * concurrent with destroy); one thread runs at a time, so the counter is race free */
	if (--remaining == 0 && is_async) {
		vs_note("destroy");
		logger->destroy(logger);
		destroyed = 1;
		vs_note("destroyed");
	}
}
static void *thr_producer(void *arg)
{
	producer_body((int)(long)arg);
	return NULL;
}

static void run_thr(void)
{
	pthread_t th[16];
	g_chunk_fwrite = 1;
	for (int t = 0; t < th_n; t++) __real_pthread_create(&th[t], NULL, thr_producer, (void *)(long)t);
	for (int t = 0; t < th_n; t++) __real_pthread_join(th[t], NULL);
	logger->destroy(logger);
	destroyed = 1;
	g_chunk_fwrite = 0;
}

static void finish(int vs_status)
{
	teardown_handlers();
	for (int i = 0; i < g_nclosed; i++) __real_fclose(g_closed[i]);   /* streams kept open under the scheduler */
	g_nclosed = 0;
	c16_acct_end();
	printf("F destroyed=%d live=%d\n", destroyed, c16_acct_live());
	dump_outputs();
	if (vs_status != 0) {
		printf("END\n");
		fflush(stdout);
		_exit(77);
	}
}

static void case_end(void)
{
	destroyed = 0;
	(void)rem_mtx;
	if (nh > MAXH || th_n > 16 || (g_mode == M_VS && th_n + 1 > VS_MAXT)) { printf("F badcase\n"); return; }
	printf("limit %d\n", LIMIT);
	if (g_mode == M_THR) printf("mode thr\n");
	if (lossy) printf("lossy\n");
	if (g_mode == M_VS) {
		vs_reset();
		vs_set_schedule(sched_spec);
		vs_set_budget(6000);
	}
	if (g_mode == M_SEQ) print_oracles();
	if (setup() != 0) { c16_acct_end(); printf("F destroyed=0 live=%d\n", c16_acct_live()); return; }
	if (g_mode == M_SEQ) {
		run_seq();
		finish(0);
	} else if (g_mode == M_THR) {
		run_thr();
		finish(0);
	} else {
		if (is_async) {
			vs_name(&async_logger.channel.write_cursor, "wcur");
			vs_name(&async_logger.channel.read_cursor, "rcur");
			if (async_logger.channel.write_mutex) vs_name(&async_logger.channel.write_mutex->mtx, "wmtx");
			vs_name(&g_join_word, "join");
		}
		for (int i = 0; i < nh; i++) if (h_ok[i]) vs_name(&H[i].base.mtx.mtx, "hmtx%d", i);
		remaining = th_n;
		g_chunk_fwrite = 1;
		for (int t = 0; t < th_n; t++) vs_spawn(vs_producer, (void *)(long)t);
		int st = vs_run();
		g_chunk_fwrite = 0;
		if (st != 0) {
			/* threads are parked for ever: report what was written so far and restart */
			con_end();
			c16_acct_end();
			printf("F destroyed=%d live=%d\n", destroyed, c16_acct_live());
			for (int i = 0; i < nh; i++) {
				if (!h_ok[i]) continue;
				if (strncmp(hs[i].kind, "file", 4) == 0 && H[i].file.fp) fflush(H[i].file.fp);
				if (strncmp(hs[i].kind, "rot", 3) == 0 && H[i].rot.fp) fflush(H[i].rot.fp);
				if (strncmp(hs[i].kind, "trot", 4) == 0 && H[i].trot.fp) fflush(H[i].trot.fp);
			}
			dump_outputs();
			printf("END\n");
			fflush(stdout);
			_exit(77);
		}
		if (!is_async) { logger->destroy(logger); destroyed = 1; }
		finish(0);
	}
}

int main(void) { return vdrv_main(); }
