/* C02 implementation driver: muggle_ring_buffer under the deterministic scheduler
 * (harness/vsched).  Case lines:
 *   rb <flag> <capacity-request> <throttle 0|1> <pre>
 *   w <count0> <count1> ...            one writer thread per count (messages to write)
 *   r <quota0>:<idx0> <quota1>:<idx1>  one reader thread per entry (reads to perform, first 32-bit index)
 *   v <id>:<code> ...                  message id carries the pointer value <code> instead of the address of
 *                                      its own payload object: -2 NULL, -3 (void*)-1, -(10+n) (void*)n for
 *                                      n = 1..255, -(1000+k) &blocks[k], -2000 the ring object itself; codes may repeat
 *   modes                              (alone) print the flag -> mode table of muggle_ring_buffer_get_mode
 *   sched <spec>                       (see vsched.h)
 * <pre> messages (ids 0..pre-1) are written by the main thread before the scheduled threads
 * start, so that the cursor equals idx0 mod capacity when the readers begin.
 * Harness-owned plain state (all accessed only inside plain segments, which the scheduler runs
 * atomically): begun (tickets = message ids), consumed[r], delivered; the throttle lets a
 * writer begin message k only when k + 1 < min_r(next index of reader r) + capacity.
 * Output: the event trace, then summary lines "F ...". */
#include "vdrv.h"
#include "vsched/vsched.h"
#include "muggle/c/sync/ring_buffer.h"
#include <unistd.h>

#define MAXMSG 4096
#define PAYF(id) ((id) * 7 + 3)

typedef struct { int val; int pad; } payload_t;

static char sched[8192];
static int have_rb, modes_only;
static int flag, capreq, throttle, pre;
static int nw, nr, wcnt[VS_MAXT], rquota[VS_MAXT];
static uint32_t ridx0[VS_MAXT];

static muggle_ring_buffer_t rb;
static payload_t pay[MAXMSG];
static volatile int begun, delivered, consumed[VS_MAXT];
static int valcode[MAXMSG];
static int once_mode;

/* the pointer value message id carries (messages are opaque void* for the ring) */
static void *ptr_of(int id)
{
	int c = valcode[id];
	if (c >= 0) return &pay[id];
	if (c == -2) return NULL;
	if (c == -3) return (void *)(~(uintptr_t)0);
	if (c <= -11 && c >= -265) return (void *)(uintptr_t)(-c - 10);
	if (c <= -1000 && c > -2000) return (void *)&rb.blocks[(-c - 1000) % rb.capacity];
	if (c == -2000) return (void *)&rb;
	return NULL;
}
/* canonical code of a pointer value received from the ring: payload object -> its id */
static int code_of(void *d)
{
	if ((char *)d >= (char *)pay && (char *)d < (char *)(pay + MAXMSG) &&
		((char *)d - (char *)pay) % sizeof(payload_t) == 0)
		return (int)((payload_t *)d - pay);
	if (d == NULL) return -2;
	if (d == (void *)(~(uintptr_t)0)) return -3;
	if ((uintptr_t)d >= 1 && (uintptr_t)d <= 255) return -10 - (int)(uintptr_t)d;
	if (d == (void *)&rb) return -2000;
	if ((char *)d >= (char *)rb.blocks && (char *)d < (char *)(rb.blocks + rb.capacity) &&
		((char *)d - (char *)rb.blocks) % sizeof(muggle_ring_buffer_block_t) == 0)
		return -1000 - (int)((muggle_ring_buffer_block_t *)d - rb.blocks);
	return -1;
}

static int can_begin(void)
{
	long lo;
	if (once_mode) lo = delivered;
	else {
		lo = -1;
		for (int i = 0; i < nr; i++) if (lo < 0 || consumed[i] < lo) lo = consumed[i];
		if (lo < 0) lo = 0;
		lo += pre;
	}
	return (long)begun + 1 < lo + (long)rb.capacity;
}

static void writer_thread(void *arg)
{
	int w = (int)(long)arg;
	for (int j = 0; j < wcnt[w]; j++) {
		while (throttle && !can_begin()) vs_yield_point("thr");
		int id = begun++;
		if (valcode[id] >= 0) pay[id].val = PAYF(id);
		vs_note("put %d", id);
		muggle_ring_buffer_write(&rb, ptr_of(id));
	}
}

static void reader_thread(void *arg)
{
	int r = (int)(long)arg;
	uint32_t pos = ridx0[r];
	for (int k = 0; k < rquota[r]; k++) {
		void *d = muggle_ring_buffer_read(&rb, pos++);
		int code = code_of(d);
		vs_note("got %d", code);
		vs_note("pay %d", code >= 0 ? pay[code].val : -1);
		consumed[r]++;
		delivered++;
	}
}

static void case_begin(void)
{
	have_rb = modes_only = 0; nw = nr = 0;
	for (int i = 0; i < MAXMSG; i++) valcode[i] = i;
	strcpy(sched, "rand 1 50 0 0");
}

static void case_line(char *line)
{
	char op[32];
	if (sscanf(line, "%31s", op) != 1) return;
	if (strcmp(op, "sched") == 0) { snprintf(sched, sizeof(sched), "%s", line + 6); return; }
	if (strcmp(op, "modes") == 0) { modes_only = 1; return; }
	if (strcmp(op, "rb") == 0) {
		if (sscanf(line, "%*s %d %d %d %d", &flag, &capreq, &throttle, &pre) == 4) have_rb = 1;
		return;
	}
	if (strcmp(op, "w") == 0) {
		char *p = line + 1; int used;
		nw = 0;
		while (nw < VS_MAXT && sscanf(p, "%d%n", &wcnt[nw], &used) == 1) { p += used; nw++; }
		return;
	}
	if (strcmp(op, "v") == 0) {
		char *p = line + 1; int used, id, code;
		while (sscanf(p, "%d:%d%n", &id, &code, &used) == 2) {
			if (id >= 0 && id < MAXMSG && code < 0) valcode[id] = code;
			p += used;
		}
		return;
	}
	if (strcmp(op, "r") == 0) {
		char *p = line + 1; int used; unsigned long long ix;
		nr = 0;
		while (nr < VS_MAXT && sscanf(p, "%d:%llu%n", &rquota[nr], &ix, &used) == 2) {
			ridx0[nr] = (uint32_t)ix; p += used; nr++;
		}
		return;
	}
}

static void case_end(void)
{
	if (modes_only) {
		/* flag -> (write_mode, read_mode) as decided by the code (init return value first) */
		for (int f = 0; f < 32; f++) {
			muggle_ring_buffer_t t;
			int rc = muggle_ring_buffer_init(&t, 2, f);
			if (rc == 0) {
				printf("F mode %d 0 %d %d\n", f, t.write_mode, t.read_mode);
				muggle_ring_buffer_destroy(&t);
			} else printf("F mode %d %d -1 -1\n", f, rc);
		}
		return;
	}
	if (!have_rb || nw + nr <= 0 || nw + nr > VS_MAXT) { printf("F badcase\n"); return; }
	long total = pre;
	for (int i = 0; i < nw; i++) total += wcnt[i];
	if (total > MAXMSG || pre < 0) { printf("F badcase\n"); return; }
	int rc = muggle_ring_buffer_init(&rb, (muggle_sync_t)capreq, flag);
	printf("F init=%d\n", rc);
	if (rc != 0) return;
	printf("F cap=%d wmode=%d rmode=%d\n", (int)rb.capacity, rb.write_mode, rb.read_mode);
	once_mode = rb.read_mode == 3;
	begun = delivered = 0;
	memset((void *)consumed, 0, sizeof(consumed));
	memset(pay, 0, sizeof(pay));
	vs_reset();
	vs_set_schedule(sched);
	/* pre-written messages: outside the scheduler the hooks are transparent */
	for (int i = 0; i < pre; i++) {
		int id = begun++;
		if (valcode[id] >= 0) pay[id].val = PAYF(id);
		muggle_ring_buffer_write(&rb, ptr_of(id));
	}
	vs_name(&rb.cursor, "cursor");
	vs_name(&rb.write_spin, "wlock");
	vs_name(&rb.read_mutex.mtx, "rmtx");
	for (int i = 0; i < nw; i++) vs_spawn(writer_thread, (void *)(long)i);
	for (int i = 0; i < nr; i++) vs_spawn(reader_thread, (void *)(long)i);
	int st = vs_run();
	printf("F cursor=%u rcursor=%u begun=%d delivered=%d\n", (unsigned)rb.cursor, (unsigned)rb.read_cursor,
		begun, delivered);
	if (st != 0) {
		/* threads are parked for ever: finish the case and ask the runner to restart us */
		printf("END\n");
		fflush(stdout);
		_exit(77);
	}
	muggle_ring_buffer_destroy(&rb);
}

int main(void) { return vdrv_main(); }
