/* C02 implementation driver: muggle_ring_buffer under the deterministic scheduler
 * (harness/vsched).  Case lines:
 *   rb <flag> <capacity-request> <throttle 0|1> <pre>
 *   w <count0> <count1> ...            one writer thread per count (messages to write)
 *   r <quota0>:<idx0> <quota1>:<idx1>  one reader thread per entry (reads to perform, first 32-bit index)
 *   v <id>:<code> ...                  message id carries the pointer value <code> instead of the address of
 *                                      its own payload object: -2 NULL, -3 (void*)-1, -(10+n) (void*)n for
 *                                      n = 1..255, -(1000+k) &blocks[k], -2000 the ring object itself; codes may repeat
 *   modes                              (alone) print the flag -> mode table of muggle_ring_buffer_get_mode
 *   sched <spec>                       (see vsched.h)
 *   clock <tick_ns> <jump_ns>          virtual clock on (vsched.h vs_clock_enable): time() / clock_gettime() /
 *                                      gettimeofday() / nanosleep() of the scheduled threads use virtual time that
 *                                      advances tick_ns per scheduling step and jump_ns whenever all runnable
 *                                      threads spin
 *   q <writer>:<k>:<ms> ...            writer thread <writer> stays quiet for <ms> virtual milliseconds before its
 *                                      k-th message (vs_hold_self: suspended at its next scheduling point; no
 *                                      event is logged, for the model it is just a schedule); needs `clock`
 *   budget <steps>                     scheduler step budget for this case (default 20000)
 *   types                              (alone) print sizeof / signedness of the struct fields and the exact prototypes the
 *                                      model relies on (capacity, cursor, read_cursor; read / write / init signatures)
 *   caps <n> <n> ...                   (alone) run muggle_ring_buffer_init for each requested capacity and print the
 *                                      rounded capacity the code computes (or its refusal; "alloc-failed" when malloc
 *                                      could not provide the blocks)
 * <pre> messages (ids 0..pre-1) are written by the main thread before the scheduled threads
 * start.  A reader may start at ANY index: idx0 names the ring position idx0 mod capacity, which holds
 * the message with logical position rstart = pre - ((pre - idx0) mod capacity) (the cursor position itself
 * when idx0 = pre mod capacity; an older, still valid message for a reader that joins late); a case in
 * which that position has never been written (rstart < 0) is refused (F badcase).  A reader may stop
 * before the writers are done (quota smaller than the number of messages).
 * Harness-owned plain state (all accessed only inside plain segments, which the scheduler runs
 * atomically): begun (tickets = message ids), consumed[r], delivered; the throttle lets a
 * writer begin message k only when k + 1 < min over the readers r that still have reads to do of
 * (rstart[r] + consumed[r]) + capacity (no constraint when every reader has finished).
 * Output: the event trace, then summary lines "F ...". */
#include "vdrv.h"
#include "vsched/vsched.h"
#include "muggle/c/sync/ring_buffer.h"
#include "muggle/c/base/err.h"
#include <unistd.h>
#include <stddef.h>

#define MAXMSG 4096
#define PAYF(id) ((id) * 7 + 3)

typedef struct { int val; int pad; } payload_t;

static char sched[8192];
static int have_rb, modes_only, types_only, caps_only;
static char caps_line[VDRV_MAXLINE > 65536 ? 65536 : VDRV_MAXLINE];
static int flag, capreq, throttle, pre;
static int nw, nr, wcnt[VS_MAXT], rquota[VS_MAXT];
static uint32_t ridx0[VS_MAXT];

static muggle_ring_buffer_t rb;
static payload_t pay[MAXMSG];
static volatile int begun, delivered, consumed[VS_MAXT];
static int valcode[MAXMSG];
static int once_mode;
static long rstart[VS_MAXT];
static int clk_on; static long long clk_tick, clk_jump;
static long budget_steps;
#define MAXQ 32
static int nq, q_w[MAXQ], q_k[MAXQ]; static long long q_ms[MAXQ];

/* the pointer value message id carries (messages are opaque void* for the ring) */
static void *ptr_of(int id)
{
	int c = valcode[id];
	if (c >= 0) return &pay[id];
	if (c == -2) return NULL;
	if (c == -3) return (void *)(~(uintptr_t)0);
	if (c <= -11 && c >= -265) return (void *)(uintptr_t)(-c - 10);
	if (c <= -1000 && c > -2000) return (void *)&rb.blocks[(-c - 1000) % rb.capacity];
	if (c == -2000) return (void *)&rb;
	return NULL;
}
/* canonical code of a pointer value received from the ring: payload object -> its id */
static int code_of(void *d)
{
	if ((char *)d >= (char *)pay && (char *)d < (char *)(pay + MAXMSG) &&
		((char *)d - (char *)pay) % sizeof(payload_t) == 0)
		return (int)((payload_t *)d - pay);
	if (d == NULL) return -2;
	if (d == (void *)(~(uintptr_t)0)) return -3;
	if ((uintptr_t)d >= 1 && (uintptr_t)d <= 255) return -10 - (int)(uintptr_t)d;
	if (d == (void *)&rb) return -2000;
	if ((char *)d >= (char *)rb.blocks && (char *)d < (char *)(rb.blocks + rb.capacity) &&
		((char *)d - (char *)rb.blocks) % sizeof(muggle_ring_buffer_block_t) == 0)
		return -1000 - (int)((muggle_ring_buffer_block_t *)d - rb.blocks);
	return -1;
}

static int can_begin(void)
{
	long lo;
	if (once_mode) lo = delivered;
	else {
		lo = -1;
		for (int i = 0; i < nr; i++)
			if (consumed[i] < rquota[i]) {
				long nx = rstart[i] + consumed[i];
				if (lo < 0 || nx < lo) lo = nx;
			}
		if (lo < 0) return 1;
	}
	return (long)begun + 1 < lo + (long)rb.capacity;
}

static void writer_thread(void *arg)
{
	int w = (int)(long)arg;
	for (int j = 0; j < wcnt[w]; j++) {
		for (int i = 0; i < nq; i++) if (q_w[i] == w && q_k[i] == j) vs_hold_self(q_ms[i] * 1000000LL);
		while (throttle && !can_begin()) vs_yield_point("thr");
		int id = begun++;
		if (valcode[id] >= 0) pay[id].val = PAYF(id);
		vs_note("put %d", id);
		muggle_ring_buffer_write(&rb, ptr_of(id));
	}
}

static void reader_thread(void *arg)
{
	int r = (int)(long)arg;
	uint32_t pos = ridx0[r];
	for (int k = 0; k < rquota[r]; k++) {
		void *d = muggle_ring_buffer_read(&rb, pos++);
		int code = code_of(d);
		vs_note("got %d", code);
		vs_note("pay %d", code >= 0 ? pay[code].val : -1);
		consumed[r]++;
		delivered++;
	}
}

static void case_begin(void)
{
	have_rb = modes_only = types_only = caps_only = 0; nw = nr = 0;
	for (int i = 0; i < MAXMSG; i++) valcode[i] = i;
	strcpy(sched, "rand 1 50 0 0");
	clk_on = 0; clk_tick = clk_jump = 0; budget_steps = 20000; nq = 0;
}

static void case_line(char *line)
{
	char op[32];
	if (sscanf(line, "%31s", op) != 1) return;
	if (strcmp(op, "sched") == 0) { snprintf(sched, sizeof(sched), "%s", line + 6); return; }
	if (strcmp(op, "modes") == 0) { modes_only = 1; return; }
	if (strcmp(op, "types") == 0) { types_only = 1; return; }
	if (strcmp(op, "caps") == 0) { caps_only = 1; snprintf(caps_line, sizeof(caps_line), "%s", line + 4); return; }
	if (strcmp(op, "clock") == 0) {
		if (sscanf(line, "%*s %lld %lld", &clk_tick, &clk_jump) == 2) clk_on = 1;
		return;
	}
	if (strcmp(op, "budget") == 0) { long b; if (sscanf(line, "%*s %ld", &b) == 1 && b > 0) budget_steps = b; return; }
	if (strcmp(op, "q") == 0) {
		char *p = line + 1; int used, w, k; long long ms;
		while (nq < MAXQ && sscanf(p, "%d:%d:%lld%n", &w, &k, &ms, &used) == 3) {
			q_w[nq] = w; q_k[nq] = k; q_ms[nq] = ms; nq++; p += used;
		}
		return;
	}
	if (strcmp(op, "rb") == 0) {
		if (sscanf(line, "%*s %d %d %d %d", &flag, &capreq, &throttle, &pre) == 4) have_rb = 1;
		return;
	}
	if (strcmp(op, "w") == 0) {
		char *p = line + 1; int used;
		nw = 0;
		while (nw < VS_MAXT && sscanf(p, "%d%n", &wcnt[nw], &used) == 1) { p += used; nw++; }
		return;
	}
	if (strcmp(op, "v") == 0) {
		char *p = line + 1; int used, id, code;
		while (sscanf(p, "%d:%d%n", &id, &code, &used) == 2) {
			if (id >= 0 && id < MAXMSG && code < 0) valcode[id] = code;
			p += used;
		}
		return;
	}
	if (strcmp(op, "r") == 0) {
		char *p = line + 1; int used; unsigned long long ix;
		nr = 0;
		while (nr < VS_MAXT && sscanf(p, "%d:%llu%n", &rquota[nr], &ix, &used) == 2) {
			ridx0[nr] = (uint32_t)ix; p += used; nr++;
		}
		return;
	}
}

static void case_end(void)
{
	if (modes_only) {
		/* flag -> (write_mode, read_mode) as decided by the code (init return value first) */
		for (int f = 0; f < 32; f++) {
			muggle_ring_buffer_t t;
			int rc = muggle_ring_buffer_init(&t, 2, f);
			if (rc == 0) {
				printf("F mode %d 0 %d %d\n", f, t.write_mode, t.read_mode);
				muggle_ring_buffer_destroy(&t);
			} else printf("F mode %d %d -1 -1\n", f, rc);
		}
		return;
	}
	if (types_only) {
		/* (sizeof, is-signed) of the fields the model treats as 32-bit machine integers, and whether the public
		 * functions have exactly the prototypes the model transcribes (index: uint32_t) */
#define FIELD(name) printf("F field " #name " %d %d\n", (int)sizeof(rb.name), ((__typeof__(rb.name))-1) < 0 ? 1 : 0)
		FIELD(capacity); FIELD(cursor); FIELD(read_cursor); FIELD(flag); FIELD(write_mode); FIELD(read_mode);
#undef FIELD
		printf("F sig read %d\n", _Generic(&muggle_ring_buffer_read,
			void *(*)(muggle_ring_buffer_t *, uint32_t): 1, default: 0));
		printf("F sig write %d\n", _Generic(&muggle_ring_buffer_write,
			int (*)(muggle_ring_buffer_t *, void *): 1, default: 0));
		printf("F sig init %d\n", _Generic(&muggle_ring_buffer_init,
			int (*)(muggle_ring_buffer_t *, uint32_t, int): 1, default: 0));
		printf("F block %d %d %d\n", (int)sizeof(muggle_ring_buffer_block_t),
			(int)offsetof(muggle_ring_buffer_block_t, data), (int)sizeof(((muggle_ring_buffer_block_t *)0)->data));
		return;
	}
	if (caps_only) {
		char *p = caps_line; int used; unsigned long long n;
		while (sscanf(p, "%llu%n", &n, &used) == 1) {
			muggle_ring_buffer_t t;
			int rc = muggle_ring_buffer_init(&t, (muggle_sync_t)n, 0);
			if (rc == 0) {
				printf("F cap %llu 0 %lld\n", n, (long long)t.capacity);
				muggle_ring_buffer_destroy(&t);
			} else if (rc == MUGGLE_ERR_MEM_ALLOC) printf("F cap %llu alloc-failed\n", n);
			else printf("F cap %llu %d -1\n", n, rc);
			p += used;
		}
		return;
	}
	if (!have_rb || nw + nr <= 0 || nw + nr > VS_MAXT) { printf("F badcase\n"); return; }
	long total = pre;
	for (int i = 0; i < nw; i++) total += wcnt[i];
	if (total > MAXMSG || pre < 0) { printf("F badcase\n"); return; }
	int rc = muggle_ring_buffer_init(&rb, (muggle_sync_t)capreq, flag);
	printf("F init=%d\n", rc);
	if (rc != 0) return;
	printf("F cap=%d wmode=%d rmode=%d\n", (int)rb.capacity, rb.write_mode, rb.read_mode);
	once_mode = rb.read_mode == 3;
	for (int i = 0; i < nr; i++) {
		/* logical position of the message the reader's first index names (read-once ignores the index) */
		rstart[i] = (long)pre - (long)(((uint32_t)pre - ridx0[i]) & (uint32_t)(rb.capacity - 1));
		if (!once_mode && rstart[i] < 0) { printf("F badcase\n"); muggle_ring_buffer_destroy(&rb); return; }
	}
	begun = delivered = 0;
	memset((void *)consumed, 0, sizeof(consumed));
	memset(pay, 0, sizeof(pay));
	vs_reset();
	vs_set_schedule(sched);
	vs_set_budget(budget_steps);
	if (clk_on) vs_clock_enable(1700000000LL * 1000000000LL, clk_tick, clk_jump);
	/* pre-written messages: outside the scheduler the hooks are transparent */
	for (int i = 0; i < pre; i++) {
		int id = begun++;
		if (valcode[id] >= 0) pay[id].val = PAYF(id);
		muggle_ring_buffer_write(&rb, ptr_of(id));
	}
	vs_name(&rb.cursor, "cursor");
	vs_name(&rb.write_spin, "wlock");
	vs_name(&rb.read_mutex.mtx, "rmtx");
	for (int i = 0; i < nw; i++) vs_spawn(writer_thread, (void *)(long)i);
	for (int i = 0; i < nr; i++) vs_spawn(reader_thread, (void *)(long)i);
	int st = vs_run();
	printf("F cursor=%u rcursor=%u begun=%d delivered=%d\n", (unsigned)rb.cursor, (unsigned)rb.read_cursor,
		begun, delivered);
	if (st != 0) {
		/* threads are parked for ever: finish the case and ask the runner to restart us */
		printf("END\n");
		fflush(stdout);
		_exit(77);
	}
	muggle_ring_buffer_destroy(&rb);
}

int main(void) { return vdrv_main(); }
