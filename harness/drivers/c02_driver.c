/* C02 implementation driver: muggle_ring_buffer under the deterministic scheduler
 * (harness/vsched).  Case lines:
 *   rb <flag> <capacity-request> <throttle 0|1> <pre>
 *   w <count0> <count1> ...            one writer thread per count (messages to write)
 *   r <quota0>:<idx0> <quota1>:<idx1>  one reader thread per entry (reads to perform, first 32-bit index)
 *   modes                              (alone) print the flag -> mode table of muggle_ring_buffer_get_mode
 *   sched <spec>                       (see vsched.h)
 * <pre> messages (ids 0..pre-1) are written by the main thread before the scheduled threads
 * start, so that the cursor equals idx0 mod capacity when the readers begin.
 * Harness-owned plain state (all accessed only inside plain segments, which the scheduler runs
 * atomically): begun (tickets = message ids), consumed[r], delivered; the throttle lets a
 * writer begin message k only when k + 1 < min_r(next index of reader r) + capacity.
 * Output: the event trace, then summary lines "F ...". */
#include "vdrv.h"
#include "vsched/vsched.h"
#include "muggle/c/sync/ring_buffer.h"
#include <unistd.h>

#define MAXMSG 4096
#define PAYF(id) ((id) * 7 + 3)

typedef struct { int val; int pad; } payload_t;

static char sched[8192];
static int have_rb, modes_only;
static int flag, capreq, throttle, pre;
static int nw, nr, wcnt[VS_MAXT], rquota[VS_MAXT];
static uint32_t ridx0[VS_MAXT];

static muggle_ring_buffer_t rb;
static payload_t pay[MAXMSG];
static volatile int begun, delivered, consumed[VS_MAXT];
static int once_mode;

static int can_begin(void)
{
	long lo;
	if (once_mode) lo = delivered;
	else {
		lo = -1;
		for (int i = 0; i < nr; i++) if (lo < 0 || consumed[i] < lo) lo = consumed[i];
		if (lo < 0) lo = 0;
		lo += pre;
	}
	return (long)begun + 1 < lo + (long)rb.capacity;
}

static void writer_thread(void *arg)
{
	int w = (int)(long)arg;
	for (int j = 0; j < wcnt[w]; j++) {
		while (throttle && !can_begin()) vs_yield_point("thr");
		int id = begun++;
		pay[id].val = PAYF(id);
		vs_note("put %d", id);
		muggle_ring_buffer_write(&rb, &pay[id]);
	}
}

static void reader_thread(void *arg)
{
	int r = (int)(long)arg;
	uint32_t pos = ridx0[r];
	for (int k = 0; k < rquota[r]; k++) {
		void *d = muggle_ring_buffer_read(&rb, pos++);
		int id = -1;
		if ((char *)d >= (char *)pay && (char *)d < (char *)(pay + MAXMSG) &&
			((char *)d - (char *)pay) % sizeof(payload_t) == 0)
			id = (int)((payload_t *)d - pay);
		vs_note("got %d", id);
		vs_note("pay %d", id >= 0 ? pay[id].val : -1);
		consumed[r]++;
		delivered++;
	}
}

static void case_begin(void)
{
	have_rb = modes_only = 0; nw = nr = 0;
	strcpy(sched, "rand 1 50 0 0");
}

static void case_line(char *line)
{
	char op[32];
	if (sscanf(line, "%31s", op) != 1) return;
	if (strcmp(op, "sched") == 0) { snprintf(sched, sizeof(sched), "%s", line + 6); return; }
	if (strcmp(op, "modes") == 0) { modes_only = 1; return; }
	if (strcmp(op, "rb") == 0) {
		if (sscanf(line, "%*s %d %d %d %d", &flag, &capreq, &throttle, &pre) == 4) have_rb = 1;
		return;
	}
	if (strcmp(op, "w") == 0) {
		char *p = line + 1; int used;
		nw = 0;
		while (nw < VS_MAXT && sscanf(p, "%d%n", &wcnt[nw], &used) == 1) { p += used; nw++; }
		return;
	}
	if (strcmp(op, "r") == 0) {
		char *p = line + 1; int used; unsigned long long ix;
		nr = 0;
		while (nr < VS_MAXT && sscanf(p, "%d:%llu%n", &rquota[nr], &ix, &used) == 2) {
			ridx0[nr] = (uint32_t)ix; p += used; nr++;
		}
		return;
	}
}

static void case_end(void)
{
	if (modes_only) {
		/* flag -> (write_mode, read_mode) as decided by the code (init return value first) */
		for (int f = 0; f < 32; f++) {
			muggle_ring_buffer_t t;
			int rc = muggle_ring_buffer_init(&t, 2, f);
			if (rc == 0) {
				printf("F mode %d 0 %d %d\n", f, t.write_mode, t.read_mode);
				muggle_ring_buffer_destroy(&t);
			} else printf("F mode %d %d -1 -1\n", f, rc);
		}
		return;
	}
	if (!have_rb || nw + nr <= 0 || nw + nr > VS_MAXT) { printf("F badcase\n"); return; }
	long total = pre;
	for (int i = 0; i < nw; i++) total += wcnt[i];
	if (total > MAXMSG || pre < 0) { printf("F badcase\n"); return; }
	int rc = muggle_ring_buffer_init(&rb, (muggle_sync_t)capreq, flag);
	printf("F init=%d\n", rc);
	if (rc != 0) return;
	printf("F cap=%d wmode=%d rmode=%d\n", (int)rb.capacity, rb.write_mode, rb.read_mode);
	once_mode = rb.read_mode == 3;
	begun = delivered = 0;
	memset((void *)consumed, 0, sizeof(consumed));
	memset(pay, 0, sizeof(pay));
	vs_reset();
	vs_set_schedule(sched);
	/* pre-written messages: outside the scheduler the hooks are transparent */
	for (int i = 0; i < pre; i++) {
		int id = begun++;
		pay[id].val = PAYF(id);
		muggle_ring_buffer_write(&rb, &pay[id]);
	}
	vs_name(&rb.cursor, "cursor");
	vs_name(&rb.write_spin, "wlock");
	vs_name(&rb.read_mutex.mtx, "rmtx");
	for (int i = 0; i < nw; i++) vs_spawn(writer_thread, (void *)(long)i);
	for (int i = 0; i < nr; i++) vs_spawn(reader_thread, (void *)(long)i);
	int st = vs_run();
	printf("F cursor=%u rcursor=%u begun=%d delivered=%d\n", (unsigned)rb.cursor, (unsigned)rb.read_cursor,
		begun, delivered);
	if (st != 0) {
		/* threads are parked for ever: finish the case and ask the runner to restart us */
		printf("END\n");
		fflush(stdout);
		_exit(77);
	}
	muggle_ring_buffer_destroy(&rb);
}

int main(void) { return vdrv_main(); }
