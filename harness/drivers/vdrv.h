/* batch protocol shared by all implementation drivers:
 *   CASE <name> / op lines / END     ->   CASE <name> / result lines / END
 * the driver defines: void case_begin(void); void case_line(char *line); void case_end(void); */
#ifndef VDRV_H_
#define VDRV_H_
#include <stdio.h>
#include <stdlib.h>
#include <string.h>
#include <stdint.h>
#include <inttypes.h>

static void case_begin(void);
static void case_line(char *line);
static void case_end(void);

#define VDRV_MAXLINE (1 << 20)

static int vdrv_main(void)
{
	char *line = (char *)malloc(VDRV_MAXLINE);
	int inside = 0;
	setvbuf(stdout, NULL, _IOFBF, 1 << 16);
	while (fgets(line, VDRV_MAXLINE, stdin)) {
		size_t n = strlen(line);
		while (n > 0 && (line[n - 1] == '\n' || line[n - 1] == '\r')) line[--n] = 0;
		if (strncmp(line, "CASE ", 5) == 0) {
			inside = 1;
			printf("%s\n", line);
			fflush(stdout);
			case_begin();
		} else if (strcmp(line, "END") == 0) {
			if (inside) {
				case_end();
				printf("END\n");
				fflush(stdout);
				inside = 0;
			}
		} else if (inside) {
			case_line(line);
		}
	}
	free(line);
	return 0;
}
#endif
