/* C08 parameter extraction: constants and the footprint macro as the headers define them.
 * Compiled against $VERIF_REPO on every run by lib/props/c08.py (gen_params). */
#include <stdio.h>
#include <stddef.h>
#include "muggle/c/base/utils.h" /* MUGGLE_ROUND_UP_POW_OF_2_MUL: shm_ring_buffer.h uses it without including it */
#include "muggle/c/sync/shm_ring_buffer.h"
int main(void)
{
	printf("cache_line %d\n", (int)MUGGLE_CACHE_LINE_SIZE);
	printf("hdr_size %d\n", (int)sizeof(muggle_shm_ringbuf_data_hdr_t));
	printf("off_nbytes %d\n", (int)offsetof(muggle_shm_ringbuf_data_hdr_t, n_bytes));
	printf("off_ncl %d\n", (int)offsetof(muggle_shm_ringbuf_data_hdr_t, n_cachelines));
	printf("ring_hdr_size %d\n", (int)sizeof(muggle_shm_ringbuf_t));
	printf("flag_creat %d\n", (int)MUGGLE_SHM_FLAG_CREAT);
	printf("flag_open %d\n", (int)MUGGLE_SHM_FLAG_OPEN);
	printf("cal");
	for (unsigned k = 0; k <= 4224; k++) printf(" %u", (unsigned)MUGGLE_SHM_RINGBUF_CAL_BYTES_CACHELINE(k));
	printf("\n");
	return 0;
}
