/* C20 implementation driver: pure utilities (utils.c, str.c, path.c, hex.c,
 * endian.h) called on EXACT-SIZE heap buffers so that ASan reports a one-byte
 * overflow or an str[-1] read; output buffers are pre-filled with the guard
 * byte 0xAA so that a NUL found inside was written by the callee.
 * muggle_os_curdir is supplied here (the scenario's cwd), as C19 supplies the clock.
 *
 * Strings travel hex-encoded ("-" = empty, "~" = a NULL pointer, accepted by the str.c functions only).
 * One op per line:
 *   npo2 V | swap16 V | swap32 V | swap64 V
 *   swapw V   (V < 2^16)  MUGGLE_ENDIAN_SWAP_16 evaluated WITHOUT a 16-bit store: operand uint16_t/uint64_t/
 *             int/uint32_t consumed as a wider integer, and the nested round trip -> "r16 r64 rint r32 rt rt64"
 *   swapw32 V (V < 2^32)  MUGGLE_ENDIAN_SWAP_32 on a uint64_t operand and its nested round trip -> "r rt"
 *   swapt N T V  (N = 16|32|64, T = i8|u8|i16|u16|i32|u32|i64|u64, V a 64-bit pattern): the operand is an object
 *             of type T holding (T)V; MUGGLE_ENDIAN_SWAP_N(operand) consumed as uint64_t, as int64_t, stored in a
 *             uintN_t, and the nested round trip consumed as uint64_t -> "u s w rt"
 *   toi|tou|tol|toul|toll|toull BASE S     -> "ok V"/"fail" + "libc V END ERANGE"
 *   tof|tod|told S CONSUMED ISINF ERANGE [ISZERO]  -> "ok"/"fail" + "libcf CONSUMED ISINF ERANGE [ISZERO] SAMEVALUE"
 *             (the ISZERO column is printed when the op line carries it)
 *   a parser op with a trailing token "P0" passes pval = NULL
 *   lstrip S | rstrip S | startswith S P | endswith S P | find S SUB A B | count S SUB A B
 *   hexbyte C | hex2b S | b2hex S | isabs P
 *   basename|dirname|normpath SIZE P | join SIZE P1 P2 | abspath SIZE CWD P
 */
#include "vdrv.h"
#include <errno.h>
#include <signal.h>
#include <unistd.h>
#include <sys/time.h>
#include <limits.h>
#include <math.h>
#include "muggle/c/base/utils.h"
#include "muggle/c/base/str.h"
#include "muggle/c/base/err.h"
#include "muggle/c/os/path.h"
#include "muggle/c/os/endian.h"
#include "muggle/c/encoding/hex.h"

static char g_cwd[4096];
int muggle_os_curdir(char *path, unsigned int size)
{
	size_t n = strlen(g_cwd);
	if (n + 1 > size) return MUGGLE_ERR_SYS_CALL;
	memcpy(path, g_cwd, n + 1);
	return MUGGLE_OK;
}

static int hexv(int c)
{
	if (c >= '0' && c <= '9') return c - '0';
	if (c >= 'a' && c <= 'f') return c - 'a' + 10;
	if (c >= 'A' && c <= 'F') return c - 'A' + 10;
	return -1;
}

/* decode a hex token into an exact-size heap block of n bytes + (nul ? 1 : 0) */
static char *dec(const char *tok, size_t *plen, int nul)
{
	size_t n = 0;
	if (strcmp(tok, "~") == 0) { if (plen) *plen = 0; return NULL; }
	if (strcmp(tok, "-") != 0) n = strlen(tok) / 2;
	char *p = (char *)malloc(n + (nul ? 1 : 0));
	for (size_t i = 0; i < n; i++) p[i] = (char)(hexv(tok[2 * i]) * 16 + hexv(tok[2 * i + 1]));
	if (nul) p[n] = 0;
	if (plen) *plen = n;
	return p;
}

static void put_hex(const unsigned char *p, size_t n)
{
	if (n == 0) { printf("-"); return; }
	for (size_t i = 0; i < n; i++) printf("%02x", p[i]);
}

#define MAXTOK 8
static char *tok[MAXTOK];
static int ntok;

static void split(char *line)
{
	ntok = 0;
	char *s = strtok(line, " ");
	while (s && ntok < MAXTOK) { tok[ntok++] = s; s = strtok(NULL, " "); }
}

static void report_path(int rc, unsigned char *buf, unsigned int size)
{
	if (rc != 0) { printf("rc=%d\n", rc); return; }
	unsigned char *z = size ? (unsigned char *)memchr(buf, 0, size) : NULL;
	size_t n = z ? (size_t)(z - buf) : size;
	printf("rc=0 nul=%d str=", z ? 1 : 0);
	put_hex(buf, n);
	printf("\n");
}

/* watchdog: a call that does not return within 2 s (e.g. a loop that never advances) ends the
 * process at once, so the check sees a crashed case instead of waiting for the batch timeout */
static void on_alarm(int sig)
{
	(void)sig;
	static const char msg[] = "runtime error: HANG watchdog: the call did not return within 2 s\n";
	if (write(2, msg, sizeof(msg) - 1) < 0) {}
	_exit(97);
}
static void arm(int sec)
{
	struct itimerval it;
	memset(&it, 0, sizeof(it));
	it.it_value.tv_sec = sec;
	signal(SIGALRM, on_alarm);
	setitimer(ITIMER_REAL, &it, NULL);
}
static void case_begin(void) {}
static void case_end(void) { arm(0); }

static void case_line(char *line)
{
	split(line);
	if (ntok == 0) return;
	arm(2);
	const char *op = tok[0];
	if (strcmp(op, "npo2") == 0 && ntok >= 2) {
		printf("%" PRIu64 "\n", muggle_next_pow_of_2(strtoull(tok[1], NULL, 10)));
	} else if (strcmp(op, "swap16") == 0 && ntok >= 2) {
		uint16_t v = (uint16_t)strtoull(tok[1], NULL, 10);
		uint16_t r = MUGGLE_ENDIAN_SWAP_16(v);
		printf("%u\n", (unsigned)r);
	} else if (strcmp(op, "swapw") == 0 && ntok >= 2) {
		uint64_t v64 = (uint64_t)strtoull(tok[1], NULL, 10) & 0xFFFF;
		uint16_t v16 = (uint16_t)v64;
		uint32_t v32 = (uint32_t)v64;
		int vi = (int)v64;
		/* no intermediate 16-bit object anywhere below */
		uint32_t a = MUGGLE_ENDIAN_SWAP_16(v16);
		uint64_t b = MUGGLE_ENDIAN_SWAP_16(v64);
		long long c = MUGGLE_ENDIAN_SWAP_16(vi);
		uint32_t d = MUGGLE_ENDIAN_SWAP_16(v32);
		uint32_t rt = MUGGLE_ENDIAN_SWAP_16(MUGGLE_ENDIAN_SWAP_16(v16));
		uint64_t rt64 = MUGGLE_ENDIAN_SWAP_16(MUGGLE_ENDIAN_SWAP_16(v64));
		printf("%" PRIu32 " %" PRIu64 " %lld %" PRIu32 " %" PRIu32 " %" PRIu64 "\n", a, b, c, d, rt, rt64);
	} else if (strcmp(op, "swapw32") == 0 && ntok >= 2) {
		uint64_t v64 = (uint64_t)strtoull(tok[1], NULL, 10) & 0xFFFFFFFFull;
		uint64_t r = MUGGLE_ENDIAN_SWAP_32(v64);
		uint64_t rt = MUGGLE_ENDIAN_SWAP_32(MUGGLE_ENDIAN_SWAP_32(v64));
		printf("%" PRIu64 " %" PRIu64 "\n", r, rt);
	} else if (strcmp(op, "swapt") == 0 && ntok >= 4) {
		int n = atoi(tok[1]);
		const char *ty = tok[2];
		uint64_t v64 = (uint64_t)strtoull(tok[3], NULL, 10);
		uint64_t u = 0, w = 0, rt = 0; int64_t s = 0; int done = 0;
		/* the operand is an lvalue of type T; nothing is cast or stored narrower before the macro sees it */
#define SWAPT_ONE(N, NAME, T) \
		if (!done && n == N && strcmp(ty, NAME) == 0) { \
			T x = (T)v64; \
			u = MUGGLE_ENDIAN_SWAP_##N(x); \
			s = MUGGLE_ENDIAN_SWAP_##N(x); \
			uint##N##_t st = MUGGLE_ENDIAN_SWAP_##N(x); w = st; \
			rt = MUGGLE_ENDIAN_SWAP_##N(MUGGLE_ENDIAN_SWAP_##N(x)); \
			done = 1; \
		}
#define SWAPT_ALL(N) \
		SWAPT_ONE(N, "i8", int8_t) SWAPT_ONE(N, "u8", uint8_t) SWAPT_ONE(N, "i16", int16_t) SWAPT_ONE(N, "u16", uint16_t) \
		SWAPT_ONE(N, "i32", int32_t) SWAPT_ONE(N, "u32", uint32_t) SWAPT_ONE(N, "i64", int64_t) SWAPT_ONE(N, "u64", uint64_t)
		SWAPT_ALL(16) SWAPT_ALL(32) SWAPT_ALL(64)
#undef SWAPT_ALL
#undef SWAPT_ONE
		if (done) printf("%" PRIu64 " %" PRId64 " %" PRIu64 " %" PRIu64 "\n", u, s, w, rt);
		else printf("?\n");
	} else if (strcmp(op, "swap32") == 0 && ntok >= 2) {
		uint32_t v = (uint32_t)strtoull(tok[1], NULL, 10);
		uint32_t r = MUGGLE_ENDIAN_SWAP_32(v);
		printf("%" PRIu32 "\n", r);
	} else if (strcmp(op, "swap64") == 0 && ntok >= 2) {
		uint64_t v = (uint64_t)strtoull(tok[1], NULL, 10);
		uint64_t r = MUGGLE_ENDIAN_SWAP_64(v);
		printf("%" PRIu64 "\n", r);
	} else if ((strcmp(op, "toi") == 0 || strcmp(op, "tou") == 0 || strcmp(op, "tol") == 0 ||
	            strcmp(op, "toul") == 0 || strcmp(op, "toll") == 0 || strcmp(op, "toull") == 0) && ntok >= 3) {
		int base = atoi(tok[1]);
		char *s = dec(tok[2], NULL, 1);
		/* glibc leaves endptr untouched for an invalid base (EINVAL, result 0), and ASan's strtol/strtoll interceptor
		 * stores its own uninitialised copy there: the end offset of the libc line is only meaningful for a base
		 * the family accepts; for any other base the line reports offset 0 = "nothing converted" */
		char *e = s;
		int ok;
		int base_ok = base == 0 || (base >= 2 && base <= 36);
#define END_OFF() (base_ok ? (int)(e - s) : 0)
		int p0 = ntok >= 4 && strcmp(tok[3], "P0") == 0;
		if (s == NULL || p0) {
			/* NULL string and/or NULL out-parameter: the wrapper must refuse; there is no libc call to compare */
			if (strcmp(op, "toi") == 0) { int v = 12345; ok = muggle_str_toi(s, p0 ? NULL : &v, base); }
			else if (strcmp(op, "tou") == 0) { unsigned int v = 12345; ok = muggle_str_tou(s, p0 ? NULL : &v, base); }
			else if (strcmp(op, "tol") == 0) { long v = 12345; ok = muggle_str_tol(s, p0 ? NULL : &v, base); }
			else if (strcmp(op, "toul") == 0) { unsigned long v = 12345; ok = muggle_str_toul(s, p0 ? NULL : &v, base); }
			else if (strcmp(op, "toll") == 0) { long long v = 12345; ok = muggle_str_toll(s, p0 ? NULL : &v, base); }
			else { unsigned long long v = 12345; ok = muggle_str_toull(s, p0 ? NULL : &v, base); }
			printf("%s\n", ok ? "ok ?" : "fail");
			printf("libc -\n");
		} else if (strcmp(op, "toi") == 0) {
			int v = 12345; ok = muggle_str_toi(s, &v, base);
			if (ok) printf("ok %d\n", v); else printf("fail\n");
			errno = 0; long r = strtol(s, &e, base);
			printf("libc %ld %d %d\n", r, END_OFF(), errno == ERANGE);
		} else if (strcmp(op, "tou") == 0) {
			unsigned int v = 12345; ok = muggle_str_tou(s, &v, base);
			if (ok) printf("ok %u\n", v); else printf("fail\n");
			errno = 0; unsigned long r = strtoul(s, &e, base);
			printf("libc %lu %d %d\n", r, END_OFF(), errno == ERANGE);
		} else if (strcmp(op, "tol") == 0) {
			long v = 12345; ok = muggle_str_tol(s, &v, base);
			if (ok) printf("ok %ld\n", v); else printf("fail\n");
			errno = 0; long r = strtol(s, &e, base);
			printf("libc %ld %d %d\n", r, END_OFF(), errno == ERANGE);
		} else if (strcmp(op, "toul") == 0) {
			unsigned long v = 12345; ok = muggle_str_toul(s, &v, base);
			if (ok) printf("ok %lu\n", v); else printf("fail\n");
			errno = 0; unsigned long r = strtoul(s, &e, base);
			printf("libc %lu %d %d\n", r, END_OFF(), errno == ERANGE);
		} else if (strcmp(op, "toll") == 0) {
			long long v = 12345; ok = muggle_str_toll(s, &v, base);
			if (ok) printf("ok %lld\n", v); else printf("fail\n");
			errno = 0; long long r = strtoll(s, &e, base);
			printf("libc %lld %d %d\n", r, END_OFF(), errno == ERANGE);
		} else {
			unsigned long long v = 12345; ok = muggle_str_toull(s, &v, base);
			if (ok) printf("ok %llu\n", v); else printf("fail\n");
			errno = 0; unsigned long long r = strtoull(s, &e, base);
			printf("libc %llu %d %d\n", r, END_OFF(), errno == ERANGE);
		}
#undef END_OFF
		free(s);
	} else if ((strcmp(op, "tof") == 0 || strcmp(op, "tod") == 0 || strcmp(op, "told") == 0) && ntok >= 2) {
		char *s = dec(tok[1], NULL, 1);
		char *e = s;
		int ok, same = 0, inf = 0, er = 0, zero = 0;
		int with_zero = ntok >= 6 && strcmp(tok[5], "P0") != 0;
		int p0 = strcmp(tok[ntok - 1], "P0") == 0;
		if (s == NULL || p0) {
			if (strcmp(op, "tof") == 0) { float v = 0; ok = muggle_str_tof(s, p0 ? NULL : &v); }
			else if (strcmp(op, "tod") == 0) { double v = 0; ok = muggle_str_tod(s, p0 ? NULL : &v); }
			else { long double v = 0; ok = muggle_str_told(s, p0 ? NULL : &v); }
			printf("%s\n", ok ? "ok" : "fail");
			printf("libcf -\n");
			free(s);
			return;
		}
		if (strcmp(op, "tof") == 0) {
			float v = 0, r; ok = muggle_str_tof(s, &v);
			errno = 0; r = strtof(s, &e); er = errno == ERANGE;
			same = memcmp(&v, &r, sizeof(float)) == 0; inf = isinf(r) ? 1 : 0; zero = r == 0 ? 1 : 0;
		} else if (strcmp(op, "tod") == 0) {
			double v = 0, r; ok = muggle_str_tod(s, &v);
			errno = 0; r = strtod(s, &e); er = errno == ERANGE;
			same = memcmp(&v, &r, sizeof(double)) == 0; inf = isinf(r) ? 1 : 0; zero = r == 0 ? 1 : 0;
		} else {
			long double v = 0, r; ok = muggle_str_told(s, &v);
			errno = 0; r = strtold(s, &e); er = errno == ERANGE;
			same = memcmp(&v, &r, 10) == 0; inf = isinf(r) ? 1 : 0; zero = r == 0 ? 1 : 0;
		}
		printf("%s\n", ok ? "ok" : "fail");
		/* the value muggle stored is compared bit for bit with the libc result */
		if (with_zero) printf("libcf %d %d %d %d %d\n", (int)(e - s), inf, er, zero, same);
		else printf("libcf %d %d %d %d\n", (int)(e - s), inf, er, same);
		free(s);
	} else if (strcmp(op, "lstrip") == 0 && ntok >= 2) {
		char *s = dec(tok[1], NULL, 1);
		printf("%d\n", muggle_str_lstrip_idx(s));
		free(s);
	} else if (strcmp(op, "rstrip") == 0 && ntok >= 2) {
		char *s = dec(tok[1], NULL, 1);
		printf("%d\n", muggle_str_rstrip_idx(s));
		free(s);
	} else if ((strcmp(op, "startswith") == 0 || strcmp(op, "endswith") == 0) && ntok >= 3) {
		char *s = dec(tok[1], NULL, 1), *p = dec(tok[2], NULL, 1);
		int r = op[0] == 's' ? muggle_str_startswith(s, p) : muggle_str_endswith(s, p);
		printf("%d\n", r ? 1 : 0);
		free(s); free(p);
	} else if ((strcmp(op, "find") == 0 || strcmp(op, "count") == 0) && ntok >= 5) {
		char *s = dec(tok[1], NULL, 1), *p = dec(tok[2], NULL, 1);
		int a = atoi(tok[3]), b = atoi(tok[4]);
		int r = op[0] == 'f' ? muggle_str_find(s, p, a, b) : muggle_str_count(s, p, a, b);
		printf("%d\n", r);
		free(s); free(p);
	} else if (strcmp(op, "hexbyte") == 0 && ntok >= 2) {
		printf("%u\n", (unsigned)muggle_hex_to_byte((char)atoi(tok[1])));
	} else if (strcmp(op, "hex2b") == 0 && ntok >= 2) {
		size_t n = 0;
		char *s = dec(tok[1], &n, 0);
		uint8_t *out = (uint8_t *)malloc(n / 2);
		memset(out, 0xAA, n / 2);
		int rc = muggle_hex_to_bytes(s, out, (uint32_t)n);
		if (rc == 0) { printf("ok "); put_hex(out, n / 2); printf("\n"); }
		else printf("fail\n");
		free(s); free(out);
	} else if (strcmp(op, "b2hex") == 0 && ntok >= 2) {
		size_t n = 0;
		char *s = dec(tok[1], &n, 0);
		char *out = (char *)malloc(2 * n);
		memset(out, 0xAA, 2 * n);
		muggle_hex_from_bytes((const uint8_t *)s, out, (uint32_t)n);
		put_hex((unsigned char *)out, 2 * n);
		printf("\n");
		free(s); free(out);
	} else if (strcmp(op, "isabs") == 0 && ntok >= 2) {
		char *p = dec(tok[1], NULL, 1);
		printf("%d\n", muggle_path_isabs(p) ? 1 : 0);
		free(p);
	} else if ((strcmp(op, "basename") == 0 || strcmp(op, "dirname") == 0 || strcmp(op, "normpath") == 0) && ntok >= 3) {
		unsigned int size = (unsigned int)strtoul(tok[1], NULL, 10);
		char *p = dec(tok[2], NULL, 1);
		unsigned char *buf = (unsigned char *)malloc(size);
		memset(buf, 0xAA, size);
		int rc = op[0] == 'b' ? muggle_path_basename(p, (char *)buf, size)
		       : op[0] == 'd' ? muggle_path_dirname(p, (char *)buf, size)
		       : muggle_path_normpath(p, (char *)buf, size);
		report_path(rc, buf, size);
		free(p); free(buf);
	} else if (strcmp(op, "join") == 0 && ntok >= 4) {
		unsigned int size = (unsigned int)strtoul(tok[1], NULL, 10);
		char *p1 = dec(tok[2], NULL, 1), *p2 = dec(tok[3], NULL, 1);
		unsigned char *buf = (unsigned char *)malloc(size);
		memset(buf, 0xAA, size);
		int rc = muggle_path_join(p1, p2, (char *)buf, size);
		report_path(rc, buf, size);
		free(p1); free(p2); free(buf);
	} else if (strcmp(op, "abspath") == 0 && ntok >= 4) {
		unsigned int size = (unsigned int)strtoul(tok[1], NULL, 10);
		char *cwd = dec(tok[2], NULL, 1), *p = dec(tok[3], NULL, 1);
		snprintf(g_cwd, sizeof(g_cwd), "%s", cwd);
		unsigned char *buf = (unsigned char *)malloc(size);
		memset(buf, 0xAA, size);
		int rc = muggle_path_abspath(p, (char *)buf, size);
		report_path(rc, buf, size);
		free(cwd); free(p); free(buf);
	} else {
		printf("?\n");
	}
}

int main(void) { return vdrv_main(); }
