/* C04 (shared with C01/C02/C05 through lib/atomic_tie.py): smoke run of the muggle_atomic_* macros of the
 * repository's atomic.h AS SHIPPED.  This file is compiled WITHOUT harness/vsched/vs_hooks.h, so the macro
 * bodies of muggle/c/base/atomic.h are what executes here (every other object of the driver sees the hooked
 * re-definitions).  Single-thread scripts print, per operation, the value the macro returned, the value left
 * in *expected (compare-exchange) and the cell afterwards; the pair scenario runs two real threads whose final
 * values do not depend on the interleaving.  The extracted model (Lib/AtomicTie.v: aop_sem) and an independent
 * monitor say what the lines must be.
 *
 *   atomics <int|i32|i64|byte> <init> <op> ...     op: ld | st:V | xc:V | cw:E:D | cs:E:D | fa:V | fs:V | ts | cl
 *   atomics2 <int|i32|i64> <iters>
 */
#include <stdio.h>
#include <stdlib.h>
#include <string.h>
#include <stdint.h>
#include <pthread.h>
#include "muggle/c/base/atomic.h"

#ifdef VS_HOOKS_H_
#error "c04_atomics.c must be compiled without the scheduler hooks"
#endif

#define MO_LD muggle_memory_order_acquire
#define MO_ST muggle_memory_order_release
#define MO_RMW muggle_memory_order_acq_rel

/* one interpreter per operand type; the macro names are parameters so that every variant of the header is used */
#define INTERP(NAME, T, XCHG, CASW, CASS, FADD, FSUB) \
static void NAME(long long init, int nops, char **ops) \
{ \
	T cell = (T)init; \
	for (int i = 0; i < nops; i++) { \
		long long a = 0, b = 0, res = 0, expo = 0; \
		char op[8] = ""; \
		if (sscanf(ops[i], "%2[a-z]:%lld:%lld", op, &a, &b) < 1) { printf("A bad-op %s\n", ops[i]); continue; } \
		if (strcmp(op, "ld") == 0) res = (long long)muggle_atomic_load(&cell, MO_LD); \
		else if (strcmp(op, "st") == 0) { muggle_atomic_store(&cell, (T)a, MO_ST); } \
		else if (strcmp(op, "xc") == 0) res = (long long)XCHG(&cell, (T)a, MO_RMW); \
		else if (strcmp(op, "cs") == 0) { T e = (T)a; res = CASS(&cell, &e, (T)b, MO_RMW) ? 1 : 0; expo = (long long)e; } \
		else if (strcmp(op, "cw") == 0) { \
			/* a weak compare-exchange may fail spuriously: retry while nothing else explains the failure */ \
			T e; int r; \
			do { e = (T)a; r = CASW(&cell, &e, (T)b, MO_RMW) ? 1 : 0; } while (!r && e == (T)a); \
			res = r; expo = (long long)e; \
		} \
		else if (strcmp(op, "fa") == 0) res = (long long)FADD(&cell, (T)a, MO_RMW); \
		else if (strcmp(op, "fs") == 0) res = (long long)FSUB(&cell, (T)a, MO_RMW); \
		else { printf("A bad-op %s\n", ops[i]); continue; } \
		printf("A %s res=%lld exp=%lld cell=%lld\n", ops[i], res, expo, (long long)cell); \
	} \
}

INTERP(interp_int, muggle_atomic_int, muggle_atomic_exchange, muggle_atomic_cmp_exch_weak, muggle_atomic_cmp_exch_strong,
       muggle_atomic_fetch_add, muggle_atomic_fetch_sub)
INTERP(interp_i32, muggle_atomic_int32, muggle_atomic_exchange32, muggle_atomic_cmp_exch_weak32,
       muggle_atomic_cmp_exch_strong32, muggle_atomic_fetch_add32, muggle_atomic_fetch_sub32)
INTERP(interp_i64, muggle_atomic_int64, muggle_atomic_exchange64, muggle_atomic_cmp_exch_weak64,
       muggle_atomic_cmp_exch_strong64, muggle_atomic_fetch_add64, muggle_atomic_fetch_sub64)

static void interp_byte(long long init, int nops, char **ops)
{
	muggle_atomic_byte cell = (muggle_atomic_byte)init;
	for (int i = 0; i < nops; i++) {
		long long a = 0, res = 0;
		char op[8] = "";
		if (sscanf(ops[i], "%2[a-z]:%lld", op, &a) < 1) { printf("A bad-op %s\n", ops[i]); continue; }
		if (strcmp(op, "ts") == 0) res = muggle_atomic_test_and_set(&cell, muggle_memory_order_acquire) ? 1 : 0;
		else if (strcmp(op, "cl") == 0) { muggle_atomic_clear(&cell, muggle_memory_order_release); }
		else if (strcmp(op, "ld") == 0) res = (long long)muggle_atomic_load(&cell, MO_LD);
		else if (strcmp(op, "st") == 0) { muggle_atomic_store(&cell, (muggle_atomic_byte)a, MO_ST); }
		else { printf("A bad-op %s\n", ops[i]); continue; }
		printf("A %s res=%lld exp=0 cell=%lld\n", ops[i], res, (long long)cell);
	}
}

void c04_atomics_run(const char *variant, long long init, int nops, char **ops)
{
	if (strcmp(variant, "int") == 0) interp_int(init, nops, ops);
	else if (strcmp(variant, "i32") == 0) interp_i32(init, nops, ops);
	else if (strcmp(variant, "i64") == 0) interp_i64(init, nops, ops);
	else if (strcmp(variant, "byte") == 0) interp_byte(init, nops, ops);
	else printf("A bad-variant %s\n", variant);
}

/* ---- two real threads ------------------------------------------------------------------------------- */
#define PAIR(NAME, T, XCHG, CASW, CASS, FADD, FSUB) \
static struct { T up, down, cs, cw, tok; muggle_atomic_byte lock; long long plain; long long old_sum[2]; \
                long long iters; volatile int go; } NAME##_st; \
static void *NAME##_thr(void *arg) \
{ \
	int me = (int)(intptr_t)arg; \
	while (!muggle_atomic_load(&NAME##_st.go, muggle_memory_order_acquire)) { } \
	for (long long i = 0; i < NAME##_st.iters; i++) { \
		FADD(&NAME##_st.up, (T)1, MO_RMW); \
		FSUB(&NAME##_st.down, (T)1, MO_RMW); \
		T e, d; \
		do { e = muggle_atomic_load(&NAME##_st.cs, MO_LD); d = (T)(e + 1); } while (!CASS(&NAME##_st.cs, &e, d, MO_RMW)); \
		do { e = muggle_atomic_load(&NAME##_st.cw, MO_LD); d = (T)(e + 1); } while (!CASW(&NAME##_st.cw, &e, d, MO_RMW)); \
		while (!muggle_atomic_test_and_set(&NAME##_st.lock, muggle_memory_order_acquire)) { } \
		NAME##_st.plain++; \
		muggle_atomic_clear(&NAME##_st.lock, muggle_memory_order_release); \
		NAME##_st.old_sum[me] += (long long)XCHG(&NAME##_st.tok, (T)(me * NAME##_st.iters + i + 1), MO_RMW); \
	} \
	return NULL; \
} \
static void NAME(long long iters) \
{ \
	memset((void *)&NAME##_st, 0, sizeof(NAME##_st)); \
	NAME##_st.iters = iters; NAME##_st.down = (T)(2 * iters); NAME##_st.tok = (T)7; \
	pthread_t th[2]; \
	for (int i = 0; i < 2; i++) pthread_create(&th[i], NULL, NAME##_thr, (void *)(intptr_t)i); \
	muggle_atomic_store(&NAME##_st.go, 1, muggle_memory_order_release); \
	for (int i = 0; i < 2; i++) pthread_join(th[i], NULL); \
	long long stored = 0; \
	for (int me = 0; me < 2; me++) for (long long i = 0; i < iters; i++) stored += me * iters + i + 1; \
	/* every value ever stored in tok is returned exactly once by a later exchange or is the final value */ \
	long long balance = NAME##_st.old_sum[0] + NAME##_st.old_sum[1] + (long long)NAME##_st.tok - stored - 7; \
	printf("A2 fadd=%lld fsub=%lld cass=%lld casw=%lld lock=%lld xchg=%lld\n", (long long)NAME##_st.up, \
	       (long long)NAME##_st.down, (long long)NAME##_st.cs, (long long)NAME##_st.cw, NAME##_st.plain, balance); \
}

PAIR(pair_int, muggle_atomic_int, muggle_atomic_exchange, muggle_atomic_cmp_exch_weak, muggle_atomic_cmp_exch_strong,
     muggle_atomic_fetch_add, muggle_atomic_fetch_sub)
PAIR(pair_i32, muggle_atomic_int32, muggle_atomic_exchange32, muggle_atomic_cmp_exch_weak32,
     muggle_atomic_cmp_exch_strong32, muggle_atomic_fetch_add32, muggle_atomic_fetch_sub32)
PAIR(pair_i64, muggle_atomic_int64, muggle_atomic_exchange64, muggle_atomic_cmp_exch_weak64,
     muggle_atomic_cmp_exch_strong64, muggle_atomic_fetch_add64, muggle_atomic_fetch_sub64)

void c04_atomics_pair(const char *variant, long long iters)
{
	if (iters < 0 || iters > 100000) { printf("A2 bad-iters\n"); return; }
	if (strcmp(variant, "int") == 0) pair_int(iters);
	else if (strcmp(variant, "i32") == 0) pair_i32(iters);
	else if (strcmp(variant, "i64") == 0) pair_i64(iters);
	else printf("A2 bad-variant %s\n", variant);
}
