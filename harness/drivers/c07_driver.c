/* C07 implementation driver: muggle bytes buffer.
 * The buffer is the exact-size heap block muggle_bytes_buffer_init mallocs, and
 * every source / destination block handed to the API is an exact-size heap
 * block too, so that ASan sees any access outside them.  Printed: booleans,
 * readable / writable / contiguous_readable after every operation, bytes copied
 * out or exposed, OFFSETS of returned pointers (never addresses).
 *
 *   init <c> [fail]   write <hex>       read <n>        fetch <n>
 *   wfc <n>           wmn <hex>         wmove <hex>     rfc <n>
 *   rmove <k>         clear             st   (informational: the four fields)
 *   rpk               writen <n>        wmoven <n>
 * <hex> is "-" for the empty string.  Sizes are any C int.  A NEGATIVE byte count is
 * outside the documented usage of read / fetch / reader_move (the library then
 * copies (size_t)-1 bytes or moves a cursor out of the buffer: observation recorded
 * in the plugin's ASSUMPTIONS): such a line is not performed ("skip").  writer_fc and
 * reader_fc are well-behaved for negative counts and are called with them.
 *
 * init <c> fail : the malloc inside muggle_bytes_buffer_init returns NULL
 *   (malloc is wrapped with -Wl,--wrap=malloc; armed for exactly that call).
 *
 * Outstanding regions (the zero-copy pairs need not be adjacent):
 * - the pointer of the last SUCCESSFUL writer_fc stays outstanding across
 *   read / fetch / rfc / rpk / rmove / st and across a writer_fc that returned
 *   NULL; it is dropped by write / writen / wmove / wmoven / clear / init and
 *   consumed by wmn.  wmn stores the bytes through it and calls
 *   writer_move_n(ptr, |hex|); without such a pointer, or with |hex| > n, the
 *   call is not performed ("skip": contract of the pair).
 * - the pointer of the last SUCCESSFUL reader_fc stays outstanding across every
 *   writer-side operation, fetch, st, rpk and a reader_fc that returned NULL; it
 *   is dropped by read / rmove / clear / init.  rpk re-reads the n bytes through
 *   it (they must still be the oldest unread bytes).
 *
 * Explicit-count calls (no payload is ever copied by a correct library):
 * - writen <n>  : write(n, src) with a 1-byte src block; performed only for
 *                 n >= c (can never be accepted), else "skip";
 * - wmoven <n>  : writer_fc(n) then deprecated writer_move(n) without a store;
 *                 performed only for n >= c, else "skip". */
#include "vdrv.h"
#include "muggle/c/memory/bytes_buffer.h"

#define FILL 0xEE

static muggle_bytes_buffer_t bb;
static int have;
static int cap_req;      /* capacity given to init (the driver's own copy) */
static char *pend_ptr;   /* outstanding writer region */
static int pend_n;
static char *rd_ptr;     /* outstanding reader region */
static int rd_n;

void *__real_malloc(size_t n);
static int fail_next_malloc;
void *__wrap_malloc(size_t n)
{
	if (fail_next_malloc) { fail_next_malloc = 0; return NULL; }
	return __real_malloc(n);
}

static void cleanup(void)
{
	if (have) muggle_bytes_buffer_destroy(&bb);
	have = 0;
	pend_ptr = NULL;
	pend_n = 0;
	rd_ptr = NULL;
	rd_n = 0;
}
static void case_begin(void) { have = 0; pend_ptr = NULL; pend_n = 0; rd_ptr = NULL; rd_n = 0; }
static void case_end(void) { cleanup(); }

static int hexval(int ch)
{
	if (ch >= '0' && ch <= '9') return ch - '0';
	if (ch >= 'a' && ch <= 'f') return ch - 'a' + 10;
	if (ch >= 'A' && ch <= 'F') return ch - 'A' + 10;
	return 0;
}
/* exact-size heap copy of the decoded bytes; *n = count */
static unsigned char *unhex(const char *h, int *n)
{
	if (strcmp(h, "-") == 0) { *n = 0; return (unsigned char *)malloc(0); }
	int k = (int)strlen(h) / 2;
	unsigned char *p = (unsigned char *)malloc((size_t)k);
	for (int i = 0; i < k; i++) p[i] = (unsigned char)(hexval(h[2 * i]) * 16 + hexval(h[2 * i + 1]));
	*n = k;
	return p;
}
static void puthex(const unsigned char *p, int n)
{
	if (n <= 0) { printf("-"); return; }
	for (int i = 0; i < n; i++) printf("%02x", p[i]);
}
static void tail(void)
{
	printf(" | rd=%d wr=%d cr=%d\n", muggle_bytes_buffer_readable(&bb),
		muggle_bytes_buffer_writable(&bb), muggle_bytes_buffer_contiguous_readable(&bb));
}
static void putoff(const void *p)
{
	if (p == NULL) printf("null");
	else printf("%ld", (long)((const char *)p - bb.buffer));
}
/* size of the exact-size block that can legitimately receive / expose n bytes:
 * a correct library never delivers more than the capacity, so a larger request
 * gets a block of capacity bytes and a wrong success is an ASan report */
static int clip(int n)
{
	if (n < 0) return 0;
	if (n > cap_req) return cap_req < 0 ? 0 : cap_req;
	return n;
}
static int intarg(const char *arg) { return arg ? (int)strtol(arg, NULL, 10) : 0; }

static void case_line(char *line)
{
	static char op[32];
	char *arg = NULL;
	if (sscanf(line, "%31s", op) != 1) return;
	arg = strchr(line, ' ');
	while (arg && *arg == ' ') arg++;
	if (strcmp(op, "init") == 0) {
		cleanup();
		int c = intarg(arg);
		int fail = arg && strstr(arg, "fail") != NULL;
		cap_req = c;
		fail_next_malloc = fail;
		bool ok = muggle_bytes_buffer_init(&bb, c);
		fail_next_malloc = 0;
		if (ok) { have = 1; if (c > 0) memset(bb.buffer, FILL, (size_t)c); }
		printf("init %d", ok ? 1 : 0);
		if (ok) tail(); else printf("\n");
		return;
	}
	if (!have) { printf("nobuf\n"); return; }
	if (strcmp(op, "st") == 0) {
		printf("st %d %d %d %d\n", bb.c, bb.w, bb.r, bb.t);
		return;
	}
	if (strcmp(op, "write") == 0) {
		int n;
		unsigned char *src = unhex(arg ? arg : "-", &n);
		pend_ptr = NULL;
		bool ok = muggle_bytes_buffer_write(&bb, n, src);
		free(src);
		printf("write %d", ok ? 1 : 0);
	} else if (strcmp(op, "writen") == 0) {
		int n = intarg(arg);
		pend_ptr = NULL;
		if (n < cap_req) {
			printf("writen skip");
		} else {
			unsigned char *src = (unsigned char *)malloc(1);
			src[0] = 0x5a;
			bool ok = muggle_bytes_buffer_write(&bb, n, src);
			free(src);
			printf("writen %d", ok ? 1 : 0);
		}
	} else if (strcmp(op, "read") == 0 || strcmp(op, "fetch") == 0) {
		int n = intarg(arg);
		if (op[0] == 'r') rd_ptr = NULL;
		if (n < 0) {
			printf("%s skip", op);
		} else {
			int m = clip(n);
			unsigned char *dst = (unsigned char *)malloc((size_t)m);
			bool ok = op[0] == 'r' ? muggle_bytes_buffer_read(&bb, n, dst) : muggle_bytes_buffer_fetch(&bb, n, dst);
			printf("%s %d", op, ok ? 1 : 0);
			if (ok) { printf(" "); puthex(dst, m); }
			free(dst);
		}
	} else if (strcmp(op, "wfc") == 0) {
		int n = intarg(arg);
		void *p = muggle_bytes_buffer_writer_fc(&bb, n);
		printf("wfc ");
		putoff(p);
		if (p) { pend_ptr = (char *)p; pend_n = n; }
	} else if (strcmp(op, "wmn") == 0) {
		int k;
		unsigned char *src = unhex(arg ? arg : "-", &k);
		char *pp = pend_ptr;
		pend_ptr = NULL;
		if (pp == NULL || k > pend_n) {
			printf("wmn skip");
		} else {
			memcpy(pp, src, (size_t)k);
			bool ok = muggle_bytes_buffer_writer_move_n(&bb, pp, k);
			printf("wmn %d", ok ? 1 : 0);
		}
		free(src);
	} else if (strcmp(op, "wmove") == 0) {
		int n;
		unsigned char *src = unhex(arg ? arg : "-", &n);
		pend_ptr = NULL;
		void *p = muggle_bytes_buffer_writer_fc(&bb, n);
		if (p) memcpy(p, src, (size_t)n);
		bool ok = muggle_bytes_buffer_writer_move(&bb, n);
		free(src);
		printf("wmove %d ", ok ? 1 : 0);
		putoff(p);
	} else if (strcmp(op, "wmoven") == 0) {
		int n = intarg(arg);
		pend_ptr = NULL;
		if (n < cap_req) {
			printf("wmoven skip");
		} else {
			void *p = muggle_bytes_buffer_writer_fc(&bb, n);
			bool ok = muggle_bytes_buffer_writer_move(&bb, n);
			printf("wmoven %d ", ok ? 1 : 0);
			putoff(p);
		}
	} else if (strcmp(op, "rfc") == 0) {
		int n = intarg(arg);
		void *p = muggle_bytes_buffer_reader_fc(&bb, n);
		printf("rfc ");
		putoff(p);
		if (p) {
			/* copy out through an exact-size block so that an over-long region is an ASan report */
			int m = clip(n);
			unsigned char *tmp = (unsigned char *)malloc((size_t)m);
			memcpy(tmp, p, (size_t)(n < 0 ? 0 : n));
			printf(" ");
			puthex(tmp, m);
			free(tmp);
			rd_ptr = (char *)p;
			rd_n = n;
		}
	} else if (strcmp(op, "rpk") == 0) {
		if (rd_ptr == NULL) {
			printf("rpk skip");
		} else {
			int m = clip(rd_n);
			unsigned char *tmp = (unsigned char *)malloc((size_t)m);
			memcpy(tmp, rd_ptr, (size_t)(rd_n < 0 ? 0 : rd_n));
			printf("rpk ");
			putoff(rd_ptr);
			printf(" ");
			puthex(tmp, m);
			free(tmp);
		}
	} else if (strcmp(op, "rmove") == 0) {
		int k = intarg(arg);
		rd_ptr = NULL;
		if (k < 0) {
			printf("rmove skip");
		} else {
			bool ok = muggle_bytes_buffer_reader_move(&bb, k);
			printf("rmove %d", ok ? 1 : 0);
		}
	} else if (strcmp(op, "clear") == 0) {
		pend_ptr = NULL;
		rd_ptr = NULL;
		muggle_bytes_buffer_clear(&bb);
		printf("clear");
	} else {
		printf("?\n");
		return;
	}
	tail();
}

int main(void) { return vdrv_main(); }
