/* C07 implementation driver: muggle bytes buffer.
 * The buffer is the exact-size heap block muggle_bytes_buffer_init mallocs, and
 * every source / destination block handed to the API is an exact-size heap
 * block too, so that ASan sees any access outside them.  Printed: booleans,
 * readable / writable / contiguous_readable after every operation, bytes copied
 * out or exposed, OFFSETS of returned pointers (never addresses).
 *
 *   init <c>          write <hex>       read <n>        fetch <n>
 *   wfc <n>           wmn <hex>         wmove <hex>     rfc <n>
 *   rmove <k>         clear             st   (informational: the four fields)
 * <hex> is "-" for the empty string.  wmn stores the bytes through the pointer
 * returned by the DIRECTLY preceding wfc and calls writer_move_n(ptr, |hex|);
 * without such a pointer, or with |hex| > n, it is not performed ("skip"). */
#include "vdrv.h"
#include "muggle/c/memory/bytes_buffer.h"

#define FILL 0xEE

static muggle_bytes_buffer_t bb;
static int have;
static char *pend_ptr;   /* pointer of the directly preceding writer_fc */
static int pend_n;

static void cleanup(void)
{
	if (have) muggle_bytes_buffer_destroy(&bb);
	have = 0;
	pend_ptr = NULL;
	pend_n = 0;
}
static void case_begin(void) { have = 0; pend_ptr = NULL; pend_n = 0; }
static void case_end(void) { cleanup(); }

static int hexval(int ch)
{
	if (ch >= '0' && ch <= '9') return ch - '0';
	if (ch >= 'a' && ch <= 'f') return ch - 'a' + 10;
	if (ch >= 'A' && ch <= 'F') return ch - 'A' + 10;
	return 0;
}
/* exact-size heap copy of the decoded bytes; *n = count */
static unsigned char *unhex(const char *h, int *n)
{
	if (strcmp(h, "-") == 0) { *n = 0; return (unsigned char *)malloc(0); }
	int k = (int)strlen(h) / 2;
	unsigned char *p = (unsigned char *)malloc((size_t)k);
	for (int i = 0; i < k; i++) p[i] = (unsigned char)(hexval(h[2 * i]) * 16 + hexval(h[2 * i + 1]));
	*n = k;
	return p;
}
static void puthex(const unsigned char *p, int n)
{
	if (n <= 0) { printf("-"); return; }
	for (int i = 0; i < n; i++) printf("%02x", p[i]);
}
static void tail(void)
{
	printf(" | rd=%d wr=%d cr=%d\n", muggle_bytes_buffer_readable(&bb),
		muggle_bytes_buffer_writable(&bb), muggle_bytes_buffer_contiguous_readable(&bb));
}
static void putoff(const void *p)
{
	if (p == NULL) printf("null");
	else printf("%ld", (long)((const char *)p - bb.buffer));
}

static void case_line(char *line)
{
	static char op[32];
	char *arg = NULL;
	if (sscanf(line, "%31s", op) != 1) return;
	arg = strchr(line, ' ');
	while (arg && *arg == ' ') arg++;
	if (strcmp(op, "init") == 0) {
		cleanup();
		int c = arg ? atoi(arg) : 0;
		bool ok = muggle_bytes_buffer_init(&bb, c);
		if (ok) { have = 1; memset(bb.buffer, FILL, (size_t)c); }
		printf("init %d", ok ? 1 : 0);
		if (ok) tail(); else printf("\n");
		return;
	}
	if (!have) { printf("nobuf\n"); return; }
	if (strcmp(op, "st") == 0) {
		printf("st %d %d %d %d\n", bb.c, bb.w, bb.r, bb.t);
		return;
	}
	char *pp = pend_ptr;
	int pn = pend_n;
	pend_ptr = NULL;
	pend_n = 0;
	if (strcmp(op, "write") == 0) {
		int n;
		unsigned char *src = unhex(arg ? arg : "-", &n);
		bool ok = muggle_bytes_buffer_write(&bb, n, src);
		free(src);
		printf("write %d", ok ? 1 : 0);
	} else if (strcmp(op, "read") == 0 || strcmp(op, "fetch") == 0) {
		int n = arg ? atoi(arg) : 0;
		unsigned char *dst = (unsigned char *)malloc((size_t)n);
		bool ok = op[0] == 'r' ? muggle_bytes_buffer_read(&bb, n, dst) : muggle_bytes_buffer_fetch(&bb, n, dst);
		printf("%s %d", op, ok ? 1 : 0);
		if (ok) { printf(" "); puthex(dst, n); }
		free(dst);
	} else if (strcmp(op, "wfc") == 0) {
		int n = arg ? atoi(arg) : 0;
		void *p = muggle_bytes_buffer_writer_fc(&bb, n);
		printf("wfc ");
		putoff(p);
		if (p) { pend_ptr = (char *)p; pend_n = n; }
	} else if (strcmp(op, "wmn") == 0) {
		int k;
		unsigned char *src = unhex(arg ? arg : "-", &k);
		if (pp == NULL || k > pn) {
			printf("wmn skip");
		} else {
			memcpy(pp, src, (size_t)k);
			bool ok = muggle_bytes_buffer_writer_move_n(&bb, pp, k);
			printf("wmn %d", ok ? 1 : 0);
		}
		free(src);
	} else if (strcmp(op, "wmove") == 0) {
		int n;
		unsigned char *src = unhex(arg ? arg : "-", &n);
		void *p = muggle_bytes_buffer_writer_fc(&bb, n);
		if (p) memcpy(p, src, (size_t)n);
		bool ok = muggle_bytes_buffer_writer_move(&bb, n);
		free(src);
		printf("wmove %d ", ok ? 1 : 0);
		putoff(p);
	} else if (strcmp(op, "rfc") == 0) {
		int n = arg ? atoi(arg) : 0;
		void *p = muggle_bytes_buffer_reader_fc(&bb, n);
		printf("rfc ");
		putoff(p);
		if (p) {
			/* copy out through an exact-size block so that an over-long region is an ASan report */
			unsigned char *tmp = (unsigned char *)malloc((size_t)n);
			memcpy(tmp, p, (size_t)n);
			printf(" ");
			puthex(tmp, n);
			free(tmp);
		}
	} else if (strcmp(op, "rmove") == 0) {
		int k = arg ? atoi(arg) : 0;
		bool ok = muggle_bytes_buffer_reader_move(&bb, k);
		printf("rmove %d", ok ? 1 : 0);
	} else if (strcmp(op, "clear") == 0) {
		muggle_bytes_buffer_clear(&bb);
		printf("clear");
	} else {
		printf("?\n");
		return;
	}
	tail();
}

int main(void) { return vdrv_main(); }
