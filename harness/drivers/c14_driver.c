/* C14 implementation driver: the real event loop (select / poll / epoll back-end), the real
 * eventfd signal and the real socket_evloop_handle hand-over queue, run under the
 * deterministic scheduler (harness/vsched + vs_io.c: poll/select/epoll_wait re-polled with
 * timeout 0, eventfd read/write as logged scheduling points).
 *
 * Case lines:
 *   loop <select|poll|epoll> <loop-thread 0|1> <hints_max_fd>
 *   thr <script>            one line per thread T0, T1, ... ("-" = empty script)
 *   cb <handle|bare> <flags|-> [nctx]   optional; default "handle warcmt"
 *       which optional callbacks are installed (absent letter = NULL):
 *       handle: w cb_wake, a cb_add_ctx, r cb_release, c cb_close, m cb_msg, t cb_timer of the
 *               socket_evloop_handle attached to the loop
 *       bare:   NO handle; w cb_wake, r cb_read, c cb_close, l cb_clear, x cb_exit, t cb_timer of
 *               the muggle_event_loop_t itself; <nctx> socketpair-backed contexts are registered
 *               by T0 right after creation; script letter h is executed as a plain wake-up
 *   cbw <s0> <s1> ...       optional (handle attached, cb_wake installed): the j-th invocation of the
 *                           user's wake callback executes script sj ("-" = empty) on the loop thread
 *   cbt <s0> <s1> ...       the same for the user's timer callback (needs tmo 1 and cb_timer)
 *   tmo <0|1>               1 = timer interval 0 (poll/select/epoll_wait do not block; every iteration
 *                           ends with the timer callback and the exit test); default: -1, no timer
 *   del <0|1>               1 = the loop thread deletes the handle and the loop as soon as
 *                           muggle_evloop_run has returned, without waiting for the other threads
 *   budget <steps>          optional (default 20000)
 *   sched <spec>            see vsched.h
 * Thread T0 CREATES the loop (muggle_evloop_new records T0 in evloop->tid), attaches a
 * socket_evloop_handle, then starts the other threads.  Every thread executes its script
 *   w = muggle_evloop_wakeup         h = hand-over of a socketpair-backed context
 *   x = muggle_evloop_exit             (muggle_socket_evloop_add_ctx)
 *   s = muggle_socket_ctx_shutdown of the first context of evloop->ctx_list that is not flagged
 *       CLOSED and has not been freed (nothing when there is none; bare loop: plain wake-up)
 *   d = the peer of the first such context whose peer is still open sends one byte
 *   c = the peer of the first such context whose peer is still open closes
 * with a harness scheduling point ("plain op") before every operation and after the last
 * one; the loop thread then calls muggle_evloop_run().  Peers of handed-over sockets stay
 * silent, so the only descriptors that ever become readable are the loop's signal and the
 * sockets that have been shut down (readable + hung up).
 * Output: the event trace (callbacks note themselves with R lines), then
 *   F returned=<0|1> live=<contexts never freed> late=<contexts still queued after run()>
 */
#include "vdrv.h"
#include <unistd.h>
#include <sys/socket.h>
#include "vsched/vsched.h"
#include "vsched/vs_io.h"
#include "muggle/c/event/event.h"
#include "muggle/c/event/event_loop.h"
#include "muggle/c/net/socket_evloop_handle.h"

#define MAXCTX 64
static char be_name[16], sched[8192];
static int be_type, loopthr, hints, nthr;
static long budget;
static char scripts[VS_MAXT][32];

static muggle_event_loop_t *evloop;
static muggle_socket_evloop_handle_t handle;
static int g_nctx, g_live, g_returned;
static int bare, bare_nctx;
static char cbflags[16];
static muggle_event_context_t *bare_ctx[8];
static int bare_peer[8];
#define HAS(c) (strchr(cbflags, (c)) != NULL)
static int peers[MAXCTX];
static muggle_socket_context_t *ctxs[MAXCTX];
static int freed[MAXCTX];
#define MAXCB 8
static char cbw[MAXCB][16], cbt[MAXCB][16];
static int ncbw, ncbt, wk_n, tm_n, tmo, del, loop_deleted;
/* addresses of freed contexts are never handed out again during a case: a node that the clear
 * pass leaves in ctx_list (pointing to a freed context) can then never be mistaken for a live
 * context when a script looks for a registered context to shut down */
static void *dead[MAXCTX]; static int ndead;
static void *aside[4 * MAXCTX]; static int naside;

static int ctx_id(muggle_socket_context_t *ctx) { return (int)(intptr_t)muggle_socket_ctx_get_data(ctx); }

static int is_registered(muggle_event_loop_t *ev, void *ctx)
{
	muggle_linked_list_node_t *n = muggle_linked_list_first(ev->ctx_list);
	for (; n; n = muggle_linked_list_next(ev->ctx_list, n)) if (n->data == ctx) return 1;
	return 0;
}

static void cb_add_ctx(muggle_event_loop_t *ev, muggle_socket_context_t *ctx)
{
	vs_note("addctx %d %d", ctx_id(ctx), is_registered(ev, ctx));
}
static void cb_release(muggle_event_loop_t *ev, muggle_socket_context_t *ctx)
{
	(void)ev;
	vs_note("release %d", ctx_id(ctx));
}
static void cb_close(muggle_event_loop_t *ev, muggle_socket_context_t *ctx)
{
	(void)ev;
	vs_note("close %d", ctx_id(ctx));
}
/* the first context of evloop->ctx_list that is alive and not flagged CLOSED (and, for the peer
 * operations, whose peer is still open); never looks at a loop that has been deleted */
static int pick_ctx(int need_peer)
{
	if (loop_deleted || !evloop) return -1;
	muggle_linked_list_node_t *n = muggle_linked_list_first(evloop->ctx_list);
	for (; n; n = muggle_linked_list_next(evloop->ctx_list, n)) {
		for (int id = 0; id < g_nctx && id < MAXCTX; id++) {
			if (!ctxs[id] || (void *)ctxs[id] != n->data || freed[id]) continue;
			if (ctxs[id]->base.flags & MUGGLE_EV_CTX_FLAG_CLOSED) continue;
			if (need_peer && peers[id] < 0) continue;
			return id;
		}
	}
	return -1;
}
static void handover(void);
/* one script operation (thread script or callback script) */
static void do_op(char op, int k)
{
	switch (op) {
	case 'w': vs_note("op w %d", k); muggle_evloop_wakeup(evloop); break;
	case 'h':
		if (bare) { vs_note("op w %d", k); muggle_evloop_wakeup(evloop); }
		else handover();
		break;
	case 'x': vs_note("op x %d", k); muggle_evloop_exit(evloop); break;
	case 's': case 'd': case 'c':
		if (bare) { vs_note("op w %d", k); muggle_evloop_wakeup(evloop); break; }
		{
			int id = pick_ctx(op != 's');
			if (id >= 0 && op == 's') muggle_socket_ctx_shutdown(ctxs[id]);
			if (id >= 0 && op == 'd') { if (send(peers[id], "x", 1, MSG_NOSIGNAL) != 1) vs_note("peer send failed"); }
			if (id >= 0 && op == 'c') { close(peers[id]); peers[id] = -1; }
			vs_note("op %c %d", op, id);
		}
		break;
	default: break;
	}
	vs_note("done %d", k);
}
static void run_cb_script(const char *sc)
{
	for (int k = 0; sc[k]; k++) {
		vs_yield_point("op");
		do_op(sc[k], k);
	}
}
static void cb_wake(muggle_event_loop_t *ev)
{
	(void)ev;
	vs_note("wake");
	int j = wk_n++;
	if (j < ncbw) run_cb_script(cbw[j]);
}
static void cb_timer(muggle_event_loop_t *ev)
{
	(void)ev;
	vs_note("timer");
	int j = tm_n++;
	if (j < ncbt) run_cb_script(cbt[j]);
}
static void cb_free(void *pool, muggle_socket_context_t *ctx)
{
	(void)pool;
	int id = ctx_id(ctx);
	vs_note("free %d", id);
	if (id >= 0 && id < MAXCTX) freed[id]++;
	if (ndead < MAXCTX) dead[ndead++] = ctx;
	g_live--;
	free(ctx);
}
static muggle_socket_context_t *cb_alloc(void *pool)
{
	(void)pool;
	for (;;) {
		void *p = malloc(sizeof(muggle_socket_context_t));
		int reused = 0;
		for (int i = 0; p && i < ndead; i++) if (dead[i] == p) reused = 1;
		if (!reused || naside >= 4 * MAXCTX) return (muggle_socket_context_t *)p;
		aside[naside++] = p;
	}
}

/* callbacks of a bare loop */
static int bare_id(muggle_event_context_t *ctx) { return (int)(intptr_t)muggle_ev_ctx_data(ctx); }
static void bare_wake(muggle_event_loop_t *ev) { (void)ev; vs_note("wake"); }
static void bare_read(muggle_event_loop_t *ev, muggle_event_context_t *ctx)
{
	(void)ev;
	char buf[64];
	vs_note("read %d", bare_id(ctx));
	while (muggle_ev_ctx_read(ctx, buf, sizeof(buf)) > 0);
}
static void bare_close(muggle_event_loop_t *ev, muggle_event_context_t *ctx) { (void)ev; vs_note("close %d", bare_id(ctx)); }
static void bare_clear(muggle_event_loop_t *ev, muggle_event_context_t *ctx) { (void)ev; vs_note("clear %d", bare_id(ctx)); }
static void bare_exit(muggle_event_loop_t *ev) { (void)ev; vs_note("exitcb"); }
static void any_timer(muggle_event_loop_t *ev) { (void)ev; vs_note("timer"); }
static void cb_msg(muggle_event_loop_t *ev, muggle_socket_context_t *ctx)
{
	(void)ev;
	char buf[64];
	vs_note("msg %d", ctx_id(ctx));
	while (muggle_socket_ctx_read(ctx, buf, sizeof(buf)) > 0);
}

static void thread_body(void *arg);

static void create_all(void)
{
	muggle_event_loop_init_args_t a;
	memset(&a, 0, sizeof(a));
	a.evloop_type = be_type;
	a.hints_max_fd = hints;
	a.use_mem_pool = 0;
	evloop = muggle_evloop_new(&a);
	if (!evloop) { vs_note("evloop_new failed"); return; }
	if (bare) {
		if (HAS('w')) muggle_evloop_set_cb_wake(evloop, bare_wake);
		if (HAS('r')) muggle_evloop_set_cb_read(evloop, bare_read);
		if (HAS('c')) muggle_evloop_set_cb_close(evloop, bare_close);
		if (HAS('l')) muggle_evloop_set_cb_clear(evloop, bare_clear);
		if (HAS('x')) muggle_evloop_set_cb_exit(evloop, bare_exit);
		if (HAS('t')) muggle_evloop_set_cb_timer(evloop, any_timer);
		if (tmo) muggle_evloop_set_timer_interval(evloop, 0);
		for (int i = 0; i < bare_nctx; i++) {
			int sv[2] = { -1, -1 };
			if (socketpair(AF_UNIX, SOCK_STREAM, 0, sv) != 0) { vs_note("socketpair failed"); break; }
			bare_ctx[i] = (muggle_event_context_t *)malloc(sizeof(muggle_event_context_t));
			muggle_ev_ctx_init(bare_ctx[i], sv[0], (void *)(intptr_t)i);
			bare_peer[i] = sv[1];
			if (muggle_evloop_add_ctx(evloop, bare_ctx[i]) != 0) vs_note("add_ctx failed %d", i);
		}
	} else {
		muggle_socket_evloop_handle_init(&handle);
		if (HAS('a')) muggle_socket_evloop_handle_set_cb_add_ctx(&handle, cb_add_ctx);
		if (HAS('r')) muggle_socket_evloop_handle_set_cb_release(&handle, cb_release);
		if (HAS('c')) muggle_socket_evloop_handle_set_cb_close(&handle, cb_close);
		if (HAS('w')) muggle_socket_evloop_handle_set_cb_wake(&handle, cb_wake);
		if (HAS('m')) muggle_socket_evloop_handle_set_cb_msg(&handle, cb_msg);
		if (HAS('t')) muggle_socket_evloop_handle_set_cb_timer(&handle, cb_timer);
		if (tmo) muggle_socket_evloop_handle_set_timer_interval(&handle, 0);
		muggle_socket_evloop_handle_set_alloc_free(&handle, NULL, cb_alloc, cb_free);
		muggle_socket_evloop_handle_attach(&handle, evloop);
		vs_name(&handle.mtx->mtx, "hmtx");
	}
	vs_io_set_signal_fd(muggle_ev_signal_rfd(evloop->ev_signal));
	for (int t = 1; t < nthr; t++) vs_spawn(thread_body, (void *)(intptr_t)t);
	vs_note("created");
}

static void handover(void)
{
	int id = g_nctx++;
	int sv[2] = { -1, -1 };
	if (id >= MAXCTX || socketpair(AF_UNIX, SOCK_STREAM, 0, sv) != 0) { vs_note("socketpair failed"); return; }
	muggle_socket_context_t *ctx = cb_alloc(NULL);
	muggle_socket_ctx_init(ctx, sv[0], (void *)(intptr_t)id, MUGGLE_SOCKET_CTX_TYPE_TCP_CLIENT);
	peers[id] = sv[1];
	ctxs[id] = ctx;
	g_live++;
	vs_name(&ctx->base.ref_cnt, "ref%d", id);
	vs_note("op h %d", id);
	muggle_socket_evloop_add_ctx(evloop, ctx);
}

static void thread_body(void *arg)
{
	int t = (int)(intptr_t)arg;
	if (t == 0) create_all();
	if (!evloop) return;
	const char *s = scripts[t];
	for (int k = 0; s[k]; k++) {
		vs_yield_point("op");
		do_op(s[k], k);
	}
	vs_yield_point("op");
	if (t == loopthr) {
		muggle_evloop_run(evloop);
		g_returned = 1;
		vs_note("returned");
		if (del) {
			/* the owner deletes the loop at once; the other threads still hold the pointer */
			loop_deleted = 1;
			if (!bare) muggle_socket_evloop_handle_destroy(&handle);
			muggle_evloop_delete(evloop);
		}
	}
}

static void case_begin(void)
{
	strcpy(sched, "rand 1 50 0 0");
	be_name[0] = 0; nthr = 0; loopthr = 0; hints = 8; budget = 20000;
	bare = 0; bare_nctx = 0; strcpy(cbflags, "warcmt");
	ncbw = ncbt = 0; memset(cbw, 0, sizeof(cbw)); memset(cbt, 0, sizeof(cbt)); tmo = 0; del = 0;
	memset(scripts, 0, sizeof(scripts));
}

static void case_line(char *line)
{
	char op[32];
	if (sscanf(line, "%31s", op) != 1) return;
	if (strcmp(op, "sched") == 0) { snprintf(sched, sizeof(sched), "%s", line + 6); return; }
	if (strcmp(op, "loop") == 0) {
		sscanf(line, "%*s %15s %d %d", be_name, &loopthr, &hints);
		be_type = strcmp(be_name, "select") == 0 ? MUGGLE_EVLOOP_TYPE_SELECT :
		          strcmp(be_name, "poll") == 0 ? MUGGLE_EVLOOP_TYPE_POLL : MUGGLE_EVLOOP_TYPE_EPOLL;
	} else if (strcmp(op, "thr") == 0) {
		if (nthr < VS_MAXT) {
			char sc[32] = "";
			sscanf(line, "%*s %31s", sc);
			if (strcmp(sc, "-") == 0) sc[0] = 0;
			snprintf(scripts[nthr], sizeof(scripts[nthr]), "%s", sc);
			nthr++;
		}
	} else if (strcmp(op, "cb") == 0) {
		char mode[16] = "", fl[16] = "";
		int n = 0;
		sscanf(line, "%*s %15s %15s %d", mode, fl, &n);
		bare = strcmp(mode, "bare") == 0;
		if (strcmp(fl, "-") == 0) fl[0] = 0;
		snprintf(cbflags, sizeof(cbflags), "%s", fl);
		bare_nctx = bare ? (n < 0 ? 0 : n > 8 ? 8 : n) : 0;
	} else if (strcmp(op, "cbw") == 0 || strcmp(op, "cbt") == 0) {
		int isw = strcmp(op, "cbw") == 0, n = 0;
		char *save = NULL;
		for (char *tok = strtok_r(line + 3, " \t", &save); tok; tok = strtok_r(NULL, " \t", &save)) {
			if (n >= MAXCB) break;
			snprintf(isw ? cbw[n] : cbt[n], 16, "%s", strcmp(tok, "-") == 0 ? "" : tok);
			n++;
		}
		if (isw) ncbw = n; else ncbt = n;
	} else if (strcmp(op, "tmo") == 0) {
		sscanf(line, "%*s %d", &tmo);
	} else if (strcmp(op, "del") == 0) {
		sscanf(line, "%*s %d", &del);
	} else if (strcmp(op, "budget") == 0) {
		sscanf(line, "%*s %ld", &budget);
	}
}

static void case_end(void)
{
	if (!be_name[0] || nthr <= 0 || loopthr < 0 || loopthr >= nthr) { printf("F badcase\n"); return; }
	muggle_event_lib_init();
	vs_reset();
	vs_io_reset();
	vs_set_budget(budget);
	vs_set_schedule(sched);
	evloop = NULL; g_nctx = g_live = g_returned = 0;
	wk_n = tm_n = 0; ndead = 0; naside = 0; loop_deleted = 0;
	memset(freed, 0, sizeof(freed));
	for (int i = 0; i < MAXCTX; i++) { peers[i] = -1; ctxs[i] = NULL; }
	for (int i = 0; i < 8; i++) { bare_ctx[i] = NULL; bare_peer[i] = -1; }
	vs_spawn(thread_body, (void *)(intptr_t)0);
	int st = vs_run();
	int late = 0;
	if (st == 0 && evloop && !bare && !loop_deleted) {
		/* owner clean-up after run() has returned and every thread has finished: contexts
		 * handed over too late to be seen by the exit callback are still queued */
		while (muggle_queue_size(handle.ctx_queue) > 0) {
			muggle_queue_node_t *node = muggle_queue_front(handle.ctx_queue);
			muggle_socket_context_t *ctx = (muggle_socket_context_t *)node->data;
			muggle_socket_ctx_close(ctx);
			free(ctx);
			g_live--;
			late++;
			muggle_queue_dequeue(handle.ctx_queue, NULL, NULL);
		}
	}
	printf("F returned=%d live=%d late=%d\n", g_returned, g_live, late);
	if (st != 0) {
		printf("END\n");
		fflush(stdout);
		_exit(77);
	}
	for (int i = 0; i < MAXCTX; i++) if (peers[i] >= 0) close(peers[i]);
	for (int i = 0; i < naside; i++) free(aside[i]);
	naside = 0;
	for (int i = 0; i < 8; i++) {
		if (bare_ctx[i]) { muggle_ev_ctx_close(bare_ctx[i]); free(bare_ctx[i]); bare_ctx[i] = NULL; }
		if (bare_peer[i] >= 0) { close(bare_peer[i]); bare_peer[i] = -1; }
	}
	if (evloop && !loop_deleted) {
		if (!bare) muggle_socket_evloop_handle_destroy(&handle);
		muggle_evloop_delete(evloop);
	}
	evloop = NULL;
	vs_io_reset();
}

int main(void) { return vdrv_main(); }
