/* C14 implementation driver: the real event loop (select / poll / epoll back-end), the real
 * eventfd signal and the real socket_evloop_handle hand-over queue, run under the
 * deterministic scheduler (harness/vsched + vs_io.c: poll/select/epoll_wait re-polled with
 * timeout 0, eventfd read/write as logged scheduling points).
 *
 * Case lines:
 *   loop <select|poll|epoll> <loop-thread 0|1> <hints_max_fd>
 *   thr <script>            one line per thread T0, T1, ... ("-" = empty script)
 *   cb <handle|bare> <flags|-> [nctx]   optional; default "handle warcmt"
 *       which optional callbacks are installed (absent letter = NULL):
 *       handle: w cb_wake, a cb_add_ctx, r cb_release, c cb_close, m cb_msg, t cb_timer of the
 *               socket_evloop_handle attached to the loop
 *       bare:   NO handle; w cb_wake, r cb_read, c cb_close, l cb_clear, x cb_exit, t cb_timer of
 *               the muggle_event_loop_t itself; <nctx> socketpair-backed contexts are registered
 *               by T0 right after creation; script letter h is executed as a plain wake-up
 *   budget <steps>          optional (default 20000)
 *   sched <spec>            see vsched.h
 * Thread T0 CREATES the loop (muggle_evloop_new records T0 in evloop->tid), attaches a
 * socket_evloop_handle, then starts the other threads.  Every thread executes its script
 *   w = muggle_evloop_wakeup         h = hand-over of a socketpair-backed context
 *   x = muggle_evloop_exit             (muggle_socket_evloop_add_ctx)
 * with a harness scheduling point ("plain op") before every operation and after the last
 * one; the loop thread then calls muggle_evloop_run().  Peers of handed-over sockets stay
 * silent, so the only descriptor that ever becomes readable is the loop's signal.
 * Output: the event trace (callbacks note themselves with R lines), then
 *   F returned=<0|1> live=<contexts never freed> late=<contexts still queued after run()>
 */
#include "vdrv.h"
#include <unistd.h>
#include <sys/socket.h>
#include "vsched/vsched.h"
#include "vsched/vs_io.h"
#include "muggle/c/event/event.h"
#include "muggle/c/event/event_loop.h"
#include "muggle/c/net/socket_evloop_handle.h"

#define MAXCTX 64
static char be_name[16], sched[8192];
static int be_type, loopthr, hints, nthr;
static long budget;
static char scripts[VS_MAXT][32];

static muggle_event_loop_t *evloop;
static muggle_socket_evloop_handle_t handle;
static int g_nctx, g_live, g_returned;
static int bare, bare_nctx;
static char cbflags[16];
static muggle_event_context_t *bare_ctx[8];
static int bare_peer[8];
#define HAS(c) (strchr(cbflags, (c)) != NULL)
static int peers[MAXCTX];
static muggle_socket_context_t *ctxs[MAXCTX];
static int freed[MAXCTX];

static int ctx_id(muggle_socket_context_t *ctx) { return (int)(intptr_t)muggle_socket_ctx_get_data(ctx); }

static int is_registered(muggle_event_loop_t *ev, void *ctx)
{
	muggle_linked_list_node_t *n = muggle_linked_list_first(ev->ctx_list);
	for (; n; n = muggle_linked_list_next(ev->ctx_list, n)) if (n->data == ctx) return 1;
	return 0;
}

static void cb_add_ctx(muggle_event_loop_t *ev, muggle_socket_context_t *ctx)
{
	vs_note("addctx %d %d", ctx_id(ctx), is_registered(ev, ctx));
}
static void cb_release(muggle_event_loop_t *ev, muggle_socket_context_t *ctx)
{
	(void)ev;
	vs_note("release %d", ctx_id(ctx));
}
static void cb_close(muggle_event_loop_t *ev, muggle_socket_context_t *ctx)
{
	(void)ev;
	vs_note("close %d", ctx_id(ctx));
}
static void cb_wake(muggle_event_loop_t *ev)
{
	(void)ev;
	vs_note("wake");
}
static void cb_free(void *pool, muggle_socket_context_t *ctx)
{
	(void)pool;
	int id = ctx_id(ctx);
	vs_note("free %d", id);
	if (id >= 0 && id < MAXCTX) freed[id]++;
	g_live--;
	free(ctx);
}
static muggle_socket_context_t *cb_alloc(void *pool)
{
	(void)pool;
	return (muggle_socket_context_t *)malloc(sizeof(muggle_socket_context_t));
}

/* callbacks of a bare loop */
static int bare_id(muggle_event_context_t *ctx) { return (int)(intptr_t)muggle_ev_ctx_data(ctx); }
static void bare_wake(muggle_event_loop_t *ev) { (void)ev; vs_note("wake"); }
static void bare_read(muggle_event_loop_t *ev, muggle_event_context_t *ctx)
{
	(void)ev;
	char buf[64];
	vs_note("read %d", bare_id(ctx));
	while (muggle_ev_ctx_read(ctx, buf, sizeof(buf)) > 0);
}
static void bare_close(muggle_event_loop_t *ev, muggle_event_context_t *ctx) { (void)ev; vs_note("close %d", bare_id(ctx)); }
static void bare_clear(muggle_event_loop_t *ev, muggle_event_context_t *ctx) { (void)ev; vs_note("clear %d", bare_id(ctx)); }
static void bare_exit(muggle_event_loop_t *ev) { (void)ev; vs_note("exitcb"); }
static void any_timer(muggle_event_loop_t *ev) { (void)ev; vs_note("timer"); }
static void cb_msg(muggle_event_loop_t *ev, muggle_socket_context_t *ctx)
{
	(void)ev;
	char buf[64];
	vs_note("msg %d", ctx_id(ctx));
	while (muggle_socket_ctx_read(ctx, buf, sizeof(buf)) > 0);
}

static void thread_body(void *arg);

static void create_all(void)
{
	muggle_event_loop_init_args_t a;
	memset(&a, 0, sizeof(a));
	a.evloop_type = be_type;
	a.hints_max_fd = hints;
	a.use_mem_pool = 0;
	evloop = muggle_evloop_new(&a);
	if (!evloop) { vs_note("evloop_new failed"); return; }
	if (bare) {
		if (HAS('w')) muggle_evloop_set_cb_wake(evloop, bare_wake);
		if (HAS('r')) muggle_evloop_set_cb_read(evloop, bare_read);
		if (HAS('c')) muggle_evloop_set_cb_close(evloop, bare_close);
		if (HAS('l')) muggle_evloop_set_cb_clear(evloop, bare_clear);
		if (HAS('x')) muggle_evloop_set_cb_exit(evloop, bare_exit);
		if (HAS('t')) muggle_evloop_set_cb_timer(evloop, any_timer);
		for (int i = 0; i < bare_nctx; i++) {
			int sv[2] = { -1, -1 };
			if (socketpair(AF_UNIX, SOCK_STREAM, 0, sv) != 0) { vs_note("socketpair failed"); break; }
			bare_ctx[i] = (muggle_event_context_t *)malloc(sizeof(muggle_event_context_t));
			muggle_ev_ctx_init(bare_ctx[i], sv[0], (void *)(intptr_t)i);
			bare_peer[i] = sv[1];
			if (muggle_evloop_add_ctx(evloop, bare_ctx[i]) != 0) vs_note("add_ctx failed %d", i);
		}
	} else {
		muggle_socket_evloop_handle_init(&handle);
		if (HAS('a')) muggle_socket_evloop_handle_set_cb_add_ctx(&handle, cb_add_ctx);
		if (HAS('r')) muggle_socket_evloop_handle_set_cb_release(&handle, cb_release);
		if (HAS('c')) muggle_socket_evloop_handle_set_cb_close(&handle, cb_close);
		if (HAS('w')) muggle_socket_evloop_handle_set_cb_wake(&handle, cb_wake);
		if (HAS('m')) muggle_socket_evloop_handle_set_cb_msg(&handle, cb_msg);
		if (HAS('t')) muggle_socket_evloop_handle_set_cb_timer(&handle, any_timer);
		muggle_socket_evloop_handle_set_alloc_free(&handle, NULL, cb_alloc, cb_free);
		muggle_socket_evloop_handle_attach(&handle, evloop);
		vs_name(&handle.mtx->mtx, "hmtx");
	}
	vs_io_set_signal_fd(muggle_ev_signal_rfd(evloop->ev_signal));
	for (int t = 1; t < nthr; t++) vs_spawn(thread_body, (void *)(intptr_t)t);
	vs_note("created");
}

static void handover(void)
{
	int id = g_nctx++;
	int sv[2] = { -1, -1 };
	if (id >= MAXCTX || socketpair(AF_UNIX, SOCK_STREAM, 0, sv) != 0) { vs_note("socketpair failed"); return; }
	muggle_socket_context_t *ctx = cb_alloc(NULL);
	muggle_socket_ctx_init(ctx, sv[0], (void *)(intptr_t)id, MUGGLE_SOCKET_CTX_TYPE_TCP_CLIENT);
	peers[id] = sv[1];
	ctxs[id] = ctx;
	g_live++;
	vs_name(&ctx->base.ref_cnt, "ref%d", id);
	vs_note("op h %d", id);
	muggle_socket_evloop_add_ctx(evloop, ctx);
}

static void thread_body(void *arg)
{
	int t = (int)(intptr_t)arg;
	if (t == 0) create_all();
	if (!evloop) return;
	const char *s = scripts[t];
	for (int k = 0; s[k]; k++) {
		vs_yield_point("op");
		switch (s[k]) {
		case 'w': vs_note("op w %d", k); muggle_evloop_wakeup(evloop); break;
		case 'h':
			if (bare) { vs_note("op w %d", k); muggle_evloop_wakeup(evloop); }
			else handover();
			break;
		case 'x': vs_note("op x %d", k); muggle_evloop_exit(evloop); break;
		default: break;
		}
		vs_note("done %d", k);
	}
	vs_yield_point("op");
	if (t == loopthr) {
		muggle_evloop_run(evloop);
		g_returned = 1;
		vs_note("returned");
	}
}

static void case_begin(void)
{
	strcpy(sched, "rand 1 50 0 0");
	be_name[0] = 0; nthr = 0; loopthr = 0; hints = 8; budget = 20000;
	bare = 0; bare_nctx = 0; strcpy(cbflags, "warcmt");
	memset(scripts, 0, sizeof(scripts));
}

static void case_line(char *line)
{
	char op[32];
	if (sscanf(line, "%31s", op) != 1) return;
	if (strcmp(op, "sched") == 0) { snprintf(sched, sizeof(sched), "%s", line + 6); return; }
	if (strcmp(op, "loop") == 0) {
		sscanf(line, "%*s %15s %d %d", be_name, &loopthr, &hints);
		be_type = strcmp(be_name, "select") == 0 ? MUGGLE_EVLOOP_TYPE_SELECT :
		          strcmp(be_name, "poll") == 0 ? MUGGLE_EVLOOP_TYPE_POLL : MUGGLE_EVLOOP_TYPE_EPOLL;
	} else if (strcmp(op, "thr") == 0) {
		if (nthr < VS_MAXT) {
			char sc[32] = "";
			sscanf(line, "%*s %31s", sc);
			if (strcmp(sc, "-") == 0) sc[0] = 0;
			snprintf(scripts[nthr], sizeof(scripts[nthr]), "%s", sc);
			nthr++;
		}
	} else if (strcmp(op, "cb") == 0) {
		char mode[16] = "", fl[16] = "";
		int n = 0;
		sscanf(line, "%*s %15s %15s %d", mode, fl, &n);
		bare = strcmp(mode, "bare") == 0;
		if (strcmp(fl, "-") == 0) fl[0] = 0;
		snprintf(cbflags, sizeof(cbflags), "%s", fl);
		bare_nctx = bare ? (n < 0 ? 0 : n > 8 ? 8 : n) : 0;
	} else if (strcmp(op, "budget") == 0) {
		sscanf(line, "%*s %ld", &budget);
	}
}

static void case_end(void)
{
	if (!be_name[0] || nthr <= 0 || loopthr < 0 || loopthr >= nthr) { printf("F badcase\n"); return; }
	muggle_event_lib_init();
	vs_reset();
	vs_io_reset();
	vs_set_budget(budget);
	vs_set_schedule(sched);
	evloop = NULL; g_nctx = g_live = g_returned = 0;
	memset(freed, 0, sizeof(freed));
	for (int i = 0; i < MAXCTX; i++) { peers[i] = -1; ctxs[i] = NULL; }
	for (int i = 0; i < 8; i++) { bare_ctx[i] = NULL; bare_peer[i] = -1; }
	vs_spawn(thread_body, (void *)(intptr_t)0);
	int st = vs_run();
	int late = 0;
	if (st == 0 && evloop && !bare) {
		/* owner clean-up after run() has returned and every thread has finished: contexts
		 * handed over too late to be seen by the exit callback are still queued */
		while (muggle_queue_size(handle.ctx_queue) > 0) {
			muggle_queue_node_t *node = muggle_queue_front(handle.ctx_queue);
			muggle_socket_context_t *ctx = (muggle_socket_context_t *)node->data;
			muggle_socket_ctx_close(ctx);
			free(ctx);
			g_live--;
			late++;
			muggle_queue_dequeue(handle.ctx_queue, NULL, NULL);
		}
	}
	printf("F returned=%d live=%d late=%d\n", g_returned, g_live, late);
	if (st != 0) {
		printf("END\n");
		fflush(stdout);
		_exit(77);
	}
	for (int i = 0; i < MAXCTX; i++) if (peers[i] >= 0) close(peers[i]);
	for (int i = 0; i < 8; i++) {
		if (bare_ctx[i]) { muggle_ev_ctx_close(bare_ctx[i]); free(bare_ctx[i]); bare_ctx[i] = NULL; }
		if (bare_peer[i] >= 0) { close(bare_peer[i]); bare_peer[i] = -1; }
	}
	if (evloop) {
		if (!bare) muggle_socket_evloop_handle_destroy(&handle);
		muggle_evloop_delete(evloop);
		evloop = NULL;
	}
	vs_io_reset();
}

int main(void) { return vdrv_main(); }
