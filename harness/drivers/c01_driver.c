/* C01 implementation driver: channel (4 writer-lock kinds x 3 reader modes), array blocking
 * queue and double buffer run under the deterministic scheduler (harness/vsched).
 * Case lines:
 *   chan <mutex|sync|spin|single> <sync|mutex|busy> <requested capacity> <nread> <k1> <k2> ...
 *        one reader (thread 0) that reads <nread> messages; writer i (thread i) sends k_i
 *        messages tagged i*100+j; a writer retries on FULL after a harness yield point
 *   chanflags <flags> <requested capacity> <nread> <k1> <k2> ...
 *        the same with the RAW flags integer handed to muggle_channel_init (valid, invalid and
 *        out-of-range selectors in either nibble, higher bits); which lock / mode that selects is
 *        NOT decided here: the cells are named after what init created
 *   abq <capacity> <nproducers> <k1> .. <kP> <c1> .. <cC>
 *        producers are threads 0..P-1 (tags (i+1)*100+j), consumers take c_i items each
 *   dbuf <capacity> <nonblocking 0|1> <total> <k1> <k2> ...
 *        reader (thread 0) reads batches until <total> items have arrived; writers as for chan
 *   v <tag>:<code> ...   (channel) message <tag> carries the pointer value <code> instead of the address of its
 *        own payload: -1 NULL, -3 (void*)-1, -10-n the small integer n, 9000+k the address of the shared
 *        harness object k (k < 8; several messages may carry it: repeated values).  The reader reports the
 *        canonical code of what it received ("got") and dereferences it only when it is a harness object
 *   bigfill <flags> <requested capacity> <drain>
 *        single-threaded, WITHOUT the scheduler (the hooks are transparent outside vs_run): fill until FULL,
 *        read <drain> messages, fill until FULL again, read everything; cursors cross 2^16 for capacities
 *        > 65536 (field widths).  Output: one summary line
 *   maxtry <n>      a writer gives a message up after n FULL results (0 = never)
 *   sched <spec>    (see vsched.h)
 * Every message points to a harness-owned payload whose field the producer writes just before
 * the hand-over and the consumer checks after it ("fld" note).
 * Output: the event trace, then summary lines "F ...". */
#include "vdrv.h"
#include <unistd.h>
#include <stdint.h>
#include "vsched/vsched.h"
#include "muggle/c/base/err.h"
#include "muggle/c/sync/channel.h"
#include "muggle/c/sync/array_blocking_queue.h"
#include "muggle/c/sync/double_buffer.h"

#define MAXW 8
#define MAXK 64

typedef struct { int tag; volatile int field; } payload_t;

static char scen[16], sched[4096];
static int wkind, rmode, reqcap, nread, nw, maxtry;
static int rawflags, cflags;    /* chanflags: the flags argument as given */
static long bigdrain;
static int kmsg[MAXW + 1];        /* per writer/producer message count (index 1..nw) */
static int ctake[MAXW + 1], ncons;
static int nonblock, total;
static payload_t pay[MAXW + 1][MAXK];
#define NSHARED 8
static payload_t shared[NSHARED];            /* objects several messages may point to (tags 9000+k) */
static long valcode[MAXW + 1][MAXK];         /* pointer value a message carries; 0x7fffffff = its own payload */
#define OWNVAL 0x7fffffffL

static void *ptr_of(int w, int i)
{
	long c = valcode[w][i];
	if (c == OWNVAL) return &pay[w][i];
	if (c == -1) return NULL;
	if (c == -3) return (void *)(intptr_t)-1;
	if (c <= -10 && c > -10 - 4096) return (void *)(intptr_t)(-10 - c);
	if (c >= 9000 && c < 9000 + NSHARED) return &shared[c - 9000];
	return &pay[w][i];
}

static muggle_channel_t chan;
static muggle_array_blocking_queue_t abq;
static muggle_double_buffer_t dbuf;
static int n_acc, n_del;

static int is_object(void *p)
{
	char *b = (char *)pay, *c = (char *)shared, *q = (char *)p;
	if (q >= b && q < b + sizeof(pay)) return (unsigned long)(q - b) % sizeof(payload_t) == 0;
	if (q >= c && q < c + sizeof(shared)) return (unsigned long)(q - c) % sizeof(payload_t) == 0;
	return 0;
}

static int payload_id(void *p)
{
	if (p == NULL) return -1;
	if (p == (void *)(intptr_t)-1) return -3;
	if ((uintptr_t)p < 4096) return -10 - (int)(uintptr_t)p;
	if (!is_object(p)) return -2;
	return ((payload_t *)p)->tag;
}

static void note_got(void *p)
{
	int id = payload_id(p);
	int fld = is_object(p) ? ((payload_t *)p)->field : -1;
	vs_note("got %d", id);
	vs_note("fld %d", fld);
	n_del++;
}

/* ---------------- channel ---------------- */
static void chan_reader(void *arg)
{
	(void)arg;
	for (int j = 0; j < nread; j++) {
		void *p = muggle_channel_read(&chan);
		note_got(p);
	}
}

static void chan_writer(void *arg)
{
	int w = (int)(long)arg;
	for (int i = 0; i < kmsg[w]; i++) {
		payload_t *pl = &pay[w][i];
		int tries = 0;
		pl->field = pl->tag + 1000;
		vs_note("put %d", pl->tag);
		for (;;) {
			int rc = muggle_channel_write(&chan, ptr_of(w, i));
			if (rc == MUGGLE_OK) { n_acc++; vs_note("ok %d", pl->tag); break; }
			if (rc != MUGGLE_ERR_FULL) { vs_note("err %d", rc); break; }
			vs_note("full %d", pl->tag);
			if (maxtry && ++tries >= maxtry) { vs_note("giveup %d", pl->tag); break; }
			vs_yield_point("retry");
		}
	}
}

/* ---------------- array blocking queue ---------------- */
static void abq_producer(void *arg)
{
	int w = (int)(long)arg;
	for (int i = 0; i < kmsg[w]; i++) {
		payload_t *pl = &pay[w][i];
		pl->field = pl->tag + 1000;
		vs_note("put %d", pl->tag);
		int rc = muggle_array_blocking_queue_put(&abq, pl);
		if (rc == MUGGLE_OK) { n_acc++; vs_note("ok %d", pl->tag); }
		else vs_note("err %d", rc);
	}
}
static void abq_consumer(void *arg)
{
	int c = (int)(long)arg;
	for (int i = 0; i < ctake[c]; i++) {
		void *p = muggle_array_blocking_queue_take(&abq);
		note_got(p);
	}
}

/* ---------------- double buffer ---------------- */
static void dbuf_reader(void *arg)
{
	(void)arg;
	int got = 0;
	while (got < total) {
		muggle_single_buffer_t *b = muggle_double_buffer_read(&dbuf);
		int n = b ? b->cnt : -1;
		vs_note("batch %d", n);
		for (int i = 0; i < n; i++) { note_got(b->datas[i]); got++; }
	}
}
static void dbuf_writer(void *arg)
{
	int w = (int)(long)arg;
	for (int i = 0; i < kmsg[w]; i++) {
		payload_t *pl = &pay[w][i];
		int tries = 0;
		pl->field = pl->tag + 1000;
		vs_note("put %d", pl->tag);
		for (;;) {
			int rc = muggle_double_buffer_write(&dbuf, pl);
			if (rc == MUGGLE_OK) { n_acc++; vs_note("ok %d", pl->tag); break; }
			if (rc != MUGGLE_ERR_FULL) { vs_note("err %d", rc); break; }
			vs_note("full %d", pl->tag);
			if (maxtry && ++tries >= maxtry) { vs_note("giveup %d", pl->tag); break; }
			vs_yield_point("retry");
		}
	}
}

/* ---------------- protocol ---------------- */
static void case_begin(void)
{
	scen[0] = 0; strcpy(sched, "rand 1 50 0 0"); nw = 0; ncons = 0; maxtry = 0; rawflags = 0; cflags = 0;
	for (int w = 0; w <= MAXW; w++) for (int i = 0; i < MAXK; i++) valcode[w][i] = OWNVAL;
}

static int kind_of(const char *s)
{
	return strcmp(s, "mutex") == 0 ? 0 : strcmp(s, "sync") == 0 ? 1 : strcmp(s, "spin") == 0 ? 2 : 3;
}
static int rmode_of(const char *s)
{
	return strcmp(s, "sync") == 0 ? 0 : strcmp(s, "mutex") == 0 ? 1 : 2;
}

static void case_line(char *line)
{
	char op[32];
	int used = 0;
	if (sscanf(line, "%31s%n", op, &used) != 1) return;
	char *p = line + used;
	if (strcmp(op, "sched") == 0) { while (*p == ' ') p++; snprintf(sched, sizeof(sched), "%s", p); return; }
	if (strcmp(op, "maxtry") == 0) { sscanf(p, "%d", &maxtry); return; }
	if (strcmp(op, "v") == 0) {
		int tg; long c;
		while (sscanf(p, " %d:%ld%n", &tg, &c, &used) == 2) {
			p += used;
			if (tg >= 0 && tg / 100 <= MAXW && tg % 100 < MAXK) valcode[tg / 100][tg % 100] = c;
		}
		return;
	}
	if (strcmp(op, "chan") == 0) {
		char a[16], b[16];
		if (sscanf(p, "%15s %15s %d %d%n", a, b, &reqcap, &nread, &used) != 4) return;
		p += used;
		wkind = kind_of(a); rmode = rmode_of(b);
		nw = 0;
		int k;
		while (nw < MAXW && sscanf(p, "%d%n", &k, &used) == 1) { p += used; kmsg[++nw] = k; }
		strcpy(scen, "chan");
	} else if (strcmp(op, "chanflags") == 0) {
		if (sscanf(p, "%d %d %d%n", &cflags, &reqcap, &nread, &used) != 3) return;
		p += used;
		rawflags = 1;
		nw = 0;
		int k;
		while (nw < MAXW && sscanf(p, "%d%n", &k, &used) == 1) { p += used; kmsg[++nw] = k; }
		strcpy(scen, "chan");
	} else if (strcmp(op, "bigfill") == 0) {
		if (sscanf(p, "%d %d %ld", &cflags, &reqcap, &bigdrain) != 3) return;
		nw = 1;
		strcpy(scen, "bigfill");
	} else if (strcmp(op, "abq") == 0) {
		int np, k;
		if (sscanf(p, "%d %d%n", &reqcap, &np, &used) != 2) return;
		p += used;
		nw = 0; ncons = 0;
		while (nw < np && nw < MAXW && sscanf(p, "%d%n", &k, &used) == 1) { p += used; kmsg[++nw] = k; }
		while (ncons < MAXW && sscanf(p, "%d%n", &k, &used) == 1) { p += used; ctake[ncons++] = k; }
		strcpy(scen, "abq");
	} else if (strcmp(op, "dbuf") == 0) {
		int k;
		if (sscanf(p, "%d %d %d%n", &reqcap, &nonblock, &total, &used) != 3) return;
		p += used;
		nw = 0;
		while (nw < MAXW && sscanf(p, "%d%n", &k, &used) == 1) { p += used; kmsg[++nw] = k; }
		strcpy(scen, "dbuf");
	}
}

static void finish(int st)
{
	if (st != 0) {
		/* threads are parked for ever: finish the case and ask the runner to restart us */
		printf("END\n");
		fflush(stdout);
		_exit(77);
	}
}

/* single-threaded fill / drain of a large ring; message k is the opaque value 4096 + k */
static void run_bigfill(void)
{
	if (reqcap <= 0 || reqcap > (1 << 18) || bigdrain < 0) { printf("F badcase\n"); return; }
	int rc = muggle_channel_init(&chan, (muggle_sync_t)reqcap, cflags);
	printf("F init %d cap=%u\n", rc, (unsigned)chan.capacity);
	if (rc != 0) return;
	long sent = 0, got = 0, fill1 = 0, fill2 = 0, bad = -1, limit = 4L * (1 << 18);
	while (sent < limit && muggle_channel_write(&chan, (void *)(uintptr_t)(4096 + sent)) == MUGGLE_OK) { sent++; fill1++; }
	int again = muggle_channel_write(&chan, (void *)(uintptr_t)(4096 + sent));   /* still FULL */
	for (long k = 0; k < bigdrain && got < sent; k++) {
		void *p = muggle_channel_read(&chan);
		if (bad < 0 && p != (void *)(uintptr_t)(4096 + got)) bad = got;
		got++;
	}
	while (sent < limit && muggle_channel_write(&chan, (void *)(uintptr_t)(4096 + sent)) == MUGGLE_OK) { sent++; fill2++; }
	while (got < sent) {
		void *p = muggle_channel_read(&chan);
		if (bad < 0 && p != (void *)(uintptr_t)(4096 + got)) bad = got;
		got++;
	}
	printf("F big fill1=%ld refused=%d fill2=%ld read=%ld bad=%ld wcur=%u rcur=%u\n", fill1, again != MUGGLE_OK, fill2, got, bad,
	       (unsigned)chan.write_cursor, (unsigned)chan.read_cursor);
	muggle_channel_destroy(&chan);
}

static void case_end(void)
{
	if (strcmp(scen, "bigfill") == 0) { run_bigfill(); return; }
	int bad = !scen[0] || nw <= 0 || nw > MAXW || reqcap <= 0 || reqcap > 64;
	for (int i = 1; i <= nw && !bad; i++) if (kmsg[i] < 0 || kmsg[i] > MAXK) bad = 1;
	if (bad) { printf("F badcase\n"); return; }
	for (int w = 0; w <= MAXW; w++)
		for (int i = 0; i < MAXK; i++) { pay[w][i].tag = w * 100 + i; pay[w][i].field = 0; }
	for (int k = 0; k < NSHARED; k++) { shared[k].tag = 9000 + k; shared[k].field = 9000 + k + 1000; }
	n_acc = n_del = 0;
	vs_reset();
	vs_set_schedule(sched);
	if (strcmp(scen, "chan") == 0) {
		int rc = muggle_channel_init(&chan, (muggle_sync_t)reqcap, rawflags ? cflags : (wkind | (rmode << 4)));
		printf("F init %d cap=%u\n", rc, (unsigned)chan.capacity);
		if (rc != 0) return;
		vs_name(&chan.write_cursor, "wcur");
		vs_name(&chan.read_cursor, "rcur");
		if (rawflags) {
			/* named after what init created (init_flags bit 0 = write mutex, as in c01_dispatch.c;
			 * memset by init, so read_mutex / read_cv are NULL unless created) */
			if ((chan.init_flags & 1) && chan.write_mutex) vs_name(&chan.write_mutex->mtx, "wlock");
			else vs_name(&chan.write_synclock, "wlock");
			if (chan.read_mutex) vs_name(&chan.read_mutex->mtx, "rmx");
			if (chan.read_cv) vs_name(&chan.read_cv->cond_var, "rcv");
		} else {
			if (wkind == 0) vs_name(&chan.write_mutex->mtx, "wlock");
			else vs_name(&chan.write_synclock, "wlock");
			if (rmode == 1) {
				vs_name(&chan.read_mutex->mtx, "rmx");
				vs_name(&chan.read_cv->cond_var, "rcv");
			}
		}
		vs_spawn(chan_reader, NULL);
		for (int w = 1; w <= nw; w++) vs_spawn(chan_writer, (void *)(long)w);
		int st = vs_run();
		printf("F acc=%d del=%d wcur=%u rcur=%u\n", n_acc, n_del, (unsigned)chan.write_cursor, (unsigned)chan.read_cursor);
		finish(st);
		muggle_channel_destroy(&chan);
	} else if (strcmp(scen, "abq") == 0) {
		int rc = muggle_array_blocking_queue_init(&abq, reqcap);
		printf("F init %d cap=%d\n", rc, abq.capacity);
		if (rc != 0) return;
		vs_name(&abq.mutex.mtx, "mx");
		vs_name(&abq.cv_not_empty.cond_var, "cvne");
		vs_name(&abq.cv_not_full.cond_var, "cvnf");
		for (int w = 1; w <= nw; w++) vs_spawn(abq_producer, (void *)(long)w);
		for (int c = 0; c < ncons; c++) vs_spawn(abq_consumer, (void *)(long)c);
		int st = vs_run();
		printf("F acc=%d del=%d cnt=%d put=%d take=%d\n", n_acc, n_del, abq.cnt, abq.put_idx, abq.take_idx);
		finish(st);
		muggle_array_blocking_queue_destroy(&abq);
	} else {
		int rc = muggle_double_buffer_init(&dbuf, reqcap, nonblock);
		printf("F init %d cap=%d\n", rc, dbuf.capacity);
		if (rc != 0) return;
		vs_name(&dbuf.mutex.mtx, "mx");
		vs_name(&dbuf.cv_not_empty.cond_var, "cvne");
		vs_name(&dbuf.cv_not_full.cond_var, "cvnf");
		vs_spawn(dbuf_reader, NULL);
		for (int w = 1; w <= nw; w++) vs_spawn(dbuf_writer, (void *)(long)w);
		int st = vs_run();
		printf("F acc=%d del=%d back=%d\n", n_acc, n_del, dbuf.back->cnt);
		finish(st);
		muggle_double_buffer_destroy(&dbuf);
	}
}

int main(void) { return vdrv_main(); }
