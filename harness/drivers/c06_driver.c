/* C06 implementation driver: muggle_memory_pool under ASan.
 *
 * - malloc/free are wrapped (-Wl,--wrap=malloc,--wrap=free).  While a pool
 *   operation is running ("armed") the wrapper numbers the malloc calls of that
 *   operation, refuses requests > 1 GiB, and fails the k-th call on command
 *   (`failnext k`).  Every armed allocation is recorded (address, size) so that
 *   the data slabs listed in pool->memory_pool_data_bufs[] can be given their
 *   real size; a free() of a recorded data slab while the pool is alive is
 *   reported.
 * - Block identities are printed as <slab index>:<offset / block_size> (never
 *   addresses); a pointer that is not a whole block inside a slab prints as
 *   <slab>:<q>+<r> or `outside`.
 * - Every live block that lies inside a slab is filled with a pattern derived
 *   from its allocation serial number and all live blocks are re-verified
 *   after every operation (contents preservation across growth).
 *
 * Lines:  init <cap> <bs> | alloc | free <k> | ensure <n> | flag <v> |
 *         maxdelta <v> | failnext <k> | destroy | wrapprobe <cap> <mdc>
 * wrapprobe: a pool of >= 2^31 blocks needs a 16 GiB pointer ring, so the state
 *   "full pool whose capacity + growth step wraps uint32" is synthesised by
 *   writing the public struct fields capacity/used/max_delta_cap around one
 *   call of muggle_memory_pool_alloc (fields restored afterwards); only run
 *   when the sum really wraps, so ensure_space never touches the ring.
 * Every state line ends with  cap=<capacity> used=<used> nslab=<num_buf> lastsz=<bytes of last slab>
 */
#include "vdrv.h"
#include "muggle/c/memory/memory_pool.h"

#define MAX_REQ ((size_t)1 << 30)

void *__real_malloc(size_t n);
void __real_free(void *p);

typedef struct { void *p; size_t n; int freed; } rec_t;
static rec_t *recs;
static size_t nrecs, caprecs;
static int armed, call_no, fail_at, refused;
static int slab_freed_alive;   /* a data slab of the living pool was freed */

static muggle_memory_pool_t pool;
static int have_pool;

static int is_current_slab(void *p)
{
	if (!have_pool || pool.memory_pool_data_bufs == NULL) return 0;
	for (uint32_t i = 0; i < pool.num_buf; i++)
		if (pool.memory_pool_data_bufs[i] == p) return 1;
	return 0;
}

void *__wrap_malloc(size_t n)
{
	if (!armed) return __real_malloc(n);
	int k = ++call_no;
	if (k == fail_at) { refused++; return NULL; }
	if (n > MAX_REQ) { refused++; return NULL; }
	void *p = __real_malloc(n);
	if (p) {
		int was = armed;
		armed = 0;
		if (nrecs == caprecs) {
			caprecs = caprecs ? caprecs * 2 : 64;
			rec_t *nr = (rec_t *)__real_malloc(caprecs * sizeof(rec_t));
			if (recs) { memcpy(nr, recs, nrecs * sizeof(rec_t)); __real_free(recs); }
			recs = nr;
		}
		recs[nrecs].p = p; recs[nrecs].n = n; recs[nrecs].freed = 0;
		nrecs++;
		armed = was;
	}
	return p;
}

void __wrap_free(void *p)
{
	if (armed == 1 && p && is_current_slab(p)) slab_freed_alive = 1;
	if (p) for (size_t i = nrecs; i-- > 0;) if (recs[i].p == p && !recs[i].freed) { recs[i].freed = 1; break; }
	__real_free(p);
}

/* size of the live recorded allocation starting at p, or -1 */
static long long rec_size(void *p)
{
	for (size_t i = nrecs; i-- > 0;) if (recs[i].p == p && !recs[i].freed) return (long long)recs[i].n;
	return -1;
}

typedef struct { void *p; uint64_t serial; int inside; } live_t;
static live_t *live;
static size_t nlive, caplive;
static uint64_t serial;
static void *slab_seen[4096];
static uint32_t nslab_seen;

static void op_begin(void) { armed = 1; call_no = 0; refused = 0; }
static void op_end(void) { armed = 0; fail_at = 0; }

/* identity of a pointer relative to the pool's slabs; returns 1 when it is a whole block inside a slab */
static int ident(void *p, char *out, size_t outsz)
{
	uintptr_t a = (uintptr_t)p;
	for (uint32_t i = 0; i < pool.num_buf; i++) {
		uintptr_t b = (uintptr_t)pool.memory_pool_data_bufs[i];
		long long sz = rec_size(pool.memory_pool_data_bufs[i]);
		if (sz < 0) continue;
		if (a >= b && a < b + (uintptr_t)sz) {
			uint64_t off = a - b, q = off / pool.block_size, r = off % pool.block_size;
			int whole = (r == 0) && (off + pool.block_size <= (uint64_t)sz);
			if (r == 0) snprintf(out, outsz, "%u:%" PRIu64 "%s", i, q, whole ? "" : "+0!");
			else snprintf(out, outsz, "%u:%" PRIu64 "+%" PRIu64, i, q, r);
			return whole;
		}
	}
	snprintf(out, outsz, "outside");
	return 0;
}

static unsigned char pat(uint64_t s, uint32_t j) { return (unsigned char)(s * 131u + j * 7u + 1u); }
static void fill(live_t *b)
{
	if (!b->inside) return;
	unsigned char *c = (unsigned char *)b->p;
	uint32_t n = pool.block_size > 64 ? 64 : pool.block_size;
	for (uint32_t j = 0; j < n; j++) c[j] = pat(b->serial, j);
	/* also the last byte of large blocks */
	if (pool.block_size > 64) c[pool.block_size - 1] = pat(b->serial, 999);
}
static int intact(live_t *b)
{
	if (!b->inside) return 1;
	unsigned char *c = (unsigned char *)b->p;
	uint32_t n = pool.block_size > 64 ? 64 : pool.block_size;
	for (uint32_t j = 0; j < n; j++) if (c[j] != pat(b->serial, j)) return 0;
	if (pool.block_size > 64 && c[pool.block_size - 1] != pat(b->serial, 999)) return 0;
	return 1;
}

static void state_line(const char *head)
{
	long long lastsz = -1;
	if (have_pool && pool.num_buf > 0) lastsz = rec_size(pool.memory_pool_data_bufs[pool.num_buf - 1]);
	printf("%s cap=%u used=%u nslab=%u lastsz=%lld\n", head, pool.capacity, pool.used, pool.num_buf, lastsz);
}

/* after every operation: slabs neither freed nor moved, live contents intact */
static void post_checks(void)
{
	char id[64];
	if (!have_pool) return;
	if (slab_freed_alive) { printf("SLABFREED\n"); slab_freed_alive = 0; }
	for (uint32_t i = 0; i < nslab_seen && i < pool.num_buf; i++)
		if (slab_seen[i] != pool.memory_pool_data_bufs[i]) printf("SLABMOVED %u\n", i);
	for (uint32_t i = nslab_seen; i < pool.num_buf && i < 4096; i++) slab_seen[i] = pool.memory_pool_data_bufs[i];
	nslab_seen = pool.num_buf < 4096 ? pool.num_buf : 4096;
	for (uint32_t i = 0; i < nslab_seen; i++)
		if (rec_size(slab_seen[i]) < 0) printf("SLABGONE %u\n", i);
	for (size_t i = 0; i < nlive; i++)
		if (!intact(&live[i])) { ident(live[i].p, id, sizeof id); printf("CORRUPT %s\n", id); fill(&live[i]); }
}

static void drop_pool(void)
{
	if (have_pool) {
		uint32_t n = pool.num_buf;
		size_t before = 0, after = 0;
		for (size_t i = 0; i < nrecs; i++) before += !recs[i].freed;
		armed = 2;
		muggle_memory_pool_destroy(&pool);
		armed = 0;
		for (size_t i = 0; i < nrecs; i++) after += !recs[i].freed;
		/* n slabs + the slab array + the pointer ring */
		printf("destroy slabs=%u released=%zu leaked=%zu\n", n, before - after, after);
		have_pool = 0;
	}
	nlive = 0; nrecs = 0; nslab_seen = 0; slab_freed_alive = 0;
}

static void case_begin(void) { have_pool = 0; nlive = 0; nrecs = 0; serial = 0; fail_at = 0; nslab_seen = 0; }
static void case_end(void) { drop_pool(); }

static void case_line(char *line)
{
	char op[32], id[64], head[128];
	unsigned long long a = 0, b = 0;
	if (sscanf(line, "%31s", op) != 1) return;
	if (strcmp(op, "init") == 0) {
		drop_pool();
		sscanf(line, "%*s %llu %llu", &a, &b);
		op_begin();
		bool ok = muggle_memory_pool_init(&pool, (uint32_t)a, (uint32_t)b);
		op_end();
		if (ok) {
			have_pool = 1;
			snprintf(head, sizeof head, "init ok mdc=%u", pool.max_delta_cap);
			state_line(head);
			post_checks();
		} else {
			size_t left = 0;
			for (size_t i = 0; i < nrecs; i++) left += !recs[i].freed;
			printf("init fail leaked=%zu\n", left);
			nrecs = 0;
		}
		return;
	}
	if (strcmp(op, "failnext") == 0) {
		sscanf(line, "%*s %llu", &a);
		fail_at = (int)a;
		printf("failnext %d\n", fail_at);
		return;
	}
	if (!have_pool) { printf("nopool\n"); return; }
	if (strcmp(op, "alloc") == 0) {
		op_begin();
		void *p = muggle_memory_pool_alloc(&pool);
		op_end();
		if (p == NULL) {
			state_line("alloc NULL");
		} else {
			int whole = ident(p, id, sizeof id);
			if (nlive == caplive) {
				caplive = caplive ? caplive * 2 : 64;
				live = (live_t *)realloc(live, caplive * sizeof(live_t));
			}
			/* do not write into a block that is already live (would hide nothing: report via ids) */
			int dup = 0;
			for (size_t i = 0; i < nlive; i++) if (live[i].p == p) dup = 1;
			live[nlive].p = p; live[nlive].serial = ++serial; live[nlive].inside = whole && !dup;
			fill(&live[nlive]);
			nlive++;
			snprintf(head, sizeof head, "alloc %s", id);
			state_line(head);
		}
	} else if (strcmp(op, "free") == 0) {
		sscanf(line, "%*s %llu", &a);
		if (a >= nlive) { printf("free none\n"); return; }
		size_t k = (size_t)a;
		ident(live[k].p, id, sizeof id);
		void *p = live[k].p;
		memmove(&live[k], &live[k + 1], (nlive - k - 1) * sizeof(live_t));
		nlive--;
		op_begin();
		muggle_memory_pool_free(&pool, p);
		op_end();
		snprintf(head, sizeof head, "free %s", id);
		state_line(head);
	} else if (strcmp(op, "ensure") == 0) {
		sscanf(line, "%*s %llu", &a);
		op_begin();
		bool ok = muggle_memory_pool_ensure_space(&pool, (uint32_t)a);
		op_end();
		state_line(ok ? "ensure 1" : "ensure 0");
	} else if (strcmp(op, "flag") == 0) {
		sscanf(line, "%*s %llu", &a);
		muggle_memory_pool_set_flag(&pool, (uint32_t)a);
		printf("flag %u\n", muggle_memory_pool_get_flag(&pool));
	} else if (strcmp(op, "maxdelta") == 0) {
		sscanf(line, "%*s %llu", &a);
		muggle_memory_pool_set_max_delta_cap(&pool, (uint32_t)a);
		printf("maxdelta %u\n", pool.max_delta_cap);
	} else if (strcmp(op, "wrapprobe") == 0) {
		sscanf(line, "%*s %llu %llu", &a, &b);
		uint64_t delta = a;
		if (b > 0 && delta > b) delta = b;
		if (a == 0 || a > 0xffffffffULL || a + delta < 0x100000000ULL || pool.used >= pool.capacity) {
			printf("wrapprobe skip\n");
			return;
		}
		muggle_memory_pool_t saved = pool;
		pool.capacity = (uint32_t)a; pool.used = (uint32_t)a; pool.max_delta_cap = (uint32_t)b;
		op_begin();
		fail_at = 1;
		void *p = muggle_memory_pool_alloc(&pool);
		op_end();
		int same_arrays = pool.memory_pool_ptr_buf == saved.memory_pool_ptr_buf &&
			pool.memory_pool_data_bufs == saved.memory_pool_data_bufs && pool.num_buf == saved.num_buf;
		pool = saved;
		printf("wrapprobe %s%s\n", p ? "BLOCK" : "NULL", same_arrays ? "" : " ARRAYS-CHANGED");
		return;
	} else if (strcmp(op, "destroy") == 0) {
		drop_pool();
		return;
	} else {
		printf("?\n");
		return;
	}
	post_checks();
}

int main(void) { return vdrv_main(); }
