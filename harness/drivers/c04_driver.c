/* C04 implementation driver: spinlock / synclock / mutex mutual exclusion, call_once,
 * reference counter, run under the deterministic scheduler (harness/vsched).
 * Case lines:
 *   lock <spin|sync|mutex|try> <nthreads> <iters>      (try: acquire by a muggle_mutex_trylock / yield loop)
 *   once <nthreads> [calls]                          (every racer calls muggle_call_once <calls> times, default 1)
 *   atomics <int|i32|i64|byte> <init> <op> ...        (unhooked smoke run of atomic.h, see c04_atomics.c)
 *   atomics2 <int|i32|i64> <iters>                    (same, two real threads)
 *   refcnt <init> <script0> <script1> ...      script letters: r = retain, d = release
 *   sched <spec>                                (see vsched.h)
 * Output: the event trace, then summary lines "F ...". */
#include "vdrv.h"
#include "vsched/vsched.h"
#include "muggle/c/sync/spinlock.h"
#include "muggle/c/sync/synclock.h"
#include "muggle/c/sync/mutex.h"
#include "muggle/c/sync/call_once.h"
#include "muggle/c/sync/ref_cnt.h"
#include "muggle/c/base/err.h"
#include <sched.h>

/* harness/drivers/c04_atomics.c: the only object compiled without the scheduler hooks */
void c04_atomics_run(const char *variant, long long init, int nops, char **ops);
void c04_atomics_pair(const char *variant, long long iters);

static char scen[64], sched[4096];
static int nthreads, iters, refinit, once_calls;
static char at_line[4096];
static char scripts[VS_MAXT][64];

static muggle_spinlock_t spin;
static muggle_sync_t synclock;
static muggle_mutex_t mutex;
static int kind; /* 0 spin 1 sync 2 mutex 3 mutex through trylock */
static volatile int in_cs, counter, overlaps;

static void lock_thread(void *arg)
{
	(void)arg;
	for (int i = 0; i < iters; i++) {
		if (kind == 0) muggle_spinlock_lock(&spin);
		else if (kind == 1) muggle_synclock_lock(&synclock);
		else if (kind == 2) muggle_mutex_lock(&mutex);
		else { while (muggle_mutex_trylock(&mutex) != MUGGLE_OK) sched_yield(); }
		in_cs++;
		if (in_cs != 1) { overlaps++; vs_note("enter OVERLAP"); } else vs_note("enter");
		int c = counter;
		vs_yield_point("cs");
		counter = c + 1;
		in_cs--;
		vs_note("exit");
		if (kind == 0) muggle_spinlock_unlock(&spin);
		else if (kind == 1) muggle_synclock_unlock(&synclock);
		else muggle_mutex_unlock(&mutex);
	}
}

static muggle_once_flag once_flag;
static volatile int once_runs, once_done;
static void once_func(void)
{
	once_runs++;
	vs_note("func-begin");
	vs_yield_point("body");
	once_done = 1;
	vs_note("func-end");
}
static void once_thread(void *arg)
{
	(void)arg;
	for (int i = 0; i < once_calls; i++) {
		muggle_call_once(&once_flag, once_func);
		vs_note("ret done=%d", once_done);
	}
}

static muggle_ref_cnt_t ref;
static void ref_thread(void *arg)
{
	const char *s = (const char *)arg;
	for (; *s; s++) {
		if (*s == 'r') vs_note("retain %d", muggle_ref_cnt_retain(&ref));
		else if (*s == 'd') vs_note("release %d", muggle_ref_cnt_release(&ref));
	}
}

static void case_begin(void) { scen[0] = 0; strcpy(sched, "rand 1 50 0 0"); nthreads = 0; }

static void case_line(char *line)
{
	char op[32];
	if (sscanf(line, "%31s", op) != 1) return;
	if (strcmp(op, "sched") == 0) { snprintf(sched, sizeof(sched), "%s", line + 6); return; }
	if (strcmp(op, "lock") == 0) {
		char k[16];
		sscanf(line, "%*s %15s %d %d", k, &nthreads, &iters);
		kind = strcmp(k, "spin") == 0 ? 0 : strcmp(k, "sync") == 0 ? 1 : strcmp(k, "try") == 0 ? 3 : 2;
		strcpy(scen, "lock");
	} else if (strcmp(op, "once") == 0) {
		once_calls = 1;
		sscanf(line, "%*s %d %d", &nthreads, &once_calls);
		if (once_calls < 1) once_calls = 1;
		strcpy(scen, "once");
	} else if (strcmp(op, "atomics") == 0 || strcmp(op, "atomics2") == 0) {
		snprintf(at_line, sizeof(at_line), "%s", line);
		strcpy(scen, op);
	} else if (strcmp(op, "refcnt") == 0) {
		char *p = line + 6;
		int used = 0;
		sscanf(p, "%d%n", &refinit, &used);
		p += used;
		nthreads = 0;
		while (nthreads < VS_MAXT && sscanf(p, "%63s%n", scripts[nthreads], &used) == 1) { p += used; nthreads++; }
		strcpy(scen, "refcnt");
	}
}

static void atomics_case(void)
{
	char *tok[256];
	int n = 0;
	for (char *p = strtok(at_line, " \t"); p && n < 256; p = strtok(NULL, " \t")) tok[n++] = p;
	if (strcmp(scen, "atomics2") == 0) {
		if (n != 3) { printf("F badcase\n"); return; }
		c04_atomics_pair(tok[1], atoll(tok[2]));
	} else {
		if (n < 3) { printf("F badcase\n"); return; }
		c04_atomics_run(tok[1], atoll(tok[2]), n - 3, tok + 3);
	}
	printf("F atomics\n");
}

static void case_end(void)
{
	if (strncmp(scen, "atomics", 7) == 0) { atomics_case(); return; }
	if (!scen[0] || nthreads <= 0 || nthreads > VS_MAXT) { printf("F badcase\n"); return; }
	vs_reset();
	vs_set_schedule(sched);
	if (strcmp(scen, "lock") == 0) {
		in_cs = counter = overlaps = 0;
		if (kind == 0) { muggle_spinlock_init(&spin); spin = 0; vs_name(&spin, "lock"); }
		else if (kind == 1) { muggle_synclock_init(&synclock); synclock = 0; vs_name(&synclock, "lock"); }
		else { muggle_mutex_init(&mutex); vs_name(&mutex.mtx, "lock"); }
		for (int i = 0; i < nthreads; i++) vs_spawn(lock_thread, NULL);
	} else if (strcmp(scen, "once") == 0) {
		once_flag = MUGGLE_ONCE_FLAG_INIT; once_runs = once_done = 0;
		vs_name(&once_flag, "flag");
		for (int i = 0; i < nthreads; i++) vs_spawn(once_thread, NULL);
	} else {
		int rc = muggle_ref_cnt_init(&ref, refinit);
		printf("F refinit %d\n", rc);
		if (rc != 0) return;
		vs_name(&ref, "ref");
		for (int i = 0; i < nthreads; i++) vs_spawn(ref_thread, scripts[i]);
	}
	int st = vs_run();
	if (strcmp(scen, "lock") == 0) printf("F counter=%d overlaps=%d\n", counter, overlaps);
	else if (strcmp(scen, "once") == 0) printf("F runs=%d done=%d\n", once_runs, once_done);
	else printf("F ref=%d\n", (int)muggle_ref_cnt_val(&ref));
	if (st != 0) {
		/* threads are parked for ever: finish the case and ask the runner to restart us */
		printf("END\n");
		fflush(stdout);
		_exit(77);
	}
	if (strcmp(scen, "lock") == 0 && kind >= 2) muggle_mutex_destroy(&mutex);
}

#include <unistd.h>
int main(void) { return vdrv_main(); }
