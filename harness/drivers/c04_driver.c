/* C04 implementation driver: spinlock / synclock / mutex mutual exclusion, call_once,
 * reference counter, run under the deterministic scheduler (harness/vsched).
 * Case lines:
 *   lock <spin|sync|mutex|try> <nthreads> <iters>      (try: acquire by a muggle_mutex_trylock / yield loop)
 *   lock <nest|nesttry> <nthreads> <iters>            (mutex; thread 0 locks it AGAIN inside its critical section and,
 *                                                      if that returns OK, unlocks once; the others contend with
 *                                                      muggle_mutex_lock / one muggle_mutex_trylock per iteration)
 *   once <nthreads> [calls]                          (every racer calls muggle_call_once <calls> times, default 1)
 *   oncem <nflags> <script0> <script1> ...            (several once-flags in flight: script = digits, the flags the
 *                                                      thread calls in order, e.g. "010")
 *   mutexreal <reps>                                  (REAL pthread run, no scheduler: see mutex_real())
 *   mutextype                                         (prints the pthread type muggle_mutex_init gave its mutex)
 *   atomics <int|i32|i64|byte> <init> <op> ...        (unhooked smoke run of atomic.h, see c04_atomics.c)
 *   atomics2 <int|i32|i64> <iters>                    (same, two real threads)
 *   refcnt <init> <script0> <script1> ...      script letters: r = retain, d = release
 *   sched <spec>                                (see vsched.h)
 * Output: the event trace, then summary lines "F ...". */
#include "vdrv.h"
#include "vsched/vsched.h"
#include "muggle/c/sync/spinlock.h"
#include "muggle/c/sync/synclock.h"
#include "muggle/c/sync/mutex.h"
#include "muggle/c/sync/call_once.h"
#include "muggle/c/sync/ref_cnt.h"
#include "muggle/c/base/err.h"
#include <sched.h>

/* harness/drivers/c04_atomics.c: the only object compiled without the scheduler hooks */
void c04_atomics_run(const char *variant, long long init, int nops, char **ops);
void c04_atomics_pair(const char *variant, long long iters);

static char scen[64], sched[4096];
static int nthreads, iters, refinit, once_calls;
static char at_line[4096];
static char scripts[VS_MAXT][64];

static muggle_spinlock_t spin;
static muggle_sync_t synclock;
static muggle_mutex_t mutex;
static int kind; /* 0 spin 1 sync 2 mutex 3 mutex through trylock 4 nested, contenders lock 5 nested, contenders trylock */
static volatile int in_cs, counter, overlaps;

static void lock_thread(void *arg)
{
	(void)arg;
	int nest = kind >= 4 && vs_tid() == 0;
	for (int i = 0; i < iters; i++) {
		if (kind == 0) muggle_spinlock_lock(&spin);
		else if (kind == 1) muggle_synclock_lock(&synclock);
		else if (kind == 2 || kind == 4 || nest) muggle_mutex_lock(&mutex);
		else if (kind == 5) { if (muggle_mutex_trylock(&mutex) != MUGGLE_OK) continue; }
		else { while (muggle_mutex_trylock(&mutex) != MUGGLE_OK) sched_yield(); }
		in_cs++;
		if (in_cs != 1) { overlaps++; vs_note("enter OVERLAP"); } else vs_note("enter");
		int c = counter;
		if (nest) {
			/* the owner locks again: a default pthread mutex never returns from this */
			int r = muggle_mutex_lock(&mutex);
			vs_note(r == MUGGLE_OK ? "nested ok" : "nested err");
			if (r == MUGGLE_OK) muggle_mutex_unlock(&mutex);
		}
		vs_yield_point("cs");
		counter = c + 1;
		in_cs--;
		vs_note("exit");
		if (kind == 0) muggle_spinlock_unlock(&spin);
		else if (kind == 1) muggle_synclock_unlock(&synclock);
		else muggle_mutex_unlock(&mutex);
	}
}

#define MAXFLAGS 4
static muggle_once_flag once_flag[MAXFLAGS];
static volatile int once_runs[MAXFLAGS], once_done[MAXFLAGS];
static int nflags;
static char once_scripts[VS_MAXT][64];
static const char *body_name[MAXFLAGS] = {"body", "body1", "body2", "body3"};
static void once_body(int f)
{
	once_runs[f]++;
	vs_note("func-begin %d", f);
	vs_yield_point(body_name[f]);      /* a slow initialiser: the scheduler may run anybody else here */
	once_done[f] = 1;
	vs_note("func-end %d", f);
}
static void once_func0(void) { once_body(0); }
static void once_func1(void) { once_body(1); }
static void once_func2(void) { once_body(2); }
static void once_func3(void) { once_body(3); }
static muggle_once_func once_funcs[MAXFLAGS] = {once_func0, once_func1, once_func2, once_func3};
static void once_thread(void *arg)
{
	const char *sc = (const char *)arg;
	for (; *sc; sc++) {
		int f = *sc - '0';
		muggle_call_once(&once_flag[f], once_funcs[f]);
		vs_note("ret %d done=%d", f, once_done[f]);
	}
}

static muggle_ref_cnt_t ref;
static void ref_thread(void *arg)
{
	const char *s = (const char *)arg;
	for (; *s; s++) {
		if (*s == 'r') vs_note("retain %d", muggle_ref_cnt_retain(&ref));
		else if (*s == 'd') vs_note("release %d", muggle_ref_cnt_release(&ref));
	}
}

static void case_begin(void) { scen[0] = 0; strcpy(sched, "rand 1 50 0 0"); nthreads = 0; }

static void case_line(char *line)
{
	char op[32];
	if (sscanf(line, "%31s", op) != 1) return;
	if (strcmp(op, "sched") == 0) { snprintf(sched, sizeof(sched), "%s", line + 6); return; }
	if (strcmp(op, "lock") == 0) {
		char k[16];
		sscanf(line, "%*s %15s %d %d", k, &nthreads, &iters);
		kind = strcmp(k, "spin") == 0 ? 0 : strcmp(k, "sync") == 0 ? 1 : strcmp(k, "try") == 0 ? 3 :
		       strcmp(k, "nest") == 0 ? 4 : strcmp(k, "nesttry") == 0 ? 5 : 2;
		strcpy(scen, "lock");
	} else if (strcmp(op, "once") == 0) {
		once_calls = 1;
		sscanf(line, "%*s %d %d", &nthreads, &once_calls);
		if (once_calls < 1) once_calls = 1;
		if (once_calls > 60) once_calls = 60;
		nflags = 1;
		for (int i = 0; i < VS_MAXT; i++) { memset(once_scripts[i], '0', (size_t)once_calls); once_scripts[i][once_calls] = 0; }
		strcpy(scen, "once");
	} else if (strcmp(op, "oncem") == 0) {
		char *p = line + 5;
		int used = 0;
		nflags = 0;
		sscanf(p, "%d%n", &nflags, &used);
		p += used;
		nthreads = 0;
		while (nthreads < VS_MAXT && sscanf(p, "%63s%n", once_scripts[nthreads], &used) == 1) { p += used; nthreads++; }
		int good = nflags >= 1 && nflags <= MAXFLAGS;
		for (int i = 0; i < nthreads; i++) {
			if (!once_scripts[i][0]) good = 0;
			for (char *q = once_scripts[i]; *q; q++) if (*q < '0' || *q >= '0' + nflags) good = 0;
		}
		if (!good) nthreads = 0;
		strcpy(scen, "once");
	} else if (strcmp(op, "mutexreal") == 0 || strcmp(op, "mutextype") == 0) {
		snprintf(at_line, sizeof(at_line), "%s", line);
		strcpy(scen, op);
	} else if (strcmp(op, "atomics") == 0 || strcmp(op, "atomics2") == 0) {
		snprintf(at_line, sizeof(at_line), "%s", line);
		strcpy(scen, op);
	} else if (strcmp(op, "refcnt") == 0) {
		char *p = line + 6;
		int used = 0;
		sscanf(p, "%d%n", &refinit, &used);
		p += used;
		nthreads = 0;
		while (nthreads < VS_MAXT && sscanf(p, "%63s%n", scripts[nthreads], &used) == 1) { p += used; nthreads++; }
		strcpy(scen, "refcnt");
	}
}

static void atomics_case(void)
{
	char *tok[256];
	int n = 0;
	for (char *p = strtok(at_line, " \t"); p && n < 256; p = strtok(NULL, " \t")) tok[n++] = p;
	if (strcmp(scen, "atomics2") == 0) {
		if (n != 3) { printf("F badcase\n"); return; }
		c04_atomics_pair(tok[1], atoll(tok[2]));
	} else {
		if (n < 3) { printf("F badcase\n"); return; }
		c04_atomics_run(tok[1], atoll(tok[2]), n - 3, tok + 3);
	}
	printf("F atomics\n");
}

/* ---- REAL pthread semantics of muggle_mutex_* (no scheduler: the threads below are not scheduled threads, so
 * the pthread wrappers forward to the real calls).  Every timing decision errs on the quiet side: something
 * that did not happen in time is "inconclusive" (a harness problem, reported as such), never a verdict. ---- */
#include <pthread.h>
#include <time.h>
#define MR_SLOTS 64
static muggle_mutex_t mr_mutex[MR_SLOTS];      /* static storage: a helper parked for ever in a nested lock keeps its mutex */
static int mr_next;
typedef struct { muggle_mutex_t *m; volatile int stage; volatile int rc; volatile int rc2; } mr_arg_t;
static void mr_sleep_ms(int ms) { struct timespec ts = { ms / 1000, (ms % 1000) * 1000000L }; while (nanosleep(&ts, &ts) != 0) { } }
static int mr_wait_stage(mr_arg_t *a, int stage, int ms)
{
	for (int i = 0; i < ms; i++) { if (__atomic_load_n(&a->stage, __ATOMIC_ACQUIRE) >= stage) return 1; mr_sleep_ms(1); }
	return __atomic_load_n(&a->stage, __ATOMIC_ACQUIRE) >= stage;
}
static void mr_set(mr_arg_t *a, int stage) { __atomic_store_n(&a->stage, stage, __ATOMIC_RELEASE); }
static void *mr_try_thread(void *p) { mr_arg_t *a = p; a->rc = muggle_mutex_trylock(a->m); if (a->rc == MUGGLE_OK) muggle_mutex_unlock(a->m); mr_set(a, 1); return NULL; }
static void *mr_lock_thread(void *p)
{
	mr_arg_t *a = p;
	mr_set(a, 1);
	a->rc = muggle_mutex_lock(a->m);
	mr_set(a, 2);
	if (a->rc == MUGGLE_OK) a->rc2 = muggle_mutex_unlock(a->m);
	mr_set(a, 3);
	return NULL;
}
static void *mr_nest_thread(void *p)
{
	mr_arg_t *a = p;
	a->rc = muggle_mutex_lock(a->m);
	mr_set(a, 1);
	if (a->rc != MUGGLE_OK) return NULL;
	a->rc2 = muggle_mutex_lock(a->m);        /* the owner locks again */
	mr_set(a, 2);
	if (a->rc2 == MUGGLE_OK) muggle_mutex_unlock(a->m);
	muggle_mutex_unlock(a->m);
	mr_set(a, 3);
	return NULL;
}
static int mr_spawn(pthread_t *th, void *(*fn)(void *), mr_arg_t *a)
{
	pthread_attr_t at; pthread_attr_init(&at); pthread_attr_setstacksize(&at, 1 << 18);
	int rc = pthread_create(th, &at, fn, a);
	pthread_attr_destroy(&at);
	return rc;
}
static void mutex_real(int reps)
{
	if (reps < 1) reps = 1;
	if (reps > 8) reps = 8;
	for (int r = 0; r < reps; r++) {
		if (mr_next + 2 > MR_SLOTS) { printf("M inconclusive out-of-slots\n"); break; }
		muggle_mutex_t *m = &mr_mutex[mr_next++];
		pthread_t th;
		static mr_arg_t args[MR_SLOTS * 3];
		static int nargs;
		if (nargs + 3 > MR_SLOTS * 3) { printf("M inconclusive out-of-slots\n"); break; }
		if (muggle_mutex_init(m) != MUGGLE_OK) { printf("M init failed\n"); continue; }
		printf("M init ok\n");
		/* 1. trylock on a held mutex is refused, on a free one it succeeds */
		int rc = muggle_mutex_lock(m);
		printf("M lock free %s\n", rc == MUGGLE_OK ? "ok" : "err");
		mr_arg_t *a = &args[nargs++]; memset((void *)a, 0, sizeof(*a)); a->m = m;
		if (mr_spawn(&th, mr_try_thread, a) != 0 || !mr_wait_stage(a, 1, 5000)) printf("M inconclusive trylock-held\n");
		else { pthread_join(th, NULL); printf("M trylock held %s\n", a->rc == MUGGLE_OK ? "ACQUIRED" : "refused"); }
		/* 2. lock returns OK only when acquired: a second thread's lock has not returned while we hold */
		mr_arg_t *b = &args[nargs++]; memset((void *)b, 0, sizeof(*b)); b->m = m;
		if (mr_spawn(&th, mr_lock_thread, b) != 0 || !mr_wait_stage(b, 1, 5000)) printf("M inconclusive lock-held\n");
		else {
			mr_sleep_ms(60);
			int early = __atomic_load_n(&b->stage, __ATOMIC_ACQUIRE) >= 2;
			int early_rc = b->rc;
			muggle_mutex_unlock(m);
			if (!mr_wait_stage(b, 3, 5000)) printf("M inconclusive lock-after-release\n");
			else {
				pthread_join(th, NULL);
				if (early) printf("M lock held returned %s\n", early_rc == MUGGLE_OK ? "OK-WHILE-HELD" : "err");
				else printf("M lock held blocked then %s unlock %s\n", b->rc == MUGGLE_OK ? "ok" : "err", b->rc2 == MUGGLE_OK ? "ok" : "err");
			}
		}
		rc = muggle_mutex_trylock(m);
		printf("M trylock free %s\n", rc == MUGGLE_OK ? "ok" : "refused");
		if (rc == MUGGLE_OK) muggle_mutex_unlock(m);
		muggle_mutex_destroy(m);
		/* 3. a nested lock by the owner never returns OK while the first level is held: the owner is a helper
		 *    thread (with a default mutex it stays parked for ever; its mutex lives in static storage) */
		muggle_mutex_t *m2 = &mr_mutex[mr_next++];
		if (muggle_mutex_init(m2) != MUGGLE_OK) { printf("M init failed\n"); continue; }
		mr_arg_t *c = &args[nargs++]; memset((void *)c, 0, sizeof(*c)); c->m = m2;
		if (mr_spawn(&th, mr_nest_thread, c) != 0 || !mr_wait_stage(c, 1, 5000) || c->rc != MUGGLE_OK) { printf("M inconclusive nested\n"); continue; }
		pthread_detach(th);
		if (mr_wait_stage(c, 2, 150)) printf("M nested lock by the owner returned %s\n", c->rc2 == MUGGLE_OK ? "OK-WHILE-HELD" : "err");
		else printf("M nested lock by the owner blocked\n");
	}
	printf("F mutexreal\n");
}

static void case_end(void)
{
	if (strncmp(scen, "atomics", 7) == 0) { atomics_case(); return; }
	if (strcmp(scen, "mutexreal") == 0) { int reps = 1; sscanf(at_line, "%*s %d", &reps); mutex_real(reps); return; }
	if (strcmp(scen, "mutextype") == 0) {
		muggle_mutex_t m;
		int rc = muggle_mutex_init(&m);
		printf("F mutextype init=%d type=%d normal=%d default=%d\n", rc, vs_mutex_type(&m.mtx),
		       (int)PTHREAD_MUTEX_NORMAL, (int)PTHREAD_MUTEX_DEFAULT);
		if (rc == MUGGLE_OK) muggle_mutex_destroy(&m);
		return;
	}
	if (!scen[0] || nthreads <= 0 || nthreads > VS_MAXT) { printf("F badcase\n"); return; }
	vs_reset();
	vs_set_schedule(sched);
	if (strcmp(scen, "lock") == 0) {
		in_cs = counter = overlaps = 0;
		if (kind == 0) { muggle_spinlock_init(&spin); spin = 0; vs_name(&spin, "lock"); }
		else if (kind == 1) { muggle_synclock_init(&synclock); synclock = 0; vs_name(&synclock, "lock"); }
		else { muggle_mutex_init(&mutex); vs_name(&mutex.mtx, "lock"); }
		for (int i = 0; i < nthreads; i++) vs_spawn(lock_thread, NULL);
	} else if (strcmp(scen, "once") == 0) {
		for (int f = 0; f < MAXFLAGS; f++) { once_flag[f] = MUGGLE_ONCE_FLAG_INIT; once_runs[f] = once_done[f] = 0; }
		vs_name(&once_flag[0], "flag");
		for (int f = 1; f < nflags; f++) vs_name(&once_flag[f], "flag%d", f);
		for (int i = 0; i < nthreads; i++) vs_spawn(once_thread, once_scripts[i]);
	} else {
		int rc = muggle_ref_cnt_init(&ref, refinit);
		printf("F refinit %d\n", rc);
		if (rc != 0) return;
		vs_name(&ref, "ref");
		for (int i = 0; i < nthreads; i++) vs_spawn(ref_thread, scripts[i]);
	}
	int st = vs_run();
	if (strcmp(scen, "lock") == 0) printf("F counter=%d overlaps=%d\n", counter, overlaps);
	else if (strcmp(scen, "once") == 0) {
		printf("F runs=%d done=%d\n", once_runs[0], once_done[0]);
		for (int f = 1; f < nflags; f++) printf("F flag%d runs=%d done=%d\n", f, once_runs[f], once_done[f]);
	}
	else printf("F ref=%d\n", (int)muggle_ref_cnt_val(&ref));
	if (st != 0) {
		/* threads are parked for ever: finish the case and ask the runner to restart us */
		printf("END\n");
		fflush(stdout);
		_exit(77);
	}
	if (strcmp(scen, "lock") == 0 && kind >= 2) muggle_mutex_destroy(&mutex);
}

#include <unistd.h>
int main(void) { return vdrv_main(); }
