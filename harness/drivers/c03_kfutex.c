/* C03: the REAL kernel futex through the UNMODIFIED muggle/c/sync/sync_obj_futex.c, real threads, NO
 * scheduler.  harness/vsched replaces that file in every scheduled run, so nothing else executes it;
 * lib/props/c03.py compiles it separately with its four functions renamed kreal_* and links it here.
 *
 * Script (scenario line "kfutex <tok> <tok> ..."), executed by the calling thread on one futex word
 * (initially 0):
 *     s<v>   start a new sleeper thread that calls kreal_muggle_sync_wait(&word, v, NULL) once
 *     w1     kreal_muggle_sync_wake_one(&word)
 *     wa     kreal_muggle_sync_wake_all(&word)
 *     v<x>   word := x
 * After s<v> the harness waits until the sleeper has either RETURNED or is observed ASLEEP in the kernel
 * (its task state in /proc/self/task/<tid>/stat is 'S' on two consecutive polls after it announced the call:
 * the futex wait is the only blocking operation between that announcement and its return).  After a wake it
 * waits until as many sleepers have returned as the kernel reported woken.  No verdict depends on timing:
 * a sleeper is only called asleep when the kernel says so, a wake-up only counts when the kernel reports it;
 * if an observation cannot be made within the (generous) limit the run is reported as
 *     K inconclusive <why>
 * which is a harness error, never a finding.  At the end every remaining sleeper is released by changing
 * the word and issuing raw FUTEX_WAKE calls on both key spaces.
 * Output (canonical, no thread identities -- which sleeper a wake picks is the kernel's choice):
 *     K s val=<v> word=<w> asleep | K s val=<v> word=<w> returned rc=<rc> errno=<e>
 *     K w1 woke=<n> resumed=<n> | K wa woke=<n> resumed=<n> | K v word=<x> | K end asleep=<n> */
#define _GNU_SOURCE
#include <errno.h>
#include <limits.h>
#include <pthread.h>
#include <stdint.h>
#include <stdio.h>
#include <stdlib.h>
#include <string.h>
#include <time.h>
#include <unistd.h>
#include <linux/futex.h>
#include <sys/syscall.h>
#include "muggle/c/sync/sync_obj.h"

/* the repository's functions, renamed at compile time (same prototypes) */
int kreal_muggle_sync_wait(muggle_sync_t *addr, muggle_sync_t val, const struct timespec *timeout);
int kreal_muggle_sync_wake_one(muggle_sync_t *addr);
int kreal_muggle_sync_wake_all(muggle_sync_t *addr);

#define KMAX 8
#define LIMIT_MS 4000

typedef struct {
	pthread_t th;
	volatile int tid, entered, returned, rc, err;
	muggle_sync_t val;
	muggle_sync_t *word;
} ksleeper_t;

static double now_ms(void)
{
	struct timespec ts;
	clock_gettime(CLOCK_MONOTONIC, &ts);
	return ts.tv_sec * 1000.0 + ts.tv_nsec / 1e6;
}
static void nap_us(long us)
{
	struct timespec ts = { 0, us * 1000 };
	clock_nanosleep(CLOCK_MONOTONIC, 0, &ts, NULL);
}

static void *sleeper_main(void *p)
{
	ksleeper_t *s = (ksleeper_t *)p;
	s->tid = (int)syscall(SYS_gettid);
	__atomic_store_n(&s->entered, 1, __ATOMIC_SEQ_CST);
	errno = 0;
	int rc = kreal_muggle_sync_wait(s->word, s->val, NULL);
	s->err = errno;
	s->rc = rc;
	__atomic_store_n(&s->returned, 1, __ATOMIC_SEQ_CST);
	return NULL;
}

/* task state of a thread of this process: 'R', 'S', 'D', ... ; 0 if it cannot be read */
static char task_state(int tid)
{
	char path[64], buf[512];
	snprintf(path, sizeof(path), "/proc/self/task/%d/stat", tid);
	FILE *f = fopen(path, "r");
	if (!f) return 0;
	size_t n = fread(buf, 1, sizeof(buf) - 1, f);
	fclose(f);
	buf[n] = 0;
	char *q = strrchr(buf, ')');
	if (!q || !q[1] || !q[2]) return 0;
	return q[2];
}

/* 1 = returned, 2 = asleep in the kernel, 0 = could not tell within the limit */
static int settle(ksleeper_t *s)
{
	double t0 = now_ms();
	int seen = 0;
	while (now_ms() - t0 < LIMIT_MS) {
		if (__atomic_load_n(&s->returned, __ATOMIC_SEQ_CST)) return 1;
		if (__atomic_load_n(&s->entered, __ATOMIC_SEQ_CST)) {
			char st = task_state(s->tid);
			if (st == 'S') { if (++seen >= 2) { if (__atomic_load_n(&s->returned, __ATOMIC_SEQ_CST)) return 1; return 2; } }
			else seen = 0;
		}
		nap_us(300);
	}
	return 0;
}

static int count_returned(ksleeper_t *S, int n)
{
	int c = 0;
	for (int i = 0; i < n; i++) if (__atomic_load_n(&S[i].returned, __ATOMIC_SEQ_CST)) c++;
	return c;
}

void c03_kfutex_run(const char *script)
{
	static muggle_sync_t words[64];
	static int nextw;
	muggle_sync_t *word = &words[(nextw++) % 64];   /* a fresh word per run (a leaked sleeper keeps its own) */
	ksleeper_t *S = (ksleeper_t *)calloc(KMAX, sizeof(ksleeper_t));
	int ns = 0, inconclusive = 0;
	char tok[32];
	int used = 0;
	const char *p = script;
	__atomic_store_n(word, 0, __ATOMIC_SEQ_CST);
	while (!inconclusive && sscanf(p, "%31s%n", tok, &used) == 1) {
		p += used;
		if (tok[0] == 's' && ns < KMAX) {
			ksleeper_t *s = &S[ns];
			s->val = (muggle_sync_t)strtoul(tok + 1, NULL, 10);
			s->word = word;
			if (pthread_create(&s->th, NULL, sleeper_main, s) != 0) { printf("K inconclusive pthread_create failed\n"); inconclusive = 1; break; }
			ns++;
			int r = settle(s);
			muggle_sync_t w = __atomic_load_n(word, __ATOMIC_SEQ_CST);
			if (r == 1) printf("K s val=%u word=%u returned rc=%d errno=%d\n", (unsigned)s->val, (unsigned)w, s->rc, s->err);
			else if (r == 2) printf("K s val=%u word=%u asleep\n", (unsigned)s->val, (unsigned)w);
			else { printf("K inconclusive a sleeper neither returned nor was seen asleep within %d ms\n", LIMIT_MS); inconclusive = 1; }
		} else if (strcmp(tok, "w1") == 0 || strcmp(tok, "wa") == 0) {
			int before = count_returned(S, ns);
			int woke = tok[1] == '1' ? kreal_muggle_sync_wake_one(word) : kreal_muggle_sync_wake_all(word);
			int want = woke > 0 ? woke : 0;
			double t0 = now_ms();
			while (count_returned(S, ns) - before < want && now_ms() - t0 < LIMIT_MS) nap_us(300);
			/* a little patience so that a sleeper woken WITHOUT being reported would show up as well */
			if (count_returned(S, ns) - before == want) nap_us(2000);
			int resumed = count_returned(S, ns) - before;
			if (resumed < want) { printf("K inconclusive the kernel reported %d woken, %d returned within %d ms\n", woke, resumed, LIMIT_MS); inconclusive = 1; }
			else printf("K %s woke=%d resumed=%d\n", tok, woke, resumed);
		} else if (tok[0] == 'v') {
			__atomic_store_n(word, (muggle_sync_t)strtoul(tok + 1, NULL, 10), __ATOMIC_SEQ_CST);
			printf("K v word=%u\n", (unsigned)__atomic_load_n(word, __ATOMIC_SEQ_CST));
		} else {
			printf("K inconclusive bad script token %s\n", tok);
			inconclusive = 1;
		}
	}
	if (!inconclusive) printf("K end asleep=%d\n", ns - count_returned(S, ns));
	/* release whoever is left: change the word, wake on both key spaces, with the raw system call */
	__atomic_store_n(word, 0x7fffffffu, __ATOMIC_SEQ_CST);
	double t0 = now_ms();
	while (count_returned(S, ns) < ns && now_ms() - t0 < 3000) {
		syscall(SYS_futex, word, FUTEX_WAKE | FUTEX_PRIVATE_FLAG, INT_MAX, NULL, NULL, 0);
		syscall(SYS_futex, word, FUTEX_WAKE, INT_MAX, NULL, NULL, 0);
		nap_us(500);
	}
	int leaked = 0;
	for (int i = 0; i < ns; i++) {
		if (__atomic_load_n(&S[i].returned, __ATOMIC_SEQ_CST)) pthread_join(S[i].th, NULL);
		else { pthread_detach(S[i].th); leaked = 1; }
	}
	if (!leaked) free(S);   /* a sleeper that could not be released keeps its record */
	fflush(stdout);
}
