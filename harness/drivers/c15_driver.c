/* C15 implementation driver: socket event loop handle (accept loop, hand-over, release
 * protocol, exit) and the event-loop pipe on real loopback TCP / UNIX sockets and real
 * threads.  Every callback and every interposed call is appended to one log (harness/
 * c15_shim.c); contexts are named by allocation order, connections by script id.
 *
 * case lines:
 *   cfg be=<select|poll|epoll> fam=<tcp|unix> hints=<n> pool=<0|1> seed=<s> rbuf=<n> workers=<n>
 *   fault alloc <i>.. | fault add <i>:<w|m>.. | fault accept <i>..
 *   trig <conn> <threshold> <retain w|shut|exit|handexit k2>
 *   conn k | hand k | send k n [chunk..] | cclose k | wrel w | wshut w | xexit | sync | sleep us
 *   prehand k..   hand-overs done before the loop thread exists (their wake-ups are one notification)
 *   burst k.. | burstmt k..   back-to-back hand-overs (burstmt: one thread each); with a "stall" trigger
 *                 the loop thread is held inside cb_msg meanwhile, so the wake-ups coalesce
 *   await k       wait (bounded) until the server has read everything sent on k; logs "await k recv sent"
 *   trig <conn> <threshold> stall | halfclose | shutexit k2
 *   waitstall | unstall   wait until the loop thread sits in the stall trigger / let it go: what peers do in
 *                 between (write + close, reply after a half-close, reset) reaches the loop as ONE readiness report
 *   waiteof k     client k waits (bounded) for the end of stream from the server (after a halfclose trigger)
 *   creset k      client k closes with SO_LINGER 0: a reset (bytes in flight may be dropped; logged "creset k")
 *   cfg ... cbs=<letters|->   which optional callbacks of the handle are installed (default all = cmlraw):
 *                 c cb_conn, m cb_msg, l cb_close, r cb_release, a cb_add_ctx, w cb_wake.  Where a callback is
 *                 missing the log says what the harness can still see: "conn0 id k" / "addctx0 id" = the
 *                 registration of an accepted / handed-over context succeeded and there is no callback to
 *                 announce it; reads of on_read's default loop are logged by the shim; no "close" / "release" /
 *                 "wake" lines
 *   cfg ... alloc=<user|default|pool>   user: set_alloc_free(NULL, cb_alloc, cb_free) (default of the harness);
 *                 default: the library's own allocator is kept (malloc / free interposed: "alloc id" at the
 *                 first muggle_evloop_add_ctx, "free id" at free); pool: set_alloc_free(&pool_object, ..): the
 *                 pool argument of every cb_alloc / cb_free call must be that object ("badpool .." otherwise;
 *                 with user the argument must be NULL)
 *   cfg ... onwake=<n>:<k>[,<n>:<k>..]   (in the cfg / vs line, so that shrinking a case cannot lose it)
 *                 the user's cb_wake, on its n-th invocation, hands context k over itself
 *                 (muggle_socket_evloop_add_ctx from inside the wake callback: on_wake has drained the
 *                 queue and released the mutex, the back-end's wake-up handling is not over yet)
 *   waithand k    wait (bounded) until connection k exists (its hand-over from cb_wake has started)
 *   quiet         wait (bounded) until the loop thread sits in its back-end's wait with nothing ready
 *   pipe writers=<W> per=<K> seed=<s> rfrag=<0..2> wfrag=<0|1> psize=<bytes|0>
 *
 * Scheduled scenario (harness/vsched: one thread runs at a time, the schedule is part of the case):
 *   vs be=<..> hints=<n> seed=<s> rbuf=<n> nh=<1..6> bytes=<n> gate=<0|1> budget=<steps> [onwake=<n>:<k>,..]
 *   sched <spec>                 see harness/vsched/vsched.h ("rand <seed> <stick%> 0 0" | "list - t0 t1 ..")
 * T0 creates the loop and the handle, starts T1 (muggle_evloop_run) and T2.. (one hander each), hands
 * context 0 over and sends <bytes> bytes to it; hander j hands context j over and sends <bytes> bytes
 * (gate=1: only after T0's hand-over has returned).  When all handers are done T0 waits until a wait of
 * the loop thread has found nothing ready, logs "await k recv sent" for every connection, requests the
 * exit and waits for run() to return.  The log is the same callback log as in the other scenarios; the
 * scheduler's own E / P / X lines precede it and are ignored by monitor and acceptor.
 */
#define _GNU_SOURCE
#include "vdrv.h"
#include "c15_shim.h"
#include <errno.h>
#include <fcntl.h>
#include <pthread.h>
#include <sched.h>
#include <signal.h>
#include <time.h>
#include <unistd.h>
#include <sys/socket.h>
#include <sys/ioctl.h>
#include <poll.h>
#include <linux/sockios.h>
#include <sys/un.h>
#include <netinet/in.h>
#include <netinet/tcp.h>
#include <arpa/inet.h>
#include "muggle/c/net/socket.h"
#include "muggle/c/net/socket_utils.h"
#include "muggle/c/net/socket_context.h"
#include "muggle/c/net/socket_evloop_handle.h"
#include "muggle/c/net/socket_evloop_pipe.h"
#include "muggle/c/event/event_loop.h"
#include "vsched/vsched.h"

#define MAXCONN 96
#define MAXW 8
#define MAXSTEP 4096
#define MAXTRIG 256
#define MAXCHUNK 64

enum { A_RETAIN = 1, A_SHUT, A_EXIT, A_HANDEXIT, A_STALL, A_HALFCLOSE, A_SHUTEXIT };
enum { S_CONN = 1, S_HAND, S_SEND, S_CCLOSE, S_WREL, S_WSHUT, S_XEXIT, S_SYNC, S_SLEEP, S_PREHAND, S_BURST, S_BURSTMT, S_AWAIT,
	S_UNSTALL, S_WAITSTALL, S_WAITEOF, S_CRESET, S_WAITHAND, S_QUIET };
#define MAXONWAKE 16
struct onwake { int nth; int conn; int fired; };

struct trig { int conn; long thr; int act; int arg; int fired; };
struct step { int op; int a; long n; int nch; int ch[MAXCHUNK]; };

/* ---- case configuration ---- */
static int c_be, c_unix, c_hints, c_pool, c_rbuf, c_workers;
static unsigned long long c_seed;
static int c_alloc_fault[64], c_nalloc_fault;
static struct trig c_trig[MAXTRIG]; static int c_ntrig;
static struct step c_step[MAXSTEP]; static int c_nstep;
static int c_is_pipe, p_writers, p_per, p_rfrag, p_wfrag, p_psize;
static int g_caseno, c_ignore;
static struct onwake c_onwake[MAXONWAKE]; static int c_nonwake;
static int c_is_vs, v_nh, v_bytes, v_gate;
static long v_budget;
static char v_sched[16384];
static int g_wakes;                           /* invocations of the user's cb_wake (loop thread) */
static char c_cbs[16];                        /* installed callbacks */
#define HAS(ch) (strchr(c_cbs, (ch)) != NULL)
enum { AL_USER = 0, AL_DEFAULT, AL_POOL };
static int c_alloc;
static int g_poolobj;                         /* its address is the mempool argument in alloc=pool */
static void *g_pool_expect;

/* ---- run state ---- */
static muggle_event_loop_t *g_evloop;
static muggle_socket_evloop_handle_t g_handle;
static int g_alloc_calls;
static int g_listener_id, g_listener_state;   /* 0 pending 1 announced 2 failed */
static int g_listen_fd, g_listen_port;
static int g_exit_req, g_returned;
static int g_acc_done;                        /* accept outcomes seen by the loop thread */
static unsigned long long g_srv_rng;

static int cl_fd[MAXCONN], cl_ok[MAXCONN], cl_closed[MAXCONN], cl_port[MAXCONN], cl_seq[MAXCONN];
static long cl_sent[MAXCONN];
static long sv_recv[MAXCONN];
static int sv_ctx[MAXCONN];       /* ctx id bound to the connection, -1 none */
static int sv_announced[MAXCONN]; /* cb_conn / cb_add_ctx seen (loop thread only) */
static int sv_closed[MAXCONN];    /* cb_close (or a failed registration) seen for that context */
static int ctx_conn[SH_MAXCTX];   /* ctx id -> conn, -1 listener / unknown */
static muggle_socket_context_t *ctx_ptr[SH_MAXCTX];   /* loop thread only: valid while the loop owns the context */
static int g_connects, g_connseq;

static unsigned char pay(unsigned long long seed, int k, long j)
{
	unsigned long long x = seed * 0x9E3779B97F4A7C15ULL + (unsigned long long)(k + 1) * 0xBF58476D1CE4E5B9ULL
		+ (unsigned long long)(j + 1) * 0x94D049BB133111EBULL;
	x ^= x >> 29; x *= 0xBF58476D1CE4E5B9ULL; x ^= x >> 32;
	return (unsigned char)(x & 0xff);
}
static unsigned long long srv_rnd(void)
{
	g_srv_rng += 0x9E3779B97F4A7C15ULL;
	unsigned long long z = g_srv_rng;
	z = (z ^ (z >> 30)) * 0xBF58476D1CE4E5B9ULL;
	z = (z ^ (z >> 27)) * 0x94D049BB133111EBULL;
	return z ^ (z >> 31);
}
static void msleep_(int ms) { struct timespec ts = { ms / 1000, (ms % 1000) * 1000000L }; nanosleep(&ts, NULL); }
static double now_s(void) { struct timespec ts; clock_gettime(CLOCK_MONOTONIC, &ts); return ts.tv_sec + ts.tv_nsec * 1e-9; }

/* ---- synchronisation of the script with the loop thread ----
 * No verdict depends on elapsed time.  Every wait below waits for a STATE: the thing waited for has
 * happened, or the loop thread is quiet (it sits in its back-end's wait, nothing in the set it waits on is
 * ready - asked again from here without consuming anything, harness/c15_shim.c sh_loop_quiet - and no
 * TCP segment sent by a client is still unacknowledged), so the thing will never happen, or run() has
 * returned.  BIG_WAIT only bounds a wait that none of these ends (a machine too loaded to make progress,
 * or a harness defect): the case is then marked "INCONCLUSIVE <what>" and the monitor reports nothing. */
#define BIG_WAIT 45.0
static int cl_tcp[MAXCONN];
static int g_inconclusive;
static int tcp_inflight(void)
{
	for (int k = 0; k < MAXCONN; k++)
		if (cl_ok[k] && cl_tcp[k] && !cl_closed[k]) {
			int q = 0;
			if (ioctl(cl_fd[k], SIOCOUTQ, &q) != 0 || q <= 0) continue;
			/* a connection that was reset or hung up delivers nothing any more */
			struct pollfd p; p.fd = cl_fd[k]; p.events = 0; p.revents = 0;
			if (poll(&p, 1, 0) > 0 && (p.revents & (POLLERR | POLLHUP | POLLNVAL))) continue;
			return 1;
		}
	return 0;
}
static int loop_quiet(void)
{
	/* twice, a moment apart, within the same wait of the loop thread */
	if (!sh_loop_quiet() || tcp_inflight()) return 0;
	long e = sh_wait_epoch();
	msleep_(2);
	return sh_loop_quiet() && !tcp_inflight() && sh_wait_epoch() == e;
}
static void inconclusive(const char *what)
{
	__atomic_store_n(&g_inconclusive, 1, __ATOMIC_SEQ_CST);
	sh_logf("INCONCLUSIVE %s", what);
}
/* wait until *flag is non-zero; returns 1 if it is, 0 if the loop went quiet / run() returned first */
static int wait_flag(int *flag, const char *what)
{
	double t0 = now_s();
	for (;;) {
		if (__atomic_load_n(flag, __ATOMIC_SEQ_CST)) return 1;
		if (__atomic_load_n(&g_returned, __ATOMIC_SEQ_CST)) return __atomic_load_n(flag, __ATOMIC_SEQ_CST) != 0;
		if (loop_quiet()) return __atomic_load_n(flag, __ATOMIC_SEQ_CST) != 0;
		if (now_s() - t0 > BIG_WAIT) { inconclusive(what); return 0; }
		msleep_(1);
	}
}
static void wait_quiet(const char *what)
{
	double t0 = now_s();
	while (!loop_quiet() && !__atomic_load_n(&g_returned, __ATOMIC_SEQ_CST)) {
		if (now_s() - t0 > BIG_WAIT) { inconclusive(what); return; }
		msleep_(1);
	}
}

/* ---- workers ---- */
struct worker {
	pthread_t th;
	pthread_mutex_t mtx; pthread_cond_t cv;
	muggle_socket_context_t *held[256]; int nheld;
	int cmd[64]; int ncmd; int done; int quit;
};
static struct worker g_w[MAXW];
enum { W_REL = 1, W_SHUT, W_RELALL };

static void worker_release(int w, muggle_socket_context_t *ctx)
{
	sh_lock();
	int id = sh_ctx_id(ctx);
	int r = muggle_socket_ctx_ref_release(ctx);
	sh_logf_locked("wrel %d %d %d", id, w, r);
	sh_unlock();
	if (r == 0) {
		/* documented protocol: the thread that drops the last reference frees user data,
		 * closes and frees the context */
		sh_logf("wrelease %d", id);
		muggle_socket_ctx_close(ctx);
		sh_lock();
		sh_logf_locked("wfree %d", id);
		sh_ctx_dead_locked(id);
		sh_unlock();
		free(ctx);
	}
}
static void *worker_main(void *arg)
{
	int w = (int)(intptr_t)arg;
	struct worker *W = &g_w[w];
	pthread_mutex_lock(&W->mtx);
	while (1) {
		while (W->ncmd == 0 && !W->quit) pthread_cond_wait(&W->cv, &W->mtx);
		if (W->ncmd == 0 && W->quit) break;
		int cmd = W->cmd[0];
		memmove(W->cmd, W->cmd + 1, sizeof(int) * (--W->ncmd));
		if (cmd == W_REL || cmd == W_SHUT) {
			if (W->nheld == 0) {
				/* the retain trigger may not have fired yet: wait until it has, or until the loop thread
				 * is quiet (every byte sent was consumed: it never will) or has returned */
				double t0 = now_s();
				while (W->nheld == 0) {
					struct timespec ts; clock_gettime(CLOCK_REALTIME, &ts);
					ts.tv_nsec += 3000000L; if (ts.tv_nsec >= 1000000000L) { ts.tv_sec++; ts.tv_nsec -= 1000000000L; }
					pthread_cond_timedwait(&W->cv, &W->mtx, &ts);
					if (W->nheld > 0) break;
					pthread_mutex_unlock(&W->mtx);
					int stop = __atomic_load_n(&g_returned, __ATOMIC_SEQ_CST) || loop_quiet();
					if (!stop && now_s() - t0 > BIG_WAIT) { inconclusive("worker waiting for a retain"); stop = 1; }
					pthread_mutex_lock(&W->mtx);
					if (stop) break;
				}
			}
			if (W->nheld > 0) {
				muggle_socket_context_t *ctx = W->held[0];
				if (cmd == W_REL) {
					memmove(W->held, W->held + 1, sizeof(W->held[0]) * (--W->nheld));
					pthread_mutex_unlock(&W->mtx);
					worker_release(w, ctx);
					pthread_mutex_lock(&W->mtx);
				} else {
					pthread_mutex_unlock(&W->mtx);
					sh_lock(); sh_logf_locked("wshut %d %d", sh_ctx_id(ctx), w); sh_unlock();
					muggle_socket_ctx_shutdown(ctx);
					pthread_mutex_lock(&W->mtx);
				}
			}
		} else if (cmd == W_RELALL) {
			while (W->nheld > 0) {
				muggle_socket_context_t *ctx = W->held[0];
				memmove(W->held, W->held + 1, sizeof(W->held[0]) * (--W->nheld));
				pthread_mutex_unlock(&W->mtx);
				worker_release(w, ctx);
				pthread_mutex_lock(&W->mtx);
			}
		}
		W->done++;
		pthread_cond_broadcast(&W->cv);
	}
	pthread_mutex_unlock(&W->mtx);
	return NULL;
}
static void worker_cmd(int w, int cmd)
{
	struct worker *W = &g_w[w];
	pthread_mutex_lock(&W->mtx);
	int target = W->done + W->ncmd + 1;
	if (W->ncmd < 64) W->cmd[W->ncmd++] = cmd;
	pthread_cond_broadcast(&W->cv);
	while (W->done < target) pthread_cond_wait(&W->cv, &W->mtx);
	pthread_mutex_unlock(&W->mtx);
}
static void worker_give(int w, muggle_socket_context_t *ctx)
{
	struct worker *W = &g_w[w];
	pthread_mutex_lock(&W->mtx);
	if (W->nheld < 256) W->held[W->nheld++] = ctx;
	pthread_cond_broadcast(&W->cv);
	pthread_mutex_unlock(&W->mtx);
}

/* ---- context creation for hand-over (driver side) ---- */
static muggle_socket_context_t *make_ctx(int fd, int type, int conn, int *out_id)
{
	muggle_socket_context_t *ctx = (muggle_socket_context_t *)malloc(sizeof(*ctx));
	muggle_socket_ctx_init(ctx, fd, NULL, type);
	sh_lock();
	int id = sh_ctx_new_locked(ctx);
	sh_map_fd(fd, id);
	ctx_conn[id] = conn;
	ctx_ptr[id] = ctx;
	if (conn >= 0) sv_ctx[conn] = id;
	if (conn >= 0) sh_logf_locked("halloc %d %d", id, conn);
	else sh_logf_locked("halloc %d L", id);
	sh_unlock();
	*out_id = id;
	return ctx;
}
/* "hand c" is logged before muggle_socket_evloop_add_ctx is called and "handed c" after it has
 * returned (enqueued + wake-up written).  Producers are serialised by g_prod so that the order
 * of the "handed" lines is the order of the enqueues. */
static pthread_mutex_t g_prod = PTHREAD_MUTEX_INITIALIZER;
static int g_stalled, g_unstall;
static void hand_ctx(muggle_socket_context_t *ctx, int id)
{
	pthread_mutex_lock(&g_prod);
	sh_logf("hand %d", id);
	sh_sig_tag = id;                   /* the wake-up write inside is logged as "sigw <id>" */
	muggle_socket_evloop_add_ctx(g_evloop, ctx);
	sh_sig_tag = -1;
	sh_logf("handed %d", id);
	pthread_mutex_unlock(&g_prod);
}
static muggle_socket_context_t *make_pair(int k, int *id)
{
	int sp[2];
	if (socketpair(AF_UNIX, SOCK_STREAM, 0, sp) != 0) { sh_logf("cfail %d", k); return NULL; }
	cl_fd[k] = sp[0]; __atomic_store_n(&cl_ok[k], 1, __ATOMIC_SEQ_CST);
	return make_ctx(sp[1], MUGGLE_SOCKET_CTX_TYPE_TCP_CLIENT, k, id);
}
static void hand_pair(int k)
{
	int id;
	muggle_socket_context_t *ctx = make_pair(k, &id);
	if (ctx) hand_ctx(ctx, id);
}
struct burst_arg { muggle_socket_context_t *ctx; int id; };
static void *burst_thread(void *arg)
{
	struct burst_arg *b = (struct burst_arg *)arg;
	hand_ctx(b->ctx, b->id);
	return NULL;
}
static void do_burst(struct step *s, int mt)
{
	struct burst_arg ba[MAXCHUNK]; pthread_t th[MAXCHUNK]; int n = 0;
	for (int i = 0; i < s->nch; i++) {
		int k = s->ch[i];
		if (k < 0 || k >= MAXCONN || cl_ok[k]) continue;
		ba[n].ctx = make_pair(k, &ba[n].id);
		if (ba[n].ctx) n++;
	}
	/* if a stall trigger is configured, wait (bounded) until the loop thread sits in it */
	int has_stall = 0;
	for (int i = 0; i < c_ntrig; i++) if (c_trig[i].act == A_STALL && !c_trig[i].fired) has_stall = 1;
	if (has_stall || __atomic_load_n(&g_stalled, __ATOMIC_SEQ_CST))
		wait_flag(&g_stalled, "burst waiting for the stall trigger");
	if (mt) {
		for (int i = 0; i < n; i++) pthread_create(&th[i], NULL, burst_thread, &ba[i]);
		for (int i = 0; i < n; i++) pthread_join(th[i], NULL);
	} else {
		for (int i = 0; i < n; i++) hand_ctx(ba[i].ctx, ba[i].id);
	}
	__atomic_store_n(&g_unstall, 1, __ATOMIC_SEQ_CST);
}
static void do_await(int k)
{
	/* until everything sent on k was read by the server side, or the loop thread is quiet (then what is
	 * missing will never be read: the line below shows it and the monitor judges), or run() returned */
	double t0 = now_s();
	while (cl_ok[k] && __atomic_load_n(&sv_recv[k], __ATOMIC_SEQ_CST) < cl_sent[k] &&
		!__atomic_load_n(&g_returned, __ATOMIC_SEQ_CST)) {
		if (loop_quiet()) break;
		if (now_s() - t0 > BIG_WAIT) { inconclusive("await"); break; }
		msleep_(1);
	}
	sh_logf("await %d %ld %ld", k, __atomic_load_n(&sv_recv[k], __ATOMIC_SEQ_CST), cl_sent[k]);
}

/* ---- triggers (loop thread, inside callbacks) ---- */
/* in_wake: called from cb_add_ctx, i.e. with the handle's queue mutex held by on_wake: a
 * hand-over from here would self-deadlock on that (non-recursive) mutex, so it is deferred */
static int run_triggers(muggle_event_loop_t *evloop, muggle_socket_context_t *ctx, int id, int k, int in_wake)
{
	int stop = 0;
	if (k < 0) return 0;
	for (int i = 0; i < c_ntrig; i++) {
		struct trig *t = &c_trig[i];
		if (t->conn != k || t->fired || sv_recv[k] < t->thr) continue;
		if (in_wake && (t->act == A_HANDEXIT || t->act == A_STALL)) continue;
		t->fired = 1;
		switch (t->act) {
		case A_RETAIN: {
			sh_lock();
			int r = muggle_socket_ctx_ref_retain(ctx);
			sh_logf_locked("retain %d %d %d", id, t->arg, r);
			sh_unlock();
			if (r > 0) worker_give(t->arg, ctx);
		} break;
		case A_SHUT:
			sh_logf("shut %d", id);
			muggle_socket_ctx_shutdown(ctx);
			stop = 1;
			break;
		case A_EXIT:
			__atomic_store_n(&g_exit_req, 1, __ATOMIC_SEQ_CST);
			sh_logf("exitreq");
			muggle_evloop_exit(evloop);
			break;
		case A_STALL: {
			/* hold the loop thread here while the script's next burst hands its contexts over */
			sh_logf("stalled");
			__atomic_store_n(&g_stalled, 1, __ATOMIC_SEQ_CST);
			double t0 = now_s();
			while (!__atomic_load_n(&g_unstall, __ATOMIC_SEQ_CST)) {
				if (now_s() - t0 > BIG_WAIT) { inconclusive("stall trigger never released"); break; }
				msleep_(1);
			}
			__atomic_store_n(&g_stalled, 0, __ATOMIC_SEQ_CST);
			sh_logf("unstall");
		} break;
		case A_HALFCLOSE:
			/* the application finishes its own direction only; the context stays registered */
			sh_logf("halfclose %d", id);
			shutdown(ctx->base.fd, SHUT_WR);
			break;
		case A_SHUTEXIT: {
			/* shut ANOTHER registered context down and leave in the same callback: its CLOSED flag
			 * is set but the back-end never gets to dispatch its close; on_clear must release it */
			int k2 = t->arg;
			if (k2 >= 0 && k2 < MAXCONN && k2 != k && sv_ctx[k2] >= 0 && sv_announced[k2] &&
				!__atomic_load_n(&sv_closed[k2], __ATOMIC_SEQ_CST)) {
				sh_logf("shut %d", sv_ctx[k2]);
				muggle_socket_ctx_shutdown(ctx_ptr[sv_ctx[k2]]);
			}
			__atomic_store_n(&g_exit_req, 1, __ATOMIC_SEQ_CST);
			sh_logf("exitreq");
			muggle_evloop_exit(evloop);
		} break;
		case A_HANDEXIT:
			__atomic_store_n(&g_exit_req, 1, __ATOMIC_SEQ_CST);
			if (t->arg >= 0 && t->arg < MAXCONN && !cl_ok[t->arg]) hand_pair(t->arg);
			sh_logf("exitreq");
			muggle_evloop_exit(evloop);
			break;
		}
	}
	return stop;
}

/* ---- handle callbacks ---- */
static muggle_socket_context_t *cb_alloc(void *pool)
{
	if (pool != g_pool_expect) sh_logf("badpool alloc");
	int k = ++g_alloc_calls;
	for (int i = 0; i < c_nalloc_fault; i++)
		if (c_alloc_fault[i] == k) {
			sh_logf("allocfail");
			__atomic_fetch_add(&g_acc_done, 1, __ATOMIC_SEQ_CST);
			return NULL;
		}
	muggle_socket_context_t *ctx = (muggle_socket_context_t *)malloc(sizeof(*ctx));
	if (!ctx) { sh_logf("allocfail"); __atomic_fetch_add(&g_acc_done, 1, __ATOMIC_SEQ_CST); return NULL; }
	sh_lock();
	int id = sh_ctx_new_locked(ctx);
	ctx_conn[id] = -2;                    /* accepted, connection not known yet */
	ctx_ptr[id] = ctx;
	sh_logf_locked("alloc %d", id);
	sh_unlock();
	return ctx;
}
static void cb_free(void *pool, muggle_socket_context_t *ctx)
{
	if (pool != g_pool_expect) sh_logf("badpool free %d", sh_ctx_id(ctx));
	sh_lock();
	int id = sh_ctx_id(ctx);
	sh_logf_locked("free %d", id);
	sh_ctx_dead_locked(id);
	sh_unlock();
	free(ctx);
}
static int peer_conn(int fd)
{
	if (c_unix) {
		struct sockaddr_un un; socklen_t len = sizeof(un);
		memset(&un, 0, sizeof(un));
		if (getpeername(fd, (struct sockaddr *)&un, &len) != 0) return -1;
		/* abstract name: \0c15.<pid>.<case>.<k> */
		const char *p = un.sun_path + 1;
		int pid, cs, k;
		if (sscanf(p, "c15.%d.%d.%d", &pid, &cs, &k) == 3) return k;
		return -1;
	}
	struct sockaddr_in in; socklen_t len = sizeof(in);
	if (getpeername(fd, (struct sockaddr *)&in, &len) != 0) return -1;
	int port = ntohs(in.sin_port);
	/* an ephemeral port can be reused by a later client of the same case once the earlier
	 * connection is gone: take the most recent connect that has no context yet */
	int best = -1;
	for (int k = 0; k < MAXCONN; k++)
		if (cl_port[k] == port && sv_ctx[k] < 0 && (best < 0 || cl_seq[k] > cl_seq[best])) best = k;
	return best;
}
static void cb_conn(muggle_event_loop_t *evloop, muggle_socket_context_t *ctx)
{
	int id = sh_ctx_id(ctx);
	int k = peer_conn(ctx->base.fd);
	if (id >= 0) ctx_conn[id] = k;
	if (k >= 0) sv_ctx[k] = id;
	sh_logf("conn %d %d", id, k);
	if (k >= 0) sv_announced[k] = 1;
	__atomic_fetch_add(&g_acc_done, 1, __ATOMIC_SEQ_CST);
	run_triggers(evloop, ctx, id, k, 0);
}
static void cb_add_ctx(muggle_event_loop_t *evloop, muggle_socket_context_t *ctx)
{
	int id = sh_ctx_id(ctx);
	sh_logf("addctx %d", id);
	if (id >= 0 && ctx_conn[id] >= 0) sv_announced[ctx_conn[id]] = 1;
	if (id == g_listener_id) __atomic_store_n(&g_listener_state, 1, __ATOMIC_SEQ_CST);
	if (id >= 0 && ctx->sock_type != MUGGLE_SOCKET_CTX_TYPE_TCP_LISTEN)
		run_triggers(evloop, ctx, id, ctx_conn[id], 1);
}
static void cb_wake(muggle_event_loop_t *evloop)
{
	(void)evloop;
	sh_logf("wake");           /* on_wake is over (called after the queue loop, mutex released) */
	int n = ++g_wakes;
	/* an application whose wake callback serves its own "please add this connection" requests:
	 * the hand-over happens inside the back-end's wake-up handling, after the queue was drained */
	for (int i = 0; i < c_nonwake; i++) {
		struct onwake *o = &c_onwake[i];
		if (o->fired || o->nth != n) continue;
		o->fired = 1;
		if (o->conn >= 0 && o->conn < MAXCONN && !__atomic_load_n(&cl_ok[o->conn], __ATOMIC_SEQ_CST) &&
			!__atomic_load_n(&g_exit_req, __ATOMIC_SEQ_CST))
			hand_pair(o->conn);
	}
}
static void cb_msg(muggle_event_loop_t *evloop, muggle_socket_context_t *ctx)
{
	int id = sh_ctx_id(ctx);
	int k = id >= 0 ? ctx_conn[id] : -1;
	unsigned char buf[4096];
	sh_logf("msg %d", id);
	while (1) {
		size_t cap = 1 + (size_t)(srv_rnd() % (unsigned)c_rbuf);
		if (cap > sizeof(buf)) cap = sizeof(buf);
		int n = muggle_socket_ctx_read(ctx, buf, cap);
		if (n > 0) {
			char pre[32];
			snprintf(pre, sizeof(pre), "rd %d ", id);
			sh_log_hex(pre, buf, (size_t)n);
			if (k >= 0) __atomic_fetch_add(&sv_recv[k], n, __ATOMIC_SEQ_CST);
			if (run_triggers(evloop, ctx, id, k, 0)) break;
		} else if (n == 0) {
			sh_logf("rd %d eof", id);
			break;
		} else {
			if (errno != EAGAIN && errno != EWOULDBLOCK) sh_logf("rd %d err", id);
			break;
		}
	}
}
static void cb_close(muggle_event_loop_t *evloop, muggle_socket_context_t *ctx)
{
	(void)evloop;
	int id = sh_ctx_id(ctx);
	sh_logf("close %d", id);
	if (id >= 0 && ctx_conn[id] >= 0) __atomic_store_n(&sv_closed[ctx_conn[id]], 1, __ATOMIC_SEQ_CST);
}
static void cb_release(muggle_event_loop_t *evloop, muggle_socket_context_t *ctx)
{
	(void)evloop;
	sh_logf("release %d", sh_ctx_id(ctx));
}
void drv_on_reg(int id, int ret)
{
	if (ret != 0) {
		if (id == g_listener_id) __atomic_store_n(&g_listener_state, 2, __ATOMIC_SEQ_CST);
		if (id >= 0 && ctx_conn[id] == -2) __atomic_fetch_add(&g_acc_done, 1, __ATOMIC_SEQ_CST);
		if (id >= 0 && ctx_conn[id] >= 0) __atomic_store_n(&sv_closed[ctx_conn[id]], 1, __ATOMIC_SEQ_CST);
		return;
	}
	if (id < 0) return;
	if (ctx_conn[id] == -2 && !HAS('c')) {
		/* accepted and registered; no cb_conn to announce it: the harness binds it to its connection here */
		int k = ctx_ptr[id] ? peer_conn(ctx_ptr[id]->base.fd) : -1;
		ctx_conn[id] = k;
		if (k >= 0) { sv_ctx[k] = id; sv_announced[k] = 1; }
		sh_logf("conn0 %d %d", id, k);
		__atomic_fetch_add(&g_acc_done, 1, __ATOMIC_SEQ_CST);
	} else if (ctx_conn[id] != -2 && !HAS('a')) {
		/* handed over and registered; no cb_add_ctx */
		sh_logf("addctx0 %d", id);
		if (ctx_conn[id] >= 0) sv_announced[ctx_conn[id]] = 1;
		if (id == g_listener_id) __atomic_store_n(&g_listener_state, 1, __ATOMIC_SEQ_CST);
	}
}
void drv_on_alloc(int id, void *ctx)
{
	if (id >= 0 && id < SH_MAXCTX) { ctx_conn[id] = -2; ctx_ptr[id] = (muggle_socket_context_t *)ctx; }
}
void drv_on_read(int id, long n)
{
	if (id >= 0 && id < SH_MAXCTX && ctx_conn[id] >= 0) __atomic_fetch_add(&sv_recv[ctx_conn[id]], n, __ATOMIC_SEQ_CST);
}

/* the handle as the case configures it: only the listed callbacks, the chosen allocator */
static void setup_handle(void)
{
	muggle_socket_evloop_handle_init(&g_handle);
	if (HAS('c')) muggle_socket_evloop_handle_set_cb_conn(&g_handle, cb_conn);
	if (HAS('m')) muggle_socket_evloop_handle_set_cb_msg(&g_handle, cb_msg);
	if (HAS('l')) muggle_socket_evloop_handle_set_cb_close(&g_handle, cb_close);
	if (HAS('r')) muggle_socket_evloop_handle_set_cb_release(&g_handle, cb_release);
	if (HAS('a')) muggle_socket_evloop_handle_set_cb_add_ctx(&g_handle, cb_add_ctx);
	if (HAS('w')) muggle_socket_evloop_handle_set_cb_wake(&g_handle, cb_wake);
	g_pool_expect = NULL;
	if (c_alloc == AL_USER) muggle_socket_evloop_handle_set_alloc_free(&g_handle, NULL, cb_alloc, cb_free);
	else if (c_alloc == AL_POOL) {
		g_pool_expect = &g_poolobj;
		muggle_socket_evloop_handle_set_alloc_free(&g_handle, &g_poolobj, cb_alloc, cb_free);
	} else sh_default_alloc(1);            /* handle_init's defaults stay */
	if (!HAS('m')) sh_log_reads(1);
	muggle_socket_evloop_handle_attach(&g_handle, g_evloop);
}

static void *loop_main(void *arg)
{
	(void)arg;
	sh_loop_thread(1);                 /* its poll / select / epoll_wait calls are logged ("idle") */
	muggle_evloop_run(g_evloop);
	sh_loop_thread(0);
	sh_logf("returned");
	__atomic_store_n(&g_returned, 1, __ATOMIC_SEQ_CST);
	return NULL;
}

/* ---- client side ---- */
static void set_name(struct sockaddr_un *un, socklen_t *len, const char *suffix, int k)
{
	memset(un, 0, sizeof(*un));
	un->sun_family = AF_UNIX;
	int n;
	if (suffix) n = snprintf(un->sun_path + 1, sizeof(un->sun_path) - 1, "c15.%d.%d.%s", (int)getpid(), g_caseno, suffix);
	else n = snprintf(un->sun_path + 1, sizeof(un->sun_path) - 1, "c15.%d.%d.%d", (int)getpid(), g_caseno, k);
	*len = (socklen_t)(offsetof(struct sockaddr_un, sun_path) + 1 + n);
}
static int make_listener(void)
{
	if (c_unix) {
		struct sockaddr_un un; socklen_t len;
		int fd = socket(AF_UNIX, SOCK_STREAM, 0);
		if (fd < 0) return -1;
		set_name(&un, &len, "L", 0);
		if (bind(fd, (struct sockaddr *)&un, len) != 0 || listen(fd, 128) != 0) { close(fd); return -1; }
		return fd;
	}
	int fd = muggle_tcp_listen("127.0.0.1", "0", 128);
	if (fd < 0) return -1;
	struct sockaddr_in in; socklen_t len = sizeof(in);
	getsockname(fd, (struct sockaddr *)&in, &len);
	g_listen_port = ntohs(in.sin_port);
	return fd;
}
static void do_conn(int k)
{
	int fd;
	if (c_unix) {
		struct sockaddr_un un; socklen_t len;
		fd = socket(AF_UNIX, SOCK_STREAM, 0);
		set_name(&un, &len, NULL, k);
		if (fd < 0 || bind(fd, (struct sockaddr *)&un, len) != 0) { if (fd >= 0) close(fd); sh_logf("cfail %d", k); return; }
		set_name(&un, &len, "L", 0);
		if (connect(fd, (struct sockaddr *)&un, len) != 0) { close(fd); sh_logf("cfail %d", k); return; }
	} else {
		struct sockaddr_in in; socklen_t len = sizeof(in);
		fd = socket(AF_INET, SOCK_STREAM, 0);
		memset(&in, 0, sizeof(in));
		in.sin_family = AF_INET; in.sin_addr.s_addr = htonl(INADDR_LOOPBACK); in.sin_port = 0;
		if (fd < 0 || bind(fd, (struct sockaddr *)&in, sizeof(in)) != 0) { if (fd >= 0) close(fd); sh_logf("cfail %d", k); return; }
		getsockname(fd, (struct sockaddr *)&in, &len);
		cl_seq[k] = ++g_connseq;
		__atomic_store_n(&cl_port[k], ntohs(in.sin_port), __ATOMIC_SEQ_CST);
		int one = 1;
		setsockopt(fd, IPPROTO_TCP, TCP_NODELAY, &one, sizeof(one));
		in.sin_port = htons((unsigned short)g_listen_port);
		if (connect(fd, (struct sockaddr *)&in, sizeof(in)) != 0) { close(fd); cl_port[k] = 0; sh_logf("cfail %d", k); return; }
	}
	cl_fd[k] = fd; cl_tcp[k] = !c_unix; cl_ok[k] = 1;
	g_connects++;
	sh_logf("cconn %d", k);
}
static void do_send(struct step *s)
{
	int k = s->a;
	if (!cl_ok[k] || cl_closed[k]) return;
	unsigned char *buf = (unsigned char *)malloc((size_t)s->n + 1);
	for (long j = 0; j < s->n; j++) buf[j] = pay(c_seed, k, cl_sent[k] + j);
	long off = 0; int ci = 0;
	while (off < s->n) {
		long m = s->n - off;
		if (ci < s->nch && s->ch[ci] > 0 && s->ch[ci] < m) m = s->ch[ci];
		ci++;
		char pre[32];
		snprintf(pre, sizeof(pre), "send %d ", k);
		sh_log_hex(pre, buf + off, (size_t)m);
		long w = 0; int dead = 0;
		while (w < m) {
			ssize_t r = send(cl_fd[k], buf + off + w, (size_t)(m - w), MSG_NOSIGNAL);
			if (r > 0) w += r;
			else if (r < 0 && errno == EINTR) continue;
			else { dead = 1; break; }
		}
		off += m;
		cl_sent[k] += m;
		if (dead) { sh_logf("sendfail %d", k); break; }
		if (s->nch > 0) sched_yield();
	}
	free(buf);
}
static void do_sync(void)
{
	/* until the server side has seen everything the clients did so far (connections accepted or refused,
	 * bytes read, closes dispatched), or the loop thread is quiet (the rest will never be seen: e.g. a
	 * backlog left behind by a failed accept with the edge-triggered back-end), or run() returned */
	double t0 = now_s();
	for (;;) {
		int pending = 0;
		if (__atomic_load_n(&g_returned, __ATOMIC_SEQ_CST)) break;
		if (__atomic_load_n(&g_stalled, __ATOMIC_SEQ_CST) && !__atomic_load_n(&g_unstall, __ATOMIC_SEQ_CST)) break;
		if (now_s() - t0 > BIG_WAIT) { inconclusive("sync"); break; }
		if (__atomic_load_n(&g_listener_state, __ATOMIC_SEQ_CST) == 1 &&
			__atomic_load_n(&g_acc_done, __ATOMIC_SEQ_CST) < g_connects) pending = 1;
		for (int k = 0; k < MAXCONN && !pending; k++) {
			if (!cl_ok[k] || sv_ctx[k] < 0) continue;
			if (__atomic_load_n(&sv_closed[k], __ATOMIC_SEQ_CST)) continue;
			if (cl_closed[k]) { pending = 1; break; }
			if (__atomic_load_n(&sv_recv[k], __ATOMIC_SEQ_CST) < cl_sent[k]) { pending = 1; break; }
		}
		if (!pending) break;
		if (loop_quiet()) break;
		struct timespec ts = { 0, 200000L }; nanosleep(&ts, NULL);
	}
}

/* ---- socket scenario ---- */
static void run_socket_case(void)
{
	long heap0 = sh_heap_live();
	int fds0 = sh_open_fds();
	memset(cl_fd, -1, sizeof(cl_fd)); memset(cl_ok, 0, sizeof(cl_ok)); memset(cl_closed, 0, sizeof(cl_closed));
	memset(cl_tcp, 0, sizeof(cl_tcp)); g_inconclusive = 0;
	memset(cl_port, 0, sizeof(cl_port)); memset(cl_sent, 0, sizeof(cl_sent)); memset(sv_recv, 0, sizeof(sv_recv));
	memset(sv_closed, 0, sizeof(sv_closed)); memset(sv_announced, 0, sizeof(sv_announced));
	for (int i = 0; i < MAXCONN; i++) sv_ctx[i] = -1;
	for (int i = 0; i < SH_MAXCTX; i++) ctx_conn[i] = -1;
	g_alloc_calls = 0; g_exit_req = 0; g_returned = 0; g_acc_done = 0; g_connects = 0;
	g_listener_state = 0; g_listener_id = -1; g_srv_rng = c_seed ^ 0x5151515151ULL;
	g_stalled = 0; g_unstall = 0; g_wakes = 0;

	muggle_event_loop_init_args_t args;
	memset(&args, 0, sizeof(args));
	args.evloop_type = c_be; args.hints_max_fd = c_hints; args.use_mem_pool = c_pool;
	g_evloop = muggle_evloop_new(&args);
	if (!g_evloop) { printf("SETUPFAIL evloop\n"); return; }
	sh_signal_fd(muggle_ev_signal_rfd(g_evloop->ev_signal));
	setup_handle();

	g_listen_fd = make_listener();
	if (g_listen_fd < 0) { printf("SETUPFAIL listen\n"); return; }
	muggle_socket_context_t *lctx = make_ctx(g_listen_fd, MUGGLE_SOCKET_CTX_TYPE_TCP_LISTEN, -1, &g_listener_id);

	/* hand-overs before the loop thread exists: the listener's and the prehand contexts' wake-ups
	 * are one notification of the event signal */
	int prehand = 0;
	for (int i = 0; i < c_nstep; i++) if (c_step[i].op == S_PREHAND) prehand = 1;
	if (prehand) {
		hand_ctx(lctx, g_listener_id);
		for (int i = 0; i < c_nstep; i++)
			if (c_step[i].op == S_PREHAND)
				for (int j = 0; j < c_step[i].nch; j++) {
					int k = c_step[i].ch[j];
					if (k >= 0 && k < MAXCONN && !cl_ok[k]) hand_pair(k);
				}
	}
	/* the workers exist BEFORE the loop thread: a retain trigger with threshold 0 fires inside cb_add_ctx of a
	 * context handed over before the loop started, i.e. as soon as the loop thread runs, and gives the reference
	 * to a worker (initialising the workers afterwards wiped such a reference: the context was then never released -
	 * a timing-dependent false "N allocated, N-1 freed") */
	for (int w = 0; w < c_workers; w++) {
		memset(&g_w[w], 0, sizeof(g_w[w]));
		pthread_mutex_init(&g_w[w].mtx, NULL); pthread_cond_init(&g_w[w].cv, NULL);
		pthread_create(&g_w[w].th, NULL, worker_main, (void *)(intptr_t)w);
	}
	pthread_t lth;
	pthread_create(&lth, NULL, loop_main, NULL);
	if (!prehand) hand_ctx(lctx, g_listener_id);
	{
		/* the listener's hand-over has been registered (or refused) by the loop thread */
		double t0 = now_s();
		while (__atomic_load_n(&g_listener_state, __ATOMIC_SEQ_CST) == 0 && !__atomic_load_n(&g_returned, __ATOMIC_SEQ_CST)) {
			if (now_s() - t0 > BIG_WAIT) { inconclusive("listener registration"); break; }
			msleep_(1);
		}
	}

	for (int i = 0; i < c_nstep; i++) {
		struct step *s = &c_step[i];
		switch (s->op) {
		case S_CONN: if (!cl_ok[s->a]) do_conn(s->a); break;
		case S_HAND: if (!cl_ok[s->a] && !__atomic_load_n(&g_exit_req, __ATOMIC_SEQ_CST)) hand_pair(s->a); break;
		case S_SEND: do_send(s); break;
		case S_CCLOSE:
			if (cl_ok[s->a] && !cl_closed[s->a]) { sh_logf("cclose %d", s->a); close(cl_fd[s->a]); cl_closed[s->a] = 1; }
			break;
		case S_WREL: if (s->a < c_workers) worker_cmd(s->a, W_REL); break;
		case S_WSHUT: if (s->a < c_workers) worker_cmd(s->a, W_SHUT); break;
		case S_XEXIT:
			if (!__atomic_exchange_n(&g_exit_req, 1, __ATOMIC_SEQ_CST)) { sh_logf("xexit"); muggle_evloop_exit(g_evloop); }
			break;
		case S_SYNC: do_sync(); break;
		case S_SLEEP: { struct timespec ts = { 0, s->a * 1000L }; nanosleep(&ts, NULL); } break;
		case S_BURST: if (!__atomic_load_n(&g_exit_req, __ATOMIC_SEQ_CST)) do_burst(s, 0); break;
		case S_BURSTMT: if (!__atomic_load_n(&g_exit_req, __ATOMIC_SEQ_CST)) do_burst(s, 1); break;
		case S_AWAIT: do_await(s->a); break;
		case S_UNSTALL: __atomic_store_n(&g_unstall, 1, __ATOMIC_SEQ_CST); break;
		case S_WAITSTALL: wait_flag(&g_stalled, "waitstall"); break;
		case S_WAITEOF:
			if (cl_ok[s->a] && !cl_closed[s->a]) {
				/* until the server's end of stream arrives, or the loop thread is quiet with everything
				 * delivered (the half-close trigger did not fire and never will) or has returned */
				struct timeval tv = { 0, 5000 }; char b[64]; ssize_t r;
				double t0 = now_s();
				setsockopt(cl_fd[s->a], SOL_SOCKET, SO_RCVTIMEO, &tv, sizeof(tv));
				for (;;) {
					r = recv(cl_fd[s->a], b, sizeof(b), 0);
					if (r > 0) continue;
					if (r == 0) break;
					if (errno != EAGAIN && errno != EWOULDBLOCK && errno != EINTR) break;
					if (__atomic_load_n(&g_returned, __ATOMIC_SEQ_CST) || loop_quiet()) {
						/* one more look: the end of stream may have arrived just before */
						r = recv(cl_fd[s->a], b, sizeof(b), MSG_DONTWAIT);
						if (r > 0) continue;
						break;
					}
					if (now_s() - t0 > BIG_WAIT) { inconclusive("waiteof"); break; }
				}
			}
			break;
		case S_CRESET:
			if (cl_ok[s->a] && !cl_closed[s->a]) {
				struct linger lg = { 1, 0 };
				sh_logf("creset %d", s->a);
				setsockopt(cl_fd[s->a], SOL_SOCKET, SO_LINGER, &lg, sizeof(lg));
				close(cl_fd[s->a]); cl_closed[s->a] = 1;
			}
			break;
		case S_WAITHAND: wait_flag(&cl_ok[s->a], "waithand"); break;
		case S_QUIET: wait_quiet("quiet"); sh_logf("quiet"); break;
		case S_PREHAND: break;
		}
	}
	/* no exit in the script: let the server consume what is in flight and wait (bounded) until the
	 * loop thread sits in its back-end's wait with nothing ready (keeps replays of shrunk cases
	 * reproducible: what the loop owes is judged at a stable point), then exit from this thread */
	__atomic_store_n(&g_unstall, 1, __ATOMIC_SEQ_CST);      /* a stalled loop thread is released at the latest here */
	if (!__atomic_load_n(&g_exit_req, __ATOMIC_SEQ_CST)) {
		do_sync();
		wait_quiet("end of script");
	}
	if (!__atomic_exchange_n(&g_exit_req, 1, __ATOMIC_SEQ_CST)) { sh_logf("xexit"); muggle_evloop_exit(g_evloop); }
	{
		/* muggle_evloop_run has to return after the exit request: that IS a time-out (a loop that never
		 * returns cannot be told from a slow one), so it is long */
		struct timespec ts; clock_gettime(CLOCK_REALTIME, &ts); ts.tv_sec += 90;
		if (pthread_timedjoin_np(lth, NULL, &ts) != 0) {
			sh_dump(stdout);
			printf("HANG loop thread did not return\nEND\n");
			fflush(stdout);
			_exit(77);      /* the batch runner restarts the driver for the remaining cases */
		}
	}
	/* a hand-over that lost the race with the end of run() (enqueued after on_exit had drained the queue)
	 * is outside the property: the context is still queued and still the caller's; take it back */
	int late = 0;
	while (muggle_queue_size(g_handle.ctx_queue) > 0) {
		muggle_queue_node_t *node = muggle_queue_front(g_handle.ctx_queue);
		muggle_socket_context_t *ctx = (muggle_socket_context_t *)node->data;
		int id = sh_ctx_id(ctx);
		sh_logf("late %d", id);
		muggle_queue_dequeue(g_handle.ctx_queue, NULL, NULL);
		muggle_socket_ctx_close(ctx);
		sh_lock();
		sh_logf_locked("latefree %d", id);
		sh_ctx_late_locked(id);
		sh_unlock();
		free(ctx);
		late++;
	}
	for (int w = 0; w < c_workers; w++) {
		worker_cmd(w, W_RELALL);
		pthread_mutex_lock(&g_w[w].mtx); g_w[w].quit = 1; pthread_cond_broadcast(&g_w[w].cv); pthread_mutex_unlock(&g_w[w].mtx);
		pthread_join(g_w[w].th, NULL);
		pthread_mutex_destroy(&g_w[w].mtx); pthread_cond_destroy(&g_w[w].cv);
	}
	for (int k = 0; k < MAXCONN; k++) if (cl_ok[k] && !cl_closed[k]) { close(cl_fd[k]); cl_closed[k] = 1; }
	sh_signal_fd(-1);
	muggle_socket_evloop_handle_destroy(&g_handle);
	muggle_evloop_delete(g_evloop);
	g_evloop = NULL;
	sh_dump(stdout);
	printf("F ctx alloc=%d freed=%d late=%d\n", sh_ctx_allocs(), sh_ctx_frees(), late);
	printf("F heap_delta=%ld fd_delta=%d badclose=%d\n", sh_heap_live() - heap0, sh_open_fds() - fds0, sh_badclose());
}

/* ---- scheduled scenario (deterministic scheduler) ---- */
static int v_done, v_go;
static void v_send(int k)
{
	if (v_bytes <= 0 || !cl_ok[k]) return;
	struct step s;
	memset(&s, 0, sizeof(s));
	s.op = S_SEND; s.a = k; s.n = v_bytes;
	do_send(&s);
}
static void v_loop(void *arg)
{
	(void)arg;
	loop_main(NULL);
}
static void v_hander(void *arg)
{
	int j = (int)(intptr_t)arg;
	while (v_gate && !v_go) vs_yield_point("gate");
	vs_yield_point("op");
	hand_pair(j);
	v_send(j);
	v_done++;
}
static void v_main(void *arg)
{
	(void)arg;
	muggle_event_loop_init_args_t args;
	memset(&args, 0, sizeof(args));
	args.evloop_type = c_be; args.hints_max_fd = c_hints; args.use_mem_pool = c_pool;
	g_evloop = muggle_evloop_new(&args);
	if (!g_evloop) { sh_logf("SETUPFAIL evloop"); return; }
	sh_signal_fd(muggle_ev_signal_rfd(g_evloop->ev_signal));
	setup_handle();
	vs_name(&g_handle.mtx->mtx, "hmtx");
	vs_name(&g_prod, "prod");
	vs_spawn(v_loop, NULL);
	for (int j = 1; j <= v_nh; j++) vs_spawn(v_hander, (void *)(intptr_t)j);
	vs_yield_point("op");
	hand_pair(0);
	v_go = 1;
	v_send(0);
	while (v_done < v_nh) vs_yield_point("wait");
	/* every hand-over has returned and every byte is written: wait until a wait of the loop thread
	 * that STARTED after this point has found nothing ready */
	long c0 = sh_idle_count();
	while (sh_idle_count() == c0 && !g_returned) vs_yield_point("wait");
	for (int k = 0; k < MAXCONN; k++)
		if (cl_ok[k]) sh_logf("await %d %ld %ld", k, sv_recv[k], cl_sent[k]);
	g_exit_req = 1;
	sh_logf("xexit");
	muggle_evloop_exit(g_evloop);
	while (!g_returned) vs_yield_point("wait");
}
static void run_vs_case(void)
{
	vs_reset();
	vs_set_budget(v_budget);
	vs_set_schedule(v_sched);
	long heap0 = sh_heap_live();
	int fds0 = sh_open_fds();
	memset(cl_fd, -1, sizeof(cl_fd)); memset(cl_ok, 0, sizeof(cl_ok)); memset(cl_closed, 0, sizeof(cl_closed));
	memset(cl_tcp, 0, sizeof(cl_tcp)); g_inconclusive = 0;
	memset(cl_port, 0, sizeof(cl_port)); memset(cl_sent, 0, sizeof(cl_sent)); memset(sv_recv, 0, sizeof(sv_recv));
	memset(sv_closed, 0, sizeof(sv_closed)); memset(sv_announced, 0, sizeof(sv_announced));
	for (int i = 0; i < MAXCONN; i++) sv_ctx[i] = -1;
	for (int i = 0; i < SH_MAXCTX; i++) ctx_conn[i] = -1;
	g_alloc_calls = 0; g_exit_req = 0; g_returned = 0; g_acc_done = 0; g_connects = 0;
	g_listener_state = 0; g_listener_id = -1; g_srv_rng = c_seed ^ 0x5151515151ULL;
	g_stalled = 0; g_unstall = 0; g_wakes = 0; v_done = 0; v_go = 0;
	g_evloop = NULL;
	vs_spawn(v_main, NULL);
	int st = vs_run();
	if (st != 0) {
		/* DEADLOCK / LIVELOCK has been printed by the scheduler: the threads are parked for ever */
		sh_dump(stdout);
		printf("END\n");
		fflush(stdout);
		_exit(77);
	}
	for (int k = 0; k < MAXCONN; k++) if (cl_ok[k] && !cl_closed[k]) { close(cl_fd[k]); cl_closed[k] = 1; }
	sh_signal_fd(-1);
	if (g_evloop) {
		muggle_socket_evloop_handle_destroy(&g_handle);
		muggle_evloop_delete(g_evloop);
		g_evloop = NULL;
	}
	sh_dump(stdout);
	printf("F ctx alloc=%d freed=%d late=0\n", sh_ctx_allocs(), sh_ctx_frees());
	printf("F heap_delta=%ld fd_delta=%d badclose=%d\n", sh_heap_live() - heap0, sh_open_fds() - fds0, sh_badclose());
}

/* ---- pipe scenario ---- */
static muggle_socket_evloop_pipe_t g_pipe;
static int p_writers_done;
static void *pipe_writer(void *arg)
{
	int w = (int)(intptr_t)arg;
	sh_pipe_writer_id(w);
	for (int i = 0; i < p_per; i++) {
		uintptr_t v = ((uintptr_t)(w + 1) << 32) | (uintptr_t)(i + 1);
		bool ok = muggle_socket_evloop_pipe_write(&g_pipe, (void *)v);
		if (!ok) sh_logf("pwfail %d %d", w, i);
		if ((i & 3) == 0) sched_yield();
	}
	__atomic_fetch_add(&p_writers_done, 1, __ATOMIC_SEQ_CST);
	return NULL;
}
/* A reader (or a writer) that never comes back from the library call is a hang of the code under test; it
 * cannot be told from a slow one except by time, so the bound is long and counts only time without ANY
 * progress (no call of the reader returning, no writer finishing). */
static long p_reader_calls;
static int p_case_over;
static void *pipe_watchdog(void *arg)
{
	(void)arg;
	long seen = -1; int seen_done = -1; double last = now_s();
	while (!__atomic_load_n(&p_case_over, __ATOMIC_SEQ_CST)) {
		long c = __atomic_load_n(&p_reader_calls, __ATOMIC_SEQ_CST);
		int d = __atomic_load_n(&p_writers_done, __ATOMIC_SEQ_CST);
		if (c != seen || d != seen_done) { seen = c; seen_done = d; last = now_s(); }
		else if (now_s() - last > BIG_WAIT) {
			sh_dump(stdout);
			printf("HANG pipe: no call of muggle_socket_evloop_pipe_read returned and no writer finished for %d s "
				"(%d of %d writers done)\nEND\n", (int)BIG_WAIT, d, p_writers);
			fflush(stdout);
			_exit(77);      /* the batch runner restarts the driver for the remaining cases */
		}
		msleep_(5);
	}
	return NULL;
}
static void run_pipe_case(void)
{
	long heap0 = sh_heap_live();
	int fds0 = sh_open_fds();
	if (muggle_socket_evloop_pipe_init(&g_pipe) != 0) { printf("SETUPFAIL pipe\n"); return; }
	int rfd = muggle_socket_evloop_pipe_get_reader(&g_pipe)->base.fd;
	int wfd = muggle_socket_evloop_pipe_get_writer(&g_pipe)->base.fd;
	if (p_psize > 0) muggle_socket_evloop_pipe_set_w_size(&g_pipe, p_psize);
	sh_pipe_fds(rfd, wfd, c_seed, p_rfrag, p_wfrag);
	pthread_t th[16], wd;
	p_writers_done = 0; p_reader_calls = 0; p_case_over = 0;
	pthread_create(&wd, NULL, pipe_watchdog, NULL);
	for (int w = 0; w < p_writers; w++) pthread_create(&th[w], NULL, pipe_writer, (void *)(intptr_t)w);
	long total = (long)p_writers * p_per, got = 0;
	/* Read until every pointer written has been read.  Once all writers have finished, everything they wrote is
	 * in the pipe: the reader then stops when the pipe stays empty (a run of NULL results far longer than the
	 * injected EAGAIN / EINTR faults can produce) - pointers still missing are missing for good, which the
	 * "pdone" line shows.  No time-out decides anything. */
	int empty_run = 0;
	while (got < total) {
		void *p = muggle_socket_evloop_pipe_read(&g_pipe);
		__atomic_fetch_add(&p_reader_calls, 1, __ATOMIC_SEQ_CST);
		if (p) {
			uintptr_t v = (uintptr_t)p;
			sh_logf("pr %lld %lld", (long long)(v >> 32) - 1, (long long)(v & 0xffffffffu) - 1);
			got++; empty_run = 0;
		} else {
			if (__atomic_load_n(&p_writers_done, __ATOMIC_SEQ_CST) == p_writers) { if (++empty_run > 400) break; }
			else sched_yield();
		}
	}
	for (int w = 0; w < p_writers; w++) pthread_join(th[w], NULL);
	__atomic_store_n(&p_case_over, 1, __ATOMIC_SEQ_CST);
	pthread_join(wd, NULL);
	sh_logf("pdone %ld", got);
	sh_pipe_fds(-1, -1, 0, 0, 0);
	muggle_socket_evloop_pipe_destroy(&g_pipe);
	sh_dump(stdout);
	printf("F heap_delta=%ld fd_delta=%d badclose=%d\n", sh_heap_live() - heap0, sh_open_fds() - fds0, sh_badclose());
}

/* ---- protocol ---- */
static void case_begin(void)
{
	g_caseno++;
	sh_reset();
	c_be = MUGGLE_EVLOOP_TYPE_EPOLL; c_unix = 0; c_hints = 64; c_pool = 0; c_rbuf = 64; c_workers = 2; c_seed = 1;
	c_nalloc_fault = 0; c_ntrig = 0; c_nstep = 0; c_is_pipe = 0; c_ignore = 0;
	strcpy(c_cbs, "cmlraw"); c_alloc = AL_USER;
	c_nonwake = 0; c_is_vs = 0; v_nh = 1; v_bytes = 3; v_gate = 1; v_budget = 20000;
	strcpy(v_sched, "rand 1 50 0 0");
}
static long kv(const char *line, const char *key, long dflt)
{
	char pat[32];
	snprintf(pat, sizeof(pat), " %s=", key);
	const char *p = strstr(line, pat);
	if (!p) return dflt;
	return strtol(p + strlen(pat), NULL, 10);
}
static void case_line(char *line)
{
	char op[32];
	if (sscanf(line, "%31s", op) != 1) return;
	if (strcmp(op, "TRACE") == 0) { c_ignore = 1; return; }   /* model-side section: not for this driver */
	if (c_ignore) return;
	if (strcmp(op, "sched") == 0) { snprintf(v_sched, sizeof(v_sched), "%s", line + 6); return; }
	if (strcmp(op, "cfg") == 0 || strcmp(op, "vs") == 0) {
		const char *cb = strstr(line, " cbs=");
		if (cb) {
			int n = 0;
			for (const char *q = cb + 5; *q && *q != ' ' && n < 15; q++) if (*q != '-') c_cbs[n++] = *q;
			c_cbs[n] = 0;
		}
		if (strstr(line, " alloc=default")) c_alloc = AL_DEFAULT;
		else if (strstr(line, " alloc=pool")) c_alloc = AL_POOL;
		const char *ow = strstr(line, " onwake=");
		if (ow) {
			const char *q = ow + 8;
			while (*q && *q != ' ' && c_nonwake < MAXONWAKE) {
				char *e1; long n = strtol(q, &e1, 10);
				if (*e1 != ':') break;
				char *e2; long k = strtol(e1 + 1, &e2, 10);
				if (e2 == e1 + 1) break;
				if (k >= 0 && k < MAXCONN) {
					c_onwake[c_nonwake].nth = (int)n; c_onwake[c_nonwake].conn = (int)k; c_onwake[c_nonwake].fired = 0;
					c_nonwake++;
				}
				q = e2;
				if (*q == ',') q++; else break;
			}
		}
		if (strcmp(op, "vs") == 0) {
			c_is_vs = 1;
			v_nh = (int)kv(line, "nh", 1); if (v_nh < 0) v_nh = 0; if (v_nh > VS_MAXT - 3) v_nh = VS_MAXT - 3;
			v_bytes = (int)kv(line, "bytes", 3); if (v_bytes < 0) v_bytes = 0; if (v_bytes > 4096) v_bytes = 4096;
			v_gate = (int)kv(line, "gate", 1);
			v_budget = kv(line, "budget", 20000);
		}
		if (strstr(line, " be=select")) c_be = MUGGLE_EVLOOP_TYPE_SELECT;
		else if (strstr(line, " be=poll")) c_be = MUGGLE_EVLOOP_TYPE_POLL;
		else c_be = MUGGLE_EVLOOP_TYPE_EPOLL;
		c_unix = strstr(line, " fam=unix") != NULL;
		c_hints = (int)kv(line, "hints", 64); c_pool = (int)kv(line, "pool", 0);
		c_rbuf = (int)kv(line, "rbuf", 64); if (c_rbuf < 1) c_rbuf = 1;
		c_workers = (int)kv(line, "workers", 2); if (c_workers > MAXW) c_workers = MAXW; if (c_workers < 0) c_workers = 0;
		c_seed = (unsigned long long)kv(line, "seed", 1);
	} else if (strcmp(op, "pipe") == 0) {
		c_is_pipe = 1;
		p_writers = (int)kv(line, "writers", 2); if (p_writers > 16) p_writers = 16; if (p_writers < 1) p_writers = 1;
		p_per = (int)kv(line, "per", 10); p_rfrag = (int)kv(line, "rfrag", 0); p_wfrag = (int)kv(line, "wfrag", 0);
		p_psize = (int)kv(line, "psize", 0); c_seed = (unsigned long long)kv(line, "seed", 1);
	} else if (strcmp(op, "fault") == 0) {
		char kind[16]; int pos = 0;
		if (sscanf(line, "%*s %15s%n", kind, &pos) < 1) return;
		char *p = line + pos;
		while (*p) {
			while (*p == ' ') p++;
			if (!*p) break;
			int idx = (int)strtol(p, &p, 10);
			if (strcmp(kind, "alloc") == 0) { if (c_nalloc_fault < 64) c_alloc_fault[c_nalloc_fault++] = idx; }
			else if (strcmp(kind, "accept") == 0) sh_fault_accept(idx);
			else if (strcmp(kind, "add") == 0) {
				int mode = SH_ADD_WRAP;
				if (*p == ':') { p++; if (*p == 'm') mode = SH_ADD_MALLOC; p++; }
				sh_fault_add(idx, mode);
			}
			while (*p && *p != ' ') p++;
		}
	} else if (strcmp(op, "trig") == 0) {
		int k; long thr; char act[16]; int arg = 0;
		int nf = sscanf(line, "%*s %d %ld %15s %d", &k, &thr, act, &arg);
		if (nf < 3 || c_ntrig >= MAXTRIG || k < 0 || k >= MAXCONN) return;
		struct trig *t = &c_trig[c_ntrig++];
		t->conn = k; t->thr = thr; t->fired = 0; t->arg = arg;
		t->act = strcmp(act, "retain") == 0 ? A_RETAIN : strcmp(act, "shut") == 0 ? A_SHUT :
			strcmp(act, "exit") == 0 ? A_EXIT : strcmp(act, "stall") == 0 ? A_STALL :
			strcmp(act, "halfclose") == 0 ? A_HALFCLOSE : strcmp(act, "shutexit") == 0 ? A_SHUTEXIT : A_HANDEXIT;
		if (t->act == A_RETAIN && (arg < 0 || arg >= MAXW)) c_ntrig--;
	} else {
		if (c_nstep >= MAXSTEP) return;
		struct step *s = &c_step[c_nstep];
		memset(s, 0, sizeof(*s));
		int a = 0; long n = 0; int pos = 0;
		sscanf(line, "%*s %d%n", &a, &pos);
		s->a = a;
		if (strcmp(op, "conn") == 0) s->op = S_CONN;
		else if (strcmp(op, "hand") == 0) s->op = S_HAND;
		else if (strcmp(op, "cclose") == 0) s->op = S_CCLOSE;
		else if (strcmp(op, "wrel") == 0) s->op = S_WREL;
		else if (strcmp(op, "wshut") == 0) s->op = S_WSHUT;
		else if (strcmp(op, "xexit") == 0) s->op = S_XEXIT;
		else if (strcmp(op, "sync") == 0) s->op = S_SYNC;
		else if (strcmp(op, "sleep") == 0) s->op = S_SLEEP;
		else if (strcmp(op, "await") == 0) s->op = S_AWAIT;
		else if (strcmp(op, "unstall") == 0) s->op = S_UNSTALL;
		else if (strcmp(op, "waitstall") == 0) s->op = S_WAITSTALL;
		else if (strcmp(op, "waiteof") == 0) s->op = S_WAITEOF;
		else if (strcmp(op, "creset") == 0) s->op = S_CRESET;
		else if (strcmp(op, "waithand") == 0) s->op = S_WAITHAND;
		else if (strcmp(op, "quiet") == 0) s->op = S_QUIET;
		else if (strcmp(op, "prehand") == 0 || strcmp(op, "burst") == 0 || strcmp(op, "burstmt") == 0) {
			s->op = strcmp(op, "prehand") == 0 ? S_PREHAND : strcmp(op, "burst") == 0 ? S_BURST : S_BURSTMT;
			char *p = line + strlen(op);
			while (*p && s->nch < MAXCHUNK) {
				while (*p == ' ') p++;
				if (!*p) break;
				s->ch[s->nch++] = (int)strtol(p, &p, 10);
			}
			s->a = 0;
		}
		else if (strcmp(op, "send") == 0) {
			s->op = S_SEND;
			char *p = line + pos;
			n = strtol(p, &p, 10);
			s->n = n < 0 ? 0 : n;
			while (*p && s->nch < MAXCHUNK) {
				while (*p == ' ') p++;
				if (!*p) break;
				s->ch[s->nch++] = (int)strtol(p, &p, 10);
			}
		} else return;
		if ((s->op == S_CONN || s->op == S_HAND || s->op == S_SEND || s->op == S_CCLOSE || s->op == S_AWAIT || s->op == S_WAITEOF || s->op == S_CRESET || s->op == S_WAITHAND) && (a < 0 || a >= MAXCONN)) return;
		if ((s->op == S_WREL || s->op == S_WSHUT) && (a < 0 || a >= MAXW)) return;
		c_nstep++;
	}
}
static void case_end(void)
{
	alarm(600);
	if (c_is_pipe) run_pipe_case(); else if (c_is_vs) run_vs_case(); else run_socket_case();
	alarm(0);
}

int main(void)
{
	signal(SIGPIPE, SIG_IGN);
	muggle_socket_lib_init();
	return vdrv_main();
}
