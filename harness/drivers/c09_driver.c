/* C09 implementation driver: muggle AVL tree, hash table and trie, with or
 * without the node memory pool, compiled from the repository's working tree.
 *
 * header:  avl <cap> [cmp] | ht <cap> <table_size> <id|zero|low|mul|def|defb> [cmp] | trie <cap>
 *          cmp = sgn (default: -1/0/1) | diff (clamped difference) | big (INT_MIN/0/INT_MAX) | m256 (+-256):
 *          the comparator's MAGNITUDE; the library may only use the sign
 * avl ops: ins k v | find k | rem k [fk fv]  -> result / ["own a b"] / "t <pre-order dump k=v:balance, . = NULL>" / "chk ..."
 *          insq k v | remq k [fk fv]         -> result / ["own a b"] only (large trees);  check -> "t ..." / "chk ..."
 * ht ops : put k v | find k | rem k [fk fv] | clear [fk fv] | dump | hash k | where k  -> result / ["own a b"] / "chk ok n=<count>"
 *          (hash k: value of the table's hash function on the key, i.e. the library's default
 *           string hash for kind def / defb; where k: index of the bucket whose chain holds the key;
 *           defb: the decimal string of the key with bit 7 set in every other byte)
 * trie   : ins <hex> v | find <hex> | rem <hex> [f] | dump   -> one result line (+ "own a" after rem)
 * allocation failure (a failed insert / put must report failure and leave a structure that still answers like
 * the map):  header word "const" (after the capacity / comparator): the node pool gets
 * MUGGLE_MEMORY_POOL_CONSTANT_SIZE, so it is exhausted after <cap> nodes;  op "failat j": the j-th malloc
 * called INSIDE the next ins / insq / put fails (link flag -Wl,--wrap=malloc; meant for cases without a
 * pool, where one node = one malloc); prints nothing.
 * fk / fv / f = 1: the free callback for keys / values is passed, 0: NULL is passed (borrowed data: the
 * driver releases the block itself afterwards).  "own a b": how often the key / value callback was called
 * with the block of the removed association (" BAD" appended if it was called with anything else).
 *
 * Keys and values are heap blocks released through the library's free
 * callbacks, so that ASan sees a wrong/double free of user data.  The verdict
 * line of the AVL tree walks the real nodes: parent links, recomputed heights
 * against the recorded balance factor, strict in-order key order; the verdict
 * line of the hash table walks every chain: prev/next consistency, the bucket
 * of every node, node count. */
#include "vdrv.h"
#include "muggle/c/dsaa/avl_tree.h"
#include "muggle/c/dsaa/hash_table.h"
#include "muggle/c/dsaa/trie.h"

#include "muggle/c/memory/memory_pool.h"

/* malloc switch: armed only while the library's insert / put runs */
void *__real_malloc(size_t);
static int fail_armed, fail_at, fail_calls, fail_pending;
void *__wrap_malloc(size_t n)
{
	if (fail_armed && ++fail_calls == fail_at) return NULL;
	return __real_malloc(n);
}
static void fail_arm(void) { fail_at = fail_pending; fail_calls = 0; fail_armed = fail_pending > 0; fail_pending = 0; }
static void fail_disarm(void) { fail_armed = 0; }

enum { K_NONE, K_AVL, K_HT, K_TRIE };
static int kind;
static muggle_avl_tree_t *avl;
static muggle_hash_table_t *ht;
static muggle_trie_t *trie;
static int ht_str;            /* hash table keyed by decimal strings with the default hash */
static long live_user_blocks; /* keys + values handed to the library and not yet released */

static void *box(long long v)
{
	int64_t *p = (int64_t *)malloc(sizeof(int64_t));
	*p = v;
	live_user_blocks++;
	return p;
}
static void str_key(long long v, char *out, size_t cap);
static void *box_str(long long v)
{
	char tmp[40];
	str_key(v, tmp, sizeof(tmp));
	size_t n = strlen(tmp) + 1;
	char *p = (char *)malloc(n); /* exact size: the hash must stop at the NUL */
	memcpy(p, tmp, n);
	live_user_blocks++;
	return p;
}
static void unbox(void *pool, void *data)
{
	(void)pool;
	if (data) live_user_blocks--;
	free(data);
}
/* counting callbacks: which blocks the library releases during ONE remove / clear */
static void *exp_key, *exp_val;   /* the blocks of the association being removed (NULL: any) */
static int n_kcb, n_vcb, bad_cb;
static void cb_reset(void *k, void *v) { exp_key = k; exp_val = v; n_kcb = n_vcb = bad_cb = 0; }
static void unbox_k(void *pool, void *data)
{
	(void)pool;
	if (data) { n_kcb++; if (exp_key && data != exp_key) bad_cb = 1; live_user_blocks--; }
	free(data);
}
static void unbox_v(void *pool, void *data)
{
	(void)pool;
	if (data) { n_vcb++; if (exp_val && data != exp_val) bad_cb = 1; live_user_blocks--; }
	free(data);
}
static void drop(void *data) { if (data) { live_user_blocks--; free(data); } }   /* the caller's own release */
static void own_line2(void) { printf("own %d %d%s\n", n_kcb, n_vcb, bad_cb ? " BAD" : ""); }

enum { C_SGN, C_DIFF, C_BIG, C_M256 };
static int cmp_kind;
static int cmp_shape(int s, int64_t x, int64_t y)
{
	switch (cmp_kind) {
	case C_DIFF: {
		__int128 d = (__int128)x - (__int128)y;
		if (d > INT32_MAX) return INT32_MAX;
		if (d < INT32_MIN) return INT32_MIN;
		return (int)d;
	}
	case C_BIG: return s < 0 ? INT32_MIN : (s > 0 ? INT32_MAX : 0);
	case C_M256: return s * 256;
	default: return s;
	}
}
static int cmp_i64(const void *a, const void *b)
{
	int64_t x = *(const int64_t *)a, y = *(const int64_t *)b;
	return cmp_shape(x < y ? -1 : (x > y ? 1 : 0), x, y);
}
static int cmp_str(const void *a, const void *b)
{
	int r = strcmp((const char *)a, (const char *)b);
	return cmp_shape(r < 0 ? -1 : (r > 0 ? 1 : 0), r, 0);
}
static int parse_cmp(const char *w)
{
	return strcmp(w, "diff") == 0 ? C_DIFF : strcmp(w, "big") == 0 ? C_BIG : strcmp(w, "m256") == 0 ? C_M256 : C_SGN;
}

static uint64_t h_id(void *d) { return (uint64_t)*(int64_t *)d; }
static uint64_t h_zero(void *d) { (void)d; return 0; }
static uint64_t h_low(void *d) { return ((uint64_t)*(int64_t *)d) % 4; }
static uint64_t h_mul(void *d) { return ((uint64_t)*(int64_t *)d) * 11400714819323198485ULL; }

/* ---------------------------------------------------------------- AVL */
static const char *avl_bad;
static long long avl_bad_key;
static int avl_have_prev;
static int64_t avl_prev;

static void avl_dump(muggle_avl_tree_node_t *n)
{
	if (!n) { fputs(" .", stdout); return; }
	printf(" %lld=%lld:%d", (long long)*(int64_t *)n->key, (long long)*(int64_t *)n->value, (int)n->balance);
	avl_dump(n->left);
	avl_dump(n->right);
}
static int avl_walk(muggle_avl_tree_node_t *n, muggle_avl_tree_node_t *parent)
{
	if (!n) return 0;
	int64_t k = *(int64_t *)n->key;
	if (n->parent != parent && !avl_bad) { avl_bad = "parent-link"; avl_bad_key = k; }
	int hl = avl_walk(n->left, n);
	if (avl_have_prev && !(avl_prev < k) && !avl_bad) { avl_bad = "order"; avl_bad_key = k; }
	avl_have_prev = 1;
	avl_prev = k;
	int hr = avl_walk(n->right, n);
	if (n->balance != hr - hl && !avl_bad) { avl_bad = "balance-field"; avl_bad_key = k; }
	if ((hr - hl > 1 || hr - hl < -1) && !avl_bad) { avl_bad = "height-difference"; avl_bad_key = k; }
	return 1 + (hl > hr ? hl : hr);
}
static void avl_report(void)
{
	fputs("t", stdout);
	avl_dump(avl->root);
	fputs("\n", stdout);
	avl_bad = NULL;
	avl_have_prev = 0;
	avl_walk(avl->root, NULL);
	if (avl_bad) printf("chk FAIL %s at key %lld\n", avl_bad, avl_bad_key);
	else printf("chk ok\n");
}
static void avl_line(const char *op, long long k, long long v, int fk, int fv)
{
	int64_t kk = k;
	int quiet = strcmp(op, "insq") == 0 || strcmp(op, "remq") == 0;
	if (strcmp(op, "check") == 0) {
		avl_report();
		return;
	}
	if (strcmp(op, "ins") == 0 || strcmp(op, "insq") == 0) {
		void *pk = box(k), *pv = box(v);
		fail_arm();
		muggle_avl_tree_node_t *n = muggle_avl_tree_insert(avl, pk, pv);
		fail_disarm();
		if (!n) { unbox(NULL, pk); unbox(NULL, pv); }
		printf("ins %d\n", n ? 1 : 0);
	} else if (strcmp(op, "find") == 0) {
		muggle_avl_tree_node_t *n = muggle_avl_tree_find(avl, &kk);
		if (n) printf("find %lld\n", (long long)*(int64_t *)n->value); else printf("find none\n");
	} else if (strcmp(op, "rem") == 0 || strcmp(op, "remq") == 0) {
		muggle_avl_tree_node_t *n = muggle_avl_tree_find(avl, &kk);
		void *pk = n ? n->key : NULL, *pv = n ? n->value : NULL;
		cb_reset(pk, pv);
		if (n) {
			muggle_avl_tree_remove(avl, n, fk ? unbox_k : NULL, NULL, fv ? unbox_v : NULL, NULL);
			if (!fk) drop(pk);      /* borrowed data: released by the caller */
			if (!fv) drop(pv);
		}
		printf("rem %d\n", n ? 1 : 0);
		own_line2();
	} else {
		printf("?\n");
		return;
	}
	if (!quiet) avl_report();
}

/* ---------------------------------------------------------------- hash table */
static void ht_check(void)
{
	long cnt = 0;
	const char *bad = NULL;
	for (uint64_t i = 0; i < ht->table_size; i++) {
		muggle_hash_table_node_t *head = &ht->nodes[i], *prev = head, *n = head->next;
		while (n) {
			if (n->prev != prev && !bad) bad = "prev-link";
			if (ht->hash(n->key) % ht->table_size != i && !bad) bad = "wrong-bucket";
			cnt++;
			prev = n;
			n = n->next;
		}
	}
	if (bad) printf("chk FAIL %s\n", bad); else printf("chk ok n=%ld\n", cnt);
}
typedef struct { long long k, v; } kv_t;
static int cmp_kv(const void *a, const void *b)
{
	long long x = ((const kv_t *)a)->k, y = ((const kv_t *)b)->k;
	return x < y ? -1 : (x > y ? 1 : 0);
}
static int ht_hi;            /* string keys with bit 7 set in every other byte */
static void str_key(long long v, char *out, size_t cap)
{
	snprintf(out, cap, "%lld", v);
	if (ht_hi)
		for (size_t i = 0; out[i]; i += 2) out[i] = (char)(out[i] | 0x80);
}
static long long ht_key_of(void *key)
{
	if (!ht_str) return (long long)*(int64_t *)key;
	char tmp[40];
	size_t i = 0;
	for (const char *p = (const char *)key; *p && i + 1 < sizeof(tmp); p++) tmp[i++] = (char)(*p & 0x7f);
	tmp[i] = 0;
	return atoll(tmp);
}
static void ht_dump(void)
{
	size_t n = 0, cap = 64;
	kv_t *a = (kv_t *)malloc(cap * sizeof(kv_t));
	for (uint64_t i = 0; i < ht->table_size; i++)
		for (muggle_hash_table_node_t *p = ht->nodes[i].next; p; p = p->next) {
			if (n == cap) { cap *= 2; a = (kv_t *)realloc(a, cap * sizeof(kv_t)); }
			a[n].k = ht_key_of(p->key);
			a[n].v = (long long)*(int64_t *)p->value;
			n++;
		}
	qsort(a, n, sizeof(kv_t), cmp_kv);
	fputs("d", stdout);
	for (size_t i = 0; i < n; i++) printf(" %lld=%lld", a[i].k, a[i].v);
	fputs("\n", stdout);
	free(a);
}
static void ht_line(const char *op, long long k, long long v, int fk, int fv)
{
	int64_t kk = k;
	char ks[40];
	str_key(k, ks, sizeof(ks));
	void *probe = ht_str ? (void *)ks : (void *)&kk;
	if (strcmp(op, "put") == 0) {
		void *pk = ht_str ? box_str(k) : box(k), *pv = box(v);
		fail_arm();
		muggle_hash_table_node_t *n = muggle_hash_table_put(ht, pk, pv);
		fail_disarm();
		if (!n) { unbox(NULL, pk); unbox(NULL, pv); }
		printf("put %d\n", n ? 1 : 0);
	} else if (strcmp(op, "find") == 0) {
		muggle_hash_table_node_t *n = muggle_hash_table_find(ht, probe);
		if (n) printf("find %lld\n", (long long)*(int64_t *)n->value); else printf("find none\n");
	} else if (strcmp(op, "rem") == 0) {
		muggle_hash_table_node_t *n = muggle_hash_table_find(ht, probe);
		void *pk = n ? n->key : NULL, *pv = n ? n->value : NULL;
		cb_reset(pk, pv);
		if (n) {
			muggle_hash_table_remove(ht, n, fk ? unbox_k : NULL, NULL, fv ? unbox_v : NULL, NULL);
			if (!fk) drop(pk);
			if (!fv) drop(pv);
		}
		printf("rem %d\n", n ? 1 : 0);
		own_line2();
	} else if (strcmp(op, "clear") == 0) {
		/* muggle_hash_table_clear, then the table is used again */
		size_t cnt = 0, cap = 64;
		void **held = (void **)malloc(cap * 2 * sizeof(void *));
		for (uint64_t i = 0; i < ht->table_size; i++)
			for (muggle_hash_table_node_t *p = ht->nodes[i].next; p; p = p->next) {
				if (cnt == cap) { cap *= 2; held = (void **)realloc(held, cap * 2 * sizeof(void *)); }
				held[2 * cnt] = p->key;
				held[2 * cnt + 1] = p->value;
				cnt++;
			}
		cb_reset(NULL, NULL);
		muggle_hash_table_clear(ht, fk ? unbox_k : NULL, NULL, fv ? unbox_v : NULL, NULL);
		for (size_t i = 0; i < cnt; i++) {
			if (!fk) drop(held[2 * i]);
			if (!fv) drop(held[2 * i + 1]);
		}
		free(held);
		printf("clear %zu\n", cnt);
		own_line2();
	} else if (strcmp(op, "dump") == 0) {
		ht_dump();
	} else if (strcmp(op, "hash") == 0) {
		printf("hash %llu\n", (unsigned long long)ht->hash(probe));
	} else if (strcmp(op, "where") == 0) {
		long found = -1;
		for (uint64_t i = 0; i < ht->table_size && found < 0; i++)
			for (muggle_hash_table_node_t *p = ht->nodes[i].next; p; p = p->next)
				if (ht->cmp(p->key, probe) == 0) { found = (long)i; break; }
		if (found >= 0) printf("where %ld\n", found); else printf("where none\n");
	} else {
		printf("?\n");
		return;
	}
	ht_check();
}

/* ---------------------------------------------------------------- trie */
static size_t unhex(const char *s, char *out, size_t cap)
{
	size_t n = 0;
	if (strcmp(s, "-") == 0) { out[0] = 0; return 0; }
	while (s[0] && s[1] && n + 1 < cap) {
		unsigned x = 0;
		sscanf(s, "%2x", &x);
		out[n++] = (char)x;
		s += 2;
	}
	out[n] = 0;
	return n;
}
static void trie_walk(muggle_trie_node_t *n, unsigned char *prefix, size_t len)
{
	if (n->data) {
		fputs(" ", stdout);
		if (len == 0) fputs("-", stdout);
		for (size_t i = 0; i < len; i++) printf("%02x", prefix[i]);
		printf("=%lld", (long long)*(int64_t *)n->data);
	}
	for (int i = 1; i < MUGGLE_TRIE_CHILDREN_SIZE; i++)
		if (n->children[i]) {
			prefix[len] = (unsigned char)i;
			trie_walk(n->children[i], prefix, len + 1);
		}
}
static void trie_line(const char *op, const char *hex, long long v, int f)
{
	size_t hl = strlen(hex);
	char *key = (char *)malloc(hl / 2 + 2);       /* exact-size key buffer */
	size_t klen = unhex(hex, key, hl / 2 + 2);
	if (klen + 1 < hl / 2 + 2) {                    /* shrink to strlen+1 so that an over-read is seen */
		char *k2 = (char *)malloc(klen + 1);
		memcpy(k2, key, klen + 1);
		free(key);
		key = k2;
	}
	if (strcmp(op, "ins") == 0) {
		/* a careful caller releases the value it is about to overwrite */
		muggle_trie_node_t *old = muggle_trie_find(trie, key);
		void *oldv = old ? old->data : NULL;
		void *pv = box(v);
		fail_arm();
		muggle_trie_node_t *n = muggle_trie_insert(trie, key, pv);
		fail_disarm();
		if (!n) unbox(NULL, pv); else if (oldv) unbox(NULL, oldv);
		printf("ins %d\n", n ? 1 : 0);
	} else if (strcmp(op, "find") == 0) {
		muggle_trie_node_t *n = muggle_trie_find(trie, key);
		if (n && n->data) printf("find %lld\n", (long long)*(int64_t *)n->data); else printf("find none\n");
	} else if (strcmp(op, "rem") == 0) {
		muggle_trie_node_t *old = muggle_trie_find(trie, key);
		void *oldv = old ? old->data : NULL;
		cb_reset(NULL, oldv);
		bool r = muggle_trie_remove(trie, key, f ? unbox_v : NULL, NULL);
		if (!f && r) drop(oldv);          /* borrowed data: released by the caller */
		printf("rem %d\n", r ? 1 : 0);
		printf("own %d%s\n", n_vcb, bad_cb ? " BAD" : "");
	} else {
		printf("?\n");
	}
	free(key);
}
static void trie_dump(void)
{
	unsigned char prefix[4096];
	fputs("d", stdout);
	muggle_trie_node_t *e = trie->root.children[0];
	if (e && e->data) printf(" -=%lld", (long long)*(int64_t *)e->data);
	void *saved = trie->root.data;
	trie->root.data = NULL;
	trie_walk(&trie->root, prefix, 0);
	trie->root.data = saved;
	fputs("\n", stdout);
}

/* ---------------------------------------------------------------- protocol */
static int started;
static void cleanup(void)
{
	if (kind == K_AVL && avl) { muggle_avl_tree_destroy(avl, unbox, NULL, unbox, NULL); free(avl); avl = NULL; }
	if (kind == K_HT && ht) { muggle_hash_table_destroy(ht, unbox, NULL, unbox, NULL); free(ht); ht = NULL; }
	if (kind == K_TRIE && trie) { muggle_trie_destroy(trie, unbox, NULL); free(trie); trie = NULL; }
	kind = K_NONE;
}
static void case_begin(void) { kind = K_NONE; started = 0; live_user_blocks = 0; fail_pending = 0; fail_armed = 0; }
static void case_end(void)
{
	int k = kind;
	cleanup();
	/* destroy must have released every key/value still stored (no dump line: the
	 * model has no allocation; only a failure prints) */
	if (k != K_NONE && live_user_blocks != 0) printf("LEAK user blocks %ld\n", live_user_blocks);
}

static void case_line(char *line)
{
	char op[32], a[VDRV_MAXLINE > 8192 ? 8192 : VDRV_MAXLINE];
	long long x = 0, y = 0, z = 0;
	if (!started) {
		started = 1;
		char hk[32] = "", ck[32] = "";
		int nf = sscanf(line, "%31s %lld %lld %31s %31s", op, &x, &y, hk, ck);
		bool ok = false;
		cmp_kind = C_SGN;
		ht_hi = 0;
		int is_const = strstr(line, " const") != NULL;
		if (strcmp(op, "avl") == 0) {
			char ak[32] = "";
			if (sscanf(line, "%*s %*lld %31s", ak) == 1) cmp_kind = parse_cmp(ak);
			avl = (muggle_avl_tree_t *)malloc(sizeof(*avl));
			ok = muggle_avl_tree_init(avl, cmp_i64, (size_t)x);
			if (ok && is_const && avl->pool) muggle_memory_pool_set_flag(avl->pool, MUGGLE_MEMORY_POOL_CONSTANT_SIZE);
			if (ok) kind = K_AVL; else { free(avl); avl = NULL; }
		} else if (strcmp(op, "ht") == 0 && nf >= 4) {
			ht = (muggle_hash_table_t *)malloc(sizeof(*ht));
			ht_hi = strcmp(hk, "defb") == 0;
			ht_str = strcmp(hk, "def") == 0 || ht_hi;
			cmp_kind = parse_cmp(ck);
			func_muggle_hash h = strcmp(hk, "id") == 0 ? h_id : strcmp(hk, "zero") == 0 ? h_zero :
				strcmp(hk, "low") == 0 ? h_low : strcmp(hk, "mul") == 0 ? h_mul : NULL;
			ok = muggle_hash_table_init(ht, (size_t)y, h, ht_str ? cmp_str : cmp_i64, (size_t)x);
			if (ok && is_const && ht->pool) muggle_memory_pool_set_flag(ht->pool, MUGGLE_MEMORY_POOL_CONSTANT_SIZE);
			if (ok) kind = K_HT; else { free(ht); ht = NULL; }
		} else if (strcmp(op, "trie") == 0) {
			trie = (muggle_trie_t *)malloc(sizeof(*trie));   /* exact size: a negative index leaves the block */
			ok = muggle_trie_init(trie, (size_t)x);
			if (ok && is_const && trie->pool) muggle_memory_pool_set_flag(trie->pool, MUGGLE_MEMORY_POOL_CONSTANT_SIZE);
			if (ok) kind = K_TRIE; else { free(trie); trie = NULL; }
		} else {
			printf("bad header\n");
			return;
		}
		printf("init %s\n", ok ? "ok" : "fail");
		return;
	}
	if (kind == K_NONE) { printf("nostruct\n"); return; }
	if (sscanf(line, "%31s", op) != 1) return;
	if (strcmp(op, "failat") == 0) {
		long long j = 0;
		sscanf(line, "%*s %lld", &j);
		fail_pending = (int)j;
		return;
	}
	if (kind == K_TRIE) {
		if (strcmp(op, "dump") == 0) { trie_dump(); return; }
		a[0] = 0;
		z = 1;
		sscanf(line, "%*s %8191s %lld", a, &z);
		/* rem <hex> [f]: the third word is the callback flag (default 1); ins <hex> v: the value */
		trie_line(op, a, z, z != 0);
		return;
	}
	int fk = 1, fv = 1;
	if (strcmp(op, "rem") == 0 || strcmp(op, "remq") == 0) {
		long long f1 = 1, f2 = 1;
		sscanf(line, "%*s %lld %lld %lld", &x, &f1, &f2);
		fk = f1 != 0; fv = f2 != 0;
	} else if (strcmp(op, "clear") == 0) {
		long long f1 = 1, f2 = 1;
		sscanf(line, "%*s %lld %lld", &f1, &f2);
		fk = f1 != 0; fv = f2 != 0;
	} else {
		sscanf(line, "%*s %lld %lld", &x, &y);
	}
	if (kind == K_AVL) avl_line(op, x, y, fk, fv); else ht_line(op, x, y, fk, fv);
}

int main(void) { return vdrv_main(); }
