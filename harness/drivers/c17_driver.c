/* C17 implementation driver: the REAL size-rotating and time-rotating log
 * handlers write into a scratch directory under /verif/build/C17/scratch
 * (created and removed per case).  time() is wrapped (-Wl,--wrap=time) and
 * returns the scenario clock; message timestamps are supplied by the case.
 * At END every file of the scratch directory is listed (sorted by name) and
 * printed as a canonical dump:
 *     F <file name relative to the scratch dir>
 *     L <bytes of the line incl. newline> <text, trailing run of 'x' removed>
 *
 * The scratch directory of a case has three sub-directories d0 d1 d2; the case
 * starts with the working directory in d0; `chdir <k>` moves the process to
 * d<k> at any point.  The handler gets the path named by the optional last
 * header word: abs (default) <scratch>/d0/log.txt, abssub <scratch>/d0/sub/dir/log.txt,
 * rel "log.txt", dot "./log.txt", sub "sub/dir/log.txt" (relative ones resolve
 * against the working directory current at init), long<N> an ABSOLUTE path of exactly N bytes
 * <scratch>/d0/<directories named qqq...>/log.txt (each directory name at most 200 bytes; the dump
 * prints that directory as d0/LONG).  The dump lists EVERY file
 * under the scratch directory, with its path relative to it (F d0/log.txt.1 ...),
 * so that a log file outside the configured directory shows.  The working
 * directory of the process is restored after each case.
 *
 * Case header (first line):
 *     rot  <fmt> <backup_count> [path]
 *     trot <fmt> <unit s|m|h|d> <rotate_mod> <use_local_time 0|1> <zone> [path]
 *       zone = <offset, seconds east of UTC>                (fixed-offset zone, TZ=VRF-hh:mm:ss)
 *            | zone;<POSIX TZ string>;<base>;<t>=<off>,...  (TZ is set to the string, e.g.
 *              EST5EDT,M3.2.0,M11.1.0; base and the transition list are what the MODEL uses: the
 *              harness expands the rule for the years the case touches; this driver ignores them)
 *   fmt = simple (the library's default formatter "INFO|c.c:1 - payload\n")
 *       | raw    (a formatter installed with muggle_log_handler_set_fmt: "payload\n")
 * Operations:
 *     pre <suffix|-> <id>:<len> ...   rot only, before open: pre-existing file with these lines
 *     open <max_bytes>                rot : muggle_log_file_rotate_handler_init
 *     open <clock>                    trot: muggle_log_file_time_rot_handler_init with time() = clock
 *     w <id> <len>                    rot : one message whose formatted line WANTS <len> bytes (any
 *                                           length: the handler truncates at MUGGLE_LOG_MSG_MAX_LEN)
 *     w <id> <len> <ts> <clock>       trot: message with ts.tv_sec = ts (0 = none), time() = clock
 *     restart <max_bytes | clock>     destroy + init
 *     restart <max_bytes> <backup_count>   rot: destroy + init with another backup_count
 *     chdir <k>                       chdir(<scratch>/d<k>), k = 0..2
 *     civil <sec> / lcivil <sec>      gmtime_r / localtime_r (compared with the model's calendar)
 */
#include "vdrv.h"
#include <time.h>
#include <dirent.h>
#include <unistd.h>
#include <sys/stat.h>
#include <sys/types.h>
#include <errno.h>
#include "muggle/c/log/log_level.h"
#include "muggle/c/log/log_handler.h"
#include "muggle/c/log/log_file_rotate_handler.h"
#include "muggle/c/log/log_file_time_rot_handler.h"

#ifndef C17_SCRATCH_ROOT
#define C17_SCRATCH_ROOT "/verif/build/C17/scratch"
#endif
#define SIMPLE_PREFIX "INFO|c.c:1 - "

static time_t g_clock;
time_t __wrap_time(time_t *t)
{
	if (t) *t = g_clock;
	return g_clock;
}

static char g_dir[512];          /* scratch directory of this process */
static char g_path[8192];        /* the path handed to the init functions */
static char g_longdir[8192];     /* long<N>: the directory (relative to the scratch dir) printed as d0/LONG */
static char g_spec[32];          /* abs abssub rel dot sub long<N> */
static int g_cwd;                /* index of the current working directory d<k> */
static char g_orig_cwd[1024];
static int g_kind;            /* 0 none, 1 rot, 2 trot */
static int g_raw;             /* formatter: 0 simple, 1 raw */
static int g_opened;
static unsigned int g_bc;
static char g_unit;
static unsigned int g_mod;
static int g_local;
static long g_tzoff;
static muggle_log_file_rotate_handler_t g_rh;
static muggle_log_file_time_rot_handler_t g_th;
static muggle_log_fmt_t g_rawfmt;

static int raw_fmt_func(const muggle_log_msg_t *msg, char *buf, size_t bufsize)
{
	return (int)snprintf(buf, bufsize, "%s\n", msg->payload ? msg->payload : "");
}

static void rm_dir_contents(const char *dir)
{
	DIR *d = opendir(dir);
	if (!d) return;
	struct dirent *e;
	char p[9000];
	struct stat sb;
	while ((e = readdir(d)) != NULL) {
		if (!strcmp(e->d_name, ".") || !strcmp(e->d_name, "..")) continue;
		snprintf(p, sizeof(p), "%s/%s", dir, e->d_name);
		if (lstat(p, &sb) == 0 && S_ISDIR(sb.st_mode)) { rm_dir_contents(p); rmdir(p); }
		else unlink(p);
	}
	closedir(d);
}

static void mkdirs(const char *path)
{
	char tmp[8192];
	snprintf(tmp, sizeof(tmp), "%s", path);
	for (char *p = tmp + 1; *p; p++) {
		if (*p == '/') { *p = 0; mkdir(tmp, 0755); *p = '/'; }
	}
	mkdir(tmp, 0755);
}

static void close_handler(void)
{
	if (g_opened) {
		if (g_kind == 1) g_rh.handler.destroy(&g_rh.handler);
		if (g_kind == 2) g_th.handler.destroy(&g_th.handler);
	}
	g_opened = 0;
}

static void set_tz_string(const char *tz)
{
	setenv("TZ", tz, 1);
	tzset();
}

static void set_tz(long off)
{
	/* POSIX TZ: the offset is what is ADDED to local time to get UTC, so a
	 * zone `off` seconds east of UTC is "VRF-hh:mm:ss". */
	char tz[64];
	long a = off < 0 ? -off : off;
	snprintf(tz, sizeof(tz), "VRF%c%02ld:%02ld:%02ld", off < 0 ? '+' : '-', a / 3600, (a / 60) % 60, a % 60);
	setenv("TZ", tz, 1);
	tzset();
}

/* directory the path specification resolves to when the working directory is d<cwd> */
static void spec_dir(int cwd, char *out, size_t n)
{
	if (!strcmp(g_spec, "abs")) snprintf(out, n, "%s/d0", g_dir);
	else if (!strncmp(g_spec, "long", 4)) snprintf(out, n, "%s/%s", g_dir, g_longdir);
	else if (!strcmp(g_spec, "abssub")) snprintf(out, n, "%s/d0/sub/dir", g_dir);
	else if (!strcmp(g_spec, "sub")) snprintf(out, n, "%s/d%d/sub/dir", g_dir, cwd);
	else snprintf(out, n, "%s/d%d", g_dir, cwd);
}

static void set_spec(const char *spec)
{
	snprintf(g_spec, sizeof(g_spec), "%s", spec);
	g_longdir[0] = 0;
	if (!strncmp(g_spec, "long", 4)) {
		/* absolute path of exactly N bytes: <g_dir>/d0/<filler>/log.txt */
		long n = atol(g_spec + 4);
		long fixed = (long)strlen(g_dir) + 4 + 8;          /* "/d0/" ... "/log.txt" */
		long fill = n - fixed;
		if (fill < 1) fill = 1;
		if (fill > 7000) fill = 7000;
		char *q = g_longdir + snprintf(g_longdir, sizeof(g_longdir), "d0/");
		long comp = 0;
		for (long k = 0; k < fill; k++) {
			/* a component ends after 200 bytes; never end the filler with a separator */
			if (comp == 200 && k + 1 < fill) { *q++ = '/'; comp = 0; }
			else { *q++ = 'q'; comp++; }
		}
		*q = 0;
		snprintf(g_path, sizeof(g_path), "%s/%s/log.txt", g_dir, g_longdir);
	}
	else if (!strcmp(g_spec, "abs")) snprintf(g_path, sizeof(g_path), "%s/d0/log.txt", g_dir);
	else if (!strcmp(g_spec, "abssub")) snprintf(g_path, sizeof(g_path), "%s/d0/sub/dir/log.txt", g_dir);
	else if (!strcmp(g_spec, "sub")) snprintf(g_path, sizeof(g_path), "sub/dir/log.txt");
	else if (!strcmp(g_spec, "dot")) snprintf(g_path, sizeof(g_path), "./log.txt");
	else { snprintf(g_spec, sizeof(g_spec), "rel"); snprintf(g_path, sizeof(g_path), "log.txt"); }
}

static int do_chdir(int k)
{
	char p[700];
	if (k < 0 || k > 2) return -1;
	snprintf(p, sizeof(p), "%s/d%d", g_dir, k);
	int rc = chdir(p);
	if (rc == 0) g_cwd = k;
	return rc;
}

static void case_begin(void)
{
	char p[700];
	g_kind = 0; g_opened = 0; g_clock = 0; g_raw = 0;
	if (!g_orig_cwd[0] && !getcwd(g_orig_cwd, sizeof(g_orig_cwd))) snprintf(g_orig_cwd, sizeof(g_orig_cwd), "/");
	snprintf(g_dir, sizeof(g_dir), "%s/p%ld", C17_SCRATCH_ROOT, (long)getpid());
	mkdirs(g_dir);
	rm_dir_contents(g_dir);
	for (int k = 0; k < 3; k++) { snprintf(p, sizeof(p), "%s/d%d", g_dir, k); mkdirs(p); }
	set_spec("abs");
	do_chdir(0);
	set_tz(0);
}

static int cmp_str(const void *a, const void *b) { return strcmp(*(char *const *)a, *(char *const *)b); }

static void dump_file(const char *name)
{
	char p[9000];
	snprintf(p, sizeof(p), "%s/%s", g_dir, name);
	FILE *f = fopen(p, "rb");
	size_t ll = strlen(g_longdir);
	if (ll && !strncmp(name, g_longdir, ll) && name[ll] == '/') printf("F d0/LONG%s\n", name + ll);
	else printf("F %s\n", name);
	if (!f) { printf("UNREADABLE\n"); return; }
	fseek(f, 0, SEEK_END);
	long n = ftell(f);
	fseek(f, 0, SEEK_SET);
	char *buf = (char *)malloc((size_t)n + 1);
	long got = (long)fread(buf, 1, (size_t)n, f);
	fclose(f);
	long i = 0;
	while (i < got) {
		long j = i;
		while (j < got && buf[j] != '\n') j++;
		int has_nl = j < got;
		long len = j - i + (has_nl ? 1 : 0);
		long e = j;
		while (e > i && buf[e - 1] == 'x') e--;
		printf("L %ld ", len);
		for (long k = i; k < e; k++) {
			unsigned char c = (unsigned char)buf[k];
			if (c >= 0x20 && c < 0x7f && c != '\\') putchar(c); else printf("\\x%02x", c);
		}
		if (!has_nl) printf(" NONL");
		printf("\n");
		i = j + 1;
	}
	free(buf);
}

static char *g_names[8192];
static int g_nnames;
static void collect(const char *rel)
{
	char p[9000], r[8500];
	struct stat sb;
	snprintf(p, sizeof(p), "%s%s%s", g_dir, rel[0] ? "/" : "", rel);
	DIR *d = opendir(p);
	if (!d) return;
	struct dirent *e;
	while ((e = readdir(d)) != NULL) {
		if (!strcmp(e->d_name, ".") || !strcmp(e->d_name, "..")) continue;
		snprintf(r, sizeof(r), "%s%s%s", rel, rel[0] ? "/" : "", e->d_name);
		snprintf(p, sizeof(p), "%s/%s", g_dir, r);
		if (lstat(p, &sb) != 0) continue;
		if (S_ISDIR(sb.st_mode)) collect(r);
		else if (g_nnames < 8192) g_names[g_nnames++] = strdup(r);
	}
	closedir(d);
}

static void case_end(void)
{
	close_handler();
	if (chdir(g_orig_cwd) != 0) { /* keep going: the dump uses absolute paths */ }
	g_nnames = 0;
	collect("");
	qsort(g_names, (size_t)g_nnames, sizeof(char *), cmp_str);
	for (int i = 0; i < g_nnames; i++) { dump_file(g_names[i]); free(g_names[i]); }
	rm_dir_contents(g_dir);
	rmdir(g_dir);
	g_kind = 0;
}

/* payload such that the formatted line has exactly `len` bytes (when len is
 * at least the length of head + prefix + newline) */
static char g_payload[70000];
static void make_payload(const char *head, long len)
{
	long fixed = (g_raw ? 0 : (long)strlen(SIMPLE_PREFIX)) + 1;
	long hl = (long)strlen(head);
	long pad = len - fixed - hl;
	if (pad < 0) pad = 0;
	if (hl + pad > (long)sizeof(g_payload) - 1) pad = (long)sizeof(g_payload) - 1 - hl;
	memcpy(g_payload, head, (size_t)hl);
	memset(g_payload + hl, 'x', (size_t)pad);
	g_payload[hl + pad] = 0;
}

static int do_open(long long a)
{
	int rc;
	if (g_kind == 1) {
		rc = muggle_log_file_rotate_handler_init(&g_rh, g_path, (unsigned int)a, g_bc);
		if (rc == 0 && g_raw) muggle_log_handler_set_fmt(&g_rh.handler, &g_rawfmt);
	} else {
		g_clock = (time_t)a;
		rc = muggle_log_file_time_rot_handler_init(&g_th, g_path, g_unit, g_mod, g_local ? true : false);
		if (rc == 0 && g_raw) muggle_log_handler_set_fmt(&g_th.handler, &g_rawfmt);
	}
	g_opened = (rc == 0);
	return rc;
}

static void print_tm(const char *tag, const struct tm *t)
{
	printf("%s %d %d %d %d %d %d\n", tag, t->tm_year + 1900, t->tm_mon + 1, t->tm_mday, t->tm_hour, t->tm_min, t->tm_sec);
}

static void case_line(char *line)
{
	char op[32], a1[32], a2[32];
	static char zf[4096];
	long long a = 0, b = 0, c = 0, d = 0;
	if (sscanf(line, "%31s", op) != 1) return;
	if (g_kind == 0) {
		char sp[32] = "abs";
		if (strcmp(op, "rot") == 0 && sscanf(line, "%*s %31s %lld %31s", a1, &a, sp) >= 2) {
			g_kind = 1; g_raw = strcmp(a1, "raw") == 0; g_bc = (unsigned int)a;
			set_spec(sp);
		} else if (strcmp(op, "trot") == 0 && sscanf(line, "%*s %31s %31s %lld %lld %4095s %31s", a1, a2, &a, &b, zf, sp) >= 5) {
			g_kind = 2; g_raw = strcmp(a1, "raw") == 0; g_unit = a2[0]; g_mod = (unsigned int)a; g_local = b != 0;
			if (strncmp(zf, "zone;", 5) == 0) {
				char *e = strchr(zf + 5, ';');
				if (e) *e = 0;
				g_tzoff = 0;
				set_tz_string(zf + 5);
			} else {
				g_tzoff = atol(zf);
				set_tz(g_tzoff);
			}
			set_spec(sp);
		} else {
			printf("badheader\n");
			g_kind = -1;
		}
		init_fmt(&g_rawfmt, 0, raw_fmt_func);
		return;
	}
	if (g_kind < 0) return;
	if (strcmp(op, "pre") == 0) {
		if (g_kind != 1 || g_opened) { printf("pre ignored\n"); return; }
		char *save = NULL, *tok;
		char p[9000];
		strtok_r(line, " ", &save);                 /* "pre" */
		tok = strtok_r(NULL, " ", &save);            /* suffix */
		if (!tok) return;
		char dd[8500];
		spec_dir(g_cwd, dd, sizeof(dd));
		mkdirs(dd);
		if (strcmp(tok, "-") == 0) snprintf(p, sizeof(p), "%s/log.txt", dd); else snprintf(p, sizeof(p), "%s/log.txt.%s", dd, tok);
		FILE *f = fopen(p, "wb");
		while ((tok = strtok_r(NULL, " ", &save)) != NULL) {
			long long id, len;
			char head[64];
			if (sscanf(tok, "%lld:%lld", &id, &len) != 2) continue;
			snprintf(head, sizeof(head), "%lld:", id);
			make_payload(head, (long)len);
			if (!g_raw) fputs(SIMPLE_PREFIX, f);
			fputs(g_payload, f);
			fputc('\n', f);
		}
		fclose(f);
		printf("pre ok\n");
		return;
	}
	if (strcmp(op, "chdir") == 0) {
		sscanf(line, "%*s %lld", &a);
		printf("chdir %d\n", do_chdir((int)a));
		return;
	}
	if (strcmp(op, "civil") == 0 || strcmp(op, "lcivil") == 0) {
		sscanf(line, "%*s %lld", &a);
		time_t s = (time_t)a;
		struct tm t;
		if (op[0] == 'l') localtime_r(&s, &t); else gmtime_r(&s, &t);
		print_tm(op, &t);
		return;
	}
	if (strcmp(op, "open") == 0) {
		sscanf(line, "%*s %lld", &a);
		if (g_opened) { printf("open ignored\n"); return; }
		{ int rc = do_open(a); if (rc == 0) printf("open 0\n"); else printf("open fail\n"); }
		return;
	}
	if (strcmp(op, "restart") == 0) {
		int nf = sscanf(line, "%*s %lld %lld", &a, &b);
		if (!g_opened) { printf("restart ignored\n"); return; }
		close_handler();
		if (nf == 2 && g_kind == 1) g_bc = (unsigned int)b;
		printf("restart %d\n", do_open(a));
		return;
	}
	if (strcmp(op, "w") == 0) {
		if (!g_opened) { printf("w ignored\n"); return; }
		muggle_log_msg_t msg;
		char head[96];
		memset(&msg, 0, sizeof(msg));
		msg.level = MUGGLE_LOG_LEVEL_INFO;
		msg.src_loc.file = "c.c";
		msg.src_loc.line = 1;
		msg.src_loc.func = "f";
		int r;
		if (g_kind == 1) {
			if (sscanf(line, "%*s %lld %lld", &a, &b) != 2) { printf("w bad\n"); return; }
			snprintf(head, sizeof(head), "%lld:", a);
			make_payload(head, (long)b);
			msg.payload = g_payload;
			r = g_rh.handler.write(&g_rh.handler, &msg);
		} else {
			if (sscanf(line, "%*s %lld %lld %lld %lld", &a, &b, &c, &d) != 4) { printf("w bad\n"); return; }
			g_clock = (time_t)d;
			snprintf(head, sizeof(head), "%lld:%lld:", a, c != 0 ? c : d);
			make_payload(head, (long)b);
			msg.payload = g_payload;
			msg.ts.tv_sec = (time_t)c;
			r = g_th.handler.write(&g_th.handler, &msg);
		}
		printf("w %d\n", r);
		return;
	}
	printf("?\n");
}

int main(void) { return vdrv_main(); }
