/* C05 parameter extraction: type sizes and error codes as the headers of the checked tree define them.
 * Compiled against $VERIF_REPO on every run by lib/props/c05.py (gen_params); consumed by
 * lib/props/c05_slice.py (typed pointer arithmetic, sizeof expressions, enum constants). */
#include <stdio.h>
#include <stddef.h>
#include "muggle/c/base/err.h"
#include "muggle/c/memory/threadsafe_memory_pool.h"
#include "muggle/c/memory/sowr_memory_pool.h"
#include "muggle/c/memory/ring_memory_pool.h"
#define SZ(t) printf("sizeof " #t " %lu\n", (unsigned long)sizeof(t))
#define EC(c) printf("const " #c " %d\n", (int)(c))
int main(void)
{
	SZ(muggle_ts_memory_pool_t);
	SZ(muggle_ts_memory_pool_head_t);
	SZ(muggle_ts_memory_pool_head_ptr_t);
	SZ(muggle_sowr_memory_pool_t);
	SZ(muggle_sowr_block_head_t);
	SZ(muggle_ring_memory_pool_t);
	SZ(muggle_ring_mpool_block_head_t);
	SZ(muggle_sync_t);
	EC(MUGGLE_OK);
	EC(MUGGLE_ERR_MEM_ALLOC);
	EC(MUGGLE_ERR_INVALID_PARAM);
	printf("const MUGGLE_CACHE_LINE_SIZE %d\n", (int)MUGGLE_CACHE_LINE_SIZE);
	return 0;
}
