/* C10 implementation driver: muggle heap and the five sorts.
 *
 *   sort <algo> <diff|nodiff|fail> <n> k0 .. k(n-1)
 *        -> [nodiff] / ret <0|1> / out id ..      (ids = positions in the input array)
 *        mode fail: every malloc/realloc/calloc made by the sort fails
 *   adv <algo> <n> <lo|hi> -> adv v0 .. v(n-1)   (generator pre-pass only: McIlroy's adversary - a comparator
 *        that fixes the keys lazily - is run against the implementation; the keys it ends up with are printed)
 *   heap <cap> <nkeys> k1 .. kn                   (key objects 1..n; id 0 is NULL)
 *        -> init <0|1> / dump
 *   ins <kid> <vid> [F] -> ins <0|1> / dump       (F: every allocation made by this call fails)
 *   ens <cap> [F]     -> ens <0|1> / dump           (muggle_heap_ensure_capacity)
 *   ext               -> ext 0 | ext 1 kid:vid / dump
 *   root              -> root - | root kid:vid
 *   find <kid>        -> find <index of returned node, 0 = NULL>
 *   rem <idx>         -> rem 0 | rem 1 kid:vid (ids seen by the free callbacks) / dump
 *   remf <kid>        -> remf <idx> [<0|1> kid:vid] / dump     (find, then remove that node)
 *   drain             -> drain kid:vid .. / dump
 *   clr <N|C|K|V>     -> clr K kid .. V vid .. / dump    (muggle_heap_clear; N: all four arguments NULL, C: counting
 *                        free callbacks, K / V: only the key / only the value callback; the lists give the ids each
 *                        callback was handed, in call order)
 *   rem / remf take an optional last token N | K | V: free callbacks all NULL / key only / value only (default: both);
 *        a callback that is not passed sees nothing (id 0); a callback called more than once is reported (CALLS)
 *   cmp <sign|diff|big>  (no output) comparator of the following ops: -1/0/1, the difference of the keys, or twice
 *        the difference (never +-1): only the SIGN of the comparator's result may matter
 *   dumps <on|off>       (no output) switch the dump line after each heap op off / on; `dump` prints one on demand
 *   reinit <cap>      -> reinit K kid .. V vid .. / init <0|1> / dump   (muggle_heap_destroy with the counting
 *                        callbacks, then muggle_heap_init of the same heap object with capacity <cap>)
 *   dump = "heap <size> <capacity> : kid:vid .." for nodes[1..size]
 *
 * Arrays are exact-size heap blocks (ASan red zones on both sides, also for
 * n = 0); the comparator aborts on NULL. */
#include "vdrv.h"
#include "muggle/c/dsaa/heap.h"
#include "muggle/c/dsaa/sort.h"

typedef struct { int key; int id; } kobj_t;

/* ---- allocation failure switch (-Wl,--wrap=malloc,--wrap=realloc,--wrap=calloc) ---- */
static int g_fail_alloc;
void *__real_malloc(size_t n);
void *__real_realloc(void *p, size_t n);
void *__real_calloc(size_t a, size_t b);
void *__wrap_malloc(size_t n) { return g_fail_alloc ? NULL : __real_malloc(n); }
void *__wrap_realloc(void *p, size_t n) { return g_fail_alloc ? NULL : __real_realloc(p, n); }
void *__wrap_calloc(size_t a, size_t b) { return g_fail_alloc ? NULL : __real_calloc(a, b); }
static int has_F(const char *line)
{
	size_t n = strlen(line);
	return n >= 2 && line[n - 1] == 'F' && line[n - 2] == ' ';
}

static int g_cmp_mode;     /* 0: -1/0/1   1: difference   2: twice the difference (never +-1) */
static int cmp_kobj(const void *a, const void *b)
{
	if (a == NULL || b == NULL) {
		fprintf(stderr, "comparator called with NULL\n");
		abort();
	}
	int x = ((const kobj_t *)a)->key, y = ((const kobj_t *)b)->key;
	if (g_cmp_mode == 1) return x - y;           /* keys are within +-10^6: no overflow */
	if (g_cmp_mode == 2) return 2 * (x - y);
	return x < y ? -1 : (x > y ? 1 : 0);
}

/* ---------------------------------------------------------------- sorts */
static void do_sort(char *line)
{
	char algo[32], mode[32];
	long n = 0;
	int off = 0;
	if (sscanf(line, "%*s %31s %31s %ld%n", algo, mode, &n, &off) < 3 || n < 0) { printf("?\n"); return; }
	char *p = line + off;
	kobj_t *elems = (kobj_t *)malloc(sizeof(kobj_t) * (size_t)n);
	void **ptr = (void **)malloc(sizeof(void *) * (size_t)n);
	for (long i = 0; i < n; i++) {
		elems[i].key = (int)strtol(p, &p, 10);
		elems[i].id = (int)i;
		ptr[i] = &elems[i];
	}
	if (strcmp(mode, "nodiff") == 0) printf("nodiff\n");
	muggle_func_sort f = NULL;
	if (strcmp(algo, "insertion") == 0) f = muggle_insertion_sort;
	else if (strcmp(algo, "shell") == 0) f = muggle_shell_sort;
	else if (strcmp(algo, "heap") == 0) f = muggle_heap_sort;
	else if (strcmp(algo, "merge") == 0) f = muggle_merge_sort;
	else if (strcmp(algo, "quick") == 0) f = muggle_quick_sort;
	if (f == NULL) { printf("?\n"); free(ptr); free(elems); return; }
	g_fail_alloc = strcmp(mode, "fail") == 0;
	bool ret = f(ptr, (size_t)n, cmp_kobj);
	g_fail_alloc = 0;
	printf("ret %d\nout", ret ? 1 : 0);
	for (long i = 0; i < n; i++) {
		char *q = (char *)ptr[i];
		if (q >= (char *)elems && q < (char *)(elems + n) && (q - (char *)elems) % sizeof(kobj_t) == 0)
			printf(" %ld", (long)((kobj_t *)q - elems));
		else
			printf(" ?");
	}
	printf("\n");
	free(ptr);
	free(elems);
}

/* ------------------------------------------------------------- adversary */
/* M. D. McIlroy, "A killer adversary for quicksort": items start as "gas"; a comparison of two gas
 * items freezes one of them (the current pivot candidate if it takes part) to the next solid value. */
static int *adv_val, adv_gas, adv_nsolid, adv_cand, adv_dir;
static int cmp_adv(const void *a, const void *b)
{
	if (a == NULL || b == NULL) abort();
	int x = ((const kobj_t *)a)->id, y = ((const kobj_t *)b)->id;
	if (adv_val[x] == adv_gas && adv_val[y] == adv_gas) {
		if (x == adv_cand) adv_val[x] = adv_nsolid; else adv_val[y] = adv_nsolid;
		adv_nsolid += adv_dir;
	}
	if (adv_val[x] == adv_gas) adv_cand = x;
	else if (adv_val[y] == adv_gas) adv_cand = y;
	return adv_val[x] < adv_val[y] ? -1 : (adv_val[x] > adv_val[y] ? 1 : 0);
}
/* adv <algo> <n> <lo|hi>: lo = gas is +infinity, pivots become the smallest keys (McIlroy's original);
 * hi = the mirror adversary, gas is -infinity and pivots become the largest keys */
static void do_adv(char *line)
{
	char algo[32], dir[32];
	long n = 0;
	if (sscanf(line, "%*s %31s %ld %31s", algo, &n, dir) < 3 || n < 0 || n > 100000) { printf("?\n"); return; }
	muggle_func_sort f = NULL;
	if (strcmp(algo, "insertion") == 0) f = muggle_insertion_sort;
	else if (strcmp(algo, "shell") == 0) f = muggle_shell_sort;
	else if (strcmp(algo, "heap") == 0) f = muggle_heap_sort;
	else if (strcmp(algo, "merge") == 0) f = muggle_merge_sort;
	else if (strcmp(algo, "quick") == 0) f = muggle_quick_sort;
	if (f == NULL) { printf("?\n"); return; }
	kobj_t *elems = (kobj_t *)malloc(sizeof(kobj_t) * (size_t)n);
	void **ptr = (void **)malloc(sizeof(void *) * (size_t)n);
	adv_val = (int *)malloc(sizeof(int) * (size_t)(n + 1));
	if (strcmp(dir, "hi") == 0) { adv_dir = -1; adv_gas = -1; adv_nsolid = (int)n - 1; }
	else { adv_dir = 1; adv_gas = (int)n; adv_nsolid = 0; }
	adv_cand = 0;
	for (long i = 0; i < n; i++) { elems[i].key = 0; elems[i].id = (int)i; ptr[i] = &elems[i]; adv_val[i] = adv_gas; }
	f(ptr, (size_t)n, cmp_adv);
	/* items the code never compared with another undetermined item are still gas: they are beyond every
	 * solid key; give them distinct keys there (any order among them is consistent with the answers given) */
	for (long i = 0; i < n; i++)
		if (adv_val[i] == adv_gas) { adv_val[i] = adv_nsolid; adv_nsolid += adv_dir; }
	printf("adv");
	for (long i = 0; i < n; i++) printf(" %d", adv_val[i]);
	printf("\n");
	free(adv_val); adv_val = NULL;
	free(ptr);
	free(elems);
}

/* ----------------------------------------------------------------- heap */
static muggle_heap_t heap;
static int have_heap;
static kobj_t *keys;   /* 0..nkeys, [0] unused */
static int *vals;      /* value objects: vals[v] == v */
static long nkeys;
#define NVALS 4096
static int freed_k, freed_v, calls_k, calls_v, g_dumps = 1;

static void kfree_cb(void *pool, void *data) { (void)pool; freed_k = ((kobj_t *)data)->id; calls_k++; }
static void vfree_cb(void *pool, void *data) { (void)pool; freed_v = *(int *)data; calls_v++; }
/* last token of a rem / remf line: which free callbacks are passed */
static void cb_choice(const char *line, muggle_dsaa_data_free *kf, muggle_dsaa_data_free *vf)
{
	size_t n = strlen(line);
	char c = (n >= 2 && line[n - 2] == ' ') ? line[n - 1] : 0;
	*kf = (c == 'N' || c == 'V') ? NULL : kfree_cb;
	*vf = (c == 'N' || c == 'K') ? NULL : vfree_cb;
	freed_k = freed_v = calls_k = calls_v = 0;
}
static void print_calls(void)
{
	if (calls_k > 1 || calls_v > 1) printf(" CALLS %d %d", calls_k, calls_v);
	printf("\n");
}

/* counting free callbacks (clear / destroy): every id handed to a callback is logged, in call order;
 * the pool argument must be the one that was passed in */
#define NLOG 65536
static int klog[NLOG], vlog[NLOG], nklog, nvlog, badpool;
static int kpool_tag, vpool_tag;
static int kid_of(void *k);
static int vid_of(void *v);
static void kcount_cb(void *pool, void *data)
{
	if (pool != &kpool_tag) badpool = 1;
	if (nklog < NLOG) klog[nklog++] = kid_of(data);
}
static void vcount_cb(void *pool, void *data)
{
	if (pool != &vpool_tag) badpool = 1;
	if (nvlog < NLOG) vlog[nvlog++] = vid_of(data);
}
static void print_logs(const char *op)
{
	printf("%s K", op);
	for (int i = 0; i < nklog; i++) printf(" %d", klog[i]);
	printf(" V");
	for (int i = 0; i < nvlog; i++) printf(" %d", vlog[i]);
	if (badpool) printf(" BADPOOL");
	printf("\n");
}

static int kid_of(void *k)
{
	if (k == NULL) return 0;
	char *q = (char *)k;
	if (q >= (char *)keys && q < (char *)(keys + nkeys + 1) && (q - (char *)keys) % sizeof(kobj_t) == 0)
		return ((kobj_t *)k)->id;
	return -1;
}
static int vid_of(void *v)
{
	if (v == NULL) return 0;
	int *q = (int *)v;
	if (q >= vals && q < vals + NVALS) return *q;
	return -1;
}
static void dump_now(void);
static void dump(void) { if (g_dumps) dump_now(); }
static void dump_now(void)
{
	printf("heap %llu %llu :", (unsigned long long)heap.size, (unsigned long long)heap.capacity);
	if (heap.nodes == NULL) { printf(" nodes=NULL\n"); return; }
	for (uint64_t i = 1; i <= heap.size; i++)
		printf(" %d:%d", kid_of(heap.nodes[i].key), vid_of(heap.nodes[i].value));
	printf("\n");
}

static void heap_cleanup(void)
{
	if (have_heap && heap.nodes != NULL) muggle_heap_destroy(&heap, NULL, NULL, NULL, NULL);
	have_heap = 0;
	free(keys); keys = NULL;
	free(vals); vals = NULL;
}

static void case_begin(void) { have_heap = 0; keys = NULL; vals = NULL; nkeys = 0; g_fail_alloc = 0; g_cmp_mode = 0; g_dumps = 1; }
static void case_end(void) { heap_cleanup(); }

static void case_line(char *line)
{
	char op[32];
	long a = 0, b = 0;
	if (sscanf(line, "%31s", op) != 1) return;
	if (strcmp(op, "sorts") == 0) return;   /* header line of a case made of sort lines */
	if (strcmp(op, "sort") == 0) { do_sort(line); return; }
	if (strcmp(op, "adv") == 0) { do_adv(line); return; }
	if (strcmp(op, "cmp") == 0) {
		g_cmp_mode = strstr(line, "diff") ? 1 : (strstr(line, "big") ? 2 : 0);
		return;
	}
	if (strcmp(op, "dumps") == 0) { g_dumps = strstr(line, "off") ? 0 : 1; return; }
	if (strcmp(op, "heap") == 0) {
		heap_cleanup();
		long cap = 0;
		int off = 0;
		if (sscanf(line, "%*s %ld %ld%n", &cap, &nkeys, &off) < 2 || nkeys < 0) { printf("?\n"); return; }
		char *p = line + off;
		keys = (kobj_t *)malloc(sizeof(kobj_t) * (size_t)(nkeys + 1));
		keys[0].key = 0; keys[0].id = 0;
		for (long i = 1; i <= nkeys; i++) { keys[i].key = (int)strtol(p, &p, 10); keys[i].id = (int)i; }
		vals = (int *)malloc(sizeof(int) * NVALS);
		for (int i = 0; i < NVALS; i++) vals[i] = i;
		bool ok = muggle_heap_init(&heap, cmp_kobj, (size_t)cap);
		have_heap = ok ? 1 : 0;
		printf("init %d\n", ok ? 1 : 0);
		if (ok) dump(); else printf("heap -\n");
		return;
	}
	if (!have_heap) { printf("noheap\n"); return; }
	sscanf(line, "%*s %ld %ld", &a, &b);
	if (strcmp(op, "ins") == 0) {
		if (a < 1 || a > nkeys || b < 0 || b >= NVALS) { printf("?\n"); return; }
		g_fail_alloc = has_F(line);
		bool r = muggle_heap_insert(&heap, &keys[a], b == 0 ? NULL : (void *)&vals[b]);
		g_fail_alloc = 0;
		printf("ins %d\n", r ? 1 : 0);
		dump();
	} else if (strcmp(op, "ens") == 0) {
		if (a < 0) { printf("?\n"); return; }
		g_fail_alloc = has_F(line);
		bool r = muggle_heap_ensure_capacity(&heap, (size_t)a);
		g_fail_alloc = 0;
		printf("ens %d\n", r ? 1 : 0);
		dump();
	} else if (strcmp(op, "ext") == 0) {
		muggle_heap_node_t nd = { NULL, NULL };
		bool r = muggle_heap_extract(&heap, &nd);
		if (r) printf("ext 1 %d:%d\n", kid_of(nd.key), vid_of(nd.value)); else printf("ext 0\n");
		dump();
	} else if (strcmp(op, "root") == 0) {
		muggle_heap_node_t *nd = muggle_heap_root(&heap);
		if (nd) printf("root %d:%d\n", kid_of(nd->key), vid_of(nd->value)); else printf("root -\n");
	} else if (strcmp(op, "find") == 0) {
		if (a < 1 || a > nkeys) { printf("?\n"); return; }
		muggle_heap_node_t *nd = muggle_heap_find(&heap, &keys[a]);
		printf("find %lld\n", nd ? (long long)(nd - heap.nodes) : 0LL);
	} else if (strcmp(op, "rem") == 0) {
		if (a < 0 || (uint64_t)a > heap.capacity) { printf("?\n"); return; }
		muggle_dsaa_data_free kfn, vfn;
		cb_choice(line, &kfn, &vfn);
		bool r = muggle_heap_remove(&heap, &heap.nodes[a], kfn, NULL, vfn, NULL);
		if (r) { printf("rem 1 %d:%d", freed_k, freed_v); print_calls(); } else printf("rem 0\n");
		dump();
	} else if (strcmp(op, "remf") == 0) {
		if (a < 1 || a > nkeys) { printf("?\n"); return; }
		muggle_heap_node_t *nd = muggle_heap_find(&heap, &keys[a]);
		if (nd == NULL) { printf("remf 0\n"); dump(); return; }
		long long idx = (long long)(nd - heap.nodes);
		muggle_dsaa_data_free kfn, vfn;
		cb_choice(line, &kfn, &vfn);
		bool r = muggle_heap_remove(&heap, nd, kfn, NULL, vfn, NULL);
		printf("remf %lld %d %d:%d", idx, r ? 1 : 0, freed_k, freed_v);
		print_calls();
		dump();
	} else if (strcmp(op, "clr") == 0) {
		char mode[8] = "";
		if (sscanf(line, "%*s %7s", mode) != 1 || strlen(mode) != 1 || strchr("NCKV", mode[0]) == NULL) { printf("?\n"); return; }
		nklog = nvlog = badpool = 0;
		muggle_heap_clear(&heap, (mode[0] == 'C' || mode[0] == 'K') ? kcount_cb : NULL, &kpool_tag,
			(mode[0] == 'C' || mode[0] == 'V') ? vcount_cb : NULL, &vpool_tag);
		print_logs("clr");
		dump();
	} else if (strcmp(op, "reinit") == 0) {
		if (a < 0) { printf("?\n"); return; }
		nklog = nvlog = badpool = 0;
		muggle_heap_destroy(&heap, kcount_cb, &kpool_tag, vcount_cb, &vpool_tag);
		print_logs("reinit");
		bool ok = muggle_heap_init(&heap, cmp_kobj, (size_t)a);
		have_heap = ok ? 1 : 0;
		printf("init %d\n", ok ? 1 : 0);
		if (ok) dump_now(); else printf("heap -\n");
	} else if (strcmp(op, "dump") == 0) {
		dump_now();
	} else if (strcmp(op, "drain") == 0) {
		printf("drain");
		while (!muggle_heap_is_empty(&heap)) {
			muggle_heap_node_t nd = { NULL, NULL };
			if (!muggle_heap_extract(&heap, &nd)) { printf(" !"); break; }
			printf(" %d:%d", kid_of(nd.key), vid_of(nd.value));
		}
		printf("\n");
		dump();
	} else {
		printf("?\n");
	}
}

int main(void) { return vdrv_main(); }
