/* C03 implementation driver: the sleep/wake protocols of channel (futex reader, condvar
 * reader), ring buffer (wait / single-wait / read-once), array blocking queue, double buffer
 * and synclock, run under the deterministic scheduler (harness/vsched).
 * Thread ids: consumers (readers) first, then producers (writers).
 * Case lines (one scenario line + one sched line):
 *   chanf <cap> <single|mutex|spin|sync> R <nreads> W <k1> <k2> ...   channel, READ_SYNC (futex) reader
 *   chanm <cap> <single|mutex|spin|sync> R <nreads> W <k1> <k2> ...   channel, READ_MUTEX (condvar) reader
 *   chanb <cap> <single|mutex|spin|sync> R <nreads> W <k1> <k2> ...   channel, READ_BUSY (busy-loop) reader
 *                                                             (writer lock: none / write_mutex / write_spinlock / write_synclock)
 *   ring <wait|single|once|busy> <cap> <single|lock> R <n1> <n2> ... W <k1> ...   (busy = READ_BUSY_LOOP readers)
 *   abq <cap> R <t1> <t2> ... W <p1> <p2> ...                 takes per consumer / puts per producer
 *   dbuf <cap> R <need> W <k1> <k2> ...                       the reader reads until it has got <need> items
 *   dbufn <cap> R <need> W <k1> <k2> ...                      the same on a NON-BLOCKING double buffer: a write that
 *                                                             is refused (MUGGLE_ERR_FULL) notes "full", yields, retries
 *   slock <nthreads> <iters>                                  synclock around a harness counter
 *   kfutex <tok> ...                                          REAL kernel futex through the unmodified sync_obj_futex.c,
 *                                                             real threads, no scheduler (harness/drivers/c03_kfutex.c)
 *   sched <spec>                                              (see vsched.h)
 * Output: the event trace, then one summary line "F ...". */
#include "vdrv.h"
#include "vsched/vsched.h"
#include <sched.h>
#include <unistd.h>
#include "muggle/c/base/err.h"
#include "muggle/c/sync/channel.h"
#include "muggle/c/sync/ring_buffer.h"
#include "muggle/c/sync/array_blocking_queue.h"
#include "muggle/c/sync/double_buffer.h"
#include "muggle/c/sync/synclock.h"

#define MAXR 6
#define MAXW 6

static char scen[16], sub1[16], sub2[16], sched[8192], kscript[512];
void c03_kfutex_run(const char *script);
static int cap, nr, nw, rcnt[MAXR], wcnt[MAXW], ids[VS_MAXT];
static int bad;

static muggle_channel_t chan;
static muggle_ring_buffer_t ring;
static muggle_array_blocking_queue_t abq;
static muggle_double_buffer_t dbuf;
static muggle_sync_t slock;
static volatile int in_cs, counter, overlaps;
static int iters;

/* ---- channel ---- */
static void chan_reader(void *arg)
{
	int me = *(int *)arg;
	for (int i = 0; i < rcnt[me]; i++) {
		void *p = muggle_channel_read(&chan);
		vs_note("read %ld", (long)(intptr_t)p);
	}
}
static void chan_writer(void *arg)
{
	int w = *(int *)arg;
	for (int j = 0; j < wcnt[w]; j++) {
		void *v = (void *)(intptr_t)((w + 1) * 1000 + j + 1);
		while (muggle_channel_write(&chan, v) != MUGGLE_OK) {
			vs_note("full");
			sched_yield();
		}
		vs_note("wrote %d", (w + 1) * 1000 + j + 1);
	}
}

/* ---- ring buffer ---- */
static void ring_reader(void *arg)
{
	int me = *(int *)arg;
	for (int i = 0; i < rcnt[me]; i++) {
		void *p = muggle_ring_buffer_read(&ring, (uint32_t)i);
		vs_note("read %ld", (long)(intptr_t)p);
	}
}
static void ring_writer(void *arg)
{
	int w = *(int *)arg;
	for (int j = 0; j < wcnt[w]; j++) {
		muggle_ring_buffer_write(&ring, (void *)(intptr_t)((w + 1) * 1000 + j + 1));
		vs_note("wrote %d", (w + 1) * 1000 + j + 1);
	}
}

/* ---- array blocking queue ---- */
static void abq_consumer(void *arg)
{
	int me = *(int *)arg;
	for (int i = 0; i < rcnt[me]; i++) {
		void *p = muggle_array_blocking_queue_take(&abq);
		vs_note("took %ld", (long)(intptr_t)p);
	}
}
static void abq_producer(void *arg)
{
	int w = *(int *)arg;
	for (int j = 0; j < wcnt[w]; j++) {
		muggle_array_blocking_queue_put(&abq, (void *)(intptr_t)((w + 1) * 1000 + j + 1));
		vs_note("put %d", (w + 1) * 1000 + j + 1);
	}
}

/* ---- double buffer ---- */
static void dbuf_reader(void *arg)
{
	int me = *(int *)arg;
	int got = 0;
	while (got < rcnt[me]) {
		muggle_single_buffer_t *b = muggle_double_buffer_read(&dbuf);
		got += b->cnt;
		vs_note("got %d", b->cnt);
	}
}
static void dbuf_writer(void *arg)
{
	int w = *(int *)arg;
	for (int j = 0; j < wcnt[w]; j++) {
		/* blocking mode never refuses; non-blocking mode returns MUGGLE_ERR_FULL on a full back buffer */
		while (muggle_double_buffer_write(&dbuf, (void *)(intptr_t)((w + 1) * 1000 + j + 1)) != MUGGLE_OK) {
			vs_note("full");
			sched_yield();
		}
		vs_note("wrote %d", (w + 1) * 1000 + j + 1);
	}
}

/* ---- synclock (same client as the C04 driver) ---- */
static void slock_thread(void *arg)
{
	(void)arg;
	for (int i = 0; i < iters; i++) {
		muggle_synclock_lock(&slock);
		in_cs++;
		if (in_cs != 1) { overlaps++; vs_note("enter OVERLAP"); } else vs_note("enter");
		int c = counter;
		vs_yield_point("cs");
		counter = c + 1;
		in_cs--;
		vs_note("exit");
		muggle_synclock_unlock(&slock);
	}
}

static void case_begin(void)
{
	scen[0] = 0; strcpy(sched, "rand 1 50 0 0"); nr = nw = 0; bad = 0; sub1[0] = sub2[0] = 0; cap = 0;
}

/* parses "... R a b c W d e f" starting at p */
static void parse_rw(char *p)
{
	int mode = 0, used = 0; char tok[32];
	while (sscanf(p, "%31s%n", tok, &used) == 1) {
		p += used;
		if (strcmp(tok, "R") == 0) mode = 1;
		else if (strcmp(tok, "W") == 0) mode = 2;
		else if (mode == 1 && nr < MAXR) rcnt[nr++] = atoi(tok);
		else if (mode == 2 && nw < MAXW) wcnt[nw++] = atoi(tok);
		else bad = 1;
	}
}

static void case_line(char *line)
{
	char op[32]; int used = 0;
	if (sscanf(line, "%31s", op) != 1) return;
	if (strcmp(op, "sched") == 0) { snprintf(sched, sizeof(sched), "%s", line + 6); return; }
	if (strcmp(op, "chanf") == 0 || strcmp(op, "chanm") == 0 || strcmp(op, "chanb") == 0) {
		if (sscanf(line, "%*s %d %15s%n", &cap, sub1, &used) != 2) { bad = 1; return; }
		strcpy(scen, op); parse_rw(line + used);
	} else if (strcmp(op, "ring") == 0) {
		if (sscanf(line, "%*s %15s %d %15s%n", sub1, &cap, sub2, &used) != 3) { bad = 1; return; }
		strcpy(scen, op); parse_rw(line + used);
	} else if (strcmp(op, "abq") == 0 || strcmp(op, "dbuf") == 0 || strcmp(op, "dbufn") == 0) {
		if (sscanf(line, "%*s %d%n", &cap, &used) != 1) { bad = 1; return; }
		strcpy(scen, op); parse_rw(line + used);
	} else if (strcmp(op, "kfutex") == 0) {
		snprintf(kscript, sizeof(kscript), "%s", line + 6);
		strcpy(scen, op);
	} else if (strcmp(op, "slock") == 0) {
		if (sscanf(line, "%*s %d %d", &nr, &iters) != 2) { bad = 1; return; }
		strcpy(scen, op);
	}
}

static void spawn_all(void (*rf)(void *), void (*wf)(void *))
{
	for (int i = 0; i < nr; i++) { ids[i] = i; vs_spawn(rf, &ids[i]); }
	for (int i = 0; i < nw; i++) { ids[nr + i] = i; vs_spawn(wf, &ids[nr + i]); }
}

static void case_end(void)
{
	if (strcmp(scen, "kfutex") == 0 && !bad) {
		/* no scheduler: the calling (main) thread and real sleeper threads on the real kernel */
		c03_kfutex_run(kscript);
		printf("F status=0 kfutex\n");
		return;
	}
	if (!scen[0] || bad || nr + nw <= 0 || nr + nw > VS_MAXT) { printf("F badcase\n"); return; }
	vs_reset();
	vs_set_schedule(sched);
	int st;
	if (scen[0] == 'c') {
		int fl = (strcmp(scen, "chanf") == 0 ? MUGGLE_CHANNEL_FLAG_READ_SYNC :
			  strcmp(scen, "chanb") == 0 ? MUGGLE_CHANNEL_FLAG_READ_BUSY : MUGGLE_CHANNEL_FLAG_READ_MUTEX) |
			(strcmp(sub1, "single") == 0 ? MUGGLE_CHANNEL_FLAG_WRITE_SINGLE :
			 strcmp(sub1, "spin") == 0 ? MUGGLE_CHANNEL_FLAG_WRITE_SPIN :
			 strcmp(sub1, "sync") == 0 ? MUGGLE_CHANNEL_FLAG_WRITE_SYNC : MUGGLE_CHANNEL_FLAG_WRITE_MUTEX);
		int wordlock = strcmp(sub1, "spin") == 0 || strcmp(sub1, "sync") == 0;
		if (strcmp(sub1, "single") != 0 && strcmp(sub1, "mutex") != 0 && !wordlock) { printf("F badcase\n"); return; }
		if (nr != 1 || cap <= 0 || muggle_channel_init(&chan, (muggle_sync_t)cap, fl) != 0) { printf("F badcase\n"); return; }
		vs_name(&chan.write_cursor, "wcur"); vs_name(&chan.read_cursor, "rcur");
		if (wordlock) vs_name(&chan.write_spinlock, "wl");   /* write_spinlock / write_synclock share the union slot */
		else if (chan.write_mutex && strcmp(sub1, "single") != 0) vs_name(&chan.write_mutex->mtx, "wm");
		if (chan.read_mutex) vs_name(&chan.read_mutex->mtx, "rm");
		if (chan.read_cv) vs_name(&chan.read_cv->cond_var, "rcv");
		spawn_all(chan_reader, chan_writer);
		st = vs_run();
		printf("F status=%d wcur=%u rcur=%u\n", st, (unsigned)chan.write_cursor, (unsigned)chan.read_cursor);
		if (st == 0) muggle_channel_destroy(&chan);
	} else if (strcmp(scen, "ring") == 0) {
		int fl = 0;
		if (strcmp(sub1, "single") == 0) fl |= MUGGLE_RING_BUFFER_FLAG_SINGLE_READER;
		else if (strcmp(sub1, "once") == 0) fl |= MUGGLE_RING_BUFFER_FLAG_MSG_READ_ONCE;
		else if (strcmp(sub1, "busy") == 0) fl |= MUGGLE_RING_BUFFER_FLAG_READ_BUSY_LOOP | (nr == 1 ? MUGGLE_RING_BUFFER_FLAG_SINGLE_READER : 0);
		if (strcmp(sub2, "single") == 0) fl |= MUGGLE_RING_BUFFER_FLAG_SINGLE_WRITER;
		if (cap <= 0 || muggle_ring_buffer_init(&ring, (muggle_sync_t)cap, fl) != 0) { printf("F badcase\n"); return; }
		vs_name(&ring.cursor, "cursor"); vs_name(&ring.write_spin, "spin");
		vs_name(&ring.read_mutex.mtx, "rm"); vs_name(&ring.read_cv.cond_var, "rcv");
		spawn_all(ring_reader, ring_writer);
		st = vs_run();
		printf("F status=%d cursor=%u\n", st, (unsigned)ring.cursor);
		if (st == 0) muggle_ring_buffer_destroy(&ring);
	} else if (strcmp(scen, "abq") == 0) {
		if (cap <= 0 || muggle_array_blocking_queue_init(&abq, cap) != 0) { printf("F badcase\n"); return; }
#ifdef C03_NAMES_BY_OFFSET
		/* the queue object no longer has the documented fields (the driver did not compile against
		 * them): name whatever mutex / condition variables live inside it by their byte offset, so
		 * that the scheduler trace, the deadlock detector and the monitor still work */
		vs_name_range(&abq, sizeof(abq), 1, "abq");
#else
		vs_name(&abq.mutex.mtx, "m"); vs_name(&abq.cv_not_empty.cond_var, "ne"); vs_name(&abq.cv_not_full.cond_var, "nf");
#endif
		spawn_all(abq_consumer, abq_producer);
		st = vs_run();
		printf("F status=%d cnt=%d\n", st, abq.cnt);
		if (st == 0) muggle_array_blocking_queue_destroy(&abq);
	} else if (strcmp(scen, "dbuf") == 0 || strcmp(scen, "dbufn") == 0) {
		if (nr != 1 || cap <= 0 || muggle_double_buffer_init(&dbuf, cap, strcmp(scen, "dbufn") == 0) != 0) { printf("F badcase\n"); return; }
#ifdef C03_NAMES_BY_OFFSET
		vs_name_range(&dbuf, sizeof(dbuf), 1, "dbuf");
#else
		vs_name(&dbuf.mutex.mtx, "m"); vs_name(&dbuf.cv_not_empty.cond_var, "ne"); vs_name(&dbuf.cv_not_full.cond_var, "nf");
#endif
		spawn_all(dbuf_reader, dbuf_writer);
		st = vs_run();
		printf("F status=%d back=%d\n", st, dbuf.back->cnt);
		if (st == 0) muggle_double_buffer_destroy(&dbuf);
	} else {
		in_cs = counter = overlaps = 0;
		muggle_synclock_init(&slock); vs_name(&slock, "lock");
		for (int i = 0; i < nr; i++) vs_spawn(slock_thread, NULL);
		st = vs_run();
		printf("F status=%d counter=%d overlaps=%d\n", st, counter, overlaps);
	}
	if (st != 0) {
		/* threads are parked for ever: finish the case and ask the runner to restart us */
		printf("END\n");
		fflush(stdout);
		_exit(77);
	}
}

int main(void) { return vdrv_main(); }
