/* C08 implementation driver: shared-memory ring buffer (muggle/c/sync/shm_ring_buffer.c).
 *
 * One binary, two kinds of cases (the first line selects):
 *
 * SEQUENTIAL   ring heap|shm <nbytes>
 *   heap: muggle_shm_ringbuf_open runs unchanged, but muggle_shm_open is interposed
 *         (-Wl,--wrap) and hands out a heap block of EXACTLY the number of bytes the library
 *         asked for (the segment size it computed), so ASan sees every access outside the
 *         segment; when the announced ring is smaller than the segment (4K rounding) the tail
 *         behind sizeof(muggle_shm_ringbuf_t) + n*64 is poisoned, so every access beyond the
 *         data area is seen as well;
 *   shm : the real SysV segment through shm.c (smoke test of key handling / attach / rm).
 *   first output line: open <n_cacheline> <n_bytes> <ready> <segment bytes asked from muggle_shm_open>
 *                           <total_bytes field> | w r c
 *   ops: alloc <nbytes> | alloccl <nbytes> <n_cacheline> | write <at> <len> <seed> | commit | fetch | rmove
 *        (alloc = muggle_shm_ringbuf_w_alloc_bytes, alloccl = muggle_shm_ringbuf_w_alloc_cachelines with an
 *        explicit footprint >= MUGGLE_SHM_RINGBUF_CAL_BYTES_CACHELINE(nbytes), e.g. fixed-size slots)
 *   usage protocol (same guards as coq/C08/Model.v [step]): length >= 1; write / commit only
 *   with an outstanding successful allocation and inside it; rmove only after a successful
 *   fetch; anything else prints "skip".
 *   output per op: result + the public cursors  "| w r c"  (write_cursor read_cursor cached_remain)
 *
 * CONCURRENT   conc <n_cachelines> <locked 0|1> <kill -1|k> <tries>
 *              writer <len:tag> <len:tag> ...       (one line per writer thread)
 *              sched <spec>
 *   thread 0 = reader, threads 1.. = writers; run under harness/vsched.  kill k: writer 1 stops for
 *   good right after its k-th visible (atomic) operation, wherever in the library code that is
 *   (vs_after is interposed and long-jumps out of the thread body) - also while it holds the write
 *   lock.  With several writers the writer PROCESS has died at that instant: every other writer
 *   thread stops right after its own next atomic operation (e.g. a failed test-and-set on the lock
 *   its dead sibling holds).
 *   Output: the scheduler trace, then summary lines "F ...".
 *
 * ATTACH       attach <nbytes> <tries>
 *              sched <spec>
 *   the `ready` hand-over: thread 0 = creating process (muggle_shm_ringbuf_open with
 *   MUGGLE_SHM_FLAG_CREAT on a zero-filled segment), thread 1 = attaching process
 *   (muggle_shm_ringbuf_open with MUGGLE_SHM_FLAG_OPEN on the same segment, then up to <tries> polls of
 *   muggle_shm_ringbuf_is_ready; when it answers true the geometry is read and checked for consistency).
 *   notes: creator "created <n_cacheline>"; attacher "geo <n_cacheline, or -1 when the fields it read are
 *   inconsistent>" | "notready 0" | "gaveup 0". */
#include "vdrv.h"
#include "vsched/vsched.h"
#include "muggle/c/base/utils.h" /* MUGGLE_ROUND_UP_POW_OF_2_MUL: shm_ring_buffer.h uses it without including it */
#include "muggle/c/sync/shm_ring_buffer.h"
#include "muggle/c/sync/spinlock.h"
#include <setjmp.h>
#include <unistd.h>
#include <fcntl.h>
#if defined(__SANITIZE_ADDRESS__)
#include <sanitizer/asan_interface.h>
#define C08_POISON(p, n) ASAN_POISON_MEMORY_REGION((p), (n))
#define C08_UNPOISON(p, n) ASAN_UNPOISON_MEMORY_REGION((p), (n))
#else
#define C08_POISON(p, n) ((void)0)
#define C08_UNPOISON(p, n) ((void)0)
#endif

static muggle_shm_ringbuf_t *rb;
static muggle_shm_t shm;
static int backing;            /* 0 none, 1 heap, 2 shm, 3 pre-allocated zero-filled segment (attach scenario) */
static void *pre_block; static size_t pre_bytes;
static void *heap_block;
static size_t heap_bytes;      /* size of the heap block = the segment size muggle_shm_ringbuf_open asked for */
static size_t data_avail;      /* bytes of the data area that lie inside the segment */
static char keyfile[256];

/* ---------------- interposed muggle_shm_open (heap backing) ---------------- */
void *__real_muggle_shm_open(muggle_shm_t *s, const char *k_name, int k_num, int flag, uint32_t nbytes);
void *__wrap_muggle_shm_open(muggle_shm_t *s, const char *k_name, int k_num, int flag, uint32_t nbytes)
{
	if (backing == 3) {
		/* both "processes" map the same zero-filled segment */
		memset(s, 0, sizeof(*s));
		if (!pre_block || nbytes > pre_bytes) return NULL;
		s->ptr = pre_block; s->nbytes = nbytes;
		return pre_block;
	}
	if (backing != 1) return __real_muggle_shm_open(s, k_name, k_num, flag, nbytes);
	memset(s, 0, sizeof(*s));
	/* exactly the segment the library asked for: a ring that does not fit into it is an
	 * out-of-bounds access under ASan, as it is a fault / corruption on a real segment */
	heap_bytes = nbytes;
	heap_block = NULL;
	if (nbytes == 0 || posix_memalign(&heap_block, 4096, heap_bytes) != 0) { heap_block = NULL; return NULL; }
	memset(heap_block, 0xEE, heap_bytes);
	s->ptr = heap_block;
	s->nbytes = nbytes;
	return heap_block;
}

static char *data_base(void) { return (char *)muggle_shm_ringbuf_get_data(rb, 0); }

static void ring_close(void)
{
	if (backing == 2 && rb) { muggle_shm_detach(&shm); muggle_shm_rm(&shm); }
	if (backing == 1 && heap_block) { C08_UNPOISON(heap_block, heap_bytes); free(heap_block); heap_block = NULL; }
	if (pre_block) { free(pre_block); pre_block = NULL; }
	rb = NULL; backing = 0;
}

static int ring_open(int kind, uint32_t nbytes)
{
	ring_close();
	backing = kind;
	if (kind == 2) {
		if (!keyfile[0]) {
			snprintf(keyfile, sizeof(keyfile), "/verif/build/C08/shmkey.XXXXXX");
			int fd = mkstemp(keyfile);
			if (fd < 0) { snprintf(keyfile, sizeof(keyfile), "/tmp/c08shmkey.XXXXXX"); fd = mkstemp(keyfile); }
			if (fd >= 0) close(fd);
		}
		/* a stale segment of a killed run: open, detach, remove (as the unit test does) */
		muggle_shm_ringbuf_t *old = muggle_shm_ringbuf_open(&shm, keyfile, 1, MUGGLE_SHM_FLAG_OPEN, 0);
		if (old) { muggle_shm_detach(&shm); muggle_shm_rm(&shm); }
		rb = muggle_shm_ringbuf_open(&shm, keyfile, 1, MUGGLE_SHM_FLAG_CREAT, nbytes);
	} else {
		rb = muggle_shm_ringbuf_open(&shm, "heap", 1, MUGGLE_SHM_FLAG_CREAT, nbytes);
	}
	if (!rb) { backing = 0; return -1; }
	if (kind == 2) {
		/* a second attach through the OPEN path must see the same ring */
		muggle_shm_t shm2;
		muggle_shm_ringbuf_t *rb2 = muggle_shm_ringbuf_open(&shm2, keyfile, 1, MUGGLE_SHM_FLAG_OPEN, 0);
		int same = rb2 && muggle_shm_ringbuf_is_ready(rb2) && rb2->n_cacheline == rb->n_cacheline;
		if (rb2) muggle_shm_detach(&shm2);
		if (!same) { ring_close(); return -2; }
	}
	{
		size_t hdr = sizeof(muggle_shm_ringbuf_t), data = (size_t)rb->n_cacheline * MUGGLE_CACHE_LINE_SIZE;
		size_t seg = (kind == 1) ? heap_bytes : (size_t)shm.nbytes;
		data_avail = seg <= hdr ? 0 : (seg - hdr < data ? seg - hdr : data);
		/* stale bytes are deterministic; only the part of the announced data area that exists is touched here */
		if (kind == 1 || data_avail == data) memset(data_base(), 0xAB, data_avail);
		/* behind the announced data area nothing may be touched */
		if (kind == 1 && hdr + data < seg) C08_POISON((char *)heap_block + hdr + data, seg - hdr - data);
	}
	return 0;
}

static unsigned char pat(long seed, long i) { return (unsigned char)((seed * 31 + i * 7 + (i >> 8) * 13 + 1) & 0xff); }

/* ---------------- sequential part ---------------- */
static int mode;               /* 0 none, 1 sequential, 2 concurrent */
static char *cur_alloc; static uint32_t cur_nb; static int have_alloc, fetched;

static void state(void) { printf(" | %u %u %u\n", (unsigned)rb->write_cursor, (unsigned)rb->read_cursor, (unsigned)rb->cached_remain); }

static void seq_line(char *line)
{
	char op[32];
	long long a = 0, b = 0, c = 0;
	if (sscanf(line, "%31s %lld %lld %lld", op, &a, &b, &c) < 1) return;
	if (!rb) { printf("noring\n"); return; }
	if (strcmp(op, "alloc") == 0) {
		/* length 0 is passed on as it is (outside the property's sizes; model and code are compared on it) */
		if (a < 0 || a >= 2147483648LL) { printf("alloc skip"); state(); return; }
		void *p = muggle_shm_ringbuf_w_alloc_bytes(rb, (uint32_t)a);
		if (p) {
			cur_alloc = (char *)p; cur_nb = (uint32_t)a; have_alloc = 1;
			printf("alloc %ld", (long)((char *)p - data_base()));
		} else printf("alloc NULL");
		state();
	} else if (strcmp(op, "alloccl") == 0) {
		/* explicit footprint: must hold the message (header + bytes, + the 2 lines the macro adds) and be < 2^31 */
		long long need = (a >= 0 && a < 2147483648LL) ? (long long)MUGGLE_SHM_RINGBUF_CAL_BYTES_CACHELINE((uint64_t)a) : 0;
		if (a < 0 || a >= 2147483648LL || b < need || b >= 2147483648LL) { printf("alloccl skip"); state(); return; }
		void *p = muggle_shm_ringbuf_w_alloc_cachelines(rb, (uint32_t)a, (uint32_t)b);
		if (p) {
			cur_alloc = (char *)p; cur_nb = (uint32_t)a; have_alloc = 1;
			printf("alloccl %ld", (long)((char *)p - data_base()));
		} else printf("alloccl NULL");
		state();
	} else if (strcmp(op, "write") == 0) {
		if (!have_alloc || a < 0 || b < 0 || a + b > (long long)cur_nb) { printf("write skip"); state(); return; }
		for (long long i = 0; i < b; i++) cur_alloc[a + i] = (char)pat((long)c, (long)i);
		printf("write ok"); state();
	} else if (strcmp(op, "commit") == 0) {
		if (!have_alloc) { printf("commit skip"); state(); return; }
		muggle_shm_ringbuf_w_move(rb);
		have_alloc = 0;
		printf("commit ok"); state();
	} else if (strcmp(op, "fetch") == 0) {
		uint32_t nb = 0;
		unsigned char *p = (unsigned char *)muggle_shm_ringbuf_r_fetch(rb, &nb);
		if (!p) { printf("fetch NULL"); state(); return; }
		fetched = 1;
		printf("fetch %ld %u ", (long)((char *)p - data_base()), (unsigned)nb);
		/* a garbage header must not make the driver itself read outside the data area */
		if ((char *)p < data_base() || (size_t)((char *)p - data_base()) + nb > data_avail) printf("oob");
		else for (uint32_t i = 0; i < nb; i++) printf("%02x", p[i]);
		state();
	} else if (strcmp(op, "rmove") == 0) {
		if (!fetched) { printf("rmove skip"); state(); return; }
		muggle_shm_ringbuf_r_move(rb);
		fetched = 0;
		printf("rmove ok"); state();
	} else printf("?\n");
}

/* ---------------- concurrent part ---------------- */
#define MAXW 4
#define MAXMSG 64
typedef struct { int n; uint32_t len[MAXMSG]; int tag[MAXMSG]; } wscript_t;
static wscript_t wscr[MAXW];
static int nwriters, locked, kill_at, tries;
static char sched[8192];
static volatile int writers_done;
static volatile long w_events;         /* visible operations of writer 1 so far */
static jmp_buf kill_env[MAXW + 2];
static int kill_armed[MAXW + 2];
static volatile int proc_dead;         /* the writer process has died (writer 1 hit its kill point) */
static long got_count, got_bad, sent_count, drop_count;

void __real_vs_after(void);
void __wrap_vs_after(void)
{
	int tid = vs_tid();
	if (tid == 1 && kill_armed[1]) {
		w_events++;
		if (w_events == kill_at) {
			/* the writer dies here, inside whatever library function it was executing; the
			 * harness (not the dead writer) lets the reader know that no more will come */
			kill_armed[1] = 0;
			proc_dead = 1;
			writers_done++;
			longjmp(kill_env[1], 1);
		}
	} else if (tid >= 2 && tid < MAXW + 2 && kill_armed[tid] && proc_dead) {
		/* a sibling thread of the dead writer: it stops right after this operation */
		kill_armed[tid] = 0;
		writers_done++;
		longjmp(kill_env[tid], 1);
	}
	__real_vs_after();
}

/* notes (R lines), one number each so that the trace acceptor can map them:
 *   writer: "sent <payload offset>" | "full 0" | "drop 0" | "wdone 0"
 *   reader: "glen <n_bytes>" "goff <payload offset>" "gtag <tag, or -1 when a byte differs
 *           from the pattern of the tag>" | "idle 0" | "rdone 0" */
static void writer_thread(void *arg)
{
	wscript_t *s = (wscript_t *)arg;
	muggle_spinlock_t *lk = muggle_shm_ringbuf_get_wlock(rb);
	int me_ = vs_tid();
	if (kill_at >= 0 && me_ >= 1 && me_ < MAXW + 2) {
		if (me_ == 1 && kill_at == 0) { writers_done++; return; }
		if (setjmp(kill_env[me_])) return;     /* killed: nothing more */
		kill_armed[me_] = 1;
	}
	for (int i = 0; i < s->n; i++) {
		int sent = 0;
		for (int t = 0; t < tries && !sent; t++) {
			if (locked) muggle_spinlock_lock(lk);
			unsigned char *p = (unsigned char *)muggle_shm_ringbuf_w_alloc_bytes(rb, s->len[i]);
			if (p) {
				for (uint32_t k = 0; k < s->len[i]; k++) p[k] = pat(s->tag[i], k);
				muggle_shm_ringbuf_w_move(rb);
				sent = 1;
			}
			if (locked) muggle_spinlock_unlock(lk);
			if (sent) { vs_note("sent %ld", (long)((char *)p - data_base())); sent_count++; }
			else { vs_note("full 0"); vs_yield_point("wretry"); }
		}
		if (!sent) { vs_note("drop 0"); drop_count++; }
	}
	if (me_ >= 1 && me_ < MAXW + 2) kill_armed[me_] = 0;
	writers_done++;
	vs_note("wdone 0");
}

static void reader_thread(void *arg)
{
	(void)arg;
	for (;;) {
		int done = (writers_done == nwriters);
		uint32_t nb = 0;
		unsigned char *p = (unsigned char *)muggle_shm_ringbuf_r_fetch(rb, &nb);
		if (p) {
			/* pat(tag,0) = (31*tag+1) mod 256 and 31*223 = 1 mod 256: recover the tag from the
			 * first byte, then compare every byte with the pattern of that tag */
			int tag = (int)(((unsigned)(p[0] - 1) * 223u) & 0xff);
			for (uint32_t i = 0; i < nb; i++) if (p[i] != pat(tag, i)) { tag = -1; break; }
			vs_note("glen %u", (unsigned)nb);
			vs_note("goff %ld", (long)((char *)p - data_base()));
			vs_note("gtag %d", tag);
			if (tag < 0) got_bad++;
			got_count++;
			muggle_shm_ringbuf_r_move(rb);
			continue;
		}
		if (done) break;
		vs_note("idle 0");
		vs_yield_point("ridle");
	}
	vs_note("rdone 0");
}

static void conc_run(void)
{
	if (!rb || nwriters <= 0) { printf("F badcase\n"); return; }
	vs_reset();
	vs_set_schedule(sched);
	vs_set_budget(60000);
	writers_done = 0; w_events = 0; got_count = got_bad = sent_count = drop_count = 0;
	memset(kill_armed, 0, sizeof(kill_armed));
	proc_dead = (kill_at == 0);            /* killed before its first operation: dead from the start */
	vs_name(&rb->write_cursor, "wcur");
	vs_name(&rb->read_cursor, "rcur");
	vs_name(&rb->write_lock, "wlock");
	vs_spawn(reader_thread, NULL);
	for (int i = 0; i < nwriters; i++) vs_spawn(writer_thread, &wscr[i]);
	int st = vs_run();
	printf("F got=%ld bad=%ld w=%u r=%u\n", got_count, got_bad,
		   (unsigned)rb->write_cursor, (unsigned)rb->read_cursor);
	if (st != 0) {
		printf("END\n");
		fflush(stdout);
		_exit(77);
	}
}

/* ---------------- the ready hand-over (attach) ---------------- */
static uint32_t at_nbytes; static int at_tries;
static muggle_shm_t shm_c, shm_a;

static void creator_thread(void *arg)
{
	(void)arg;
	muggle_shm_ringbuf_t *r = muggle_shm_ringbuf_open(&shm_c, "heap", 1, MUGGLE_SHM_FLAG_CREAT, at_nbytes);
	vs_note("created %u", r ? (unsigned)r->n_cacheline : 0u);
}

static void attacher_thread(void *arg)
{
	(void)arg;
	muggle_shm_ringbuf_t *r = muggle_shm_ringbuf_open(&shm_a, "heap", 1, MUGGLE_SHM_FLAG_OPEN, 0);
	int done = 0;
	for (int t = 0; t < at_tries && !done; t++) {
		if (r && muggle_shm_ringbuf_is_ready(r)) {
			/* an attaching process now uses the geometry: plain reads */
			uint32_t n = r->n_cacheline;
			int ok = n >= 1 && r->n_bytes == n * MUGGLE_CACHE_LINE_SIZE && r->cached_remain == n - 1 &&
				r->write_cursor == 0 && r->read_cursor == 0 &&
				(size_t)r->total_bytes >= sizeof(muggle_shm_ringbuf_t) + (size_t)n * MUGGLE_CACHE_LINE_SIZE;
			vs_note("geo %ld", ok ? (long)n : -1L);
			done = 1;
		} else {
			vs_note("notready 0");
			vs_yield_point("apoll");
		}
	}
	if (!done) vs_note("gaveup 0");
}

static void attach_run(void)
{
	if (!pre_block) { printf("F openfail\n"); return; }
	muggle_shm_ringbuf_t *r = (muggle_shm_ringbuf_t *)pre_block;
	vs_reset();
	vs_set_schedule(sched);
	vs_set_budget(20000);
	vs_name(&r->ready, "ready");
	vs_name(&r->magic, "magic");
	vs_spawn(creator_thread, NULL);
	vs_spawn(attacher_thread, NULL);
	int st = vs_run();
	printf("F attach n=%u ready=%u\n", (unsigned)r->n_cacheline, (unsigned)r->ready);
	if (st != 0) {
		printf("END\n");
		fflush(stdout);
		_exit(77);
	}
}

/* ---------------- case protocol ---------------- */
static void case_begin(void)
{
	mode = 0; have_alloc = fetched = 0; nwriters = 0; locked = 0; kill_at = -1; tries = 1;
	strcpy(sched, "rand 1 50 0 0");
}

static void case_line(char *line)
{
	char op[32], k[32];
	if (sscanf(line, "%31s", op) != 1) return;
	if (strcmp(op, "ring") == 0) {
		long long nbytes = 0;
		if (sscanf(line, "%*s %31s %lld", k, &nbytes) != 2 || nbytes < 1 || nbytes > (1 << 24)) { printf("open bad\n"); return; }
		mode = 1;
		int rc = ring_open(strcmp(k, "shm") == 0 ? 2 : 1, (uint32_t)nbytes);
		if (rc != 0) { printf("open fail %d\n", rc); return; }
		printf("open %u %u %d %u %u", (unsigned)rb->n_cacheline, (unsigned)rb->n_bytes, muggle_shm_ringbuf_is_ready(rb) ? 1 : 0,
			   (unsigned)shm.nbytes, (unsigned)rb->total_bytes);
		state();
		return;
	}
	if (strcmp(op, "conc") == 0) {
		long long n = 0;
		int a = 0, b = -1, c = 1;
		if (sscanf(line, "%*s %lld %d %d %d", &n, &a, &b, &c) < 1 || n < 1 || n > 4096) { printf("F badcase\n"); return; }
		mode = 2; locked = a; kill_at = b; tries = c < 1 ? 1 : c;
		if (ring_open(1, (uint32_t)n * MUGGLE_CACHE_LINE_SIZE) != 0) printf("F openfail\n");
		return;
	}
	if (strcmp(op, "attach") == 0) {
		long long nb = 0; int tr = 1;
		if (sscanf(line, "%*s %lld %d", &nb, &tr) < 1 || nb < 1 || nb > (1 << 22)) { printf("F badcase\n"); return; }
		mode = 3; at_nbytes = (uint32_t)nb; at_tries = tr < 1 ? 1 : tr;
		ring_close();
		backing = 3;
		pre_bytes = 2 * (size_t)nb + 16384;
		if (posix_memalign(&pre_block, 4096, pre_bytes) != 0) pre_block = NULL;
		if (pre_block) memset(pre_block, 0, pre_bytes);
		return;
	}
	if (mode == 3) {
		if (strcmp(op, "sched") == 0) snprintf(sched, sizeof(sched), "%s", line + 6);
		return;
	}
	if (mode == 2) {
		if (strcmp(op, "sched") == 0) { snprintf(sched, sizeof(sched), "%s", line + 6); return; }
		if (strcmp(op, "writer") == 0 && nwriters < MAXW) {
			wscript_t *s = &wscr[nwriters++];
			s->n = 0;
			char *p = line + 6;
			int used = 0;
			unsigned l; int t;
			while (s->n < MAXMSG && sscanf(p, " %u:%d%n", &l, &t, &used) == 2) { s->len[s->n] = l; s->tag[s->n] = t; s->n++; p += used; }
			return;
		}
		return;
	}
	if (mode == 1) seq_line(line);
}

static void case_end(void)
{
	if (mode == 2) conc_run();
	if (mode == 3) attach_run();
	ring_close();
}

int main(void) { return vdrv_main(); }
