/* C05 implementation driver: thread-safe pool, sowr pool and ring pool of the repository run
 * under the deterministic scheduler (harness/vsched) with a harness ownership map.
 * Case lines:
 *   pool ts <capacity>
 *   pool sowr <capacity> <base>      base: alloc_idx preset (multiple of the rounded capacity; the
 *                                    state after <base> allocations and frees) to reach the uint32 wrap
 *   pool ring <capacity> <locked>    locked = 1: muggle_ring_memory_pool_threadsafe_alloc
 *                                    capacity 0 .. 128 as REQUESTED (ts: 0 is refused; sowr: 0 means 8;
 *                                    ring: below 2 means 2; all: rounded up to a power of two)
 *   dsize <n>                        data_size given to init, 1 .. 4096 (default 24)
 *   thr <script>                     one line per thread; script = comma separated ops, "-" = none
 *                                      a     allocate
 *                                      f<k>  free the k-th (mod n) block of the shared list of outstanding
 *                                            blocks (sowr: it and every block allocated before it)
 *                                      o<k>  free the k-th (mod n) outstanding block allocated by this thread
 *                                      ring pool: f<k>/o<k> with k >= 100 wait (passing the point "op" again)
 *                                      while there is nothing to free, instead of skipping
 *   sched <spec>                     see vsched.h
 * Before every operation the thread passes the harness scheduling point "op".
 * Notes (R lines): "a" alloc called; "r b<k>" returned block k; "r b<k> DUP" returned a block
 * the ownership map still holds; "r NULL <n>" NULL with n blocks in the map; "f b<k>" free called;
 * "f skip"; anomalies "r BADPTR ..", "r b<k> OVERLAP b<j>", "f b<k> CORRUPT", "AUDIT .." (ring audit, below).
 * Every returned block's whole user region [p, p + data_size) must lie inside the block (behind its head),
 * inside the slab the pool obtained from the allocator, and be disjoint from the user region of every
 * outstanding block; it is filled with a per-block pattern that is verified when the block is freed.
 * Output: the event trace, then summary lines "F ..." ("F geom": block geometry as init computed it;
 * slab = usable size of the data area as the allocator reports it: under ASan the requested size). */
#include "vdrv.h"
#include "vsched/vsched.h"
#include "muggle/c/base/err.h"
#include "muggle/c/memory/threadsafe_memory_pool.h"
#include "muggle/c/memory/sowr_memory_pool.h"
#include "muggle/c/memory/ring_memory_pool.h"
#include <unistd.h>
#include <malloc.h>

enum { K_NONE = 0, K_TS, K_SOWR, K_RING };
#define MAXOUT 256
#define MAXCAP 128

static int kind, cap_req, locked, nthreads, dsize;
static size_t slab;
static unsigned long long base;
static char scripts[VS_MAXT][512];
static char sched[8192];

static muggle_ts_memory_pool_t tsp;
static muggle_sowr_memory_pool_t sop;
static muggle_ring_memory_pool_t rip;

/* harness ownership map: blocks returned by alloc and not yet given to free, in order of return */
static struct { unsigned char *p; int blk; int owner; } out[MAXOUT];
static int nout, dups, anomalies;

static char *pool_base(void)
{
	return kind == K_TS ? (char *)tsp.data : kind == K_SOWR ? (char *)sop.blocks : (char *)rip.blocks;
}
static long pool_bsize(void)
{
	return kind == K_TS ? (long)tsp.block_size : kind == K_SOWR ? (long)sop.block_size : (long)rip.block_size;
}
static long pool_cap(void)
{
	return kind == K_TS ? (long)tsp.capacity : kind == K_SOWR ? (long)sop.capacity : (long)rip.capacity;
}
static long head_size(void)
{
	return kind == K_TS ? (long)sizeof(muggle_ts_memory_pool_head_t)
		: kind == K_SOWR ? (long)sizeof(muggle_sowr_block_head_t) : (long)sizeof(muggle_ring_mpool_block_head_t);
}

/* Ring audit (ts pool, at most one allocating thread): at every harness point the published part of
 * the ring, positions [alloc_idx, free_idx) (all of it when the two are equal), must hold pairwise
 * distinct block pointers none of which is in the ownership map.  This observes the ORDER of the plain
 * store ptrs[free_idx] = block and the publication of free_idx without touching the repository: a thread
 * scheduled between a publication and a late slot store finds a stale pointer (a block that is owned, or
 * one that is in the ring twice).  Plain reads only; no events. */
static int audit_on;
static void ts_audit(void)
{
	if (kind != K_TS || !audit_on) return;
	long cap = (long)tsp.capacity, bs = (long)tsp.block_size;
	long a = (long)tsp.alloc_idx, f = (long)tsp.free_idx;
	long n = (f + cap - a) % cap;
	int seenb[MAXCAP];
	if (n == 0) n = cap;
	if (cap > MAXCAP) return;
	memset(seenb, 0, sizeof(seenb));
	for (long k = 0; k < n; k++) {
		long pos = (a + k) & (cap - 1);
		long off = (char *)tsp.ptrs[pos].ptr - (char *)tsp.data;
		if (off < 0 || off >= bs * cap || off % bs != 0) {
			anomalies++;
			vs_note("AUDIT slot %ld holds a pointer outside the pool", pos);
			return;
		}
		int blk = (int)(off / bs);
		if (seenb[blk]) {
			anomalies++;
			vs_note("AUDIT slot %ld holds b%d which is in the published ring twice", pos, blk);
			return;
		}
		seenb[blk] = 1;
		for (int i = 0; i < nout; i++)
			if (out[i].blk == blk) {
				anomalies++;
				vs_note("AUDIT slot %ld of the published ring holds b%d which thread %d owns", pos, blk, out[i].owner);
				return;
			}
	}
}

/* per-block, per-owner, per-offset pattern written over the whole user region */
static unsigned char pattern(int blk, int owner, int i)
{
	return (unsigned char)(0xA0 + owner + 13 * blk + 7 * i);
}

static void *do_alloc(void)
{
	if (kind == K_TS) return muggle_ts_memory_pool_alloc(&tsp);
	if (kind == K_SOWR) return muggle_sowr_memory_pool_alloc(&sop);
	return locked ? muggle_ring_memory_pool_threadsafe_alloc(&rip) : muggle_ring_memory_pool_alloc(&rip);
}
static void do_free(void *p)
{
	if (kind == K_TS) muggle_ts_memory_pool_free(p);
	else if (kind == K_SOWR) muggle_sowr_memory_pool_free(p);
	else muggle_ring_memory_pool_free(p);
}

static void op_alloc(int me)
{
	vs_note("a");
	unsigned char *p = (unsigned char *)do_alloc();
	if (!p) { vs_note("r NULL %d", nout); return; }
	long off = (char *)p - pool_base();
	long bs = pool_bsize();
	if (off < 0 || bs <= 0 || off >= bs * pool_cap() || off % bs != head_size() || bs < head_size() + dsize ||
		(size_t)off + (size_t)dsize > slab) {
		anomalies++;
		vs_note("r BADPTR %ld", off);
		return;
	}
	int blk = (int)(off / bs);
	/* byte ranges [p, p + data_size) of everything outstanding must be disjoint from the new one */
	for (int i = 0; i < nout; i++) {
		if (p < out[i].p + dsize && out[i].p < p + dsize) {
			if (out[i].blk == blk && out[i].p == p) {
				dups++;
				vs_note("r b%d DUP", blk);
			} else {
				anomalies++;
				vs_note("r b%d OVERLAP b%d", blk, out[i].blk);
			}
			return;
		}
	}
	for (int i = 0; i < dsize; i++) p[i] = pattern(blk, me, i);
	if (nout < MAXOUT) { out[nout].p = p; out[nout].blk = blk; out[nout].owner = me; nout++; }
	vs_note("r b%d", blk);
}

static int pick_entry(int me, int own, int k)
{
	int j = -1;
	if (kind == K_SOWR || !own) {
		if (nout > 0) j = k % nout;
	} else {
		int idx[MAXOUT], c = 0;
		for (int i = 0; i < nout; i++) if (out[i].owner == me) idx[c++] = i;
		if (c > 0) j = idx[k % c];
	}
	return j;
}

static void op_free(int me, int own, int k)
{
	int j = pick_entry(me, own, k);
	/* ring pool, k >= 100: blocking variant - a consumer that waits (passing the harness point again)
	 * until there is a block to free */
	while (j < 0 && kind == K_RING && k >= 100) {
		vs_yield_point("op");
		j = pick_entry(me, own, k);
	}
	if (j < 0) { vs_note("f skip"); return; }
	unsigned char *p = out[j].p;
	int blk = out[j].blk, owner = out[j].owner, bad = 0;
	for (int i = 0; i < dsize; i++) if (p[i] != pattern(blk, owner, i)) bad = 1;
	if (kind == K_SOWR) {
		memmove(&out[0], &out[j + 1], sizeof(out[0]) * (size_t)(nout - j - 1));
		nout -= j + 1;
	} else {
		memmove(&out[j], &out[j + 1], sizeof(out[0]) * (size_t)(nout - j - 1));
		nout--;
	}
	if (bad) { anomalies++; vs_note("f b%d CORRUPT", blk); }
	else vs_note("f b%d", blk);
	do_free(p);
}

static void worker(void *arg)
{
	const char *s = (const char *)arg;
	int me = vs_tid();
	while (*s) {
		if (*s == ',' || *s == '-' || *s == ' ') { s++; continue; }
		char o = *s++;
		int k = 0;
		while (*s >= '0' && *s <= '9') k = k * 10 + (*s++ - '0');
		vs_yield_point("op");
		ts_audit();
		if (o == 'a') op_alloc(me);
		else if (o == 'f') op_free(me, 0, k);
		else if (o == 'o') op_free(me, 1, k);
	}
}

static void case_begin(void)
{
	kind = K_NONE; nthreads = 0; cap_req = -1; locked = 0; base = 0; dsize = 24;
	strcpy(sched, "rand 1 50 0 0");
}

static void case_line(char *line)
{
	char op[32], k[32];
	if (sscanf(line, "%31s", op) != 1) return;
	if (strcmp(op, "sched") == 0) { snprintf(sched, sizeof(sched), "%s", line + 6); return; }
	if (strcmp(op, "dsize") == 0) { sscanf(line, "%*s %d", &dsize); return; }
	if (strcmp(op, "pool") == 0) {
		unsigned long long x = 0;
		k[0] = 0;
		int n = sscanf(line, "%*s %31s %d %llu", k, &cap_req, &x);
		if (n < 2) return;
		if (strcmp(k, "ts") == 0) kind = K_TS;
		else if (strcmp(k, "sowr") == 0) { kind = K_SOWR; base = x; }
		else if (strcmp(k, "ring") == 0) { kind = K_RING; locked = x ? 1 : 0; }
	} else if (strcmp(op, "thr") == 0 && nthreads < VS_MAXT) {
		scripts[nthreads][0] = 0;
		sscanf(line, "%*s %511s", scripts[nthreads]);
		nthreads++;
	}
}

static void summary(void)
{
	long cap = pool_cap();
	if (kind == K_TS) {
		printf("F ts cap=%ld alloc=%u free=%u cached=%u out=%d dups=%d ptrs=", cap, (unsigned)tsp.alloc_idx,
			(unsigned)tsp.free_idx, (unsigned)tsp.cached_free_pos, nout, dups);
		for (long i = 0; i < cap; i++)
			printf("%s%ld", i ? "," : "", (long)(((char *)tsp.ptrs[i].ptr - (char *)tsp.data) / (long)tsp.block_size));
		printf("\n");
	} else if (kind == K_SOWR) {
		printf("F sowr cap=%ld alloc=%u free=%u cached=%u out=%d dups=%d\n", cap, (unsigned)sop.alloc_idx,
			(unsigned)sop.free_idx, (unsigned)sop.cached_free_pos, nout, dups);
	} else {
		printf("F ring cap=%ld cursor=%u out=%d dups=%d inuse=", cap, (unsigned)rip.alloc_idx, nout, dups);
		for (long i = 0; i < cap; i++) {
			muggle_ring_mpool_block_head_t *b = (muggle_ring_mpool_block_head_t *)((char *)rip.blocks + rip.block_size * i);
			printf("%s%d", i ? "," : "", (int)b->in_use);
		}
		printf("\n");
	}
	printf("F out");
	for (int i = 0; i < nout; i++) printf(" b%d:%d", out[i].blk, out[i].owner);
	printf("\n");
	printf("F geom bs=%ld head=%ld dsize=%d slab=%lu\n", pool_bsize(), head_size(), dsize, (unsigned long)slab);
	if (anomalies) printf("F anomalies=%d\n", anomalies);
}

static void case_end(void)
{
	if (kind == K_NONE || nthreads <= 0 || nthreads > VS_MAXT || cap_req < 0 || cap_req > MAXCAP || dsize < 1 || dsize > 4096) {
		printf("F badcase\n");
		return;
	}
	nout = dups = anomalies = 0;
	{
		int na = 0;
		for (int i = 0; i < nthreads; i++) {
			const char *q = scripts[i];
			int has = 0;
			for (; *q; q++) if (*q == 'a') has = 1;
			na += has;
		}
		audit_on = na <= 1;
	}
	vs_reset();
	vs_set_schedule(sched);
	int rc;
	if (kind == K_TS) {
		rc = muggle_ts_memory_pool_init(&tsp, (muggle_sync_t)cap_req, (muggle_sync_t)dsize);
		if (rc == MUGGLE_ERR_INVALID_PARAM) { printf("F init refused\n"); return; }
		if (rc != 0) { printf("F init %d\n", rc); return; }
		vs_name(&tsp.alloc_idx, "alloc"); vs_name(&tsp.free_idx, "free"); vs_name(&tsp.free_spinlock, "lock");
	} else if (kind == K_SOWR) {
		rc = muggle_sowr_memory_pool_init(&sop, (muggle_sync_t)cap_req, (muggle_sync_t)dsize);
		if (rc == MUGGLE_ERR_INVALID_PARAM) { printf("F init refused\n"); return; }
		if (rc != 0 || sop.blocks == NULL) { printf("F init %d\n", rc ? rc : -1); return; }
		if (base % sop.capacity != 0 || base > 0xFFFFFFFFULL) { printf("F badcase\n"); muggle_sowr_memory_pool_destroy(&sop); return; }
		sop.alloc_idx = (muggle_sync_t)base;
		vs_name(&sop.free_idx, "free");
	} else {
		rc = muggle_ring_memory_pool_init(&rip, (muggle_sync_t)cap_req, (muggle_sync_t)dsize);
		if (rc == MUGGLE_ERR_INVALID_PARAM) { printf("F init refused\n"); return; }
		if (rc != 0) { printf("F init %d\n", rc); return; }
		vs_name(&rip.write_spinlock, "lock");
		vs_name_range(&((muggle_ring_mpool_block_head_t *)rip.blocks)->in_use, rip.block_size, rip.capacity, "u");
	}
	slab = malloc_usable_size(pool_base());
	if (pool_cap() > MAXCAP) { printf("F badcase\n"); return; }
	for (int i = 0; i < nthreads; i++) vs_spawn(worker, scripts[i]);
	int st = vs_run();
	summary();
	if (st != 0) {
		/* threads are parked for ever: finish the case and ask the runner to restart us */
		printf("END\n");
		fflush(stdout);
		_exit(77);
	}
	if (kind == K_TS) muggle_ts_memory_pool_destroy(&tsp);
	else if (kind == K_SOWR) muggle_sowr_memory_pool_destroy(&sop);
	else muggle_ring_memory_pool_destroy(&rip);
}

int main(void) { return vdrv_main(); }
