/* C19 implementation driver: muggle flow controller (ns and tick based) under a
 * scenario clock.  clock_gettime is wrapped (-Wl,--wrap) and muggle_rdtscp is
 * provided here, so the real check_and_update / check_and_force_update /
 * get_curr_elapsed code paths run on deterministic time. */
#include "vdrv.h"
#include <time.h>
#include "muggle/c/time/flow_controller.h"
#include "muggle/c/time/fast_flow_controller.h"

/* Scenario clock.  g_now is what the next read returns, relative to the base; EVERY read advances it by
 * g_step, so a function that reads the clock k times leaves it k steps further (the number of reads per
 * call is observable).  The base (absolute time at which g_now == 0) is chosen by the case, nanosecond part
 * included, so that start_ts.tv_nsec is arbitrary and later readings may have a smaller tv_nsec (borrow). */
static int64_t g_now;
static int64_t g_step;
static int64_t g_base_ns = 5000000000000LL;
static uint64_t g_tick_base = 777000000000ULL;
static int64_t take_reading(void)
{
	int64_t v = g_now;
	g_now += g_step;
	return v;
}
int __wrap_clock_gettime(clockid_t clk, struct timespec *ts)
{
	int64_t v;
	if (clk == CLOCK_MONOTONIC || clk == CLOCK_BOOTTIME
#ifdef CLOCK_MONOTONIC_RAW
		|| clk == CLOCK_MONOTONIC_RAW
#endif
	) {
		v = g_base_ns + take_reading();
	} else {
		/* a settable clock (CLOCK_REALTIME, ...) may be stepped backwards at any moment: here it runs backwards */
		v = 1700000000000000000LL - 1000 * take_reading();
	}
	ts->tv_sec = v / 1000000000LL;
	ts->tv_nsec = v % 1000000000LL;
	return 0;
}
uint64_t muggle_rdtscp(void) { return g_tick_base + (uint64_t)take_reading(); }
uint64_t muggle_rdtsc(void) { return g_tick_base + (uint64_t)take_reading(); }

static int kind; /* 0 none, 1 ns, 2 fast */
static muggle_flow_controller_t fc;
static muggle_fast_flow_controller_t ffc;

static void cleanup(void)
{
	if (kind == 1) muggle_flow_ctl_destroy(&fc);
	if (kind == 2) muggle_fast_flow_ctl_destroy(&ffc);
	kind = 0;
}
static void case_begin(void) { kind = 0; g_now = 0; g_step = 0; g_base_ns = 5000000000000LL; g_tick_base = 777000000000ULL; }
static void case_end(void) { cleanup(); }

static void case_line(char *line)
{
	char op[32], k[32];
	long long a = 0, b = 0, c = 0, d = 0;
	if (sscanf(line, "%31s", op) != 1) return;
	if (strcmp(op, "init") == 0) {
		/* init ns <t> <n> <fwd> [<base_sec> <base_nsec>]  |  init fast <t> <n> <fwd> <tick_freq (may be fractional)> [<tick_base>] */
		cleanup();
		char w5[64] = "", w6[64] = "";
		int nf = sscanf(line, "%*s %31s %lld %lld %lld %63s %63s", k, &a, &b, &c, w5, w6);
		g_now = 0;
		g_step = 0;
		bool ok;
		if (strcmp(k, "ns") == 0) {
			if (nf >= 6) g_base_ns = strtoll(w5, NULL, 10) * 1000000000LL + strtoll(w6, NULL, 10);
			ok = muggle_flow_ctl_init(&fc, a, (uint32_t)b, c);
			if (ok) kind = 1;
		} else {
			if (nf >= 6) g_tick_base = strtoull(w6, NULL, 10);
			ok = muggle_fast_flow_ctl_init(&ffc, a, (uint32_t)b, c, nf >= 5 ? strtod(w5, NULL) : 1.0);
			if (ok) kind = 2;
		}
		printf("init %s\n", ok ? "ok" : "fail");
		return;
	}
	if (kind == 0) { printf("noctl\n"); return; }
	/* cu / cfu <now> [<step>]: the clock is set to <now> and advances by <step> at every read during the call;
	 * with a step the result line also carries the reading the NEXT read would get */
	int na = sscanf(line, "%*s %lld %lld", &a, &b);
	if (strcmp(op, "check") == 0) {
		bool r = kind == 1 ? muggle_flow_ctl_check(&fc, a) : muggle_fast_flow_ctl_check(&ffc, a);
		printf("%d\n", r ? 1 : 0);
	} else if (strcmp(op, "update") == 0) {
		if (kind == 1) muggle_flow_ctl_update(&fc, a); else muggle_fast_flow_ctl_update(&ffc, a);
		printf("-\n");
	} else if (strcmp(op, "cu") == 0 || strcmp(op, "cfu") == 0) {
		g_now = a;
		g_step = na >= 2 ? b : 0;
		bool r;
		if (op[1] == 'u')
			r = kind == 1 ? muggle_flow_ctl_check_and_update(&fc) : muggle_fast_flow_ctl_check_and_update(&ffc);
		else
			r = kind == 1 ? muggle_flow_ctl_check_and_force_update(&fc) : muggle_fast_flow_ctl_check_and_force_update(&ffc);
		if (na >= 2) printf("%d %lld\n", r ? 1 : 0, (long long)g_now);
		else printf("%d\n", r ? 1 : 0);
	} else {
		printf("?\n");
	}
}

int main(void) { return vdrv_main(); }
