/* C19 implementation driver: muggle flow controller (ns and tick based) under a
 * scenario clock.  clock_gettime is wrapped (-Wl,--wrap) and muggle_rdtscp is
 * provided here, so the real check_and_update / check_and_force_update /
 * get_curr_elapsed code paths run on deterministic time. */
#include "vdrv.h"
#include <time.h>
#include "muggle/c/time/flow_controller.h"
#include "muggle/c/time/fast_flow_controller.h"

static int64_t g_now;      /* scenario time (ns or ticks) since controller creation */
#define CLOCK_BASE_NS 5000000000000LL
int __wrap_clock_gettime(clockid_t clk, struct timespec *ts)
{
	(void)clk;
	int64_t v = CLOCK_BASE_NS + g_now;
	ts->tv_sec = v / 1000000000LL;
	ts->tv_nsec = v % 1000000000LL;
	return 0;
}
#define TICK_BASE 777000000000ULL
uint64_t muggle_rdtscp(void) { return TICK_BASE + (uint64_t)g_now; }
uint64_t muggle_rdtsc(void) { return TICK_BASE + (uint64_t)g_now; }

static int kind; /* 0 none, 1 ns, 2 fast */
static muggle_flow_controller_t fc;
static muggle_fast_flow_controller_t ffc;

static void cleanup(void)
{
	if (kind == 1) muggle_flow_ctl_destroy(&fc);
	if (kind == 2) muggle_fast_flow_ctl_destroy(&ffc);
	kind = 0;
}
static void case_begin(void) { kind = 0; g_now = 0; }
static void case_end(void) { cleanup(); }

static void case_line(char *line)
{
	char op[32], k[32];
	long long a = 0, b = 0, c = 0, d = 0;
	if (sscanf(line, "%31s", op) != 1) return;
	if (strcmp(op, "init") == 0) {
		cleanup();
		int nf = sscanf(line, "%*s %31s %lld %lld %lld %lld", k, &a, &b, &c, &d);
		g_now = 0;
		bool ok;
		if (strcmp(k, "ns") == 0) {
			ok = muggle_flow_ctl_init(&fc, a, (uint32_t)b, c);
			if (ok) kind = 1;
		} else {
			ok = muggle_fast_flow_ctl_init(&ffc, a, (uint32_t)b, c, (double)(nf >= 5 ? d : 1));
			if (ok) kind = 2;
		}
		printf("init %s\n", ok ? "ok" : "fail");
		return;
	}
	if (kind == 0) { printf("noctl\n"); return; }
	sscanf(line, "%*s %lld", &a);
	if (strcmp(op, "check") == 0) {
		bool r = kind == 1 ? muggle_flow_ctl_check(&fc, a) : muggle_fast_flow_ctl_check(&ffc, a);
		printf("%d\n", r ? 1 : 0);
	} else if (strcmp(op, "update") == 0) {
		if (kind == 1) muggle_flow_ctl_update(&fc, a); else muggle_fast_flow_ctl_update(&ffc, a);
		printf("-\n");
	} else if (strcmp(op, "cu") == 0) {
		g_now = a;
		bool r = kind == 1 ? muggle_flow_ctl_check_and_update(&fc) : muggle_fast_flow_ctl_check_and_update(&ffc);
		printf("%d\n", r ? 1 : 0);
	} else if (strcmp(op, "cfu") == 0) {
		g_now = a;
		bool r = kind == 1 ? muggle_flow_ctl_check_and_force_update(&fc) : muggle_fast_flow_ctl_check_and_force_update(&ffc);
		printf("%d\n", r ? 1 : 0);
	} else {
		printf("?\n");
	}
}

int main(void) { return vdrv_main(); }
