/* C13 parameter extraction: the constants the event-loop model depends on, as the headers of this
 * run define them.  Compiled against $VERIF_REPO on every run by lib/props/c13.py (gen_params). */
#include <stdio.h>
#include <stddef.h>
#include <errno.h>
#include <poll.h>
#include <sys/select.h>
#include <sys/epoll.h>
#include "muggle/c/event/event.h"
#include "muggle/c/event/event_context.h"
#include "muggle/c/event/event_loop.h"
#include "muggle/c/event/internal/event_loop_poll.h"
#include "muggle/c/event/internal/event_loop_select.h"
#include "muggle/c/event/internal/event_loop_epoll.h"
#define P(name) printf(#name " %ld\n", (long)(name))
#define S(key, ty) printf("sizeof:" key " %ld\n", (long)sizeof(ty))
int main(void)
{
	P(MUGGLE_EV_CTX_FLAG_CLOSED);
	P(MUGGLE_EV_LOOP_EXIT_STATUS_WAKE);
	P(MUGGLE_EV_LOOP_EXIT_STATUS_EXIT);
	P(MUGGLE_EVLOOP_TYPE_NULL);
	P(MUGGLE_EVLOOP_TYPE_SELECT);
	P(MUGGLE_EVLOOP_TYPE_POLL);
	P(MUGGLE_EVLOOP_TYPE_EPOLL);
	P(MUGGLE_EVLOOP_TYPE_KQUEUE);
	P(MUGGLE_MAX_EVLOOP_TYPE);
	P(MUGGLE_INVALID_EVENT_FD);
	P(MUGGLE_EVENT_FD_SHUT_RD);
	P(MUGGLE_EVENT_FD_SHUT_WR);
	P(MUGGLE_EVENT_FD_SHUT_RDWR);
	P(MUGGLE_SYS_ERRNO_INTR);
	P(MUGGLE_SYS_ERRNO_WOULDBLOCK);
	P(POLLIN);
	P(POLLHUP);
	P(POLLERR);
	P(EPOLLIN);
	P(EPOLLHUP);
	P(EPOLLERR);
	P(EPOLLET);
	P(EPOLL_CTL_ADD);
	P(EPOLL_CTL_DEL);
	P(FD_SETSIZE);
	S("struct pollfd", struct pollfd);
	S("struct epoll_event", struct epoll_event);
	S("void *", void *);
	S("fd_set", fd_set);
	S("struct timeval", struct timeval);
	S("muggle_event_context_t", muggle_event_context_t);
	S("muggle_linked_list_t", muggle_linked_list_t);
	S("muggle_event_signal_t", muggle_event_signal_t);
	S("muggle_event_loop_poll_t", muggle_event_loop_poll_t);
	S("muggle_event_loop_select_t", muggle_event_loop_select_t);
	S("muggle_event_loop_epoll_t", muggle_event_loop_epoll_t);
	return 0;
}
