/* C01 dispatch probe: re-extracts, by RUNNING muggle_channel_init on the code as compiled here,
 *  - for every flags value in [0, 512): the return value, the normalised chan->flags, init_flags,
 *    which of write_mutex / read_mutex / read_cv were created and which functions were installed in
 *    fn_lock / fn_unlock / fn_write / fn_wake / fn_read (printed as offsets from muggle_channel_init;
 *    lib/props/c01.py resolves them to the static functions' names with nm),
 *  - the capacity rounding and the initial cursors for requested capacities 0..1025,
 *  - muggle_next_pow_of_2 as muggle_channel_init uses it (cast to muggle_sync_t) around every
 *    power of two up to 2^32.
 * No repository file is modified; the program is compiled from the working tree on every run. */
#include <stdio.h>
#include <stdint.h>
#include "muggle/c/base/utils.h"
#include "muggle/c/sync/channel.h"
#include "muggle/c/sync/array_blocking_queue.h"
#include "muggle/c/sync/double_buffer.h"

/* width and signedness of the struct fields the model treats as 32-bit cursors / int counters:
 * "W <id> <sizeof> <signed 0|1> <is an integer type 0|1>"; ids are those of model_field_widths (coq/C01/Dispatch.v) */
#define FIELD(id, obj, f) printf("W %d %zu %d %d\n", id, sizeof((obj).f), ((__typeof__((obj).f))-1) < (__typeof__((obj).f))0, \
	__builtin_types_compatible_p(__typeof__((obj).f), unsigned int) || __builtin_types_compatible_p(__typeof__((obj).f), int) || \
	__builtin_classify_type((obj).f) == 1)

static long off(void *p) { return p ? (long)((char *)p - (char *)(void *)muggle_channel_init) : 0; }

int main(void)
{
	muggle_channel_t chan;
	for (int flags = 0; flags < 512; flags++) {
		int rc = muggle_channel_init(&chan, 4, flags);
		printf("D %d %d %d %d %d %d %d %ld %ld %ld %ld %ld %u\n", flags, rc, chan.flags, chan.init_flags,
		       chan.write_mutex != NULL && (chan.init_flags & 1), chan.read_mutex != NULL, chan.read_cv != NULL,
		       off((void *)chan.fn_lock), off((void *)chan.fn_unlock), off((void *)chan.fn_write),
		       off((void *)chan.fn_wake), off((void *)chan.fn_read), (unsigned)chan.capacity);
		if (rc == 0) muggle_channel_destroy(&chan);
	}
	for (unsigned req = 0; req <= 1025; req++) {
		int rc = muggle_channel_init(&chan, (muggle_sync_t)req, MUGGLE_CHANNEL_FLAG_WRITE_SINGLE | MUGGLE_CHANNEL_FLAG_READ_BUSY);
		if (rc == 0) {
			printf("C %u %d %u %u %u %u\n", req, rc, (unsigned)chan.capacity, (unsigned)chan.write_cursor,
			       (unsigned)chan.read_cursor, (unsigned)chan.cached_r_cur);
			muggle_channel_destroy(&chan);
		} else {
			printf("C %u %d 0 0 0 0\n", req, rc);
		}
	}
	for (int k = 1; k <= 32; k++) {
		for (int d = -1; d <= 1; d++) {
			uint64_t req = ((uint64_t)1 << k) + (uint64_t)(int64_t)d;
			if (req > 0xffffffffULL) continue;
			printf("N %llu %u\n", (unsigned long long)req, (unsigned)(muggle_sync_t)muggle_next_pow_of_2(req));
		}
	}
	{
		muggle_array_blocking_queue_t q;
		muggle_double_buffer_t d;
		muggle_single_buffer_t b;
		FIELD(0, chan, capacity); FIELD(1, chan, write_cursor); FIELD(2, chan, read_cursor); FIELD(3, chan, cached_r_cur);
		FIELD(4, chan, write_synclock);
		FIELD(10, q, capacity); FIELD(11, q, take_idx); FIELD(12, q, put_idx); FIELD(13, q, cnt);
		FIELD(20, d, capacity); FIELD(21, b, cnt); FIELD(22, d, non_blocking);
		/* the element types of the slot arrays: a message is a void* */
		printf("W 30 %zu 0 0\n", sizeof(chan.blocks[0].data));
		printf("W 31 %zu 0 0\n", sizeof(q.datas[0]));
		printf("W 32 %zu 0 0\n", sizeof(b.datas[0]));
	}
	/* requests whose rounding does not fit muggle_sync_t must be refused before any allocation */
	{
		unsigned big[3] = { 0x80000001u, 0xC0000000u, 0xFFFFFFFFu };
		for (int i = 0; i < 3; i++) {
			int rc = muggle_channel_init(&chan, (muggle_sync_t)big[i], MUGGLE_CHANNEL_FLAG_WRITE_SINGLE | MUGGLE_CHANNEL_FLAG_READ_BUSY);
			printf("C %u %d 0 0 0 0\n", big[i], rc);
			if (rc == 0) muggle_channel_destroy(&chan);
		}
	}
	return 0;
}
