(* C20 model driver: same line protocol as harness/drivers/c20_driver.c *)
let hexv c =
  match c with
  | '0' .. '9' -> Char.code c - 48
  | 'a' .. 'f' -> Char.code c - 87
  | 'A' .. 'F' -> Char.code c - 55
  | _ -> 0

let dec (tok : string) : z list =
  if tok = "-" then []
  else begin
    let n = String.length tok / 2 in
    let rec go i acc =
      if i < 0 then acc
      else go (i - 1) (z_of_int (hexv tok.[2 * i] * 16 + hexv tok.[2 * i + 1]) :: acc) in
    go (n - 1) []
  end

(* "~" is a NULL pointer (str.c functions only) *)
let deco (tok : string) : z list option = if tok = "~" then None else Some (dec tok)

let enc (l : z list) : string =
  if l = [] then "-"
  else String.concat "" (List.map (fun c -> Printf.sprintf "%02x" (int_of_z c land 255)) l)

let guard (size : int) : z list =
  let g = z_of_int 170 in
  let rec go k acc = if k <= 0 then acc else go (k - 1) (g :: acc) in
  go size []

let report ((rc, m) : z * buf) : unit =
  let o = if m.oob then " OOB" else "" in
  if int_of_z rc <> 0 then Printf.printf "rc=%d%s\n" (int_of_z rc) o
  else Printf.printf "rc=0 nul=%d str=%s%s\n" (if has_nul m.cells then 1 else 0) (enc (cstr m.cells)) o

let b01 b = if b then 1 else 0

(* the extracted join, memoised: abspath_with calls it with the same (cwd, path, MAX_PATH, junk) for every output
   size of a case; the result is a pure function of the arguments, the table only saves recomputing it *)
let join_memo : (z list * z list * z * buf, z * buf) Hashtbl.t = Hashtbl.create 64
let memo_join (p1 : z list) (p2 : z list) (size : z) (m : buf) : z * buf =
  let key = (p1, p2, size, m) in
  match Hashtbl.find_opt join_memo key with
  | Some r -> r
  | None ->
    if Hashtbl.length join_memo > 256 then Hashtbl.reset join_memo;
    let r = join p1 p2 size m in
    Hashtbl.add join_memo key r; r

let handle (lines : string list) : unit =
  List.iter (fun l ->
    match words l with
    | ["npo2"; v] -> print_endline (string_of_n (model_npo2 (n_of_string v)))
    | ["swap16"; v] -> print_endline (string_of_n (swap16 (n_of_string v)))
    | ["swapw"; v] ->
      (* swap16 is a function to [0, 2^16): whatever integer type consumes it sees the same value *)
      let x = n_of_string v in
      let r = string_of_n (swap16 x) in
      let rt = string_of_n (swap16 (swap16 x)) in
      Printf.printf "%s %s %s %s %s %s\n" r r r r rt rt
    | ["swapw32"; v] ->
      let x = n_of_string v in
      Printf.printf "%s %s\n" (string_of_n (swap32 x)) (string_of_n (swap32 (swap32 x)))
    | ["swapt"; n; ty; v] ->
      (* the operand is an object of type ty holding (ty)v; the macro's value in the four contexts *)
      let bits, sg = (match ty with
          | "i8" -> 8, true | "u8" -> 8, false | "i16" -> 16, true | "u16" -> 16, false
          | "i32" -> 32, true | "u32" -> 32, false | "i64" -> 64, true | _ -> 64, false) in
      let x = operand (n_of_int bits) sg (n_of_string v) in
      let sw = (match n with "16" -> swap16 | "32" -> swap32 | _ -> swap64) in
      let r = sw x in
      Printf.printf "%s %s %s %s\n" (string_of_n r) (string_of_z (as_int64 r)) (string_of_n r) (string_of_n (sw r))
    | ["swap32"; v] -> print_endline (string_of_n (swap32 (n_of_string v)))
    | ["swap64"; v] -> print_endline (string_of_n (swap64 (n_of_string v)))
    | (("toi" | "tou" | "tol" | "toul" | "toll" | "toull") as op) :: base :: s :: rest
      when rest = [] || rest = ["P0"] ->
      let b = z_of_string base and so = deco s and p0 = (rest = ["P0"]) in
      let f = (match op with
          | "toi" -> toi b | "tou" -> tou b | "tol" -> tol b
          | "toul" -> toul b | "toll" -> toll b | _ -> toull b) in
      (match so with
       | Some s when not p0 ->
         (match parse_c f so p0 with Some v -> print_endline ("ok " ^ string_of_z v) | None -> print_endline "fail");
         let ((v, e), er) = (match op with
             | "toi" | "tol" | "toll" -> strtol_model b s
             | _ -> strtoul_model b s) in
         Printf.printf "libc %s %d %d\n" (string_of_z v) (int_of_nat e) (b01 er)
       | _ ->
         (match parse_c f so p0 with Some _ -> print_endline "ok ?" | None -> print_endline "fail");
         print_endline "libc -")
    | ("tof" | "tod" | "told") :: s :: rest
      when deco s = None || (rest <> [] && List.nth rest (List.length rest - 1) = "P0") ->
      (* NULL string and/or NULL out-parameter: refused before libc is called *)
      let p0 = rest <> [] && List.nth rest (List.length rest - 1) = "P0" in
      (match parse_c (fun _ -> Some true) (deco s) p0 with
       | Some _ -> print_endline "ok"
       | None -> print_endline "fail");
      print_endline "libcf -"
    | [("tof" | "tod" | "told"); s; consumed; inf; er] ->
      (* old 4-column form (corpus): no zero column *)
      let s = dec s in
      let ok = tofloat s (nat_of_int (int_of_string consumed)) (er = "1") in
      print_endline (if ok then "ok" else "fail");
      Printf.printf "libcf %s %s %s 1\n" consumed inf er
    | [("tof" | "tod" | "told"); s; consumed; inf; er; zero] ->
      let s = dec s in
      let ok = tofloat s (nat_of_int (int_of_string consumed)) (er = "1") in
      print_endline (if ok then "ok" else "fail");
      Printf.printf "libcf %s %s %s %s 1\n" consumed inf er zero
    | ["lstrip"; s] -> print_endline (string_of_z (lstrip_idx_c (deco s)))
    | ["rstrip"; s] -> print_endline (string_of_z (rstrip_idx_c (deco s)))
    | ["startswith"; s; p] -> Printf.printf "%d\n" (b01 (startswith_c (deco s) (deco p)))
    | ["endswith"; s; p] -> Printf.printf "%d\n" (b01 (endswith_c (deco s) (deco p)))
    | ["find"; s; p; a; b] -> print_endline (string_of_z (str_find_c (deco s) (deco p) (z_of_string a) (z_of_string b)))
    | ["count"; s; p; a; b] -> print_endline (string_of_z (str_count_c (deco s) (deco p) (z_of_string a) (z_of_string b)))
    | ["hexbyte"; c] ->
      (* the C parameter is a (signed) char: values above 127 arrive negative *)
      let c = int_of_string c in
      let c = if c > 127 then c - 256 else c in
      print_endline (string_of_z (hex_to_byte (z_of_int c)))
    | ["hex2b"; s] ->
      let s = dec s in
      (* char is signed in the implementation; hex_to_byte only tests ASCII ranges *)
      (match hex_to_bytes s (nat_of_int (List.length s / 2)) with
       | Some out -> print_endline ("ok " ^ enc out)
       | None -> print_endline "fail")
    | ["b2hex"; s] -> print_endline (enc (hex_from_bytes (dec s)))
    | ["isabs"; p] -> Printf.printf "%d\n" (b01 (isabs (dec p)))
    | [("basename" | "dirname" | "normpath") as op; size; p] ->
      let sz = int_of_string size in
      let m = { cells = guard sz; oob = false } in
      let p = dec p and size = z_of_int sz in
      report (match op with
          | "basename" -> basename p size m
          | "dirname" -> dirname p size m
          | _ -> normpath p size m)
    | ["join"; size; p1; p2] ->
      let sz = int_of_string size in
      report (join (dec p1) (dec p2) (z_of_int sz) { cells = guard sz; oob = false })
    | ["abspath"; size; cwd; p] ->
      let sz = int_of_string size in
      report (abspath_with memo_join (dec cwd) (dec p) (z_of_int sz) (guard 1024) { cells = guard sz; oob = false })
    | [] -> ()
    | _ -> print_endline "?") lines

let () = run_cases handle
