(* C20 model driver: same line protocol as harness/drivers/c20_driver.c *)
let hexv c =
  match c with
  | '0' .. '9' -> Char.code c - 48
  | 'a' .. 'f' -> Char.code c - 87
  | 'A' .. 'F' -> Char.code c - 55
  | _ -> 0

let dec (tok : string) : z list =
  if tok = "-" then []
  else begin
    let n = String.length tok / 2 in
    let rec go i acc =
      if i < 0 then acc
      else go (i - 1) (z_of_int (hexv tok.[2 * i] * 16 + hexv tok.[2 * i + 1]) :: acc) in
    go (n - 1) []
  end

let enc (l : z list) : string =
  if l = [] then "-"
  else String.concat "" (List.map (fun c -> Printf.sprintf "%02x" (int_of_z c land 255)) l)

let guard (size : int) : z list =
  let g = z_of_int 170 in
  let rec go k acc = if k <= 0 then acc else go (k - 1) (g :: acc) in
  go size []

let report ((rc, m) : z * buf) : unit =
  let o = if m.oob then " OOB" else "" in
  if int_of_z rc <> 0 then Printf.printf "rc=%d%s\n" (int_of_z rc) o
  else Printf.printf "rc=0 nul=%d str=%s%s\n" (if has_nul m.cells then 1 else 0) (enc (cstr m.cells)) o

let b01 b = if b then 1 else 0

let handle (lines : string list) : unit =
  List.iter (fun l ->
    match words l with
    | ["npo2"; v] -> print_endline (string_of_n (model_npo2 (n_of_string v)))
    | ["swap16"; v] -> print_endline (string_of_n (swap16 (n_of_string v)))
    | ["swapw"; v] ->
      (* swap16 is a function to [0, 2^16): whatever integer type consumes it sees the same value *)
      let x = n_of_string v in
      let r = string_of_n (swap16 x) in
      let rt = string_of_n (swap16 (swap16 x)) in
      Printf.printf "%s %s %s %s %s %s\n" r r r r rt rt
    | ["swapw32"; v] ->
      let x = n_of_string v in
      Printf.printf "%s %s\n" (string_of_n (swap32 x)) (string_of_n (swap32 (swap32 x)))
    | ["swap32"; v] -> print_endline (string_of_n (swap32 (n_of_string v)))
    | ["swap64"; v] -> print_endline (string_of_n (swap64 (n_of_string v)))
    | [("toi" | "tou" | "tol" | "toul" | "toll" | "toull") as op; base; s] ->
      let b = z_of_string base and s = dec s in
      let r = (match op with
          | "toi" -> toi b s | "tou" -> tou b s | "tol" -> tol b s
          | "toul" -> toul b s | "toll" -> toll b s | _ -> toull b s) in
      (match r with Some v -> print_endline ("ok " ^ string_of_z v) | None -> print_endline "fail");
      let ((v, e), er) = (match op with
          | "toi" | "tol" | "toll" -> strtol_model b s
          | _ -> strtoul_model b s) in
      Printf.printf "libc %s %d %d\n" (string_of_z v) (int_of_nat e) (b01 er)
    | [("tof" | "tod" | "told"); s; consumed; inf; er] ->
      let s = dec s in
      let ok = tofloat s (nat_of_int (int_of_string consumed)) (inf = "1") (er = "1") in
      print_endline (if ok then "ok" else "fail");
      Printf.printf "libcf %s %s %s 1\n" consumed inf er
    | ["lstrip"; s] -> print_endline (string_of_z (lstrip_idx (dec s)))
    | ["rstrip"; s] -> print_endline (string_of_z (rstrip_idx (dec s)))
    | ["startswith"; s; p] -> Printf.printf "%d\n" (b01 (startswith (dec s) (dec p)))
    | ["endswith"; s; p] -> Printf.printf "%d\n" (b01 (endswith (dec s) (dec p)))
    | ["find"; s; p; a; b] -> print_endline (string_of_z (str_find (dec s) (dec p) (z_of_string a) (z_of_string b)))
    | ["count"; s; p; a; b] -> print_endline (string_of_z (str_count (dec s) (dec p) (z_of_string a) (z_of_string b)))
    | ["hexbyte"; c] ->
      (* the C parameter is a (signed) char: values above 127 arrive negative *)
      let c = int_of_string c in
      let c = if c > 127 then c - 256 else c in
      print_endline (string_of_z (hex_to_byte (z_of_int c)))
    | ["hex2b"; s] ->
      let s = dec s in
      (* char is signed in the implementation; hex_to_byte only tests ASCII ranges *)
      (match hex_to_bytes s (nat_of_int (List.length s / 2)) with
       | Some out -> print_endline ("ok " ^ enc out)
       | None -> print_endline "fail")
    | ["b2hex"; s] -> print_endline (enc (hex_from_bytes (dec s)))
    | ["isabs"; p] -> Printf.printf "%d\n" (b01 (isabs (dec p)))
    | [("basename" | "dirname" | "normpath") as op; size; p] ->
      let sz = int_of_string size in
      let m = { cells = guard sz; oob = false } in
      let p = dec p and size = z_of_int sz in
      report (match op with
          | "basename" -> basename p size m
          | "dirname" -> dirname p size m
          | _ -> normpath p size m)
    | ["join"; size; p1; p2] ->
      let sz = int_of_string size in
      report (join (dec p1) (dec p2) (z_of_int sz) { cells = guard sz; oob = false })
    | ["abspath"; size; cwd; p] ->
      let sz = int_of_string size in
      report (abspath (dec cwd) (dec p) (z_of_int sz) (guard 1024) { cells = guard sz; oob = false })
    | [] -> ()
    | _ -> print_endline "?") lines

let () = run_cases handle
