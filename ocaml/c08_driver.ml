(* C08 model driver: same line protocol as harness/drivers/c08_driver.c.
   Sequential cases ("ring heap|shm <nbytes>") run the extracted [step]; concurrent cases
   ("conc ...") replay the implementation's scheduler trace on the extracted interleaving
   model (trace acceptance, ocaml/vsacc.ml.inc) and print the model's own summary. *)
let pat seed i = (seed * 31 + i * 7 + (i lsr 8) * 13 + 1) land 0xff
let state_str (h : harness) =
  let s = h.hr in
  Printf.sprintf " | %s %s %s" (string_of_z s.wcur) (string_of_z s.rcur) (string_of_z s.crem)

let hex_of_bytes (l : z list) : string =
  let b = Buffer.create 64 in
  List.iter (fun x -> Buffer.add_string b (Printf.sprintf "%02x" (int_of_z x))) l;
  Buffer.contents b

let handle_seq (first : string list) (rest : string list) : unit =
  let st = ref None in
  (match first with
   | ["ring"; _k; nb] ->
     let nbytes = (try int_of_string nb with _ -> 0) in
     if nbytes < 1 || nbytes > (1 lsl 24) then print_endline "open bad"
     else begin
       (* the ring as muggle_shm_ringbuf_open sizes it (extracted open_sizes): lines, data bytes, segment bytes *)
       let ((n, data), total) = open_sizes (z_of_int nbytes) in
       let h = hopen (z_of_int nbytes) in
       st := Some h;
       Printf.printf "open %s %s 1 %s %s%s\n" (string_of_z n) (string_of_z data) (string_of_z total) (string_of_z total) (state_str h)
     end
   | _ -> print_endline "open bad");
  List.iter (fun l ->
    match !st with
    | None -> if words l <> [] then print_endline "noring"
    | Some h ->
      let w = words l in
      let num k = (try int_of_string (List.nth w k) with _ -> 0) in
      let exec o = let (h', r) = step h o in st := Some h'; (h', r) in
      (match w with
       | "alloc" :: _ ->
         let (h', r) = exec (OAlloc (z_of_int (num 1))) in
         (match r with
          | RAlloc (Some off) -> Printf.printf "alloc %s%s\n" (string_of_z off) (state_str h')
          | RAlloc None -> Printf.printf "alloc NULL%s\n" (state_str h')
          | _ -> Printf.printf "alloc skip%s\n" (state_str h'))
       | "alloccl" :: _ ->
         let (h', r) = exec (OAllocCl (z_of_int (num 1), z_of_int (num 2))) in
         (match r with
          | RAlloc (Some off) -> Printf.printf "alloccl %s%s\n" (string_of_z off) (state_str h')
          | RAlloc None -> Printf.printf "alloccl NULL%s\n" (state_str h')
          | _ -> Printf.printf "alloccl skip%s\n" (state_str h'))
       | "write" :: _ ->
         let at = num 1 and len = num 2 and seed = num 3 in
         if len < 0 || len > 65536 then Printf.printf "write skip%s\n" (state_str h)   (* longer than any ring of the quantifier: outside every allocation *)
         else begin
           let d = List.init len (fun i -> z_of_int (pat seed i)) in
           let (h', r) = exec (OWrite (z_of_int at, d)) in
           Printf.printf "write %s%s\n" (match r with RDone -> "ok" | _ -> "skip") (state_str h')
         end
       | "commit" :: _ ->
         let (h', r) = exec OCommit in
         Printf.printf "commit %s%s\n" (match r with RDone -> "ok" | _ -> "skip") (state_str h')
       | "fetch" :: _ ->
         let (h', r) = exec OFetch in
         (match r with
          | RFetch (Some ((off, nb), bytes)) ->
            Printf.printf "fetch %s %s %s%s\n" (string_of_z off) (string_of_z nb) (hex_of_bytes bytes) (state_str h')
          | _ -> Printf.printf "fetch NULL%s\n" (state_str h'))
       | "rmove" :: _ ->
         let (h', r) = exec ORMove in
         Printf.printf "rmove %s%s\n" (match r with RDone -> "ok" | _ -> "skip") (state_str h')
       | [] -> ()
       | _ -> print_endline "?")) rest

(*CONC-BEGIN*)
let sc_params = { mo_w_load_r = SeqCst; mo_w_store_wrap = SeqCst; mo_w_store_commit = SeqCst; mo_r_load_w = SeqCst;
                  mo_r_store_wrap = SeqCst; mo_r_store_move = SeqCst; mo_lock_tas = SeqCst; mo_lock_clear = SeqCst }
let mo_of_string = function
  | "Rlx" -> Rlx | "Con" -> Con | "Acq" -> Acq | "Rel" -> Rel | "AcqRel" -> AcqRel | "SeqCst" -> SeqCst | _ -> MoNone
let params_of = function
  | [a; b; c; d; e; f; g; h] ->
    { mo_w_load_r = mo_of_string a; mo_w_store_wrap = mo_of_string b; mo_w_store_commit = mo_of_string c;
      mo_r_load_w = mo_of_string d; mo_r_store_wrap = mo_of_string e; mo_r_store_move = mo_of_string f;
      mo_lock_tas = mo_of_string g; mo_lock_clear = mo_of_string h }
  | _ -> sc_params
let cell_id = function "wcur" -> 0 | "rcur" -> 1 | "wlock" -> 2 | "ridle" -> 3 | "wretry" -> 4
                       | "ready" -> 5 | "magic" -> 6 | "apoll" -> 7 | "-" -> 0 | _ -> 99
let choice_of _ _ _ _ = 0
let note_of text =
  match words text with
  | [k; v] ->
    let code = (match k with "sent" -> 1 | "full" -> 2 | "drop" -> 3 | "wdone" -> 4 | "glen" -> 5 | "goff" -> 6
                           | "gtag" -> 7 | "idle" -> 8 | "rdone" -> 9
                           | "created" -> 10 | "geo" -> 11 | "notready" -> 12 | "gaveup" -> 13 | _ -> 99) in
    (code, (try int_of_string v with _ -> 0))
  | _ -> (99, 0)
let rec upto n = if n <= 0 then [] else upto (n - 1) @ [n - 1]

let parse_conc (cfg : string list) =
  let n = ref 8 and locked = ref false and kill = ref None and tries = ref 1 and scripts = ref [] in
  let prm = ref sc_params and explore = ref None in
  List.iter (fun l -> match words l with
    | "conc" :: a :: rest ->
      n := int_of_string a;
      (match rest with
       | b :: c :: d :: _ -> locked := (b = "1"); (let k = int_of_string c in kill := if k < 0 then None else Some (nat_of_int k));
         tries := max 1 (int_of_string d)
       | _ -> ())
    | "writer" :: ms ->
      let sc = List.filter_map (fun m -> match String.split_on_char ':' m with
        | [a; b] -> Some (z_of_int (int_of_string a), z_of_int (int_of_string b)) | _ -> None) ms in
      scripts := !scripts @ [sc]
    | "params" :: ps -> prm := params_of ps
    | ["explore"; sd; runs] -> explore := Some (int_of_string sd, int_of_string runs)
    | _ -> ()) cfg;
  (cinit (z_of_int !n) !locked (nat_of_int !tries) !kill !scripts, List.length !scripts, !prm, !explore)

(* random walks of the MODEL under the memory orders extracted from the code, looking for a ghost
   monitor failure (a plain read of a data line not covered by the reader's view, an overlap, a
   delivery that is not the next committed message): used when the parameter obligation broke *)
let bad_state (st : csys) : string option =
  if int_of_nat st.c_uncov > 0 then Some "the reader reads a data line (header or payload) that its view does not cover: the writer's plain writes are not ordered before the read (stale header / payload possible)"
  else if int_of_nat st.c_overlap > 0 then Some "the writer stores into a line of a committed unread message"
  else if int_of_nat st.c_rrace > 0 then Some "the writer stores into a line whose latest read by the reader was not published to it: the reader's store of read_cursor does not order its payload reads before the writer's reuse of the lines (torn delivery possible)"
  else None
let explore_model (st0 : csys) (nthreads : int) (p : params) (seed : int) (runs : int) : unit =
  Random.init seed;
  let found = ref false and r = ref 0 in
  while not !found && !r < runs do
    incr r;
    let st = ref st0 and sched = ref [] and k = ref 0 in
    while not !found && !k < 600 do
      incr k;
      let t = Random.int nthreads in
      (match cstep p !st (nat_of_int t) O with
       | Some (s', _) -> st := s'; sched := t :: !sched
       | None -> ());
      (match bad_state !st with
       | Some why ->
         found := true;
         Printf.printf "FOUND %s\n" why;
         Printf.printf "modelsched %s\n" (String.concat " " (List.rev_map string_of_int !sched))
       | None -> ())
    done
  done;
  if not !found then print_endline "NOTFOUND"

let handle_conc (lines : string list) : unit =
  let rec split acc = function
    | "TRACE" :: rest -> (List.rev acc, rest)
    | x :: rest -> split (x :: acc) rest
    | [] -> (List.rev acc, []) in
  let (cfg, trace) = split [] lines in
  let (st0, nw, prm, explore) = parse_conc cfg in
  match explore with
  | Some (sd, runs) -> explore_model st0 (nw + 1) prm sd runs
  | None ->
    if nw <= 0 then print_endline "F badcase" else begin
      let step = cstep prm in
      let none_enabled st = List.for_all (fun t -> step st (nat_of_int t) O = None) (upto (nw + 1)) in
      let (st, ok) = accept_trace step st0 cell_id choice_of note_of none_enabled trace in
      if ok then begin
        let bad = List.length (List.filter (fun ((_, _), tag) -> int_of_z tag < 0) st.c_delivered) in
        Printf.printf "F got=%d bad=%d w=%s r=%s\n" (List.length st.c_delivered)
          bad (string_of_z st.c_w) (string_of_z st.c_r);
        (* the model's own ghost monitors must be quiet on an accepted trace *)
        if int_of_nat st.c_overlap > 0 then print_endline "M overlap";
        if int_of_nat st.c_uncov > 0 then print_endline "M uncovered-read (the reader's view does not cover a line it read under the extracted memory orders)";
        if int_of_nat st.c_rrace > 0 then print_endline "M unpublished-read-overwritten (the writer reuses a line whose latest read by the reader is not ordered before the store under the extracted memory orders)";
        let rec is_prefix a b = match a, b with
          | [], _ -> true | x :: a', y :: b' -> x = y && is_prefix a' b' | _ -> false in
        if not (is_prefix st.c_delivered st.c_committed) then print_endline "M delivered-not-prefix-of-committed"
      end
    end
(* ---- the ready hand-over (attach scenario): trace acceptance on the extracted ModelAttach ---- *)
let sc_ap = { mo_open_store_ready = SeqCst; mo_ready_load = SeqCst; mo_magic_load = SeqCst }
let ap_of = function
  | [a; b; c] -> { mo_open_store_ready = mo_of_string a; mo_ready_load = mo_of_string b; mo_magic_load = mo_of_string c }
  | _ -> sc_ap
let handle_attach (lines : string list) : unit =
  let rec split acc = function
    | "TRACE" :: rest -> (List.rev acc, rest)
    | x :: rest -> split (x :: acc) rest
    | [] -> (List.rev acc, []) in
  let (cfg, trace) = split [] lines in
  let nbytes = ref 0 and tries = ref 1 and prm = ref sc_ap and explore = ref None in
  List.iter (fun l -> match words l with
    | "attach" :: a :: rest -> nbytes := (try int_of_string a with _ -> 0);
      (match rest with b :: _ -> tries := max 1 (try int_of_string b with _ -> 1) | _ -> ())
    | "aparams" :: ps -> prm := ap_of ps
    | ["explore"; sd; runs] -> explore := Some (int_of_string sd, int_of_string runs)
    | _ -> ()) cfg;
  if !nbytes < 1 then print_endline "F badcase" else begin
    let ((n, _), _) = open_sizes (z_of_int !nbytes) in
    let st0 = ainit n (nat_of_int !tries) in
    match !explore with
    | Some (sd, runs) ->
      (* random walks of the model under the extracted orders, looking for an uncovered geometry read *)
      Random.init sd;
      let found = ref false and r = ref 0 in
      while not !found && !r < runs do
        incr r;
        let st = ref st0 and sched = ref [] and k = ref 0 in
        while not !found && !k < 200 do
          incr k;
          let t = Random.int 2 in
          (match astep !prm !st (nat_of_int t) O with
           | Some (s', _) -> st := s'; sched := t :: !sched
           | None -> ());
          if int_of_nat !st.a_uncov > 0 then begin
            found := true;
            print_endline "FOUND an attaching process reads the ring geometry after muggle_shm_ringbuf_is_ready answered true although the creator's plain writes of it are not in its view: the store of ready / the load of it do not order them (uninitialised geometry possible)";
            Printf.printf "modelsched %s\n" (String.concat " " (List.rev_map string_of_int !sched))
          end
        done
      done;
      if not !found then print_endline "NOTFOUND"
    | None ->
      let step = astep !prm in
      let none_enabled st = step st O O = None && step st (S O) O = None in
      let (st, ok) = accept_trace step st0 cell_id choice_of note_of none_enabled trace in
      if ok then begin
        Printf.printf "F attach n=%s ready=%s\n" (string_of_z st.a_geo) (string_of_z st.a_ready);
        if int_of_nat st.a_uncov > 0 then print_endline "M uncovered-geometry-read (the attacher's view does not cover the geometry it read under the extracted memory orders)";
        if List.exists (fun g -> g <> n) st.a_got then print_endline "M attacher-used-uninitialised-geometry"
      end
  end
(*CONC-END*)

let handle (lines : string list) : unit =
  match lines with
  | [] -> ()
  | l0 :: rest ->
    (match words l0 with
     | "ring" :: _ as w -> handle_seq w rest
     | "conc" :: _ -> handle_conc lines
     | "attach" :: _ -> handle_attach lines
     | _ -> print_endline "?")

let () = run_cases handle
