(* C08 model driver: same line protocol as harness/drivers/c08_driver.c.
   Sequential cases ("ring heap|shm <nbytes>") run the extracted [step]; concurrent cases
   ("conc ...") replay the implementation's scheduler trace on the extracted interleaving
   model (trace acceptance, ocaml/vsacc.ml.inc) and print the model's own summary. *)
let pat seed i = (seed * 31 + i * 7 + (i lsr 8) * 13 + 1) land 0xff
let pow2_lines nbytes =
  let lines = (nbytes + 63) / 64 in
  let n = ref 1 in
  while !n < lines do n := !n * 2 done; !n

let state_str (h : harness) =
  let s = h.hr in
  Printf.sprintf " | %s %s %s" (string_of_z s.wcur) (string_of_z s.rcur) (string_of_z s.crem)

let hex_of_bytes (l : z list) : string =
  let b = Buffer.create 64 in
  List.iter (fun x -> Buffer.add_string b (Printf.sprintf "%02x" (int_of_z x))) l;
  Buffer.contents b

let handle_seq (first : string list) (rest : string list) : unit =
  let st = ref None in
  (match first with
   | ["ring"; _k; nb] ->
     let nbytes = (try int_of_string nb with _ -> 0) in
     if nbytes < 1 || nbytes > (1 lsl 24) then print_endline "open bad"
     else begin
       let n = pow2_lines nbytes in
       let h = hinit (z_of_int n) in
       st := Some h;
       Printf.printf "open %d %d 1%s\n" n (n * 64) (state_str h)
     end
   | _ -> print_endline "open bad");
  List.iter (fun l ->
    match !st with
    | None -> if words l <> [] then print_endline "noring"
    | Some h ->
      let w = words l in
      let num k = (try int_of_string (List.nth w k) with _ -> 0) in
      let exec o = let (h', r) = step h o in st := Some h'; (h', r) in
      (match w with
       | "alloc" :: _ ->
         let (h', r) = exec (OAlloc (z_of_int (num 1))) in
         (match r with
          | RAlloc (Some off) -> Printf.printf "alloc %s%s\n" (string_of_z off) (state_str h')
          | RAlloc None -> Printf.printf "alloc NULL%s\n" (state_str h')
          | _ -> Printf.printf "alloc skip%s\n" (state_str h'))
       | "write" :: _ ->
         let at = num 1 and len = num 2 and seed = num 3 in
         if len < 0 || len > 65536 then Printf.printf "write skip%s\n" (state_str h)   (* longer than any ring of the quantifier: outside every allocation *)
         else begin
           let d = List.init len (fun i -> z_of_int (pat seed i)) in
           let (h', r) = exec (OWrite (z_of_int at, d)) in
           Printf.printf "write %s%s\n" (match r with RDone -> "ok" | _ -> "skip") (state_str h')
         end
       | "commit" :: _ ->
         let (h', r) = exec OCommit in
         Printf.printf "commit %s%s\n" (match r with RDone -> "ok" | _ -> "skip") (state_str h')
       | "fetch" :: _ ->
         let (h', r) = exec OFetch in
         (match r with
          | RFetch (Some ((off, nb), bytes)) ->
            Printf.printf "fetch %s %s %s%s\n" (string_of_z off) (string_of_z nb) (hex_of_bytes bytes) (state_str h')
          | _ -> Printf.printf "fetch NULL%s\n" (state_str h'))
       | "rmove" :: _ ->
         let (h', r) = exec ORMove in
         Printf.printf "rmove %s%s\n" (match r with RDone -> "ok" | _ -> "skip") (state_str h')
       | [] -> ()
       | _ -> print_endline "?")) rest

(*CONC-BEGIN*)
let handle_conc (_ : string list) : unit = print_endline "F nomodel"
(*CONC-END*)

let handle (lines : string list) : unit =
  match lines with
  | [] -> ()
  | l0 :: rest ->
    (match words l0 with
     | "ring" :: _ as w -> handle_seq w rest
     | "conc" :: _ -> handle_conc lines
     | _ -> print_endline "?")

let () = run_cases handle
