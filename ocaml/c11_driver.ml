(* C11 model driver: same line protocol as harness/drivers/c11_driver.c *)
let sz = string_of_z
let join f l = String.concat "," (List.map f l)
let freed l = "freed=[" ^ join sz l ^ "]"
let cmp_key a b = (int_of_z a) mod 8 = (int_of_z b) mod 8
let opt_z = function None -> "X" | Some d -> sz d

(* split off a trailing F (malloc failure during this op) / B (no free-data callback: borrowed data);
   -> (words, malloc ok, callback supplied) *)
let split_flags ws =
  match List.rev ws with
  | "F" :: r -> (List.rev r, false, true)
  | "B" :: r -> (List.rev r, true, false)
  | _ -> (ws, true, true)

(* ---- array list ---- *)
let al_dump s =
  let n = int_of_z s.asize in
  let ix = List.init (2 * n + 4) (fun k -> opt_z (al_index s (z_of_int (k - n - 2)))) in
  Printf.sprintf "sz=%d cap=%s empty=%d c=[%s] ix=[%s]" n (sz s.acap) (if n = 0 then 1 else 0)
    (join sz (al_contents s)) (String.concat "," ix)

let al_line s ws ok cb =
  match ws with
  | ["ins"; i; d] -> let (s', r) = al_insert s (z_of_string i) (z_of_string d) ok in (s', "r=" ^ opt_z r, [])
  | ["app"; i; d] -> let (s', r) = al_append s (z_of_string i) (z_of_string d) ok in (s', "r=" ^ opt_z r, [])
  | ["rem"; i] -> let ((s', b), f) = al_remove s (z_of_string i) cb in (s', "r=" ^ string_of_bool01 b, f)
  | ["find"; i; d] -> (s, "r=" ^ sz (al_find cmp_key s (z_of_string i) (z_of_string d)), [])
  | ["clear"] -> let (s', f) = al_clear s cb in (s', "r=-", f)
  | ["ens"; c] -> let (s', b) = al_ensure s (z_of_string c) ok in (s', "r=" ^ string_of_bool01 b, [])
  | _ -> (s, "r=?", [])

(* ---- stack ---- *)
let st_dump s =
  let n = int_of_z s.stop in
  Printf.sprintf "sz=%d cap=%s empty=%d c=[%s] top=%s" n (sz s.scap) (if n = 0 then 1 else 0)
    (join sz (st_contents s)) (opt_z (st_top s))

let st_line s ws ok cb =
  match ws with
  | ["push"; d] -> let (s', r) = st_push s (z_of_string d) ok in (s', "r=" ^ opt_z r, [])
  | ["pop"] -> let (s', f) = st_pop s cb in (s', "r=-", f)
  | ["clear"] -> let (s', f) = st_clear s cb in (s', "r=-", f)
  | ["ens"; c] -> let (s', b) = st_ensure s (z_of_string c) ok in (s', "r=" ^ string_of_bool01 b, [])
  | _ -> (s, "r=?", [])

(* ---- linked list: the HEAP-level model (prev/next maps); the dump is produced by walking the
   pointers in both directions, as the C driver does ---- *)
let item (id, d) = sz id ^ ":" ^ sz d
let bw_ok fw bw = if bw = List.rev (List.map fst fw) then "ok" else "BAD"
let ll_dump s =
  let fw = hl_forward s in
  Printf.sprintf "sz=%s empty=%d fw=[%s] bw=%s first=%s last=%s" (sz s.hsize) (if hl_is_empty s then 1 else 0)
    (join item fw) (bw_ok fw (hl_backward s)) (opt_z (hl_first s)) (opt_z (hl_last s))

(* N = NULL, k = the k-th node (first, then k times next); None = invalid position *)
let ll_node s p =
  if p = "N" then Some None
  else
    let k = int_of_string p in
    if k < 0 || k >= int_of_z s.hsize then None else Some (hl_at s (z_of_int k))

let ll_line s ws ok cb =
  match ws with
  | ["ins"; p; d] ->
    (match ll_node s p with
     | None -> (s, "badpos", [])
     | Some node -> let (s', r) = hl_insert s node (z_of_string d) ok in (s', "r=" ^ opt_z r, []))
  | ["app"; p; d] ->
    (match ll_node s p with
     | None -> (s, "badpos", [])
     | Some node -> let (s', r) = hl_append s node (z_of_string d) ok in (s', "r=" ^ opt_z r, []))
  | ["rem"; p] ->
    (match ll_node s p with
     | Some (Some n) -> let ((s', r), f) = hl_remove s n cb in (s', "r=" ^ opt_z r, f)
     | _ -> (s, "badpos", []))
  | ["find"; p; d] ->
    (match ll_node s p with
     | None -> (s, "badpos", [])
     | Some node -> (s, "r=" ^ opt_z (hl_find cmp_key s node (z_of_string d)), []))
  | ["clear"] -> (match hl_clear s cb with Some (s', f) -> (s', "r=-", f) | None -> (s, "STUCK", []))
  | _ -> (s, "r=?", [])

(* ---- queue (heap level) ---- *)
let qu_dump s =
  let fw = hl_forward s in
  Printf.sprintf "sz=%s empty=%d fw=[%s] bw=%s front=%s" (sz s.hsize) (if hl_is_empty s then 1 else 0)
    (join item fw) (bw_ok fw (hl_backward s)) (match hq_front s with None -> "X" | Some x -> item x)

let qu_line s ws ok cb =
  match ws with
  | ["enq"; d] -> let (s', r) = hq_enqueue s (z_of_string d) ok in (s', "r=" ^ opt_z r, [])
  | ["deq"] -> let (s', f) = hq_dequeue s cb in (s', "r=-", f)
  | ["clear"] -> (match hq_clear s cb with Some (s', f) -> (s', "r=-", f) | None -> (s, "STUCK", []))
  | _ -> (s, "r=?", [])

(* ---- pointer slot (cursor part functional, head..tail list at heap level) ---- *)
let data_or_x d = if d = Z0 then "X" else sz d
let ps_dense = 4096
let ps_dump s =
  let cap = int_of_z s.hcore.pcap in
  let it = hps_iter s in
  let get i = match hps_get s (z_of_int i) with None -> "OOB" | Some d -> data_or_x d in
  let gets =
    if cap <= ps_dense then List.init (cap + 2) get
    else
      (* big slot: indices 0..15, every live index (iteration order), capacity-2 .. capacity+1, as i=value *)
      List.map (fun i -> string_of_int i ^ "=" ^ get i)
        (List.init 16 (fun i -> i) @ List.map (fun (sid, _) -> int_of_z sid) it @ List.init 4 (fun k -> cap - 2 + k)) in
  Printf.sprintf "cap=%d it=[%s] bw=%s get=[%s]" cap (join item it) (bw_ok it (hps_backward s)) (String.concat "," gets)

let pres_s = function POk -> "ok" | PFull -> "full" | PRange -> "range" | PDup -> "dup"

(* None = the model touched memory outside slots[] / pp_slots[] *)
let ps_line s ws =
  match ws with
  | ["ins"; d] ->
    (match hps_insert s (z_of_string d) with
     | None -> None
     | Some (s', (r, i)) -> Some (s', if r = POk then "r=ok:" ^ sz i else "r=" ^ pres_s r))
  | ["rem"; i] ->
    (match hps_remove s (u32 (z_of_string i)) with
     | None -> None
     | Some (s', r) -> Some (s', "r=" ^ pres_s r))
  | ["get"; i] ->
    (match hps_get s (u32 (z_of_string i)) with
     | None -> None
     | Some d -> Some (s, "r=" ^ data_or_x d))
  | _ -> Some (s, "r=?")

(* ---- protocol ---- *)
type st = NoC | AL of alist | ST of stack | LL of hlist | QU of hlist | PS of hpslot | Oob

(* the C driver refuses every malloc above 16 MiB; a pointer slot needs 32 + 8 bytes per (rounded) entry.
   The generator stays away from the boundary (requests <= 131072 or >= 2^24). *)
let ps_malloc_ok req = int_of_z req <= 524288

let handle (lines : string list) : unit =
  match lines with
  | [] -> ()
  | hd :: ops ->
    let (ws, ok, _) = split_flags (words hd) in
    let state =
      match ws with
      | ["al"; c] -> (match al_init (z_of_string c) ok with Some s -> print_endline ("init ok | " ^ al_dump s); AL s | None -> NoC)
      | ["st"; c] -> (match st_init (z_of_string c) ok with Some s -> print_endline ("init ok | " ^ st_dump s); ST s | None -> NoC)
      | ["ll"; c] -> (match hl_init (z_of_string c) ok with Some s -> print_endline ("init ok | " ^ ll_dump s); LL s | None -> NoC)
      | ["qu"; c] -> (match hq_init (z_of_string c) ok with Some s -> print_endline ("init ok | " ^ qu_dump s); QU s | None -> NoC)
      | "ps" :: c :: rest ->
        (match hps_init (u32 (z_of_string c)) (ok && ps_malloc_ok (u32 (z_of_string c))) with
         | Some s ->
           let s = (match rest with p :: _ when p <> "-" -> hps_preset s (z_of_string p) | _ -> s) in
           print_endline ("init ok | " ^ ps_dump s); PS s
         | None -> NoC)
      | _ -> print_endline "init ?"; Oob in
    (match state with NoC -> print_endline "init fail" | _ -> ());
    let state = ref state in
    (* destroy = clear + release of the storage: the callback (if any) gets every remaining non-NULL datum *)
    let destroy st cb =
      match st with
      | AL s -> Some (freed (snd (al_clear s cb)))
      | ST s -> Some (freed (snd (st_clear s cb)))
      | LL s -> Some (match hl_clear s cb with Some (_, f) -> freed f | None -> "STUCK")
      | QU s -> Some (match hq_clear s cb with Some (_, f) -> freed f | None -> "STUCK")
      | _ -> None in
    List.iter (fun l ->
      let (ws, ok, cb) = split_flags (words l) in
      match !state, ws with
      | (AL _ | ST _ | LL _ | QU _), ["destroy"] ->
        (match destroy !state cb with Some f -> print_endline ("r=- | destroyed | " ^ f) | None -> ());
        state := NoC
      | NoC, _ -> print_endline "nocontainer"
      | Oob, _ -> print_endline "OOB"
      | AL s, _ -> let (s', r, f) = al_line s ws ok cb in state := AL s';
        print_endline (r ^ " | " ^ al_dump s' ^ " | " ^ freed f)
      | ST s, _ -> let (s', r, f) = st_line s ws ok cb in state := ST s';
        print_endline (r ^ " | " ^ st_dump s' ^ " | " ^ freed f)
      | LL s, _ -> let (s', r, f) = ll_line s ws ok cb in state := LL s';
        print_endline (r ^ " | " ^ ll_dump s' ^ " | " ^ freed f)
      | QU s, _ -> let (s', r, f) = qu_line s ws ok cb in state := QU s';
        print_endline (r ^ " | " ^ qu_dump s' ^ " | " ^ freed f)
      | PS s, _ ->
        (match ps_line s ws with
         | None -> state := Oob; print_endline "OOB"
         | Some (s', r) -> state := PS s'; print_endline (r ^ " | " ^ ps_dump s'))) ops;
    (* end of the case: a container still alive is destroyed with the callback *)
    (match destroy !state true with Some f -> print_endline ("end " ^ f) | None -> ())

let () = run_cases handle
