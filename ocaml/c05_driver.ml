(* C05 model driver: replays the implementation's scheduler trace on the extracted models of the
   three pools (trace acceptance, ocaml/vsacc.ml.inc) and prints the model's own summary lines.
   Lines starting with "G " carry model-only ghost information (not compared).
   With an "explore <seed> <runs> <goal>" line the MODEL is explored by random schedules for a
   state in which a ghost monitor fires (goal = dups | uncov); the schedule found is printed
   both as model schedule and as "sched list" for the implementation driver. *)
let sc_params = { mo_ts_load_free = SeqCst; mo_ts_cas_alloc = SeqCst; mo_ts_store_free = SeqCst;
                  mo_spin_tas = SeqCst; mo_spin_clear = SeqCst; mo_sowr_load_free = SeqCst;
                  mo_sowr_store_free = SeqCst; mo_ring_load_inuse = SeqCst; mo_ring_store_inuse = SeqCst }
let mo_of_string = function
  | "Rlx" -> Rlx | "Con" -> Con | "Acq" -> Acq | "Rel" -> Rel | "AcqRel" -> AcqRel | "SeqCst" -> SeqCst | _ -> MoNone
let params_of = function
  | [a; b; c; d; e; f; g; h; i] ->
    { mo_ts_load_free = mo_of_string a; mo_ts_cas_alloc = mo_of_string b; mo_ts_store_free = mo_of_string c;
      mo_spin_tas = mo_of_string d; mo_spin_clear = mo_of_string e; mo_sowr_load_free = mo_of_string f;
      mo_sowr_store_free = mo_of_string g; mo_ring_load_inuse = mo_of_string h; mo_ring_store_inuse = mo_of_string i }
  | _ -> sc_params

let cell_id name =
  match name with
  | "alloc" -> 0 | "free" -> 1 | "lock" -> 2 | "op" -> 3 | "-" -> 0
  | _ ->
    (try Scanf.sscanf name "u%d+%d" (fun i off -> if off = 0 then 10 + i else 99) with _ -> 99)
let choice_of op _a _b c = if op = "casw" && c = 2 then 1 else 0
let blk s = if String.length s > 1 && s.[0] = 'b' then int_of_string (String.sub s 1 (String.length s - 1)) else -1
let note_of text =
  match words text with
  | ["a"] -> (1, 0)
  | ["r"; "NULL"; n] -> (4, int_of_string n)
  | ["r"; b] when blk b >= 0 -> (2, blk b)
  | ["r"; b; "DUP"] when blk b >= 0 -> (3, blk b)
  | ["f"; "skip"] -> (6, 0)
  | ["f"; b] when blk b >= 0 -> (5, blk b)
  | _ -> (99, 0)

let parse_script (s : string) : op list =
  List.filter_map (fun tok ->
    let tok = String.trim tok in
    if tok = "" || tok = "-" then None
    else
      let k = if String.length tok > 1 then int_of_string (String.sub tok 1 (String.length tok - 1)) else 0 in
      match tok.[0] with
      | 'a' -> Some OpAlloc
      | 'f' -> Some (OpFree (nat_of_int k))
      | 'o' -> Some (OpFreeOwn (nat_of_int k))
      | _ -> None) (String.split_on_char ',' s)

let rec upto n = if n <= 0 then [] else upto (n - 1) @ [n - 1]
let none_enabled step n st =
  List.for_all (fun t -> step st (nat_of_int t) O = None && step st (nat_of_int t) (S O) = None) (upto n)
let out_line (out : (nat * nat) list) =
  "F out" ^ String.concat "" (List.map (fun (b, o) -> Printf.sprintf " b%d:%d" (int_of_nat b) (int_of_nat o)) out)
let scripts_fun (arr : op list array) : nat -> op list =
  fun t -> let i = int_of_nat t in if i < Array.length arr then arr.(i) else []

let ts_summary st =
  let cap = int_of_nat (t_cap st) in
  Printf.printf "F ts cap=%d alloc=%d free=%d cached=%d out=%d dups=%d ptrs=%s\n" cap
    (int_of_nat (t_alloc st)) (int_of_nat (t_free st)) (int_of_nat (t_cached st))
    (List.length (t_out st)) (int_of_nat (t_dups st))
    (String.concat "," (List.map (fun i -> string_of_int (int_of_nat (t_ptrs st (nat_of_int i)))) (upto cap)));
  print_endline (out_line (t_out st));
  Printf.printf "G race=%b badnull=%d uncov=%d A=%d F=%d\n" (t_race st) (int_of_nat (t_badnull st))
    (int_of_nat (t_uncov st)) (int_of_nat (t_A st)) (int_of_nat (t_F st))
let sowr_summary cap st =
  Printf.printf "F sowr cap=%d alloc=%s free=%s cached=%s out=%d dups=%d\n" cap
    (string_of_z (s_alloc st)) (string_of_z (s_free st)) (string_of_z (s_cached st))
    (List.length (s_out st)) (int_of_nat (s_dups st));
  print_endline (out_line (s_out st));
  Printf.printf "G badnull=%d\n" (int_of_nat (s_badnull st))
let ring_summary cap st =
  Printf.printf "F ring cap=%d cursor=%d out=%d dups=%d inuse=%s\n" cap (int_of_nat (r_cursor st))
    (List.length (r_out st)) (int_of_nat (r_dups st))
    (String.concat "," (List.map (fun i -> string_of_int (int_of_nat (r_inuse st (nat_of_int i)))) (upto cap)));
  print_endline (out_line (r_out st))

(* random exploration of the model *)
let explore (type s) (step : s -> nat -> nat -> (s * label) option) (st0 : s) (n : int)
    (bad : s -> string option) (seed : int) (runs : int) (maxlen : int) : unit =
  Random.init seed;
  let found = ref false and r = ref 0 in
  while not !found && !r < runs do
    incr r;
    let st = ref st0 and sched = ref [] and k = ref 0 and cur = ref (Random.int n) in
    let stick = [| 20; 50; 80; 90 |].(Random.int 4) in
    while not !found && !k < maxlen do
      incr k;
      if Random.int 100 >= stick then cur := Random.int n;
      let t = !cur and c = if Random.int 8 = 0 then 1 else 0 in
      (match step !st (nat_of_int t) (nat_of_int c) with
       | Some (s', l) -> st := s'; sched := (t, c, l) :: !sched
       | None -> cur := Random.int n);
      (match bad !st with
       | Some why ->
         found := true;
         let sch = List.rev !sched in
         Printf.printf "FOUND %s\n" why;
         Printf.printf "modelsched %s\n" (String.concat " " (List.map (fun (t, c, _) -> Printf.sprintf "%d:%d" t c) sch));
         (* implementation schedule: one pick per model step except thread exits; spurious weak-CAS
            failures by their index among the weak CAS operations *)
         let casn = ref 0 and spur = ref [] in
         List.iter (fun (_, c, l) -> match l with
           | LEv e when e.e_op = OCasW -> (if c = 1 && int_of_z e.e_c = 2 then spur := !casn :: !spur); incr casn
           | _ -> ()) sch;
         Printf.printf "implsched list %s %s\n"
           (if !spur = [] then "-" else String.concat "" (List.rev_map (fun i -> string_of_int i ^ ",") !spur))
           (String.concat " " (List.filter_map (fun (t, _, l) -> match l with LExit -> None | _ -> Some (string_of_int t)) sch))
       | None -> ())
    done
  done;
  if not !found then print_endline "NOTFOUND"

let handle (lines : string list) : unit =
  let rec split acc = function
    | "TRACE" :: rest -> (List.rev acc, rest)
    | x :: rest -> split (x :: acc) rest
    | [] -> (List.rev acc, []) in
  let (cfg, trace) = split [] lines in
  let pool = ref [] and thr = ref [] and prm = ref sc_params and expl = ref None and dsize = ref 24 in
  List.iter (fun l -> match words l with
    | "pool" :: w -> pool := w
    | ["dsize"; d] -> dsize := int_of_string d
    | ["thr"; s] -> thr := parse_script s :: !thr
    | ["thr"] -> thr := [] :: !thr
    | "params" :: ps -> prm := params_of ps
    | ["explore"; sd; runs; goal] -> expl := Some (int_of_string sd, int_of_string runs, goal)
    | _ -> ()) cfg;
  let arr = Array.of_list (List.rev !thr) in
  let n = Array.length arr in
  let nn = nat_of_int n in
  let ok_cap c = c >= 0 && c <= 128 in
  (* block geometry as the model's init computes it (C05/Model.v section 4) *)
  let geom cap head bs =
    Printf.printf "F geom bs=%s head=%s dsize=%d slab=%s\n" (string_of_z bs) (string_of_z head) !dsize
      (string_of_z (slab_bytes (z_of_int cap) bs)) in
  let dz = z_of_int !dsize in
  if n <= 0 || n > 12 || !dsize < 1 || !dsize > 4096 then print_endline "F badcase" else
  match !pool with
  | "ts" :: c :: _ when ok_cap (int_of_string c) && ts_init_cap (nat_of_int (int_of_string c)) = None ->
    print_endline "F init refused"
  | "ts" :: c :: _ when ok_cap (int_of_string c) ->
    let cap = (match ts_init_cap (nat_of_int (int_of_string c)) with Some k -> k | None -> O) in
    let st0 = tinit cap nn (scripts_fun arr) in
    (match !expl with
     | Some (sd, runs, goal) ->
       explore (tstep !prm) st0 n (fun st ->
         if goal = "dups" && int_of_nat (t_dups st) > 0 then
           Some (Printf.sprintf "a block is handed out while still owned (model; race flag %b)" (t_race st))
         else if goal = "uncov" && int_of_nat (t_uncov st) > 0 then
           Some "an allocator reads a ptrs[] entry (or a freer writes one) without the last write to it being visible to the thread (view not covered)"
         else None) sd runs 600
     | None ->
       let step = tstep sc_params in
       let (st, ok) = accept_trace step st0 cell_id choice_of note_of (none_enabled step n) trace in
       if ok then (ts_summary st; geom (int_of_nat cap) head_ts (ts_block_size dz)))
  | ["sowr"; c; b] when ok_cap (int_of_string c) ->
    let capn = int_of_nat (match sowr_init_cap (nat_of_int (int_of_string c)) with Some k -> k | None -> O) in
    let base = z_of_string b in
    if Int64.rem (Int64.of_string ("0u" ^ b)) (Int64.of_int capn) <> 0L then print_endline "F badcase" else begin
      let st0 = sinit (z_of_int capn) base nn (scripts_fun arr) in
      let step = sstep sc_params in
      let (st, ok) = accept_trace step st0 cell_id choice_of note_of (none_enabled step n) trace in
      if ok then (sowr_summary capn st; geom capn head_sowr (sowr_block_size dz))
    end
  | ["ring"; c; l] when ok_cap (int_of_string c) ->
    let cap = (match ring_init_cap (nat_of_int (int_of_string c)) with Some k -> k | None -> O) in
    let st0 = rinit cap nn (l <> "0") (scripts_fun arr) in
    let step = rstep sc_params in
    let (st, ok) = accept_trace step st0 cell_id choice_of note_of (none_enabled step n) trace in
    if ok then (ring_summary (int_of_nat cap) st; geom (int_of_nat cap) head_ring (ring_block_size dz))
  | _ -> print_endline "F badcase"

let () = run_cases handle
