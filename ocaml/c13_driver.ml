(* C13 model driver: same script syntax as harness/drivers/c13_driver.c.  After the script the
   case may carry the implementation's kernel log ("LOG" then "B <backend>" / "K ..." lines, added
   by the plugin's model_cases): each logged kernel report is fed to the extracted model as the
   readiness oracle of that iteration.  Per iteration the driver prints
     K idle=<logged> in=<the MODEL's table handed to the kernel> out=<logged> n=<logged>
     Q idle=.. out=.. n=..      <- the MODEL's own kernel function (checked against the log)
   followed by the callbacks/actions the model's dispatch produced.  Without a log the model runs
   on its own kernel function.   Script additions: cfg ... timer=1 (a timer of interval 0: a tick after every pass), tphase / tdo <action>
   (timer phases), action reset Y (the peer resets the connection). *)
let nat = nat_of_int
let int = int_of_nat

let parse_action (ws : string list) : action option =
  let idok y = y >= 1 && y < 40 in
  try
    match ws with
    | "wake" :: _ -> Some AWake
    | "exit" :: _ -> Some AExit
    | "write" :: y :: k :: _ ->
      let y = int_of_string y and k = int_of_string k in
      if idok y && k >= 0 && k <= 4096 then Some (AWrite (nat y, nat k)) else None
    | "hclose" :: y :: _ -> let y = int_of_string y in if idok y then Some (AHclose (nat y)) else None
    | "pclose" :: y :: _ -> let y = int_of_string y in if idok y then Some (APclose (nat y)) else None
    | "add" :: y :: _ -> let y = int_of_string y in if idok y then Some (AAdd (nat y)) else None
    | "shut" :: y :: _ -> let y = int_of_string y in if idok y then Some (AShut (nat y)) else None
    | "reset" :: y :: _ -> let y = int_of_string y in if idok y then Some (AReset (nat y)) else None
    | _ -> None
  with _ -> None

let act_target = function
  | AWrite (y, _) | AHclose y | APclose y | AAdd y | AShut y | AReset y -> Some (int y)
  | AWake | AExit -> None

let str_action = function
  | AWrite (y, k) -> Printf.sprintf "write %d %d" (int y) (int k)
  | AHclose y -> Printf.sprintf "hclose %d" (int y)
  | APclose y -> Printf.sprintf "pclose %d" (int y)
  | AAdd y -> Printf.sprintf "add %d" (int y)
  | AShut y -> Printf.sprintf "shut %d" (int y)
  | AReset y -> Printf.sprintf "reset %d" (int y)
  | AWake -> "wake"
  | AExit -> "exit"

let str_ev = function
  | ERead (x, n) -> Printf.sprintf "r %d %d" (int x) (int n)
  | EClose x -> Printf.sprintf "c %d" (int x)
  | EWake -> "w"
  | EClear x -> Printf.sprintf "x %d" (int x)
  | EExit -> "e"
  | ETimer -> "t"
  | EAct (a, r) -> Printf.sprintf "a %s %s" (str_action a) (match int r with 0 -> "ok" | 1 -> "skip" | _ -> "rej")

let field (line : string) (key : string) : string =
  (* value of key=... up to the next blank *)
  let k = key ^ "=" in
  let n = String.length line and m = String.length k in
  let rec find i = if i + m > n then -1 else if String.sub line i m = k && (i = 0 || line.[i-1] = ' ') then i + m else find (i + 1) in
  let i = find 0 in
  if i < 0 then "" else
    let j = try String.index_from line i ' ' with Not_found -> n in
    String.sub line i (j - i)

let parse_rep (s : string) : (nat * nat) list =
  if s = "" then [] else
    List.filter_map (fun item ->
        match String.split_on_char ':' item with
        | [a; b] -> (try let a = int_of_string a and b = int_of_string b in if a < 0 then None else Some (nat a, nat b) with _ -> None)
        | _ -> None) (String.split_on_char ',' s)

let str_ids l = String.concat "," (List.map string_of_int l)
let str_rep l = String.concat "," (List.map (fun (x, e) -> Printf.sprintf "%d:%d" (int x) (int e)) l)

let handle (lines : string list) : unit =
  (* edge scenarios (NULL-callback matrix, refused registrations) are monitor-only: no model run *)
  if (match lines with l :: _ -> String.length l >= 4 && String.sub l 0 4 = "edge" | [] -> false) then print_endline "EDGE" else
  let hints = ref 8 in
  let kinds = ref [] and phases = ref [ [] ] (* reversed list of reversed phases *) and trigs = ref [] in
  let timer = ref false and tphases = ref [] (* reversed list of reversed timer phases *) in
  let logs : (string * string list ref) list ref = ref [] in
  let inlog = ref false in
  List.iter (fun l ->
      if !inlog then begin
        match words l with
        | "B" :: b :: _ -> logs := (b, ref []) :: !logs
        | "K" :: _ -> (match !logs with (_, r) :: _ -> r := l :: !r | [] -> ())
        | _ -> ()
      end else
        match words l with
        | "LOG" :: _ -> inlog := true
        | "cfg" :: _ -> (let h = field l "hints" in if h <> "" then (try hints := int_of_string h with _ -> ()));
                        if field l "timer" = "1" then timer := true
        | "tphase" :: _ -> tphases := [] :: !tphases
        | "tdo" :: rest ->
          (match parse_action rest with
           | Some a -> (match !tphases with p :: r -> tphases := (a :: p) :: r | [] -> tphases := [ [a] ])
           | None -> ())
        | "ctx" :: id :: k :: _ ->
          (try let id = int_of_string id in
             if id >= 1 && id < 40 then
               kinds := (id, (match k with "pipe" -> KPipe | "unix" -> KUnix | _ -> KTcp)) :: List.remove_assoc id !kinds
           with _ -> ())
        | "phase" :: _ -> phases := [] :: !phases
        | "do" :: rest ->
          (match parse_action rest with
           | Some a -> (match !phases with p :: r -> phases := (a :: p) :: r | [] -> ())
           | None -> ())
        | "on" :: c :: b :: rest ->
          (try let c = int_of_string c and b = int_of_string b in
             if c >= 1 && c < 40 && b >= 0 then
               match parse_action rest with
               | Some a -> trigs := (c, b, a) :: !trigs
               | None -> ()
           with _ -> ())
        | _ -> ()) lines;
  let declared y = List.mem_assoc y !kinds in
  let valid a = match act_target a with None -> true | Some y -> declared y in
  let phs = List.rev_map (fun p -> List.filter valid (List.rev p)) !phases in
  let tphs = List.rev_map (fun p -> List.filter valid (List.rev p)) !tphases in
  let tg = List.stable_sort (fun (_, b1, _) (_, b2, _) -> compare b1 b2) (List.rev !trigs) in
  let tg = List.filter (fun (_, _, a) -> valid a) tg in
  let sc = { s_hints = nat (if !hints < 0 then 0 else !hints);
             s_kinds = List.map (fun (i, k) -> (nat i, k)) !kinds;
             s_phases = phs;
             s_trigs = List.map (fun (c, b, a) -> { tctx = nat c; tbytes = nat b; tact = a }) tg;
             s_timer = !timer; s_tphases = tphs } in
  let ids = List.sort compare (List.map fst !kinds) in
  let logs = List.rev !logs in
  List.iter (fun (bname, b) ->
      Printf.printf "B %s\n" bname;
      let s = ref (start b sc) in
      let printed = ref 0 in
      let flush_tr () =
        let t = List.rev !s.tr in
        List.iteri (fun i e -> if i >= !printed then print_endline (str_ev e)) t;
        printed := List.length t in
      flush_tr ();
      let in_str st =
        let l = List.map int (in_tbl st) in
        str_ids (match b with BPoll -> l | _ -> List.sort compare l) in
      let q_str (o : oent) =
        let r = match b with
          | BSelect -> List.sort (fun (a, _) (c, _) -> compare (int a) (int c)) o.orep
          | _ -> o.orep in
        Printf.sprintf "Q idle=%d out=%s n=%d" (if o.oidle then 1 else 0) (str_rep r) (int o.on) in
      let finished = ref false in
      let step (o : oent) (kline : string option) =
        (match kline with
         | Some kl -> Printf.printf "K idle=%s in=%s out=%s n=%s\n" (field kl "idle") (in_str !s) (field kl "out") (field kl "n")
         | None -> Printf.printf "K idle=%d in=%s out=%s n=%d\n" (if o.oidle then 1 else 0) (in_str !s)
                     (str_rep (match b with BSelect -> List.sort (fun (a, _) (c, _) -> compare (int a) (int c)) o.orep | _ -> o.orep)) (int o.on));
        print_endline (q_str (kern_o !s));
        s := iter o !s;
        flush_tr ();
        if !s.toexit then begin s := finish !s; flush_tr (); finished := true end in
      (match List.assoc_opt bname logs with
       | Some ks ->
         List.iter (fun kl ->
             if not !finished then begin
               if kl = "K stuck" then print_endline "K stuck"
               else
                 let nn = (try int_of_string (field kl "n") with _ -> 0) in
                 let o = { oidle = (field kl "idle" = "1"); orep = parse_rep (field kl "out"); on = nat (max nn 0) } in
                 step o (Some kl)
             end) (List.rev !ks)
       | None ->
         let fuel = ref 400 in
         while not !finished && !fuel > 0 do
           decr fuel;
           step (kern_o !s) None
         done);
      if not !finished then print_endline "NOEXIT";
      let t = !s.tr in
      List.iter (fun y ->
          let c = !s.cx (nat y) in
          let cc = List.length (List.filter (fun e -> e = EClose (nat y)) t)
          and xc = List.length (List.filter (fun e -> e = EClear (nat y)) t) in
          let en = if cc > 0 then "closed" else if xc > 0 then "cleared" else if not c.cadded then "unreg"
            else if not c.cregok then "rej" else "lost" in
          Printf.printf "F %d off=%d end=%s cc=%d xc=%d\n" y (int c.coff) en cc xc) ids)
    [ ("select", BSelect); ("poll", BPoll); ("epoll", BEpoll) ]

let () = run_cases handle
