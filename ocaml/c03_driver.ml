(* C03 model driver: replays the implementation's scheduler trace on the extracted sleep/wake
   models (trace acceptance) and prints the model's own summary line.  Scenario -> model:
   chanf/chanm with writer lock mutex|single -> (a)/(b) fstep/mstep; with spin|sync, and chanb (busy reader,
   any writer lock) -> (g) kstep (C03/ModelK.v); ring -> gstep (busy-loop readers: bstep, C03/ModelRB.v); abq -> qstep; dbuf / dbufn (non-blocking) -> dstep; slock -> C04 lstep.  The acceptor is the one
   of ocaml/vsacc.ml.inc extended with the harness line "W <tid> cvspur" (spurious condition-
   variable wake-up), which is the model step (tid, choice 1) with label cvwoke a=1.
   With a line "explore <seed> <runs> <window>" instead of TRACE the driver explores the MODEL and
   prints schedules (spur-token + thread list of "sched list ...") that park a sleeper between its
   check and its sleep and run the waker in between, and that let some would-block futex waits
   return early (interrupted / spurious wake-up). *)
let c04params = { mo_spin_tas = SeqCst; mo_spin_clear = SeqCst; mo_sync_cas = SeqCst; mo_sync_store = SeqCst;
                  mo_once_cas = SeqCst; mo_once_store = SeqCst; mo_once_load = SeqCst; mo_ref_cas = SeqCst }

let note_of text =
  match words text with
  | "read" :: _ -> (10, 0) | "wrote" :: _ -> (11, 0) | ["full"] -> (12, 0)
  | "took" :: _ -> (13, 0) | "put" :: _ -> (14, 0) | ["got"; v] -> (15, int_of_string v)
  | ["enter"] -> (1, 0) | ["enter"; "OVERLAP"] -> (2, 0) | ["exit"] -> (3, 0)
  | _ -> (99, 0)

(* schedule choice derived from a logged event: cvsig names the woken waiter; a weak CAS that
   failed spuriously is choice 1 *)
let choice_of op _a b c =
  if op = "cvsig" then (if b >= 0 then b + 1 else 0)
  else if op = "casw" && c = 2 then 1
  else if op = "fwait" && (c = 2 || c = 3) then c     (* interrupted / spurious futex return *)
  else 0

let rec upto n = if n <= 0 then [] else upto (n - 1) @ [n - 1]

let accept_trace_w (step : 's -> nat -> nat -> ('s * label) option) (st0 : 's)
    (cell_id : string -> int) (all_blocked : 's -> bool) (lines : string list) : 's * bool =
  let st = ref st0 and ok = ref true in
  let pend : (int, (int * int) list) Hashtbl.t = Hashtbl.create 8 in
  let reject l why = Printf.printf "REJECT %s :: %s\n" l why; ok := false in
  List.iter (fun l ->
    if !ok then begin
      match words l with
      | "E" :: t :: op :: cell :: _mo :: a :: b :: c :: _ ->
        let ti = int_of_string t and ai = int_of_string a and bi = int_of_string b and ci = int_of_string c in
        (match step !st (nat_of_int ti) (nat_of_int (choice_of op ai bi ci)) with
         | Some (s', LEv e) ->
           if e.e_op = opk_of_string op && int_of_nat e.e_cell = cell_id cell
              && int_of_z e.e_a = ai && int_of_z e.e_b = bi && int_of_z e.e_c = ci
           then (st := s'; print_endline l)
           else reject l (Printf.sprintf "model performs %s cell=%d %s %s %s" (string_of_opk e.e_op)
                            (int_of_nat e.e_cell) (string_of_z e.e_a) (string_of_z e.e_b) (string_of_z e.e_c))
         | Some (_, LPlain _) -> reject l "model is in a plain segment"
         | Some (_, LExit) -> reject l "model thread is at exit"
         | None -> reject l "model thread is not enabled")
      | "R" :: t :: _ ->
        let ti = int_of_string t in
        let text = String.concat " " (List.tl (List.tl (words l))) in
        let cur = try Hashtbl.find pend ti with Not_found -> [] in
        Hashtbl.replace pend ti (cur @ [note_of text]); print_endline l
      | ["P"; t] ->
        let ti = int_of_string t in
        let notes = try Hashtbl.find pend ti with Not_found -> [] in
        Hashtbl.replace pend ti [];
        (match step !st (nat_of_int ti) O with
         | Some (s', LPlain ns) ->
           let ns' = List.map (fun (k, v) -> (int_of_nat k, int_of_z v)) ns in
           if ns' = notes then (st := s'; print_endline l)
           else reject l (Printf.sprintf "model notes [%s] vs logged [%s]"
                            (String.concat ";" (List.map (fun (k, v) -> Printf.sprintf "%d:%d" k v) ns'))
                            (String.concat ";" (List.map (fun (k, v) -> Printf.sprintf "%d:%d" k v) notes)))
         | Some (_, LEv e) -> reject l ("model is at operation " ^ string_of_opk e.e_op)
         | Some (_, LExit) -> reject l "model thread is at exit"
         | None -> reject l "model thread is not enabled")
      | ["X"; t] ->
        (match step !st (nat_of_int (int_of_string t)) O with
         | Some (s', LExit) -> st := s'; print_endline l
         | _ -> reject l "model thread is not at exit")
      | ["W"; t; "cvspur"] ->
        (match step !st (nat_of_int (int_of_string t)) (S O) with
         | Some (s', LEv e) when e.e_op = OCvwoke && int_of_z e.e_a = 1 -> st := s'; print_endline l
         | _ -> reject l "model thread is not asleep on a condition variable")
      | "DEADLOCK" :: _ ->
        if all_blocked !st then print_endline l else reject l "model has an enabled thread"
      | "LIVELOCK" :: _ -> print_endline l
      | _ -> ()
    end) lines;
  (!st, !ok)

(* ---------------------------------------------------------------- scenario parsing *)
let split_rw ws =
  let rec go mode r w = function
    | [] -> (List.rev r, List.rev w)
    | "R" :: tl -> go 1 r w tl
    | "W" :: tl -> go 2 r w tl
    | x :: tl -> if mode = 1 then go mode (int_of_string x :: r) w tl else go mode r (int_of_string x :: w) tl in
  go 0 [] [] ws
let nth_or0 l i = try List.nth l i with _ -> 0
let rec next_pow2 c k = if k >= c then k else next_pow2 c (2 * k)

(* packs a model as (step, initial state, #threads, cell names, all-done test, summary) *)
type packed = Pk : ('s -> nat -> nat -> ('s * label) option) * 's * int * (string -> int)
                   * ('s -> int -> bool) * ('s -> string) * ('s -> int -> string) -> packed

let build (scen : string list) : packed option =
  match scen with
  | ("chanf" | "chanm" | "chanb" as kind) :: cap :: ("single" | "mutex" | "spin" | "sync" as wl) :: rest
    when kind = "chanb" || wl = "spin" || wl = "sync" ->
    (* model (g), C03/ModelK.v: every writer-lock kind x every reader mode; used for the lock-word writer
       locks and for the busy reader (WRITE_MUTEX / WRITE_SINGLE with a sleeping reader stay on (a) / (b)) *)
    let (r, w) = split_rw rest in
    let n = 1 + List.length w and capz = z_of_int (next_pow2 (int_of_string cap) 1) in
    let rm = (match kind with "chanf" -> KRSync | "chanm" -> KRMutex | _ -> KRBusy) in
    let lk = (match wl with "single" -> KLSingle | "mutex" -> KLMutex | "spin" -> KLSpin | _ -> KLSync) in
    let st0 = kinit (nat_of_int n) capz rm lk (nat_of_int (nth_or0 r 0)) (fun i -> nat_of_int (nth_or0 w (int_of_nat i))) in
    Some (Pk (kstep, st0, n,
              (function "wcur" -> 0 | "rcur" -> 1 | "wl" | "wm" -> 2 | "rm" -> 3 | "rcv" -> 4 | "-" -> 0 | _ -> 99),
              (fun s t -> (k_thr s (nat_of_int t)).k_pc = KDone),
              (fun s -> Printf.sprintf "wcur=%s rcur=%s" (string_of_z (k_wcur s)) (string_of_z (k_rcur s))),
              (fun s t -> let x = k_thr s (nat_of_int t) in
                 match x.k_pc with
                 | KRLoad -> "rload" | KRChk | KMChk | KWFail -> "rchk" | KRWait | KMWait | KWLWait -> "rwait"
                 | KRBlocked | KMAsleep | KWLBlocked -> "rblocked" | KMWoken -> "rwoken"
                 | KWStore | KWRmChk -> if int_of_nat x.k_k = 1 then "wstore1" else "wstore"
                 | KWRmUnlock | KWRet | KWRel | KWRelSeg | KWLWake | KWOut | KWWake -> "wpending"
                 | KDone -> "done" | _ -> "other")))
  | "chanf" :: cap :: wl :: rest ->
    let (r, w) = split_rw rest in
    let n = 1 + List.length w and capz = z_of_int (next_pow2 (int_of_string cap) 1) in
    let st0 = finit (nat_of_int n) capz (wl <> "single") (nat_of_int (nth_or0 r 0)) (fun i -> nat_of_int (nth_or0 w (int_of_nat i))) in
    Some (Pk (fstep, st0, n,
              (function "wcur" -> 0 | "rcur" -> 1 | "wm" -> 2 | "-" -> 0 | _ -> 99),
              (fun s t -> (f_thr s (nat_of_int t)).f_pc = FDone),
              (fun s -> Printf.sprintf "wcur=%s rcur=%s" (string_of_z (f_wcur s)) (string_of_z (f_rcur s))),
              (fun s t -> match (f_thr s (nat_of_int t)).f_pc with
                 | FRLoad -> "rload" | FRChk -> "rchk" | FRWait -> "rwait" | FRBlocked -> "rblocked"
                 | FWStore -> if int_of_nat (f_thr s (nat_of_int t)).f_k = 1 then "wstore1" else "wstore" | FWSeg3 | FWUnlock | FWSeg4 | FWWake -> "wpending" | FDone -> "done" | _ -> "other")))
  | "chanm" :: cap :: wl :: rest ->
    let (r, w) = split_rw rest in
    let n = 1 + List.length w and capz = z_of_int (next_pow2 (int_of_string cap) 1) in
    let st0 = minit (nat_of_int n) capz (wl <> "single") (nat_of_int (nth_or0 r 0)) (fun i -> nat_of_int (nth_or0 w (int_of_nat i))) in
    Some (Pk (mstep, st0, n,
              (function "wm" -> 2 | "rm" -> 3 | "rcv" -> 4 | "-" -> 0 | _ -> 99),
              (fun s t -> (m_thr s (nat_of_int t)).m_pc = MDone),
              (fun s -> Printf.sprintf "wcur=%s rcur=%s" (string_of_z (m_wcur s)) (string_of_z (m_rcur s))),
              (fun s t -> match (m_thr s (nat_of_int t)).m_pc with
                 | MRChk -> "rchk" | MRWait -> "rwait" | MRAsleep -> "rblocked" | MRWoken -> "rwoken"
                 | MWChk -> "wstore" | MWUnlockR | MWSeg2 | MWUnlockW | MWSeg3 | MWSig -> "wpending" | MDone -> "done" | _ -> "other")))
  | "ring" :: "busy" :: cap :: wl :: rest ->
    (* busy-loop readers: model (h), C03/ModelRB.v *)
    let (r, w) = split_rw rest in
    let nr = List.length r in
    let n = nr + List.length w and capz = z_of_int (next_pow2 (int_of_string cap) 1) in
    let ks i = let i = int_of_nat i in nat_of_int (if i < nr then nth_or0 r i else nth_or0 w (i - nr)) in
    let st0 = binit (nat_of_int n) (nat_of_int nr) capz (wl <> "single") ks in
    Some (Pk (bstep, st0, n,
              (function "cursor" -> 0 | "spin" -> 1 | "-" -> 0 | _ -> 99),
              (fun s t -> (b_thr s (nat_of_int t)).b_pc = BDone),
              (fun s -> Printf.sprintf "cursor=%s" (string_of_z (b_cursor s))),
              (fun s t -> match (b_thr s (nat_of_int t)).b_pc with
                 | BRLoad -> "rload" | BRChk -> "rchk"
                 | BWStore -> if int_of_nat (b_thr s (nat_of_int t)).b_k = 1 then "wstore1" else "wstore"
                 | BWSeg2 | BWClear -> "wpending" | BDone -> "done" | _ -> "other")))
  | "ring" :: md :: cap :: wl :: rest ->
    let (r, w) = split_rw rest in
    let nr = List.length r in
    let n = nr + List.length w and capz = z_of_int (next_pow2 (int_of_string cap) 1) in
    let ks i = let i = int_of_nat i in nat_of_int (if i < nr then nth_or0 r i else nth_or0 w (i - nr)) in
    let mode = (match md with "single" -> GMSingle | "once" -> GMOnce | _ -> GMWait) in
    let st0 = ginit (nat_of_int n) (nat_of_int nr) capz mode (wl <> "single") ks in
    Some (Pk (gstep, st0, n,
              (function "cursor" -> 0 | "spin" -> 1 | "rm" -> 2 | "-" -> 0 | _ -> 99),
              (fun s t -> (g_thr s (nat_of_int t)).g_pc = GDone),
              (fun s -> Printf.sprintf "cursor=%s" (string_of_z (g_cursor s))),
              (fun s t -> match (g_thr s (nat_of_int t)).g_pc with
                 | GRLoad -> "rload" | GRChk -> "rchk" | GRWait -> "rwait" | GRBlocked -> "rblocked"
                 | GWStore -> if int_of_nat (g_thr s (nat_of_int t)).g_k = 1 then "wstore1" else "wstore" | GWSeg2 | GWClear | GWSeg3 | GWWake -> "wpending" | GDone -> "done" | _ -> "other")))
  | "abq" :: cap :: rest ->
    let (r, w) = split_rw rest in
    let nc = List.length r in
    let n = nc + List.length w in
    let ks i = let i = int_of_nat i in nat_of_int (if i < nc then nth_or0 r i else nth_or0 w (i - nc)) in
    let st0 = qinit (nat_of_int n) (nat_of_int nc) (z_of_int (int_of_string cap)) ks in
    Some (Pk (qstep, st0, n,
              (function "m" -> 0 | "ne" -> 1 | "nf" -> 2 | _ -> 99),
              (fun s t -> (q_thr s (nat_of_int t)).q_pc = QDone),
              (fun s -> Printf.sprintf "cnt=%s" (string_of_z (q_cnt s))),
              (fun s t -> match (q_thr s (nat_of_int t)).q_pc with
                 | QPChk | QCChk -> "rchk" | QPWait | QCWait -> "rwait" | QPAsleep | QCAsleep -> "rblocked"
                 | QPSig | QCSig -> "wpending" | QDone -> "done" | _ -> "other")))
  | ("dbuf" | "dbufn" as md) :: cap :: rest ->
    let (r, w) = split_rw rest in
    let n = 1 + List.length w in
    let st0 = dinit (nat_of_int n) (z_of_int (int_of_string cap)) (md = "dbufn") (nat_of_int (nth_or0 r 0)) (fun i -> nat_of_int (nth_or0 w (int_of_nat i))) in
    Some (Pk (dstep, st0, n,
              (function "m" -> 0 | "ne" -> 1 | "nf" -> 2 | "-" -> 0 | _ -> 99),
              (fun s t -> (d_thr s (nat_of_int t)).d_pc = DDone),
              (fun s -> Printf.sprintf "back=%s" (string_of_z (d_back s))),
              (fun s t -> match (d_thr s (nat_of_int t)).d_pc with
                 | DRChk | DWChk -> "rchk" | DRWait | DWWait -> "rwait" | DRAsleep | DWAsleep -> "rblocked"
                 | DRSig | DWSig -> "wpending" | DDone -> "done" | _ -> "other")))
  | ["slock"; n; it] ->
    let n = int_of_string n in
    let st0 = linit KSync (nat_of_int n) (nat_of_int (int_of_string it)) in
    Some (Pk (lstep c04params true, st0, n,
              (function "lock" -> 0 | "cs" -> 1 | "-" -> 0 | _ -> 99),
              (fun s t -> (l_thr s (nat_of_int t)).l_pc = LDone),
              (fun s -> Printf.sprintf "counter=%s overlaps=%d" (string_of_z (l_counter s)) (int_of_nat (l_overlaps s))),
              (fun s t -> match (l_thr s (nat_of_int t)).l_pc with
                 | LAcq -> "rload" | LAfterFail -> "rchk" | LWait -> "rwait" | LBlocked -> "rblocked"
                 | LRel -> "wstore" | LRelSeg | LWake -> "wpending" | LDone -> "done" | _ -> "other")))
  | _ -> None

(* ---------------------------------------------------------------- model-guided schedules *)
(* Random walks of the MODEL that, whenever a consumer-side thread sits between its emptiness /
   fullness check and its sleep ("rchk"/"rwait": check done, sleep not yet executed), prefer to
   run the other threads up to [window] steps (so that the state change and the wake-up call fall
   into that window) before letting the sleeper continue.  Printed: the thread list of every
   executed step (one entry per model step = one scheduling decision of the harness). *)
(* Backlog schedules (window = 100 + T, channel scenarios: thread 0 is the consumer, cell 0 the write
   cursor, cell 1 the read cursor): the producers run alone until T messages are published and unread;
   a producer is then parked right after its load of the read cursor (it now holds a copy that says
   "backlog >= T"); everybody else runs until nobody can move -- the consumer drains the whole backlog and
   goes to sleep inside the producer's load-to-wake window; then the parked producer publishes and must
   wake it.  A writer that decides from its stale copy that the consumer cannot be asleep is caught here. *)
let explore_backlog (Pk (step, st0, n, _, _, _, cls)) seed runs threshold =
  Random.init seed;
  for _r = 1 to runs do
    let st = ref st0 and sched = ref [] and k = ref 0 in
    let published = ref 0 and consumed = ref 0 in
    let enabled s t = step s (nat_of_int t) O <> None in
    let run1 t =
      (match step !st (nat_of_int t) O with
       | Some (s', LExit) -> st := s'
       | Some (s', LEv e) ->
         if e.e_op = OStore && int_of_nat e.e_cell = 0 then incr published;
         if e.e_op = OStore && int_of_nat e.e_cell = 1 then incr consumed;
         st := s'; sched := t :: !sched
       | Some (s', _) -> st := s'; sched := t :: !sched
       | None -> ()) in
    let pick l = List.nth l (Random.int (List.length l)) in
    let victim = ref (-1) and phase = ref 0 and stop = ref false in
    while not !stop && !k < 6000 do
      incr k;
      let en = List.filter (enabled !st) (upto n) in
      if en = [] then stop := true else begin
        let prods = List.filter (fun t -> t <> 0) en in
        (match !phase with
         | 0 ->
           (* build the backlog; the consumer gets an occasional step so that it is somewhere in its loop *)
           if !published - !consumed >= threshold || prods = [] then phase := 1
           else run1 (if Random.int 12 = 0 then pick en else pick prods)
         | 1 ->
           let at_store = List.filter (fun t -> let c = cls !st t in c = "wstore" || c = "wstore1") prods in
           if at_store <> [] then (victim := pick at_store; phase := 2)
           else if prods = [] then phase := 3
           else run1 (pick prods)
         | 2 ->
           let others = List.filter (fun t -> t <> !victim) en in
           if others = [] then phase := 3 else run1 (pick others)
         | _ -> run1 (pick en))
      end
    done;
    Printf.printf "modelsched - %s\n" (String.concat " " (List.rev_map string_of_int !sched))
  done

(* Throttled schedules for WRAPPING rings (window = 200; ring scenarios whose writers write more
   messages than the ring has slots): the ring has no back-pressure, the documented usage is that
   writers never lap a reader.  The schedule plays the client's throttle: a writer may BEGIN its next
   write only while (messages written + writes in flight) - (progress of the slowest unfinished reader;
   read-once: messages consumed by all readers together) <= capacity - 2, so that the cursor never
   comes round to a reader's position and no unread slot is overwritten.  Everything else is a
   random walk with short bursts; readers do run dry and go to sleep, and are woken. *)
let explore_throttled (Pk (step, st0, n, _, _, _, _)) seed runs nr cap once =
  Random.init seed;
  for _r = 1 to runs do
    let st = ref st0 and sched = ref [] and k = ref 0 in
    let written = ref 0 in
    let reads = Array.make n 0 and fin = Array.make n false in
    let idle = Array.make n true and stored = Array.make n false in
    let enabled s t = step s (nat_of_int t) O <> None in
    let minprog () =
      if once then Some (Array.fold_left (+) 0 reads)
      else begin
        let m = ref None in
        for t = 0 to nr - 1 do
          if not fin.(t) then m := (match !m with None -> Some reads.(t) | Some v -> Some (min v reads.(t)))
        done; !m
      end in
    let inflight () = let c = ref 0 in for t = nr to n - 1 do if (not idle.(t)) && not stored.(t) then incr c done; !c in
    let allowed t =
      if t < nr || not idle.(t) then true
      else (match minprog () with None -> true | Some p -> !written + inflight () - p <= cap - 2) in
    let run1 t =
      (match step !st (nat_of_int t) O with
       | Some (s', lab) ->
         (match lab with
          | LExit -> fin.(t) <- true
          | LEv e ->
            sched := t :: !sched;
            if t >= nr then begin
              idle.(t) <- false;
              if e.e_op = OStore && int_of_nat e.e_cell = 0 then (incr written; stored.(t) <- true);
              if e.e_op = OFwake then (idle.(t) <- true; stored.(t) <- false);
              (* busy-loop rings have no wake call: the iteration ends with the clear (lock) / the store (single) *)
              if e.e_op = OClear then (idle.(t) <- true; stored.(t) <- false)
            end
          | LPlain ns ->
            sched := t :: !sched;
            if t >= nr then idle.(t) <- (idle.(t) && true);
            List.iter (fun (c, _) -> if int_of_nat c = 10 then reads.(t) <- reads.(t) + 1) ns);
         st := s'
       | None -> ()) in
    let stop = ref false and cur = ref (-1) and burst = ref 0 in
    while not !stop && !k < 8000 do
      incr k;
      let en = List.filter (fun t -> enabled !st t && allowed t) (upto n) in
      if en = [] then stop := true else begin
        if !burst > 0 && List.mem !cur en then decr burst
        else (cur := List.nth en (Random.int (List.length en)); burst := Random.int 6);
        run1 !cur
      end
    done;
    (* only complete runs are used: once the list is exhausted the harness falls back to round robin, which
       does not throttle *)
    if List.for_all (fun t -> not (enabled !st t)) (upto n) && Array.for_all (fun b -> b) (Array.init n (fun t -> fin.(t))) then
      Printf.printf "modelsched - %s\n" (String.concat " " (List.rev_map string_of_int !sched))
  done

let explore (Pk (step, st0, n, _, is_done, _, cls) as pk0) seed runs window =
  if window >= 100 then explore_backlog pk0 seed runs (window - 100) else begin
  Random.init seed;
  for _r = 1 to runs do
    let st = ref st0 and sched = ref [] and k = ref 0 and parked = ref (-1) and left = ref 0 in
    let fcount = ref 0 and ftok = ref [] in
    (* one run in three does not park anybody, so that sleepers do reach futex waits that would
       block -- those are the waits that can be made to return early *)
    let nopark = Random.int 3 = 0 in
    (* another run in three parks a PRODUCER between its check (it has loaded the consumer's cursor /
       count) and its store, lets the producers run ahead first so that a backlog builds up, and then
       runs everybody else until nobody can move: the consumer drains the backlog and goes to sleep
       inside the producer's check-to-store window *)
    let wpark = (not nopark) && Random.int 2 = 0 in
    let wvictim = ref (-1) and wdone = ref false in
    let enabled s t = step s (nat_of_int t) O <> None in
    let stop = ref false in
    while not !stop && !k < 3000 do
      incr k;
      let en = List.filter (enabled !st) (upto n) in
      if en = [] then stop := true else begin
        (* look for a thread to park *)
        if wpark && not !wdone && !wvictim < 0 then begin
          (* prefer the producer's LAST store (nothing after it will make up for a missing wake-up) *)
          let last = List.filter (fun t -> cls !st t = "wstore1") en in
          let cands = List.filter (fun t -> cls !st t = "wstore") en in
          if last <> [] && Random.int 4 > 0 then wvictim := List.nth last (Random.int (List.length last))
          else if cands <> [] && Random.int 8 = 0 then wvictim := List.nth cands (Random.int (List.length cands))
        end;
        if !parked < 0 && not nopark && not wpark then begin
          let cands = List.filter (fun t -> let c = cls !st t in c = "rwait" || c = "rchk") en in
          if cands <> [] && Random.int 3 > 0 then (parked := List.nth cands (Random.int (List.length cands)); left := window)
        end;
        let is_consumer t = (let c = cls !st t in c = "rload" || c = "rchk" || c = "rwait") in
        let pool =
          if wpark && not !wdone && !wvictim >= 0 then begin
            (* everybody but the parked producer, until nobody else can move *)
            let others = List.filter (fun t -> t <> !wvictim) en in
            if others = [] then (wdone := true; en) else others
          end else if wpark && not !wdone then begin
            (* before parking: let the producers run ahead of the consumers *)
            let prods = List.filter (fun t -> not (is_consumer t)) en in
            if prods <> [] && Random.int 10 > 0 then prods else en
          end else
          if !parked >= 0 && !left > 0 then begin
            let others = List.filter (fun t -> t <> !parked) en in
            decr left;
            if others = [] then (parked := -1; en) else others
          end else (parked := -1; en) in
        (* prefer threads that are about to store / wake while somebody is parked *)
        let pref = if !parked >= 0 then List.filter (fun t -> let c = cls !st t in c = "wstore" || c = "wstore1" || c = "wpending") pool else [] in
        let pool = if pref <> [] && Random.int 4 > 0 then pref else pool in
        let t = List.nth pool (Random.int (List.length pool)) in
        (* the harness prints a thread's last "P" and its "X" under ONE scheduling decision *)
        (match step !st (nat_of_int t) O with
         | Some (s', LExit) -> st := s'
         | Some (s', LEv e) when e.e_op = OFwait && int_of_z e.e_c = 1 ->
           (* a futex wait that would block: sometimes let it return early instead (interrupted =
              "f<k>", spurious wake-up = "w<k>", k = index among the would-block waits) *)
           let k = !fcount in
           incr fcount;
           let alt = if (if nopark then Random.int 3 > 0 else Random.int 3 = 0) then (if Random.bool () then 2 else 3) else 0 in
           (match (if alt = 0 then None else step !st (nat_of_int t) (nat_of_int alt)) with
            | Some (s2, LEv e2) when e2.e_op = OFwait && int_of_z e2.e_c = alt ->
              st := s2; sched := t :: !sched;
              ftok := (Printf.sprintf "%s%d" (if alt = 2 then "f" else "w") k) :: !ftok
            | _ -> st := s'; sched := t :: !sched)
         | Some (s', _) -> st := s'; sched := t :: !sched
         | None -> ())
      end
    done;
    Printf.printf "modelsched %s %s\n" (if !ftok = [] then "-" else String.concat "," (List.rev !ftok))
      (String.concat " " (List.rev_map string_of_int !sched))
  done
  end

(* kfutex: the real-kernel run of sync_obj_futex.c against the semantics the scheduler and the models
   implement (C03/Futex.v: sched_wait = compare-and-block, sched_wake_one, sched_wake_all); only counts are
   printed (which sleeper a wake picks is the kernel's choice).  A run the harness could not observe
   ("K inconclusive ...") is echoed: it is a harness error, not a divergence. *)
let kfutex_model (toks : string list) (impl : string list) : unit =
  if List.exists (fun l -> String.length l >= 14 && String.sub l 0 14 = "K inconclusive") impl then
    List.iter print_endline impl
  else begin
    let word = ref 0 and asleep = ref (nat_of_int 0) in
    let num s = int_of_string (String.sub s 1 (String.length s - 1)) in
    List.iter (fun tk ->
      if tk = "w1" || tk = "wa" then begin
        let (a', woke) = if tk = "w1" then sched_wake_one !asleep else sched_wake_all !asleep in
        asleep := a';
        Printf.printf "K %s woke=%d resumed=%d\n" tk (int_of_nat woke) (int_of_nat woke)
      end else if tk <> "" && tk.[0] = 's' then begin
        let v = num tk in
        let (a', blocked) = sched_wait !asleep (z_of_int !word) (z_of_int v) in
        asleep := a';
        if blocked then Printf.printf "K s val=%d word=%d asleep\n" v !word
        else Printf.printf "K s val=%d word=%d returned rc=-1 errno=11\n" v !word
      end else if tk <> "" && tk.[0] = 'v' then begin
        word := num tk; Printf.printf "K v word=%d\n" !word
      end) toks;
    Printf.printf "K end asleep=%d\n" (int_of_nat !asleep);
    print_endline "F status=0 kfutex"
  end

let handle (lines : string list) : unit =
  let rec split acc = function
    | "TRACE" :: rest -> (List.rev acc, rest)
    | x :: rest -> split (x :: acc) rest
    | [] -> (List.rev acc, []) in
  let (cfg, trace) = split [] lines in
  match List.filter (fun l -> match words l with "kfutex" :: _ -> true | _ -> false) cfg with
  | l :: _ -> kfutex_model (List.tl (words l)) trace
  | [] ->
  let scen = ref [] and expl = ref None in
  List.iter (fun l -> match words l with
    | ("chanf" | "chanm" | "chanb" | "ring" | "abq" | "dbuf" | "dbufn" | "slock") :: _ as w -> scen := w
    | ["explore"; sd; runs; win] -> expl := Some (int_of_string sd, int_of_string runs, int_of_string win)
    | _ -> ()) cfg;
  match build !scen with
  | None -> print_endline "F badcase"
  | Some (Pk (step, st0, n, cell_id, is_done, summary, _) as pk) ->
    match !expl with
    | Some (sd, runs, win) when win = 200 && (match !scen with "ring" :: _ -> true | _ -> false) ->
      (match !scen with
       | "ring" :: md :: cap :: _ :: rest ->
         let (r, _) = split_rw rest in
         explore_throttled pk sd runs (List.length r) (next_pow2 (int_of_string cap) 1) (md = "once")
       | _ -> ())
    | Some (sd, runs, win) -> explore pk sd runs win
    | None ->
      let none_enabled st = List.for_all (fun t -> step st (nat_of_int t) O = None) (upto n) in
      let (st, ok) = accept_trace_w step st0 cell_id none_enabled trace in
      if ok then begin
        let status = if List.for_all (is_done st) (upto n) then 0 else if none_enabled st then 1 else 2 in
        Printf.printf "F status=%d %s\n" status (summary st)
      end

let () = run_cases handle
