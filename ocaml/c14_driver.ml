(* C14 model driver: replays the implementation's scheduler trace (harness/vsched + vs_io.c)
   on the extracted model (trace acceptance): every E / P / X line must be the label the model
   produces for that thread at that point; R lines are collected per thread and must equal the
   notes of the plain segment that contains them.  Accepted lines are echoed, the first line
   the model does not accept is replaced by "REJECT ..."; then the model's own summary (F line)
   is printed, which must equal the implementation's.
   The position of the signal among the context events of an epoll_wait batch (the choice
   parameter of the model's poll step) is read off the trace: the number of releases (cass) the
   loop thread performs before its next clear-up of the signal (eread) in the same pass.
   Case lines:  loop <be> <loopthr> <hints> / thr <script> ... / [cb <handle|bare> <flags|-> [nctx]]
                / [cbw <s0> <s1> ...] / [cbt <s0> ...] / [tmo <0|1>] / [del <0|1>] / [variant <fix_exit> <fix_add>]
                / TRACE / <implementation output> *)
let op_of_string = function
  | "poll" -> OLoad | "eread" -> OXchg | "ewrite" -> OFadd | "mlock" -> OMlock | "munlock" -> OMunlock
  | "cass" -> OCasS | "plain" -> OPlain | s -> failwith ("unexpected op " ^ s)
let string_of_op = function
  | OLoad -> "poll" | OXchg -> "eread" | OFadd -> "ewrite" | OMlock -> "mlock" | OMunlock -> "munlock"
  | OCasS -> "cass" | OPlain -> "plain" | _ -> "?"
let cell_id (c : string) : int =
  match c with
  | "hmtx" -> 0 | "efd" -> 1 | "sig" -> 2 | "op" -> 3
  | _ -> if String.length c > 3 && String.sub c 0 3 = "ref" then 10 + int_of_string (String.sub c 3 (String.length c - 3)) else 999
let note_of (text : string) : int * int =
  match words text with
  | ["created"] -> (1, 0)
  | ["op"; "w"; k] -> (2, int_of_string k)
  | ["op"; "h"; id] -> (3, int_of_string id)
  | ["op"; "x"; k] -> (4, int_of_string k)
  | ["done"; k] -> (5, int_of_string k)
  | ["addctx"; id; "1"] -> (6, int_of_string id)
  | ["addctx"; id; "0"] -> (7, int_of_string id)
  | ["release"; id] -> (8, int_of_string id)
  | ["free"; id] -> (9, int_of_string id)
  | ["wake"] -> (10, 0)
  | ["returned"] -> (11, 0)
  | ["clear"; id] -> (12, int_of_string id)
  | ["exitcb"] -> (13, 0)
  | ["op"; "s"; id] -> (14, int_of_string id)
  | ["op"; "d"; id] -> (15, int_of_string id)
  | ["msg"; id] -> (16, int_of_string id)
  | ["close"; id] -> (17, int_of_string id)
  | ["op"; "c"; id] -> (18, int_of_string id)
  | ["timer"] -> (19, 0)
  | _ -> (99, 0)

(* functional acceptor: state, pending notes per thread, remaining lines, accepted lines (reversed).
   At a poll event of the epoll back-end that reports the signal together with k >= 1 contexts the
   model's choice parameter (position of the signal in the batch) is not visible in that line: the
   candidates 0..k are tried in turn (the one suggested by the releases / message callbacks that
   precede the next clear-up first) and the first one under which the rest of the trace is accepted
   is taken. *)
let accept (step : sys -> nat -> nat -> (sys * label) option) (st0 : sys) (lines : string list) : sys * bool * bool =
  let rec sig_pos t acc = function
    | [] -> 0
    | l :: r ->
      (match words l with
       | "E" :: t' :: "cass" :: _ when t' = t -> sig_pos t (acc + 1) r
       | "R" :: t' :: "msg" :: _ when t' = t -> sig_pos t (acc + 1) r
       | "E" :: t' :: "eread" :: _ when t' = t -> acc
       | "E" :: t' :: "poll" :: _ when t' = t -> 0
       | _ -> sig_pos t acc r) in
  let get pend ti = try List.assoc ti pend with Not_found -> [] in
  let set pend ti v = (ti, v) :: List.remove_assoc ti pend in
  (* returns (state, ok, stuck, accepted lines reversed) *)
  let rec go (st : sys) pend (lines : string list) (acc : string list) : sys * bool * bool * string list =
    match lines with
    | [] -> (st, true, false, acc)
    | l :: rest ->
      let reject why = (st, false, false, (Printf.sprintf "REJECT %s :: %s" l why) :: acc) in
      (match words l with
       | "E" :: t :: op :: cell :: _mo :: a :: b :: c :: _ ->
         let ti = int_of_string t and ai = int_of_string a and bi = int_of_string b and ci = int_of_string c in
         let cands =
           if op = "poll" && ai = 1 && bi >= 2 then
             let h = min (sig_pos t 0 rest) (bi - 1) in
             h :: List.filter (fun x -> x <> h) (List.init bi (fun i -> i))
           else [0] in
         let attempt ch =
           (match step st (nat_of_int ti) (nat_of_int ch) with
            | Some (s', LEv e) ->
              if e.e_op = op_of_string op && int_of_nat e.e_cell = cell_id cell
                 && int_of_z e.e_a = ai && int_of_z e.e_b = bi && int_of_z e.e_c = ci
              then go s' pend rest (l :: acc)
              else reject (Printf.sprintf "model performs %s cell=%d %s %s %s" (string_of_op e.e_op)
                             (int_of_nat e.e_cell) (string_of_z e.e_a) (string_of_z e.e_b) (string_of_z e.e_c))
            | Some (_, LPlain _) -> reject "model is in a plain segment"
            | Some (_, LExit) -> reject "model thread is at exit"
            | None -> reject "model thread is not enabled") in
         let rec first = function
           | [] -> assert false
           | [ch] -> attempt ch
           | ch :: more -> let (_, ok, _, _) as r = attempt ch in if ok then r else
               (match first more with (_, true, _, _) as r2 -> r2 | _ -> r) in
         first cands
       | "R" :: t :: _ ->
         let ti = int_of_string t in
         let text = String.concat " " (List.tl (List.tl (words l))) in
         go st (set pend ti (get pend ti @ [note_of text])) rest (l :: acc)
       | ["P"; t] ->
         let ti = int_of_string t in
         let notes = get pend ti in
         let pend' = set pend ti [] in
         (match step st (nat_of_int ti) O with
          | Some (s', LPlain ns) ->
            let ns' = List.map (fun (k, v) -> (int_of_nat k, int_of_z v)) ns in
            if ns' = notes then go s' pend' rest (l :: acc)
            else reject (Printf.sprintf "model notes [%s] vs logged [%s]"
                           (String.concat ";" (List.map (fun (k, v) -> Printf.sprintf "%d:%d" k v) ns'))
                           (String.concat ";" (List.map (fun (k, v) -> Printf.sprintf "%d:%d" k v) notes)))
          | Some (_, LEv e) -> reject ("model is at operation " ^ string_of_op e.e_op)
          | Some (_, LExit) -> reject "model thread is at exit"
          | None -> reject "model thread is not enabled")
       | ["X"; t] ->
         (match step st (nat_of_int (int_of_string t)) O with
          | Some (s', LExit) -> go s' pend rest (l :: acc)
          | _ -> reject "model thread is not at exit")
       | "DEADLOCK" :: _ ->
         (* the model must agree that nothing can move: every thread is disabled or waits for I/O
            with nothing ready *)
         let thread_stuck t =
           let tn = nat_of_int t in
           let polls_nothing s = (match step s tn O with
             | Some (_, LEv e) -> e.e_op = OLoad && int_of_z e.e_a = 0 && int_of_z e.e_b = 0 | _ -> false) in
           (match step st tn O with
            | None -> true
            | Some (s', LPlain []) when thr st tn = SRepoll -> polls_nothing s'
            | Some _ -> polls_nothing st) in
         let rec all t = t >= 16 || (thread_stuck t && all (t + 1)) in
         if all 0 then (let (s, ok, _, acc') = go st pend rest (l :: acc) in (s, ok, true, acc'))
         else reject "model has a thread that can move"
       | "LIVELOCK" :: _ -> let (s, ok, _, acc') = go st pend rest (l :: acc) in (s, ok, true, acc')
       | _ -> go st pend rest acc) in
  let (st, ok, stuck, acc) = go st0 [] lines [] in
  List.iter print_endline (List.rev acc);
  (st, ok, stuck)

let handle (lines : string list) : unit =
  let rec split acc = function
    | "TRACE" :: rest -> (List.rev acc, rest)
    | x :: rest -> split (x :: acc) rest
    | [] -> (List.rev acc, []) in
  let (cfg, trace) = split [] lines in
  let be = ref BEpoll and loopthr = ref 0 and hints = ref 8 and scripts = ref [] and fx = ref true and fa = ref true
  and bare = ref false and flags = ref "warcmt" and nctx = ref 0 and cbw = ref [] and cbt = ref []
  and tmo = ref false and del = ref false in
  let ops_of s = if s = "-" then [] else
    List.filter_map (fun ch -> match ch with 'w' -> Some OpW | 'h' -> Some OpH | 'x' -> Some OpX | 's' -> Some OpS
                                           | 'd' -> Some OpD | 'c' -> Some OpC | _ -> None)
      (List.init (String.length s) (String.get s)) in
  List.iter (fun l -> match words l with
    | ["loop"; b; lt; h] ->
      be := (match b with "select" -> BSelect | "poll" -> BPoll | _ -> BEpoll);
      loopthr := int_of_string lt; hints := int_of_string h
    | ["thr"; s] -> scripts := !scripts @ [ops_of s]
    | ["variant"; a; b] -> fx := (a <> "0"); fa := (b <> "0")
    | "cbw" :: ss -> cbw := List.map ops_of ss
    | "cbt" :: ss -> cbt := List.map ops_of ss
    | ["tmo"; v] -> tmo := (v <> "0")
    | ["del"; v] -> del := (v <> "0")
    | "cb" :: mode :: fl :: rest ->
      bare := (mode = "bare"); flags := (if fl = "-" then "" else fl);
      nctx := (match rest with n :: _ when !bare -> max 0 (min 8 (int_of_string n)) | _ -> 0)
    | _ -> ()) cfg;
  let has ch = String.contains !flags ch in
  let arr = Array.of_list !scripts in
  let n = Array.length arr in
  if n = 0 || !loopthr >= n then print_endline "F badcase" else begin
    let c = { c_be = !be; c_n = nat_of_int n; c_loop = nat_of_int !loopthr; c_cap = nat_of_int !hints;
              c_scr = (fun t -> let i = int_of_nat t in if i < n then arr.(i) else []);
              c_fix_exit = !fx; c_fix_add = !fa;
              c_bare = !bare; c_nctx = nat_of_int !nctx;
              c_cb_wake = has 'w'; c_cb_add = has 'a';
              c_cb_release = (if !bare then false else has 'r');
              c_cb_read = (if !bare then has 'r' else has 'm');
              c_cb_close = has 'c'; c_cb_clear = (if !bare then has 'l' else true);
              c_cb_exit = (if !bare then has 'x' else true); c_cb_timer = has 't';
              c_cbw = (if !bare then [] else !cbw); c_cbt = (if !bare then [] else !cbt);
              c_tmo = !tmo; c_del = !del } in
    let (st, ok, stuck) = accept (step c) init trace in
    if ok then begin
      let late = if stuck then 0 else List.length (queue st) in
      let live = int_of_nat (next_id st) - int_of_nat (freed_count st) - late in
      Printf.printf "F returned=%d live=%d late=%d\n" (if returned st then 1 else 0) live late
    end
  end

let () = run_cases handle
