(* C14 model driver: replays the implementation's scheduler trace (harness/vsched + vs_io.c)
   on the extracted model (trace acceptance): every E / P / X line must be the label the model
   produces for that thread at that point; R lines are collected per thread and must equal the
   notes of the plain segment that contains them.  Accepted lines are echoed, the first line
   the model does not accept is replaced by "REJECT ..."; then the model's own summary (F line)
   is printed, which must equal the implementation's.
   Case lines:  loop <be> <loopthr> <hints> / thr <script> ... / [cb <handle|bare> <flags|-> [nctx]]
                / [variant <fix_exit> <fix_add>]
                / TRACE / <implementation output> *)
let op_of_string = function
  | "poll" -> OLoad | "eread" -> OXchg | "ewrite" -> OFadd | "mlock" -> OMlock | "munlock" -> OMunlock
  | "cass" -> OCasS | "plain" -> OPlain | s -> failwith ("unexpected op " ^ s)
let string_of_op = function
  | OLoad -> "poll" | OXchg -> "eread" | OFadd -> "ewrite" | OMlock -> "mlock" | OMunlock -> "munlock"
  | OCasS -> "cass" | OPlain -> "plain" | _ -> "?"
let cell_id (c : string) : int =
  match c with
  | "hmtx" -> 0 | "efd" -> 1 | "sig" -> 2 | "op" -> 3
  | _ -> if String.length c > 3 && String.sub c 0 3 = "ref" then 10 + int_of_string (String.sub c 3 (String.length c - 3)) else 999
let note_of (text : string) : int * int =
  match words text with
  | ["created"] -> (1, 0)
  | ["op"; "w"; k] -> (2, int_of_string k)
  | ["op"; "h"; id] -> (3, int_of_string id)
  | ["op"; "x"; k] -> (4, int_of_string k)
  | ["done"; k] -> (5, int_of_string k)
  | ["addctx"; id; "1"] -> (6, int_of_string id)
  | ["addctx"; id; "0"] -> (7, int_of_string id)
  | ["release"; id] -> (8, int_of_string id)
  | ["free"; id] -> (9, int_of_string id)
  | ["wake"] -> (10, 0)
  | ["returned"] -> (11, 0)
  | ["clear"; id] -> (12, int_of_string id)
  | ["exitcb"] -> (13, 0)
  | _ -> (99, 0)

let accept (step : sys -> nat -> nat -> (sys * label) option) (st0 : sys) (lines : string list) : sys * bool * bool =
  let st = ref st0 and ok = ref true and stuck = ref false in
  let pend : (int, (int * int) list) Hashtbl.t = Hashtbl.create 8 in
  let reject l why = Printf.printf "REJECT %s :: %s\n" l why; ok := false in
  List.iter (fun l ->
    if !ok then begin
      match words l with
      | "E" :: t :: op :: cell :: _mo :: a :: b :: c :: _ ->
        let ti = int_of_string t and ai = int_of_string a and bi = int_of_string b and ci = int_of_string c in
        (match step !st (nat_of_int ti) O with
         | Some (s', LEv e) ->
           if e.e_op = op_of_string op && int_of_nat e.e_cell = cell_id cell
              && int_of_z e.e_a = ai && int_of_z e.e_b = bi && int_of_z e.e_c = ci
           then (st := s'; print_endline l)
           else reject l (Printf.sprintf "model performs %s cell=%d %s %s %s" (string_of_op e.e_op)
                            (int_of_nat e.e_cell) (string_of_z e.e_a) (string_of_z e.e_b) (string_of_z e.e_c))
         | Some (_, LPlain _) -> reject l "model is in a plain segment"
         | Some (_, LExit) -> reject l "model thread is at exit"
         | None -> reject l "model thread is not enabled")
      | "R" :: t :: _ ->
        let ti = int_of_string t in
        let text = String.concat " " (List.tl (List.tl (words l))) in
        let cur = try Hashtbl.find pend ti with Not_found -> [] in
        Hashtbl.replace pend ti (cur @ [note_of text]); print_endline l
      | ["P"; t] ->
        let ti = int_of_string t in
        let notes = try Hashtbl.find pend ti with Not_found -> [] in
        Hashtbl.replace pend ti [];
        (match step !st (nat_of_int ti) O with
         | Some (s', LPlain ns) ->
           let ns' = List.map (fun (k, v) -> (int_of_nat k, int_of_z v)) ns in
           if ns' = notes then (st := s'; print_endline l)
           else reject l (Printf.sprintf "model notes [%s] vs logged [%s]"
                            (String.concat ";" (List.map (fun (k, v) -> Printf.sprintf "%d:%d" k v) ns'))
                            (String.concat ";" (List.map (fun (k, v) -> Printf.sprintf "%d:%d" k v) notes)))
         | Some (_, LEv e) -> reject l ("model is at operation " ^ string_of_op e.e_op)
         | Some (_, LExit) -> reject l "model thread is at exit"
         | None -> reject l "model thread is not enabled")
      | ["X"; t] ->
        (match step !st (nat_of_int (int_of_string t)) O with
         | Some (s', LExit) -> st := s'; print_endline l
         | _ -> reject l "model thread is not at exit")
      | "DEADLOCK" :: _ ->
        (* the model must agree that nothing can move: every thread is disabled or waits for I/O
           with the signal not ready *)
        let thread_stuck t =
          let tn = nat_of_int t in
          let polls_nothing s = (match step s tn O with
            | Some (_, LEv e) -> e.e_op = OLoad && int_of_z e.e_a = 0 | _ -> false) in
          (match step !st tn O with
           | None -> true
           | Some (s', LPlain []) when thr !st tn = SRepoll -> polls_nothing s'
           | Some _ -> polls_nothing !st) in
        let rec all t = t >= 16 || (thread_stuck t && all (t + 1)) in
        if all 0 then (stuck := true; print_endline l) else reject l "model has a thread that can move"
      | "LIVELOCK" :: _ -> stuck := true; print_endline l
      | "F" :: _ -> ()
      | _ -> ()
    end) lines;
  (!st, !ok, !stuck)

let handle (lines : string list) : unit =
  let rec split acc = function
    | "TRACE" :: rest -> (List.rev acc, rest)
    | x :: rest -> split (x :: acc) rest
    | [] -> (List.rev acc, []) in
  let (cfg, trace) = split [] lines in
  let be = ref BEpoll and loopthr = ref 0 and hints = ref 8 and scripts = ref [] and fx = ref true and fa = ref true
  and bare = ref false and flags = ref "warcmt" and nctx = ref 0 in
  List.iter (fun l -> match words l with
    | ["loop"; b; lt; h] ->
      be := (match b with "select" -> BSelect | "poll" -> BPoll | _ -> BEpoll);
      loopthr := int_of_string lt; hints := int_of_string h
    | ["thr"; s] ->
      let ops = if s = "-" then [] else
        List.filter_map (fun ch -> match ch with 'w' -> Some OpW | 'h' -> Some OpH | 'x' -> Some OpX | _ -> None)
          (List.init (String.length s) (String.get s)) in
      scripts := !scripts @ [ops]
    | ["variant"; a; b] -> fx := (a <> "0"); fa := (b <> "0")
    | "cb" :: mode :: fl :: rest ->
      bare := (mode = "bare"); flags := (if fl = "-" then "" else fl);
      nctx := (match rest with n :: _ when !bare -> max 0 (min 8 (int_of_string n)) | _ -> 0)
    | _ -> ()) cfg;
  let has ch = String.contains !flags ch in
  let arr = Array.of_list !scripts in
  let n = Array.length arr in
  if n = 0 || !loopthr >= n then print_endline "F badcase" else begin
    let c = { c_be = !be; c_n = nat_of_int n; c_loop = nat_of_int !loopthr; c_cap = nat_of_int !hints;
              c_scr = (fun t -> let i = int_of_nat t in if i < n then arr.(i) else []);
              c_fix_exit = !fx; c_fix_add = !fa;
              c_bare = !bare; c_nctx = nat_of_int !nctx;
              c_cb_wake = has 'w'; c_cb_add = has 'a';
              c_cb_release = (if !bare then false else has 'r');
              c_cb_read = (if !bare then has 'r' else has 'm');
              c_cb_close = has 'c'; c_cb_clear = (if !bare then has 'l' else true);
              c_cb_exit = (if !bare then has 'x' else true); c_cb_timer = has 't' } in
    let (st, ok, stuck) = accept (step c) init trace in
    if ok then begin
      let late = if stuck then 0 else List.length (queue st) in
      let live = int_of_nat (next_id st) - int_of_nat (freed_count st) - late in
      Printf.printf "F returned=%d live=%d late=%d\n" (if returned st then 1 else 0) live late
    end
  end

let () = run_cases handle
