(* C12 model driver: same line protocol as harness/drivers/c12_driver.c *)
let hexv c = match c with
  | '0'..'9' -> Char.code c - 48 | 'a'..'f' -> Char.code c - 87 | 'A'..'F' -> Char.code c - 55 | _ -> 0
let bytes_tab = Array.init 256 n_of_int
let unhex (s : string) : n list =
  if s = "-" then [] else begin
    let k = String.length s / 2 in
    let rec go i acc = if i < 0 then acc else go (i - 1) (bytes_tab.(hexv s.[2*i] * 16 + hexv s.[2*i+1]) :: acc) in
    go (k - 1) [] end
let hex (l : n list) : string =
  let b = Buffer.create 64 in
  List.iter (fun x -> Buffer.add_string b (Printf.sprintf "%02x" ((int_of_n x) land 255))) l;
  Buffer.contents b
let errname = function OK -> "OK" | E_NULL -> "NULL_PARAM" | E_INVALID -> "INVALID_PARAM" | E_KEYSIZE -> "CRYPT_KEY_SIZE"
let parse_op = function "enc" -> OpEnc | "dec" -> OpDec | _ -> OpBad
let parse_mode = function "ecb" -> ECB | "cbc" -> CBC | "cfb" -> CFB | "ofb" -> OFB | "ctr" -> CTR | _ -> ModeBad
let rec take k l = if k <= 0 then [] else match l with [] -> [] | x :: r -> x :: take (k - 1) r
let rec drop k l = if k <= 0 then l else match l with [] -> [] | _ :: r -> drop (k - 1) r
let pad k l = let l = take k l in l @ List.init (k - List.length l) (fun _ -> N0)

type ctx = NoCtx | A of aes_ctx | D of des_ctx | T of tdes_ctx

let handle (lines : string list) : unit =
  let ctx = ref NoCtx and bs = ref 16 in
  let st = ref { s_iv = pad 16 []; s_off = N0; s_sb = pad 16 [] } in
  let prev = ref [||] and cur = ref [] in       (* cur: list of output chunks, most recent first *)
  List.iter (fun l ->
    match words l with
    | "setkey" :: a :: o :: m :: bits :: khex :: rest ->
      let nulls = match rest with x :: _ -> x | [] -> "-" in
      let has c = String.contains nulls c in
      prev := Array.of_list (List.concat (List.rev !cur)); cur := [];
      ctx := NoCtx;
      let key = unhex khex and o = parse_op o and m = parse_mode m in
      let ks = ref "" in
      let e =
        if a = "aes" then begin
          bs := 16;
          let (e, c) = aes_set_key (not (has 'k')) (not (has 'c')) o m (n_of_int (max 0 (int_of_string bits))) key in
          (match c with Some c -> ctx := A c; ks := " ks=" ^ hex (impl_aes_ctx_bytes (n_of_int (max 0 (int_of_string bits))) key) | None -> ()); e end
        else if a = "des" then begin
          bs := 8;
          let (e, c) = des_set_key (not (has 'k')) (not (has 'c')) o m key in
          (match c with Some c -> ctx := D c; ks := " ks=" ^ hex (impl_des_ctx_bytes o m key) | None -> ()); e end
        else begin
          bs := 8;
          let k1 = pad 8 key and k2 = pad 8 (drop 8 key) and k3 = pad 8 (drop 16 key) in
          let (e, c) = tdes_set_key (not (has 'k')) (not (has '2')) (not (has '3')) (not (has 'c')) o m k1 k2 k3 in
          (match c with Some c -> ctx := T c; ks := " ks=" ^ hex (impl_tdes_ctx_bytes o m k1 k2 k3) | None -> ()); e end in
      print_endline ("setkey " ^ errname e ^ !ks)
    | ["state"; ivh; off; sbh] ->
      st := { s_iv = pad 16 (unhex ivh); s_off = n_of_string off; s_sb = pad 16 (unhex sbh) }
    | ["crypt"; fn; _align; nulls; dh] ->
      if !ctx = NoCtx then print_endline "noctx" else begin
        let data =
          if String.length dh > 0 && dh.[0] = '@' then begin
            match String.split_on_char ':' (String.sub dh 1 (String.length dh - 1)) with
            | [s; l] ->
              let s = int_of_string s and l = int_of_string l in
              if s < 0 || l < 0 || s + l > Array.length !prev then None
              else Some (Array.to_list (Array.sub !prev s l))
            | _ -> None end
          else Some (unhex dh) in
        match data with
        | None -> print_endline "badslice"
        | Some data ->
          let has c = String.contains nulls c in
          let p = { p_ctx = not (has 'c'); p_in = not (has 'i'); p_out = not (has 'o');
                    p_iv = not (has 'v'); p_off = not (has 'f'); p_sb = not (has 's') } in
          let b = !bs in
          let s = { s_iv = take b !st.s_iv; s_off = !st.s_off; s_sb = take b !st.s_sb } in
          let r =
            match !ctx, fn with
            | A c, "ecb" -> Some (aes_ecb p c s data) | A c, "cbc" -> Some (aes_cbc p c s data)
            | A c, "cfb" -> Some (aes_cfb128 p c s data) | A c, "ofb" -> Some (aes_ofb128 p c s data)
            | A c, "ctr" -> Some (aes_ctr p c s data)
            | D c, "ecb" -> Some (des_ecb p c s data) | D c, "cbc" -> Some (des_cbc p c s data)
            | D c, "cfb" -> Some (des_cfb64 p c s data) | D c, "ofb" -> Some (des_ofb64 p c s data)
            | D c, "ctr" -> Some (des_ctr p c s data)
            | T c, "ecb" -> Some (tdes_ecb p c s data) | T c, "cbc" -> Some (tdes_cbc p c s data)
            | T c, "cfb" -> Some (tdes_cfb64 p c s data) | T c, "ofb" -> Some (tdes_ofb64 p c s data)
            | T c, "ctr" -> Some (tdes_ctr p c s data)
            | _ -> None in
          (match r with
           | None -> print_endline "badfn"
           | Some r ->
             let s' = r.r_st in
             st := { s_iv = pad 16 s'.s_iv; s_off = s'.s_off; s_sb = pad 16 s'.s_sb };
             (match r.r_out with Some o -> cur := o :: !cur | None -> ());
             Printf.printf "%s out=%s iv=%s off=%s sb=%s\n" (errname r.r_err)
               (match r.r_out with Some o -> hex o | None -> "untouched")
               (hex (take b s'.s_iv)) (string_of_n s'.s_off) (hex (take b s'.s_sb)))
      end
    | "setkey" :: _ | "crypt" :: _ -> print_endline "badline"
    | _ -> ()) lines

let () = run_cases handle
