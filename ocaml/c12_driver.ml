(* C12 model driver: same line protocol as harness/drivers/c12_driver.c *)
let hexv c = match c with
  | '0'..'9' -> Char.code c - 48 | 'a'..'f' -> Char.code c - 87 | 'A'..'F' -> Char.code c - 55 | _ -> 0
let bytes_tab = Array.init 256 n_of_int
let unhex (s : string) : n list =
  if s = "-" then [] else begin
    let k = String.length s / 2 in
    let rec go i acc = if i < 0 then acc else go (i - 1) (bytes_tab.(hexv s.[2*i] * 16 + hexv s.[2*i+1]) :: acc) in
    go (k - 1) [] end
let hex (l : n list) : string =
  let b = Buffer.create 64 in
  List.iter (fun x -> Buffer.add_string b (Printf.sprintf "%02x" ((int_of_n x) land 255))) l;
  Buffer.contents b
let errname = function OK -> "OK" | E_NULL -> "NULL_PARAM" | E_INVALID -> "INVALID_PARAM" | E_KEYSIZE -> "CRYPT_KEY_SIZE"
let parse_op = function "enc" -> OpEnc | "dec" -> OpDec | _ -> OpBad
let parse_mode = function "ecb" -> ECB | "cbc" -> CBC | "cfb" -> CFB | "ofb" -> OFB | "ctr" -> CTR | _ -> ModeBad
let rec take k l = if k <= 0 then [] else match l with [] -> [] | x :: r -> x :: take (k - 1) r
let rec drop k l = if k <= 0 then l else match l with [] -> [] | _ :: r -> drop (k - 1) r
let pad k l = let l = take k l in l @ List.init (k - List.length l) (fun _ -> N0)

type ctx = NoCtx | A of aes_ctx | D of des_ctx | T of tdes_ctx

(* xorshift64* byte stream, as in the C driver: "#<seed>:<len>" *)
let prng_bytes (seed : int64) (n : int) : n list =
  let x = ref (if seed = 0L then 0x9E3779B97F4A7C15L else seed) in
  let buf = Bytes.create n in
  let i = ref 0 in
  while !i < n do
    x := Int64.logxor !x (Int64.shift_right_logical !x 12);
    x := Int64.logxor !x (Int64.shift_left !x 25);
    x := Int64.logxor !x (Int64.shift_right_logical !x 27);
    let v = Int64.mul !x 2685821657736338717L in
    let b = ref 0 in
    while !b < 8 && !i < n do
      Bytes.set buf !i (Char.chr (Int64.to_int (Int64.logand (Int64.shift_right_logical v (8 * !b)) 255L)));
      incr b; incr i
    done
  done;
  let rec go k acc = if k < 0 then acc else go (k - 1) (bytes_tab.(Char.code (Bytes.get buf k)) :: acc) in
  go (n - 1) []

(* one context slot: context, block size, caller-held state, previous / current phase outputs *)
type slot = { ctx : ctx ref; bs : int ref; st : st ref; prev : n array ref; cur : n list list ref }
let fresh_slot () = { ctx = ref NoCtx; bs = ref 16; st = ref { s_iv = pad 16 []; s_off = N0; s_sb = pad 16 [] };
                      prev = ref [||]; cur = ref [] }

let handle (lines : string list) : unit =
  let slots = Array.init 4 (fun _ -> fresh_slot ()) in
  let cs = ref 0 in
  List.iter (fun l ->
    let sl = slots.(!cs) in
    let ctx = sl.ctx and bs = sl.bs and st = sl.st and prev = sl.prev and cur = sl.cur in   (* cur: output chunks, most recent first *)
    match words l with
    | ["use"; k] -> (match int_of_string_opt k with Some k when k >= 0 && k < 4 -> cs := k | _ -> ())
    | ["share"; k] ->
      (match int_of_string_opt k with
       | Some k when k >= 0 && k < 4 && k <> !cs ->
         prev := Array.of_list (List.concat (List.rev !cur)); cur := [];
         ctx := !(slots.(k).ctx); bs := !(slots.(k).bs)
       | _ -> ())
    | "setkey" :: a :: o :: m :: bits :: khex :: rest ->
      let nulls = match rest with x :: _ -> x | [] -> "-" in
      let has c = String.contains nulls c in
      prev := Array.of_list (List.concat (List.rev !cur)); cur := [];
      ctx := NoCtx;
      let key = unhex khex and o = parse_op o and m = parse_mode m in
      let ks = ref "" in
      let e =
        if a = "aes" then begin
          bs := 16;
          (* the key size is the C int itself (negative values included): aes_set_key_int *)
          let (e, c) = aes_set_key_int (not (has 'k')) (not (has 'c')) o m (z_of_int (int_of_string bits)) key in
          (match c with Some c -> ctx := A c; ks := " ks=" ^ hex (impl_aes_ctx_bytes (n_of_int (max 0 (int_of_string bits))) key) | None -> ()); e end
        else if a = "des" then begin
          bs := 8;
          let (e, c) = des_set_key (not (has 'k')) (not (has 'c')) o m key in
          (match c with Some c -> ctx := D c; ks := " ks=" ^ hex (impl_des_ctx_bytes o m key) | None -> ()); e end
        else begin
          bs := 8;
          let k1 = pad 8 key and k2 = pad 8 (drop 8 key) and k3 = pad 8 (drop 16 key) in
          let (e, c) = tdes_set_key (not (has 'k')) (not (has '2')) (not (has '3')) (not (has 'c')) o m k1 k2 k3 in
          (match c with Some c -> ctx := T c; ks := " ks=" ^ hex (impl_tdes_ctx_bytes o m k1 k2 k3) | None -> ()); e end in
      (* a refused set_key yields no context: the key-schedule area is left alone *)
      if e <> OK then ks := " ks=untouched";
      print_endline ("setkey " ^ errname e ^ !ks)
    | ["state"; ivh; off; sbh] ->
      st := { s_iv = pad 16 (unhex ivh); s_off = n_of_string off; s_sb = pad 16 (unhex sbh) }
    | ["crypt"; fn; _align; nulls; dh] ->
      if !ctx = NoCtx then print_endline "noctx" else begin
        let data =
          if String.length dh > 0 && dh.[0] = '@' then begin
            match String.split_on_char ':' (String.sub dh 1 (String.length dh - 1)) with
            | [s; l] ->
              let s = int_of_string s and l = int_of_string l in
              if s < 0 || l < 0 || s + l > Array.length !prev then None
              else Some (Array.to_list (Array.sub !prev s l))
            | _ -> None end
          else if String.length dh > 0 && dh.[0] = '#' then begin
            match String.split_on_char ':' (String.sub dh 1 (String.length dh - 1)) with
            | [sd; l] ->
              (match Int64.of_string_opt ("0u" ^ sd), int_of_string_opt l with
               | Some sd, Some l when l >= 0 && l <= (1 lsl 26) -> Some (prng_bytes sd l)
               | _ -> None)
            | _ -> None end
          else Some (unhex dh) in
        match data with
        | None -> print_endline "badslice"
        | Some data ->
          let has c = String.contains nulls c in
          let p = { p_ctx = not (has 'c'); p_in = not (has 'i'); p_out = not (has 'o');
                    p_iv = not (has 'v'); p_off = not (has 'f'); p_sb = not (has 's') } in
          let b = !bs in
          let s = { s_iv = take b !st.s_iv; s_off = !st.s_off; s_sb = take b !st.s_sb } in
          let r =
            match !ctx, fn with
            | A c, "ecb" -> Some (aes_ecb p c s data) | A c, "cbc" -> Some (aes_cbc p c s data)
            | A c, "cfb" -> Some (aes_cfb128 p c s data) | A c, "ofb" -> Some (aes_ofb128 p c s data)
            | A c, "ctr" -> Some (aes_ctr p c s data)
            | D c, "ecb" -> Some (des_ecb p c s data) | D c, "cbc" -> Some (des_cbc p c s data)
            | D c, "cfb" -> Some (des_cfb64 p c s data) | D c, "ofb" -> Some (des_ofb64 p c s data)
            | D c, "ctr" -> Some (des_ctr p c s data)
            | T c, "ecb" -> Some (tdes_ecb p c s data) | T c, "cbc" -> Some (tdes_cbc p c s data)
            | T c, "cfb" -> Some (tdes_cfb64 p c s data) | T c, "ofb" -> Some (tdes_ofb64 p c s data)
            | T c, "ctr" -> Some (tdes_ctr p c s data)
            | _ -> None in
          (match r with
           | None -> print_endline "badfn"
           | Some r ->
             let s' = r.r_st in
             st := { s_iv = pad 16 s'.s_iv; s_off = s'.s_off; s_sb = pad 16 s'.s_sb };
             (match r.r_out with Some o -> cur := o :: !cur | None -> ());
             Printf.printf "%s out=%s iv=%s off=%s sb=%s\n" (errname r.r_err)
               (match r.r_out with Some o -> hex o | None -> "untouched")
               (hex (take b s'.s_iv)) (string_of_n s'.s_off) (hex (take b s'.s_sb)))
      end
    | "setkey" :: _ | "crypt" :: _ -> print_endline "badline"
    | _ -> ()) lines

let () = run_cases handle
