(* C17 model driver: same line protocol as harness/drivers/c17_driver.c; writes go
   through r_log / t_log (format, truncate at code_msg_max_len, write); at the
   end of a case the model's file map (all directories) is printed as the same
   canonical dump.  The handler runs inside the directory-level model rg_* / tg_*
   (path resolved at init, chdir operations). *)
let simple_prefix = "INFO|c.c:1 - "

type st =
  | Nothing
  | Rot of { raw : bool; bc : int; p : parg; cwd : z; pre : sname gfsys; g : (sname, rh) gst option }
  | Trot of { raw : bool; u : tunit; md : z; local : bool; tz : zone; p : parg; cwd : z; g : (tname, th) gst option }
  | Bad

(* path argument of the handler, see the C driver *)
let parg_of = function
  | "abs" -> PAbs (Dir (Z0, Z0))
  | s when String.length s > 4 && String.sub s 0 4 = "long" -> PAbs (Dir (Z0, z_of_int 2))   (* long<N>: an absolute path of N bytes *)
  | "abssub" -> PAbs (Dir (Z0, z_of_int 1))
  | "sub" -> PRel (z_of_int 1)
  | _ -> PRel Z0            (* rel, dot *)
(* zone field of the header: an offset, or zone;<TZ string>;<base>;<t>=<off>,... *)
let zone_of (w : string) : zone =
  match String.split_on_char ';' w with
  | "zone" :: _ :: base :: rest ->
    let trs = (match rest with
      | [] | [ "" ] -> []
      | l :: _ -> List.filter_map (fun it ->
          match String.split_on_char '=' it with
          | [ t; o ] -> Some (z_of_string t, z_of_string o)
          | _ -> None) (String.split_on_char ',' l)) in
    { z_base = z_of_string base; z_trans = trs }
  | _ -> fixed_zone (z_of_string w)
let dir_str (Dir (r, s)) = "d" ^ string_of_z r ^ (match int_of_z s with 1 -> "/sub/dir" | 2 -> "/LONG" | _ -> "")
let bsz = code_msg_max_len

let sname_str = function SLive -> "log.txt" | SBak i -> Printf.sprintf "log.txt.%d" (int_of_nat i)
let tname_str (n : tname) : string =
  let v = List.map int_of_z n in
  match v with
  | y :: mo :: d :: rest ->
    let b = Buffer.create 32 in
    Buffer.add_string b (Printf.sprintf "log.txt.%d%02d%02d" y mo d);
    (match rest with [] -> () | _ -> Buffer.add_char b 'T');
    List.iter (fun x -> Buffer.add_string b (Printf.sprintf "%02d" x)) rest;
    Buffer.contents b
  | _ -> "log.txt.?"

let dump (files : (string * msg list) list) (head : msg -> string) (raw : bool) : unit =
  let files = List.sort (fun (a, _) (b, _) -> compare a b) files in
  List.iter (fun (name, ls) ->
    Printf.printf "F %s\n" name;
    List.iter (fun m ->
      Printf.printf "L %s %s%s\n" (string_of_z m.m_len) (if raw then "" else simple_prefix) (head m)) ls) files

let print_tm tag (t : tm) =
  Printf.printf "%s %d %d %d %d %d %d\n" tag (int_of_z t.tm_year + 1900) (int_of_z t.tm_mon + 1)
    (int_of_z t.tm_mday) (int_of_z t.tm_hour) (int_of_z t.tm_min) (int_of_z t.tm_sec)

let handle (lines : string list) : unit =
  let st = ref Nothing in
  List.iter (fun l ->
    let ws = words l in
    match !st, ws with
    | Nothing, "rot" :: f :: bc :: rest ->
      let sp = (match rest with x :: _ -> x | [] -> "abs") in
      st := Rot { raw = (f = "raw"); bc = int_of_string bc; p = parg_of sp; cwd = Z0; pre = []; g = None }
    | Nothing, "trot" :: f :: u :: md :: loc :: tz :: rest ->
      let sp = (match rest with x :: _ -> x | [] -> "abs") in
      let u = (match u.[0] with 's' -> USec | 'm' -> UMin | 'h' -> UHour | _ -> UDay) in
      st := Trot { raw = (f = "raw"); u; md = z_of_string md; local = (loc <> "0"); tz = zone_of tz;
                   p = parg_of sp; cwd = Z0; g = None }
    | Nothing, _ :: _ -> print_endline "badheader"; st := Bad
    | Bad, _ -> ()
    | _, [] -> ()
    | _, [ ("civil" | "lcivil") as op; s ] ->
      let tz = (match !st with Trot t -> t.tz | _ -> fixed_zone Z0) in
      print_tm op (if op = "civil" then gmtime (z_of_string s) else localtime tz (z_of_string s))
    | Rot r, [ "chdir"; k ] ->
      (match r.g with
       | None -> st := Rot { r with cwd = z_of_string k }
       | Some g -> st := Rot { r with g = Some (rg_step bsz g (GChdir (z_of_string k))) });
      print_endline "chdir 0"
    | Trot t, [ "chdir"; k ] ->
      (match t.g with
       | None -> st := Trot { t with cwd = z_of_string k }
       | Some g -> st := Trot { t with g = Some (tg_step bsz g (GChdir (z_of_string k))) });
      print_endline "chdir 0"
    | Rot r, "pre" :: sfx :: items ->
      if r.g <> None then print_endline "pre ignored"
      else begin
        let name = if sfx = "-" then SLive else SBak (nat_of_int (int_of_string sfx)) in
        let ls = List.filter_map (fun it ->
          match String.split_on_char ':' it with
          | [ id; len ] -> Some { m_id = z_of_string id; m_len = z_of_string len; m_ts = Z0 }
          | _ -> None) items in
        let d = resolve r.cwd r.p in
        st := Rot { r with pre = g_set d (fs_put sname_eqb name ls (g_dir d r.pre)) r.pre };
        print_endline "pre ok"
      end
    | Trot _, "pre" :: _ -> print_endline "pre ignored"
    | Rot r, [ "open"; a ] ->
      if r.g <> None then print_endline "open ignored"
      else begin
        st := Rot { r with g = Some (rg_start r.pre r.cwd r.p (z_of_string a) (nat_of_int r.bc)) };
        print_endline "open 0" end
    | Trot t, [ "open"; a ] ->
      if t.g <> None then print_endline "open ignored"
      else begin
        st := Trot { t with g = Some (tg_start [] t.cwd t.p (z_of_string a) t.u t.md t.local t.tz) };
        print_endline "open 0" end
    | Rot r, [ "restart"; a ] ->
      (match r.g with
       | None -> print_endline "restart ignored"
       | Some g -> st := Rot { r with g = Some (rg_step bsz g (GRestart (z_of_string a))) }; print_endline "restart 0")
    | Rot r, [ "restart"; a; b ] ->
      (* destroy + init with ANOTHER backup_count: a new configuration on the files as they are, resolved
         against the current working directory *)
      (match r.g with
       | None -> print_endline "restart ignored"
       | Some g ->
         let bc = int_of_string b in
         st := Rot { r with bc; g = Some (rg_start (gs_fs (fun h -> h.r_fs) g) g.gs_cwd r.p (z_of_string a) (nat_of_int bc)) };
         print_endline "restart 0")
    | Trot t, [ "restart"; a ] ->
      (match t.g with
       | None -> print_endline "restart ignored"
       | Some g -> st := Trot { t with g = Some (tg_step bsz g (GRestart (z_of_string a))) }; print_endline "restart 0")
    | Rot r, "w" :: args ->
      (match r.g, args with
       | None, _ -> print_endline "w ignored"
       | Some g, [ id; len ] ->
         let m = { m_id = z_of_string id; m_len = z_of_string len; m_ts = Z0 } in
         let n = snd (r_log bsz g.gs_h m) in
         st := Rot { r with g = Some (rg_step bsz g (GWrite m)) }; Printf.printf "w %s\n" (string_of_z n)
       | Some _, _ -> print_endline "w bad")
    | Trot t, "w" :: args ->
      (match t.g, args with
       | None, _ -> print_endline "w ignored"
       | Some g, [ id; len; ts; clock ] ->
         let m = { m_id = z_of_string id; m_len = z_of_string len; m_ts = z_of_string ts } in
         let c = z_of_string clock in
         let n = snd (t_log bsz g.gs_h c m) in
         st := Trot { t with g = Some (tg_step bsz g (GWrite (c, m))) }; Printf.printf "w %s\n" (string_of_z n)
       | Some _, _ -> print_endline "w bad")
    | _, _ -> print_endline "?") lines;
  let all name_str gfs =
    List.concat_map (fun (d, fs) -> List.map (fun (k, c) -> (dir_str d ^ "/" ^ name_str k, c)) fs) gfs in
  match !st with
  | Rot r ->
    let gfs = (match r.g with Some g -> gs_fs (fun h -> h.r_fs) g | None -> r.pre) in
    dump (all sname_str gfs) (fun m -> string_of_z m.m_id ^ ":") r.raw
  | Trot t ->
    let gfs = (match t.g with Some g -> gs_fs (fun h -> h.t_fs) g | None -> []) in
    dump (all tname_str gfs) (fun m -> string_of_z m.m_id ^ ":" ^ string_of_z m.m_ts ^ ":") t.raw
  | _ -> ()

let () = run_cases handle
