(* C17 model driver: same line protocol as harness/drivers/c17_driver.c; writes go
   through r_log / t_log (format, truncate at code_msg_max_len, write); at the
   end of a case the model's file map is printed as the same canonical dump. *)
let simple_prefix = "INFO|c.c:1 - "

type st =
  | Nothing
  | Rot of { raw : bool; bc : int; pre : sname fsys; h : rh option }
  | Trot of { raw : bool; u : tunit; md : z; local : bool; tz : z; th : th option }
  | Bad

let sname_str = function SLive -> "log.txt" | SBak i -> Printf.sprintf "log.txt.%d" (int_of_nat i)
let tname_str (n : tname) : string =
  let v = List.map int_of_z n in
  match v with
  | y :: mo :: d :: rest ->
    let b = Buffer.create 32 in
    Buffer.add_string b (Printf.sprintf "log.txt.%d%02d%02d" y mo d);
    (match rest with [] -> () | _ -> Buffer.add_char b 'T');
    List.iter (fun x -> Buffer.add_string b (Printf.sprintf "%02d" x)) rest;
    Buffer.contents b
  | _ -> "log.txt.?"

let dump (files : (string * msg list) list) (head : msg -> string) (raw : bool) : unit =
  let files = List.sort (fun (a, _) (b, _) -> compare a b) files in
  List.iter (fun (name, ls) ->
    Printf.printf "F %s\n" name;
    List.iter (fun m ->
      Printf.printf "L %s %s%s\n" (string_of_z m.m_len) (if raw then "" else simple_prefix) (head m)) ls) files

let print_tm tag (t : tm) =
  Printf.printf "%s %d %d %d %d %d %d\n" tag (int_of_z t.tm_year + 1900) (int_of_z t.tm_mon + 1)
    (int_of_z t.tm_mday) (int_of_z t.tm_hour) (int_of_z t.tm_min) (int_of_z t.tm_sec)

let handle (lines : string list) : unit =
  let st = ref Nothing in
  List.iter (fun l ->
    let ws = words l in
    match !st, ws with
    | Nothing, [ "rot"; f; bc ] -> st := Rot { raw = (f = "raw"); bc = int_of_string bc; pre = []; h = None }
    | Nothing, [ "trot"; f; u; md; loc; tz ] ->
      let u = (match u.[0] with 's' -> USec | 'm' -> UMin | 'h' -> UHour | _ -> UDay) in
      st := Trot { raw = (f = "raw"); u; md = z_of_string md; local = (loc <> "0"); tz = z_of_string tz; th = None }
    | Nothing, _ :: _ -> print_endline "badheader"; st := Bad
    | Bad, _ -> ()
    | _, [] -> ()
    | _, [ ("civil" | "lcivil") as op; s ] ->
      let tz = (match !st with Trot t -> t.tz | _ -> Z0) in
      print_tm op (if op = "civil" then gmtime (z_of_string s) else localtime tz (z_of_string s))
    | Rot r, "pre" :: sfx :: items ->
      if r.h <> None then print_endline "pre ignored"
      else begin
        let name = if sfx = "-" then SLive else SBak (nat_of_int (int_of_string sfx)) in
        let ls = List.filter_map (fun it ->
          match String.split_on_char ':' it with
          | [ id; len ] -> Some { m_id = z_of_string id; m_len = z_of_string len; m_ts = Z0 }
          | _ -> None) items in
        st := Rot { r with pre = fs_put sname_eqb name ls r.pre };
        print_endline "pre ok"
      end
    | Trot _, "pre" :: _ -> print_endline "pre ignored"
    | Rot r, [ "open"; a ] ->
      if r.h <> None then print_endline "open ignored"
      else begin st := Rot { r with h = Some (r_init r.pre (z_of_string a) (nat_of_int r.bc)) }; print_endline "open 0" end
    | Trot t, [ "open"; a ] ->
      if t.th <> None then print_endline "open ignored"
      else begin st := Trot { t with th = Some (t_init [] (z_of_string a) t.u t.md t.local t.tz) }; print_endline "open 0" end
    | Rot r, [ "restart"; a ] ->
      (match r.h with
       | None -> print_endline "restart ignored"
       | Some h -> st := Rot { r with h = Some (r_restart h (z_of_string a)) }; print_endline "restart 0")
    | Trot t, [ "restart"; a ] ->
      (match t.th with
       | None -> print_endline "restart ignored"
       | Some h -> st := Trot { t with th = Some (t_restart h (z_of_string a)) }; print_endline "restart 0")
    | Rot r, "w" :: args ->
      (match r.h, args with
       | None, _ -> print_endline "w ignored"
       | Some h, [ id; len ] ->
         let (h', n) = r_log code_msg_max_len h { m_id = z_of_string id; m_len = z_of_string len; m_ts = Z0 } in
         st := Rot { r with h = Some h' }; Printf.printf "w %s\n" (string_of_z n)
       | Some _, _ -> print_endline "w bad")
    | Trot t, "w" :: args ->
      (match t.th, args with
       | None, _ -> print_endline "w ignored"
       | Some h, [ id; len; ts; clock ] ->
         let (h', n) = t_log code_msg_max_len h (z_of_string clock) { m_id = z_of_string id; m_len = z_of_string len; m_ts = z_of_string ts } in
         st := Trot { t with th = Some h' }; Printf.printf "w %s\n" (string_of_z n)
       | Some _, _ -> print_endline "w bad")
    | _, _ -> print_endline "?") lines;
  match !st with
  | Rot r ->
    let fs = (match r.h with Some h -> h.r_fs | None -> r.pre) in
    dump (List.map (fun (k, c) -> (sname_str k, c)) fs) (fun m -> string_of_z m.m_id ^ ":") r.raw
  | Trot t ->
    let fs = (match t.th with Some h -> h.t_fs | None -> []) in
    dump (List.map (fun (k, c) -> (tname_str k, c)) fs)
      (fun m -> string_of_z m.m_id ^ ":" ^ string_of_z m.m_ts ^ ":") t.raw
  | _ -> ()

let () = run_cases handle
