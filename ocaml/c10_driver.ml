(* C10 model driver: same line protocol as harness/drivers/c10_driver.c *)
let ints ws = List.map int_of_string ws
let mk_kf (keys : int array) : nat -> z =
  let zk = Array.map z_of_int keys in
  fun id -> let i = int_of_nat id in if i < Array.length zk then zk.(i) else Z0
let str_ids (l : nat list) = String.concat "" (List.map (fun x -> " " ^ string_of_int (int_of_nat x)) l)
let str_node ((k, v) : node) = Printf.sprintf "%d:%d" (int_of_nat k) (int_of_nat v)

(* ids handed to a free callback: the non-NULL (non-zero) ones, in order *)
let released (proj : node -> nat) (l : node list) =
  String.concat "" (List.map (fun x -> " " ^ string_of_int x)
                      (List.filter (fun x -> x <> 0) (List.map (fun n -> int_of_nat (proj n)) l)))

let rec take n l = if n <= 0 then [] else match l with [] -> [] | x :: r -> x :: take (n - 1) r
let dump (h : heap) =
  let sz = int_of_nat h.hsize in
  let ns = match h.nodes with [] -> [] | _ :: r -> take sz r in
  Printf.printf "heap %d %d :%s\n" sz (int_of_nat h.hcap)
    (String.concat "" (List.map (fun n -> " " ^ str_node n) ns))

let do_sort algo mode n keys =
  let alloc = mode <> "fail" in
  let kf = mk_kf (Array.of_list keys) in
  let a = iota (nat_of_int n) in
  if mode = "nodiff" then print_endline "nodiff"
  else begin
    let pr ok l = Printf.printf "ret %d\nout%s\n" (if ok then 1 else 0) (str_ids l) in
    match algo with
    | "insertion" -> pr true (insertion_sort kf a)
    | "shell" -> (match shell_sort kf a with Some l -> pr true l | None -> print_endline "FUEL")
    | "heap" -> (match heap_sort kf alloc a with Some (l, ok) -> pr ok l | None -> print_endline "FUEL")
    | "merge" -> (match merge_sort kf alloc a with Some (l, ok) -> pr ok l | None -> print_endline "FUEL")
    | "quick" -> (match quick_sort kf a with Some l -> pr true l | None -> print_endline "FUEL-OR-OOB")
    | _ -> print_endline "?"
  end

let handle (lines : string list) : unit =
  let dumps = ref true in
  let dump_now = dump in
  let dump h = if !dumps then dump_now h in
  let st : heap option ref = ref None in
  let kf = ref (fun (_ : nat) -> Z0) in
  let nkeys = ref 0 in
  List.iter (fun l ->
    match words l with
    | "sorts" :: _ -> ()
    | "sort" :: algo :: mode :: n :: keys -> do_sort algo mode (int_of_string n) (ints keys)
    | "adv" :: _ -> print_endline "?"
    | "cmp" :: _ -> ()          (* the model's order is the key order whatever magnitudes the comparator returns *)
    | "dumps" :: w :: _ -> dumps := (w <> "off")
    | "heap" :: cap :: nk :: keys ->
      nkeys := int_of_string nk;
      kf := mk_kf (Array.of_list (0 :: ints keys));
      st := heap_init true (nat_of_int (int_of_string cap));
      (match !st with
       | Some h -> print_endline "init 1"; dump_now h
       | None -> print_endline "init 0"; print_endline "heap -")
    | op :: args ->
      (match !st with
       | None -> print_endline "noheap"
       | Some h ->
         let alloc = not (List.mem "F" args) in
         (* last token of rem / remf: which free callbacks are passed (default both) *)
         let cbk = not (List.mem "N" args || List.mem "V" args) in
         let cbv = not (List.mem "N" args || List.mem "K" args) in
         let clrmode = match args with m :: _ -> m | [] -> "" in
         let args = List.filter (fun w -> not (List.mem w ["F"; "N"; "K"; "V"; "C"])) args in
         let a = match args with
           | x :: _ -> (match int_of_string_opt x with Some n -> n | None -> 0)   (* `clr N|C` has no number *)
           | [] -> 0 in
         let b = match args with _ :: y :: _ -> int_of_string y | _ -> 0 in
         (match op with
          | "ins" ->
            if a < 1 || a > !nkeys || b < 0 || b >= 4096 then print_endline "?" else
            (match heap_insert !kf alloc h (nat_of_int a) (nat_of_int b) with
             | None -> print_endline "FUEL"
             | Some (h', ok) -> st := Some h'; Printf.printf "ins %d\n" (if ok then 1 else 0); dump h')
          | "ens" ->
            if a < 0 then print_endline "?" else
            let (h', ok) = heap_ensure_capacity alloc h (nat_of_int a) in
            st := Some h'; Printf.printf "ens %d\n" (if ok then 1 else 0); dump h'
          | "ext" ->
            (match heap_extract !kf h with
             | None -> print_endline "FUEL"
             | Some (h', r) -> st := Some h';
               (match r with Some nd -> Printf.printf "ext 1 %s\n" (str_node nd) | None -> print_endline "ext 0");
               dump h')
          | "root" ->
            (match heap_root h with Some nd -> Printf.printf "root %s\n" (str_node nd) | None -> print_endline "root -")
          | "find" ->
            if a < 1 || a > !nkeys then print_endline "?" else
            Printf.printf "find %d\n" (int_of_nat (heap_find !kf h (nat_of_int a)))
          | "rem" ->
            if a < 0 || a > int_of_nat h.hcap then print_endline "?" else
            (match heap_remove_cb !kf cbk cbv h (nat_of_int a) with
             | None -> print_endline "FUEL"
             | Some (h', r) -> st := Some h';
               (match r with Some nd -> Printf.printf "rem 1 %s\n" (str_node nd) | None -> print_endline "rem 0");
               dump h')
          | "remf" ->
            if a < 1 || a > !nkeys then print_endline "?" else
            let idx = heap_find !kf h (nat_of_int a) in
            if int_of_nat idx = 0 then (print_endline "remf 0"; dump h) else
            (match heap_remove_cb !kf cbk cbv h idx with
             | None -> print_endline "FUEL"
             | Some (h', r) -> st := Some h';
               (match r with
                | Some nd -> Printf.printf "remf %d 1 %s\n" (int_of_nat idx) (str_node nd)
                | None -> Printf.printf "remf %d 0 0:0\n" (int_of_nat idx));
               dump h')
          | "clr" ->
            (match clrmode with
             | "N" | "C" | "K" | "V" ->
               (* which callbacks are passed; each sees the non-NULL keys / values, in slot order *)
               let ck = (clrmode = "C" || clrmode = "K") and cv = (clrmode = "C" || clrmode = "V") in
               let (h', freed) = heap_clear_cb ck cv h in
               st := Some h';
               Printf.printf "clr K%s V%s\n" (released fst freed) (released snd freed);
               dump h'
             | _ -> print_endline "?")
          | "reinit" ->
            if a < 0 then print_endline "?" else begin
              let freed = heap_destroy h in
              Printf.printf "reinit K%s V%s\n" (released fst freed) (released snd freed);
              st := heap_init true (nat_of_int a);
              (match !st with
               | Some h' -> print_endline "init 1"; dump_now h'
               | None -> print_endline "init 0"; print_endline "heap -")
            end
          | "dump" -> dump_now h
          | "drain" ->
            let rec go h acc =
              if int_of_nat h.hsize = 0 then (h, acc) else
              match heap_extract !kf h with
              | Some (h', Some nd) -> go h' (acc ^ " " ^ str_node nd)
              | _ -> (h, acc ^ " !") in
            let (h', s) = go h "" in
            st := Some h'; Printf.printf "drain%s\n" s; dump h'
          | _ -> print_endline "?"))
    | [] -> ()) lines

let () = run_cases handle
