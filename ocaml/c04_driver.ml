(* C04 model driver: replays the implementation's scheduler trace on the extracted model
   (trace acceptance) and prints the model's own summary line. *)
let params = { mo_spin_tas = SeqCst; mo_spin_clear = SeqCst; mo_sync_cas = SeqCst; mo_sync_store = SeqCst;
               mo_once_cas = SeqCst; mo_once_store = SeqCst; mo_once_load = SeqCst; mo_ref_cas = SeqCst }
(* once-flag f is cell 2f ("flag", "flag1", ..), the plain work of its function cell 2f+1 ("body", "body1", ..);
   a cell the model does not know (e.g. a new static word in the library) gets an id no label carries *)
let suffix_num pre s =
  let lp = String.length pre and ls = String.length s in
  if ls > lp && String.sub s 0 lp = pre then int_of_string_opt (String.sub s lp (ls - lp)) else None
let cell_id = function
  | "lock" | "flag" | "ref" -> 0 | "cs" | "body" -> 1 | "-" -> 0
  | s -> (match suffix_num "flag" s, suffix_num "body" s with
          | Some k, _ -> 2 * k | _, Some k -> 2 * k + 1 | _ -> 99)
let choice_of op _a _b c =
  if op = "casw" && c = 2 then 1 else if op = "fwait" && c = 2 then 2 else if op = "fwait" && c = 3 then 3 else 0
let note_of text =
  match words text with
  | ["enter"] -> (1, 0) | ["enter"; "OVERLAP"] -> (2, 0) | ["exit"] -> (3, 0)
  | ["func-begin"; f] -> (4, int_of_string f) | ["func-end"; f] -> (5, int_of_string f)
  | ["ret"; f; d] -> (6, 2 * int_of_string f + int_of_string (String.sub d 5 (String.length d - 5)))
  | ["retain"; v] -> (7, int_of_string v) | ["release"; v] -> (8, int_of_string v)
  | _ -> (99, 0)
let rec upto n = if n <= 0 then [] else upto (n - 1) @ [n - 1]
let kind_of = function "spin" -> KSpin | "sync" -> KSync | "try" -> KTry | "nest" -> KNest | "nesttry" -> KNestTry | _ -> KMutex
(* call scripts of the once scenarios: "once n [calls]" = n threads calling flag 0 [calls] times;
   "oncem nflags s0 s1 .." = thread i calls the flags spelled by the digits of s_i *)
let once_scripts (w : string list) : (int * (nat -> nat list)) option =
  let mk arr = let n = Array.length arr in
    (n, fun t -> let i = int_of_nat t in if i < n then List.map nat_of_int arr.(i) else []) in
  match w with
  | "once" :: n :: rest ->
    let calls = (match rest with c :: _ -> min 60 (max 1 (int_of_string c)) | [] -> 1) in
    Some (mk (Array.make (int_of_string n) (List.init calls (fun _ -> 0))))
  | "oncem" :: nf :: scripts when scripts <> [] ->
    let nf = int_of_string nf in
    let arr = Array.of_list (List.map (fun sc -> List.init (String.length sc) (fun i -> Char.code sc.[i] - 48)) scripts) in
    if nf >= 1 && nf <= 4 && Array.for_all (fun l -> l <> [] && List.for_all (fun f -> f >= 0 && f < nf) l) arr
    then Some (mk arr) else None
  | _ -> None
let nflags_of = function "oncem" :: nf :: _ -> int_of_string nf | _ -> 1
let none_enabled step n st =
  List.for_all (fun t -> step st (nat_of_int t) O = None && step st (nat_of_int t) (S O) = None) (upto n)

let mo_of_string = function
  | "Rlx" -> Rlx | "Con" -> Con | "Acq" -> Acq | "Rel" -> Rel | "AcqRel" -> AcqRel | "SeqCst" -> SeqCst | _ -> MoNone
let params_of = function
  | [a; b; c; d; e; f; g; h] ->
    { mo_spin_tas = mo_of_string a; mo_spin_clear = mo_of_string b; mo_sync_cas = mo_of_string c;
      mo_sync_store = mo_of_string d; mo_once_cas = mo_of_string e; mo_once_store = mo_of_string f;
      mo_once_load = mo_of_string g; mo_ref_cas = mo_of_string h }
  | _ -> params

(* model-level search: random schedules of the MODEL under the given memory-order parameters,
   looking for a state in which a ghost monitor fires (overlap, uncovered plain read, early
   return).  Used only to produce a replay when a proof obligation about the parameters broke. *)
let explore_model (p : params) (scen : string list) (seed : int) (runs : int) : unit =
  Random.init seed;
  let found = ref false in
  let try_run (type s) (step : s -> nat -> nat -> (s * label) option) (st0 : s) (n : int) (bad : s -> string option) =
    let st = ref st0 and sched = ref [] and k = ref 0 in
    while not !found && !k < 400 do
      incr k;
      let t = Random.int n and c = if Random.int 4 = 0 then 1 else 0 in
      (match step !st (nat_of_int t) (nat_of_int c) with
       | Some (s', _) -> st := s'; sched := (t, c) :: !sched
       | None -> ());
      (match bad !st with
       | Some why ->
         found := true;
         Printf.printf "FOUND %s\n" why;
         Printf.printf "modelsched %s\n" (String.concat " " (List.rev_map (fun (t, c) -> Printf.sprintf "%d:%d" t c) !sched))
       | None -> ())
    done in
  let r = ref 0 in
  while not !found && !r < runs do
    incr r;
    (match scen with
     | ["lock"; k; n; it] ->
       let kind = kind_of k in
       let n = int_of_string n in
       try_run (lstep p true) (linit kind (nat_of_int n) (nat_of_int (int_of_string it))) n
         (fun st -> if int_of_nat (l_overlaps st) > 0 then Some "two holders at once in the model"
                    else if int_of_nat (l_uncovered st) > 0 then Some "a holder reads the protected cell without the previous holder's write being visible (view not covered)"
                    else None)
     | ("once" | "oncem") :: _ when once_scripts scen <> None ->
       let (n, scripts) = (match once_scripts scen with Some x -> x | None -> assert false) in
       let flags = upto (nflags_of scen) in
       try_run (ostep p) (oinit (nat_of_int n) scripts) n
         (fun st -> if List.exists (fun f -> int_of_nat (o_runs st (nat_of_int f)) > 1) flags then Some "function body ran twice in the model"
                    else if List.exists (fun f -> int_of_nat (o_early st (nat_of_int f)) > 0) flags then Some "a caller returned without the function's write being visible (view not covered)"
                    else None)
     | _ -> r := runs)
  done;
  if not !found then print_endline "NOTFOUND"

(* ---- value semantics of the atomic operations (Lib/AtomicTie.v: aop_sem), for the unhooked smoke run ---- *)
let bits_of = function "int" | "i32" -> Some 32 | "i64" -> Some 64 | "byte" -> Some 8 | _ -> None
let aop_of (variant : string) (tok : string) : aop option =
  let z = z_of_string in
  match String.split_on_char ':' tok, variant with
  | ["ld"], _ -> Some ALoad
  | ["st"; v], _ -> Some (AStore (z v))
  | ["xc"; v], ("int" | "i32" | "i64") -> Some (AXchg (z v))
  | [("cw" | "cs"); e; d], ("int" | "i32" | "i64") -> Some (ACas (z e, z d))
  | ["fa"; v], ("int" | "i32" | "i64") -> Some (AFadd (z v))
  | ["fs"; v], ("int" | "i32" | "i64") -> Some (AFsub (z v))
  | ["ts"], "byte" -> Some ATas
  | ["cl"], "byte" -> Some AClear
  | _ -> None
let atomics_single variant init ops =
  (match bits_of variant with
   | None -> Printf.printf "A bad-variant %s\n" variant
   | Some bits ->
     let b = z_of_int bits in
     let cell = ref (wraps b (z_of_string init)) in
     List.iter (fun tok ->
       match (try aop_of variant tok with _ -> None) with
       | None -> Printf.printf "A bad-op %s\n" tok
       | Some o ->
         let ((c, res), e) = aop_sem b !cell o in
         cell := c;
         Printf.printf "A %s res=%s exp=%s cell=%s\n" tok (string_of_z res) (string_of_z e) (string_of_z c)) ops);
  print_endline "F atomics"
(* two threads: the final values do not depend on the interleaving, so one schedule (thread 0 then thread 1)
   of the same operations on the model gives them *)
let atomics_pair variant iters =
  (match bits_of variant, int_of_string_opt iters with
   | Some bits, Some n when variant <> "byte" && n >= 0 && n <= 100000 ->
     let b = z_of_int bits in
     let run cell ops = fst (aop_run b cell ops) in
     let rep k f = List.concat (List.init k f) in
     let up = run Z0 (rep (2 * n) (fun _ -> [AFadd (z_of_int 1)])) in
     let down = run (z_of_int (2 * n)) (rep (2 * n) (fun _ -> [AFsub (z_of_int 1)])) in
     let cas = run Z0 (rep (2 * n) (fun i -> [ACas (z_of_int i, z_of_int (i + 1))])) in
     let held = ref 0 in
     let c = ref Z0 in
     for _ = 1 to 2 * n do
       let ((c1, r), _) = aop_sem (z_of_int 8) !c ATas in
       if string_of_z r = "1" then incr held;
       let ((c2, _), _) = aop_sem (z_of_int 8) c1 AClear in c := c2
     done;
     (* exchange: old values returned + final value - values stored - initial value *)
     let stored = List.concat (List.init 2 (fun me -> List.init n (fun i -> me * n + i + 1))) in
     let (fin, outs) = aop_run b (z_of_int 7) (List.map (fun v -> AXchg (z_of_int v)) stored) in
     let olds = List.fold_left (fun a (r, _) -> a + int_of_z r) 0 outs in
     let balance = olds + int_of_z fin - List.fold_left (+) 0 stored - 7 in
     Printf.printf "A2 fadd=%s fsub=%s cass=%s casw=%s lock=%d xchg=%d\n" (string_of_z up) (string_of_z down)
       (string_of_z cas) (string_of_z cas) !held balance
   | Some _, Some _ when variant <> "byte" -> print_endline "A2 bad-iters"
   | _ -> Printf.printf "A2 bad-variant %s\n" variant);
  print_endline "F atomics"

(* ---- what the REAL pthread run of muggle_mutex_* must print, read off the extracted lock model ---- *)
let run_steps step st l = List.fold_left (fun st (t, c) ->
  match step st (nat_of_int t) (nat_of_int c) with Some (s', _) -> s' | None -> st) st l
let mutex_real reps trace =
  let reps = max 1 (min 8 reps) in
  (* thread 0 holds the mutex (LStart, LAcq done); thread 1 is at its acquire operation *)
  let held k = run_steps (lstep params true) (linit k (nat_of_int 2) (nat_of_int 1)) [(0, 0); (0, 0); (1, 0)] in
  let lock_held = (match lstep params true (held KMutex) (nat_of_int 1) O with None -> "blocked" | Some _ -> "returned") in
  let try_held = (match lstep params true (held KTry) (nat_of_int 1) O with
                  | Some (_, LEv e) when int_of_z e.e_a = 0 -> "refused" | _ -> "ACQUIRED") in
  (* thread 0 of the nested client at its nested lock *)
  let nested = (let st = run_steps (lstep params true) (linit KNest (nat_of_int 2) (nat_of_int 1)) [(0, 0); (0, 0); (0, 0)] in
                match lstep params true st O O with None -> "blocked" | Some _ -> "returned OK-WHILE-HELD") in
  (* timing or thread creation trouble on the implementation side ("M inconclusive ..") is a harness matter,
     never a verdict: such a line is repeated as it is *)
  let impl = Array.of_list (List.filter (fun l -> String.length l > 2 && String.sub l 0 2 = "M ") trace) in
  let pos = ref 0 in
  let emit expected =
    (if !pos < Array.length impl && (match words impl.(!pos) with "M" :: "inconclusive" :: _ -> true | _ -> false)
     then print_endline impl.(!pos) else print_endline expected);
    incr pos in
  for _ = 1 to reps do
    emit "M init ok";
    emit "M lock free ok";
    emit ("M trylock held " ^ try_held);
    emit (if lock_held = "blocked" then "M lock held blocked then ok unlock ok" else "M lock held returned OK-WHILE-HELD");
    emit "M trylock free ok";
    emit ("M nested lock by the owner " ^ nested)
  done;
  print_endline "F mutexreal"

let handle (lines : string list) : unit =
  let rec split acc = function
    | "TRACE" :: rest -> (List.rev acc, rest)
    | x :: rest -> split (x :: acc) rest
    | [] -> (List.rev acc, []) in
  let (cfg, trace) = split [] lines in
  let scen = ref [] and prm = ref params and explore = ref None in
  List.iter (fun l -> match words l with
    | ("lock" | "once" | "oncem" | "refcnt" | "atomics" | "atomics2" | "mutexreal") :: _ as w -> scen := w
    | "params" :: ps -> prm := params_of ps
    | ["explore"; sd; runs] -> explore := Some (int_of_string sd, int_of_string runs)
    | _ -> ()) cfg;
  match !explore with
  | Some (sd, runs) -> explore_model !prm !scen sd runs
  | None ->
  match !scen with
  | ["lock"; k; n; it] ->
    let kind = kind_of k in
    let n = int_of_string n in
    let st0 = linit kind (nat_of_int n) (nat_of_int (int_of_string it)) in
    let step = lstep params true in
    let (st, ok) = accept_trace step st0 cell_id choice_of note_of (none_enabled step n) trace in
    if ok then Printf.printf "F counter=%s overlaps=%d\n" (string_of_z (l_counter st)) (int_of_nat (l_overlaps st))
  | ("once" | "oncem") :: _ when once_scripts !scen <> None ->
    let (n, scripts) = (match once_scripts !scen with Some x -> x | None -> assert false) in
    let step = ostep params in
    let (st, ok) = accept_trace step (oinit (nat_of_int n) scripts) cell_id choice_of note_of (none_enabled step n) trace in
    if ok then begin
      Printf.printf "F runs=%d done=%s\n" (int_of_nat (o_runs st O)) (string_of_z (o_done st O));
      List.iter (fun f -> if f > 0 then
        Printf.printf "F flag%d runs=%d done=%s\n" f (int_of_nat (o_runs st (nat_of_int f))) (string_of_z (o_done st (nat_of_int f))))
        (upto (nflags_of !scen))
    end
  | ["mutexreal"; reps] -> mutex_real (int_of_string reps) trace
  | "refcnt" :: v :: scripts ->
    let v = int_of_string v in
    if v <= 0 then print_endline "F refinit -1" else begin
      print_endline "F refinit 0";
      let arr = Array.of_list (List.map (fun s ->
        List.filter_map (fun ch -> match ch with 'r' -> Some Retain | 'd' -> Some Release | _ -> None)
          (List.init (String.length s) (String.get s))) scripts) in
      let n = Array.length arr in
      let st0 = rinit (nat_of_int n) (z_of_int v) (fun t -> let i = int_of_nat t in if i < n then arr.(i) else []) in
      let step = rstep params in
      let (st, ok) = accept_trace step st0 cell_id choice_of note_of (none_enabled step n) trace in
      if ok then begin
        (* v + 1 computed at INT_MAX is undefined in C: no agreement is claimed for such a run *)
        if int_of_nat (r_ovf st) > 0 then print_endline "F signed-overflow-in-retain";
        Printf.printf "F ref=%s\n" (string_of_z (r_ref st))
      end
    end
  | "atomics" :: variant :: init :: ops -> atomics_single variant init ops
  | ["atomics2"; variant; iters] -> atomics_pair variant iters
  | _ -> print_endline "F badcase"

let () = run_cases handle
