(* C09 model driver: same line protocol as harness/drivers/c09_driver.c
   In addition to the functional models (Model.v) the heap-level models
   (ModelHeap.v: node ids, left/right/parent and prev/next links) are run
   alongside on short cases; the "chk" line fails when the heap program gets
   stuck, answers differently, no longer reads back as the functional tree /
   bucket, or has an inconsistent parent / prev link.
   header:  avl <cap> [cmp] | ht <cap> <table_size> <id|zero|low|mul|def|defb> [cmp] | trie <cap>
            (cmp = magnitude of the comparator's result: not visible in the model)
   avl ops: ins k v | find k | rem k [fk fv]    -> result / ["own a b"] / "t <pre-order dump>" / "chk ..."
            insq k v | remq k [fk fv] -> result / ["own a b"] only;  check -> "t ..." / "chk ..."
   ht ops : put k v | find k | rem k [fk fv] | clear [fk fv] | dump -> result / ["own a b"] / "chk ok n=<count>"
   trie   : ins <hex> v | find <hex> | rem <hex> [f] | dump -> one result line (+ "own a" after rem)
   allocation failure: header word "const" = the node pool (capacity <cap>) cannot grow, so the allocation of
   a node fails when <cap> nodes are in use (the model counts its nodes); op "failat j" = the j-th allocation
   inside the next insert / put fails (no output).  Both become the oracle of the *_step_o functions.
   fk / fv / f: the free callback is passed (1, default) or NULL (0); own: what went through the callbacks
   (the node-pool capacity is ignored by the model: allocation is not modelled) *)

let zcmp a b = if Z.ltb a b then -1 else if Z.ltb b a then 1 else 0

let rec dump_tree buf = function
  | Leaf -> Buffer.add_string buf " ."
  | Node (l, k, v, b, r) ->
    Buffer.add_string buf (Printf.sprintf " %s=%s:%s" (string_of_z k) (string_of_z v) (string_of_z b));
    dump_tree buf l; dump_tree buf r

let heap_limit = 48   (* the heap models are closures over nat ids: only short cases *)

let print_avl t (hs : (hst * bool) option) =
  let buf = Buffer.create 256 in
  dump_tree buf t;
  print_string "t"; print_endline (Buffer.contents buf);
  let heap_verdict = match hs with
    | None -> None
    | Some (_, false) -> Some "heap-model stuck or answered differently"
    | Some (s, true) ->
      (match habs s.hnext s.hheap s.hroot with
       | Some t' when t' = t ->
         if hparents_ok s.hnext s.hheap s.hroot None then None else Some "heap-model parent link"
       | _ -> Some "heap-model tree differs") in
  print_endline (if not (avl_okb t) then "chk FAIL model-invariant"
                 else match heap_verdict with None -> "chk ok" | Some w -> "chk FAIL " ^ w)

let opt_line tag = function
  | Some v -> print_endline (tag ^ " " ^ string_of_z v)
  | None -> print_endline (tag ^ " none")

let bytes_of_hex (s : string) : z list =
  if s = "-" then [] else
    List.init (String.length s / 2) (fun i -> z_of_int (int_of_string ("0x" ^ String.sub s (2 * i) 2)))

let hex_of_bytes (l : z list) : string =
  if l = [] then "-" else String.concat "" (List.map (fun c -> Printf.sprintf "%02x" (int_of_z c)) l)

let bytes_of_string (s : string) : z list =
  List.init (String.length s) (fun i -> z_of_int (Char.code s.[i]))

let flag w = w <> "0"
let own2 (a, b) = print_endline ("own " ^ string_of_bool01 a ^ " " ^ string_of_bool01 b)
(* decimal string of the key with bit 7 set in every other byte (kind defb) *)
let hi_bytes (s : string) : z list =
  List.init (String.length s) (fun i -> z_of_int (if i mod 2 = 0 then Char.code s.[i] lor 0x80 else Char.code s.[i]))

(* oracle of the next insert: [used] nodes are drawn from a pool of [cap] nodes that cannot grow (const),
   and / or the j-th allocation of the call fails (failat) *)
let pending_fail = ref 0
let budget (is_const : bool) (cap : int) (used : int) : nat option =
  let a = if is_const && cap > 0 then Some (max 0 (cap - used)) else None in
  let b = if !pending_fail > 0 then Some (!pending_fail - 1) else None in
  pending_fail := 0;
  match a, b with
  | None, None -> None
  | Some x, None | None, Some x -> Some (nat_of_int x)
  | Some x, Some y -> Some (nat_of_int (min x y))
let is_const_hdr hd = List.mem "const" (words hd)
let cap_of hd = (match words hd with _ :: c :: _ -> (try int_of_string c with _ -> 0) | _ -> 0)

let ht_count (t : ht) = List.fold_left (fun a b -> a + List.length b) 0 t.ht_buckets

let rec trie_dump (prefix : z list) (t : trie) (acc : (z list * z) list ref) =
  match t with
  | TNode (d, ch) ->
    (match d with Some v -> acc := (List.rev prefix, v) :: !acc | None -> ());
    let ch = List.sort (fun (a, _) (b, _) -> zcmp a b) ch in
    List.iter (fun (i, c) -> if int_of_z i <> 0 then trie_dump (i :: prefix) c acc) ch

let handle (lines : string list) : unit =
  match lines with
  | [] -> ()
  | hd :: ops ->
    pending_fail := 0;
    let is_const = is_const_hdr hd and cap = cap_of hd in
    let set_fail l = (match words l with ["failat"; j] -> pending_fail := int_of_string j; true | _ -> false) in
    let ops = ops in
    (match words hd with
     | "avl" :: _ ->
       print_endline "init ok";
       let t = ref Leaf in
       let hs = ref (if List.length ops <= heap_limit then Some (havl_init, true) else None) in
       let hstep o expect =
         (match !hs with
          | Some (s, true) ->
            (match havl_step s o with
             | Some (s', r) -> hs := Some (s', r = expect)
             | None -> hs := Some (s, false))
          | _ -> ()) in
       List.iter (fun l ->
         match words l with
         | ["failat"; _] -> ignore (set_fail l)
         | ("ins" | "insq" as w) :: k :: v :: [] ->
           let b = budget is_const cap (int_of_nat (avl_size !t)) in
           let (t', r) = avl_step_o !t (OpA (Ins (z_of_string k, z_of_string v), b)) in
           let ok = (match r with RIns x -> x | _ -> false) in
           let refused = (b = Some O) in
           t := t';
           (* a refused allocation: the pointer program is not run (nothing changes) *)
           if not refused then hstep (Ins (z_of_string k, z_of_string v)) (RIns ok);
           print_endline ("ins " ^ string_of_bool01 ok);
           if w = "ins" then print_avl !t !hs
         | ["find"; k] ->
           let r = avl_find (z_of_string k) !t in
           hstep (Find (z_of_string k)) (RFind r); opt_line "find" r; print_avl !t !hs
         | ("rem" | "remq" as w) :: k :: fl ->
           let (fk, fv) = (match fl with [a; b] -> (flag a, flag b) | _ -> (true, true)) in
           let (t', (r, o)) = avl_step_cb !t (OpF (Rem (z_of_string k), fk, fv)) in
           let ok = (match r with RRem b -> b | _ -> false) in
           t := t'; hstep (Rem (z_of_string k)) (RRem ok);
           print_endline ("rem " ^ string_of_bool01 ok); own2 o;
           if w = "rem" then print_avl !t !hs
         | ["check"] -> print_avl !t !hs
         | _ -> print_endline "?") ops
     | "ht" :: _ :: ts :: kind :: _ ->
       print_endline "init ok";
       let hash = match kind with
         | "id" -> hash_id | "zero" -> hash_zero | "low" -> hash_low | "mul" -> hash_mul
         | "defb" -> (fun k -> str_hash (hi_bytes (string_of_z k)))
         | _ -> (fun k -> str_hash (bytes_of_string (string_of_z k))) in
       let t = ref (ht_init (z_of_string ts)) in
       let small = List.length ops <= heap_limit && int_of_z !t.ht_size <= 64 in
       let hs = ref (if small then Some (hht_init (z_of_string ts), true) else None) in
       let hstep o expect =
         (match !hs with
          | Some (s, true) ->
            (match hht_step hash s o with
             | Some (s', r) -> hs := Some (s', r = expect)
             | None -> hs := Some (s, false))
          | _ -> ()) in
       let heap_ok () = match !hs with
         | None -> true
         | Some (_, false) -> false
         | Some (s, true) ->
           let ok = ref true in
           List.iteri (fun i b -> if hht_bucket hash s (nat_of_int i) <> Some b then ok := false) !t.ht_buckets;
           !ok in
       let chk () =
         if heap_ok () then print_endline (Printf.sprintf "chk ok n=%d" (ht_count !t))
         else print_endline "chk FAIL heap-model" in
       List.iter (fun l ->
         match words l with
         | ["failat"; _] -> ignore (set_fail l)
         | ["put"; k; v] ->
           let b = budget is_const cap (ht_count !t) in
           let (t', r) = ht_step_o hash !t (OpA (Ins (z_of_string k, z_of_string v), b)) in
           let ok = (match r with RIns x -> x | _ -> false) in
           t := t';
           if b <> Some O then hstep (Ins (z_of_string k, z_of_string v)) (RIns ok);
           print_endline ("put " ^ string_of_bool01 ok); chk ()
         | ["find"; k] ->
           let r = ht_find hash !t (z_of_string k) in
           hstep (Find (z_of_string k)) (RFind r); opt_line "find" r; chk ()
         | "rem" :: k :: fl ->
           let (fk, fv) = (match fl with [a; b] -> (flag a, flag b) | _ -> (true, true)) in
           let (t', (r, o)) = ht_step_cb hash !t (OpF (Rem (z_of_string k), fk, fv)) in
           let ok = (match r with RRem b -> b | _ -> false) in
           t := t'; hstep (Rem (z_of_string k)) (RRem ok);
           print_endline ("rem " ^ string_of_bool01 ok); own2 o; chk ()
         | "clear" :: fl ->
           let (fk, fv) = (match fl with [a; b] -> (flag a, flag b) | _ -> (true, true)) in
           let ((t', n), (nk, nv)) = ht_clear_cb fk fv !t in
           t := t'; hs := None;      (* the heap-level model has no clear *)
           print_endline ("clear " ^ string_of_z n);
           print_endline ("own " ^ string_of_z nk ^ " " ^ string_of_z nv); chk ()
         | ["hash"; k] ->
           (* value of the table's hash function on this key (default string hash for kind def) *)
           print_endline ("hash " ^ string_of_z (hash (z_of_string k))); chk ()
         | ["where"; k] ->
           (* index of the bucket whose chain holds the key *)
           (match ht_find hash !t (z_of_string k) with
            | Some _ -> print_endline (Printf.sprintf "where %d" (int_of_nat (ht_idx hash !t (z_of_string k))))
            | None -> print_endline "where none");
           chk ()
         | ["dump"] ->
           let all = List.sort (fun (a, _) (b, _) -> zcmp a b) (List.concat !t.ht_buckets) in
           print_endline (String.concat " " ("d" :: List.map (fun (k, v) -> string_of_z k ^ "=" ^ string_of_z v) all));
           chk ()
         | _ -> print_endline "?") ops
     | "trie" :: _ ->
       print_endline "init ok";
       let t = ref trie_empty in
       List.iter (fun l ->
         match words l with
         | ["failat"; _] -> ignore (set_fail l)
         | ["ins"; k; v] ->
           let b = budget is_const cap (int_of_nat (trie_nodes !t)) in
           let (t', r) = trie_step_o !t (OpA (Ins (bytes_of_hex k, z_of_string v), b)) in
           t := t';
           print_endline ("ins " ^ (match r with RIns true -> "1" | _ -> "0"))
         | ["find"; k] -> opt_line "find" (trie_lookup !t (bytes_of_hex k))
         | "rem" :: k :: fl ->
           let f = (match fl with [a] -> flag a | _ -> true) in
           let (t', (r, (_, rv))) = trie_step_cb !t (OpF (Rem (bytes_of_hex k), true, f)) in
           let ok = (match r with RRem b -> b | _ -> false) in
           t := t'; print_endline ("rem " ^ string_of_bool01 ok);
           print_endline ("own " ^ string_of_bool01 rv)
         | ["dump"] ->
           let acc = ref [] in
           (match !t with TNode (_, ch) ->
              (* the empty key lives in root.children[0] *)
              List.iter (fun (i, c) -> if int_of_z i = 0 then
                            match c with TNode (Some v, _) -> acc := ([], v) :: !acc | _ -> ()) ch);
           trie_dump [] (match !t with TNode (_, ch) -> TNode (None, ch)) acc;
           print_endline (String.concat " " ("d" :: List.map (fun (k, v) -> hex_of_bytes k ^ "=" ^ string_of_z v) (List.rev !acc)))
         | _ -> print_endline "?") ops
     | _ -> print_endline "bad header")

let () = run_cases handle
