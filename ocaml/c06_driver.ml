(* C06 model driver: same line protocol as harness/drivers/c06_driver.c.
   C06_MODEL_VARIANT=orig runs the model of the code as found (fx = false);
   default is the repaired code (fx = true). *)
let fx = (try Sys.getenv "C06_MODEL_VARIANT" <> "orig" with Not_found -> true)
let i64 = function Z0 -> 0L | Zpos p -> int64_of_pos p | Zneg p -> Int64.neg (int64_of_pos p)
let max_req = z_of_int 1073741824

let ident (s : pool) ((k, off) : blk) : string =
  let ki = int_of_z k in
  match List.nth_opt s.slabs ki with
  | None -> "outside"
  | Some (sz, _) ->
    if not (Z.ltb off sz) then "outside"
    else begin
      let o = i64 off and b = i64 s.block_size and z = i64 sz in
      let q = Int64.unsigned_div o b and r = Int64.unsigned_rem o b in
      let whole = r = 0L && Int64.unsigned_compare (Int64.add o b) z <= 0 in
      if r = 0L then Printf.sprintf "%d:%Lu%s" ki q (if whole then "" else "+0!")
      else Printf.sprintf "%d:%Lu+%Lu" ki q r
    end

let state_line head (s : pool) =
  let lastsz = match List.rev s.slabs with (sz, _) :: _ -> string_of_z sz | [] -> "-1" in
  Printf.printf "%s cap=%s used=%s nslab=%d lastsz=%s\n" head (string_of_z s.capacity) (string_of_z s.used)
    (List.length s.slabs) lastsz

let rec remove_at k = function [] -> [] | x :: r -> if k = 0 then r else x :: remove_at (k - 1) r

let handle (lines : string list) : unit =
  let st : pool option ref = ref None in
  let live : blk list ref = ref [] in
  let fail_at = ref 0 in
  let oracle () = let fa = !fail_at in
    (fun (k : nat) (sz : z) -> not (int_of_nat k + 1 = fa) && Z.leb sz max_req) in
  let drop () =
    (match !st with
     | Some s -> let n = List.length (destroy s) in
       Printf.printf "destroy slabs=%d released=%d leaked=0\n" n (n + 2)
     | None -> ());
    st := None; live := [] in
  List.iter (fun l ->
    match words l with
    | ["init"; c; b] ->
      drop ();
      let r = init fx (oracle ()) (z_of_string c) (z_of_string b) in
      fail_at := 0;
      (match r with
       | Some s -> st := r; state_line ("init ok mdc=" ^ string_of_z s.max_delta_cap) s
       | None -> print_endline "init fail leaked=0")
    | ["failnext"; k] -> fail_at := int_of_string k; Printf.printf "failnext %d\n" !fail_at
    | w ->
      (match !st with
       | None -> print_endline "nopool"
       | Some s ->
         (match w with
          | ["alloc"] ->
            let (s', r) = alloc fx (oracle ()) s in
            fail_at := 0; st := Some s';
            (match r with
             | None -> state_line "alloc NULL" s'
             | Some b -> live := !live @ [b]; state_line ("alloc " ^ ident s' b) s')
          | ["free"; k] ->
            let k = int_of_string k in
            (match List.nth_opt !live k with
             | None -> print_endline "free none"
             | Some b ->
               let id = ident s b in
               live := remove_at k !live;
               let s' = free s b in
               fail_at := 0; st := Some s'; state_line ("free " ^ id) s')
          | ["ensure"; n] ->
            let (s', ok) = ensure_space fx (oracle ()) s (z_of_string n) in
            fail_at := 0; st := Some s'; state_line (if ok then "ensure 1" else "ensure 0") s'
          | ["flag"; v] -> let s' = set_flag s (z_of_string v) in st := Some s';
            Printf.printf "flag %s\n" (string_of_z (get_flag s'))
          | ["maxdelta"; v] -> let s' = set_max_delta_cap s (z_of_string v) in st := Some s';
            Printf.printf "maxdelta %s\n" (string_of_z s'.max_delta_cap)
          | ["wrapprobe"; c; m] ->
            let c = z_of_string c and m = z_of_string m in
            let delta = if Z.ltb Z0 m && Z.ltb m c then m else c in
            if Z.eqb c Z0 || Z.ltb (Z.add c delta) two32 || not (Z.ltb s.used s.capacity)
            then print_endline "wrapprobe skip"
            else begin
              let fake = { s with capacity = c; used = c; max_delta_cap = m } in
              let (_, r) = alloc fx (fun _ _ -> false) fake in
              print_endline (match r with None -> "wrapprobe NULL" | Some _ -> "wrapprobe BLOCK")
            end
          | ["destroy"] -> drop ()
          | _ -> print_endline "?"))) lines;
  drop ()

let () = run_cases handle
